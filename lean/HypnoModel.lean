-- Root of the HypnoModel library: models (HypnoModel/Model), helper lemmas (HypnoModel/Lemmas),
-- generated definitions (HypnoModel/Gen) and property theorems (HypnoModel/Props).
import HypnoModel.Model.Scan
import HypnoModel.Model.Geqdsk
import HypnoModel.Drv.Util
import HypnoModel.Drv.C17
import HypnoModel.Lemmas.Geqdsk
import HypnoModel.Model.ParMap
import HypnoModel.Drv.C13
import HypnoModel.Props.C17
import HypnoModel.Props.C13
import HypnoModel.Model.Topology
import HypnoModel.Model.Tiling
import HypnoModel.Drv.C08
import HypnoModel.Props.C08
import HypnoModel.Model.Intersect
import HypnoModel.Drv.C20
import HypnoModel.Lemmas.Intersect
import HypnoModel.Props.C20
import HypnoModel.Drv.All
import HypnoModel.Gen.Spacing
import HypnoModel.Lemmas.Spacing
import HypnoModel.Props.C09
import HypnoModel.Gen.Metric
import HypnoModel.Gen.PolSpacing
import HypnoModel.Lemmas.Metric
import HypnoModel.Props.C02
