/- helper lemmas for C04: `followRev`, `lmin`/`lmax`, the partition of a monotone list at ψ₀, `follow` on monotone lists, and the
   assembly of the followed lines into contours (HypnoModel/Model/Perp.lean).
   Auxiliary definitions: `WeakMono` (weakly increasing or weakly decreasing list), `assembleWith` (= `assemble` with the two
   generated orientation tests replaced by two booleans), `radialOrder`. -/
import HypnoModel.Model.Perp
import Mathlib.Order.Defs.LinearOrder
import Mathlib.Order.Basic
import Mathlib.Data.List.Basic

namespace Perp

/-! ### cases 2/3 -/
section followRev
variable {α : Type} [LT α] [DecidableLT α] [Sub α] [Neg α] [Zero α] {P : Type}

/-- both branches of cases 2/3 give the flow at the requested values in the order requested -/
theorem followRev_map (flow : α → P) (psi0 : α) (vs : List α) : followRev flow psi0 vs = vs.map flow := by
  unfold followRev followBase
  cases vs with
  | nil => rfl
  | cons a l =>
    cases h : (a :: l).getLast? with
    | none => simp at h
    | some b =>
      simp only [List.head?_cons]
      split_ifs
      · rw [List.map_reverse, List.reverse_reverse]
      · rfl

end followRev

section order
variable {α : Type} [LinearOrder α]

/-! ### lmin, lmax of a non-empty list exist -/

theorem lmin_cons (a : α) (l : List α) : ∃ m, lmin (a :: l) = some m := by
  have key : ∀ (l : List α) (m : α), ∃ y,
      l.foldl (fun m x => match m with | none => some x | some y => if x < y then some x else some y) (some m) = some y := by
    intro l
    induction l with
    | nil => intro m; exact ⟨m, rfl⟩
    | cons x l ih =>
      intro m
      simp only [List.foldl_cons]
      split_ifs
      · exact ih x
      · exact ih m
  exact key l a

theorem lmax_cons (a : α) (l : List α) : ∃ m, lmax (a :: l) = some m := by
  have key : ∀ (l : List α) (m : α), ∃ y,
      l.foldl (fun m x => match m with | none => some x | some y => if y < x then some x else some y) (some m) = some y := by
    intro l
    induction l with
    | nil => intro m; exact ⟨m, rfl⟩
    | cons x l ih =>
      intro m
      simp only [List.foldl_cons]
      split_ifs
      · exact ih x
      · exact ih m
  exact key l a

/-! ### the partition at ψ₀ -/

theorem filter_of_all_ge (psi0 : α) (vs : List α) (h : ∀ x ∈ vs, psi0 ≤ x) :
    vs.filter (fun x => decide (x < psi0)) = [] ∧ vs.filter (fun x => decide (psi0 ≤ x)) = vs := by
  constructor
  · rw [List.filter_eq_nil_iff]
    intro x hx
    simpa using h x hx
  · rw [List.filter_eq_self]
    intro x hx
    simpa using h x hx

theorem filter_of_all_lt (psi0 : α) (vs : List α) (h : ∀ x ∈ vs, x < psi0) :
    vs.filter (fun x => decide (x < psi0)) = vs ∧ vs.filter (fun x => decide (psi0 ≤ x)) = [] := by
  constructor
  · rw [List.filter_eq_self]
    intro x hx
    simpa using h x hx
  · rw [List.filter_eq_nil_iff]
    intro x hx
    simpa using h x hx

/-- a weakly increasing list is its `< ψ₀` part followed by its `≥ ψ₀` part -/
theorem filter_lt_append_filter_ge (psi0 : α) : ∀ (vs : List α), vs.Pairwise (· ≤ ·) →
    vs.filter (fun x => decide (x < psi0)) ++ vs.filter (fun x => decide (psi0 ≤ x)) = vs
  | [], _ => rfl
  | a :: l, h => by
    rw [List.pairwise_cons] at h
    by_cases ha : a < psi0
    · have hna : ¬ psi0 ≤ a := not_le.mpr ha
      simp only [List.filter_cons, ha, hna, decide_true, decide_false, if_true, Bool.false_eq_true, if_false,
        List.cons_append]
      rw [filter_lt_append_filter_ge psi0 l h.2]
    · have hall : ∀ x ∈ a :: l, psi0 ≤ x := by
        intro x hx
        rcases List.mem_cons.mp hx with rfl | hx
        · exact not_lt.mp ha
        · exact le_trans (not_lt.mp ha) (h.1 x hx)
      obtain ⟨h1, h2⟩ := filter_of_all_ge psi0 (a :: l) hall
      rw [h1, h2, List.nil_append]

/-- a weakly decreasing list is its `≥ ψ₀` part followed by its `< ψ₀` part -/
theorem filter_ge_append_filter_lt (psi0 : α) : ∀ (vs : List α), vs.Pairwise (· ≥ ·) →
    vs.filter (fun x => decide (psi0 ≤ x)) ++ vs.filter (fun x => decide (x < psi0)) = vs
  | [], _ => rfl
  | a :: l, h => by
    rw [List.pairwise_cons] at h
    by_cases ha : a < psi0
    · have hall : ∀ x ∈ a :: l, x < psi0 := by
        intro x hx
        rcases List.mem_cons.mp hx with rfl | hx
        · exact ha
        · exact lt_of_le_of_lt (h.1 x hx) ha
      obtain ⟨h1, h2⟩ := filter_of_all_lt psi0 (a :: l) hall
      rw [h1, h2, List.nil_append]
    · have hna : psi0 ≤ a := not_lt.mp ha
      simp only [List.filter_cons, ha, hna, decide_true, decide_false, if_true, Bool.false_eq_true, if_false,
        List.cons_append]
      rw [filter_ge_append_filter_lt psi0 l h.2]

/-- weakly increasing or weakly decreasing -/
def WeakMono (vs : List α) : Prop := vs.Pairwise (· ≤ ·) ∨ vs.Pairwise (· ≥ ·)

theorem WeakMono.of_strict {vs : List α} (h : vs.Pairwise (· < ·) ∨ vs.Pairwise (· > ·)) : WeakMono vs := by
  rcases h with h | h
  · exact Or.inl (h.imp le_of_lt)
  · exact Or.inr (h.imp le_of_lt)

theorem WeakMono.reverse {vs : List α} (h : WeakMono vs) : WeakMono vs.reverse := by
  rcases h with h | h
  · exact Or.inr (List.pairwise_reverse.mpr h)
  · exact Or.inl (List.pairwise_reverse.mpr h)

end order

/-! ### followPerpendicular on a monotone list -/
section follow
variable {α : Type} [LinearOrder α] [Sub α] [Neg α] [Zero α] {P : Type}

/-- on a (weakly) monotone list of requested values followPerpendicular returns the flow at the values in the order given,
    wherever ψ₀ lies -/
theorem follow_map_of_weakMono (flow : α → P) (psi0 : α) (vs : List α) (h : WeakMono vs) :
    follow flow psi0 vs = vs.map flow := by
  cases vs with
  | nil => rfl
  | cons a l =>
    obtain ⟨lo, hlo⟩ := lmin_cons a l
    obtain ⟨hi, hhi⟩ := lmax_cons a l
    unfold follow
    rw [hlo, hhi]
    simp only [List.head?_cons, followRev_map]
    split_ifs with hin hfirst
    · -- first < ψ₀: left = the `< ψ₀` part
      rw [List.map_reverse, List.reverse_reverse, ← List.map_append]
      rcases h with h | h
      · rw [filter_lt_append_filter_ge psi0 _ h]
      · have hall : ∀ x ∈ a :: l, x < psi0 := by
          intro x hx
          rcases List.mem_cons.mp hx with rfl | hx
          · exact hfirst
          · exact lt_of_le_of_lt ((List.pairwise_cons.mp h).1 x hx) hfirst
        obtain ⟨h1, h2⟩ := filter_of_all_lt psi0 (a :: l) hall
        rw [h1, h2, List.append_nil]
    · -- first ≥ ψ₀: left = the `≥ ψ₀` part
      rw [List.map_reverse, List.reverse_reverse, ← List.map_append]
      rcases h with h | h
      · have hall : ∀ x ∈ a :: l, psi0 ≤ x := by
          intro x hx
          rcases List.mem_cons.mp hx with rfl | hx
          · exact not_lt.mp hfirst
          · exact le_trans (not_lt.mp hfirst) ((List.pairwise_cons.mp h).1 x hx)
        obtain ⟨h1, h2⟩ := filter_of_all_ge psi0 (a :: l) hall
        rw [h1, h2, List.append_nil]
      · rw [filter_ge_append_filter_lt psi0 _ h]
    · rfl

end follow

/-! ### assembling the contours -/

/-- `assemble` with the two generated orientation tests replaced by booleans: `rb` = follow the psi values in reverse,
    `ra` = reverse the followed lines back -/
def assembleWith {α P : Type} [LT α] [DecidableLT α] [LE α] [DecidableLE α] [Sub α] [Neg α] [Zero α] (rb ra : Bool)
    (flows : Nat → α → P) (psi0s : Nat → α) (nskel : Nat) (psiVals : List α) : List (List P) :=
  let temp := if rb then psiVals.reverse else psiVals
  let lines := (List.range nskel).map fun j =>
    let l := follow (flows j) (psi0s j) temp
    if ra then l.reverse else l
  (List.range psiVals.length).map fun i => lines.filterMap fun l => l[i]?

theorem assemble_eq_assembleWith {α P : Type} [LT α] [DecidableLT α] [LE α] [DecidableLE α] [Sub α] [Neg α] [Zero α]
    (flows : Nat → α → P) (psi0s : Nat → α) (nskel : Nat) (psiVals : List α) (ri si : Nat) :
    assemble flows psi0s nskel psiVals ri si =
      assembleWith (Gen.Pipeline.reverseBefore ri si) (Gen.Pipeline.reverseAfter ri si) flows psi0s nskel psiVals := rfl

/-- the radial order in which the contours come out: that of `psiVals` when the two reversals agree, reversed otherwise -/
def radialOrder {α : Type} (rb ra : Bool) (psiVals : List α) : List α := if rb = ra then psiVals else psiVals.reverse

theorem radialOrder_length {α : Type} (rb ra : Bool) (psiVals : List α) :
    (radialOrder rb ra psiVals).length = psiVals.length := by
  unfold radialOrder; split_ifs <;> simp

section assemble
variable {α : Type} [LinearOrder α] [Sub α] [Neg α] [Zero α] {P : Type}

/-- for monotone psi values the contours are the transposed lines, line j being the flow from skeleton point j at the psi
    values in `radialOrder` -/
theorem assembleWith_eq (rb ra : Bool) (flows : Nat → α → P) (psi0s : Nat → α) (nskel : Nat) (psiVals : List α)
    (h : WeakMono psiVals) :
    assembleWith rb ra flows psi0s nskel psiVals =
      (List.range psiVals.length).map fun i =>
        (List.range nskel).filterMap fun j => ((radialOrder rb ra psiVals).map (flows j))[i]? := by
  unfold assembleWith radialOrder
  simp only [List.filterMap_map]
  congr 1
  funext i
  congr 1
  funext j
  cases rb <;> cases ra <;>
    simp [follow_map_of_weakMono _ _ _ h, follow_map_of_weakMono _ _ _ h.reverse, List.map_reverse]

/-- entry (i, j) of the assembled contours -/
theorem assembleWith_get (rb ra : Bool) (flows : Nat → α → P) (psi0s : Nat → α) (nskel : Nat) (psiVals : List α)
    (h : WeakMono psiVals) (i j : Nat) (v : α) (hv : (radialOrder rb ra psiVals)[i]? = some v) (hj : j < nskel) :
    (assembleWith rb ra flows psi0s nskel psiVals)[i]?.bind (·[j]?) = some (flows j v) := by
  have hi : i < psiVals.length := by
    rw [← radialOrder_length rb ra]
    exact (List.getElem?_eq_some_iff.mp hv).1
  have hfun : (fun j => ((radialOrder rb ra psiVals).map (flows j))[i]?) = some ∘ (fun j => flows j v) := by
    funext j
    simp [hv]
  rw [assembleWith_eq rb ra flows psi0s nskel psiVals h, List.getElem?_map, List.getElem?_range hi]
  simp only [Option.map_some, Option.bind_some]
  rw [hfun, List.filterMap_eq_map, List.getElem?_map, List.getElem?_range hj, Option.map_some]

/-- as many contours as psi values, each with one point per skeleton point -/
theorem assembleWith_dims (rb ra : Bool) (flows : Nat → α → P) (psi0s : Nat → α) (nskel : Nat) (psiVals : List α)
    (h : WeakMono psiVals) :
    (assembleWith rb ra flows psi0s nskel psiVals).length = psiVals.length ∧
      ∀ c ∈ assembleWith rb ra flows psi0s nskel psiVals, c.length = nskel := by
  rw [assembleWith_eq rb ra flows psi0s nskel psiVals h]
  refine ⟨by simp, ?_⟩
  intro c hc
  simp only [List.mem_map, List.mem_range] at hc
  obtain ⟨i, hi, rfl⟩ := hc
  have hi' : i < (radialOrder rb ra psiVals).length := by rw [radialOrder_length]; exact hi
  have hfun : (fun j => ((radialOrder rb ra psiVals).map (flows j))[i]?) =
      some ∘ (fun j => flows j ((radialOrder rb ra psiVals)[i])) := by
    funext j
    simp [List.getElem?_eq_getElem hi']
  rw [hfun, List.filterMap_eq_map]
  simp

end assemble

end Perp
