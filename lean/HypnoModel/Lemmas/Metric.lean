/-
Helper lemmas for C02 (metric tensor and Jacobian, `MeshRegion.calcMetric`, hypnotoad/core/mesh.py).
* bridge lemmas `orth_*_eq` / `nonorth_*_eq`: closed normal form of every generated component `Gen.R.Metric.*`
  (HypnoModel/Gen/Metric.lean, regenerated on every run), each proved by `unfold …; ring`, so they survive harmless
  algebraic rewrites of the generated text (bracketing, the literal zeros coming from I = 0, …);
* `det3`: the determinant expression of the code's Jacobian check, and `*_Jcheck_eq`: the generated `Jcheck` is
  `bpsign / √(det3 g11 g22 g33 g12 g13 g23)`;
* the algebraic cores (`cos_sq_mul`, `tan_sq_eq`, `jcheck_core`, `displacement_core`, …) on plain real variables.
Since the calcMetric sign fix every `tanBeta` of the nonorth branch occurs as `(-bpsign) * tanBeta`; the normal forms
`nonorth_g12_eq`, `nonorth_g13_eq`, `nonorth_g_12_eq` carry `(-s * t)` accordingly.  The cores are stated for an arbitrary
`t` and apply to the effective tangent `-s * t` through `eff_tan_sq` / `cos_sq_eff` (`(-s·t)² = t²` when `s = ±1`).
-/
import HypnoModel.Gen.Metric
import Mathlib.Analysis.SpecialFunctions.Sqrt
import Mathlib.Tactic.FieldSimp
import Mathlib.Tactic.Ring
import Mathlib.Tactic.LinearCombination
import Mathlib.Tactic.Positivity
import Mathlib.Tactic.NormNum

namespace MetricLemmas
open Real Gen.R.Metric
noncomputable section

/-- determinant of the symmetric 3×3 matrix with entries a11 a22 a33 a12 a13 a23, written as in calcMetric's
Jacobian check -/
def det3 (a11 a22 a33 a12 a13 a23 : ℝ) : ℝ :=
  a11 * a22 * a33 + 2 * a12 * a13 * a23 - a11 * a23 ^ 2 - a22 * a13 ^ 2 - a33 * a12 ^ 2

/-- uniform closing tactic for the rational identities -/
macro "metric_tac" : tactic => `(tactic| (
  first
  | (field_simp; done)
  | (field_simp; ring1)
  | (field_simp; ring_nf; done)
  | (field_simp; ring_nf; field_simp; ring1)))

/-- close a goal that may already have been closed by the preceding rewriting, else by `ring1` -/
macro "close_ring" : tactic => `(tactic| (first | done | ring1))

theorem div_sqrt_congr {x x' D D' : ℝ} (hx : x = x') (hD : D = D') : x / Real.sqrt D = x' / Real.sqrt D' := by
  rw [hx, hD]

section bridge
variable (R Bp hy d c t s : ℝ)

/-! ## normal forms, orth branch -/
theorem orth_g11_eq : orth.g11 R Bp hy d c t s = (R * Bp) ^ 2 := by unfold orth.g11; ring
theorem orth_g22_eq : orth.g22 R Bp hy d c t s = 1 / hy ^ 2 := by unfold orth.g22; ring
theorem orth_g33_eq : orth.g33 R Bp hy d c t s = (d / hy) ^ 2 + 1 / R ^ 2 := by unfold orth.g33; ring
theorem orth_g12_eq : orth.g12 R Bp hy d c t s = 0 := by unfold orth.g12; ring
theorem orth_g13_eq : orth.g13 R Bp hy d c t s = 0 := by unfold orth.g13; ring
theorem orth_g23_eq : orth.g23 R Bp hy d c t s = -(s * d) / hy ^ 2 := by unfold orth.g23; ring
theorem orth_J_eq : orth.J R Bp hy d c t s = hy / Bp := by unfold orth.J; ring
theorem orth_g_11_eq : orth.g_11 R Bp hy d c t s = 1 / (R * Bp) ^ 2 := by unfold orth.g_11; ring
theorem orth_g_22_eq : orth.g_22 R Bp hy d c t s = hy ^ 2 + (R * d) ^ 2 := by unfold orth.g_22; ring
theorem orth_g_33_eq : orth.g_33 R Bp hy d c t s = R ^ 2 := by unfold orth.g_33; ring
theorem orth_g_12_eq : orth.g_12 R Bp hy d c t s = 0 := by unfold orth.g_12; ring
theorem orth_g_13_eq : orth.g_13 R Bp hy d c t s = 0 := by unfold orth.g_13; ring
theorem orth_g_23_eq : orth.g_23 R Bp hy d c t s = s * d * R ^ 2 := by unfold orth.g_23; ring

/-- the generated `Jcheck` is `bpsign / √det(g^{ij})`, det written with the generated contravariant components -/
theorem orth_Jcheck_eq : orth.Jcheck R Bp hy d c t s =
    s / Real.sqrt (det3 (orth.g11 R Bp hy d c t s) (orth.g22 R Bp hy d c t s) (orth.g33 R Bp hy d c t s)
      (orth.g12 R Bp hy d c t s) (orth.g13 R Bp hy d c t s) (orth.g23 R Bp hy d c t s)) := by
  unfold orth.Jcheck
  refine div_sqrt_congr (by ring) ?_
  unfold det3 orth.g11 orth.g22 orth.g33 orth.g12 orth.g13 orth.g23
  ring

/-! ## normal forms, nonorth branch -/
theorem nonorth_g11_eq : nonorth.g11 R Bp hy d c t s = (R * Bp) ^ 2 := by unfold nonorth.g11; ring
theorem nonorth_g22_eq : nonorth.g22 R Bp hy d c t s = 1 / (hy * c) ^ 2 := by unfold nonorth.g22; ring
theorem nonorth_g33_eq : nonorth.g33 R Bp hy d c t s = 1 / R ^ 2 + (d / (hy * c)) ^ 2 := by
  unfold nonorth.g33; ring
theorem nonorth_g12_eq : nonorth.g12 R Bp hy d c t s = R * |Bp| * (-s * t) / hy := by unfold nonorth.g12; ring
theorem nonorth_g13_eq : nonorth.g13 R Bp hy d c t s = -(R * Bp * d * (-s * t)) / hy := by unfold nonorth.g13; ring
theorem nonorth_g23_eq : nonorth.g23 R Bp hy d c t s = -(s * d) / (hy * c) ^ 2 := by unfold nonorth.g23; ring
theorem nonorth_J_eq : nonorth.J R Bp hy d c t s = hy / Bp := by unfold nonorth.J; ring
theorem nonorth_g_11_eq : nonorth.g_11 R Bp hy d c t s = 1 / (R * Bp * c) ^ 2 := by unfold nonorth.g_11; ring
theorem nonorth_g_22_eq : nonorth.g_22 R Bp hy d c t s = hy ^ 2 + (d * R) ^ 2 := by unfold nonorth.g_22; ring
theorem nonorth_g_33_eq : nonorth.g_33 R Bp hy d c t s = R ^ 2 := by unfold nonorth.g_33; ring
theorem nonorth_g_12_eq : nonorth.g_12 R Bp hy d c t s = -(hy * (-s * t)) / (R * |Bp|) := by
  unfold nonorth.g_12; ring
theorem nonorth_g_13_eq : nonorth.g_13 R Bp hy d c t s = 0 := by unfold nonorth.g_13; ring
theorem nonorth_g_23_eq : nonorth.g_23 R Bp hy d c t s = s * d * R ^ 2 := by unfold nonorth.g_23; ring

theorem nonorth_Jcheck_eq : nonorth.Jcheck R Bp hy d c t s =
    s / Real.sqrt (det3 (nonorth.g11 R Bp hy d c t s) (nonorth.g22 R Bp hy d c t s) (nonorth.g33 R Bp hy d c t s)
      (nonorth.g12 R Bp hy d c t s) (nonorth.g13 R Bp hy d c t s) (nonorth.g23 R Bp hy d c t s)) := by
  unfold nonorth.Jcheck
  refine div_sqrt_congr (by ring) ?_
  unfold det3 nonorth.g11 nonorth.g22 nonorth.g33 nonorth.g12 nonorth.g13 nonorth.g23
  ring

theorem dphidy_eq (hy Bt Bp R : ℝ) : dphidy hy Bt Bp R = hy * Bt / (Bp * R) := by unfold dphidy; ring

end bridge

/-! ## algebraic cores on the normal forms (aB stands for |Bp|) -/
section cores
variable {R Bp aB hy d c t s : ℝ}

/-- `cos² = 1/(1+tan²)` in polynomial form -/
theorem cos_sq_mul (ht : c ^ 2 = 1 / (1 + t ^ 2)) : c ^ 2 * (1 + t ^ 2) = 1 := by
  have h1 : (1 : ℝ) + t ^ 2 ≠ 0 := by positivity
  rw [ht]; field_simp

theorem tan_sq_eq (hc : c ≠ 0) (ht : c ^ 2 = 1 / (1 + t ^ 2)) : t ^ 2 = 1 / c ^ 2 - 1 := by
  have h := cos_sq_mul ht
  field_simp
  linear_combination h

theorem sign_sq (hs : s = 1 ∨ s = -1) : s ^ 2 = 1 := by rcases hs with rfl | rfl <;> norm_num

theorem sign_ne_zero (hs : s = 1 ∨ s = -1) : s ≠ 0 := by rcases hs with rfl | rfl <;> norm_num

/-- the effective tangent `(-bpsign)·tanBeta` of the nonorth branch has the same square as `tanBeta` -/
theorem eff_tan_sq (hs : s = 1 ∨ s = -1) : (-s * t) ^ 2 = t ^ 2 := by rcases hs with rfl | rfl <;> ring

/-- hence `cos² = 1/(1+tan²)` holds for the effective tangent as well, and every core below can be used at `-s * t` -/
theorem cos_sq_eff (hs : s = 1 ∨ s = -1) (ht : c ^ 2 = 1 / (1 + t ^ 2)) : c ^ 2 = 1 / (1 + (-s * t) ^ 2) := by
  rw [eff_tan_sq hs]; exact ht

/-- from `cos² = 1/(1+tan²)` alone: cos ≠ 0 -/
theorem cos_ne_zero_of (ht : c ^ 2 = 1 / (1 + t ^ 2)) : c ≠ 0 := by
  intro h
  have h1 : (0 : ℝ) < 1 + t ^ 2 := by positivity
  have h2 : (0 : ℝ) < 1 / (1 + t ^ 2) := by positivity
  rw [← ht, h] at h2
  norm_num at h2

/-- core of the Jacobian check: if `J² · D = 1` with `J = hy/Bp`, `hy > 0`, then `bpsign/√D = J` -/
theorem jcheck_core {D : ℝ} (hB : Bp ≠ 0) (hh : 0 < hy) (hs : s = 1 ∨ s = -1) (habs : |Bp| = s * Bp)
    (hD : (hy / Bp) ^ 2 * D = 1) : s / Real.sqrt D = hy / Bp := by
  have hh0 : hy ≠ 0 := ne_of_gt hh
  have hDeq : D = (Bp / hy) ^ 2 := by
    field_simp at hD ⊢
    linear_combination hD
  rw [hDeq, Real.sqrt_sq_eq_abs, abs_div, abs_of_pos hh, habs]
  rcases hs with rfl | rfl <;> field_simp

theorem neg_div_sqrt_congr {x D D' : ℝ} (hD : D = D') : (-x) / Real.sqrt D = -(x / Real.sqrt D') := by
  rw [hD, neg_div]

/-- displacement product for an affine psi: with G the (constant) gradient, δ the displacement, G·δ ≠ 0 and
`cosβ = (δ·G)/(|δ||G|)`:  (δ·δ)/(G·δ)² = 1/(|G| cosβ)² -/
theorem displacement_core {Gx Gz dx dz : ℝ} (hGd : Gx * dx + Gz * dz ≠ 0) :
    (dx * dx + dz * dz) / (Gx * dx + Gz * dz) ^ 2 =
    1 / (Real.sqrt (Gx ^ 2 + Gz ^ 2) *
      ((dx * Gx + dz * Gz) / (Real.sqrt (dx ^ 2 + dz ^ 2) * Real.sqrt (Gx ^ 2 + Gz ^ 2)))) ^ 2 := by
  have hG : Gx ^ 2 + Gz ^ 2 ≠ 0 := by
    intro h
    have h1 : Gx = 0 := by nlinarith [sq_nonneg Gx, sq_nonneg Gz]
    have h2 : Gz = 0 := by nlinarith [sq_nonneg Gx, sq_nonneg Gz]
    exact hGd (by rw [h1, h2]; ring)
  have hd : dx ^ 2 + dz ^ 2 ≠ 0 := by
    intro h
    have h1 : dx = 0 := by nlinarith [sq_nonneg dx, sq_nonneg dz]
    have h2 : dz = 0 := by nlinarith [sq_nonneg dx, sq_nonneg dz]
    exact hGd (by rw [h1, h2]; ring)
  have hGp : 0 ≤ Gx ^ 2 + Gz ^ 2 := by positivity
  have hdp : 0 ≤ dx ^ 2 + dz ^ 2 := by positivity
  have hsG : Real.sqrt (Gx ^ 2 + Gz ^ 2) ≠ 0 := by
    rw [Ne, Real.sqrt_eq_zero hGp]; exact hG
  have hsd : Real.sqrt (dx ^ 2 + dz ^ 2) ≠ 0 := by
    rw [Ne, Real.sqrt_eq_zero hdp]; exact hd
  have e : Real.sqrt (Gx ^ 2 + Gz ^ 2) *
      ((dx * Gx + dz * Gz) / (Real.sqrt (dx ^ 2 + dz ^ 2) * Real.sqrt (Gx ^ 2 + Gz ^ 2)))
      = (Gx * dx + Gz * dz) / Real.sqrt (dx ^ 2 + dz ^ 2) := by
    metric_tac
  rw [e, div_pow, Real.sq_sqrt hdp]
  field_simp

end cores

/-! ## parity predicates for the seven-argument components `f R Bp hy dphidy cosBeta tanBeta bpsign` -/

/-- invariant under reversing the poloidal field: Bp ↦ −Bp, bpsign ↦ −bpsign, dphidy ↦ −dphidy -/
def EvenBp (f : ℝ → ℝ → ℝ → ℝ → ℝ → ℝ → ℝ → ℝ) : Prop :=
  ∀ R Bp hy d c t s, f R (-Bp) hy (-d) c t (-s) = f R Bp hy d c t s
/-- changes sign under reversing the poloidal field -/
def OddBp (f : ℝ → ℝ → ℝ → ℝ → ℝ → ℝ → ℝ → ℝ) : Prop :=
  ∀ R Bp hy d c t s, f R (-Bp) hy (-d) c t (-s) = - f R Bp hy d c t s
/-- invariant under reversing the toroidal field: dphidy ↦ −dphidy alone -/
def EvenBt (f : ℝ → ℝ → ℝ → ℝ → ℝ → ℝ → ℝ → ℝ) : Prop :=
  ∀ R Bp hy d c t s, f R Bp hy (-d) c t s = f R Bp hy d c t s
/-- changes sign under reversing the toroidal field -/
def OddBt (f : ℝ → ℝ → ℝ → ℝ → ℝ → ℝ → ℝ → ℝ) : Prop :=
  ∀ R Bp hy d c t s, f R Bp hy (-d) c t s = - f R Bp hy d c t s


end
end MetricLemmas
