/- helper lemmas for C11, `PsiContour.temporaryExtend` (Model/Extend.lean): the generated adjustment tables interpreted
   (`prependStep_eq`, `appendStep_eq`), closed forms of the two loops (`foldl_prependStep`, `foldl_appendStep`,
   `temporaryExtend_eq`), python-index arithmetic for a list that grows at the front / at the back (`PyIdx`), and the seeded
   variant `appendStepNoAdjust` (append without the `endInd` adjustment). -/
import HypnoModel.Model.Extend
import HypnoModel.Lemmas.Wall

namespace WallLemmas
open Wall Gen.Contour

variable {P : Type}

/-! ### one step -/

/-- the generated table after `prepend`, interpreted: both indices are shifted iff they are non-negative -/
theorem prependStep_eq (c : Contour P) (p : P) :
    c.prependStep p = ⟨p :: c.pts, if 0 ≤ c.startInd then c.startInd + 1 else c.startInd,
      if 0 ≤ c.endInd then c.endInd + 1 else c.endInd⟩ := by
  unfold Contour.prependStep afterPrepend
  simp only [List.foldl_cons, List.foldl_nil, applyAdjust, Cmp.holds, ge_iff_le, decide_eq_true_eq]
  by_cases h1 : 0 ≤ c.startInd <;> by_cases h2 : 0 ≤ c.endInd <;> simp [h1, h2]

/-- the generated table after `append`, interpreted: only a negative `endInd` is shifted; `startInd` is never touched -/
theorem appendStep_eq (c : Contour P) (p : P) :
    c.appendStep p = ⟨c.pts ++ [p], c.startInd, if c.endInd < 0 then c.endInd - 1 else c.endInd⟩ := by
  unfold Contour.appendStep afterAppend
  simp only [List.foldl_cons, List.foldl_nil, applyAdjust, Cmp.holds, decide_eq_true_eq]
  by_cases h2 : c.endInd < 0 <;> simp [h2, Int.sub_eq_add_neg]

/-! ### the loops -/

theorem foldl_prependStep (l : List P) (c : Contour P) :
    l.foldl Contour.prependStep c = ⟨l.reverse ++ c.pts, if 0 ≤ c.startInd then c.startInd + l.length else c.startInd,
      if 0 ≤ c.endInd then c.endInd + l.length else c.endInd⟩ := by
  induction l generalizing c with
  | nil => simp
  | cons a t ih =>
    rw [List.foldl_cons, ih, prependStep_eq]
    simp only [List.reverse_cons, List.append_assoc, List.singleton_append, List.length_cons, Nat.cast_add, Nat.cast_one]
    congr 1
    · split
      · rw [if_pos (by omega)]; omega
      · rfl
    · split
      · rw [if_pos (by omega)]; omega
      · rfl

theorem foldl_appendStep (l : List P) (c : Contour P) :
    l.foldl Contour.appendStep c = ⟨c.pts ++ l, c.startInd, if c.endInd < 0 then c.endInd - l.length else c.endInd⟩ := by
  induction l generalizing c with
  | nil => simp
  | cons a t ih =>
    rw [List.foldl_cons, ih, appendStep_eq]
    simp only [List.append_assoc, List.singleton_append, List.length_cons, Nat.cast_add, Nat.cast_one]
    congr 1
    split
    · rw [if_pos (by omega)]; omega
    · rfl

/-- closed form of `temporaryExtend`: `a` accepted lower candidates go (reversed) to the front, `b` accepted upper ones to
    the back; a non-negative index grows by `a`, a negative `endInd` decreases by `b`, a negative `startInd` stays -/
theorem temporaryExtend_eq (inRange : P → Bool) (c : Contour P) (lows ups : List P) :
    c.temporaryExtend inRange lows ups =
      ⟨(accepted inRange lows).reverse ++ c.pts ++ accepted inRange ups,
       if 0 ≤ c.startInd then c.startInd + (accepted inRange lows).length else c.startInd,
       if 0 ≤ c.endInd then c.endInd + (accepted inRange lows).length else c.endInd - (accepted inRange ups).length⟩ := by
  unfold Contour.temporaryExtend
  rw [foldl_prependStep, foldl_appendStep]
  congr 1
  by_cases h : 0 ≤ c.endInd
  · simp only [if_pos h]; rw [if_neg (by omega)]
  · simp only [if_neg h]; rw [if_pos (by omega)]

theorem accepted_nil_of_head (inRange : P → Bool) (l : List P) (h : ∀ x ∈ l.head?, inRange x = false) :
    accepted inRange l = [] := by
  cases l with
  | nil => rfl
  | cons x t =>
    have := h x (by simp)
    simp [accepted, this]

/-! ### python indices of a list that grows -/

/-- a python index refers to exactly one position -/
theorem PyIdx.unique {n : Nat} {i : Int} {k k' : Nat} (h : PyIdx n i k) (h' : PyIdx n i k') : k = k' := by
  obtain ⟨h1, h2 | h2⟩ := h <;> obtain ⟨h3, h4 | h4⟩ := h' <;> omega

/-- `a` points in front, `b` behind, index adjusted as `temporaryExtend` does it: position `k` becomes `k + a` -/
theorem PyIdx.extend {n : Nat} {i : Int} {k : Nat} (a b : Nat) (h : PyIdx n i k) :
    PyIdx (a + n + b) (if 0 ≤ i then i + a else i - b) (k + a) := by
  obtain ⟨h1, h2 | h2⟩ := h
  · rw [if_pos (by omega)]; exact ⟨by omega, Or.inl (by push_cast; omega)⟩
  · rw [if_neg (by omega)]; exact ⟨by omega, Or.inr (by push_cast; omega)⟩

/-- the same for an index that is only adjusted when non-negative (what happens to `startInd`), for a non-negative index -/
theorem PyIdx.extend_nonneg {n : Nat} {i : Int} {k : Nat} (a b : Nat) (h0 : 0 ≤ i) (h : PyIdx n i k) :
    PyIdx (a + n + b) (if 0 ≤ i then i + a else i) (k + a) := by
  obtain ⟨h1, h2 | h2⟩ := h
  · rw [if_pos h0]; exact ⟨by omega, Or.inl (by push_cast; omega)⟩
  · omega

/-- … and for a negative one: it then refers to position `k + a + b`, i.e. `b` places too far -/
theorem PyIdx.extend_neg_unadjusted {n : Nat} {i : Int} {k : Nat} (a b : Nat) (h0 : i < 0) (h : PyIdx n i k) :
    PyIdx (a + n + b) (if 0 ≤ i then i + a else i) (k + a + b) := by
  obtain ⟨h1, h2 | h2⟩ := h
  · omega
  · rw [if_neg (by omega)]; exact ⟨by omega, Or.inr (by push_cast; omega)⟩

theorem getElem?_extend (front l back : List P) (k : Nat) (hk : k < l.length) :
    (front ++ l ++ back)[k + front.length]? = l[k]? := by
  rw [List.append_assoc, List.getElem?_append_right (by omega), Nat.add_sub_cancel,
    List.getElem?_append_left hk]

/-! ### the seeded variant: append without adjusting `endInd` -/

/-- `append` followed by nothing ("appending does not move any existing point, so endInd stays") -/
def _root_.Wall.Contour.appendStepNoAdjust (c : Contour P) (p : P) : Contour P := { c with pts := c.pts ++ [p] }

/-- with a negative `endInd` the unadjusted index refers to the NEXT position -/
theorem appendStepNoAdjust_next (c : Contour P) (p : P) {k : Nat} (h0 : c.endInd < 0) (h : PyIdx c.pts.length c.endInd k) :
    PyIdx (c.appendStepNoAdjust p).pts.length (c.appendStepNoAdjust p).endInd (k + 1) := by
  obtain ⟨h1, h2 | h2⟩ := h
  · omega
  · simp only [Contour.appendStepNoAdjust, List.length_append, List.length_cons, List.length_nil]
    exact ⟨by omega, Or.inr (by push_cast; omega)⟩

/-- with a non-negative `endInd` nothing is needed -/
theorem appendStepNoAdjust_nonneg (c : Contour P) (p : P) {k : Nat} (h0 : 0 ≤ c.endInd) (h : PyIdx c.pts.length c.endInd k) :
    PyIdx (c.appendStepNoAdjust p).pts.length (c.appendStepNoAdjust p).endInd k := by
  obtain ⟨h1, h2 | h2⟩ := h
  · simp only [Contour.appendStepNoAdjust, List.length_append, List.length_cons, List.length_nil]
    exact ⟨by omega, Or.inl h2⟩
  · omega

end WallLemmas
