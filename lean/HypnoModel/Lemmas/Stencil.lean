/-
Helper lemmas for C06 (dx at the x-faces, DDX) over ℝ: the model `HypnoModel/Model/Stencil.lean` instantiated at α := ℝ,
with the psi values of one radial line written as `(List.range (2*nx+1)).map P`.
-/
import HypnoModel.Model.Stencil
import Mathlib.Data.Real.Basic
import Mathlib.Data.List.Basic
import Mathlib.Data.List.GetD
import Mathlib.Data.List.Range
import Mathlib.Tactic.FieldSimp
import Mathlib.Tactic.Ring
import Mathlib.Tactic.Linarith
import Mathlib.Tactic.NormNum

namespace StencilLemmas
open Stencil

/-! ## lists written as `(List.range n).map Q` -/

theorem map_range_succ (Q : ℕ → ℝ) (n : ℕ) :
    (List.range (n + 1)).map Q = Q 0 :: (List.range n).map (fun i => Q (i + 1)) := by
  rw [List.range_succ_eq_map, List.map_cons, List.map_map]
  rfl

theorem map_range_succ' (Q : ℕ → ℝ) (n : ℕ) :
    (List.range (n + 1)).map Q = (List.range n).map Q ++ [Q n] := by
  rw [List.range_succ, List.map_append]
  rfl

/-- any list is the list of values of its own index function -/
theorem eq_map_range_getD (l : List ℝ) (n : ℕ) (h : l.length = n) :
    l = (List.range n).map (fun k => l.getD k 0) := by
  subst h
  apply List.ext_getElem
  · simp
  · intro i h1 h2
    simp [List.getD_eq_getElem?_getD, h1]

theorem headD_map_range (Q : ℕ → ℝ) (n : ℕ) : ((List.range (n + 1)).map Q).headD 0 = Q 0 := by
  rw [map_range_succ]
  rfl

theorem getLastD_map_range (Q : ℕ → ℝ) (n : ℕ) : ((List.range (n + 1)).map Q).getLastD 0 = Q n := by
  rw [map_range_succ']
  simp

theorem evens_map_range (P : ℕ → ℝ) (n : ℕ) :
    evens ((List.range (2 * n + 1)).map P) = (List.range (n + 1)).map (fun i => P (2 * i)) := by
  induction n generalizing P with
  | zero => simp [evens]
  | succ n ih =>
    have h : 2 * (n + 1) + 1 = (2 * n + 1) + 1 + 1 := by ring
    rw [h, map_range_succ, map_range_succ, evens, ih, map_range_succ (fun i => P (2 * i))]
    simp only [Nat.mul_zero, List.cons.injEq, true_and]
    apply List.map_congr_left
    intro i _
    congr 1

theorem odds_map_range (P : ℕ → ℝ) (n : ℕ) :
    odds ((List.range (2 * n + 1)).map P) = (List.range n).map (fun i => P (2 * i + 1)) := by
  induction n generalizing P with
  | zero => simp [odds]
  | succ n ih =>
    have h : 2 * (n + 1) + 1 = (2 * n + 1) + 1 + 1 := by ring
    rw [h, map_range_succ, map_range_succ, odds, ih, map_range_succ (fun i => P (2 * i + 1))]
    simp only [Nat.mul_zero, Nat.zero_add, List.cons.injEq, true_and]
    apply List.map_congr_left
    intro i _
    congr 1

theorem diffs_map_range (Q : ℕ → ℝ) (n : ℕ) :
    diffs ((List.range (n + 1)).map Q) = (List.range n).map (fun i => Q (i + 1) - Q i) := by
  induction n generalizing Q with
  | zero => simp [diffs]
  | succ n ih =>
    have h1 : (List.range (n + 1 + 1)).map Q = Q 0 :: Q 1 :: (List.range n).map (fun i => Q (i + 1 + 1)) := by
      rw [map_range_succ, map_range_succ]
    have h2 : Q 1 :: (List.range n).map (fun i => Q (i + 1 + 1)) = (List.range (n + 1)).map (fun i => Q (i + 1)) := by
      rw [map_range_succ]
    rw [h1, diffs, h2, ih, map_range_succ (fun i => Q (i + 1) - Q i)]

theorem diffs_map_range_pred (Q : ℕ → ℝ) (n : ℕ) :
    diffs ((List.range n).map Q) = (List.range (n - 1)).map (fun i => Q (i + 1) - Q i) := by
  cases n with
  | zero => simp [diffs]
  | succ n => exact diffs_map_range Q n

theorem zipDiv_map_range (A B : ℕ → ℝ) (n : ℕ) :
    zipDiv ((List.range n).map A) ((List.range n).map B) = (List.range n).map (fun i => A i / B i) := by
  induction n generalizing A B with
  | zero => simp [zipDiv]
  | succ n ih => rw [map_range_succ, map_range_succ, zipDiv, ih, map_range_succ (fun i => A i / B i)]

/-- the difference quotient of an affine function: the slope, or 0 (division by zero) on a degenerate interval -/
theorem affine_quot (a b x y : ℝ) : ((a + b * x) - (a + b * y)) / (x - y) = if x = y then 0 else b := by
  split_ifs with h
  · subst h
    simp
  · have : x - y ≠ 0 := sub_ne_zero.mpr h
    field_simp
    ring

theorem affine_quot_half (a b x y : ℝ) : ((a + b * x) - (a + b * y)) / (2 * (x - y) / 2) = if x = y then 0 else b := by
  rw [mul_div_cancel_left₀ _ (two_ne_zero' ℝ), affine_quot]

/-! ## dx at the centres and at the faces -/

theorem dxCentre_eq (P : ℕ → ℝ) (nx : ℕ) :
    dxCentre ((List.range (2 * nx + 1)).map P) = (List.range nx).map (fun i => P (2 * (i + 1)) - P (2 * i)) := by
  rw [dxCentre, evens_map_range, diffs_map_range]

/-- `dxFaces` of a line with m+1 cells: first face, the m interior faces, last face -/
theorem dxFaces_eq (P : ℕ → ℝ) (m : ℕ) (inner outer : Option ℝ) :
    dxFaces ((List.range (2 * (m + 1) + 1)).map P) inner outer =
      (match inner with
        | some pi => P 1 - pi
        | none => 2 * (P 1 - P 0)) ::
      (List.range m).map (fun i => P (2 * (i + 1) + 1) - P (2 * i + 1)) ++
      [match outer with
        | some po => po - P (2 * m + 1)
        | none => 2 * (P (2 * (m + 1)) - P (2 * m + 1))] := by
  simp only [dxFaces]
  rw [odds_map_range, diffs_map_range, headD_map_range, getLastD_map_range,
    show 2 * (m + 1) + 1 = (2 * (m + 1)) + 1 by rfl, headD_map_range, getLastD_map_range]
  cases inner <;> cases outer <;> rfl

/-! ## DDX of a field affine in psi -/

theorem ddxCentre_affine_eq (P : ℕ → ℝ) (nx : ℕ) (a b : ℝ) :
    ddxCentre ((evens ((List.range (2 * nx + 1)).map P)).map (fun x => a + b * x)) (dxCentre ((List.range (2 * nx + 1)).map P))
      = (List.range nx).map (fun i => if P (2 * (i + 1)) = P (2 * i) then 0 else b) := by
  rw [ddxCentre, dxCentre_eq, evens_map_range, List.map_map, diffs_map_range, zipDiv_map_range]
  apply List.map_congr_left
  intro i _
  exact affine_quot a b _ _

theorem ddxXlow_eq (fc fx : List ℝ) (d0 dn : ℝ) (dmid : List ℝ) (fInner fOuter : Option ℝ) :
    ddxXlow fc fx (d0 :: dmid ++ [dn]) fInner fOuter =
      (match fInner with
        | some v => (fc.headD 0 - v) / d0
        | none => (fc.headD 0 - fx.headD 0) / (d0 / 2)) ::
      zipDiv (diffs fc) dmid ++
      [match fOuter with
        | some v => (v - fc.getLastD 0) / dn
        | none => (fx.getLastD 0 - fc.getLastD 0) / (dn / 2)] := by
  have h1 : (d0 :: dmid ++ [dn]).headD 0 = d0 := rfl
  have h2 : (d0 :: dmid ++ [dn]).getLastD 0 = dn := List.getLastD_concat
  have h3 : ((d0 :: dmid ++ [dn]).drop 1).dropLast = dmid := by simp
  simp only [ddxXlow, h1, h2, h3]
  cases fInner <;> cases fOuter <;> rfl

/-- `DDX(F).xlow` for F = a + b·psi on a line with m+1 cells: each entry is the slope b, or 0 where the face spacing vanishes -/
theorem ddxXlow_affine_eq (P : ℕ → ℝ) (m : ℕ) (a b : ℝ) (inner outer : Option ℝ) :
    ddxXlow ((odds ((List.range (2 * (m + 1) + 1)).map P)).map (fun x => a + b * x))
        ((evens ((List.range (2 * (m + 1) + 1)).map P)).map (fun x => a + b * x))
        (dxFaces ((List.range (2 * (m + 1) + 1)).map P) inner outer)
        (inner.map (fun x => a + b * x)) (outer.map (fun x => a + b * x)) =
      (match inner with
        | some pi => if P 1 = pi then 0 else b
        | none => if P 1 = P 0 then 0 else b) ::
      (List.range m).map (fun i => if P (2 * (i + 1) + 1) = P (2 * i + 1) then 0 else b) ++
      [match outer with
        | some po => if po = P (2 * m + 1) then 0 else b
        | none => if P (2 * (m + 1)) = P (2 * m + 1) then 0 else b] := by
  rw [dxFaces_eq, ddxXlow_eq, odds_map_range, evens_map_range, List.map_map, List.map_map, diffs_map_range,
    zipDiv_map_range, headD_map_range, getLastD_map_range, headD_map_range, getLastD_map_range]
  congr 1
  · congr 1
    · cases inner with
      | some pi =>
        simp only [Option.map_some, Function.comp_apply]
        exact affine_quot a b _ _
      | none =>
        simp only [Option.map_none, Function.comp_apply]
        exact affine_quot_half a b _ _
    · apply List.map_congr_left
      intro i _
      exact affine_quot a b _ _
  · congr 1
    cases outer with
    | some po =>
      simp only [Option.map_some, Function.comp_apply]
      exact affine_quot a b _ _
    | none =>
      simp only [Option.map_none, Function.comp_apply]
      exact affine_quot_half a b _ _

/-- with all face spacings 0 every entry of `DDX.xlow` is 0 (division by zero) -/
theorem ddxXlow_zero_dx (fc fx : List ℝ) (m : ℕ) (hfc : fc.length = m + 1) (fInner fOuter : Option ℝ) :
    ddxXlow fc fx (List.replicate (m + 2) 0) fInner fOuter = List.replicate (m + 2) 0 := by
  have hrep : List.replicate (m + 2) (0 : ℝ) = 0 :: List.replicate m 0 ++ [0] := by
    rw [List.replicate_succ, List.replicate_succ', List.cons_append]
  have hz : ∀ (l : List ℝ) (k : ℕ), l.length = k → zipDiv l (List.replicate k 0) = List.replicate k 0 := by
    intro l k
    induction k generalizing l with
    | zero => intro _; cases l <;> simp [zipDiv]
    | succ k ih =>
      intro hl
      cases l with
      | nil => simp at hl
      | cons x l =>
        rw [List.replicate_succ, zipDiv, ih l (by simpa using hl)]
        simp
  have hd : ∀ (l : List ℝ), (diffs l).length = l.length - 1 := by
    intro l
    induction l with
    | nil => simp [diffs]
    | cons x l ih =>
      cases l with
      | nil => simp [diffs]
      | cons y l => rw [diffs, List.length_cons, ih]; simp
  conv_lhs => rw [hrep]
  rw [ddxXlow_eq, hz _ m (by rw [hd, hfc]; rfl), hrep]
  congr 1
  · congr 1
    cases fInner <;> simp
  · congr 1
    cases fOuter <;> simp

/-! ## all entries equal to the slope -/

theorem cons_map_append_eq_replicate (x z b : ℝ) (g : ℕ → ℝ) (m : ℕ) :
    x :: (List.range m).map g ++ [z] = List.replicate (m + 2) b ↔ x = b ∧ (∀ i < m, g i = b) ∧ z = b := by
  rw [List.eq_replicate_iff]
  constructor
  · rintro ⟨_, h⟩
    refine ⟨h x (by simp), fun i hi => h (g i) ?_, h z (by simp)⟩
    simp only [List.cons_append, List.mem_cons, List.mem_append, List.mem_map, List.mem_range, List.not_mem_nil, or_false]
    exact Or.inr (Or.inl ⟨i, hi, rfl⟩)
  · rintro ⟨hx, hg, hz⟩
    refine ⟨by simp, fun y hy => ?_⟩
    simp only [List.cons_append, List.mem_cons, List.mem_append, List.mem_map, List.mem_range, List.not_mem_nil, or_false] at hy
    rcases hy with rfl | ⟨i, hi, rfl⟩ | rfl
    · exact hx
    · exact hg i hi
    · exact hz

theorem map_range_eq_replicate (b : ℝ) (g : ℕ → ℝ) (n : ℕ) :
    (List.range n).map g = List.replicate n b ↔ ∀ i < n, g i = b := by
  rw [List.eq_replicate_iff]
  constructor
  · rintro ⟨_, h⟩ i hi
    exact h (g i) (List.mem_map.mpr ⟨i, List.mem_range.mpr hi, rfl⟩)
  · intro h
    refine ⟨by simp, fun y hy => ?_⟩
    obtain ⟨i, hi, rfl⟩ := List.mem_map.mp hy
    exact h i (List.mem_range.mp hi)

/-- an entry `if c then 0 else b` equals b when the spacing is non-zero, and only then if b ≠ 0 -/
theorem ite_zero_eq (b : ℝ) (c : Prop) [Decidable c] (h : ¬c) : (if c then 0 else b) = b := if_neg h

theorem ite_zero_eq_iff (b : ℝ) (hb : b ≠ 0) (c : Prop) [Decidable c] : (if c then 0 else b) = b ↔ ¬c := by
  constructor
  · intro h hc
    rw [if_pos hc] at h
    exact hb h.symm
  · exact fun h => if_neg h

/-- the entries of `x :: (range m).map g ++ [z]` -/
theorem getElem?_cons_map_append (x z : ℝ) (g : ℕ → ℝ) (m : ℕ) :
    (x :: (List.range m).map g ++ [z]).length = m + 2 ∧
    (x :: (List.range m).map g ++ [z])[0]? = some x ∧
    (∀ j < m, (x :: (List.range m).map g ++ [z])[j + 1]? = some (g j)) ∧
    (x :: (List.range m).map g ++ [z])[m + 1]? = some z := by
  refine ⟨by simp, by simp, fun j hj => ?_, ?_⟩
  · rw [List.cons_append, List.getElem?_cons_succ, List.getElem?_append_left (by simpa using hj), List.getElem?_map,
      List.getElem?_range hj]
    rfl
  · rw [List.cons_append, List.getElem?_cons_succ, List.getElem?_append_right (by simp)]
    simp

end StencilLemmas
