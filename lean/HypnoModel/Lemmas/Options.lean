/- helper lemmas for C14 (core Lean only): `lookup`, `create`, `update`, `embed` of HypnoModel/Model/Options.lean -/
import HypnoModel.Model.Options

namespace Options

variable {V : Type}

/-! ### lookup -/

theorem lookup_nil (k : String) : lookup ([] : Dict V) k = none := rfl

theorem lookup_cons (p : String × V) (d : Dict V) (k : String) :
    lookup (p :: d) k = if p.1 = k then some p.2 else lookup d k := by
  by_cases h : p.1 = k
  · simp [lookup, h]
  · simp [lookup, h]

theorem lookup_append (a b : Dict V) (k : String) :
    lookup (a ++ b) k = (lookup a k).orElse (fun _ => lookup b k) := by
  induction a with
  | nil => simp [lookup_nil]
  | cons p a ih =>
    rw [List.cons_append, lookup_cons, lookup_cons]
    by_cases h : p.1 = k
    · simp [h]
    · simp [h, ih]

/-- a key is present exactly when `lookup` succeeds -/
theorem lookup_eq_none_iff (d : Dict V) (k : String) : lookup d k = none ↔ k ∉ keys d := by
  induction d with
  | nil => simp [lookup_nil, keys]
  | cons p d ih =>
    rw [lookup_cons]
    by_cases h : p.1 = k
    · subst h; simp [keys]
    · have h' : ¬ k = p.1 := fun e => h e.symm
      rw [if_neg h, ih]
      simp [keys, h']

theorem lookup_isSome_iff (d : Dict V) (k : String) : (lookup d k).isSome = true ↔ k ∈ keys d := by
  rw [← Decidable.not_iff_not, ← lookup_eq_none_iff]
  cases lookup d k <;> simp

theorem mem_keys_of_lookup {d : Dict V} {k : String} {v : V} (h : lookup d k = some v) : k ∈ keys d := by
  rw [← lookup_isSome_iff, h]; rfl

theorem exists_lookup_of_mem_keys {d : Dict V} {k : String} (h : k ∈ keys d) : ∃ v, lookup d k = some v := by
  rw [← lookup_isSome_iff] at h
  exact Option.isSome_iff_exists.mp h

/-- lookup in a list whose values are recomputed entry by entry -/
theorem lookup_map_val {α : Type} (l : List (String × α)) (g : String × α → V) (k : String) :
    lookup (l.map fun p => (p.1, g p)) k = (l.find? (fun p => p.1 == k)).map g := by
  induction l with
  | nil => rfl
  | cons p l ih =>
    rw [List.map_cons, lookup_cons, List.find?_cons]
    cases hb : p.1 == k with
    | true => have h : p.1 = k := by simpa using hb
              simp [h]
    | false => have h : ¬ p.1 = k := by simpa using hb
               simp [h, ih]

/-- with distinct keys, looking a key up finds the entry that carries it -/
theorem find?_of_mem_nodup {α : Type} (l : List (String × α)) (hnd : (l.map (·.1)).Nodup)
    (p : String × α) (hp : p ∈ l) : l.find? (fun q => q.1 == p.1) = some p := by
  induction l with
  | nil => cases hp
  | cons q l ih =>
    rw [List.map_cons, List.nodup_cons] at hnd
    rw [List.find?_cons]
    rcases List.mem_cons.mp hp with rfl | hp'
    · simp
    · have hne : ¬ q.1 = p.1 := by
        intro e
        exact hnd.1 (e ▸ List.mem_map_of_mem (f := (·.1)) hp')
      have hb : (q.1 == p.1) = false := by simpa using hne
      rw [hb]; exact ih hnd.2 hp'

theorem find?_key_none {α : Type} (l : List (String × α)) (k : String) (h : k ∉ l.map (·.1)) :
    l.find? (fun q => q.1 == k) = none := by
  rw [List.find?_eq_none]
  intro q hq hqk
  exact h (List.mem_map.mpr ⟨q, hq, by simpa using hqk⟩)

theorem lookup_filter (b : Dict V) (q : String × V → Bool) (k : String)
    (hq : ∀ p ∈ b, p.1 = k → q p = true) : lookup (b.filter q) k = lookup b k := by
  induction b with
  | nil => rfl
  | cons p b ih =>
    have ih' := ih (fun p' hp' => hq p' (List.mem_cons_of_mem _ hp'))
    by_cases hqp : q p = true
    · rw [List.filter_cons_of_pos hqp, lookup_cons, lookup_cons, ih']
    · have hne : ¬ p.1 = k := fun e => hqp (hq p List.mem_cons_self e)
      rw [List.filter_cons_of_neg hqp, lookup_cons, if_neg hne, ih']

/-! ### evalKey -/

theorem lookup_mem {d : Dict V} {k : String} {v : V} (h : lookup d k = some v) : (k, v) ∈ d := by
  unfold lookup at h
  cases hf : d.find? (fun p => p.1 == k) with
  | none => rw [hf] at h; cases h
  | some p =>
    rw [hf] at h
    have hk : p.1 = k := by simpa using List.find?_some hf
    have hv : p.2 = v := by simpa using h
    have := List.mem_of_find?_eq_some hf
    rw [← hk, ← hv]; exact this

/-- with distinct keys, `lookup` finds every entry -/
theorem lookup_of_mem_nodup {d : Dict V} (hnd : (keys d).Nodup) {k : String} {v : V} (h : (k, v) ∈ d) :
    lookup d k = some v := by
  unfold lookup
  rw [find?_of_mem_nodup d hnd (k, v) h]; rfl

theorem evalKey_zero (F : Factory V) (s : Dict V) (k : String) : evalKey F s 0 k = none := rfl

theorem evalKey_succ (F : Factory V) (s : Dict V) (n : Nat) (k : String) :
    evalKey F s (n + 1) k =
      match lookup F.entries k with
      | none => none
      | some d =>
        match lookup s k with
        | some v => some v
        | none =>
          match d with
          | .const v => some v
          | .expr f => f (evalKey F s n) := rfl

/-- a key the factory does not know evaluates to nothing, whatever the fuel -/
theorem evalKey_unknown (F : Factory V) (s : Dict V) (n : Nat) (k : String) (hk : k ∉ keys F.entries) :
    evalKey F s n k = none := by
  cases n with
  | zero => rfl
  | succ n => rw [evalKey_succ, (lookup_eq_none_iff F.entries k).mpr hk]

/-- an explicit setting of a factory key wins (any positive fuel) -/
theorem evalKey_explicit (F : Factory V) (s : Dict V) (n : Nat) (k : String) (v : V)
    (hk : k ∈ keys F.entries) (hs : lookup s k = some v) : evalKey F s (n + 1) k = some v := by
  obtain ⟨d, hd⟩ := exists_lookup_of_mem_keys hk
  rw [evalKey_succ, hd, hs]

theorem evalKey_const (F : Factory V) (s : Dict V) (n : Nat) (k : String) (v : V)
    (hF : lookup F.entries k = some (Default.const v)) (hs : lookup s k = none) :
    evalKey F s (n + 1) k = some v := by
  rw [evalKey_succ, hF, hs]

theorem evalKey_expr (F : Factory V) (s : Dict V) (n : Nat) (k : String) (f : (String → Option V) → Option V)
    (hF : lookup F.entries k = some (Default.expr f)) (hs : lookup s k = none) :
    evalKey F s (n + 1) k = f (evalKey F s n) := by
  rw [evalKey_succ, hF, hs]

/-- the evaluation sees the settings only through `lookup` at the factory's keys -/
theorem evalKey_congr (F : Factory V) (s s' : Dict V) (h : ∀ k ∈ keys F.entries, lookup s k = lookup s' k) :
    ∀ n k, evalKey F s n k = evalKey F s' n k := by
  intro n
  induction n with
  | zero => intro k; rfl
  | succ n ih =>
    intro k
    have hfun : evalKey F s n = evalKey F s' n := funext ih
    rw [evalKey_succ, evalKey_succ, hfun]
    cases hd : lookup F.entries k with
    | none => rfl
    | some d => rw [h k (mem_keys_of_lookup hd)]

/-- an expression default is monotone when more information from its getter cannot change its value -/
def ExprMonotone (f : (String → Option V) → Option V) : Prop :=
  ∀ g g' : String → Option V, (∀ k v, g k = some v → g' k = some v) → ∀ v, f g = some v → f g' = some v

/-- if every expression default of the factory is monotone, more fuel never changes a value already obtained -/
theorem evalKey_mono (F : Factory V) (s : Dict V)
    (hF : ∀ k f, lookup F.entries k = some (Default.expr f) → ExprMonotone f) :
    ∀ n m k v, n ≤ m → evalKey F s n k = some v → evalKey F s m k = some v := by
  intro n
  induction n with
  | zero => intro m k v _ h; cases h
  | succ n ih =>
    intro m k v hnm h
    obtain ⟨m, rfl⟩ : ∃ m', m = m' + 1 := ⟨m - 1, by omega⟩
    rw [evalKey_succ] at h ⊢
    cases hd : lookup F.entries k with
    | none => rw [hd] at h; cases h
    | some d =>
      rw [hd] at h
      cases hs : lookup s k with
      | some w => rw [hs] at h; exact h
      | none =>
        rw [hs] at h
        cases d with
        | const w => exact h
        | expr f =>
          exact hF k f hd (evalKey F s n) (evalKey F s m) (fun k' v' => ih m k' v' (by omega)) v h

/-! ### create -/

theorem mapM_key_eq_some_iff {α : Type} (g : String → Option V) (l : List (String × α)) (d : Dict V) :
    l.mapM (fun p => (g p.1).map fun v => (p.1, v)) = some d ↔
      keys d = keys l ∧ ∀ q ∈ d, g q.1 = some q.2 := by
  induction l generalizing d with
  | nil =>
    cases d with
    | nil => simp [keys]
    | cons q d => simp [keys]
  | cons p l ih =>
    rw [List.mapM_cons]
    cases hg : g p.1 with
    | none =>
      constructor
      · intro h; simp at h
      · rintro ⟨hk, hv⟩
        cases d with
        | nil => simp [keys] at hk
        | cons q d =>
          have hq : q.1 = p.1 := by simp [keys] at hk; exact hk.1
          have := hv q List.mem_cons_self
          rw [hq, hg] at this; cases this
    | some v =>
      cases hm : l.mapM (fun p => (g p.1).map fun v => (p.1, v)) with
      | none =>
        constructor
        · intro h; simp at h
        · rintro ⟨hk, hv⟩
          cases d with
          | nil => simp [keys] at hk
          | cons q d =>
            have hd : keys d = keys l := by simp [keys] at hk ⊢; exact hk.2
            have := (ih d).mpr ⟨hd, fun q' hq' => hv q' (List.mem_cons_of_mem _ hq')⟩
            rw [hm] at this; cases this
      | some d0 =>
        obtain ⟨hk0, hv0⟩ := (ih d0).mp hm
        constructor
        · intro h
          have hd : d = (p.1, v) :: d0 := by simpa using h.symm
          subst hd
          refine ⟨by simp [keys] at hk0 ⊢; exact hk0, ?_⟩
          intro q hq
          rcases List.mem_cons.mp hq with rfl | hq
          · exact hg
          · exact hv0 q hq
        · rintro ⟨hk, hv⟩
          cases d with
          | nil => simp [keys] at hk
          | cons q d =>
            have hq : q.1 = p.1 := by simp [keys] at hk; exact hk.1
            have hd : keys d = keys l := by simp [keys] at hk ⊢; exact hk.2
            have hd0 := (ih d).mpr ⟨hd, fun q' hq' => hv q' (List.mem_cons_of_mem _ hq')⟩
            rw [hm] at hd0
            have hqv := hv q List.mem_cons_self
            rw [hq, hg] at hqv
            have hqe : q = (p.1, v) := by
              cases q with
              | mk q1 q2 => simp at hq hqv; rw [hq, hqv]
            have hdd : d0 = d := by simpa using hd0
            simp [hqe, hdd]

theorem mapM_key_isSome_iff {α : Type} (g : String → Option V) (l : List (String × α)) :
    (l.mapM (fun p => (g p.1).map fun v => (p.1, v))).isSome = true ↔ ∀ p ∈ l, (g p.1).isSome = true := by
  induction l with
  | nil => simp
  | cons p l ih =>
    rw [List.mapM_cons]
    cases hg : g p.1 with
    | none => simp [hg]
    | some v =>
      cases hm : l.mapM (fun p => (g p.1).map fun v => (p.1, v)) with
      | none =>
        rw [hm] at ih
        have hno : ¬ ∀ p ∈ l, (g p.1).isSome = true := fun h => by simpa using ih.mpr h
        constructor
        · intro h; simp at h
        · intro h; exact absurd (fun q hq => h q (List.mem_cons_of_mem _ hq)) hno
      | some d0 =>
        rw [hm] at ih
        have hall : ∀ p ∈ l, (g p.1).isSome = true := ih.mp rfl
        constructor
        · intro _ q hq
          rcases List.mem_cons.mp hq with rfl | hq
          · rw [hg]; rfl
          · exact hall q hq
        · intro _; simp

/-- `create F s = some d` exactly when d has the factory's keys (in order) and every entry carries the evaluated value -/
theorem create_eq_some_iff (F : Factory V) (s : Dict V) (d : Dict V) :
    create F s = some d ↔
      keys d = keys F.entries ∧ ∀ q ∈ d, evalKey F s (F.entries.length + 1) q.1 = some q.2 := by
  have hfun : (fun (x : String × Default V) => match x with
      | (k, _) => (evalKey F s (F.entries.length + 1) k).map fun v => (k, v))
      = fun p => (evalKey F s (F.entries.length + 1) p.1).map fun v => (p.1, v) := by
    funext ⟨k, d⟩; rfl
  unfold create
  rw [hfun]
  exact mapM_key_eq_some_iff _ _ _

/-- `create` succeeds exactly when every key of the factory evaluates -/
theorem create_isSome_iff (F : Factory V) (s : Dict V) :
    (create F s).isSome = true ↔
      ∀ k ∈ keys F.entries, (evalKey F s (F.entries.length + 1) k).isSome = true := by
  have hfun : (fun (x : String × Default V) => match x with
      | (k, _) => (evalKey F s (F.entries.length + 1) k).map fun v => (k, v))
      = fun p => (evalKey F s (F.entries.length + 1) p.1).map fun v => (p.1, v) := by
    funext ⟨k, d⟩; rfl
  unfold create
  rw [hfun, mapM_key_isSome_iff]
  constructor
  · intro h k hk
    obtain ⟨p, hp, rfl⟩ := List.mem_map.mp hk
    exact h p hp
  · intro h p hp
    exact h p.1 (List.mem_map_of_mem (f := (·.1)) hp)

theorem keys_create (F : Factory V) (s d : Dict V) (h : create F s = some d) : keys d = keys F.entries :=
  ((create_eq_some_iff F s d).mp h).1

/-- the evaluated set is the evaluation function, key by key (no distinctness needed: the value of an entry depends on
    its key only) -/
theorem lookup_create (F : Factory V) (s d : Dict V) (h : create F s = some d) (k : String) :
    lookup d k = evalKey F s (F.entries.length + 1) k := by
  obtain ⟨hk, hv⟩ := (create_eq_some_iff F s d).mp h
  cases hl : lookup d k with
  | some v => exact (hv (k, v) (lookup_mem hl)).symm
  | none =>
    have : k ∉ keys F.entries := by rw [← hk]; exact (lookup_eq_none_iff d k).mp hl
    rw [evalKey_unknown F s _ k this]

theorem lookup_create_explicit (F : Factory V) (s d : Dict V) (h : create F s = some d) (k : String) (v : V)
    (hs : lookup s k = some v) (hk : k ∈ keys F.entries) : lookup d k = some v := by
  rw [lookup_create F s d h, evalKey_explicit F s _ k v hk hs]

theorem lookup_create_none (F : Factory V) (s d : Dict V) (h : create F s = some d) (k : String)
    (hk : k ∉ keys F.entries) : lookup d k = none := by
  rw [lookup_eq_none_iff, keys_create F s d h]; exact hk

theorem exists_lookup_create (F : Factory V) (s d : Dict V) (h : create F s = some d) (k : String)
    (hk : k ∈ keys F.entries) : ∃ v, lookup d k = some v :=
  exists_lookup_of_mem_keys (by rw [keys_create F s d h]; exact hk)

/-- `create` looks at the settings only through the factory's keys -/
theorem create_congr (F : Factory V) (s s' : Dict V)
    (h : ∀ k ∈ keys F.entries, lookup s k = lookup s' k) : create F s = create F s' := by
  unfold create
  rw [funext (evalKey_congr F s s' h (F.entries.length + 1))]

/-- feeding the evaluated set back: every key is explicit, no default is evaluated -/
theorem create_create (F : Factory V) (s d : Dict V) (h : create F s = some d) : create F d = some d := by
  obtain ⟨hk, hv⟩ := (create_eq_some_iff F s d).mp h
  rw [create_eq_some_iff]
  refine ⟨hk, fun q hq => ?_⟩
  have hq1 : q.1 ∈ keys d := List.mem_map_of_mem (f := (·.1)) hq
  have hl : lookup d q.1 = some q.2 := by rw [lookup_create F s d h, hv q hq]
  exact evalKey_explicit F d _ q.1 q.2 (hk ▸ hq1) hl

/-- reloading from any dictionary that agrees with the evaluated set on the factory's keys gives the evaluated set -/
theorem create_of_lookup_eq (F : Factory V) (s d E : Dict V) (hd : create F s = some d)
    (h : ∀ k ∈ keys F.entries, lookup E k = lookup d k) : create F E = some d := by
  rw [create_congr F E d h, create_create F s d hd]

/-- conversely, if the dictionary has a value for every factory key, reloading gives `d` only if the dictionary agrees
    with `d` on every factory key -/
theorem lookup_eq_of_create_eq (F : Factory V) (d E : Dict V)
    (hE : ∀ k ∈ keys F.entries, k ∈ keys E) (h : create F E = some d) :
    ∀ k ∈ keys F.entries, lookup E k = lookup d k := by
  intro k hk
  obtain ⟨v, hv⟩ := exists_lookup_of_mem_keys (hE k hk)
  rw [hv, lookup_create_explicit F E d h k v hv hk]

/-! ### update, embed -/

theorem lookup_update (a b : Dict V) (k : String) :
    lookup (update a b) k = (lookup b k).orElse (fun _ => lookup a k) := by
  unfold update
  rw [lookup_append]
  have hmap : (a.map fun (p : String × V) => (p.1, (lookup b p.1).getD p.2))
      = a.map (fun (k, v) => (k, (lookup b k).getD v)) := rfl
  rw [← hmap, lookup_map_val]
  have hla : lookup a k = (a.find? (fun p => p.1 == k)).map (·.2) := rfl
  cases hf : a.find? (fun p => p.1 == k) with
  | some p =>
    have hk : p.1 = k := by simpa using List.find?_some hf
    rw [hla, hf]
    cases hb : lookup b k <;> simp [hk, hb]
  | none =>
    have hnone : lookup a k = none := by rw [hla, hf]; rfl
    rw [hnone]
    have : lookup (b.filter fun (k, _) => (lookup a k).isNone) k = lookup b k := by
      apply lookup_filter
      rintro ⟨k', v'⟩ _ (e : k' = k)
      simp [e, hnone]
    rw [this]
    cases lookup b k <;> simp

theorem lookup_embed (a b c : Dict V) (k : String) :
    lookup (embed a b c) k
      = (lookup c k).orElse (fun _ => (lookup b k).orElse (fun _ => lookup a k)) := by
  unfold embed
  rw [lookup_update, lookup_update]

theorem keys_update (a b : Dict V) :
    keys (update a b) = keys a ++ (keys b).filter (fun k => !(keys a).contains k) := by
  unfold update keys
  rw [List.map_append, List.map_map, List.filter_map]
  congr 2
  apply List.filter_congr
  rintro ⟨k, v⟩ _
  show (lookup a k).isNone = !(keys a).contains k
  by_cases hk : k ∈ keys a
  · obtain ⟨w, hw⟩ := exists_lookup_of_mem_keys hk
    rw [hw]; simp [hk]
  · rw [(lookup_eq_none_iff a k).mpr hk]; simp [hk]

theorem mem_keys_update (a b : Dict V) (k : String) : k ∈ keys (update a b) ↔ k ∈ keys a ∨ k ∈ keys b := by
  rw [← lookup_isSome_iff, ← lookup_isSome_iff, ← lookup_isSome_iff, lookup_update]
  cases lookup b k <;> cases lookup a k <;> simp

theorem mem_keys_embed (a b c : Dict V) (k : String) :
    k ∈ keys (embed a b c) ↔ k ∈ keys a ∨ k ∈ keys b ∨ k ∈ keys c := by
  unfold embed
  rw [mem_keys_update, mem_keys_update, or_assoc]

/-- `update` keeps keys distinct (a Python dict has each key once) -/
theorem nodup_keys_update (a b : Dict V) (ha : (keys a).Nodup) (hb : (keys b).Nodup) :
    (keys (update a b)).Nodup := by
  rw [keys_update, List.nodup_append]
  refine ⟨ha, hb.filter _, ?_⟩
  intro x hx y hy
  rw [List.mem_filter] at hy
  rintro rfl
  simp [hx] at hy

theorem nodup_keys_embed (a b c : Dict V) (ha : (keys a).Nodup) (hb : (keys b).Nodup) (hc : (keys c).Nodup) :
    (keys (embed a b c)).Nodup :=
  nodup_keys_update _ _ (nodup_keys_update _ _ ha hb) hc

end Options
