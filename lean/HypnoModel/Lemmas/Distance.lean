/-
Helper lemmas for C05 / C06 over ℝ: the model `HypnoModel/Model/Distance.lean` (generic in the number type, run over
Float by the driver) instantiated at α := ℝ.
-/
import HypnoModel.Model.Distance
import Mathlib.Data.Real.Basic
import Mathlib.Data.List.Basic
import Mathlib.Data.List.GetD
import Mathlib.Algebra.BigOperators.Group.List.Basic
import Mathlib.Analysis.SpecialFunctions.Trigonometric.Bounds
import Mathlib.Tactic.FieldSimp
import Mathlib.Tactic.Ring
import Mathlib.Tactic.Linarith
import Mathlib.Tactic.Positivity
import Mathlib.Tactic.NormNum
import Mathlib.Tactic.LinearCombination

namespace DistanceLemmas
open Distance

/-! ## hyCentre / hyYlowInner -/

theorem hyCentre_cons3 (a b c : ℝ) (rest : List ℝ) :
    hyCentre (a :: b :: c :: rest) = (c - a) :: hyCentre (c :: rest) := by
  rw [hyCentre]

theorem hyCentre_nil : hyCentre ([] : List ℝ) = [] := by simp [hyCentre]
theorem hyCentre_one (a : ℝ) : hyCentre [a] = [] := by simp [hyCentre]
theorem hyCentre_two (a b : ℝ) : hyCentre [a, b] = [] := by simp [hyCentre]

theorem hyCentre_length : ∀ d : List ℝ, (hyCentre d).length = (d.length - 1) / 2
  | [] => by simp [hyCentre_nil]
  | [a] => by simp [hyCentre_one]
  | [a, b] => by simp [hyCentre_two]
  | a :: b :: c :: rest => by
    rw [hyCentre_cons3, List.length_cons, hyCentre_length (c :: rest)]
    simp only [List.length_cons]
    omega

theorem hyCentre_length_odd (d : List ℝ) (n : ℕ) (hd : d.length = 2 * n + 1) : (hyCentre d).length = n := by
  rw [hyCentre_length, hd]; omega

theorem hyCentre_getElem : ∀ (d : List ℝ) (j : ℕ) (h : 2 * j + 2 < d.length) (h' : j < (hyCentre d).length),
    (hyCentre d)[j] = d[2 * j + 2] - d[2 * j]
  | a :: b :: c :: rest, 0, _, _ => by simp [hyCentre_cons3]
  | a :: b :: c :: rest, j + 1, h, h' => by
    have h2 : 2 * j + 2 < (c :: rest).length := by simp only [List.length_cons] at h ⊢; omega
    have h3 : j < (hyCentre (c :: rest)).length := by
      rw [hyCentre_length] at h' ⊢; simp only [List.length_cons] at h' ⊢; omega
    have ih := hyCentre_getElem (c :: rest) j h2 h3
    simp only [hyCentre_cons3, List.getElem_cons_succ]
    rw [ih]
    have e1 : 2 * (j + 1) + 2 = (2 * j + 2) + 1 + 1 := by ring
    have e2 : 2 * (j + 1) = (2 * j) + 1 + 1 := by ring
    simp only [e2, List.getElem_cons_succ]

theorem hyYlowInner_cons (a : ℝ) (rest : List ℝ) : hyYlowInner (a :: rest) = hyCentre rest := by
  rw [hyYlowInner]

theorem hyYlowInner_eq_tail (d : List ℝ) : hyYlowInner d = hyCentre d.tail := by
  cases d with
  | nil => simp [hyYlowInner, hyCentre_nil]
  | cons a rest => simp [hyYlowInner_cons]

theorem hyYlowInner_length (d : List ℝ) : (hyYlowInner d).length = (d.length - 2) / 2 := by
  rw [hyYlowInner_eq_tail, hyCentre_length, List.length_tail]; omega

theorem hyYlowInner_length_odd (d : List ℝ) (n : ℕ) (hd : d.length = 2 * n + 1) :
    (hyYlowInner d).length = n - 1 := by
  rw [hyYlowInner_length, hd]; omega

theorem hyYlowInner_getElem (d : List ℝ) (j : ℕ) (h : 2 * j + 3 < d.length) (h' : j < (hyYlowInner d).length) :
    (hyYlowInner d)[j] = d[2 * j + 3] - d[2 * j + 1] := by
  cases d with
  | nil => simp at h
  | cons a rest =>
    have h2 : 2 * j + 2 < rest.length := by simp only [List.length_cons] at h; omega
    have h3 : j < (hyCentre rest).length := by rw [hyYlowInner_cons] at h'; exact h'
    have := hyCentre_getElem rest j h2 h3
    simp only [hyYlowInner_cons, List.getElem_cons_succ]
    exact this

/-- strictly increasing distances: every face-to-face gap is positive -/
theorem hyCentre_pos : ∀ (d : List ℝ), d.Pairwise (· < ·) → ∀ v ∈ hyCentre d, 0 < v
  | [], _, v, hv => by simp [hyCentre_nil] at hv
  | [a], _, v, hv => by simp [hyCentre_one] at hv
  | [a, b], _, v, hv => by simp [hyCentre_two] at hv
  | a :: b :: c :: rest, hd, v, hv => by
    rw [hyCentre_cons3, List.mem_cons] at hv
    rw [List.pairwise_cons] at hd
    rcases hv with rfl | hv
    · have := hd.1 c (by simp)
      linarith
    · exact hyCentre_pos (c :: rest) (List.pairwise_cons.1 hd.2).2 v hv

theorem hyYlowInner_pos (d : List ℝ) (hd : d.Pairwise (· < ·)) : ∀ v ∈ hyYlowInner d, 0 < v := by
  rw [hyYlowInner_eq_tail]
  exact hyCentre_pos d.tail hd.tail

/-- the cell lengths telescope -/
theorem hyCentre_sum : ∀ (d : List ℝ) (h : d ≠ []), d.length % 2 = 1 →
    (hyCentre d).sum = d.getLast h - d.head h
  | [a], _, _ => by simp [hyCentre_one]
  | [a, b], _, ho => by simp at ho
  | a :: b :: c :: rest, _, ho => by
    have ho' : (c :: rest).length % 2 = 1 := by simp only [List.length_cons] at ho ⊢; omega
    have ih := hyCentre_sum (c :: rest) (by simp) ho'
    rw [hyCentre_cons3, List.sum_cons, ih]
    simp only [List.head_cons]
    rw [List.getLast_cons (by simp : b :: c :: rest ≠ []), List.getLast_cons (by simp : c :: rest ≠ [])]
    ring

theorem ne_nil_of_length_odd {d : List ℝ} {n : ℕ} (hd : d.length = 2 * n + 1) : d ≠ [] := by
  intro h; rw [h] at hd; simp at hd

/-! ## strictly increasing lists -/

theorem pairwise_lt_getElem {d : List ℝ} (hd : d.Pairwise (· < ·)) {i j : ℕ} (hj : j < d.length) (hij : i < j) :
    d[i] < d[j] :=
  List.pairwise_iff_getElem.1 hd i j (by omega) hj hij

theorem le_getLast_of_pairwise_lt {l : List ℝ} (hl : l.Pairwise (· < ·)) (hne : l ≠ []) :
    ∀ a ∈ l, a ≤ l.getLast hne := by
  intro a ha
  obtain ⟨i, hi, rfl⟩ := List.getElem_of_mem ha
  rw [List.getLast_eq_getElem]
  rcases Nat.lt_or_ge i (l.length - 1) with h | h
  · exact le_of_lt (pairwise_lt_getElem hl (by omega) h)
  · have : i = l.length - 1 := by omega
    subst this; exact le_refl _

/-- gluing: `l` increasing, `last l :: m` increasing ⇒ `l ++ m` increasing -/
theorem pairwise_append_of_getLast {l m : List ℝ} (hne : l ≠ []) (hl : l.Pairwise (· < ·))
    (hm : (l.getLast hne :: m).Pairwise (· < ·)) : (l ++ m).Pairwise (· < ·) := by
  rw [List.pairwise_append]
  rw [List.pairwise_cons] at hm
  refine ⟨hl, hm.2, fun a ha b hb => ?_⟩
  exact lt_of_le_of_lt (le_getLast_of_pairwise_lt hl hne a ha) (hm.1 b hb)

/-! ## chainPD -/

/-- length of a region measured from its start point: `d.last - d[s]` (0 for an empty region) -/
def regionSpan (p : List ℝ × ℕ) : ℝ := p.1.getLastD 0 - p.1.getD p.2 0

/-- offset of region `k` of the chain: the initial offset plus the spans of the regions before it -/
def chainOffset (off : ℝ) (regs : List (List ℝ × ℕ)) (k : ℕ) : ℝ := off + ((regs.take k).map regionSpan).sum

/-- values of one region: `off + (d[i] - d[s])` -/
def regionVals (off : ℝ) (d : List ℝ) (s : ℕ) : List ℝ := d.map fun x => off + (x - d.getD s 0)

theorem regionVals_eq (off : ℝ) (d : List ℝ) (s : ℕ) :
    (fromStart d s).map (fun x => off + x) = regionVals off d s := by
  simp [fromStart, regionVals, List.map_map, Function.comp_def]

theorem regionVals_length (off : ℝ) (d : List ℝ) (s : ℕ) : (regionVals off d s).length = d.length := by
  simp [regionVals]

theorem regionVals_ne_nil {off : ℝ} {d : List ℝ} {s : ℕ} (h : d ≠ []) : regionVals off d s ≠ [] := by
  simpa [regionVals] using h

theorem regionVals_getLastD (off : ℝ) (d : List ℝ) (s : ℕ) :
    (regionVals off d s).getLastD off = off + regionSpan (d, s) := by
  rcases List.eq_nil_or_concat d with rfl | ⟨l, b, rfl⟩
  · simp [regionVals, regionSpan]
  · simp only [regionVals, regionSpan, List.concat_eq_append, List.map_append, List.map_cons, List.map_nil,
      List.getLastD_concat]

theorem regionVals_getLast? {off : ℝ} {d : List ℝ} {s : ℕ} (h : d ≠ []) :
    (regionVals off d s).getLast? = some (off + regionSpan (d, s)) := by
  rcases List.eq_nil_or_concat d with rfl | ⟨l, b, rfl⟩
  · exact absurd rfl h
  · simp only [regionVals, regionSpan, List.concat_eq_append, List.map_append, List.map_cons, List.map_nil,
      List.getLastD_concat, List.getLast?_concat]

theorem regionVals_getLast {off : ℝ} {d : List ℝ} {s : ℕ} (h : d ≠ []) :
    (regionVals off d s).getLast (regionVals_ne_nil h) = off + regionSpan (d, s) := by
  have := regionVals_getLast? (off := off) (s := s) h
  rw [List.getLast?_eq_some_getLast (regionVals_ne_nil h)] at this
  exact Option.some.inj this

theorem regionVals_pairwise {off : ℝ} {d : List ℝ} {s : ℕ} (hd : d.Pairwise (· < ·)) :
    (regionVals off d s).Pairwise (· < ·) := by
  unfold regionVals
  rw [List.pairwise_map]
  exact hd.imp (fun h => by linarith)

theorem regionVals_zero_start (off d0 : ℝ) (dt : List ℝ) :
    regionVals off (d0 :: dt) 0 = off :: (regionVals off (d0 :: dt) 0).tail := by
  simp [regionVals]

theorem regionSpan_eq {d : List ℝ} {s : ℕ} (h : d ≠ []) (hs : s < d.length) :
    regionSpan (d, s) = d.getLast h - d[s] := by
  unfold regionSpan
  rw [List.getLastD_eq_getLast?, List.getLast?_eq_some_getLast h]
  simp only [Option.getD_some, List.getD_eq_getElem _ _ hs]

theorem regionSpan_eq_getD {d : List ℝ} {s : ℕ} (h : d ≠ []) :
    regionSpan (d, s) = d.getLast h - d.getD s 0 := by
  unfold regionSpan
  rw [List.getLastD_eq_getLast?, List.getLast?_eq_some_getLast h]
  simp only [Option.getD_some]

theorem chainPD_nil (off : ℝ) : chainPD off ([] : List (List ℝ × ℕ)) = [] := by rw [chainPD]

theorem chainPD_cons (off : ℝ) (d : List ℝ) (s : ℕ) (rest : List (List ℝ × ℕ)) :
    chainPD off ((d, s) :: rest) = regionVals off d s :: chainPD (off + regionSpan (d, s)) rest := by
  rw [chainPD]
  simp only [regionVals_eq, regionVals_getLastD]

theorem chainPD_length : ∀ (off : ℝ) (regs : List (List ℝ × ℕ)), (chainPD off regs).length = regs.length
  | _, [] => by simp [chainPD_nil]
  | off, (d, s) :: rest => by simp [chainPD_cons, chainPD_length _ rest]

theorem chainOffset_zero (off : ℝ) (regs : List (List ℝ × ℕ)) : chainOffset off regs 0 = off := by
  simp [chainOffset]

theorem chainOffset_succ (off : ℝ) (p : List ℝ × ℕ) (rest : List (List ℝ × ℕ)) (k : ℕ) :
    chainOffset off (p :: rest) (k + 1) = chainOffset (off + regionSpan p) rest k := by
  simp [chainOffset, add_assoc]

/-- region `k` of the chain is `offset_k + (d_k[i] - d_k[s_k])` -/
theorem chainPD_getElem? : ∀ (off : ℝ) (regs : List (List ℝ × ℕ)) (k : ℕ) (hk : k < regs.length),
    (chainPD off regs)[k]? = some (regionVals (chainOffset off regs k) regs[k].1 regs[k].2)
  | off, (d, s) :: rest, 0, _ => by simp [chainPD_cons, chainOffset_zero]
  | off, (d, s) :: rest, k + 1, hk => by
    have hk' : k < rest.length := by simpa using hk
    rw [chainPD_cons, List.getElem?_cons_succ, chainPD_getElem? _ rest k hk', chainOffset_succ]
    simp

theorem chainOffset_step (off : ℝ) (regs : List (List ℝ × ℕ)) (k : ℕ) (hk : k < regs.length) :
    chainOffset off regs (k + 1) = chainOffset off regs k + regionSpan regs[k] := by
  simp only [chainOffset, List.take_succ_eq_append_getElem hk, List.map_append, List.sum_append, List.map_cons,
    List.map_nil, List.sum_cons, List.sum_nil]
  ring

/-- last value of the last region -/
theorem chainPD_last : ∀ (off : ℝ) (regs : List (List ℝ × ℕ)), regs ≠ [] → (∀ p ∈ regs, p.1 ≠ []) →
    ∃ v, (chainPD off regs).getLast? = some v ∧ v.getLast? = some (off + (regs.map regionSpan).sum)
  | off, [(d, s)], _, hne => by
    refine ⟨regionVals off d s, by simp [chainPD_cons, chainPD_nil], ?_⟩
    rw [regionVals_getLast? (hne (d, s) (by simp))]
    simp
  | off, (d, s) :: q :: rest, _, hne => by
    obtain ⟨v, hv, hv'⟩ := chainPD_last (off + regionSpan (d, s)) (q :: rest) (by simp)
      (fun p hp => hne p (List.mem_cons_of_mem _ hp))
    refine ⟨v, ?_, ?_⟩
    · rw [chainPD_cons, List.getLast?_cons_of_ne_nil]
      · exact hv
      · intro h
        have := chainPD_length (off + regionSpan (d, s)) (q :: rest)
        rw [h] at this; simp at this
    · rw [hv']; simp [add_assoc]

/-- continuity across a join whose upper region starts at its first point -/
theorem chainPD_join_continuous (off : ℝ) (regs : List (List ℝ × ℕ)) (k : ℕ) (hk : k + 1 < regs.length)
    (hne : regs[k].1 ≠ []) (hne' : regs[k + 1].1 ≠ []) (hs : regs[k + 1].2 = 0) :
    ∃ u v a, (chainPD off regs)[k]? = some u ∧ (chainPD off regs)[k + 1]? = some v ∧
      u.getLast? = some a ∧ v.head? = some a := by
  refine ⟨_, _, chainOffset off regs (k + 1), chainPD_getElem? off regs k (by omega),
    chainPD_getElem? off regs (k + 1) hk, ?_, ?_⟩
  · rw [regionVals_getLast? hne, chainOffset_step off regs k (by omega)]
  · rw [hs]
    obtain ⟨d0, dt, hd⟩ := List.exists_cons_of_ne_nil hne'
    rw [hd, regionVals_zero_start]
    rfl

/-- end value minus start value of the chain: independent of the offset and of the first region's startInd -/
theorem chainPD_end_minus_start (off : ℝ) (d0 : List ℝ) (s0 : ℕ) (rest : List (List ℝ × ℕ)) (h0 : d0 ≠ [])
    (hrest : ∀ p ∈ rest, p.1 ≠ []) :
    ∃ u v a b, (chainPD off ((d0, s0) :: rest)).head? = some u ∧ (chainPD off ((d0, s0) :: rest)).getLast? = some v ∧
      u.head? = some a ∧ v.getLast? = some b ∧ b - a = regionSpan (d0, 0) + (rest.map regionSpan).sum := by
  obtain ⟨v, hv, hv'⟩ := chainPD_last off ((d0, s0) :: rest) (by simp) (by
    intro p hp
    rcases List.mem_cons.1 hp with rfl | hp
    · exact h0
    · exact hrest p hp)
  obtain ⟨e, t, rfl⟩ := List.exists_cons_of_ne_nil h0
  refine ⟨regionVals off (e :: t) s0, v, off + (e - (e :: t).getD s0 0), _, by simp [chainPD_cons], hv,
    by simp [regionVals], hv', ?_⟩
  simp only [List.map_cons, List.sum_cons, regionSpan, List.getD_cons_zero]
  ring

/-- the chain written as one sequence, the duplicated join points dropped -/
def joinChain : List (List ℝ) → List ℝ
  | [] => []
  | u :: us => u ++ (us.map List.tail).flatten

/-- later regions (all starting at their first point): together with the incoming offset they increase strictly -/
theorem chain_tails_pairwise : ∀ (off : ℝ) (rest : List (List ℝ × ℕ)),
    (∀ p ∈ rest, p.2 = 0 ∧ p.1 ≠ [] ∧ p.1.Pairwise (· < ·)) →
    (off :: ((chainPD off rest).map List.tail).flatten).Pairwise (· < ·)
  | off, [], _ => by simp [chainPD_nil]
  | off, (d, s) :: rest, h => by
    obtain ⟨hs, hne, hd⟩ := h (d, s) (by simp)
    simp only at hs hne hd
    subst hs
    have ih := chain_tails_pairwise (off + regionSpan (d, 0)) rest (fun p hp => h p (List.mem_cons_of_mem _ hp))
    rw [chainPD_cons, List.map_cons, List.flatten_cons, ← List.cons_append]
    obtain ⟨d0, dt, rfl⟩ := List.exists_cons_of_ne_nil hne
    rw [← regionVals_zero_start]
    apply pairwise_append_of_getLast (regionVals_ne_nil hne) (regionVals_pairwise hd)
    rw [regionVals_getLast hne]
    exact ih

/-- C05.5c: the whole chain is strictly increasing -/
theorem joinChain_pairwise (off : ℝ) (d : List ℝ) (s : ℕ) (rest : List (List ℝ × ℕ)) (hne : d ≠ [])
    (hd : d.Pairwise (· < ·)) (h : ∀ p ∈ rest, p.2 = 0 ∧ p.1 ≠ [] ∧ p.1.Pairwise (· < ·)) :
    (joinChain (chainPD off ((d, s) :: rest))).Pairwise (· < ·) := by
  rw [chainPD_cons, joinChain]
  apply pairwise_append_of_getLast (regionVals_ne_nil hne) (regionVals_pairwise hd)
  rw [regionVals_getLast hne]
  exact chain_tails_pairwise _ rest h

/-- the interior-face formula applied to two contours glued end to end, at the face where they are glued -/
theorem hyYlowInner_append (A B : List ℝ) (m : ℕ) (hA : A.length = 2 * m + 3) (hB : 1 ≤ B.length) :
    (hyYlowInner (A ++ B))[m]? = some (B[0] - A[2 * m + 1]) := by
  have hlen : (A ++ B).length = 2 * m + 3 + B.length := by rw [List.length_append, hA]
  have h1 : 2 * m + 3 < (A ++ B).length := by omega
  have h2 : m < (hyYlowInner (A ++ B)).length := by rw [hyYlowInner_length]; omega
  rw [List.getElem?_eq_getElem h2, hyYlowInner_getElem (A ++ B) m h1 h2]
  rw [List.getElem_append_right (by omega), List.getElem_append_left (by omega)]
  simp only [hA, Nat.sub_self]

theorem joinChain_two (off : ℝ) (d0 d1 : List ℝ) (s0 s1 : ℕ) :
    joinChain (chainPD off [(d0, s0), (d1, s1)]) =
      regionVals off d0 s0 ++ (regionVals (off + regionSpan (d0, s0)) d1 s1).tail := by
  simp [chainPD_cons, chainPD_nil, joinChain]

/-! ### the variant that subtracts `d[start]` only for the first region (the defect) -/

/-- later regions of the defective variant: `offset + d[i]` (no subtraction of the region's own start value) -/
def chainRaw : ℝ → List (List ℝ × ℕ) → List (List ℝ)
  | _, [] => []
  | off, (d, _) :: rest =>
    let here := d.map (fun x => off + x)
    here :: chainRaw (here.getLastD off) rest

/-- `calcPoloidalDistance` before the fix: `- d[startInd]` applied to the first region of the chain only -/
def chainPDfirstOnly : ℝ → List (List ℝ × ℕ) → List (List ℝ)
  | _, [] => []
  | off, (d, s) :: rest =>
    let here := (fromStart d s).map (fun x => off + x)
    here :: chainRaw (here.getLastD off) rest

theorem chainPDfirstOnly_two (off : ℝ) (d0 d1 : List ℝ) (s0 s1 : ℕ) :
    chainPDfirstOnly off [(d0, s0), (d1, s1)] =
      [regionVals off d0 s0, d1.map fun x => (off + regionSpan (d0, s0)) + x] := by
  simp only [chainPDfirstOnly, chainRaw, regionVals_eq, regionVals_getLastD]

/-! ## cumtrapz -/

theorem cumtrapzAux_cons2 (acc x0 x1 y0 y1 : ℝ) (xs ys : List ℝ) :
    cumtrapzAux acc (x0 :: x1 :: xs) (y0 :: y1 :: ys) =
      (acc + (x1 - x0) * (y0 + y1) / 2) ::
        cumtrapzAux (acc + (x1 - x0) * (y0 + y1) / 2) (x1 :: xs) (y1 :: ys) := by
  rw [cumtrapzAux]

theorem cumtrapzAux_nil_left (acc : ℝ) (y : List ℝ) : cumtrapzAux acc [] y = [] := by simp [cumtrapzAux]
theorem cumtrapzAux_one_left (acc x0 : ℝ) (y : List ℝ) : cumtrapzAux acc [x0] y = [] := by simp [cumtrapzAux]
theorem cumtrapzAux_nil_right (acc : ℝ) (x : List ℝ) : cumtrapzAux acc x [] = [] := by simp [cumtrapzAux]
theorem cumtrapzAux_one_right (acc y0 : ℝ) (x : List ℝ) : cumtrapzAux acc x [y0] = [] := by simp [cumtrapzAux]

theorem cumtrapz_cons (x0 : ℝ) (xs y : List ℝ) : cumtrapz (x0 :: xs) y = 0 :: cumtrapzAux 0 (x0 :: xs) y := by
  simp [cumtrapz]

theorem cumtrapz_nil (y : List ℝ) : cumtrapz ([] : List ℝ) y = [] := by simp [cumtrapz]

theorem cumtrapzAux_length : ∀ (acc : ℝ) (x y : List ℝ), x.length = y.length →
    (cumtrapzAux acc x y).length = x.length - 1
  | acc, [], y, _ => by simp [cumtrapzAux_nil_left]
  | acc, [x0], y, _ => by simp [cumtrapzAux_one_left]
  | acc, x0 :: x1 :: xs, [], h => by simp at h
  | acc, x0 :: x1 :: xs, [y0], h => by simp at h
  | acc, x0 :: x1 :: xs, y0 :: y1 :: ys, h => by
    rw [cumtrapzAux_cons2, List.length_cons, cumtrapzAux_length _ (x1 :: xs) (y1 :: ys) (by simpa using h)]
    simp

theorem cumtrapz_length (x y : List ℝ) (h : x.length = y.length) : (cumtrapz x y).length = x.length := by
  cases x with
  | nil => simp [cumtrapz_nil]
  | cons x0 xs => rw [cumtrapz_cons, List.length_cons, cumtrapzAux_length _ _ _ h]; simp

/-- consecutive entries of `acc :: cumtrapzAux acc x y` differ by one trapezoid -/
theorem cumtrapzAux_step : ∀ (acc : ℝ) (x y : List ℝ) (i : ℕ) (hx : i + 1 < x.length) (hy : i + 1 < y.length)
    (hc : i + 1 < (acc :: cumtrapzAux acc x y).length),
    (acc :: cumtrapzAux acc x y)[i + 1] =
      (acc :: cumtrapzAux acc x y)[i] + (x[i + 1] - x[i]) * (y[i] + y[i + 1]) / 2
  | acc, x0 :: x1 :: xs, y0 :: y1 :: ys, 0, _, _, _ => by simp [cumtrapzAux_cons2]
  | acc, x0 :: x1 :: xs, y0 :: y1 :: ys, i + 1, hx, hy, hc => by
    have hx' : i + 1 < (x1 :: xs).length := by simpa using hx
    have hy' : i + 1 < (y1 :: ys).length := by simpa using hy
    have hc' : i + 1 < ((acc + (x1 - x0) * (y0 + y1) / 2) ::
        cumtrapzAux (acc + (x1 - x0) * (y0 + y1) / 2) (x1 :: xs) (y1 :: ys)).length := by
      simpa [cumtrapzAux_cons2] using hc
    have ih := cumtrapzAux_step (acc + (x1 - x0) * (y0 + y1) / 2) (x1 :: xs) (y1 :: ys) i hx' hy' hc'
    simp only [cumtrapzAux_cons2, List.getElem_cons_succ] at ih ⊢
    exact ih

/-- strictly increasing abscissae, non-negative integrand: the cumulative values do not decrease -/
theorem cumtrapzAux_pairwise_le : ∀ (acc : ℝ) (x y : List ℝ), x.Pairwise (· < ·) → (∀ v ∈ y, 0 ≤ v) →
    (acc :: cumtrapzAux acc x y).Pairwise (· ≤ ·)
  | acc, [], y, _, _ => by simp [cumtrapzAux_nil_left]
  | acc, [x0], y, _, _ => by simp [cumtrapzAux_one_left]
  | acc, x0 :: x1 :: xs, [], _, _ => by simp [cumtrapzAux_nil_right]
  | acc, x0 :: x1 :: xs, [y0], _, _ => by simp [cumtrapzAux_one_right]
  | acc, x0 :: x1 :: xs, y0 :: y1 :: ys, hx, hy => by
    have ih := cumtrapzAux_pairwise_le (acc + (x1 - x0) * (y0 + y1) / 2) (x1 :: xs) (y1 :: ys)
      (List.pairwise_cons.1 hx).2 (fun v hv => hy v (List.mem_cons_of_mem _ hv))
    rw [cumtrapzAux_cons2]
    have h01 : x0 < x1 := (List.pairwise_cons.1 hx).1 x1 (by simp)
    have hy0 : 0 ≤ y0 := hy y0 (by simp)
    have hy1 : 0 ≤ y1 := hy y1 (by simp)
    have hstep : acc ≤ acc + (x1 - x0) * (y0 + y1) / 2 := by
      have : 0 ≤ (x1 - x0) * (y0 + y1) := mul_nonneg (by linarith) (by linarith)
      linarith
    refine List.pairwise_cons.2 ⟨fun b hb => ?_, ih⟩
    rcases List.mem_cons.1 hb with rfl | hb'
    · exact hstep
    · exact le_trans hstep ((List.pairwise_cons.1 ih).1 b hb')

/-- strictly increasing abscissae, positive integrand: the cumulative values increase strictly -/
theorem cumtrapzAux_pairwise_lt : ∀ (acc : ℝ) (x y : List ℝ), x.Pairwise (· < ·) → (∀ v ∈ y, 0 < v) →
    (acc :: cumtrapzAux acc x y).Pairwise (· < ·)
  | acc, [], y, _, _ => by simp [cumtrapzAux_nil_left]
  | acc, [x0], y, _, _ => by simp [cumtrapzAux_one_left]
  | acc, x0 :: x1 :: xs, [], _, _ => by simp [cumtrapzAux_nil_right]
  | acc, x0 :: x1 :: xs, [y0], _, _ => by simp [cumtrapzAux_one_right]
  | acc, x0 :: x1 :: xs, y0 :: y1 :: ys, hx, hy => by
    have ih := cumtrapzAux_pairwise_lt (acc + (x1 - x0) * (y0 + y1) / 2) (x1 :: xs) (y1 :: ys)
      (List.pairwise_cons.1 hx).2 (fun v hv => hy v (List.mem_cons_of_mem _ hv))
    rw [cumtrapzAux_cons2]
    have h01 : x0 < x1 := (List.pairwise_cons.1 hx).1 x1 (by simp)
    have hy0 : 0 < y0 := hy y0 (by simp)
    have hy1 : 0 < y1 := hy y1 (by simp)
    have hstep : acc < acc + (x1 - x0) * (y0 + y1) / 2 := by
      have : 0 < (x1 - x0) * (y0 + y1) := mul_pos (by linarith) (by linarith)
      linarith
    refine List.pairwise_cons.2 ⟨fun b hb => ?_, ih⟩
    rcases List.mem_cons.1 hb with rfl | hb'
    · exact hstep
    · exact lt_trans hstep ((List.pairwise_cons.1 ih).1 b hb')

theorem cumtrapz_ne_nil {x : List ℝ} (y : List ℝ) (h : x ≠ []) : cumtrapz x y ≠ [] := by
  obtain ⟨x0, xs, rfl⟩ := List.exists_cons_of_ne_nil h
  simp [cumtrapz_cons]

theorem cumtrapz_getD_zero (x y : List ℝ) : (cumtrapz x y).getD 0 0 = 0 := by
  cases x with
  | nil => simp [cumtrapz_nil]
  | cons x0 xs => simp [cumtrapz_cons]

theorem cumtrapz_head? {x : List ℝ} (y : List ℝ) (h : x ≠ []) : (cumtrapz x y).head? = some 0 := by
  obtain ⟨x0, xs, rfl⟩ := List.exists_cons_of_ne_nil h
  simp [cumtrapz_cons]

theorem cumtrapz_getElem_succ (x y : List ℝ) (hxy : x.length = y.length) (i : ℕ) (hi : i + 1 < x.length)
    (h1 : i + 1 < (cumtrapz x y).length) :
    (cumtrapz x y)[i + 1] = (cumtrapz x y)[i] + (x[i + 1] - x[i]) * (y[i] + y[i + 1]) / 2 := by
  cases x with
  | nil => simp at hi
  | cons x0 xs =>
    simp only [cumtrapz_cons]
    exact cumtrapzAux_step 0 (x0 :: xs) y i hi (by omega) _

/-- strictly increasing abscissae, non-positive integrand: the cumulative values do not increase -/
theorem cumtrapzAux_pairwise_ge : ∀ (acc : ℝ) (x y : List ℝ), x.Pairwise (· < ·) → (∀ v ∈ y, v ≤ 0) →
    (acc :: cumtrapzAux acc x y).Pairwise (· ≥ ·)
  | acc, [], y, _, _ => by simp [cumtrapzAux_nil_left]
  | acc, [x0], y, _, _ => by simp [cumtrapzAux_one_left]
  | acc, x0 :: x1 :: xs, [], _, _ => by simp [cumtrapzAux_nil_right]
  | acc, x0 :: x1 :: xs, [y0], _, _ => by simp [cumtrapzAux_one_right]
  | acc, x0 :: x1 :: xs, y0 :: y1 :: ys, hx, hy => by
    have ih := cumtrapzAux_pairwise_ge (acc + (x1 - x0) * (y0 + y1) / 2) (x1 :: xs) (y1 :: ys)
      (List.pairwise_cons.1 hx).2 (fun v hv => hy v (List.mem_cons_of_mem _ hv))
    rw [cumtrapzAux_cons2]
    have h01 : x0 < x1 := (List.pairwise_cons.1 hx).1 x1 (by simp)
    have hy0 : y0 ≤ 0 := hy y0 (by simp)
    have hy1 : y1 ≤ 0 := hy y1 (by simp)
    have hstep : acc ≥ acc + (x1 - x0) * (y0 + y1) / 2 := by
      have : 0 ≤ (x1 - x0) * (-(y0 + y1)) := mul_nonneg (by linarith) (by linarith)
      linarith
    refine List.pairwise_cons.2 ⟨fun b hb => ?_, ih⟩
    rcases List.mem_cons.1 hb with rfl | hb'
    · exact hstep
    · exact ge_trans hstep ((List.pairwise_cons.1 ih).1 b hb')

/-- strictly increasing abscissae, negative integrand: the cumulative values decrease strictly -/
theorem cumtrapzAux_pairwise_gt : ∀ (acc : ℝ) (x y : List ℝ), x.Pairwise (· < ·) → (∀ v ∈ y, v < 0) →
    (acc :: cumtrapzAux acc x y).Pairwise (· > ·)
  | acc, [], y, _, _ => by simp [cumtrapzAux_nil_left]
  | acc, [x0], y, _, _ => by simp [cumtrapzAux_one_left]
  | acc, x0 :: x1 :: xs, [], _, _ => by simp [cumtrapzAux_nil_right]
  | acc, x0 :: x1 :: xs, [y0], _, _ => by simp [cumtrapzAux_one_right]
  | acc, x0 :: x1 :: xs, y0 :: y1 :: ys, hx, hy => by
    have ih := cumtrapzAux_pairwise_gt (acc + (x1 - x0) * (y0 + y1) / 2) (x1 :: xs) (y1 :: ys)
      (List.pairwise_cons.1 hx).2 (fun v hv => hy v (List.mem_cons_of_mem _ hv))
    rw [cumtrapzAux_cons2]
    have h01 : x0 < x1 := (List.pairwise_cons.1 hx).1 x1 (by simp)
    have hy0 : y0 < 0 := hy y0 (by simp)
    have hy1 : y1 < 0 := hy y1 (by simp)
    have hstep : acc > acc + (x1 - x0) * (y0 + y1) / 2 := by
      have : 0 < (x1 - x0) * (-(y0 + y1)) := mul_pos (by linarith) (by linarith)
      linarith
    refine List.pairwise_cons.2 ⟨fun b hb => ?_, ih⟩
    rcases List.mem_cons.1 hb with rfl | hb'
    · exact hstep
    · exact gt_trans hstep ((List.pairwise_cons.1 ih).1 b hb')

/-- all four monotonicity statements for `cumtrapz` itself -/
theorem cumtrapz_pairwise (x y : List ℝ) (hx : x.Pairwise (· < ·)) :
    ((∀ v ∈ y, 0 ≤ v) → (cumtrapz x y).Pairwise (· ≤ ·)) ∧ ((∀ v ∈ y, 0 < v) → (cumtrapz x y).Pairwise (· < ·)) ∧
    ((∀ v ∈ y, v ≤ 0) → (cumtrapz x y).Pairwise (· ≥ ·)) ∧ ((∀ v ∈ y, v < 0) → (cumtrapz x y).Pairwise (· > ·)) := by
  cases x with
  | nil => simp [cumtrapz_nil]
  | cons x0 xs =>
    rw [cumtrapz_cons]
    exact ⟨cumtrapzAux_pairwise_le 0 _ y hx, cumtrapzAux_pairwise_lt 0 _ y hx, cumtrapzAux_pairwise_ge 0 _ y hx,
      cumtrapzAux_pairwise_gt 0 _ y hx⟩

/-- exactness for a constant integrand -/
theorem cumtrapz_replicate (x : List ℝ) (c : ℝ) : ∀ (i : ℕ) (hi : i < x.length)
    (h1 : i < (cumtrapz x (List.replicate x.length c)).length),
    (cumtrapz x (List.replicate x.length c))[i] = c * (x[i] - x[0])
  | 0, hi, h1 => by
    obtain ⟨x0, xs, rfl⟩ := List.exists_cons_of_ne_nil (List.ne_nil_of_length_pos hi)
    simp [cumtrapz_cons]
  | i + 1, hi, h1 => by
    have ih := cumtrapz_replicate x c i (by omega) (by omega)
    rw [cumtrapz_getElem_succ x _ (by simp) i hi h1, ih]
    simp only [List.getElem_replicate]
    ring

theorem regionSpan_cumtrapz_zero (x y : List ℝ) : regionSpan (cumtrapz x y, 0) = (cumtrapz x y).getLastD 0 := by
  unfold regionSpan
  simp only [cumtrapz_getD_zero, sub_zero]

/-- the regions of a zShift chain: per-region cumulative trapezoids, the first one zeroed at its startInd `s0`, every
    later one starting at its first point -/
noncomputable def zregs (x0 y0 : List ℝ) (s0 : ℕ) (rest : List (List ℝ × List ℝ)) : List (List ℝ × ℕ) :=
  (cumtrapz x0 y0, s0) :: rest.map fun p => (cumtrapz p.1 p.2, 0)

/-! ## chords of a circular arc -/

/-- `FineContour.calcDistance` on a circular arc: N equal chords of an arc of radius r and angle θ -/
noncomputable def chordSum (r θ : ℝ) (N : ℕ) : ℝ := N * (2 * r * Real.sin (θ / (2 * N)))

/-- the straight-line distance between two points of a circle of radius r whose angles differ by φ ∈ [0, 2π] is
    2·r·sin(φ/2) -/
theorem chord_length (r a φ : ℝ) (hr : 0 ≤ r) (h0 : 0 ≤ φ) (h1 : φ ≤ 2 * Real.pi) :
    Real.sqrt ((r * Real.cos (a + φ) - r * Real.cos a) ^ 2 + (r * Real.sin (a + φ) - r * Real.sin a) ^ 2)
      = 2 * r * Real.sin (φ / 2) := by
  have e1 := Real.sin_sq_add_cos_sq (a + φ)
  have e0 := Real.sin_sq_add_cos_sq a
  have eφ : Real.cos φ = Real.cos (a + φ) * Real.cos a + Real.sin (a + φ) * Real.sin a := by
    have := Real.cos_sub (a + φ) a
    rwa [add_sub_cancel_left] at this
  have ec : Real.cos φ = 1 - 2 * Real.sin (φ / 2) ^ 2 := by
    have h := Real.cos_two_mul (φ / 2)
    have h' := Real.sin_sq_add_cos_sq (φ / 2)
    rw [mul_div_cancel₀ φ (two_ne_zero)] at h
    linear_combination h + 2 * h'
  have key : (r * Real.cos (a + φ) - r * Real.cos a) ^ 2 + (r * Real.sin (a + φ) - r * Real.sin a) ^ 2
      = (2 * r * Real.sin (φ / 2)) ^ 2 := by
    linear_combination r ^ 2 * e1 + r ^ 2 * e0 + 2 * r ^ 2 * eφ - 2 * r ^ 2 * ec
  rw [key]
  apply Real.sqrt_sq
  have : 0 ≤ Real.sin (φ / 2) := Real.sin_nonneg_of_nonneg_of_le_pi (by linarith) (by linarith)
  positivity

/-! ## the y-faces at the ends of a region (`hyYlowFirst`, `hyYlowLast`, `hyYlowAll`) -/

theorem hyYlowFirst_some (d db : List ℝ) :
    hyYlowFirst d (some db) =
      (d.getD 1 0 - d.getD 0 0) + (db.getD (db.length - 1) 0 - db.getD (db.length - 2) 0) := by
  rfl

theorem hyYlowFirst_none (d : List ℝ) : hyYlowFirst d none = 2 * (d.getD 1 0 - d.getD 0 0) := by
  rfl

theorem hyYlowLast_some (d da : List ℝ) :
    hyYlowLast d (some da) =
      (d.getD (d.length - 1) 0 - d.getD (d.length - 2) 0) + (da.getD 1 0 - da.getD 0 0) := by
  rfl

theorem hyYlowLast_none (d : List ℝ) :
    hyYlowLast d none = 2 * (d.getD (d.length - 1) 0 - d.getD (d.length - 2) 0) := by
  rfl

theorem hyYlowAll_eq (d : List ℝ) (below above : Option (List ℝ)) :
    hyYlowAll d below above = (hyYlowFirst d below :: hyYlowInner d) ++ [hyYlowLast d above] := by
  rfl

/-- the seeded regression: the half cell of the region below taken from its wrong (lower) end,
    `dbelow[1] - dbelow[0]` instead of `dbelow[-1] - dbelow[-2]` -/
def hyYlowFirstWrongEnd (d db : List ℝ) : ℝ := (d.getD 1 0 - d.getD 0 0) + (db.getD 1 0 - db.getD 0 0)

/-- the differences `hyCentre` takes telescope for every length: to the last even index -/
theorem hyCentre_sum_getD : ∀ d : List ℝ,
    (hyCentre d).sum = d.getD (2 * ((d.length - 1) / 2)) 0 - d.getD 0 0
  | [] => by simp [hyCentre_nil]
  | [a] => by simp [hyCentre_one]
  | [a, b] => by simp [hyCentre_two]
  | a :: b :: c :: rest => by
    have ih := hyCentre_sum_getD (c :: rest)
    have e : 2 * (((a :: b :: c :: rest).length - 1) / 2) = 2 * (((c :: rest).length - 1) / 2) + 1 + 1 := by
      simp only [List.length_cons]; omega
    rw [hyCentre_cons3, List.sum_cons, ih, e, List.getD_cons_succ, List.getD_cons_succ, List.getD_cons_zero,
      List.getD_cons_zero]
    ring

/-- the interior y-faces telescope from the first cell centre to the last one -/
theorem hyYlowInner_sum (d : List ℝ) (ny : ℕ) (hd : d.length = 2 * ny + 1) (hny : 1 ≤ ny) :
    (hyYlowInner d).sum = d.getD (2 * ny - 1) 0 - d.getD 1 0 := by
  obtain ⟨m, rfl⟩ : ∃ m, ny = m + 1 := ⟨ny - 1, by omega⟩
  cases d with
  | nil => simp at hd
  | cons a t =>
    have ht : t.length = 2 * m + 2 := by simp only [List.length_cons] at hd; omega
    have e1 : 2 * ((t.length - 1) / 2) = 2 * m := by rw [ht]; omega
    have e2 : 2 * (m + 1) - 1 = 2 * m + 1 := by omega
    rw [hyYlowInner_cons, hyCentre_sum_getD, e1, e2, List.getD_cons_succ, List.getD_cons_succ]

/-- the first `ny` of the `ny + 1` y-face values: the lower end face and the interior faces -/
theorem hyYlowAll_take (d : List ℝ) (below above : Option (List ℝ)) (ny : ℕ) (hd : d.length = 2 * ny + 1)
    (hny : 1 ≤ ny) :
    (hyYlowAll d below above).take ny = hyYlowFirst d below :: hyYlowInner d := by
  rw [hyYlowAll_eq]
  apply List.take_left'
  rw [List.length_cons, hyYlowInner_length_odd d ny hd]
  omega

theorem hyYlowAll_take_sum (d : List ℝ) (below above : Option (List ℝ)) (ny : ℕ) (hd : d.length = 2 * ny + 1)
    (hny : 1 ≤ ny) :
    ((hyYlowAll d below above).take ny).sum = hyYlowFirst d below + (d.getD (2 * ny - 1) 0 - d.getD 1 0) := by
  rw [hyYlowAll_take d below above ny hd hny, List.sum_cons, hyYlowInner_sum d ny hd hny]

end DistanceLemmas
