/-
Helper lemmas for C19 over ℝ: the model `HypnoModel/Model/Critical.lean` (generic in the number type, run over Float by the
driver) instantiated at α := ℝ, and the auxiliary definitions used by the statements of `HypnoModel/Props/C19.lean`
(`quad`, `flipIf`, `maxOf`, `dropRatio`).
-/
import HypnoModel.Model.Critical
import HypnoModel.Gen.Critical
import Mathlib.Data.Real.Basic
import Mathlib.Data.List.Basic
import Mathlib.Algebra.Order.Ring.Abs
import Mathlib.Tactic.FieldSimp
import Mathlib.Tactic.Ring
import Mathlib.Tactic.Linarith
import Mathlib.Tactic.NormNum

namespace CriticalLemmas
open Critical

/-! ## the sampled quadratic -/

/-- general quadratic in (R, Z) -/
def quad (c0 c1 c2 c3 c4 c5 R Z : ℝ) : ℝ := c0 + c1 * R + c2 * Z + c3 * R ^ 2 + c4 * R * Z + c5 * Z ^ 2

/-! ## classify -/

theorem classify_xpoint_iff (D : ℝ) : classify D = Kind.xpoint ↔ D < 0 := by
  unfold classify; split_ifs with h <;> simp [h]

theorem classify_opoint_iff (D : ℝ) : classify D = Kind.opoint ↔ ¬ D < 0 := by
  unfold classify; split_ifs with h <;> simp [h]

/-! ## removeDup -/

theorem any_iff (thr : ℝ) (res : List (Pt ℝ)) (p : Pt ℝ) :
    (res.any (fun q => decide (dist2 p q < thr)) = true) ↔ ∃ q ∈ res, dist2 p q < thr := by
  simp [List.any_eq_true]

theorem aux_nil (thr : ℝ) (res : List (Pt ℝ)) : removeDupAux thr res [] = res := by
  simp [removeDupAux]

theorem aux_cons_dup (thr : ℝ) (res ps : List (Pt ℝ)) (p : Pt ℝ) (h : ∃ q ∈ res, dist2 p q < thr) :
    removeDupAux thr res (p :: ps) = removeDupAux thr res ps := by
  rw [removeDupAux, if_pos ((any_iff thr res p).2 h)]

theorem aux_cons_new (thr : ℝ) (res ps : List (Pt ℝ)) (p : Pt ℝ) (h : ¬ ∃ q ∈ res, dist2 p q < thr) :
    removeDupAux thr res (p :: ps) = removeDupAux thr (res ++ [p]) ps := by
  rw [removeDupAux, if_neg (fun h' => h ((any_iff thr res p).1 h'))]

/-- the accumulator is a prefix of the result -/
theorem aux_prefix (thr : ℝ) : ∀ (ps res : List (Pt ℝ)), res <+: removeDupAux thr res ps
  | [], res => by rw [aux_nil]; exact List.prefix_refl _
  | p :: ps, res => by
    by_cases h : ∃ q ∈ res, dist2 p q < thr
    · rw [aux_cons_dup thr res ps p h]; exact aux_prefix thr ps res
    · rw [aux_cons_new thr res ps p h]
      exact (List.prefix_append res [p]).trans (aux_prefix thr ps (res ++ [p]))

theorem aux_sublist (thr : ℝ) : ∀ (ps res : List (Pt ℝ)), (removeDupAux thr res ps).Sublist (res ++ ps)
  | [], res => by rw [aux_nil]; simp
  | p :: ps, res => by
    by_cases h : ∃ q ∈ res, dist2 p q < thr
    · rw [aux_cons_dup thr res ps p h]
      exact (aux_sublist thr ps res).trans
        (List.Sublist.append_left (List.sublist_cons_self p ps) res)
    · rw [aux_cons_new thr res ps p h]
      have := aux_sublist thr ps (res ++ [p])
      simpa using this

/-- the result is `res ++ (a sublist of ps)` -/
theorem aux_eq_append (thr : ℝ) : ∀ (ps res : List (Pt ℝ)),
    ∃ l', removeDupAux thr res ps = res ++ l' ∧ l'.Sublist ps
  | [], res => ⟨[], by rw [aux_nil]; simp, List.Sublist.refl _⟩
  | p :: ps, res => by
    by_cases h : ∃ q ∈ res, dist2 p q < thr
    · rw [aux_cons_dup thr res ps p h]
      obtain ⟨l', h1, h2⟩ := aux_eq_append thr ps res
      exact ⟨l', h1, h2.trans (List.sublist_cons_self p ps)⟩
    · rw [aux_cons_new thr res ps p h]
      obtain ⟨l', h1, h2⟩ := aux_eq_append thr ps (res ++ [p])
      exact ⟨p :: l', by rw [h1]; simp, h2.cons_cons p⟩

theorem aux_pairwise (thr : ℝ) : ∀ (ps res : List (Pt ℝ)),
    res.Pairwise (fun p q => ¬ dist2 q p < thr) →
    (removeDupAux thr res ps).Pairwise (fun p q => ¬ dist2 q p < thr)
  | [], res, h => by rw [aux_nil]; exact h
  | p :: ps, res, h => by
    by_cases hd : ∃ q ∈ res, dist2 p q < thr
    · rw [aux_cons_dup thr res ps p hd]; exact aux_pairwise thr ps res h
    · rw [aux_cons_new thr res ps p hd]
      apply aux_pairwise thr ps
      rw [List.pairwise_append]
      refine ⟨h, List.pairwise_singleton _ _, ?_⟩
      intro a ha b hb
      rw [List.mem_singleton] at hb
      subst hb
      intro hlt
      exact hd ⟨a, ha, hlt⟩

theorem aux_covers (thr : ℝ) : ∀ (ps res : List (Pt ℝ)), ∀ x ∈ ps,
    x ∈ removeDupAux thr res ps ∨ ∃ q ∈ removeDupAux thr res ps, dist2 x q < thr
  | [], _, x, hx => by simp at hx
  | p :: ps, res, x, hx => by
    by_cases hd : ∃ q ∈ res, dist2 p q < thr
    · rw [aux_cons_dup thr res ps p hd]
      rcases List.mem_cons.1 hx with rfl | hx'
      · obtain ⟨q, hq, hlt⟩ := hd
        exact Or.inr ⟨q, (aux_prefix thr ps res).subset hq, hlt⟩
      · exact aux_covers thr ps res x hx'
    · rw [aux_cons_new thr res ps p hd]
      rcases List.mem_cons.1 hx with rfl | hx'
      · exact Or.inl ((aux_prefix thr ps (res ++ [x])).subset (by simp))
      · exact aux_covers thr ps (res ++ [p]) x hx'

/-- on an already separated list nothing is removed (no symmetry of `dist2` needed: the list's own pairwise relation has the
    argument order of the test) -/
theorem aux_of_separated (thr : ℝ) : ∀ (l res : List (Pt ℝ)),
    l.Pairwise (fun p q => ¬ dist2 q p < thr) → (∀ q ∈ res, ∀ p ∈ l, ¬ dist2 p q < thr) →
    removeDupAux thr res l = res ++ l
  | [], res, _, _ => by rw [aux_nil]; simp
  | p :: ps, res, hl, hr => by
    have hd : ¬ ∃ q ∈ res, dist2 p q < thr := by
      rintro ⟨q, hq, hlt⟩
      exact hr q hq p (List.mem_cons_self ..) hlt
    rw [aux_cons_new thr res ps p hd]
    rw [aux_of_separated thr ps (res ++ [p]) (List.pairwise_cons.1 hl).2 ?_]
    · simp
    · intro q hq x hx
      rcases List.mem_append.1 hq with hq | hq
      · exact hr q hq x (List.mem_cons_of_mem _ hx)
      · rw [List.mem_singleton] at hq
        subst hq
        exact (List.pairwise_cons.1 hl).1 x hx

/-- processing one more point at the end: the loop body of `remove_dup` -/
theorem aux_snoc (thr : ℝ) (p : Pt ℝ) : ∀ (ps res : List (Pt ℝ)),
    removeDupAux thr res (ps ++ [p]) =
      if ∃ q ∈ removeDupAux thr res ps, dist2 p q < thr then removeDupAux thr res ps
      else removeDupAux thr res ps ++ [p]
  | [], res => by
    rw [aux_nil, List.nil_append]
    by_cases hd : ∃ q ∈ res, dist2 p q < thr
    · rw [aux_cons_dup thr res [] p hd, aux_nil, if_pos hd]
    · rw [aux_cons_new thr res [] p hd, aux_nil, if_neg hd]
  | a :: ps, res => by
    rw [List.cons_append]
    by_cases hd : ∃ q ∈ res, dist2 a q < thr
    · rw [aux_cons_dup thr res _ a hd, aux_cons_dup thr res _ a hd]; exact aux_snoc thr p ps res
    · rw [aux_cons_new thr res _ a hd, aux_cons_new thr res _ a hd]; exact aux_snoc thr p ps (res ++ [a])

/-! ## sortBy -/

theorem insertBy_perm (key : Pt ℝ → ℝ) (p : Pt ℝ) : ∀ l : List (Pt ℝ), (insertBy key p l).Perm (p :: l)
  | [] => by simp [insertBy]
  | q :: qs => by
    rw [insertBy]
    split_ifs
    · exact ((insertBy_perm key p qs).cons q).trans (List.Perm.swap p q qs)
    · exact List.Perm.refl _

theorem sortBy_perm (key : Pt ℝ → ℝ) : ∀ l : List (Pt ℝ), (sortBy key l).Perm l
  | [] => by simp [sortBy]
  | p :: ps => by
    rw [sortBy]
    exact (insertBy_perm key p _).trans ((sortBy_perm key ps).cons p)

theorem insertBy_sorted (key : Pt ℝ → ℝ) (p : Pt ℝ) : ∀ l : List (Pt ℝ),
    l.Pairwise (fun a b => ¬ key b < key a) → (insertBy key p l).Pairwise (fun a b => ¬ key b < key a)
  | [], _ => by simp [insertBy]
  | q :: qs, h => by
    rw [insertBy]
    split_ifs with hlt
    · refine List.pairwise_cons.2 ⟨?_, insertBy_sorted key p qs (List.pairwise_cons.1 h).2⟩
      intro b hb
      have hb' := (insertBy_perm key p qs).subset hb
      rcases List.mem_cons.1 hb' with rfl | hb'
      · exact lt_asymm hlt
      · exact (List.pairwise_cons.1 h).1 b hb'
    · refine List.pairwise_cons.2 ⟨?_, h⟩
      intro b hb
      rcases List.mem_cons.1 hb with rfl | hb
      · exact hlt
      · have := (List.pairwise_cons.1 h).1 b hb
        exact not_lt.2 ((not_lt.1 hlt).trans (not_lt.1 this))

theorem sortBy_sorted (key : Pt ℝ → ℝ) : ∀ l : List (Pt ℝ),
    (sortBy key l).Pairwise (fun a b => ¬ key b < key a)
  | [] => by simp [sortBy]
  | p :: ps => by
    rw [sortBy]
    exact insertBy_sorted key p _ (sortBy_sorted key ps)

/-- the head of a sorted permutation minimises the key -/
theorem sortBy_head_min (key : Pt ℝ → ℝ) (l : List (Pt ℝ)) (o : Pt ℝ) (h : (sortBy key l).head? = some o) :
    o ∈ l ∧ ∀ p ∈ l, key o ≤ key p := by
  have hperm := sortBy_perm key l
  have hsort := sortBy_sorted key l
  cases hs : sortBy key l with
  | nil => rw [hs] at h; simp at h
  | cons a as =>
    rw [hs] at h hperm hsort
    simp only [List.head?_cons, Option.some.injEq] at h
    subst h
    refine ⟨hperm.subset (List.mem_cons_self ..), fun p hp => ?_⟩
    rcases List.mem_cons.1 (hperm.symm.subset hp) with rfl | hp'
    · exact le_refl _
    · exact not_lt.1 ((List.pairwise_cons.1 hsort).1 p hp')

theorem sortBy_ne_nil (key : Pt ℝ → ℝ) (l : List (Pt ℝ)) (h : l ≠ []) : sortBy key l ≠ [] := by
  intro h0
  have := (sortBy_perm key l).length_eq
  rw [h0] at this
  exact h (List.length_eq_zero_iff.1 this.symm)

/-- entries with the key value `k` -/
noncomputable def withKey (key : Pt ℝ → ℝ) (k : ℝ) (l : List (Pt ℝ)) : List (Pt ℝ) :=
  l.filter (fun x => decide (key x = k))

theorem withKey_nil (key : Pt ℝ → ℝ) (k : ℝ) : withKey key k [] = [] := by simp [withKey]

theorem withKey_cons (key : Pt ℝ → ℝ) (k : ℝ) (a : Pt ℝ) (l : List (Pt ℝ)) :
    withKey key k (a :: l) = if key a = k then a :: withKey key k l else withKey key k l := by
  unfold withKey
  rw [List.filter_cons]
  by_cases h : key a = k <;> simp [h]

/-- `insertBy` puts the new entry BEFORE the entries with the same key: it only moves past entries of strictly smaller key -/
theorem insertBy_withKey (key : Pt ℝ → ℝ) (k : ℝ) (p : Pt ℝ) : ∀ l : List (Pt ℝ),
    withKey key k (insertBy key p l) = if key p = k then p :: withKey key k l else withKey key k l
  | [] => by
    simp only [insertBy, withKey_cons, withKey_nil]
  | q :: qs => by
    rw [insertBy]
    split_ifs with hlt hk hk
    · have hq : key q ≠ k := by rw [← hk]; exact ne_of_lt hlt
      rw [withKey_cons, if_neg hq, insertBy_withKey key k p qs, if_pos hk, withKey_cons, if_neg hq]
    · rw [withKey_cons, insertBy_withKey key k p qs, if_neg hk, withKey_cons]
    · rw [withKey_cons, if_pos hk]
    · rw [withKey_cons, if_neg hk]

/-- the model's insertion sort is stable: entries with equal keys keep their input order -/
theorem sortBy_withKey (key : Pt ℝ → ℝ) (k : ℝ) : ∀ l : List (Pt ℝ),
    withKey key k (sortBy key l) = withKey key k l
  | [] => by simp [sortBy]
  | p :: ps => by
    rw [sortBy, insertBy_withKey key k p _, sortBy_withKey key k ps, withKey_cons]

/-! ## the sign flip of the monotonicity filter -/

/-- `if Px < Po: pline *= -1.0` -/
def flipIf (b : Bool) (s : List ℝ) : List ℝ := if b then s.map Neg.neg else s

/-- `amax(pline)` (0 for the empty list, which the code never forms: 50 samples) -/
def maxOf : List ℝ → ℝ
  | [] => 0
  | x :: xs => xs.foldl max x

/-- `(maxp - pline[-1]) / (maxp - pline[0])` -/
noncomputable def dropRatio (s : List ℝ) : ℝ := (maxOf s - s.getLastD 0) / (maxOf s - s.headD 0)

theorem foldl_max_ge (xs : List ℝ) : ∀ a : ℝ, a ≤ xs.foldl max a ∧ ∀ x ∈ xs, x ≤ xs.foldl max a := by
  induction xs with
  | nil => intro a; simp
  | cons y ys ih =>
    intro a
    rw [List.foldl_cons]
    obtain ⟨h1, h2⟩ := ih (max a y)
    refine ⟨le_trans (le_max_left a y) h1, fun x hx => ?_⟩
    rcases List.mem_cons.1 hx with rfl | hx
    · exact le_trans (le_max_right a x) h1
    · exact h2 x hx

theorem foldl_max_mem (xs : List ℝ) : ∀ a : ℝ, xs.foldl max a = a ∨ xs.foldl max a ∈ xs := by
  induction xs with
  | nil => intro a; simp
  | cons y ys ih =>
    intro a
    rw [List.foldl_cons]
    rcases ih (max a y) with h | h
    · rw [h]
      rcases max_choice a y with h' | h'
      · exact Or.inl h'
      · exact Or.inr (by rw [h']; exact List.mem_cons_self ..)
    · exact Or.inr (List.mem_cons_of_mem _ h)

theorem le_maxOf (s : List ℝ) (x : ℝ) (hx : x ∈ s) : x ≤ maxOf s := by
  cases s with
  | nil => simp at hx
  | cons a as =>
    show x ≤ as.foldl max a
    rcases List.mem_cons.1 hx with rfl | hx
    · exact (foldl_max_ge as x).1
    · exact (foldl_max_ge as a).2 x hx

theorem maxOf_mem (s : List ℝ) (h : s ≠ []) : maxOf s ∈ s := by
  cases s with
  | nil => exact absurd rfl h
  | cons a as =>
    show as.foldl max a ∈ a :: as
    rcases foldl_max_mem as a with h' | h'
    · rw [h']; exact List.mem_cons_self ..
    · exact List.mem_cons_of_mem _ h'

theorem map_neg_neg (s : List ℝ) : (s.map Neg.neg).map Neg.neg = s := by
  rw [List.map_map]
  have : (Neg.neg ∘ Neg.neg : ℝ → ℝ) = id := by funext x; simp
  rw [this, List.map_id]

/-- the list after the conditional flip is the same for (s, Px, Po) and for the negated data -/
theorem flipIf_neg_data (s : List ℝ) (Px Po : ℝ) (h : Px ≠ Po) :
    flipIf (decide (Px < Po)) s = flipIf (decide (-Px < -Po)) (s.map Neg.neg) := by
  rcases lt_or_gt_of_ne h with hlt | hgt
  · have h2 : ¬ (-Px < -Po) := by linarith
    simp [flipIf, hlt, h2]
  · have h1 : ¬ (Px < Po) := by linarith
    have h2 : -Px < -Po := by linarith
    simp only [flipIf, h1, h2, decide_false, decide_true, if_true, Bool.false_eq_true, if_false]
    exact (map_neg_neg s).symm

end CriticalLemmas
