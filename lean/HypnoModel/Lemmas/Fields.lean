/-
Helper lemmas for C18 (the derived fields of `Equilibrium` are derivatives of one interpolant; equilibrium.py,
tokamak.py) and C07 (`MeshRegion.calc_curvature`, mesh.py: curl(b/B) and its contravariant components).
* the analytic fields `BRf, BZf, Bzetaf, B2f` and `ARf, AZf, Azetaf` (A = B/B²) as functions of (R, Z), built from an
  arbitrary flux function and its partial-derivative functions;
* one-variable calculus cores (`hasDerivAt_div_id`, `hasDerivAt_sq3`, `hasDerivAt_quot`, `hasDerivAt_id_mul`);
* the cylindrical curl components `cR cZ czeta` of A as functions of the point values, written with the generated
  helper expressions `Gen.R.Fields.*` (HypnoModel/Gen/Fields.lean, regenerated on every run);
* bridge lemmas (`unfold …; ring`) from the generated curvature expressions to projections of `(cR, cZ, czeta)`;
* exact x- and y-derivative stencils `DDXex`, `DDYex` for the x–y form of the curvature;
* OPTIONAL, hand-written (NOT generated from the Python): a model of `DCT_2D.__call__`/`ddR` as finite cosine sums.
-/
import HypnoModel.Gen.Fields
import Mathlib.Analysis.SpecialFunctions.Sqrt
import Mathlib.Analysis.SpecialFunctions.Trigonometric.Basic
import Mathlib.Analysis.SpecialFunctions.Trigonometric.Deriv
import Mathlib.Analysis.Calculus.Deriv.Mul
import Mathlib.Analysis.Calculus.Deriv.Inv
import Mathlib.Analysis.Calculus.Deriv.Pow
import Mathlib.Analysis.Calculus.Deriv.Add
import Mathlib.Tactic.FieldSimp
import Mathlib.Tactic.Ring
import Mathlib.Tactic.LinearCombination
import Mathlib.Tactic.Positivity
import Mathlib.Tactic.NormNum

namespace FieldsLemmas
open Real Gen.R.Fields
noncomputable section

/-- uniform closing tactic for rational identities -/
macro "fields_tac" : tactic => `(tactic| (
  first
  | (field_simp; done)
  | (field_simp; ring1)
  | (field_simp; ring_nf; done)
  | (field_simp; ring_nf; field_simp; ring1)))

/-! ## the analytic fields (psiR, psiZ: first partial derivatives of the flux function psi; fpolF: fpol) -/

/-- B_R = (∂ψ/∂Z)/R -/
def BRf (psiZ : ℝ → ℝ → ℝ) (R Z : ℝ) : ℝ := psiZ R Z / R
/-- B_Z = −(∂ψ/∂R)/R -/
def BZf (psiR : ℝ → ℝ → ℝ) (R Z : ℝ) : ℝ := -psiR R Z / R
/-- B_ζ = fpol(ψ)/R -/
def Bzetaf (fpolF : ℝ → ℝ) (psi : ℝ → ℝ → ℝ) (R Z : ℝ) : ℝ := fpolF (psi R Z) / R
/-- B² = B_R² + B_Z² + B_ζ² -/
def B2f (psi psiR psiZ : ℝ → ℝ → ℝ) (fpolF : ℝ → ℝ) (R Z : ℝ) : ℝ :=
  BRf psiZ R Z ^ 2 + BZf psiR R Z ^ 2 + Bzetaf fpolF psi R Z ^ 2
/-- components of A = B/B² = b/B -/
def ARf (psi psiR psiZ : ℝ → ℝ → ℝ) (fpolF : ℝ → ℝ) (R Z : ℝ) : ℝ := BRf psiZ R Z / B2f psi psiR psiZ fpolF R Z
def AZf (psi psiR psiZ : ℝ → ℝ → ℝ) (fpolF : ℝ → ℝ) (R Z : ℝ) : ℝ := BZf psiR R Z / B2f psi psiR psiZ fpolF R Z
def Azetaf (psi psiR psiZ : ℝ → ℝ → ℝ) (fpolF : ℝ → ℝ) (R Z : ℝ) : ℝ :=
  Bzetaf fpolF psi R Z / B2f psi psiR psiZ fpolF R Z

/-! ## one-variable calculus cores -/

/-- d/dr (u(r)/r) = (u' − u/r)/r -/
theorem hasDerivAt_div_id {u : ℝ → ℝ} {u' x : ℝ} (hu : HasDerivAt u u' x) (hx : x ≠ 0) :
    HasDerivAt (fun r => u r / r) ((u' - u x / x) / x) x := by
  have h := hu.fun_div (hasDerivAt_id' x) hx
  refine h.congr_deriv ?_
  fields_tac

/-- d/dr (a² + b² + c²) = 2(a a' + b b' + c c') -/
theorem hasDerivAt_sq3 {a b c : ℝ → ℝ} {a' b' c' x : ℝ} (ha : HasDerivAt a a' x) (hb : HasDerivAt b b' x)
    (hc : HasDerivAt c c' x) :
    HasDerivAt (fun r => a r ^ 2 + b r ^ 2 + c r ^ 2) (2 * ((a x * a' + b x * b') + c x * c')) x := by
  have h := ((ha.fun_pow 2).fun_add (hb.fun_pow 2)).fun_add (hc.fun_pow 2)
  refine h.congr_deriv ?_
  simp only [Nat.cast_ofNat, Nat.add_one_sub_one, pow_one]
  ring

/-- quotient rule in the shape used by `calc_curvature`: d(a/b) = a'/b − a/b²·b' -/
theorem hasDerivAt_quot {a b : ℝ → ℝ} {a' b' x : ℝ} (ha : HasDerivAt a a' x) (hb : HasDerivAt b b' x)
    (hx : b x ≠ 0) : HasDerivAt (fun r => a r / b r) (a' / b x - a x / b x ^ 2 * b') x := by
  have h := ha.fun_div hb hx
  refine h.congr_deriv ?_
  fields_tac

/-- d/dr (r·u(r)) = u + r u' -/
theorem hasDerivAt_id_mul {u : ℝ → ℝ} {u' x : ℝ} (hu : HasDerivAt u u' x) :
    HasDerivAt (fun r => r * u r) (u x + x * u') x := by
  have h := (hasDerivAt_id' x).fun_mul hu
  refine h.congr_deriv ?_
  ring

/-- `numpy.clip(x, lo, hi)` (printed `min hi (max lo x)`) is the identity on [lo, hi] -/
theorem clip_id {lo hi x : ℝ} (h1 : lo ≤ x) (h2 : x ≤ hi) : min hi (max lo x) = x := by
  rw [max_eq_right h1, min_eq_right h2]

/-- u/(u²+v²)·u + v/(u²+v²)·v = 1 -/
theorem dot_grad_core {u v : ℝ} (h : u ^ 2 + v ^ 2 ≠ 0) :
    u / (u ^ 2 + v ^ 2) * u + v / (u ^ 2 + v ^ 2) * v = 1 := by
  field_simp

theorem cross_grad_core {u v : ℝ} : u / (u ^ 2 + v ^ 2) * v - v / (u ^ 2 + v ^ 2) * u = 0 := by
  ring

/-! ## cylindrical curl of A = B/B² at one point, written with the generated helper expressions -/
section curl
variable (R Z BR BZ f fp pRR pZZ pRZ : ℝ)

/-- ∂(B_ζ/B²)/∂Z -/
def dAzetadZ : ℝ :=
  dBzetadZ R Z BR BZ f fp pRR pZZ pRZ / B2 R Z BR BZ f fp pRR pZZ pRZ
    - Bzeta R Z BR BZ f fp pRR pZZ pRZ / B2 R Z BR BZ f fp pRR pZZ pRZ ^ 2 * dB2dZ R Z BR BZ f fp pRR pZZ pRZ
/-- ∂(B_ζ/B²)/∂R -/
def dAzetadR : ℝ :=
  dBzetadR R Z BR BZ f fp pRR pZZ pRZ / B2 R Z BR BZ f fp pRR pZZ pRZ
    - Bzeta R Z BR BZ f fp pRR pZZ pRZ / B2 R Z BR BZ f fp pRR pZZ pRZ ^ 2 * dB2dR R Z BR BZ f fp pRR pZZ pRZ
/-- ∂(B_R/B²)/∂Z -/
def dARdZ : ℝ :=
  dBRdZ R Z BR BZ f fp pRR pZZ pRZ / B2 R Z BR BZ f fp pRR pZZ pRZ
    - BR / B2 R Z BR BZ f fp pRR pZZ pRZ ^ 2 * dB2dZ R Z BR BZ f fp pRR pZZ pRZ
/-- ∂(B_Z/B²)/∂R -/
def dAZdR : ℝ :=
  dBZdR R Z BR BZ f fp pRR pZZ pRZ / B2 R Z BR BZ f fp pRR pZZ pRZ
    - BZ / B2 R Z BR BZ f fp pRR pZZ pRZ ^ 2 * dB2dR R Z BR BZ f fp pRR pZZ pRZ
/-- ∂(r·B_ζ/B²)/∂R -/
def dRAzetadR : ℝ :=
  Bzeta R Z BR BZ f fp pRR pZZ pRZ / B2 R Z BR BZ f fp pRR pZZ pRZ + R * dAzetadR R Z BR BZ f fp pRR pZZ pRZ

/-- R̂ component of curl A (axisymmetric): −∂A_ζ/∂Z -/
def cR : ℝ := -dAzetadZ R Z BR BZ f fp pRR pZZ pRZ
/-- Ẑ component of curl A: (1/R) ∂(R A_ζ)/∂R -/
def cZ : ℝ := 1 / R * dRAzetadR R Z BR BZ f fp pRR pZZ pRZ
/-- ζ̂ component of curl A: ∂A_R/∂Z − ∂A_Z/∂R -/
def czeta : ℝ := dARdZ R Z BR BZ f fp pRR pZZ pRZ - dAZdR R Z BR BZ f fp pRR pZZ pRZ

/-- `cZ` in the shape written in `calc_curvature` (needs R ≠ 0 to cancel R/R) -/
theorem cZ_eq (hR : R ≠ 0) : cZ R Z BR BZ f fp pRR pZZ pRZ =
    Bzeta R Z BR BZ f fp pRR pZZ pRZ / (R * B2 R Z BR BZ f fp pRR pZZ pRZ)
      + dBzetadR R Z BR BZ f fp pRR pZZ pRZ / B2 R Z BR BZ f fp pRR pZZ pRZ
      - Bzeta R Z BR BZ f fp pRR pZZ pRZ / B2 R Z BR BZ f fp pRR pZZ pRZ ^ 2
        * dB2dR R Z BR BZ f fp pRR pZZ pRZ := by
  unfold cZ dRAzetadR dAzetadR
  generalize Bzeta R Z BR BZ f fp pRR pZZ pRZ = a
  generalize B2 R Z BR BZ f fp pRR pZZ pRZ = b
  generalize dBzetadR R Z BR BZ f fp pRR pZZ pRZ = c
  generalize dB2dR R Z BR BZ f fp pRR pZZ pRZ = d
  have : 1 / R * (a / b + R * (c / b - a / b ^ 2 * d)) = a / (R * b) + (1 / R * R) * (c / b - a / b ^ 2 * d) := by
    ring
  rw [this, one_div_mul_cancel hR]
  ring

/-- the generated helpers in hand-written normal form -/
theorem Bzeta_eq : Bzeta R Z BR BZ f fp pRR pZZ pRZ = f / R := by unfold Bzeta; ring
theorem B2_eq : B2 R Z BR BZ f fp pRR pZZ pRZ = BR ^ 2 + BZ ^ 2 + (f / R) ^ 2 := by unfold B2; ring
theorem B2_eq_Bzeta : B2 R Z BR BZ f fp pRR pZZ pRZ = BR ^ 2 + BZ ^ 2 + Bzeta R Z BR BZ f fp pRR pZZ pRZ ^ 2 := by
  unfold B2 Bzeta; ring
theorem dBzetadR_eq : dBzetadR R Z BR BZ f fp pRR pZZ pRZ = -fp * BZ - f / R ^ 2 := by unfold dBzetadR; ring
theorem dBzetadZ_eq : dBzetadZ R Z BR BZ f fp pRR pZZ pRZ = fp * BR := by unfold dBzetadZ; ring
theorem dBRdR_eq : dBRdR R Z BR BZ f fp pRR pZZ pRZ = (pRZ - BR) / R := by unfold dBRdR; ring
theorem dBRdZ_eq : dBRdZ R Z BR BZ f fp pRR pZZ pRZ = pZZ / R := by unfold dBRdZ; ring
theorem dBZdR_eq : dBZdR R Z BR BZ f fp pRR pZZ pRZ = -(pRR + BZ) / R := by unfold dBZdR; ring
theorem dBZdZ_eq : dBZdZ R Z BR BZ f fp pRR pZZ pRZ = -pRZ / R := by unfold dBZdZ; ring
/-- dB2dR is 2(B·∂B/∂R) written with the other generated helpers -/
theorem dB2dR_eq : dB2dR R Z BR BZ f fp pRR pZZ pRZ =
    2 * ((BR * dBRdR R Z BR BZ f fp pRR pZZ pRZ + BZ * dBZdR R Z BR BZ f fp pRR pZZ pRZ)
      + Bzeta R Z BR BZ f fp pRR pZZ pRZ * dBzetadR R Z BR BZ f fp pRR pZZ pRZ) := by
  unfold dB2dR dBRdR dBZdR Bzeta dBzetadR; ring
theorem dB2dZ_eq : dB2dZ R Z BR BZ f fp pRR pZZ pRZ =
    2 * ((BR * dBRdZ R Z BR BZ f fp pRR pZZ pRZ + BZ * dBZdZ R Z BR BZ f fp pRR pZZ pRZ)
      + Bzeta R Z BR BZ f fp pRR pZZ pRZ * dBzetadZ R Z BR BZ f fp pRR pZZ pRZ) := by
  unfold dB2dZ dBRdZ dBZdZ Bzeta dBzetadZ; ring
theorem dBdR_eq : dBdR R Z BR BZ f fp pRR pZZ pRZ =
    dB2dR R Z BR BZ f fp pRR pZZ pRZ / (2 * Real.sqrt (B2 R Z BR BZ f fp pRR pZZ pRZ)) := by
  unfold dBdR dB2dR B2; rfl
theorem dBdZ_eq : dBdZ R Z BR BZ f fp pRR pZZ pRZ =
    dB2dZ R Z BR BZ f fp pRR pZZ pRZ / (2 * Real.sqrt (B2 R Z BR BZ f fp pRR pZZ pRZ)) := by
  unfold dBdZ dB2dZ B2; rfl

end curl

/-! ## bridges: the generated curvature expressions are projections of (cR, cZ, czeta) -/
section bridge
variable (R Z BR BZ f fp pRR pZZ pRZ Bp Bt B hy tanBeta bpsign : ℝ)

/-- the R̂ and Ẑ components as they are inlined in the generated text: no hypothesis needed for `cR`; `cZ` is used
through `cZ_eq` -/
theorem cR_eq : cR R Z BR BZ f fp pRR pZZ pRZ =
    -dBzetadZ R Z BR BZ f fp pRR pZZ pRZ / B2 R Z BR BZ f fp pRR pZZ pRZ
      + Bzeta R Z BR BZ f fp pRR pZZ pRZ / B2 R Z BR BZ f fp pRR pZZ pRZ ^ 2 * dB2dZ R Z BR BZ f fp pRR pZZ pRZ := by
  unfold cR dAzetadZ; ring

/-- the generated Ẑ component (Python `curl_bOverB_Zhat`) -/
def cZpy : ℝ :=
  Bzeta R Z BR BZ f fp pRR pZZ pRZ / (R * B2 R Z BR BZ f fp pRR pZZ pRZ)
    + dBzetadR R Z BR BZ f fp pRR pZZ pRZ / B2 R Z BR BZ f fp pRR pZZ pRZ
    - Bzeta R Z BR BZ f fp pRR pZZ pRZ / B2 R Z BR BZ f fp pRR pZZ pRZ ^ 2 * dB2dR R Z BR BZ f fp pRR pZZ pRZ

theorem cZpy_eq (hR : R ≠ 0) : cZpy R Z BR BZ f fp pRR pZZ pRZ = cZ R Z BR BZ f fp pRR pZZ pRZ := by
  rw [cZ_eq _ _ _ _ _ _ _ _ _ hR]; rfl

theorem orth_x_bridge : rz_orth.curl_bOverB_x R Z BR BZ f fp pRR pZZ pRZ Bp Bt B hy tanBeta bpsign =
    cR R Z BR BZ f fp pRR pZZ pRZ * (-R * BZ) + cZpy R Z BR BZ f fp pRR pZZ pRZ * (R * BR) := by
  unfold rz_orth.curl_bOverB_x cR dAzetadZ cZpy dBzetadZ dBzetadR dB2dZ dB2dR B2 Bzeta
  ring

theorem nonorth_x_bridge : rz_nonorth.curl_bOverB_x R Z BR BZ f fp pRR pZZ pRZ Bp Bt B hy tanBeta bpsign =
    cR R Z BR BZ f fp pRR pZZ pRZ * (-R * BZ) + cZpy R Z BR BZ f fp pRR pZZ pRZ * (R * BR) := by
  unfold rz_nonorth.curl_bOverB_x cR dAzetadZ cZpy dBzetadZ dBzetadR dB2dZ dB2dR B2 Bzeta
  ring

theorem orth_y_bridge : rz_orth.curl_bOverB_y R Z BR BZ f fp pRR pZZ pRZ Bp Bt B hy tanBeta bpsign =
    (cR R Z BR BZ f fp pRR pZZ pRZ * BR + cZpy R Z BR BZ f fp pRR pZZ pRZ * BZ) / (Bp * hy) := by
  unfold rz_orth.curl_bOverB_y cR dAzetadZ cZpy dBzetadZ dBzetadR dB2dZ dB2dR B2 Bzeta
  ring

theorem nonorth_y_bridge : rz_nonorth.curl_bOverB_y R Z BR BZ f fp pRR pZZ pRZ Bp Bt B hy tanBeta bpsign =
    (cR R Z BR BZ f fp pRR pZZ pRZ * (BR + BZ * tanBeta)
      + cZpy R Z BR BZ f fp pRR pZZ pRZ * (BZ - BR * tanBeta)) / (Bp * hy) := by
  unfold rz_nonorth.curl_bOverB_y cR dAzetadZ cZpy dBzetadZ dBzetadR dB2dZ dB2dR B2 Bzeta
  ring

theorem orth_z_bridge : rz_orth.curl_bOverB_z R Z BR BZ f fp pRR pZZ pRZ Bp Bt B hy tanBeta bpsign =
    czeta R Z BR BZ f fp pRR pZZ pRZ / R
      - Bt * hy / (Bp * R) * rz_orth.curl_bOverB_y R Z BR BZ f fp pRR pZZ pRZ Bp Bt B hy tanBeta bpsign := by
  unfold rz_orth.curl_bOverB_z rz_orth.curl_bOverB_y czeta dARdZ dAZdR dBRdZ dBZdR dB2dZ dB2dR B2
  ring

theorem nonorth_z_bridge : rz_nonorth.curl_bOverB_z R Z BR BZ f fp pRR pZZ pRZ Bp Bt B hy tanBeta bpsign =
    czeta R Z BR BZ f fp pRR pZZ pRZ / R
      - Bt * hy / (Bp * R) * rz_nonorth.curl_bOverB_y R Z BR BZ f fp pRR pZZ pRZ Bp Bt B hy tanBeta bpsign := by
  unfold rz_nonorth.curl_bOverB_z rz_nonorth.curl_bOverB_y czeta dARdZ dAZdR dBRdZ dBZdR dB2dZ dB2dR B2
  ring

end bridge

/-! ## exact stencils for the x–y form: x = ψ (Grad x = (psiR, psiZ)), y along the signed poloidal field -/

/-- ∂g/∂x at constant y on an orthogonal grid: (∇ψ·∇g)/|∇ψ|² -/
def DDXex (psiR psiZ gR gZ : ℝ) : ℝ := (psiR * gR + psiZ * gZ) / (psiR ^ 2 + psiZ ^ 2)
/-- ∂g/∂y at constant x: hy (B_p·∇g)/Bp -/
def DDYex (hy Bp BR BZ gR gZ : ℝ) : ℝ := hy * (BR * gR + BZ * gZ) / Bp

/-- d/dr (a² + b²) = 2(a a' + b b') -/
theorem hasDerivAt_sq2 {a b : ℝ → ℝ} {a' b' x : ℝ} (ha : HasDerivAt a a' x) (hb : HasDerivAt b b' x) :
    HasDerivAt (fun r => a r ^ 2 + b r ^ 2) (2 * (a x * a' + b x * b')) x := by
  have h := (ha.fun_pow 2).fun_add (hb.fun_pow 2)
  refine h.congr_deriv ?_
  simp only [Nat.cast_ofNat, Nat.add_one_sub_one, pow_one]
  ring

/-! ## integrands of the x–y form and their partial derivatives at one point (generated helper expressions) -/
section xyform
variable (R Z BR BZ f fp pRR pZZ pRZ : ℝ)

/-- ∂/∂R of Bt·R/B² (= fpol/B²) -/
def dBtRB2dR : ℝ :=
  fp * (-R * BZ) / B2 R Z BR BZ f fp pRR pZZ pRZ
    - f / B2 R Z BR BZ f fp pRR pZZ pRZ ^ 2 * dB2dR R Z BR BZ f fp pRR pZZ pRZ
/-- ∂/∂Z of Bt·R/B² -/
def dBtRB2dZ : ℝ :=
  fp * (R * BR) / B2 R Z BR BZ f fp pRR pZZ pRZ
    - f / B2 R Z BR BZ f fp pRR pZZ pRZ ^ 2 * dB2dZ R Z BR BZ f fp pRR pZZ pRZ
/-- ∂/∂R of Bt/R -/
def dBtoRdR : ℝ := (dBzetadR R Z BR BZ f fp pRR pZZ pRZ - Bzeta R Z BR BZ f fp pRR pZZ pRZ / R) / R
/-- ∂/∂Z of Bt/R -/
def dBtoRdZ : ℝ := dBzetadZ R Z BR BZ f fp pRR pZZ pRZ / R
/-- ∂/∂R of the signed poloidal field Bp = ±√(BR² + BZ²) -/
def dBpdR (Bp : ℝ) : ℝ :=
  (BR * dBRdR R Z BR BZ f fp pRR pZZ pRZ + BZ * dBZdR R Z BR BZ f fp pRR pZZ pRZ) / Bp
/-- ∂/∂Z of the signed poloidal field -/
def dBpdZ (Bp : ℝ) : ℝ :=
  (BR * dBRdZ R Z BR BZ f fp pRR pZZ pRZ + BZ * dBZdZ R Z BR BZ f fp pRR pZZ pRZ) / Bp

end xyform

/-- Lamé relation of the orthogonal (ψ, θ) coordinates, ∂ ln(hy)/∂x = ∇·(∇ψ/|∇ψ|)/|∇ψ|, written out with the first and
second derivatives of ψ.  (HYPOTHESIS of `xy_form_agrees_z_partial`: hy is a grid quantity, not a function of the
point values.) -/
def dxLnHyLame (psiR psiZ pRR pZZ pRZ : ℝ) : ℝ :=
  (pRR + pZZ) / (psiR ^ 2 + psiZ ^ 2)
    - (psiR ^ 2 * pRR + 2 * psiR * psiZ * pRZ + psiZ ^ 2 * pZZ) / (psiR ^ 2 + psiZ ^ 2) ^ 2

/-! ## OPTIONAL — HAND-WRITTEN model of `DCT_2D` (hypnotoad/utils/dct_interpolation.py); NOT generated from the Python.
`dctEval` models `DCT_2D.__call__`, `dctDdR` models `DCT_2D.ddR`; the coefficients `c l k` are a parameter. -/
section dctmodel
open Finset
variable (nR nZ : ℕ) (c : ℕ → ℕ → ℝ) (Rmin Rsize Zmin Zsize : ℝ)

def iR (R : ℝ) : ℝ := (R - Rmin) / Rsize * (nR - 1)
def iZ (Z : ℝ) : ℝ := (Z - Zmin) / Zsize * (nZ - 1)
def coefR (k : ℕ) : ℝ := Real.pi * k / nR
def coefZ (l : ℕ) : ℝ := Real.pi * l / nZ
def dRgrid : ℝ := Rsize / (nR - 1)

def dctEval (R Z : ℝ) : ℝ :=
  ∑ l ∈ range nZ, ∑ k ∈ range nR,
    c l k * cos (coefR nR k * (iR nR Rmin Rsize R + 0.5)) * cos (coefZ nZ l * (iZ nZ Zmin Zsize Z + 0.5))

def dctDdR (R Z : ℝ) : ℝ :=
  -∑ l ∈ range nZ, ∑ k ∈ range nR,
    c l k * coefR nR k / dRgrid nR Rsize * sin (coefR nR k * (iR nR Rmin Rsize R + 0.5))
      * cos (coefZ nZ l * (iZ nZ Zmin Zsize Z + 0.5))

theorem dct_ddR_core (R Z : ℝ) (hR : Rsize ≠ 0) (hn : (nR : ℝ) - 1 ≠ 0) :
    HasDerivAt (fun r => dctEval nR nZ c Rmin Rsize Zmin Zsize r Z)
      (dctDdR nR nZ c Rmin Rsize Zmin Zsize R Z) R := by
  unfold dctEval dctDdR
  have hi : HasDerivAt (fun r => iR nR Rmin Rsize r + 0.5) ((nR - 1) / Rsize) R := by
    unfold iR
    have := ((((hasDerivAt_id' R).sub_const Rmin).div_const Rsize).mul_const ((nR : ℝ) - 1)).add_const (0.5 : ℝ)
    exact this.congr_deriv (by field_simp)
  have hterm : ∀ l k, HasDerivAt
      (fun r => c l k * cos (coefR nR k * (iR nR Rmin Rsize r + 0.5)) * cos (coefZ nZ l * (iZ nZ Zmin Zsize Z + 0.5)))
      (-(c l k * coefR nR k / dRgrid nR Rsize * sin (coefR nR k * (iR nR Rmin Rsize R + 0.5))
          * cos (coefZ nZ l * (iZ nZ Zmin Zsize Z + 0.5)))) R := by
    intro l k
    have h1 := ((hi.const_mul (coefR nR k)).cos.const_mul (c l k)).mul_const
      (cos (coefZ nZ l * (iZ nZ Zmin Zsize Z + 0.5)))
    refine h1.congr_deriv ?_
    unfold dRgrid
    field_simp
  have := HasDerivAt.fun_sum (u := range nZ) (fun l _ =>
    HasDerivAt.fun_sum (u := range nR) (fun k _ => hterm l k))
  refine this.congr_deriv ?_
  simp only [sum_neg_distrib]

end dctmodel

end
end FieldsLemmas
