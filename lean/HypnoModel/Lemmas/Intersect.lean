/- helper lemmas for C20 over a generic linearly ordered field (Mathlib) -/
import Mathlib.Tactic.FieldSimp
import Mathlib.Tactic.Ring
import Mathlib.Tactic.Linarith
import Mathlib.Tactic.Positivity
import Mathlib.Tactic.LinearCombination
import Mathlib.Algebra.Order.Field.Basic

namespace IntersectLemmas
section
variable {K : Type} [Field K] [LinearOrder K] [IsStrictOrderedRing K]

def Rcross (p1 q1 p2 q2 a1 b1 a2 b2 : K) : K :=
  (b1 - q1 + (q2 - q1) / (p2 - p1) * p1 - (b2 - b1) / (a2 - a1) * a1)
    / ((q2 - q1) / (p2 - p1) - (b2 - b1) / (a2 - a1))
def Zcross (p1 q1 p2 q2 a1 b1 a2 b2 : K) : K :=
  q1 + (q2 - q1) / (p2 - p1) * (Rcross p1 q1 p2 q2 a1 b1 a2 b2 - p1)

variable (p1 q1 p2 q2 a1 b1 a2 b2 : K)

omit [LinearOrder K] [IsStrictOrderedRing K] in
/-- slope form: the crossing of two non-parallel lines given by point+slope -/
theorem cross_core (m1 m2 p q a b : K) (h : m1 - m2 ≠ 0) :
    q + m1 * ((b - q + m1 * p - m2 * a) / (m1 - m2) - p)
      = b + m2 * ((b - q + m1 * p - m2 * a) / (m1 - m2) - a) := by
  field_simp
  ring

/-- the reported point lies on the line through the segment as well (it lies on the wall edge's
    line by construction) -/
theorem cross_on_both_lines
    (hnp : (q2 - q1) / (p2 - p1) ≠ (b2 - b1) / (a2 - a1)) :
    Zcross p1 q1 p2 q2 a1 b1 a2 b2
      = b1 + (b2 - b1) / (a2 - a1) * (Rcross p1 q1 p2 q2 a1 b1 a2 b2 - a1) := by
  unfold Zcross Rcross
  exact cross_core _ _ p1 q1 a1 b1 (sub_ne_zero.mpr hnp)

/-- reported (range tests with tolerance 0) iff the two segments have a common point, and then the
    common point is the reported one -/
theorem hit_iff_meets (hp : p1 < p2) (ha : a1 < a2)
    (hnp : (q2 - q1) / (p2 - p1) ≠ (b2 - b1) / (a2 - a1)) :
    (p1 ≤ Rcross p1 q1 p2 q2 a1 b1 a2 b2 ∧ Rcross p1 q1 p2 q2 a1 b1 a2 b2 ≤ p2 ∧
      a1 ≤ Rcross p1 q1 p2 q2 a1 b1 a2 b2 ∧ Rcross p1 q1 p2 q2 a1 b1 a2 b2 ≤ a2)
    ↔ ∃ t u : K, 0 ≤ t ∧ t ≤ 1 ∧ 0 ≤ u ∧ u ≤ 1 ∧
        p1 + t * (p2 - p1) = a1 + u * (a2 - a1) ∧ q1 + t * (q2 - q1) = b1 + u * (b2 - b1) := by
  have hp' : 0 < p2 - p1 := sub_pos.mpr hp
  have ha' : 0 < a2 - a1 := sub_pos.mpr ha
  have h1 : p2 - p1 ≠ 0 := ne_of_gt hp'
  have h2 : a2 - a1 ≠ 0 := ne_of_gt ha'
  have h3 : (q2 - q1) / (p2 - p1) - (b2 - b1) / (a2 - a1) ≠ 0 := sub_ne_zero.mpr hnp
  set R := Rcross p1 q1 p2 q2 a1 b1 a2 b2 with hR
  have hline := cross_on_both_lines p1 q1 p2 q2 a1 b1 a2 b2 hnp
  rw [Zcross, ← hR] at hline
  constructor
  · rintro ⟨r1, r2, r3, r4⟩
    refine ⟨(R - p1) / (p2 - p1), (R - a1) / (a2 - a1), ?_, ?_, ?_, ?_, ?_, ?_⟩
    · exact div_nonneg (by linarith) hp'.le
    · rw [div_le_one hp']; linarith
    · exact div_nonneg (by linarith) ha'.le
    · rw [div_le_one ha']; linarith
    · field_simp; ring
    · have e1 : (R - p1) / (p2 - p1) * (q2 - q1) = (q2 - q1) / (p2 - p1) * (R - p1) := by ring
      have e2 : (R - a1) / (a2 - a1) * (b2 - b1) = (b2 - b1) / (a2 - a1) * (R - a1) := by ring
      rw [e1, e2]; exact hline
  · rintro ⟨t, u, ht0, ht1, hu0, hu1, hx, hz⟩
    -- the common point's R-coordinate is R (uniqueness of the crossing of two non-parallel lines)
    have key : p1 + t * (p2 - p1) = R := by
      have hz' : (q2 - q1) / (p2 - p1) * (t * (p2 - p1)) + q1
          = (b2 - b1) / (a2 - a1) * (u * (a2 - a1)) + b1 := by
        have e1 : (q2 - q1) / (p2 - p1) * (t * (p2 - p1)) = t * (q2 - q1) := by field_simp
        have e2 : (b2 - b1) / (a2 - a1) * (u * (a2 - a1)) = u * (b2 - b1) := by field_simp
        rw [e1, e2]; linarith
      have hx' : u * (a2 - a1) = p1 + t * (p2 - p1) - a1 := by linarith
      rw [hx'] at hz'
      rw [hR, Rcross, eq_div_iff h3]
      set m1 := (q2 - q1) / (p2 - p1)
      set m2 := (b2 - b1) / (a2 - a1)
      linear_combination hz'
    have key2 : a1 + u * (a2 - a1) = R := by rw [← hx]; exact key
    refine ⟨?_, ?_, ?_, ?_⟩
    · rw [← key]; nlinarith
    · rw [← key]; nlinarith
    · rw [← key2]; nlinarith
    · rw [← key2]; nlinarith

/-! ### mixed branch: the wall edge is Z-like (P → Q sorted so q1 < q2, R = p1 + k (Z - q1)),
    the segment is R-like (A → B sorted so a1 < a2, Z = b1 + m (R - a1)) -/

def RcrossM (p1 q1 p2 q2 a1 b1 a2 b2 : K) : K :=
  (p1 + (p2 - p1) / (q2 - q1) * (b1 - (b2 - b1) / (a2 - a1) * a1 - q1))
    / (1 - (p2 - p1) / (q2 - q1) * ((b2 - b1) / (a2 - a1)))
def ZcrossM (p1 q1 p2 q2 a1 b1 a2 b2 : K) : K :=
  b1 + (b2 - b1) / (a2 - a1) * (RcrossM p1 q1 p2 q2 a1 b1 a2 b2 - a1)

omit [LinearOrder K] [IsStrictOrderedRing K] in
/-- the mixed crossing lies on the wall edge's line too -/
theorem crossM_on_edge_line (k m p q a b : K) (h : 1 - k * m ≠ 0) :
    (p + k * (b - m * a - q)) / (1 - k * m)
      = p + k * (b + m * ((p + k * (b - m * a - q)) / (1 - k * m) - a) - q) := by
  field_simp
  ring

theorem hit_iff_meets_mixed (hq : q1 < q2) (ha : a1 < a2)
    (hnp : 1 - (p2 - p1) / (q2 - q1) * ((b2 - b1) / (a2 - a1)) ≠ 0) :
    (q1 ≤ ZcrossM p1 q1 p2 q2 a1 b1 a2 b2 ∧ ZcrossM p1 q1 p2 q2 a1 b1 a2 b2 ≤ q2 ∧
      a1 ≤ RcrossM p1 q1 p2 q2 a1 b1 a2 b2 ∧ RcrossM p1 q1 p2 q2 a1 b1 a2 b2 ≤ a2)
    ↔ ∃ t u : K, 0 ≤ t ∧ t ≤ 1 ∧ 0 ≤ u ∧ u ≤ 1 ∧
        p1 + t * (p2 - p1) = a1 + u * (a2 - a1) ∧ q1 + t * (q2 - q1) = b1 + u * (b2 - b1) := by
  have hq' : 0 < q2 - q1 := sub_pos.mpr hq
  have ha' : 0 < a2 - a1 := sub_pos.mpr ha
  have h1 : q2 - q1 ≠ 0 := ne_of_gt hq'
  have h2 : a2 - a1 ≠ 0 := ne_of_gt ha'
  set k := (p2 - p1) / (q2 - q1) with hk
  set m := (b2 - b1) / (a2 - a1) with hm
  set R := RcrossM p1 q1 p2 q2 a1 b1 a2 b2 with hR
  set Z := ZcrossM p1 q1 p2 q2 a1 b1 a2 b2 with hZ
  have hZR : Z = b1 + m * (R - a1) := rfl
  have hRdef : R = (p1 + k * (b1 - m * a1 - q1)) / (1 - k * m) := rfl
  have hedge : R = p1 + k * (Z - q1) := by
    rw [hZR, hRdef]; exact crossM_on_edge_line k m p1 q1 a1 b1 hnp
  constructor
  · rintro ⟨r1, r2, r3, r4⟩
    refine ⟨(Z - q1) / (q2 - q1), (R - a1) / (a2 - a1), ?_, ?_, ?_, ?_, ?_, ?_⟩
    · exact div_nonneg (by linarith) hq'.le
    · rw [div_le_one hq']; linarith
    · exact div_nonneg (by linarith) ha'.le
    · rw [div_le_one ha']; linarith
    · have e1 : (Z - q1) / (q2 - q1) * (p2 - p1) = k * (Z - q1) := by rw [hk]; ring
      have e2 : (R - a1) / (a2 - a1) * (a2 - a1) = R - a1 := by field_simp
      rw [e1, e2]; linarith
    · have e1 : (Z - q1) / (q2 - q1) * (q2 - q1) = Z - q1 := by field_simp
      have e2 : (R - a1) / (a2 - a1) * (b2 - b1) = m * (R - a1) := by rw [hm]; ring
      rw [e1, e2]; linarith
  · rintro ⟨t, u, ht0, ht1, hu0, hu1, hx, hz⟩
    -- the common point is (R, Z)
    have hkq : k * (q2 - q1) = p2 - p1 := by rw [hk]; field_simp
    have hma : m * (a2 - a1) = b2 - b1 := by rw [hm]; field_simp
    have key : a1 + u * (a2 - a1) = R := by
      rw [hRdef, eq_div_iff hnp]
      have hx' : p1 + t * (k * (q2 - q1)) = a1 + u * (a2 - a1) := by rw [hkq]; exact hx
      have hz' : q1 + t * (q2 - q1) = b1 + u * (m * (a2 - a1)) := by rw [hma]; exact hz
      linear_combination (-(1 : K)) * hx' + k * hz'
    have keyZ : q1 + t * (q2 - q1) = Z := by
      rw [hZR, ← key, hz]
      have : m * (a1 + u * (a2 - a1) - a1) = u * (m * (a2 - a1)) := by ring
      rw [this, hma]
    refine ⟨?_, ?_, ?_, ?_⟩
    · rw [← keyZ]; nlinarith
    · rw [← keyZ]; nlinarith
    · rw [← key]; nlinarith
    · rw [← key]; nlinarith

end
end IntersectLemmas
