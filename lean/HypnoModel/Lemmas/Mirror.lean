/-
Helper definitions and lemmas for C16 (equivariance under reflection in the midplane and under field reversal).
* `mDN`, `mSN`: the action of the reflection Z ↦ −Z on the region numbers of `Topology.upperLDN/UDN/CDN` (double null:
  0 inner-lower leg ↔ 2 inner-upper leg, 1 inner core fixed, 3 outer-upper leg ↔ 5 outer-lower leg, 4 outer core fixed)
  and of `Topology.upperSN` (0 first leg ↔ 2 second leg, 1 core fixed); both are involutions.
* the finite-domain (`Fin`) forms of the table relations, by `decide`; the `Nat` forms are in Props/C16.lean.
* `scale_core`: the algebraic core of the 1/l scaling of ∇psi/|∇psi|² under psi ↦ l·psi.
-/
import HypnoModel.Model.Topology
import HypnoModel.Lemmas.Metric
import Mathlib.Logic.Function.Basic
import Mathlib.Tactic.Ring

namespace MirrorLemmas
open Topology

/-- reflection of the double-null region numbers: 0 ↔ 2 (inner legs), 3 ↔ 5 (outer legs), cores 1 and 4 fixed -/
def mDN : Nat → Nat
  | 0 => 2 | 2 => 0 | 3 => 5 | 5 => 3 | n => n

/-- reflection of the single-null region numbers: 0 ↔ 2 (the two legs), core 1 fixed -/
def mSN : Nat → Nat
  | 0 => 2 | 2 => 0 | n => n

theorem mDN_mDN (n : Nat) : mDN (mDN n) = n := by
  match n with
  | 0 | 1 | 2 | 3 | 4 | 5 => rfl
  | n + 6 => rfl

theorem mSN_mSN (n : Nat) : mSN (mSN n) = n := by
  match n with
  | 0 | 1 | 2 => rfl
  | n + 3 => rfl

theorem mDN_involutive : Function.Involutive mDN := mDN_mDN
theorem mSN_involutive : Function.Involutive mSN := mSN_mSN

theorem mDN_lt {n : Nat} (h : n < 6) : mDN n < 6 := by
  match n, h with
  | 0, _ | 1, _ | 2, _ | 3, _ | 4, _ | 5, _ => decide

theorem mSN_lt {n : Nat} (h : n < 3) : mSN n < 3 := by
  match n, h with
  | 0, _ | 1, _ | 2, _ => decide

/-! ### finite-domain forms of the table relations -/

theorem fin_ldn_udn : ∀ r : Fin 6, ∀ r' : Fin 6, ∀ s : Fin 3,
    (upperUDN (mDN r.val) s.val = some (mDN r'.val) ↔ upperLDN r'.val s.val = some r.val) := by decide

theorem fin_udn_ldn : ∀ r : Fin 6, ∀ r' : Fin 6, ∀ s : Fin 3,
    (upperLDN (mDN r.val) s.val = some (mDN r'.val) ↔ upperUDN r'.val s.val = some r.val) := by decide

theorem fin_cdn_self : ∀ r : Fin 6, ∀ r' : Fin 6, ∀ s : Fin 2,
    (upperCDN (mDN r.val) s.val = some (mDN r'.val) ↔ upperCDN r'.val s.val = some r.val) := by decide

theorem fin_sn_self : ∀ r : Fin 3, ∀ r' : Fin 3, ∀ s : Fin 2,
    (upperSN (mSN r.val) s.val = some (mSN r'.val) ↔ upperSN r'.val s.val = some r.val) := by decide

/-- the disconnected tables are NOT self-mirror: a lower-disconnected double null does not reflect to a lower-disconnected one -/
theorem fin_ldn_not_self : ¬ ∀ r : Fin 6, ∀ r' : Fin 6, ∀ s : Fin 3,
    (upperLDN (mDN r.val) s.val = some (mDN r'.val) ↔ upperLDN r'.val s.val = some r.val) := by decide

/-! ### algebraic core of the psi ↦ l·psi scaling of f_R, f_Z = ∇psi/|∇psi|² -/

/-- no hypothesis on a² + b²: when it vanishes both sides are x/0 = 0 -/
theorem scale_core (l a b x : ℝ) (hl : l ≠ 0) :
    (l * x) / ((l * a) ^ 2 + (l * b) ^ 2) = 1 / l * (x / (a ^ 2 + b ^ 2)) := by
  rw [show (l * a) ^ 2 + (l * b) ^ 2 = l * ((a ^ 2 + b ^ 2) * l) by ring, mul_div_mul_left _ _ hl, ← div_div]
  ring

end MirrorLemmas
