/-
Helper lemmas for C09 (radial psi spacing functions, `Equilibrium.getSmoothMonotonicGridFunc`).
Hand-written normal forms (`fLin`, `fCub`, `fCubU`, `fT`, …), the real content proved about them, and bridge lemmas
`…_eq` tying each generated definition `Gen.R.Spacing.*` (HypnoModel/Gen/Spacing.lean, regenerated on every run) to
its normal form by `unfold …; ring`.
-/
import HypnoModel.Gen.Spacing
import Mathlib.Analysis.SpecialFunctions.Trigonometric.Deriv
import Mathlib.Analysis.Calculus.Deriv.MeanValue
import Mathlib.Analysis.Calculus.Deriv.Pow
import Mathlib.Tactic.FieldSimp
import Mathlib.Tactic.Ring
import Mathlib.Tactic.Linarith
import Mathlib.Tactic.Positivity
import Mathlib.Tactic.NormNum

namespace SpacingLemmas
open Real Set
noncomputable section

/-! ## generic helpers -/

theorem strictAntiOn_of_neg {f g : ℝ → ℝ} {s : Set ℝ} (h : ∀ i, g i = - f i) (hg : StrictMonoOn g s) :
    StrictAntiOn f s := by
  intro a ha b hb hab
  have := hg ha hb hab
  rw [h, h] at this
  linarith

theorem strictAnti_of_neg {f g : ℝ → ℝ} (h : ∀ i, g i = - f i) (hg : StrictMono g) : StrictAnti f := by
  intro a b hab
  have := hg hab
  rw [h, h] at this
  linarith

theorem nonneg_of_signs {L U g : ℝ} (hLU : L < U) (hs : ¬ (U - L) * g < 0) : 0 ≤ g := by
  by_contra h
  exact hs (mul_neg_of_pos_of_neg (by linarith) (not_le.mp h))

theorem nonpos_of_signs {L U g : ℝ} (hUL : U < L) (hs : ¬ (U - L) * g < 0) : g ≤ 0 := by
  by_contra h
  exact hs (mul_neg_of_neg_of_pos (by linarith) (not_le.mp h))

theorem abs_guard_pos {x d e : ℝ} (hx : 0 ≤ x) (hd : 0 ≤ d) (h : |x| < |d| * e) : x < d * e := by
  rwa [abs_of_nonneg hx, abs_of_nonneg hd] at h

theorem abs_guard_neg {x d e : ℝ} (hx : x ≤ 0) (hd : d ≤ 0) (h : |x| < |d| * e) : -x < (-d) * e := by
  rwa [abs_of_nonpos hx, abs_of_nonpos hd] at h

theorem eq_of_abs_eq_of_mul_nonneg {x d : ℝ} (h : |x| = |d|) (hs : 0 ≤ d * x) : x = d := by
  rcases abs_eq_abs.mp h with h | h
  · exact h
  · have hd : d = 0 := by nlinarith [sq_nonneg d]
    rw [h, hd]; simp

/-! ## linear path -/

def fLin (n L U i : ℝ) : ℝ := L + (U - L) * i / n

theorem linear_eq (n L U i : ℝ) : Gen.R.Spacing.linear n L U i = fLin n L U i := by
  unfold Gen.R.Spacing.linear fLin; ring

theorem linear_funeq (n L U : ℝ) : Gen.R.Spacing.linear n L U = fLin n L U := funext (linear_eq n L U)

theorem fLin_zero (n L U : ℝ) : fLin n L U 0 = L := by unfold fLin; ring
theorem fLin_n (n L U : ℝ) (hn : n ≠ 0) : fLin n L U n = U := by unfold fLin; field_simp; ring

theorem fLin_strictMono (n L U : ℝ) (hn : 0 < n) (hLU : L < U) : StrictMono (fLin n L U) := by
  intro i j hij
  unfold fLin
  have h1 : (U - L) * i < (U - L) * j := mul_lt_mul_of_pos_left hij (by linarith)
  have h2 : (U - L) * i / n < (U - L) * j / n := div_lt_div_of_pos_right h1 hn
  linarith

theorem fLin_odd (n L U i : ℝ) : fLin n (-L) (-U) i = - fLin n L U i := by unfold fLin; ring

theorem fLin_nest (k n L U i : ℝ) (hk : k ≠ 0) (hn : n ≠ 0) : fLin (k * n) L U (k * i) = fLin n L U i := by
  unfold fLin; field_simp

/-! ## one prescribed gradient: cubic paths -/

def aCoef (n L U g : ℝ) : ℝ := 3 * (U - L - g * n) / n ^ 3
def fCub (n L U g i : ℝ) : ℝ := L + g * i + aCoef n L U g * i ^ 3 / 3
def fCubU (n L U g i : ℝ) : ℝ := U + g * (i - n) - aCoef n L U g * (n - i) ^ 3 / 3

theorem lowerPoly_eq (n L U g i : ℝ) : Gen.R.Spacing.lowerPoly n L U g i = fCub n L U g i := by
  unfold Gen.R.Spacing.lowerPoly fCub aCoef; ring

theorem upperPoly_eq (n L U g i : ℝ) : Gen.R.Spacing.upperPoly n L U g i = fCubU n L U g i := by
  unfold Gen.R.Spacing.upperPoly fCubU aCoef; ring

theorem lowerPoly_funeq (n L U g : ℝ) : Gen.R.Spacing.lowerPoly n L U g = fCub n L U g :=
  funext (lowerPoly_eq n L U g)
theorem upperPoly_funeq (n L U g : ℝ) : Gen.R.Spacing.upperPoly n L U g = fCubU n L U g :=
  funext (upperPoly_eq n L U g)

theorem fCub_zero (n L U g : ℝ) : fCub n L U g 0 = L := by unfold fCub; ring
theorem fCub_n (n L U g : ℝ) (hn : n ≠ 0) : fCub n L U g n = U := by
  unfold fCub aCoef; field_simp; ring
theorem fCubU_zero (n L U g : ℝ) (hn : n ≠ 0) : fCubU n L U g 0 = L := by
  unfold fCubU aCoef; field_simp; ring
theorem fCubU_n (n L U g : ℝ) : fCubU n L U g n = U := by unfold fCubU; ring

theorem fCub_odd (n L U g i : ℝ) : fCub n (-L) (-U) (-g) i = - fCub n L U g i := by
  unfold fCub aCoef; ring
theorem fCubU_odd (n L U g i : ℝ) : fCubU n (-L) (-U) (-g) i = - fCubU n L U g i := by
  unfold fCubU aCoef; ring

/-- the upper cubic is the lower cubic reflected in index and value -/
theorem fCubU_reflect (n L U g i : ℝ) : fCubU n L U g i = - fCub n (-U) (-L) g (n - i) := by
  unfold fCubU fCub aCoef; ring

theorem fCub_nest (k n L U g i : ℝ) (hk : k ≠ 0) (hn : n ≠ 0) :
    fCub (k * n) L U (g / k) (k * i) = fCub n L U g i := by
  unfold fCub aCoef; field_simp
theorem fCubU_nest (k n L U g i : ℝ) (hk : k ≠ 0) (hn : n ≠ 0) :
    fCubU (k * n) L U (g / k) (k * i) = fCubU n L U g i := by
  unfold fCubU aCoef; field_simp

theorem fCub_lt (n L U g : ℝ) (hn : 0 < n) (hUL : 0 < U - L) (hg : 0 ≤ g)
    (hbranch : g * n < (U - L) * (1 + 1/100000000))
    (i j : ℝ) (hi : 0 ≤ i) (hij : i < j) (hj : j ≤ n) :
    fCub n L U g i < fCub n L U g j := by
  have key : fCub n L U g j - fCub n L U g i
      = (j - i) * (g + aCoef n L U g * (i^2 + i*j + j^2) / 3) := by unfold fCub; ring
  have hpos : 0 < g + aCoef n L U g * (i^2 + i*j + j^2) / 3 := by
    unfold aCoef
    have hq : 0 ≤ i^2 + i*j + j^2 := by nlinarith
    have hq2 : i^2 + i*j + j^2 ≤ 3 * n^2 := by nlinarith
    have hq3 : 0 < i^2 + i*j + j^2 := by nlinarith
    have hn3 : 0 < n^3 := by positivity
    rw [show g + 3 * (U - L - g * n) / n ^ 3 * (i ^ 2 + i * j + j ^ 2) / 3
          = (g * n^3 + (U - L - g*n) * (i^2 + i*j + j^2)) / n^3 by field_simp]
    apply div_pos _ hn3
    by_cases h : 0 ≤ U - L - g * n
    · have : 0 ≤ (U - L - g*n) * (i^2 + i*j + j^2) := mul_nonneg h hq
      by_cases hg0 : g = 0
      · subst hg0; nlinarith
      · have : 0 < g := lt_of_le_of_ne hg (Ne.symm hg0)
        have : 0 < g * n^3 := by positivity
        linarith
    · have h := not_le.mp h
      have h1 : (U - L - g*n) * (i^2 + i*j + j^2) ≥ (U - L - g*n) * (3 * n^2) := by nlinarith
      have h2 : g * n^3 + (U - L - g*n) * (3*n^2) = n^2 * (3*(U-L) - 2*g*n) := by ring
      have h3 : 0 < 3*(U-L) - 2*g*n := by nlinarith
      have : 0 < n^2 * (3*(U-L) - 2*g*n) := by positivity
      linarith
  have : 0 < (j - i) * (g + aCoef n L U g * (i^2 + i*j + j^2) / 3) :=
    mul_pos (by linarith) hpos
  linarith

theorem fCub_strictMonoOn (n L U g : ℝ) (hn : 0 < n) (hLU : L < U) (hg : 0 ≤ g)
    (hbranch : g * n < (U - L) * (1 + 1/100000000)) : StrictMonoOn (fCub n L U g) (Icc 0 n) := by
  intro i hi j hj hij
  exact fCub_lt n L U g hn (by linarith) hg hbranch i j hi.1 hij hj.2

theorem fCub_strictAntiOn (n L U g : ℝ) (hn : 0 < n) (hUL : U < L) (hg : g ≤ 0)
    (hbranch : (-g) * n < (-(U - L)) * (1 + 1/100000000)) : StrictAntiOn (fCub n L U g) (Icc 0 n) := by
  apply strictAntiOn_of_neg (fCub_odd n L U g)
  apply fCub_strictMonoOn n (-L) (-U) (-g) hn (by linarith) (by linarith)
  rw [show -U - -L = -(U - L) by ring]; exact hbranch

theorem fCubU_strictMonoOn (n L U g : ℝ) (hn : 0 < n) (hLU : L < U) (hg : 0 ≤ g)
    (hbranch : g * n < (U - L) * (1 + 1/100000000)) : StrictMonoOn (fCubU n L U g) (Icc 0 n) := by
  have hm : StrictMonoOn (fCub n (-U) (-L) g) (Icc 0 n) := by
    apply fCub_strictMonoOn n (-U) (-L) g hn (by linarith) hg
    rw [show -L - -U = U - L by ring]; exact hbranch
  intro i hi j hj hij
  rw [fCubU_reflect, fCubU_reflect]
  have := hm (a := n - j) ⟨by linarith [hj.2], by linarith [hj.1]⟩ (b := n - i)
    ⟨by linarith [hi.2], by linarith [hi.1]⟩ (by linarith)
  linarith

theorem fCubU_strictAntiOn (n L U g : ℝ) (hn : 0 < n) (hUL : U < L) (hg : g ≤ 0)
    (hbranch : (-g) * n < (-(U - L)) * (1 + 1/100000000)) : StrictAntiOn (fCubU n L U g) (Icc 0 n) := by
  apply strictAntiOn_of_neg (fCubU_odd n L U g)
  apply fCubU_strictMonoOn n (-L) (-U) (-g) hn (by linarith) (by linarith)
  rw [show -U - -L = -(U - L) by ring]; exact hbranch

/-- first derivative of the lower cubic: `dpsidi = grad_lower + a*i**2` -/
theorem fCub_hasDeriv (n L U g i : ℝ) :
    HasDerivAt (fCub n L U g) (g + aCoef n L U g * i ^ 2) i := by
  have h1 : HasDerivAt (fun x : ℝ => L + g * x) g i := by
    simpa using ((hasDerivAt_id i).const_mul g).const_add L
  have h2 : HasDerivAt (fun x : ℝ => aCoef n L U g * x ^ 3 / 3) (aCoef n L U g * i ^ 2) i := by
    have h := ((hasDerivAt_pow 3 i).const_mul (aCoef n L U g)).div_const 3
    refine h.congr_deriv ?_
    norm_num; ring
  have h := h1.fun_add h2
  unfold fCub
  exact h

theorem fCub_deriv (n L U g : ℝ) : deriv (fCub n L U g) = fun i => g + aCoef n L U g * i ^ 2 :=
  funext fun i => (fCub_hasDeriv n L U g i).deriv

theorem quad_hasDeriv (g a i : ℝ) : HasDerivAt (fun x : ℝ => g + a * x ^ 2) (a * (2 * i)) i := by
  have h := ((hasDerivAt_pow 2 i).const_mul a).const_add g
  refine h.congr_deriv ?_
  norm_num

theorem fCub_deriv2_zero (n L U g : ℝ) : HasDerivAt (deriv (fCub n L U g)) 0 0 := by
  rw [fCub_deriv]
  have h := quad_hasDeriv g (aCoef n L U g) 0
  simpa using h

theorem fCubU_hasDeriv (n L U g i : ℝ) :
    HasDerivAt (fCubU n L U g) (g + aCoef n L U g * (n - i) ^ 2) i := by
  have h1 : HasDerivAt (fun x : ℝ => U + g * (x - n)) g i := by
    simpa using (((hasDerivAt_id i).sub_const n).const_mul g).const_add U
  have hs : HasDerivAt (fun x : ℝ => n - x) (-1) i := by
    simpa using (hasDerivAt_id i).const_sub n
  have h2 : HasDerivAt (fun x : ℝ => aCoef n L U g * (n - x) ^ 3 / 3) (-(aCoef n L U g * (n - i) ^ 2)) i := by
    have h := ((hs.pow 3).const_mul (aCoef n L U g)).div_const 3
    refine h.congr_deriv ?_
    norm_num; ring
  have h := h1.fun_sub h2
  unfold fCubU
  refine h.congr_deriv ?_
  ring

theorem fCubU_deriv (n L U g : ℝ) : deriv (fCubU n L U g) = fun i => g + aCoef n L U g * (n - i) ^ 2 :=
  funext fun i => (fCubU_hasDeriv n L U g i).deriv

theorem fCubU_deriv2_zero (n L U g : ℝ) : HasDerivAt (deriv (fCubU n L U g)) 0 n := by
  rw [fCubU_deriv]
  have hs : HasDerivAt (fun x : ℝ => n - x) (-1) n := by
    simpa using (hasDerivAt_id n).const_sub n
  have h := ((hs.pow 2).const_mul (aCoef n L U g)).const_add g
  refine h.congr_deriv ?_
  norm_num

/-- at the branch switch the cubic coefficient vanishes -/
theorem aCoef_switch (n L U g : ℝ) (hn : 0 < n) (hs : ¬ (U - L) * g < 0) (h : |g * n| = |U - L|) :
    aCoef n L U g = 0 := by
  have hx : g * n = U - L := by
    apply eq_of_abs_eq_of_mul_nonneg h
    have : 0 ≤ (U - L) * g := not_lt.mp hs
    have := mul_nonneg this hn.le
    linarith
  unfold aCoef; rw [hx]; simp

/-! ## both gradients prescribed: trigonometric path -/

def aT (n L U gl gu : ℝ) : ℝ := (U - L - 1/2 * (gl + gu) * n) / n
def fT (n L U gl gu i : ℝ) : ℝ :=
  L + 1/2 * (gl + gu) * i + 1/2 * (gl - gu) * n / π * sin (π * i / n)
    + aT n L U gl gu * (i - n / (2 * π) * sin (2 * π * i / n))
def fT' (n L U gl gu i : ℝ) : ℝ :=
  1/2 * (gl + gu) + 1/2 * (gl - gu) * cos (π * i / n)
    + aT n L U gl gu * (1 - cos (2 * π * i / n))
def fT'' (n L U gl gu i : ℝ) : ℝ :=
  -(1/2 * (gl - gu) * (π / n) * sin (π * i / n)) + aT n L U gl gu * (2 * π / n * sin (2 * π * i / n))

theorem bothTrig_eq (n L U gl gu i : ℝ) : Gen.R.Spacing.bothTrig n L U gl gu i = fT n L U gl gu i := by
  unfold Gen.R.Spacing.bothTrig fT aT; ring

theorem bothTrig_funeq (n L U gl gu : ℝ) : Gen.R.Spacing.bothTrig n L U gl gu = fT n L U gl gu :=
  funext (bothTrig_eq n L U gl gu)

theorem fT_zero (n L U gl gu : ℝ) : fT n L U gl gu 0 = L := by unfold fT; simp
theorem fT_n (n L U gl gu : ℝ) (hn : n ≠ 0) : fT n L U gl gu n = U := by
  unfold fT aT
  have h1 : π * n / n = π := by field_simp
  have h2 : 2 * π * n / n = 2 * π := by field_simp
  rw [h1, h2, sin_pi, sin_two_pi]; field_simp; ring

theorem fT_odd (n L U gl gu i : ℝ) : fT n (-L) (-U) (-gl) (-gu) i = - fT n L U gl gu i := by
  unfold fT aT; ring

theorem fT_nest (k n L U gl gu i : ℝ) (hk : k ≠ 0) (hn : n ≠ 0) :
    fT (k * n) L U (gl / k) (gu / k) (k * i) = fT n L U gl gu i := by
  unfold fT aT
  have h1 : π * (k * i) / (k * n) = π * i / n := by field_simp
  have h2 : 2 * π * (k * i) / (k * n) = 2 * π * i / n := by field_simp
  rw [h1, h2]
  generalize sin (π * i / n) = s1
  generalize sin (2 * π * i / n) = s2
  have hpi : (π : ℝ) ≠ 0 := pi_ne_zero
  field_simp

theorem fT_hasDeriv (n L U gl gu i : ℝ) (hn : n ≠ 0) :
    HasDerivAt (fT n L U gl gu) (fT' n L U gl gu i) i := by
  have hpi : (π : ℝ) ≠ 0 := pi_ne_zero
  have d1 : HasDerivAt (fun x : ℝ => π * x / n) (π / n) i := by
    simpa using ((hasDerivAt_id i).const_mul π).div_const n
  have d2 : HasDerivAt (fun x : ℝ => 2 * π * x / n) (2 * π / n) i := by
    simpa using ((hasDerivAt_id i).const_mul (2 * π)).div_const n
  have e1 : HasDerivAt (fun x : ℝ => L + 1/2 * (gl + gu) * x) (1/2 * (gl + gu)) i := by
    simpa using ((hasDerivAt_id i).const_mul (1/2 * (gl + gu))).const_add L
  have e2 := d1.sin.const_mul (1/2 * (gl - gu) * n / π)
  have e3 := ((hasDerivAt_id' i).fun_sub (d2.sin.const_mul (n / (2 * π)))).const_mul (aT n L U gl gu)
  have h := (e1.fun_add e2).fun_add e3
  unfold fT fT'
  refine h.congr_deriv ?_
  field_simp

theorem fT_deriv (n L U gl gu : ℝ) (hn : n ≠ 0) : deriv (fT n L U gl gu) = fT' n L U gl gu :=
  funext fun i => (fT_hasDeriv n L U gl gu i hn).deriv

theorem fT'_hasDeriv (n L U gl gu i : ℝ) :
    HasDerivAt (fT' n L U gl gu) (fT'' n L U gl gu i) i := by
  have d1 : HasDerivAt (fun x : ℝ => π * x / n) (π / n) i := by
    simpa using ((hasDerivAt_id i).const_mul π).div_const n
  have d2 : HasDerivAt (fun x : ℝ => 2 * π * x / n) (2 * π / n) i := by
    simpa using ((hasDerivAt_id i).const_mul (2 * π)).div_const n
  have e2 := (d1.cos.const_mul (1/2 * (gl - gu))).const_add (1/2 * (gl + gu))
  have e3 := (d2.cos.const_sub 1).const_mul (aT n L U gl gu)
  have h := e2.fun_add e3
  unfold fT' fT''
  refine h.congr_deriv ?_
  ring

theorem fT'_zero (n L U gl gu : ℝ) : fT' n L U gl gu 0 = gl := by unfold fT'; simp; ring
theorem fT'_n (n L U gl gu : ℝ) (hn : n ≠ 0) : fT' n L U gl gu n = gu := by
  unfold fT'
  have h1 : π * n / n = π := by field_simp
  have h2 : 2 * π * n / n = 2 * π := by field_simp
  rw [h1, h2, cos_pi, cos_two_pi]; ring
theorem fT''_zero (n L U gl gu : ℝ) : fT'' n L U gl gu 0 = 0 := by unfold fT''; simp
theorem fT''_n (n L U gl gu : ℝ) (hn : n ≠ 0) : fT'' n L U gl gu n = 0 := by
  unfold fT''
  have h1 : π * n / n = π := by field_simp
  have h2 : 2 * π * n / n = 2 * π := by field_simp
  rw [h1, h2, sin_pi, sin_two_pi]; ring

theorem trig_pos_core (n D gl gu c e : ℝ) (he : e ≤ 1/8) (hn : 0 < n) (hD : 0 < D) (hgl : 0 ≤ gl) (hgu : 0 ≤ gu)
    (hbranch : 1/2 * (gl + gu) * n < D * (1 + e)) (hc1 : c < 1) (hc2 : -1 < c) :
    0 < 1/2 * (gl + gu) + 1/2 * (gl - gu) * c + (D - 1/2 * (gl + gu) * n) / n * (1 - (2 * c ^ 2 - 1)) := by
  have hp : 0 < 1 + c := by linarith
  have hq : 0 < 1 - c := by linarith
  have hpq : 0 < (1 + c) * (1 - c) := mul_pos hp hq
  rw [show 1/2 * (gl + gu) + 1/2 * (gl - gu) * c + (D - 1/2 * (gl + gu) * n) / n * (1 - (2 * c ^ 2 - 1))
        = ((1/2 * (gl * (1 + c)) + 1/2 * (gu * (1 - c))) * n
            + (D - 1/2 * (gl + gu) * n) * (2 * ((1 + c) * (1 - c)))) / n by field_simp; ring]
  apply div_pos _ hn
  by_cases ha : 0 ≤ D - 1/2 * (gl + gu) * n
  · have t1 : 0 ≤ (1/2 * (gl * (1 + c)) + 1/2 * (gu * (1 - c))) * n := by positivity
    have t2 : 0 ≤ (D - 1/2 * (gl + gu) * n) * (2 * ((1 + c) * (1 - c))) := by positivity
    rcases ha.lt_or_eq with ha' | ha'
    · have : 0 < (D - 1/2 * (gl + gu) * n) * (2 * ((1 + c) * (1 - c))) := by positivity
      linarith
    · have hsum : 0 < gl + gu := by nlinarith
      have : 0 < (1/2 * (gl * (1 + c)) + 1/2 * (gu * (1 - c))) * n := by
        apply mul_pos _ hn
        rcases hgl.lt_or_eq with h | h
        · have : 0 < gl * (1 + c) := mul_pos h hp
          have : 0 ≤ gu * (1 - c) := mul_nonneg hgu hq.le
          linarith
        · have : 0 < gu := by linarith
          have : 0 < gu * (1 - c) := mul_pos this hq
          have : 0 ≤ gl * (1 + c) := mul_nonneg hgl hp.le
          linarith
      linarith
  · have ha := not_le.mp ha
    have h1c : (1 + c) * (1 - c) ≤ 2 * (1 + c) := by nlinarith
    have h2c : (1 + c) * (1 - c) ≤ 2 * (1 - c) := by nlinarith
    -- |D - S| < e·D ≤ D/8 with S = ½(gl+gu)n > D, hence |D - S| < S/8; (1+c)(1-c) is below 2(1+c) and 2(1-c)
    have hS : 1/2 * (gl + gu) * n - D < 1/8 * (1/2 * (gl + gu) * n) := by nlinarith
    have k1 : 0 ≤ gl * n * (2 * (1 + c) - (1 + c) * (1 - c)) :=
      mul_nonneg (mul_nonneg hgl hn.le) (sub_nonneg.mpr h1c)
    have k2 : 0 ≤ gu * n * (2 * (1 - c) - (1 + c) * (1 - c)) :=
      mul_nonneg (mul_nonneg hgu hn.le) (sub_nonneg.mpr h2c)
    have k3 : (1/2 * (gl + gu) * n - D) * (2 * ((1 + c) * (1 - c)))
        ≤ 1/8 * (1/2 * (gl + gu) * n) * (2 * ((1 + c) * (1 - c))) :=
      mul_le_mul_of_nonneg_right hS.le (by positivity)
    have hsum : 0 < gl + gu := by nlinarith
    have k4 : 0 < (gl * (1 + c) + gu * (1 - c)) * n := by
      apply mul_pos _ hn
      rcases hgl.lt_or_eq with h | h
      · have : 0 < gl * (1 + c) := mul_pos h hp
        have : 0 ≤ gu * (1 - c) := mul_nonneg hgu hq.le
        linarith
      · have : 0 < gu := by linarith
        have : 0 < gu * (1 - c) := mul_pos this hq
        have : 0 ≤ gl * (1 + c) := mul_nonneg hgl hp.le
        linarith
    nlinarith [k1, k2, k3, k4]

theorem fT'_pos (n L U gl gu i e : ℝ) (he : e ≤ 1/8) (hn : 0 < n) (hD : 0 < U - L) (hgl : 0 ≤ gl) (hgu : 0 ≤ gu)
    (hbranch : 1/2 * (gl + gu) * n < (U - L) * (1 + e))
    (hi : i ∈ Ioo 0 n) : 0 < fT' n L U gl gu i := by
  obtain ⟨hi0, hin⟩ := hi
  have hθ0 : 0 < π * i / n := by positivity
  have hθπ : π * i / n < π := by rw [div_lt_iff₀ hn]; nlinarith [pi_pos]
  have hc1 : cos (π * i / n) < 1 := by
    have := cos_lt_cos_of_nonneg_of_le_pi (le_refl 0) hθπ.le hθ0; simpa using this
  have hc2 : -1 < cos (π * i / n) := by
    have := cos_lt_cos_of_nonneg_of_le_pi hθ0.le (le_refl π) hθπ; simpa using this
  have h2 : cos (2 * π * i / n) = 2 * cos (π * i / n) ^ 2 - 1 := by
    rw [← cos_two_mul]; congr 1; ring
  unfold fT'; rw [h2]; unfold aT
  exact trig_pos_core n (U - L) gl gu _ e he hn hD hgl hgu hbranch hc1 hc2

theorem fT_strictMonoOn (n L U gl gu e : ℝ) (he : e ≤ 1/8) (hn : 0 < n) (hLU : L < U) (hgl : 0 ≤ gl) (hgu : 0 ≤ gu)
    (hbranch : 1/2 * (gl + gu) * n < (U - L) * (1 + e)) :
    StrictMonoOn (fT n L U gl gu) (Icc 0 n) := by
  apply strictMonoOn_of_deriv_pos (convex_Icc 0 n)
  · intro x _; exact (fT_hasDeriv n L U gl gu x hn.ne').continuousAt.continuousWithinAt
  · intro x hx
    rw [interior_Icc] at hx
    rw [(fT_hasDeriv n L U gl gu x hn.ne').deriv]
    exact fT'_pos n L U gl gu x e he hn (by linarith) hgl hgu hbranch hx

theorem fT_strictAntiOn (n L U gl gu e : ℝ) (he : e ≤ 1/8) (hn : 0 < n) (hUL : U < L) (hgl : gl ≤ 0) (hgu : gu ≤ 0)
    (hbranch : 1/2 * (-(gl + gu)) * n < (-(U - L)) * (1 + e)) :
    StrictAntiOn (fT n L U gl gu) (Icc 0 n) := by
  apply strictAntiOn_of_neg (fT_odd n L U gl gu)
  apply fT_strictMonoOn n (-L) (-U) (-gl) (-gu) e he hn (by linarith) (by linarith) (by linarith)
  rw [show -U - -L = -(U - L) by ring, show -gl + -gu = -(gl + gu) by ring]; exact hbranch

theorem aT_switch (n L U gl gu : ℝ) (hn : 0 < n) (hsl : ¬ (U - L) * gl < 0) (hsu : ¬ (U - L) * gu < 0)
    (h : 1/2 * |gl + gu| * n = |U - L|) : aT n L U gl gu = 0 := by
  have hx : 1/2 * (gl + gu) * n = U - L := by
    apply eq_of_abs_eq_of_mul_nonneg
    · rw [abs_mul, abs_mul, abs_of_pos hn, abs_of_pos (by norm_num : (0:ℝ) < 1/2)]; exact h
    · have h1 : 0 ≤ (U - L) * gl := not_lt.mp hsl
      have h2 : 0 ≤ (U - L) * gu := not_lt.mp hsu
      have := mul_nonneg (add_nonneg h1 h2) hn.le
      linarith
  unfold aT; rw [hx]; simp

/-! ## guards of the generated code, unfolded with the sign information -/

open Gen.R.Spacing in
theorem lowerPoly_strictMonoOn (n L U g : ℝ) (hn : 0 < n) (hLU : L < U)
    (hguard : lowerPoly_guard n L U g) (hsigns : lowerPoly_signs n L U g) :
    StrictMonoOn (lowerPoly n L U g) (Icc 0 n) := by
  unfold lowerPoly_guard at hguard; unfold lowerPoly_signs at hsigns
  have hg := nonneg_of_signs hLU hsigns
  rw [lowerPoly_funeq]
  exact fCub_strictMonoOn n L U g hn hLU hg
    (abs_guard_pos (mul_nonneg hg hn.le) (by linarith) hguard)

open Gen.R.Spacing in
theorem lowerPoly_strictAntiOn (n L U g : ℝ) (hn : 0 < n) (hUL : U < L)
    (hguard : lowerPoly_guard n L U g) (hsigns : lowerPoly_signs n L U g) :
    StrictAntiOn (lowerPoly n L U g) (Icc 0 n) := by
  unfold lowerPoly_guard at hguard; unfold lowerPoly_signs at hsigns
  have hg := nonpos_of_signs hUL hsigns
  rw [lowerPoly_funeq]
  have hb := abs_guard_neg (x := g * n) (by nlinarith) (by linarith) hguard
  exact fCub_strictAntiOn n L U g hn hUL hg (by linarith)

open Gen.R.Spacing in
theorem upperPoly_strictMonoOn (n L U g : ℝ) (hn : 0 < n) (hLU : L < U)
    (hguard : upperPoly_guard n L U g) (hsigns : upperPoly_signs n L U g) :
    StrictMonoOn (upperPoly n L U g) (Icc 0 n) := by
  unfold upperPoly_guard at hguard; unfold upperPoly_signs at hsigns
  have hg := nonneg_of_signs hLU hsigns
  rw [upperPoly_funeq]
  exact fCubU_strictMonoOn n L U g hn hLU hg
    (abs_guard_pos (mul_nonneg hg hn.le) (by linarith) hguard)

open Gen.R.Spacing in
theorem upperPoly_strictAntiOn (n L U g : ℝ) (hn : 0 < n) (hUL : U < L)
    (hguard : upperPoly_guard n L U g) (hsigns : upperPoly_signs n L U g) :
    StrictAntiOn (upperPoly n L U g) (Icc 0 n) := by
  unfold upperPoly_guard at hguard; unfold upperPoly_signs at hsigns
  have hg := nonpos_of_signs hUL hsigns
  rw [upperPoly_funeq]
  have hb := abs_guard_neg (x := g * n) (by nlinarith) (by linarith) hguard
  exact fCubU_strictAntiOn n L U g hn hUL hg (by linarith)

open Gen.R.Spacing in
theorem bothTrig_strictMonoOn (n L U gl gu : ℝ) (hn : 0 < n) (hLU : L < U)
    (hguard : bothTrig_guard n L U gl gu) (hsigns : bothTrig_signs n L U gl gu) :
    StrictMonoOn (bothTrig n L U gl gu) (Icc 0 n) := by
  unfold bothTrig_guard at hguard; unfold bothTrig_signs at hsigns
  have hgl := nonneg_of_signs hLU hsigns.1
  have hgu := nonneg_of_signs hLU hsigns.2
  rw [bothTrig_funeq]
  rw [abs_of_nonneg (add_nonneg hgl hgu), abs_of_pos (by linarith)] at hguard
  -- the width of the tolerance band is whatever the source says; the proof needs only that it is at most 1/8
  exact fT_strictMonoOn n L U gl gu _ (by norm_num) hn hLU hgl hgu hguard

open Gen.R.Spacing in
theorem bothTrig_strictAntiOn (n L U gl gu : ℝ) (hn : 0 < n) (hUL : U < L)
    (hguard : bothTrig_guard n L U gl gu) (hsigns : bothTrig_signs n L U gl gu) :
    StrictAntiOn (bothTrig n L U gl gu) (Icc 0 n) := by
  unfold bothTrig_guard at hguard; unfold bothTrig_signs at hsigns
  have hgl := nonpos_of_signs hUL hsigns.1
  have hgu := nonpos_of_signs hUL hsigns.2
  rw [bothTrig_funeq]
  rw [abs_of_nonpos (by linarith : gl + gu ≤ 0), abs_of_neg (by linarith : U - L < 0)] at hguard
  exact fT_strictAntiOn n L U gl gu _ (by norm_num) hn hUL hgl hgu hguard

/-! ## solver paths: erf -/

def fErfL (erf : ℝ → ℝ) (L g a i : ℝ) : ℝ := L + g * √a * √π / 2 * erf (i / √a)
def fErfU (erf : ℝ → ℝ) (n U g a i : ℝ) : ℝ := U + g * √a * √π / 2 * erf ((i - n) / √a)

theorem lowerErf_eq (erf : ℝ → ℝ) (n L U g a i : ℝ) :
    Gen.R.Spacing.lowerErf erf n L U g a i = fErfL erf L g a i := by
  unfold Gen.R.Spacing.lowerErf fErfL; ring
theorem upperErf_eq (erf : ℝ → ℝ) (n L U g a i : ℝ) :
    Gen.R.Spacing.upperErf erf n L U g a i = fErfU erf n U g a i := by
  unfold Gen.R.Spacing.upperErf fErfU; ring

theorem erfCoef_pos {g a : ℝ} (hg : 0 < g) (ha : 0 < a) : 0 < g * √a * √π / 2 := by
  have h1 : 0 < √a := Real.sqrt_pos.mpr ha
  have h2 : 0 < √π := Real.sqrt_pos.mpr pi_pos
  positivity

theorem fErfL_strictMono (erf : ℝ → ℝ) (herf : StrictMono erf) (L g a : ℝ) (hg : 0 < g) (ha : 0 < a) :
    StrictMono (fErfL erf L g a) := by
  intro i j hij
  unfold fErfL
  have h1 : 0 < √a := Real.sqrt_pos.mpr ha
  have h2 : erf (i / √a) < erf (j / √a) := herf (div_lt_div_of_pos_right hij h1)
  have := mul_lt_mul_of_pos_left h2 (erfCoef_pos hg ha)
  linarith

theorem fErfU_strictMono (erf : ℝ → ℝ) (herf : StrictMono erf) (n U g a : ℝ) (hg : 0 < g) (ha : 0 < a) :
    StrictMono (fErfU erf n U g a) := by
  intro i j hij
  unfold fErfU
  have h1 : 0 < √a := Real.sqrt_pos.mpr ha
  have h2 : erf ((i - n) / √a) < erf ((j - n) / √a) :=
    herf (div_lt_div_of_pos_right (by linarith) h1)
  have := mul_lt_mul_of_pos_left h2 (erfCoef_pos hg ha)
  linarith

theorem fErfL_odd (erf : ℝ → ℝ) (L g a i : ℝ) : fErfL erf (-L) (-g) a i = - fErfL erf L g a i := by
  unfold fErfL; ring
theorem fErfU_odd (erf : ℝ → ℝ) (n U g a i : ℝ) : fErfU erf n (-U) (-g) a i = - fErfU erf n U g a i := by
  unfold fErfU; ring

/-- in the erf branch the prescribed gradient cannot vanish: (increasing case) it is positive -/
theorem pos_of_erf_guard {n L U g : ℝ} (hLU : L < U) (hs : ¬ (U - L) * g < 0)
    (hguard : ¬ |g * n| < |U - L| * (1 + 1/100000000)) : 0 < g := by
  have hg := nonneg_of_signs hLU hs
  rcases hg.lt_or_eq with h | h
  · exact h
  · exfalso; apply hguard
    rw [← h, zero_mul, abs_zero]
    have : 0 < |U - L| := abs_pos.mpr (by linarith : U - L ≠ 0)
    positivity

theorem neg_of_erf_guard {n L U g : ℝ} (hUL : U < L) (hs : ¬ (U - L) * g < 0)
    (hguard : ¬ |g * n| < |U - L| * (1 + 1/100000000)) : g < 0 := by
  have hg := nonpos_of_signs hUL hs
  rcases hg.lt_or_eq with h | h
  · exact h
  · exfalso; apply hguard
    rw [h, zero_mul, abs_zero]
    have : 0 < |U - L| := abs_pos.mpr (by linarith : U - L ≠ 0)
    positivity

open Gen.R.Spacing in
theorem lowerErf_endpoints (erf : ℝ → ℝ) (h0 : erf 0 = 0) (n L U g a : ℝ) :
    lowerErf erf n L U g a 0 = L ∧ lowerErf erf n L U g a n - U = lowerErf_constraint erf n L U g a := by
  constructor
  · unfold lowerErf; rw [zero_div, h0]; ring
  · unfold lowerErf lowerErf_constraint; ring

open Gen.R.Spacing in
theorem upperErf_endpoints (erf : ℝ → ℝ) (h0 : erf 0 = 0) (hodd : ∀ x, erf (-x) = - erf x) (n L U g a : ℝ) :
    upperErf erf n L U g a n = U ∧ L - upperErf erf n L U g a 0 = upperErf_constraint erf n L U g a := by
  constructor
  · unfold upperErf; rw [sub_self, zero_div, h0]; ring
  · unfold upperErf upperErf_constraint
    rw [show (0 - n) / √a = -(n / √a) by ring, hodd]; ring

open Gen.R.Spacing in
theorem lowerErf_strictMono' (erf : ℝ → ℝ) (herf : StrictMono erf) (n L U g a : ℝ) (ha : 0 < a) (hLU : L < U)
    (hguard : lowerErf_guard n L U g) (hsigns : lowerErf_signs n L U g) :
    StrictMono (lowerErf erf n L U g a) := by
  unfold lowerErf_guard at hguard; unfold lowerErf_signs at hsigns
  rw [show lowerErf erf n L U g a = fErfL erf L g a from funext (lowerErf_eq erf n L U g a)]
  exact fErfL_strictMono erf herf L g a (pos_of_erf_guard hLU hsigns hguard) ha

open Gen.R.Spacing in
theorem lowerErf_strictAnti' (erf : ℝ → ℝ) (herf : StrictMono erf) (n L U g a : ℝ) (ha : 0 < a) (hUL : U < L)
    (hguard : lowerErf_guard n L U g) (hsigns : lowerErf_signs n L U g) :
    StrictAnti (lowerErf erf n L U g a) := by
  unfold lowerErf_guard at hguard; unfold lowerErf_signs at hsigns
  rw [show lowerErf erf n L U g a = fErfL erf L g a from funext (lowerErf_eq erf n L U g a)]
  apply strictAnti_of_neg (fErfL_odd erf L g a)
  exact fErfL_strictMono erf herf (-L) (-g) a (by linarith [neg_of_erf_guard hUL hsigns hguard]) ha

open Gen.R.Spacing in
theorem upperErf_strictMono' (erf : ℝ → ℝ) (herf : StrictMono erf) (n L U g a : ℝ) (ha : 0 < a) (hLU : L < U)
    (hguard : upperErf_guard n L U g) (hsigns : upperErf_signs n L U g) :
    StrictMono (upperErf erf n L U g a) := by
  unfold upperErf_guard at hguard; unfold upperErf_signs at hsigns
  rw [show upperErf erf n L U g a = fErfU erf n U g a from funext (upperErf_eq erf n L U g a)]
  exact fErfU_strictMono erf herf n U g a (pos_of_erf_guard hLU hsigns hguard) ha

open Gen.R.Spacing in
theorem upperErf_strictAnti' (erf : ℝ → ℝ) (herf : StrictMono erf) (n L U g a : ℝ) (ha : 0 < a) (hUL : U < L)
    (hguard : upperErf_guard n L U g) (hsigns : upperErf_signs n L U g) :
    StrictAnti (upperErf erf n L U g a) := by
  unfold upperErf_guard at hguard; unfold upperErf_signs at hsigns
  rw [show upperErf erf n L U g a = fErfU erf n U g a from funext (upperErf_eq erf n L U g a)]
  apply strictAnti_of_neg (fErfU_odd erf n U g a)
  exact fErfU_strictMono erf herf n (-U) (-g) a (by linarith [neg_of_erf_guard hUL hsigns hguard]) ha

/-! ## solver path: sici -/

open Gen.R.Spacing in
theorem bothSici_zero (sici : ℝ → ℝ × ℝ) (n lower upper gl gu b : ℝ) (hn : 0 < n) (hb : 0 < b) :
    bothSici sici n lower upper gl gu b 0 = lower := by
  have hb0 : b ≠ 0 := hb.ne'
  have hn0 : n ≠ 0 := hn.ne'
  have hnb : n + b ≠ 0 := by positivity
  have hj1 : (n + b) - (b * (n + b)) / (0 + b) = 0 := by field_simp; ring
  have hj2 : (-b) + (b * (n + b)) / ((n - 0) + b) = 0 := by rw [sub_zero]; field_simp; ring
  unfold bothSici
  rw [hj1, hj2]
  simp only [zero_mul, zero_div, Real.cos_zero, sub_zero, add_zero, mul_zero, mul_one]
  have hbn : b + n ≠ 0 := by positivity
  field_simp
  ring

open Gen.R.Spacing in
theorem bothSici_n (sici : ℝ → ℝ × ℝ) (n lower upper gl gu b : ℝ) (hn : 0 < n) (hb : 0 < b)
    (hCi : ∀ x, (sici (-x)).2 = (sici x).2) :
    bothSici sici n lower upper gl gu b n - upper = bothSici_constraint sici n lower upper gl gu b := by
  have hb0 : b ≠ 0 := hb.ne'
  have hn0 : n ≠ 0 := hn.ne'
  have hnb : n + b ≠ 0 := by positivity
  have hbn : b + n ≠ 0 := by positivity
  have hj1 : (n + b) - (b * (n + b)) / (n + b) = n := by field_simp; ring
  have hj2 : (-b) + (b * (n + b)) / ((n - n) + b) = n := by field_simp; ring
  unfold bothSici bothSici_constraint
  rw [hj1, hj2]
  have e1 : (-(b + n)) * Real.pi / n = -((b + n) * Real.pi / n) := by ring
  have e2 : (-((b - n) + n)) * Real.pi / n = -(b * Real.pi / n) := by ring
  have e3 : ((b - n) + n) * Real.pi / n = b * Real.pi / n := by ring
  have e4 : n * Real.pi / n = Real.pi := by field_simp
  rw [e1, e2, e3, e4, hCi, hCi, Real.cos_pi]
  generalize (sici (b * Real.pi / n)).2 = C1
  generalize (sici ((b + n) * Real.pi / n)).2 = C2
  generalize (sici (b * Real.pi / n)).1 = S1
  generalize (sici ((b + n) * Real.pi / n)).1 = S2
  generalize Real.sin (b * Real.pi / n) = sn
  generalize Real.cos (b * Real.pi / n) = cs
  have hsub : b - n + n = b := by ring
  simp only [hsub]
  field_simp
  ring

end
end SpacingLemmas
