/- helper lemmas for C17 (core Lean only) -/
import HypnoModel.Model.Geqdsk

namespace Geqdsk

/-! ### decimal integers -/

theorem isD_digitChar (d : Nat) (h : d < 10) : isD (digitChar d) = true := by
  have : d = 0 ∨ d = 1 ∨ d = 2 ∨ d = 3 ∨ d = 4 ∨ d = 5 ∨ d = 6 ∨ d = 7 ∨ d = 8 ∨ d = 9 := by omega
  rcases this with h | h | h | h | h | h | h | h | h | h <;> subst h <;> decide

theorem digitChar_val (d : Nat) (h : d < 10) : (digitChar d).toNat - 48 = d := by
  have : d = 0 ∨ d = 1 ∨ d = 2 ∨ d = 3 ∨ d = 4 ∨ d = 5 ∨ d = 6 ∨ d = 7 ∨ d = 8 ∨ d = 9 := by omega
  rcases this with h | h | h | h | h | h | h | h | h | h <;> subst h <;> decide

theorem natDigits_ne_nil (n : Nat) : natDigits n ≠ [] := by
  unfold natDigits; split <;> simp

theorem natDigits_isD (n : Nat) : ∀ c ∈ natDigits n, isD c = true := by
  induction n using Nat.strongRecOn with
  | _ n ih =>
    unfold natDigits
    split
    · intro c hc; simp at hc; subst hc; exact isD_digitChar n (by omega)
    · intro c hc
      simp only [List.mem_append, List.mem_singleton] at hc
      rcases hc with hc | hc
      · exact ih (n / 10) (by omega) c hc
      · subst hc; exact isD_digitChar _ (by omega)

theorem digitsVal_append (l : List Char) (c : Char) :
    digitsVal (l ++ [c]) = 10 * digitsVal l + (c.toNat - 48) := by
  simp [digitsVal, List.foldl_append]

/-- `int(str(n)) = n` -/
theorem digitsVal_natDigits (n : Nat) : digitsVal (natDigits n) = n := by
  induction n using Nat.strongRecOn with
  | _ n ih =>
    unfold natDigits
    split
    · rename_i h; simp [digitsVal, digitChar_val n h]
    · rw [digitsVal_append, ih (n / 10) (by omega), digitChar_val _ (by omega)]; omega

theorem natDigits_length_lt (n k : Nat) (h : n < 10 ^ (k + 1)) : (natDigits n).length ≤ k + 1 := by
  induction k generalizing n with
  | zero => unfold natDigits; simp at h; simp [h]
  | succ k ih =>
    unfold natDigits
    split
    · simp
    · have : n / 10 < 10 ^ (k + 1) := by
        rw [Nat.div_lt_iff_lt_mul (by omega)]; rw [Nat.pow_succ] at h; omega
      have := ih (n / 10) this
      simp; omega

/-! ### scanning what ChunkOutput emits -/

/-- the token's text starts with a blank or a minus sign, so it cannot run into a preceding integer -/
def Tok.StartOK (t : Tok) : Prop := ∃ c r, t.str = c :: r ∧ (c = ' ' ∨ c = '-')

theorem SafeNext.of_startOK {t : Tok} (h : t.StartOK) (r : List Char) : SafeNext (t.str ++ r) := by
  obtain ⟨c, r', hs, hc⟩ := h
  intro c' hc'
  rw [hs] at hc'
  simp at hc'
  subst hc'
  rcases hc with rfl | rfl <;> simp

theorem SafeNext.nl (r : List Char) : SafeNext ('\n' :: r) := by
  intro c hc; simp at hc; subst hc; simp

theorem SafeNext.nil : SafeNext [] := by intro c hc; simp at hc

theorem safeNext_strs (ts : List Tok) (h : ∀ t ∈ ts, t.StartOK) (r : List Char) (hr : SafeNext r) :
    SafeNext (strs ts ++ r) := by
  cases ts with
  | nil => simpa [strs] using hr
  | cons t ts =>
    simp only [strs, List.append_assoc]
    exact SafeNext.of_startOK (h t (by simp)) _

theorem findall_strs (ts : List Tok) (hwf : ∀ t ∈ ts, t.WF) (hs : ∀ t ∈ ts, t.StartOK)
    (r : List Char) (hr : SafeNext r) :
    findall (strs ts ++ r) = ts.map Tok.matched ++ findall r := by
  induction ts with
  | nil => simp [strs]
  | cons t ts ih =>
    simp only [strs, List.append_assoc, List.map_cons, List.cons_append]
    rw [findall_tok t (hwf t (by simp)) _
      (fun _ => safeNext_strs ts (fun q hq => hs q (by simp [hq])) r hr)]
    rw [ih (fun q hq => hwf q (by simp [hq])) (fun q hq => hs q (by simp [hq]))]

theorem safeNext_emit (c : Nat) (ops : List Op) (hs : ∀ t ∈ opToks ops, t.StartOK) :
    SafeNext (emit c ops) := by
  induction ops generalizing c with
  | nil => exact SafeNext.nil
  | cons op ops ih =>
    cases op with
    | w t =>
      simp only [emit]
      exact SafeNext.of_startOK (hs t (by simp [opToks])) _
    | nl =>
      simp only [emit]
      split
      · exact SafeNext.nl _
      · exact ih 0 (fun t ht => hs t (by simpa [opToks] using ht))
    | raw ts =>
      simp only [emit]
      exact safeNext_strs ts (fun t ht => hs t (by simp [opToks, ht])) _ (SafeNext.nl _)

/-- scanning the output of any sequence of ChunkOutput operations returns exactly the written tokens -/
theorem findall_emit (c : Nat) (ops : List Op) (hwf : ∀ t ∈ opToks ops, t.WF)
    (hs : ∀ t ∈ opToks ops, t.StartOK) :
    findall (emit c ops) = (opToks ops).map Tok.matched := by
  induction ops generalizing c with
  | nil => simp [emit, opToks, findall_nil]
  | cons op ops ih =>
    have hwf' : ∀ t ∈ opToks ops, t.WF := fun t ht => hwf t (by cases op <;> simp [opToks, ht])
    have hs' : ∀ t ∈ opToks ops, t.StartOK := fun t ht => hs t (by cases op <;> simp [opToks, ht])
    cases op with
    | w t =>
      simp only [emit, opToks, List.map_cons]
      rw [findall_tok t (hwf t (by simp [opToks]))]
      · split
        · rw [findall_newline, ih 0 hwf' hs']
        · rw [ih _ hwf' hs']
      · intro _
        split
        · exact SafeNext.nl _
        · exact safeNext_emit _ ops hs'
    | nl =>
      simp only [emit, opToks]
      split
      · rw [findall_newline, ih 0 hwf' hs']
      · exact ih 0 hwf' hs'
    | raw ts =>
      simp only [emit, opToks, List.map_append]
      rw [findall_strs ts (fun t ht => hwf t (by simp [opToks, ht])) (fun t ht => hs t (by simp [opToks, ht]))
        _ (SafeNext.nl _), findall_newline, ih c hwf' hs']


/-! ### line breaks separate matches -/

theorem spanD_app_nl (s t : List Char) :
    spanD (s ++ '\n' :: t) = ((spanD s).1, (spanD s).2 ++ '\n' :: t) := by
  induction s with
  | nil => simp [spanD, show isD '\n' = false by decide]
  | cons c cs ih =>
    by_cases h : isD c = true
    · simp [spanD, h, ih]
    · simp [spanD, h]

theorem isD_nl : isD '\n' = false := by decide

theorem fracExp_app_nl (s t : List Char) :
    fracExp (s ++ '\n' :: t) = (fracExp s).map (fun p => (p.1, p.2 ++ '\n' :: t)) := by
  cases s with
  | nil => simp [fracExp]
  | cons c cs =>
    by_cases hc : c = '.'
    · subst hc
      simp only [List.cons_append, fracExp, spanD_app_nl]
      rcases hsp : spanD cs with ⟨ds, rest⟩
      cases ds with
      | nil => simp
      | cons d ds =>
        simp only
        rcases rest with _ | ⟨e, _ | ⟨sg, _ | ⟨d1, _ | ⟨d2, rest⟩⟩⟩⟩
        · rcases t with _ | ⟨a, _ | ⟨b, _ | ⟨c, t⟩⟩⟩ <;> simp
        · rcases t with _ | ⟨a, _ | ⟨b, t⟩⟩ <;> simp
        · rcases t with _ | ⟨a, t⟩ <;> simp [isD_nl]
        · simp [isD_nl]
        · simp only [List.cons_append]
          split <;> simp
    · have : fracExp (c :: cs) = none := by
        unfold fracExp; split
        · rename_i h; cases h; exact absurd rfl hc
        · rfl
      rw [this]
      simp only [List.cons_append, Option.map_none]
      unfold fracExp; split
      · rename_i h; cases h; exact absurd rfl hc
      · rfl

theorem body_app_nl (pre s t : List Char) :
    body pre (s ++ '\n' :: t) = (body pre s).map (fun p => (p.1, p.2 ++ '\n' :: t)) := by
  simp only [body, spanD_app_nl]
  rcases hsp : spanD s with ⟨ds, rest⟩
  cases ds with
  | nil => simp
  | cons d ds =>
    simp only [fracExp_app_nl]
    cases hf : fracExp rest with
    | none => simp
    | some p => simp

theorem matchHere_app_nl (s t : List Char) :
    matchHere (s ++ '\n' :: t) = (matchHere s).map (fun p => (p.1, p.2 ++ '\n' :: t)) := by
  cases s with
  | nil =>
    simp [matchHere, body, spanD, isD_nl]
  | cons c cs =>
    simp only [List.cons_append, matchHere]
    have h1 := body_app_nl [c] cs t
    have h2 := body_app_nl [] (c :: cs) t
    simp only [List.cons_append] at h2
    split
    · rw [h1, h2]
      cases body [c] cs <;> simp
    · rw [h2]

/-- a line break separates matches: scanning line by line is scanning the whole text -/
theorem findall_app_nl (s t : List Char) : findall (s ++ '\n' :: t) = findall s ++ findall t := by
  induction h : s.length using Nat.strongRecOn generalizing s with
  | _ n ih =>
    cases s with
    | nil => simp [findall_newline, findall_nil]
    | cons c cs =>
      cases hm : matchHere (c :: cs) with
      | none =>
        have hm' : matchHere (c :: (cs ++ '\n' :: t)) = none := by
          have := matchHere_app_nl (c :: cs) t
          simpa [hm] using this
        rw [List.cons_append, findall_cons_none hm', findall_cons_none hm]
        exact ih cs.length (by subst h; simp) cs rfl
      | some p =>
        obtain ⟨m, r⟩ := p
        have hm' : matchHere (c :: (cs ++ '\n' :: t)) = some (m, r ++ '\n' :: t) := by
          have := matchHere_app_nl (c :: cs) t
          simpa [hm] using this
        rw [List.cons_append, findall_cons_some hm', findall_cons_some hm]
        have hl := matchHere_length hm
        rw [ih r.length (by subst h; exact hl) r rfl]
        simp

theorem splitLine_spec (s : List Char) :
    (s = (splitLine s).1 ∧ (splitLine s).2 = [] ∧ '\n' ∉ s) ∨ s = (splitLine s).1 ++ '\n' :: (splitLine s).2 := by
  induction s with
  | nil => left; simp [splitLine]
  | cons c cs ih =>
    by_cases h : c = '\n'
    · right; simp [splitLine, h]
    · simp only [splitLine, h, if_false]
      rcases ih with ⟨h1, h2, h3⟩ | h1
      · left
        refine ⟨by rw [← h1], h2, ?_⟩
        simp only [List.mem_cons, not_or]
        exact ⟨fun e => h e.symm, h3⟩
      · right; simp only [List.cons_append]; rw [← h1]

/-- `for line in fh: findall(line)` yields what `findall` on the whole text yields -/
theorem scanLines_eq_findall (s : List Char) : scanLines s = findall s := by
  induction h : s.length using Nat.strongRecOn generalizing s with
  | _ n ih =>
    cases s with
    | nil => rw [scanLines, findall_nil]
    | cons c cs =>
      rw [scanLines]
      have hl := splitLine_snd_lt c cs
      rw [ih _ (by subst h; exact hl) _ rfl]
      rcases splitLine_spec (c :: cs) with ⟨h1, h2, _⟩ | h1
      · rw [h2, findall_nil, List.append_nil, ← h1]
      · conv => rhs; rw [h1]
        rw [findall_app_nl]


/-! ### the first line -/

theorem splitGo_app_ws (cur p : List Char) (w : Char) (r : List Char) (hw : isWs w = true) :
    splitGo cur (p ++ w :: r) = splitGo cur p ++ splitGo [] r := by
  induction p generalizing cur with
  | nil =>
    simp only [List.nil_append, splitGo, hw, if_true]
    split <;> simp
  | cons c cs ih =>
    simp only [List.cons_append, splitGo]
    split
    · split
      · rw [ih]
      · rw [ih]; simp
    · rw [ih]

theorem splitGo_word (cur ds : List Char) (h : ∀ c ∈ ds, isWs c = false) (hne : cur ++ ds ≠ []) :
    splitGo cur ds = [cur.reverse ++ ds] := by
  induction ds generalizing cur with
  | nil =>
    simp only [splitGo]
    have : cur ≠ [] := by simpa using hne
    simp [this]
  | cons c cs ih =>
    have hc : isWs c = false := h c (by simp)
    simp only [splitGo, hc]
    rw [ih (c :: cur) (fun x hx => h x (by simp [hx])) (by simp)]
    simp

theorem splitGo_blanks (k : Nat) (s : List Char) : splitGo [] (List.replicate k ' ' ++ s) = splitGo [] s := by
  induction k with
  | zero => simp
  | succ k ih =>
    simp only [List.replicate_succ, List.cons_append, splitGo]
    simpa [isWs] using ih

theorem isWs_of_isD {c : Char} (h : isD c = true) : isWs c = false := by
  have h' : c.isDigit = true := h
  simp only [Char.isDigit, Bool.and_eq_true, decide_eq_true_eq] at h'
  simp only [isWs, Bool.or_eq_false_iff, decide_eq_false_iff_not]
  have e : ∀ d : Char, c = d → c.val = d.val := fun d h => by rw [h]
  refine ⟨⟨⟨⟨⟨⟨⟨⟨⟨?_, ?_⟩, ?_⟩, ?_⟩, ?_⟩, ?_⟩, ?_⟩, ?_⟩, ?_⟩, ?_⟩ <;> intro hc <;> have := e _ hc <;>
    simp at this <;> rw [this] at h' <;> exact absurd h' (by decide)

/-- words of  (blanks digits)(w rest) -/
theorem splitGo_padInt (k : Nat) (ds : List Char) (hds : ∀ c ∈ ds, isD c = true) (hne : ds ≠ [])
    (w : Char) (r : List Char) (hw : isWs w = true) :
    splitGo [] (List.replicate k ' ' ++ ds ++ w :: r) = ds :: splitGo [] r := by
  rw [List.append_assoc, splitGo_blanks, splitGo_app_ws _ _ _ _ hw,
    splitGo_word [] ds (fun c hc => isWs_of_isD (hds c hc)) (by simpa using hne)]
  simp

theorem wordNat_natDigits (n : Nat) : wordNat (natDigits n) = some n := by
  unfold wordNat
  have h1 := natDigits_ne_nil n
  have h2 : (natDigits n).all isD = true := by
    rw [List.all_eq_true]; exact natDigits_isD n
  simp [h1, h2, digitsVal_natDigits]

theorem sepTok_str (w n : Nat) : (sepTok w n).str = ' ' :: (List.replicate (padInt w n).1 ' ' ++ natDigits n) := by
  simp [sepTok, Tok.str, padInt, List.replicate_succ, Nat.add_comm 1]

/-- `words[-3:]` of the first line are idum, nx, ny — for every nx, ny and every free text before them -/
theorem readHeader_headerLine (pre : List Char) (nx ny : Nat) :
    readHeader (headerLine pre nx ny) = .ok (nx, ny) := by
  have h3 : (Tok.int (padInt 4 3).1 (padInt 4 3).2).str = ' ' :: (List.replicate 2 ' ' ++ natDigits 3) := by
    have l3 : (natDigits 3).length = 1 := by unfold natDigits; simp
    simp [Tok.str, padInt, l3, List.replicate_succ]
  have key : splitWords (headerLine pre nx ny)
      = splitWords pre ++ [natDigits 3, natDigits nx, natDigits ny] := by
    unfold splitWords headerLine
    rw [h3, sepTok_str, sepTok_str]
    simp only [List.append_assoc, List.cons_append]
    rw [splitGo_app_ws _ _ _ _ (by decide)]
    have e1 : List.replicate 2 ' ' ++ (natDigits 3 ++ ' ' :: (List.replicate (padInt 3 nx).fst ' ' ++ (natDigits nx ++
          ' ' :: (List.replicate (padInt 3 ny).fst ' ' ++ natDigits ny))))
        = List.replicate 2 ' ' ++ natDigits 3 ++ ' ' :: (List.replicate (padInt 3 nx).fst ' ' ++ natDigits nx ++
          ' ' :: (List.replicate (padInt 3 ny).fst ' ' ++ natDigits ny)) := by simp
    rw [e1, splitGo_padInt _ _ (natDigits_isD 3) (natDigits_ne_nil 3) _ _ (by decide),
      splitGo_padInt _ _ (natDigits_isD nx) (natDigits_ne_nil nx) _ _ (by decide),
      splitGo_blanks, splitGo_word [] _ (fun c hc => isWs_of_isD (natDigits_isD ny c hc))
        (by simpa using natDigits_ne_nil ny)]
    simp
  unfold readHeader
  rw [key]
  simp [wordNat_natDigits]


/-! ### refinement: only a token that follows an integer must start with a blank or a minus sign -/

def FollowOK : List Tok → Prop
  | [] => True
  | [_] => True
  | a :: b :: r => (a.isInt = true → b.StartOK) ∧ FollowOK (b :: r)

theorem FollowOK.tail {a : Tok} {l : List Tok} (h : FollowOK (a :: l)) : FollowOK l := by
  cases l with
  | nil => trivial
  | cons b r => exact h.2

theorem FollowOK.append_left {l₁ l₂ : List Tok} (h : FollowOK (l₁ ++ l₂)) : FollowOK l₁ := by
  induction l₁ with
  | nil => trivial
  | cons a l ih =>
    cases l with
    | nil => trivial
    | cons b r => exact ⟨h.1, ih h.2⟩

theorem FollowOK.append_right {l₁ l₂ : List Tok} (h : FollowOK (l₁ ++ l₂)) : FollowOK l₂ := by
  induction l₁ with
  | nil => exact h
  | cons a l ih => exact ih (FollowOK.tail h)

theorem safeNext_strs' (ts : List Tok) (h : ∀ t, ts.head? = some t → t.StartOK) (r : List Char) (hr : SafeNext r) :
    SafeNext (strs ts ++ r) := by
  cases ts with
  | nil => simpa [strs] using hr
  | cons t ts =>
    simp only [strs, List.append_assoc]
    exact SafeNext.of_startOK (h t rfl) _

theorem findall_strs' (ts : List Tok) (hwf : ∀ t ∈ ts, t.WF) (hf : FollowOK ts)
    (r : List Char) (hr : SafeNext r) :
    findall (strs ts ++ r) = ts.map Tok.matched ++ findall r := by
  induction ts with
  | nil => simp [strs]
  | cons t ts ih =>
    simp only [strs, List.append_assoc, List.map_cons, List.cons_append]
    rw [findall_tok t (hwf t (by simp)) _ ?_]
    · rw [ih (fun q hq => hwf q (by simp [hq])) (FollowOK.tail hf)]
    · intro hi
      apply safeNext_strs' ts _ r hr
      intro b hb
      cases ts with
      | nil => simp at hb
      | cons b' r' => simp at hb; subst hb; exact hf.1 hi

theorem safeNext_emit' (c : Nat) (ops : List Op) (hs : ∀ t, (opToks ops).head? = some t → t.StartOK) :
    SafeNext (emit c ops) := by
  induction ops generalizing c with
  | nil => exact SafeNext.nil
  | cons op ops ih =>
    cases op with
    | w t =>
      simp only [emit]
      exact SafeNext.of_startOK (hs t (by simp [opToks])) _
    | nl =>
      simp only [emit]
      split
      · exact SafeNext.nl _
      · exact ih 0 (fun t ht => hs t (by simpa [opToks] using ht))
    | raw ts =>
      simp only [emit]
      apply safeNext_strs' ts _ _ (SafeNext.nl _)
      intro t ht
      apply hs t
      cases ts with
      | nil => simp at ht
      | cons a r => simp at ht; subst ht; simp [opToks]

/-- scanning the output of any sequence of ChunkOutput operations returns exactly the written tokens -/
theorem findall_emit' (c : Nat) (ops : List Op) (hwf : ∀ t ∈ opToks ops, t.WF) (hf : FollowOK (opToks ops)) :
    findall (emit c ops) = (opToks ops).map Tok.matched := by
  induction ops generalizing c with
  | nil => simp [emit, opToks, findall_nil]
  | cons op ops ih =>
    have hwf' : ∀ t ∈ opToks ops, t.WF := fun t ht => hwf t (by cases op <;> simp [opToks, ht])
    cases op with
    | w t =>
      have hf' : FollowOK (opToks ops) := FollowOK.tail (a := t) (by simpa [opToks] using hf)
      simp only [emit, opToks, List.map_cons]
      rw [findall_tok t (hwf t (by simp [opToks]))]
      · split
        · rw [findall_newline, ih 0 hwf' hf']
        · rw [ih _ hwf' hf']
      · intro hi
        split
        · exact SafeNext.nl _
        · apply safeNext_emit'
          intro b hb
          have hf0 : FollowOK (t :: opToks ops) := by simpa [opToks] using hf
          cases hto : opToks ops with
          | nil => rw [hto] at hb; simp at hb
          | cons b' r' =>
            rw [hto] at hb hf0; simp at hb; subst hb; exact hf0.1 hi
    | nl =>
      have hf' : FollowOK (opToks ops) := by simpa [opToks] using hf
      simp only [emit, opToks]
      split
      · rw [findall_newline, ih 0 hwf' hf']
      · exact ih 0 hwf' hf'
    | raw ts =>
      have hf0 : FollowOK (ts ++ opToks ops) := by simpa [opToks] using hf
      simp only [emit, opToks, List.map_append]
      rw [findall_strs' ts (fun t ht => hwf t (by simp [opToks, ht])) (FollowOK.append_left hf0)
        _ (SafeNext.nl _), findall_newline, ih c hwf' (FollowOK.append_right hf0)]


/-! ### tokens of the body, classified -/

theorem f2s_WF {v : D10} (h : v.WF) : (f2s v).WF := by
  obtain ⟨h0, h1, h2, h3, h4, h5⟩ := h
  unfold f2s Tok.WF
  refine ⟨?_, h0, h1, h2, h3, h4, h5⟩
  cases v.sgn <;> simp

theorem f2s_startOK (v : D10) : (f2s v).StartOK := by
  unfold f2s Tok.StartOK Tok.str
  cases v.sgn <;> simp

theorem f2s_not_int (v : D10) : (f2s v).isInt = false := rfl

theorem contains_dot_false (ds : List Char) (h : ∀ c ∈ ds, isD c = true) : ds.contains '.' = false := by
  induction ds with
  | nil => rfl
  | cons c cs ih =>
    have hc : isD c = true := h c (by simp)
    have : ('.' == c) = false := by
      cases hcd : ('.' == c) with
      | false => rfl
      | true =>
        have : c = '.' := by simpa using (beq_iff_eq.mp hcd).symm
        subst this; exact absurd hc (by decide)
    simp only [List.contains_cons, this, Bool.false_or]
    exact ih (fun x hx => h x (by simp [hx]))

/-- reading back a written float gives the same ten digits, sign and exponent -/
theorem classify_f2s (v : D10) : classify (f2s v).matched = .flt v.canon := by
  unfold classify f2s Tok.matched D10.canon
  cases v.sgn <;> simp [stripBlank]

theorem isD_not_sign {c : Char} (h : isD c = true) : c ≠ ' ' ∧ c ≠ '-' ∧ c ≠ '+' := by
  refine ⟨?_, ?_, ?_⟩ <;> rintro rfl <;> exact absurd h (by decide)

theorem intOf_digits (d : Char) (ds : List Char) (h : isD d = true) :
    intOf (d :: ds) = .int false (digitsVal (d :: ds)) := by
  have hd0 := isD_not_sign h
  unfold intOf
  split
  · rename_i h; simp at h; exact absurd h.1 hd0.2.1
  · rename_i h; simp at h; exact absurd h.1 hd0.2.2
  · rfl

/-- reading back a written count gives the same number -/
theorem classify_int (pad n : Nat) : classify (Tok.int pad (natDigits n)).matched = .int false n := by
  have hd := natDigits_isD n
  have hne := natDigits_ne_nil n
  have hdot := contains_dot_false _ hd
  have hv := digitsVal_natDigits n
  unfold classify Tok.matched
  cases hds : natDigits n with
  | nil => exact absurd hds hne
  | cons d ds =>
    rw [hds] at hdot hd hv
    have hd0 := isD_not_sign (hd d (by simp))
    by_cases hp : pad = 0
    · have hs : stripBlank (d :: ds) = d :: ds := by
        unfold stripBlank; split
        · rename_i h; simp at h; exact absurd h.1 hd0.1
        · rfl
      simp only [hp, if_true, List.nil_append, hdot, Bool.false_eq_true, if_false, hs]
      rw [intOf_digits d ds (hd d (by simp)), hv]
    · have hc : (' ' :: d :: ds).contains '.' = false := by
        simp only [List.contains_cons] at hdot ⊢
        simpa using hdot
      simp only [hp, if_false, List.singleton_append, hc, Bool.false_eq_true, stripBlank]
      rw [intOf_digits d ds (hd d (by simp)), hv]


/-! ### the token sequence of a written file -/

theorem opToks_append (a b : List Op) : opToks (a ++ b) = opToks a ++ opToks b := by
  induction a with
  | nil => rfl
  | cons op a ih => cases op <;> simp [opToks, ih]

theorem opToks_w (l : List D10) : opToks (l.map (fun v => Op.w (f2s v))) = l.map f2s := by
  induction l with
  | nil => rfl
  | cons v l ih => simp [opToks, ih]

theorem opToks_write1d (l : List D10) : opToks (write1d l) = l.map f2s := by
  simp [write1d, opToks_append, opToks_w, opToks]

theorem interleave_nil_left (z : List α) : interleave ([] : List α) z = [] := by
  cases z <;> rfl

theorem opToks_pairsOps (r z : List D10) : opToks (pairsOps r z) = (interleave r z).map f2s := by
  unfold pairsOps
  split
  · simp [opToks_append, opToks_w, opToks]
  · rename_i h
    have : r = [] := by cases r with | nil => rfl | cons _ _ => simp at h
    subst this; simp [opToks, interleave_nil_left]

/-- the values of a data set in file order -/
def bodyVals (d : Data D10) : List D10 × Nat × Nat × List D10 :=
  let s := d.sc
  let z := D10.zero
  let workk := List.replicate d.nx D10.zero
  ([s.rdim, s.zdim, s.rcentr, s.rleft, s.zmid, s.rmagx, s.zmagx, s.simagx, s.sibdry, s.bcentr,
    s.cpasma, s.simagx, z, s.rmagx, z, s.zmagx, z, s.sibdry, z, z]
    ++ d.fpol ++ d.pres ++ d.ffprime.getD workk ++ d.pprime.getD workk ++ flat2d d.nx d.ny d.psi ++ d.qpsi,
   (d.rbdry.getD []).length, (d.rlim.getD []).length,
   interleave (d.rbdry.getD []) d.zbdry ++ interleave (d.rlim.getD []) d.zlim)

theorem opToks_bodyOps (d : Data D10) :
    opToks (bodyOps d) = (bodyVals d).1.map f2s
      ++ countTok (bodyVals d).2.1 :: sepTok 4 (bodyVals d).2.2.1 :: (bodyVals d).2.2.2.map f2s := by
  simp [bodyOps, bodyVals, opToks_append, opToks_write1d, opToks_pairsOps, opToks, List.map_append]

theorem followOK_cons_start (c : Tok) (B : List Tok) (hB : ∀ t ∈ B, t.StartOK) : FollowOK (c :: B) := by
  induction B generalizing c with
  | nil => trivial
  | cons b B ih =>
    exact ⟨fun _ => hB b (by simp), ih b (fun t ht => hB t (by simp [ht]))⟩

theorem followOK_mid (A B : List Tok) (c : Tok) (hA : ∀ t ∈ A, t.isInt = false) (hB : ∀ t ∈ B, t.StartOK) :
    FollowOK (A ++ c :: B) := by
  induction A with
  | nil => exact followOK_cons_start c B hB
  | cons a A ih =>
    have ih' := ih (fun t ht => hA t (by simp [ht]))
    have ha : a.isInt = false := hA a (by simp)
    cases hA' : A ++ c :: B with
    | nil => simp at hA'
    | cons x r =>
      simp only [List.cons_append, hA']
      rw [hA'] at ih'
      exact ⟨fun h => (by rw [ha] at h; cases h), ih'⟩

theorem countTok_WF (n : Nat) : (countTok n).WF := ⟨natDigits_isD n, natDigits_ne_nil n⟩
theorem sepTok_WF (w n : Nat) : (sepTok w n).WF := ⟨natDigits_isD n, natDigits_ne_nil n⟩
theorem sepTok_startOK (w n : Nat) : (sepTok w n).StartOK := ⟨' ', _, sepTok_str w n, Or.inl rfl⟩

/-! ### reading the values back -/

theorem takeN_app (l1 l2 : List Val) (n : Nat) (h : l1.length = n) : takeN n (l1 ++ l2) = .ok (l1, l2) := by
  subst h; simp [takeN]

theorem interleave_map (f : α → β) (r z : List α) :
    (interleave r z).map f = interleave (r.map f) (z.map f) := by
  induction r generalizing z with
  | nil => simp [interleave_nil_left]
  | cons a r ih => cases z with
    | nil => simp [interleave]
    | cons b z => simp [interleave, ih]

theorem interleave_length (r z : List α) (h : z.length = r.length) : (interleave r z).length = 2 * r.length := by
  induction r generalizing z with
  | nil => simp [interleave_nil_left]
  | cons a r ih => cases z with
    | nil => simp at h
    | cons b z => simp at h; simp [interleave, ih z h]; omega

theorem unInterleave_interleave (r z : List α) (h : z.length = r.length) : unInterleave (interleave r z) = (r, z) := by
  induction r generalizing z with
  | nil => cases z with
    | nil => rfl
    | cons _ _ => simp at h
  | cons a r ih => cases z with
    | nil => simp at h
    | cons b z => simp at h; simp [interleave, unInterleave, ih z h]

theorem flat2d_length (nx ny : Nat) (psi : Nat → Nat → α) : (flat2d nx ny psi).length = nx * ny := by
  unfold flat2d
  induction ny with
  | zero => simp
  | succ k ih =>
    rw [List.range_succ, List.flatMap_append, List.length_append, ih]
    simp [Nat.mul_succ]

/-- `write_2d` followed by `read_2d`: entry `y*nx + x` of the flat sequence is `psi[x, y]` -/
theorem flat2d_get (nx ny : Nat) (psi : Nat → Nat → α) (x y : Nat) (hx : x < nx) (hy : y < ny) :
    (flat2d nx ny psi)[y * nx + x]? = some (psi x y) := by
  unfold flat2d
  induction ny with
  | zero => omega
  | succ k ih =>
    rw [List.range_succ, List.flatMap_append]
    have hl : ((List.range k).flatMap fun y => (List.range nx).map fun x => psi x y).length = nx * k :=
      flat2d_length nx k psi
    by_cases hk : y < k
    · rw [List.getElem?_append_left (by rw [hl]; calc y * nx + x < y * nx + nx := by omega
          _ = nx * (y + 1) := by rw [Nat.mul_succ, Nat.mul_comm]
          _ ≤ nx * k := Nat.mul_le_mul_left _ hk)]
      exact ih hk
    · have : y = k := by omega
      subst this
      rw [List.getElem?_append_right (by rw [hl, Nat.mul_comm]; omega)]
      simp [hl, Nat.mul_comm, hx]


end Geqdsk
