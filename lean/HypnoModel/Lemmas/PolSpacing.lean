/-
Helper lemmas for C10 (poloidal spacing functions, `EquilibriumRegion.get{Sqrt,Monotonic,Linear}PoloidalDistanceFunc`).
Hand-written normal forms in the normalised variables `X = N/N_norm`, `x = i/N_norm` (`cvx`, `sL`, `sU`, `sB`), the real
content proved about them, and bridge lemmas `…_inner` tying the in-range branch of each generated definition
`Gen.R.PolSpacing.*` (HypnoModel/Gen/PolSpacing.lean, regenerated on every run) to its normal form by
`unfold …; ring`.  The rescaling (`hom_tac`) lemmas work on the generated text directly, extrapolation branches included.
-/
import HypnoModel.Gen.PolSpacing
import Mathlib.Analysis.SpecialFunctions.Sqrt
import Mathlib.Analysis.SpecialFunctions.Log.Basic
import Mathlib.Analysis.Calculus.Deriv.MeanValue
import Mathlib.Analysis.Calculus.Deriv.Pow
import Mathlib.Tactic.FieldSimp
import Mathlib.Tactic.Ring
import Mathlib.Tactic.Linarith
import Mathlib.Tactic.Positivity
import Mathlib.Tactic.NormNum

namespace PolSpacingLemmas
open Real Set
noncomputable section

/-! ## rescaling helpers: every occurrence of `N`, `N_norm`, `i` in the generated text has one of these shapes -/
section hom
variable {k : ℝ}
theorem hA (hk : k ≠ 0) (a b : ℝ) : k * a / (k * b) = a / b := mul_div_mul_left _ _ hk
theorem hB (hk : k ≠ 0) (c a b : ℝ) : c * (k * a) / (k * b) = c * a / b := by
  rw [← mul_assoc, mul_comm c k, mul_assoc, mul_div_mul_left _ _ hk]
theorem hC (a b : ℝ) : k * a - k * b = k * (a - b) := (mul_sub k a b).symm
theorem hD (hk : k ≠ 0) (a b c : ℝ) : k * a / (k * b * c) = a / (b * c) := by
  rw [mul_assoc, mul_div_mul_left _ _ hk]
theorem hE (hk : k ≠ 0) (c a b : ℝ) : c * (k * b) / 2 / (k * a) = c * b / 2 / a := by
  by_cases ha : a = 0
  · subst ha; simp
  · field_simp
theorem hF (hk : k ≠ 0) (c a b : ℝ) : c * (k * b) ^ 3 / (k * a) ^ 3 = c * b ^ 3 / a ^ 3 := by
  by_cases ha : a = 0
  · subst ha; simp
  · field_simp
theorem hI (hk : k ≠ 0) (a c b : ℝ) : k * a * c / (k * b) = a * c / b := by
  rw [mul_assoc, mul_div_mul_left _ _ hk]
theorem hG (hk : 0 < k) (a b : ℝ) : (k * a > k * b) ↔ (a > b) :=
  ⟨fun h => lt_of_mul_lt_mul_left h hk.le, fun h => mul_lt_mul_of_pos_left h hk⟩
theorem hH (hk : 0 < k) (a : ℝ) : (k * a < 0) ↔ (a < 0) := by
  constructor
  · intro h; by_contra h'; exact absurd h (not_lt.mpr (mul_nonneg hk.le (not_lt.mp h')))
  · intro h; exact mul_neg_of_pos_of_neg hk h
end hom

/-! ## generic helpers -/

/-- a function that on `[0,N]` is `g (i / M)` with `g` strictly increasing on `[0, N/M]` is strictly increasing on `[0,N]` -/
theorem strictMonoOn_of_inner {F g : ℝ → ℝ} {N M : ℝ} (hM : 0 < M)
    (hFg : ∀ i ∈ Icc (0 : ℝ) N, F i = g (i / M)) (hg : StrictMonoOn g (Icc 0 (N / M))) :
    StrictMonoOn F (Icc 0 N) := by
  intro i hi j hj hij
  rw [hFg i hi, hFg j hj]
  apply hg
  · exact ⟨div_nonneg hi.1 hM.le, div_le_div_of_nonneg_right hi.2 hM.le⟩
  · exact ⟨div_nonneg hj.1 hM.le, div_le_div_of_nonneg_right hj.2 hM.le⟩
  · exact div_lt_div_of_pos_right hij hM

theorem hasDerivAt_div_const' (M i : ℝ) : HasDerivAt (fun j : ℝ => j / M) (1 / M) i := by
  simpa using (hasDerivAt_id i).div_const M

/-- chain rule for the normalised index: `d/di g(i/M) = g'(i/M)/M` -/
theorem hasDerivAt_comp_div {g : ℝ → ℝ} {M i D : ℝ} (hg : HasDerivAt g D (i / M)) :
    HasDerivAt (fun j : ℝ => g (j / M)) (D / M) i := by
  have hc : HasDerivAt (fun j : ℝ => g (j / M)) (D * (1 / M)) i :=
    HasDerivAt.comp i hg (hasDerivAt_div_const' M i)
  refine hc.congr_deriv ?_; ring

/-- derivative in the index `i` of a function that near `i` is `g (· / M)` -/
theorem hasDerivAt_of_inner {F g : ℝ → ℝ} {M i D lo hi : ℝ} (hlo : lo < i) (hhi : i < hi)
    (hFg : ∀ j, lo ≤ j → j ≤ hi → F j = g (j / M)) (hg : HasDerivAt g D (i / M)) :
    HasDerivAt F (D / M) i := by
  have hc' : HasDerivAt (fun j : ℝ => g (j / M)) (D / M) i := hasDerivAt_comp_div hg
  refine hc'.congr_of_eventuallyEq ?_
  have hmem : Ioo lo hi ∈ nhds i := Ioo_mem_nhds hlo hhi
  filter_upwards [hmem] with j hj
  exact hFg j hj.1.le hj.2.le

/-- two-sided derivative of a piecewise function at a joint `a`: `f = g` on `[c,a]`, `f = h` on `[a,b]`, both pieces
    having the same derivative `d` at `a` -/
theorem hasDerivAt_glue {f g h : ℝ → ℝ} {a b c d : ℝ} (hca : c < a) (hab : a < b)
    (hl : ∀ x, c ≤ x → x ≤ a → f x = g x) (hr : ∀ x, a ≤ x → x ≤ b → f x = h x)
    (hg : HasDerivAt g d a) (hh : HasDerivAt h d a) : HasDerivAt f d a := by
  rw [← hasDerivWithinAt_univ, ← Iic_union_Ici (a := a)]
  apply HasDerivWithinAt.union
  · refine hg.hasDerivWithinAt.congr_of_eventuallyEq ?_ (hl a hca.le le_rfl)
    filter_upwards [Icc_mem_nhdsLE hca] with x hx
    exact hl x hx.1 hx.2
  · refine hh.hasDerivWithinAt.congr_of_eventuallyEq ?_ (hr a le_rfl hab.le)
    filter_upwards [Icc_mem_nhdsGE hab] with x hx
    exact hr x hx.1 hx.2

/-- √u − √v ≥ (u − v)/(2√X) for 0 ≤ v ≤ u ≤ X -/
theorem sqrt_sub_ge (u v X : ℝ) (hv : 0 ≤ v) (hvu : v ≤ u) (huX : u ≤ X) :
    (u - v) ≤ (√u - √v) * (2 * √X) := by
  have hu : 0 ≤ u := le_trans hv hvu
  have p2 := sq_sqrt hu
  have q2 := sq_sqrt hv
  have hpq : √v ≤ √u := sqrt_le_sqrt hvu
  have hpt : √u ≤ √X := sqrt_le_sqrt huX
  have hq0 := sqrt_nonneg v
  nlinarith [mul_nonneg (sub_nonneg.mpr hpq) (sub_nonneg.mpr hpt),
    mul_nonneg (sub_nonneg.mpr hpq) (sub_nonneg.mpr (le_trans hpq hpt))]

theorem pos_of_mul_pos_right {a c : ℝ} (hc : 0 ≤ c) (h : 0 < a * c) : 0 < a := by
  by_contra hneg
  have := mul_nonpos_of_nonpos_of_nonneg (not_lt.mp hneg) hc
  linarith

/-! concrete square roots for the numerical witnesses -/
theorem sqrt_of_sq {x y : ℝ} (hy : 0 ≤ y) (h : x = y ^ 2) : √x = y := by rw [h]; exact Real.sqrt_sq hy
theorem sqrt_4 : √(4 : ℝ) = 2 := sqrt_of_sq (by norm_num) (by norm_num)
theorem sqrt_9 : √(9 : ℝ) = 3 := sqrt_of_sq (by norm_num) (by norm_num)
theorem sqrt_16 : √(16 : ℝ) = 4 := sqrt_of_sq (by norm_num) (by norm_num)
theorem sqrt_25 : √(25 : ℝ) = 5 := sqrt_of_sq (by norm_num) (by norm_num)
theorem sqrt_36 : √(36 : ℝ) = 6 := sqrt_of_sq (by norm_num) (by norm_num)
theorem sqrt_100 : √(100 : ℝ) = 10 := sqrt_of_sq (by norm_num) (by norm_num)
theorem sqrt_9_25 : √((9 : ℝ) / 25) = 3 / 5 := sqrt_of_sq (by norm_num) (by norm_num)
theorem sqrt_16_25 : √((16 : ℝ) / 25) = 4 / 5 := sqrt_of_sq (by norm_num) (by norm_num)
theorem sqrt_9_100 : √((9 : ℝ) / 100) = 3 / 10 := sqrt_of_sq (by norm_num) (by norm_num)

/-- the log identity behind `monoConcave N − length = constraint` -/
theorem log_one_sub_div (N M r : ℝ) (hN : 0 < N) (hM : 0 < M) (hr : 0 < r) :
    Real.log (1 - N / (M * (r + N / M))) = - Real.log (N / (M * r) + 1) := by
  have h1 : r + N / M ≠ 0 := by positivity
  have h2 : M * r + N ≠ 0 := by positivity
  have h : 1 - N / (M * (r + N / M)) = (N / (M * r) + 1)⁻¹ := by
    field_simp
    ring
  rw [h, Real.log_inv]

/-! ## monoConvex: cubic with quadratic gradient -/

def cvxA (dl du X L : ℝ) : ℝ := 3 * (du + dl) * (1 / X) ^ 2 - 6 * L * (1 / X) ^ 3
def cvxB (dl du X L : ℝ) : ℝ := (du - dl) * (1 / X) - cvxA dl du X L * X
/-- `sN(iN) = a/3 iN³ + b/2 iN² + c iN` -/
def cvx (dl du X L x : ℝ) : ℝ := 1 / 3 * cvxA dl du X L * x ^ 3 + 1 / 2 * cvxB dl du X L * x ^ 2 + dl * x
/-- `sprime(iN) = a iN² + b iN + c` -/
def cvx' (dl du X L x : ℝ) : ℝ := cvxA dl du X L * x ^ 2 + cvxB dl du X L * x + dl

theorem monoConvex_inner (L N M dl du i : ℝ) (h0 : 0 ≤ i) (hN : i ≤ N) :
    Gen.R.PolSpacing.monoConvex L N M dl du i = cvx dl du (N / M) L (i / M) := by
  unfold Gen.R.PolSpacing.monoConvex
  rw [if_neg (not_lt.mpr hN), if_neg (not_lt.mpr h0)]
  unfold cvx cvxB cvxA
  simp only [one_div_div]
  ring

theorem monoConvex_below (L N M dl du i : ℝ) (hN : 0 ≤ N) (h0 : i < 0) :
    Gen.R.PolSpacing.monoConvex L N M dl du i = dl * (i / M) := by
  unfold Gen.R.PolSpacing.monoConvex
  rw [if_neg (not_lt.mpr (by linarith)), if_pos h0]
  ring

theorem monoConvex_above (L N M dl du i : ℝ) (hN : N < i) :
    Gen.R.PolSpacing.monoConvex L N M dl du i = L + du * (i / M - N / M) := by
  unfold Gen.R.PolSpacing.monoConvex
  rw [if_pos hN]
  ring

theorem cvx_zero (dl du X L : ℝ) : cvx dl du X L 0 = 0 := by unfold cvx; ring
theorem cvx_end (dl du X L : ℝ) (hX : X ≠ 0) : cvx dl du X L X = L := by
  unfold cvx cvxB cvxA; field_simp; ring
theorem cvx'_zero (dl du X L : ℝ) : cvx' dl du X L 0 = dl := by unfold cvx'; ring
theorem cvx'_end (dl du X L : ℝ) (hX : X ≠ 0) : cvx' dl du X L X = du := by
  unfold cvx' cvxB cvxA; field_simp; ring

theorem cvx_hasDeriv (dl du X L x : ℝ) : HasDerivAt (cvx dl du X L) (cvx' dl du X L x) x := by
  have h3 : HasDerivAt (fun y : ℝ => 1 / 3 * cvxA dl du X L * y ^ 3) (cvxA dl du X L * x ^ 2) x := by
    have h := (hasDerivAt_pow 3 x).const_mul (1 / 3 * cvxA dl du X L)
    refine h.congr_deriv ?_
    norm_num; ring
  have h2 : HasDerivAt (fun y : ℝ => 1 / 2 * cvxB dl du X L * y ^ 2) (cvxB dl du X L * x) x := by
    have h := (hasDerivAt_pow 2 x).const_mul (1 / 2 * cvxB dl du X L)
    refine h.congr_deriv ?_
    norm_num; ring
  have h1 : HasDerivAt (fun y : ℝ => dl * y) dl x := by
    simpa using (hasDerivAt_id x).const_mul dl
  have h := (h3.fun_add h2).fun_add h1
  unfold cvx cvx'
  exact h

/-- the quadratic `sprime`, written over the common denominator `X³` -/
theorem cvx'_eq (dl du X L x : ℝ) (hX : X ≠ 0) :
    cvx' dl du X L x
      = (dl * X ^ 2 * (X - x) + du * X ^ 2 * x + 6 * (L - (du + dl) * X / 2) * (x * (X - x))) / X ^ 3 := by
  unfold cvx' cvxB cvxA; field_simp; ring

/-- `sprime > 0` on the whole of `[0, X]` in the convex branch, tolerance band (of relative width `e < 1/3`) included -/
theorem cvx'_pos (dl du X L e x : ℝ) (he : e ≤ 1 / 8) (hX : 0 < X) (hdl : 0 < dl) (hdu : 0 < du) (hL : 0 < L)
    (hguard : ¬ (L < 1 / 2 * (du + dl) * X - e * L)) (hx0 : 0 ≤ x) (hxX : x ≤ X) :
    0 < cvx' dl du X L x := by
  rw [cvx'_eq dl du X L x hX.ne']
  apply div_pos _ (by positivity)
  have hp : 0 ≤ X - x := by linarith
  have hX2 : 0 < X ^ 2 := by positivity
  have hxp : 0 ≤ x * (X - x) := mul_nonneg hx0 hp
  -- the straight-line part dl(1-t)+du t, times X³
  have hlin : 0 < dl * X ^ 2 * (X - x) + du * X ^ 2 * x := by
    rcases hx0.lt_or_eq with h | h
    · have h1 : 0 < du * X ^ 2 * x := by positivity
      have h2 : 0 ≤ dl * X ^ 2 * (X - x) := by positivity
      linarith
    · subst h
      have : 0 < dl * X ^ 2 * X := by positivity
      simpa using this
  by_cases hS : (du + dl) * X / 2 ≤ L
  · have : 0 ≤ 6 * (L - (du + dl) * X / 2) * (x * (X - x)) :=
      mul_nonneg (by linarith) hxp
    linarith
  · have hS := not_le.mp hS
    have hguard := not_lt.mp hguard
    -- S - L ≤ e L < e S ≤ S/8
    have hdef : (du + dl) * X / 2 - L ≤ 1 / 8 * ((du + dl) * X / 2) := by nlinarith
    have k1 : x * (X - x) ≤ X * x := by nlinarith
    have k2 : x * (X - x) ≤ X * (X - x) := by nlinarith
    have k3 : 6 * ((du + dl) * X / 2 - L) * (x * (X - x))
        ≤ 6 * (1 / 8 * ((du + dl) * X / 2)) * (x * (X - x)) :=
      mul_le_mul_of_nonneg_right (by linarith) hxp
    have k4 : du * X * (x * (X - x)) ≤ du * X * (X * x) :=
      mul_le_mul_of_nonneg_left k1 (by positivity)
    have k5 : dl * X * (x * (X - x)) ≤ dl * X * (X * (X - x)) :=
      mul_le_mul_of_nonneg_left k2 (by positivity)
    nlinarith [k3, k4, k5, hlin]

theorem cvx_strictMonoOn (dl du X L e : ℝ) (he : e ≤ 1 / 8) (hX : 0 < X) (hdl : 0 < dl) (hdu : 0 < du) (hL : 0 < L)
    (hguard : ¬ (L < 1 / 2 * (du + dl) * X - e * L)) : StrictMonoOn (cvx dl du X L) (Icc 0 X) := by
  apply strictMonoOn_of_deriv_pos (convex_Icc 0 X)
  · intro x _; exact (cvx_hasDeriv dl du X L x).continuousAt.continuousWithinAt
  · intro x hx
    rw [interior_Icc] at hx
    rw [(cvx_hasDeriv dl du X L x).deriv]
    exact cvx'_pos dl du X L e x he hX hdl hdu hL hguard hx.1.le hx.2.le

/-- the piecewise function (linear continuation below 0) is differentiable at index 0 with gradient `d_lower / N_norm` -/
theorem monoConvex_hasDerivAt_zero (L N M dl du : ℝ) (hN : 0 < N) :
    HasDerivAt (Gen.R.PolSpacing.monoConvex L N M dl du) (dl / M) 0 := by
  refine hasDerivAt_glue (c := -1) (b := N) (g := fun i => dl * (i / M))
    (h := fun i => cvx dl du (N / M) L (i / M)) (by norm_num) hN ?_ ?_ ?_ ?_
  · intro x _ hx
    rcases hx.lt_or_eq with h | h
    · exact monoConvex_below L N M dl du x hN.le h
    · subst h
      rw [monoConvex_inner L N M dl du 0 le_rfl hN.le]
      simp [cvx_zero]
  · intro x h0 hx
    exact monoConvex_inner L N M dl du x h0 hx
  · have h := (hasDerivAt_div_const' M 0).const_mul dl
    refine h.congr_deriv ?_; ring
  · have h := hasDerivAt_comp_div (M := M) (i := 0) (cvx_hasDeriv dl du (N / M) L (0 / M))
    rwa [zero_div, cvx'_zero] at h

/-- … and at index N (linear continuation above N) with gradient `d_upper / N_norm` -/
theorem monoConvex_hasDerivAt_N (L N M dl du : ℝ) (hN : 0 < N) (hM : 0 < M) :
    HasDerivAt (Gen.R.PolSpacing.monoConvex L N M dl du) (du / M) N := by
  have hX : N / M ≠ 0 := (div_pos hN hM).ne'
  refine hasDerivAt_glue (c := 0) (b := N + 1) (g := fun i => cvx dl du (N / M) L (i / M))
    (h := fun i => L + du * (i / M - N / M)) hN (by linarith) ?_ ?_ ?_ ?_
  · intro x h0 hx
    exact monoConvex_inner L N M dl du x h0 hx
  · intro x hx _
    rcases hx.lt_or_eq with h | h
    · exact monoConvex_above L N M dl du x h
    · subst h
      rw [monoConvex_inner L N M dl du N hN.le le_rfl, cvx_end dl du (N / M) L hX]
      ring
  · have h := hasDerivAt_comp_div (M := M) (i := N) (cvx_hasDeriv dl du (N / M) L (N / M))
    rwa [cvx'_end dl du (N / M) L hX] at h
  · have h := (((hasDerivAt_div_const' M N).sub_const (N / M)).const_mul du).const_add L
    refine h.congr_deriv ?_; ring

/-! ## sqrt term at the lower end only -/

def eL (a d X L : ℝ) : ℝ := (L - a * √X - d * X) / X ^ 2
/-- `s(iN) = a √iN + d iN + e iN²`, `a = 2 a_lower`, `d = b_lower` -/
def sL (a d X L x : ℝ) : ℝ := a * √x + d * x + eL a d X L * x ^ 2

theorem sqrtLowerOnly_inner (L N M bl al i : ℝ) (hN : i ≤ N) :
    Gen.R.PolSpacing.sqrtLowerOnly L N M bl al i = sL (2 * al) bl (N / M) L (i / M) := by
  unfold Gen.R.PolSpacing.sqrtLowerOnly
  rw [if_neg (not_lt.mpr hN)]
  unfold sL eL
  ring

theorem sL_zero (a d X L : ℝ) : sL a d X L 0 = 0 := by unfold sL; simp
theorem sL_end (a d X L : ℝ) (hX : 0 < X) : sL a d X L X = L := by
  unfold sL eL; field_simp; ring

theorem sL_hasDeriv (a d X L x : ℝ) (hx : x ≠ 0) :
    HasDerivAt (sL a d X L) (a / (2 * √x) + d + 2 * eL a d X L * x) x := by
  have h1 : HasDerivAt (fun y : ℝ => a * √y) (a * (1 / (2 * √x))) x :=
    (Real.hasDerivAt_sqrt hx).const_mul a
  have h2 : HasDerivAt (fun y : ℝ => d * y) d x := by
    simpa using (hasDerivAt_id x).const_mul d
  have h3 : HasDerivAt (fun y : ℝ => eL a d X L * y ^ 2) (eL a d X L * (2 * x)) x := by
    have h := (hasDerivAt_pow 2 x).const_mul (eL a d X L)
    refine h.congr_deriv ?_
    norm_num
  have h := (h1.fun_add h2).fun_add h3
  unfold sL
  refine h.congr_deriv ?_
  ring

/-- the three checks the code performs (`a ≥ 0`, `d ≥ 0`, `gradient at end > 0`) imply strict monotonicity -/
theorem sL_lt (a d X L : ℝ) (hX : 0 < X) (ha : 0 ≤ a) (hd : 0 ≤ d)
    (hend : 0 < a / (2 * √X) + d + 2 * eL a d X L * X)
    (x y : ℝ) (hx : 0 ≤ x) (hxy : x < y) (hy : y ≤ X) :
    sL a d X L x < sL a d X L y := by
  set e := eL a d X L with he
  have hsX : 0 < √X := sqrt_pos.mpr hX
  have key := sqrt_sub_ge y x X hx hxy.le hy
  have hdiff : sL a d X L y - sL a d X L x = a * (√y - √x) + (y - x) * (d + e * (x + y)) := by
    unfold sL; ring
  have hyx : 0 < y - x := by linarith
  have hend' : 0 < a + 2 * √X * (d + 2 * e * X) := by
    have := mul_pos hend (by positivity : (0 : ℝ) < 2 * √X)
    have e1 : (a / (2 * √X) + d + 2 * e * X) * (2 * √X) = a + 2 * √X * (d + 2 * e * X) := by
      field_simp
      ring
    linarith
  have hG : 0 < a + 2 * √X * (d + e * (x + y)) := by
    rcases lt_trichotomy e 0 with hneg | hz | hpos
    · have h1 : e * (2 * X) < e * (x + y) := mul_lt_mul_of_neg_left (by linarith) hneg
      have h2 : 0 < 2 * √X * (e * (x + y) - e * (2 * X)) := mul_pos (by positivity) (by linarith)
      nlinarith
    · rw [hz] at hend' ⊢; simpa using hend'
    · have h1 : 0 < e * (x + y) := mul_pos hpos (by linarith)
      have h2 : 0 < 2 * √X * (d + e * (x + y)) := mul_pos (by positivity) (by linarith)
      linarith
  have h1 : a * (y - x) ≤ a * ((√y - √x) * (2 * √X)) := mul_le_mul_of_nonneg_left key ha
  have hpos : 0 < (sL a d X L y - sL a d X L x) * (2 * √X) := by
    rw [hdiff]
    nlinarith [mul_pos hyx hG]
  have := pos_of_mul_pos_right (by positivity : (0 : ℝ) ≤ 2 * √X) hpos
  linarith

theorem sL_strictMonoOn (a d X L : ℝ) (hX : 0 < X) (ha : 0 ≤ a) (hd : 0 ≤ d)
    (hend : 0 < a / (2 * √X) + d + 2 * eL a d X L * X) : StrictMonoOn (sL a d X L) (Icc 0 X) := by
  intro x hx y hy hxy
  exact sL_lt a d X L hX ha hd hend x y hx.1 hxy hy.2

/-! ## sqrt term at the upper end only -/

def cU (b X : ℝ) : ℝ := b * √X
def eU (b bu X L : ℝ) : ℝ := (cU b X + bu * X - L) / X ^ 2
def dU (b bu X L : ℝ) : ℝ := bu - 2 * eU b bu X L * X
/-- `s(iN) = -b √(X - iN) + c + d iN + e iN²`, `b = 2 a_upper` -/
def sU (b bu X L x : ℝ) : ℝ := -b * √(X - x) + cU b X + dU b bu X L * x + eU b bu X L * x ^ 2

theorem sqrtUpperOnly_inner (L N M bu au i : ℝ) (h0 : 0 ≤ i) :
    Gen.R.PolSpacing.sqrtUpperOnly L N M bu au i = sU (2 * au) bu (N / M) L (i / M) := by
  unfold Gen.R.PolSpacing.sqrtUpperOnly
  rw [if_neg (not_lt.mpr h0)]
  unfold sU dU eU cU
  rw [← sub_div]
  ring

theorem sU_zero (b bu X L : ℝ) : sU b bu X L 0 = 0 := by
  unfold sU cU; simp
theorem sU_end (b bu X L : ℝ) (hX : 0 < X) : sU b bu X L X = L := by
  unfold sU dU eU cU
  simp only [sub_self, sqrt_zero, mul_zero]
  field_simp
  ring
theorem dU_end (b bu X L : ℝ) : dU b bu X L + 2 * eU b bu X L * X = bu := by unfold dU; ring

theorem sU_hasDeriv (b bu X L x : ℝ) (hx : X - x ≠ 0) :
    HasDerivAt (sU b bu X L) (b / (2 * √(X - x)) + dU b bu X L + 2 * eU b bu X L * x) x := by
  have hs : HasDerivAt (fun y : ℝ => X - y) (-1) x := by
    simpa using (hasDerivAt_id x).const_sub X
  have h1 : HasDerivAt (fun y : ℝ => -b * √(X - y)) (-b * (1 / (2 * √(X - x)) * (-1))) x :=
    ((Real.hasDerivAt_sqrt hx).comp x hs).const_mul (-b)
  have h2 : HasDerivAt (fun y : ℝ => dU b bu X L * y) (dU b bu X L) x := by
    simpa using (hasDerivAt_id x).const_mul (dU b bu X L)
  have h3 : HasDerivAt (fun y : ℝ => eU b bu X L * y ^ 2) (eU b bu X L * (2 * x)) x := by
    have h := (hasDerivAt_pow 2 x).const_mul (eU b bu X L)
    refine h.congr_deriv ?_
    norm_num
  have h := ((h1.add_const (cU b X)).fun_add h2).fun_add h3
  unfold sU
  refine h.congr_deriv ?_
  ring

/-- the three checks the code performs (`gradient at start > 0`, `b ≥ 0`, `polynomial gradient at end ≥ 0`)
    imply strict monotonicity on the whole interval -/
theorem sU_lt (b bu X L : ℝ) (hX : 0 < X)
    (hstart : 0 < b / (2 * √X) + dU b bu X L) (hb : 0 ≤ b)
    (hend : 0 ≤ dU b bu X L + 2 * eU b bu X L * X)
    (x y : ℝ) (hx : 0 ≤ x) (hxy : x < y) (hy : y ≤ X) :
    sU b bu X L x < sU b bu X L y := by
  set d := dU b bu X L with hd
  set e := eU b bu X L with he
  have hsX : 0 < √X := sqrt_pos.mpr hX
  have key := sqrt_sub_ge (X - x) (X - y) X (by linarith) (by linarith) (by linarith)
  have hsq : 0 ≤ √(X - x) - √(X - y) := sub_nonneg.mpr (sqrt_le_sqrt (by linarith))
  have hdiff : sU b bu X L y - sU b bu X L x
      = b * (√(X - x) - √(X - y)) + (y - x) * (d + e * (x + y)) := by
    unfold sU; ring
  have hyx : 0 < y - x := by linarith
  have hstart' : 0 < b + 2 * √X * d := by
    have := mul_pos hstart (by positivity : (0 : ℝ) < 2 * √X)
    have e1 : (b / (2 * √X) + d) * (2 * √X) = b + 2 * √X * d := by field_simp
    linarith
  have hpos : 0 < (sU b bu X L y - sU b bu X L x) * (2 * √X) := by
    rw [hdiff]
    by_cases hepos : 0 ≤ e
    · have h1 : b * (y - x) ≤ b * ((√(X - x) - √(X - y)) * (2 * √X)) := by
        apply mul_le_mul_of_nonneg_left _ hb
        have : X - x - (X - y) = y - x := by ring
        linarith
      have h2 : 0 ≤ e * (x + y) := mul_nonneg hepos (by linarith)
      nlinarith [mul_pos hyx hstart', mul_nonneg hyx.le (mul_nonneg h2 hsX.le)]
    · have hepos := not_le.mp hepos
      have h1 : 0 ≤ b * ((√(X - x) - √(X - y)) * (2 * √X)) :=
        mul_nonneg hb (mul_nonneg hsq (by positivity))
      have h2 : 0 < d + e * (x + y) := by nlinarith
      nlinarith [mul_pos (mul_pos hyx h2) hsX]
  have := pos_of_mul_pos_right (by positivity : (0 : ℝ) ≤ 2 * √X) hpos
  linarith

theorem sU_strictMonoOn (b bu X L : ℝ) (hX : 0 < X)
    (hstart : 0 < b / (2 * √X) + dU b bu X L) (hb : 0 ≤ b)
    (hend : 0 ≤ dU b bu X L + 2 * eU b bu X L * X) : StrictMonoOn (sU b bu X L) (Icc 0 X) := by
  intro x hx y hy hxy
  exact sU_lt b bu X L hX hstart hb hend x y hx.1 hxy hy.2

/-! ## sqrt terms at both ends -/

def cB (b X : ℝ) : ℝ := b * √X
def dB (b bl X : ℝ) : ℝ := bl - b / 2 / √X
def fB (a b bl bu X L : ℝ) : ℝ :=
  2 * (a * √X + cB b X + dB b bl X * X / 2 + bu * X / 2 - a * √X / 4 - L) * (1 / X) ^ 3
def eB (a b bl bu X L : ℝ) : ℝ :=
  (bu - a / 2 / √X - dB b bl X) * (1 / X) / 2 - 3 / 2 * fB a b bl bu X L * X
/-- `s(iN) = a √iN − b √(X − iN) + c + d iN + e iN² + f iN³`, `a = 2 a_lower`, `b = 2 a_upper` -/
def sB (a b bl bu X L x : ℝ) : ℝ :=
  a * √x - b * √(X - x) + cB b X + dB b bl X * x + eB a b bl bu X L * x ^ 2 + fB a b bl bu X L * x ^ 3

theorem sqrtBothab_inner (L N M bl al bu au i : ℝ) :
    Gen.R.PolSpacing.sqrtBothab L N M bl al bu au i = sB (2 * al) (2 * au) bl bu (N / M) L (i / M) := by
  unfold Gen.R.PolSpacing.sqrtBothab
  unfold sB eB fB dB cB
  rw [← sub_div]
  simp only [one_div_div]
  ring

/-- `sqrtBotha0` omits the `−b√(X−iN)` term (the code takes this path when `b = 2 a_upper = 0`) -/
theorem sqrtBotha0_inner (L N M bl al bu au i : ℝ) (hN : i ≤ N) :
    Gen.R.PolSpacing.sqrtBotha0 L N M bl al bu au i
      = sB (2 * al) (2 * au) bl bu (N / M) L (i / M) + 2 * au * √(N / M - i / M) := by
  unfold Gen.R.PolSpacing.sqrtBotha0
  rw [if_neg (not_lt.mpr hN)]
  unfold sB eB fB dB cB
  simp only [one_div_div]
  ring

/-- `sqrtBoth0b` omits the `a√iN` term (path taken when `a = 2 a_lower = 0`) -/
theorem sqrtBoth0b_inner (L N M bl al bu au i : ℝ) (h0 : 0 ≤ i) :
    Gen.R.PolSpacing.sqrtBoth0b L N M bl al bu au i
      = sB (2 * al) (2 * au) bl bu (N / M) L (i / M) - 2 * al * √(i / M) := by
  unfold Gen.R.PolSpacing.sqrtBoth0b
  rw [if_neg (not_lt.mpr h0)]
  unfold sB eB fB dB cB
  rw [← sub_div]
  simp only [one_div_div]
  ring

/-- `sqrtBoth00` omits both sqrt terms (path taken when both vanish) -/
theorem sqrtBoth00_inner (L N M bl al bu au i : ℝ) (h0 : 0 ≤ i) (hN : i ≤ N) :
    Gen.R.PolSpacing.sqrtBoth00 L N M bl al bu au i
      = sB (2 * al) (2 * au) bl bu (N / M) L (i / M) - 2 * al * √(i / M) + 2 * au * √(N / M - i / M) := by
  unfold Gen.R.PolSpacing.sqrtBoth00
  rw [if_neg (not_lt.mpr hN), if_neg (not_lt.mpr h0)]
  unfold sB eB fB dB cB
  simp only [one_div_div]
  ring

theorem sB_zero (a b bl bu X L : ℝ) : sB a b bl bu X L 0 = 0 := by
  unfold sB cB; simp

theorem sB_end (a b bl bu X L : ℝ) (hX : 0 < X) : sB a b bl bu X L X = L := by
  have hs : 0 < √X := sqrt_pos.mpr hX
  have hs2 : √X ^ 2 = X := sq_sqrt hX.le
  unfold sB eB fB dB cB
  simp only [sub_self, sqrt_zero, mul_zero]
  generalize √X = s at hs hs2
  subst hs2
  field_simp
  ring

/-- regular part of the gradient at the lower end is `b_lower` -/
theorem dB_start (b bl X : ℝ) : b / (2 * √X) + dB b bl X = bl := by unfold dB; ring

/-- regular part of the gradient at the upper end is `b_upper` -/
theorem sB_grad_end (a b bl bu X L : ℝ) (hX : 0 < X) :
    a / (2 * √X) + dB b bl X + 2 * eB a b bl bu X L * X + 3 * fB a b bl bu X L * X ^ 2 = bu := by
  unfold eB
  field_simp
  ring

theorem sB_hasDeriv (a b bl bu X L x : ℝ) (hx : x ≠ 0) (hXx : X - x ≠ 0) :
    HasDerivAt (sB a b bl bu X L)
      (a / (2 * √x) + b / (2 * √(X - x)) + dB b bl X + 2 * eB a b bl bu X L * x + 3 * fB a b bl bu X L * x ^ 2) x := by
  have hs : HasDerivAt (fun y : ℝ => X - y) (-1) x := by
    simpa using (hasDerivAt_id x).const_sub X
  have h0 : HasDerivAt (fun y : ℝ => a * √y) (a * (1 / (2 * √x))) x :=
    (Real.hasDerivAt_sqrt hx).const_mul a
  have h1 : HasDerivAt (fun y : ℝ => b * √(X - y)) (b * (1 / (2 * √(X - x)) * (-1))) x :=
    ((Real.hasDerivAt_sqrt hXx).comp x hs).const_mul b
  have h2 : HasDerivAt (fun y : ℝ => dB b bl X * y) (dB b bl X) x := by
    simpa using (hasDerivAt_id x).const_mul (dB b bl X)
  have h3 : HasDerivAt (fun y : ℝ => eB a b bl bu X L * y ^ 2) (eB a b bl bu X L * (2 * x)) x := by
    have h := (hasDerivAt_pow 2 x).const_mul (eB a b bl bu X L)
    refine h.congr_deriv ?_
    norm_num
  have h4 : HasDerivAt (fun y : ℝ => fB a b bl bu X L * y ^ 3) (fB a b bl bu X L * (3 * x ^ 2)) x := by
    have h := (hasDerivAt_pow 3 x).const_mul (fB a b bl bu X L)
    refine h.congr_deriv ?_
    norm_num
  have h := ((((h0.fun_sub h1).add_const (cB b X)).fun_add h2).fun_add h3).fun_add h4
  unfold sB
  refine h.congr_deriv ?_
  ring

end
end PolSpacingLemmas

/-- rewrite `F … (k*N) (k*N_norm) … (k*i)` to `F … N N_norm … i` in the unfolded generated text -/
macro "hom_tac" hk:term : tactic =>
  `(tactic| simp only [PolSpacingLemmas.hA (ne_of_gt $hk), PolSpacingLemmas.hB (ne_of_gt $hk), PolSpacingLemmas.hC,
      PolSpacingLemmas.hD (ne_of_gt $hk), PolSpacingLemmas.hE (ne_of_gt $hk), PolSpacingLemmas.hF (ne_of_gt $hk),
      PolSpacingLemmas.hI (ne_of_gt $hk), PolSpacingLemmas.hG $hk, PolSpacingLemmas.hH $hk])
