/- helper lemmas for C11 (Model/Wall.lean): the shoelace sum as a path sum over the closed polygon (reverse, rotate), python
   index arithmetic (`PyIdx`), `PsiContour.insert` (start/end index bookkeeping), the two stages of `addWallPoints` with their
   case characterisations (`LowerOut`, `UpperOut`), lengths, order-preserving embedding of the untouched points, squared distances
   along a segment -/
import HypnoModel.Model.Wall
import Mathlib.Algebra.Order.Field.Rat
import Mathlib.Tactic.Ring
import Mathlib.Tactic.Linarith
import Mathlib.Data.List.Rotate
import Mathlib.Data.List.InsertIdx
import Mathlib.Algebra.BigOperators.Intervals

namespace WallLemmas
open Intersect Wall

/-- Σ over consecutive pairs of an open path -/
def pathSum : List Pt → ℚ
  | p :: q :: r => (q.R - p.R) * (p.Z + q.Z) + pathSum (q :: r)
  | _ => 0

@[simp] theorem pathSum_nil : pathSum [] = 0 := rfl
@[simp] theorem pathSum_single (p : Pt) : pathSum [p] = 0 := rfl
theorem pathSum_cons_cons (p q : Pt) (r : List Pt) :
    pathSum (p :: q :: r) = (q.R - p.R) * (p.Z + q.Z) + pathSum (q :: r) := rfl

theorem pathSum_append (l : List Pt) (a : Pt) (m : List Pt) :
    pathSum (l ++ a :: m) = pathSum (l ++ [a]) + pathSum (a :: m) := by
  induction l with
  | nil => simp
  | cons p t ih =>
    cases t with
    | nil => cases m <;> simp [pathSum]
    | cons q r =>
      simp only [List.cons_append, pathSum_cons_cons] at ih ⊢
      rw [ih]; ring

theorem pathSum_reverse (l : List Pt) : pathSum l.reverse = - pathSum l := by
  induction l with
  | nil => simp
  | cons p t ih =>
    cases t with
    | nil => simp
    | cons q r =>
      have : (p :: q :: r).reverse = (q :: r).reverse ++ [p] := by simp
      rw [this]
      have h2 : (q :: r).reverse = r.reverse ++ [q] := by simp
      rw [h2, List.append_assoc, List.singleton_append, pathSum_append, ← h2, ih, pathSum_cons_cons]
      simp [pathSum]; ring

theorem area2From_eq (first : Pt) (l : List Pt) (h : l ≠ []) : area2From first l = pathSum (l ++ [first]) := by
  induction l with
  | nil => exact absurd rfl h
  | cons p t ih =>
    cases t with
    | nil => simp [area2From, pathSum]
    | cons q r =>
      simp only [area2From, List.cons_append, pathSum_cons_cons]
      rw [ih (by simp)]; rfl

theorem area2_eq_pathSum (w : List Pt) : area2 w = pathSum (closed w) := by
  cases w with
  | nil => rfl
  | cons p t => simp [area2, closed, area2From_eq]

theorem area2_rotate_one (w : List Pt) : area2 (w.rotate 1) = area2 w := by
  cases w with
  | nil => rfl
  | cons p t =>
    cases t with
    | nil => simp
    | cons q r =>
      rw [area2_eq_pathSum, area2_eq_pathSum]
      simp only [List.rotate_cons_succ, List.rotate_zero, closed, List.cons_append, List.take_succ_cons, List.take_zero]
      have h := pathSum_append (q :: r) p [q]
      simp only [List.cons_append] at h
      rw [List.append_assoc, List.singleton_append, h, pathSum_cons_cons p q]
      simp [pathSum]; ring

theorem area2_rotate (w : List Pt) (k : Nat) : area2 (w.rotate k) = area2 w := by
  induction k with
  | zero => simp
  | succ k ih => rw [← List.rotate_rotate, area2_rotate_one, ih]

theorem area2_reverse (w : List Pt) : area2 w.reverse = - area2 w := by
  cases w with
  | nil => simp [area2]
  | cons p t =>
    have h : (p :: t).reverse = (p :: t.reverse).rotate 1 := by simp [List.rotate_cons_succ]
    rw [h, area2_rotate_one, area2_eq_pathSum, area2_eq_pathSum]
    have h2 : closed (p :: t.reverse) = (closed (p :: t)).reverse := by simp [closed]
    rw [h2, pathSum_reverse]

/-! ### the same as a sum over indices mod n -/
def edgeTerm (p q : Pt) : ℚ := (q.R - p.R) * (p.Z + q.Z)

theorem pathSum_eq_sum (d : Pt) (l : List Pt) :
    pathSum l = ∑ i ∈ Finset.range (l.length - 1), edgeTerm (l[i]?.getD d) (l[i + 1]?.getD d) := by
  induction l with
  | nil => simp
  | cons p t ih =>
    cases t with
    | nil => simp
    | cons q r =>
      rw [pathSum_cons_cons, ih]
      simp only [List.length_cons, Nat.add_sub_cancel]
      rw [Finset.sum_range_succ' _ r.length]
      simp only [List.getElem?_cons_succ, List.getElem?_cons_zero, Option.getD_some, edgeTerm]
      rw [add_comm]

/-- the cyclic-sum form: indices mod n -/
theorem area2_eq_cyclic_sum (d : Pt) (w : List Pt) :
    area2 w = ∑ i ∈ Finset.range w.length, edgeTerm (w[i]?.getD d) (w[(i + 1) % w.length]?.getD d) := by
  cases w with
  | nil => simp [area2]
  | cons p t =>
    rw [area2_eq_pathSum, pathSum_eq_sum d]
    have hlen : (closed (p :: t)).length - 1 = (p :: t).length := by simp [closed]
    rw [hlen]
    apply Finset.sum_congr rfl
    intro i hi
    have hi' : i < t.length + 1 := by simpa using hi
    have e : closed (p :: t) = (p :: t) ++ [p] := by simp [closed]
    rw [e]
    congr 2
    · rw [List.getElem?_append_left (by simpa using hi')]
    · by_cases h : i + 1 < t.length + 1
      · rw [List.getElem?_append_left (by simpa using h)]
        simp only [List.length_cons]
        rw [Nat.mod_eq_of_lt h]
      · have : i + 1 = t.length + 1 := by omega
        simp only [List.length_cons]
        rw [this, Nat.mod_self]
        rw [List.getElem?_append_right (by simp)]
        simp

variable {P : Type}

/-- python index `i` refers to position `k` of a list of length `n` -/
def PyIdx (n : Nat) (i : Int) (k : Nat) : Prop := k < n ∧ (i = k ∨ i + n = k)

theorem pyGet_of_idx {l : List P} {i : Int} {k : Nat} (h : PyIdx l.length i k) : pyGet l i = l[k]? := by
  obtain ⟨hk, h | h⟩ := h
  · have : i.toNat = k := by omega
    simp [pyGet, this, show 0 ≤ i by omega]
  · have : (i + l.length).toNat = k := by omega
    simp [pyGet, this, show ¬ 0 ≤ i by omega, show 0 ≤ i + l.length by omega]

theorem pyGet_some_idx {l : List P} {i : Int} {a : P} (h : pyGet l i = some a) :
    ∃ k, PyIdx l.length i k ∧ l[k]? = some a := by
  unfold pyGet at h
  split at h
  · have := (List.getElem?_eq_some_iff.mp h).1
    exact ⟨i.toNat, ⟨this, Or.inl (by omega)⟩, h⟩
  · split at h
    · have := (List.getElem?_eq_some_iff.mp h).1
      exact ⟨(i + l.length).toNat, ⟨this, Or.inr (by omega)⟩, h⟩
    · cases h

theorem pySet_of_idx {l : List P} {i : Int} {k : Nat} (v : P) (h : PyIdx l.length i k) : pySet l i v = l.set k v := by
  obtain ⟨hk, h | h⟩ := h
  · have : i.toNat = k := by omega
    simp [pySet, this, show 0 ≤ i by omega]
  · have : (i + l.length).toNat = k := by omega
    simp [pySet, this, show ¬ 0 ≤ i by omega, show 0 ≤ i + l.length by omega]

theorem pySet_length (l : List P) (i : Int) (v : P) : (pySet l i v).length = l.length := by
  unfold pySet; split
  · simp
  · split <;> simp

/-- the normalised insertion index of `PsiContour.insert` -/
def normIdx (n : Nat) (index : Int) : Int := if index < 0 then (if index + n < 0 then 0 else index + n) else index
/-- where `list.insert` puts the point -/
def insPos (n : Nat) (index : Int) : Nat := (min (normIdx n index) n).toNat

theorem normIdx_nonneg (n : Nat) (i : Int) : 0 ≤ normIdx n i := by unfold normIdx; split <;> [split; skip] <;> omega
theorem insPos_le (n : Nat) (i : Int) : insPos n i ≤ n := by unfold insPos; omega
theorem insPos_eq (n : Nat) (i : Int) : (insPos n i : Int) = min (normIdx n i) n := by
  have := normIdx_nonneg n i; unfold insPos; omega

theorem insert_pts (c : Contour P) (i : Int) (p : P) : (c.insert i p).pts = c.pts.insertIdx (insPos c.pts.length i) p := rfl
theorem insert_startInd (c : Contour P) (i : Int) (p : P) :
    (c.insert i p).startInd = if normIdx c.pts.length i ≤ c.startInd then c.startInd + 1 else c.startInd := rfl
theorem insert_endInd (c : Contour P) (i : Int) (p : P) :
    (c.insert i p).endInd =
      let e1 := if normIdx c.pts.length i ≤ c.endInd then c.endInd + 1 else c.endInd
      if e1 < 0 ∧ normIdx c.pts.length i > (c.pts.length + 1) + e1 then e1 - 1 else e1 := rfl

theorem insert_pts_length (c : Contour P) (i : Int) (p : P) : (c.insert i p).pts.length = c.pts.length + 1 := by
  rw [insert_pts, List.length_insertIdx, if_pos (insPos_le _ _)]

/-- a non-negative in-range reference index that is shifted by the rule `idx ≤ r → r + 1` keeps its element -/
theorem insertIdx_shift_get (l : List P) (p : P) (i : Int) (r : Int) (h0 : 0 ≤ r) (h1 : r < l.length) :
    pyGet (l.insertIdx (insPos l.length i) p) (if normIdx l.length i ≤ r then r + 1 else r) = pyGet l r := by
  have hk := insPos_eq l.length i
  have hn := normIdx_nonneg l.length i
  have hle := insPos_le l.length i
  have hlen : (l.insertIdx (insPos l.length i) p).length = l.length + 1 := by
    rw [List.length_insertIdx, if_pos hle]
  rw [pyGet_of_idx (k := r.toNat) (l := l) ⟨by omega, Or.inl (by omega)⟩]
  split
  · rw [pyGet_of_idx (k := r.toNat + 1) ⟨by omega, Or.inl (by omega)⟩]
    rw [List.getElem?_insertIdx_of_gt (by omega)]; simp
  · rw [pyGet_of_idx (k := r.toNat) ⟨by omega, Or.inl (by omega)⟩]
    rw [List.getElem?_insertIdx_of_lt (by omega)]


def lowerStage (near : P → P → Bool) (c : Contour P) (lowerWall upperWall : Bool) (li : Int) (lp : P) (ui : Int) :
    Option (Contour P × Int × Int) :=
  if lowerWall then
    (pyGet c.pts li).bind fun a =>
      if near a lp then some ({ (c.replace li lp) with startInd := li }, li, ui)
      else (pyGet c.pts (li + 1)).bind fun b =>
        if near b lp then some ({ (c.replace (li + 1) lp) with startInd := li + 1 }, li + 1, ui)
        else some ({ (c.insert (li + 1) lp) with startInd := li + 1 }, li + 1, if upperWall ∧ 0 ≤ ui then ui + 1 else ui)
  else some (c, li, ui)

def upperStage (near : P → P → Bool) (upperWall : Bool) (up : P) (x : Contour P × Int × Int) :
    Option (Contour P × Int × Int) :=
  if upperWall then
    (pyGet x.1.pts x.2.2).bind fun a =>
      if near a up then some ({ (x.1.replace x.2.2 up) with endInd := x.2.2 }, x.2.1, x.2.2)
      else (pyGet x.1.pts (x.2.2 + 1)).bind fun b =>
        if near b up then some ({ (x.1.replace (x.2.2 + 1) up) with endInd := x.2.2 + 1 }, x.2.1, x.2.2 + 1)
        else some ({ (x.1.insert (x.2.2 + 1) up) with endInd := if 0 ≤ x.2.2 then x.2.2 + 1 else x.2.2 }, x.2.1,
                    if 0 ≤ x.2.2 then x.2.2 + 1 else x.2.2)
  else some x

theorem addWallPoints_eq (near : P → P → Bool) (c : Contour P) (lw uw : Bool) (li : Int) (lp : P) (ui : Int) (up : P) :
    addWallPoints near c lw uw li lp ui up = (lowerStage near c lw uw li lp ui).bind (upperStage near uw up) := by
  unfold addWallPoints lowerStage upperStage
  cases lw <;> cases uw
  · rfl
  · rfl
  · simp only [if_true, Bool.false_eq_true, if_false, bind, pure]
    cases pyGet c.pts li with
    | none => rfl
    | some a =>
      simp only [Option.bind]
      split
      · rfl
      · cases pyGet c.pts (li + 1) with
        | none => rfl
        | some b =>
          simp only []
          split <;> simp
  · simp only [if_true, bind, pure]
    cases pyGet c.pts li with
    | none => rfl
    | some a =>
      simp only [Option.bind]
      split
      · rfl
      · cases pyGet c.pts (li + 1) with
        | none => rfl
        | some b =>
          simp only []
          split
          · rfl
          · simp
  

/-! ### end index of `insert` -/
theorem insert_end_nonneg (c : Contour P) (i : Int) (p : P) (h0 : 0 ≤ c.endInd) (h1 : c.endInd < c.pts.length) :
    pyGet (c.insert i p).pts (c.insert i p).endInd = pyGet c.pts c.endInd := by
  have hn := normIdx_nonneg c.pts.length i
  rw [insert_pts, insert_endInd]
  have : ∀ e1 : Int, 0 ≤ e1 → (if e1 < 0 ∧ normIdx c.pts.length i > (c.pts.length + 1) + e1 then e1 - 1 else e1) = e1 := by
    intro e1 h; rw [if_neg (by omega)]
  simp only []
  rw [this _ (by split <;> omega)]
  exact insertIdx_shift_get c.pts p i c.endInd h0 h1

theorem insert_end_neg_kept (c : Contour P) (i : Int) (p : P) (h0 : -(c.pts.length : Int) ≤ c.endInd) (h1 : c.endInd < 0)
    (hne : normIdx c.pts.length i ≠ c.pts.length + 1 + c.endInd) :
    pyGet (c.insert i p).pts (c.insert i p).endInd = pyGet c.pts c.endInd := by
  have hn := normIdx_nonneg c.pts.length i
  have hk := insPos_eq c.pts.length i
  have hlen := insert_pts_length c i p
  rw [insert_pts] at hlen ⊢
  rw [insert_endInd]
  simp only []
  rw [if_neg (show ¬ normIdx c.pts.length i ≤ c.endInd by omega)]
  rw [pyGet_of_idx (l := c.pts) (k := (c.endInd + c.pts.length).toNat) ⟨by omega, Or.inr (by omega)⟩]
  split
  · rw [pyGet_of_idx (k := (c.endInd + c.pts.length).toNat) ⟨by omega, Or.inr (by omega)⟩]
    rw [List.getElem?_insertIdx_of_lt (by omega)]
  · rw [pyGet_of_idx (k := (c.endInd + c.pts.length).toNat + 1) ⟨by omega, Or.inr (by omega)⟩]
    rw [List.getElem?_insertIdx_of_gt (by omega)]; simp

theorem insert_end_neg_hit (c : Contour P) (i : Int) (p : P) (h1 : c.endInd < 0)
    (he : normIdx c.pts.length i = c.pts.length + 1 + c.endInd) :
    (c.insert i p).endInd = c.endInd ∧ pyGet (c.insert i p).pts (c.insert i p).endInd = some p := by
  have hk := insPos_eq c.pts.length i
  have hlen := insert_pts_length c i p
  have hle := insPos_le c.pts.length i
  have hend : (c.insert i p).endInd = c.endInd := by
    rw [insert_endInd]; simp only []
    rw [if_neg (show ¬ normIdx c.pts.length i ≤ c.endInd by omega), if_neg (by omega)]
  refine ⟨hend, ?_⟩
  rw [hend]
  rw [insert_pts] at hlen ⊢
  rw [pyGet_of_idx (k := insPos c.pts.length i) ⟨by omega, Or.inr (by omega)⟩]
  rw [List.getElem?_insertIdx_self, if_pos hle]

theorem insert_new_at_pos (c : Contour P) (i : Int) (p : P) :
    (c.insert i p).pts[insPos c.pts.length i]? = some p := by
  rw [insert_pts, List.getElem?_insertIdx_self, if_pos (insPos_le _ _)]

/-! ### the two stages of `addWallPoints`, characterised -/

/-- the three possible outcomes of the lower-wall stage (for `0 ≤ li`) -/
inductive LowerOut (near : P → P → Bool) (c : Contour P) (uw : Bool) (li : Int) (lp : P) (ui : Int) :
    Contour P × Int × Int → Prop
  | first (k : Nat) (a : P) : li = k → c.pts[k]? = some a → near a lp = true →
      LowerOut near c uw li lp ui (⟨c.pts.set k lp, li, c.endInd⟩, li, ui)
  | second (k : Nat) (a b : P) : li = k → c.pts[k]? = some a → near a lp = false → c.pts[k + 1]? = some b → near b lp = true →
      LowerOut near c uw li lp ui (⟨c.pts.set (k + 1) lp, li + 1, c.endInd⟩, li + 1, ui)
  | ins (k : Nat) (a b : P) : li = k → c.pts[k]? = some a → near a lp = false → c.pts[k + 1]? = some b → near b lp = false →
      LowerOut near c uw li lp ui (⟨c.pts.insertIdx (k + 1) lp, li + 1, (c.insert (li + 1) lp).endInd⟩, li + 1,
        if uw = true ∧ 0 ≤ ui then ui + 1 else ui)

theorem lowerStage_spec (near : P → P → Bool) (c : Contour P) (uw : Bool) (li : Int) (lp : P) (ui : Int)
    (x : Contour P × Int × Int) (hli : 0 ≤ li) (h : lowerStage near c true uw li lp ui = some x) :
    LowerOut near c uw li lp ui x := by
  simp only [lowerStage, if_true] at h
  cases ha : pyGet c.pts li with
  | none => rw [ha] at h; cases h
  | some a =>
    rw [ha] at h
    simp only [Option.bind] at h
    obtain ⟨k, hk, hka⟩ := pyGet_some_idx ha
    have hkl : li = (k : Int) := by obtain ⟨h1, h2 | h2⟩ := hk <;> omega
    by_cases hn : near a lp = true
    · rw [if_pos hn] at h
      cases h
      have := pySet_of_idx lp hk
      simp only [Contour.replace, this]
      exact LowerOut.first k a hkl hka hn
    · rw [if_neg hn] at h
      cases hb : pyGet c.pts (li + 1) with
      | none => rw [hb] at h; cases h
      | some b =>
        rw [hb] at h
        simp only [] at h
        obtain ⟨k', hk', hkb⟩ := pyGet_some_idx hb
        have hkl' : k' = k + 1 := by obtain ⟨h1, h2 | h2⟩ := hk' <;> omega
        subst hkl'
        by_cases hn' : near b lp = true
        · rw [if_pos hn'] at h
          cases h
          have := pySet_of_idx lp hk'
          simp only [Contour.replace, this]
          exact LowerOut.second k a b hkl hka (by simpa using hn) hkb hn'
        · rw [if_neg hn'] at h
          cases h
          have hpos : insPos c.pts.length (li + 1) = k + 1 := by
            have := hk'.1
            unfold insPos normIdx; rw [if_neg (by omega)]; omega
          rw [insert_pts, hpos]
          exact LowerOut.ins k a b hkl hka (by simpa using hn) hkb (by simpa using hn')

/-- the three possible outcomes of the upper-wall stage -/
inductive UpperOut (near : P → P → Bool) (up : P) (c : Contour P) (li ui : Int) : Contour P × Int × Int → Prop
  | first (k : Nat) (a : P) : PyIdx c.pts.length ui k → c.pts[k]? = some a → near a up = true →
      UpperOut near up c li ui (⟨c.pts.set k up, c.startInd, ui⟩, li, ui)
  | second (k0 k : Nat) (a b : P) : PyIdx c.pts.length ui k0 → c.pts[k0]? = some a → near a up = false →
      PyIdx c.pts.length (ui + 1) k → c.pts[k]? = some b → near b up = true →
      UpperOut near up c li ui (⟨c.pts.set k up, c.startInd, ui + 1⟩, li, ui + 1)
  | ins (k0 k : Nat) (a b : P) : PyIdx c.pts.length ui k0 → c.pts[k0]? = some a → near a up = false →
      PyIdx c.pts.length (ui + 1) k → c.pts[k]? = some b → near b up = false →
      UpperOut near up c li ui (⟨(c.insert (ui + 1) up).pts, (c.insert (ui + 1) up).startInd, if 0 ≤ ui then ui + 1 else ui⟩, li,
        if 0 ≤ ui then ui + 1 else ui)

theorem upperStage_spec (near : P → P → Bool) (up : P) (c : Contour P) (li ui : Int)
    (x : Contour P × Int × Int) (h : upperStage near true up (c, li, ui) = some x) :
    UpperOut near up c li ui x := by
  simp only [upperStage, if_true] at h
  cases ha : pyGet c.pts ui with
  | none => rw [ha] at h; cases h
  | some a =>
    rw [ha] at h
    simp only [Option.bind] at h
    obtain ⟨k, hk, hka⟩ := pyGet_some_idx ha
    by_cases hn : near a up = true
    · rw [if_pos hn] at h
      cases h
      have := pySet_of_idx up hk
      simp only [Contour.replace, this]
      exact UpperOut.first k a hk hka hn
    · rw [if_neg hn] at h
      cases hb : pyGet c.pts (ui + 1) with
      | none => rw [hb] at h; cases h
      | some b =>
        rw [hb] at h
        simp only [] at h
        obtain ⟨k', hk', hkb⟩ := pyGet_some_idx hb
        by_cases hn' : near b up = true
        · rw [if_pos hn'] at h
          cases h
          have := pySet_of_idx up hk'
          simp only [Contour.replace, this]
          exact UpperOut.second k k' a b hk hka (by simpa using hn) hk' hkb hn'
        · rw [if_neg hn'] at h
          cases h
          exact UpperOut.ins k k' a b hk hka (by simpa using hn) hk' hkb (by simpa using hn')

/-! ### consequences for the start and end indices -/

theorem lowerOut_start {near : P → P → Bool} {c : Contour P} {uw : Bool} {li : Int} {lp : P} {ui : Int}
    {x : Contour P × Int × Int} (h : LowerOut near c uw li lp ui x) :
    x.1.startInd = x.2.1 ∧ 0 ≤ x.1.startInd ∧ x.1.startInd < x.1.pts.length ∧ x.1.pts[x.1.startInd.toNat]? = some lp := by
  cases h with
  | first k a hk ha hn =>
    have hlt := (List.getElem?_eq_some_iff.mp ha).1
    refine ⟨rfl, by simp only []; omega, by simp only [List.length_set]; omega, ?_⟩
    simp only []
    rw [show li.toNat = k by omega, List.getElem?_set, if_pos rfl, if_pos hlt]
  | second k a b hk ha hn hb hn' =>
    have hlt := (List.getElem?_eq_some_iff.mp hb).1
    refine ⟨rfl, by simp only []; omega, by simp only [List.length_set]; omega, ?_⟩
    simp only []
    rw [show (li + 1).toNat = k + 1 by omega, List.getElem?_set, if_pos rfl, if_pos hlt]
  | ins k a b hk ha hn hb hn' =>
    have hlt := (List.getElem?_eq_some_iff.mp hb).1
    refine ⟨rfl, by simp only []; omega, ?_, ?_⟩
    · simp only [List.length_insertIdx]; rw [if_pos (by omega)]; omega
    · simp only []
      rw [show (li + 1).toNat = k + 1 by omega, List.getElem?_insertIdx_self, if_pos (by omega)]

/-- the upper stage leaves the end index at `up`, except when a point is inserted with `ui = -1` -/
theorem upperOut_end {near : P → P → Bool} {up : P} {c : Contour P} {li ui : Int}
    {x : Contour P × Int × Int} (h : UpperOut near up c li ui x) (hui : ui ≠ -1) :
    x.1.endInd = x.2.2 ∧ pyGet x.1.pts x.1.endInd = some up := by
  cases h with
  | first k a hk ha hn =>
    refine ⟨rfl, ?_⟩
    simp only []
    rw [pyGet_of_idx (k := k) (by simpa using hk), List.getElem?_set, if_pos rfl, if_pos hk.1]
  | second k0 k a b hk0 ha hn hk hb hn' =>
    refine ⟨rfl, ?_⟩
    simp only []
    rw [pyGet_of_idx (k := k) (by simpa using hk), List.getElem?_set, if_pos rfl, if_pos hk.1]
  | ins k0 k a b hk0 ha hn hk hb hn' =>
    refine ⟨rfl, ?_⟩
    simp only []
    have hlen := insert_pts_length c (ui + 1) up
    have hle := insPos_le c.pts.length (ui + 1)
    have hpos : (insPos c.pts.length (ui + 1) : Int) = if 0 ≤ ui then ui + 1 else ui + 1 + c.pts.length := by
      obtain ⟨h1, h2⟩ := hk0
      obtain ⟨h3, h4⟩ := hk
      rw [insPos_eq]; unfold normIdx
      split <;> split <;> omega
    rw [pyGet_of_idx (k := insPos c.pts.length (ui + 1)) ⟨by omega, by split at hpos <;> [left; right] <;> omega⟩]
    exact insert_new_at_pos c (ui + 1) up

/-- with `ui = -1` and an insertion, python's `ui + 1 = 0` puts the point at the FRONT and endInd = -1 still refers to the old last
    point -/
theorem upperOut_end_neg_one {near : P → P → Bool} {up : P} {c : Contour P} {li : Int} {a b : P}
    (ha : pyGet c.pts (-1) = some a) (hb : pyGet c.pts 0 = some b) (hna : near a up = false) (hnb : near b up = false) :
    ∃ x, upperStage near true up (c, li, -1) = some x ∧ x.1.pts = up :: c.pts ∧ x.1.endInd = -1 ∧
      pyGet x.1.pts x.1.endInd = some a := by
  have hpos : insPos c.pts.length 0 = 0 := by unfold insPos normIdx; simp
  refine ⟨(⟨(c.insert 0 up).pts, (c.insert 0 up).startInd, -1⟩, li, -1), ?_, ?_, rfl, ?_⟩
  · simp only [upperStage, if_true, ha, Option.bind, hna]
    simp [hb, hnb]
  · simp only []
    show (c.insert 0 up).pts = _
    rw [insert_pts, hpos]; cases h : c.pts <;> simp
  · simp only []
    show pyGet (c.insert 0 up).pts (-1) = some a
    rw [insert_pts, hpos]
    obtain ⟨k, hk, hka⟩ := pyGet_some_idx ha
    have h1 := hk.1
    have h2 : (k : Int) = -1 + c.pts.length := by obtain ⟨_, h | h⟩ := hk <;> omega
    have hlen : (c.pts.insertIdx 0 up).length = c.pts.length + 1 := by rw [List.length_insertIdx, if_pos (by omega)]
    rw [pyGet_of_idx (k := k + 1) ⟨by omega, Or.inr (by omega)⟩, List.getElem?_insertIdx_of_gt (by omega)]
    simpa using hka

/-- the upper stage keeps the start point unless it REPLACES it: no point of the upper segment that is near `up` may be the start
    point -/
theorem upperOut_start {near : P → P → Bool} {up : P} {c : Contour P} {li ui : Int}
    {x : Contour P × Int × Int} (h : UpperOut near up c li ui x) (h0 : 0 ≤ c.startInd) (h1 : c.startInd < c.pts.length)
    (hsep : ∀ k a, (PyIdx c.pts.length ui k ∨ PyIdx c.pts.length (ui + 1) k) → c.pts[k]? = some a → near a up = true →
      c.startInd ≠ k) :
    pyGet x.1.pts x.1.startInd = pyGet c.pts c.startInd := by
  cases h with
  | first k a hk ha hn =>
    have := hsep k a (Or.inl hk) ha hn
    simp only []
    rw [pyGet_of_idx (k := c.startInd.toNat) ⟨by simp only [List.length_set]; omega, Or.inl (by omega)⟩,
      pyGet_of_idx (k := c.startInd.toNat) ⟨by omega, Or.inl (by omega)⟩, List.getElem?_set, if_neg (by omega)]
  | second k0 k a b hk0 ha hn hk hb hn' =>
    have := hsep k b (Or.inr hk) hb hn'
    simp only []
    rw [pyGet_of_idx (k := c.startInd.toNat) ⟨by simp only [List.length_set]; omega, Or.inl (by omega)⟩,
      pyGet_of_idx (k := c.startInd.toNat) ⟨by omega, Or.inl (by omega)⟩, List.getElem?_set, if_neg (by omega)]
  | ins k0 k a b hk0 ha hn hk hb hn' =>
    simp only []
    rw [insert_pts, insert_startInd]
    exact insertIdx_shift_get c.pts up (ui + 1) c.startInd h0 h1

/-- index separation: if the upper segment starts at least two points after the lower one, the start point is not an end of the upper
    segment after the lower stage -/
theorem lowerOut_sep {near : P → P → Bool} {c : Contour P} {li : Int} {lp : P} {ui : Int}
    {x : Contour P × Int × Int} (h : LowerOut near c true li lp ui x) {U : Nat} (hU : PyIdx c.pts.length ui U) (hsep : li + 2 ≤ U)
    (hui : ui ≠ -1) (k : Nat) (hk : PyIdx x.1.pts.length x.2.2 k ∨ PyIdx x.1.pts.length (x.2.2 + 1) k) : x.1.startInd ≠ k := by
  obtain ⟨hU1, hU2⟩ := hU
  cases h with
  | first k' a hk' ha hn =>
    simp only [PyIdx, List.length_set] at hk ⊢
    rcases hk with ⟨h1, h2⟩ | ⟨h1, h2⟩ <;> omega
  | second k' a b hk' ha hn hb hn' =>
    simp only [PyIdx, List.length_set] at hk ⊢
    rcases hk with ⟨h1, h2⟩ | ⟨h1, h2⟩ <;> omega
  | ins k' a b hk' ha hn hb hn' =>
    have hlt := (List.getElem?_eq_some_iff.mp hb).1
    simp only [PyIdx, List.length_insertIdx, true_and] at hk ⊢
    rw [if_pos (by omega)] at hk
    by_cases hu : 0 ≤ ui
    · rw [if_pos hu] at hk
      rcases hk with ⟨h1, h2⟩ | ⟨h1, h2⟩ <;> omega
    · rw [if_neg hu] at hk
      rcases hk with ⟨h1, h2⟩ | ⟨h1, h2⟩ <;> omega

/-! ### lengths -/
/-- neither end of the segment `i, i+1` is near `p`: the stage inserts a new point -/
def insertsAt (near : P → P → Bool) (l : List P) (i : Int) (p : P) : Bool :=
  match pyGet l i, pyGet l (i + 1) with
  | some a, some b => !near a p && !near b p
  | _, _ => false

theorem lowerStage_length {near : P → P → Bool} {c : Contour P} {lw uw : Bool} {li : Int} {lp : P} {ui : Int}
    {x : Contour P × Int × Int} (h : lowerStage near c lw uw li lp ui = some x) :
    x.1.pts.length = c.pts.length + (if (lw && insertsAt near c.pts li lp) = true then 1 else 0) := by
  cases lw with
  | false => simp only [lowerStage, Bool.false_eq_true, if_false] at h; cases h; simp
  | true =>
    simp only [lowerStage, if_true] at h
    cases ha : pyGet c.pts li with
    | none => rw [ha] at h; cases h
    | some a =>
      rw [ha] at h
      simp only [Option.bind] at h
      by_cases hn : near a lp = true
      · rw [if_pos hn] at h; cases h
        cases hb : pyGet c.pts (li + 1) <;> simp [insertsAt, ha, hb, hn, Contour.replace, pySet_length]
      · rw [if_neg hn] at h
        cases hb : pyGet c.pts (li + 1) with
        | none => rw [hb] at h; cases h
        | some b =>
          rw [hb] at h
          simp only [] at h
          by_cases hn' : near b lp = true
          · rw [if_pos hn'] at h; cases h
            simp [insertsAt, ha, hb, hn', Contour.replace, pySet_length]
          · rw [if_neg hn'] at h; cases h
            simp [insertsAt, ha, hb, hn, hn', insert_pts_length]

theorem upperStage_length {near : P → P → Bool} {c : Contour P} {uw : Bool} {li : Int} {up : P} {ui : Int}
    {x : Contour P × Int × Int} (h : upperStage near uw up (c, li, ui) = some x) :
    x.1.pts.length = c.pts.length + (if (uw && insertsAt near c.pts ui up) = true then 1 else 0) := by
  cases uw with
  | false => simp only [upperStage, Bool.false_eq_true, if_false] at h; cases h; simp
  | true =>
    simp only [upperStage, if_true] at h
    cases ha : pyGet c.pts ui with
    | none => rw [ha] at h; cases h
    | some a =>
      rw [ha] at h
      simp only [Option.bind] at h
      by_cases hn : near a up = true
      · rw [if_pos hn] at h; cases h
        cases hb : pyGet c.pts (ui + 1) <;> simp [insertsAt, ha, hb, hn, Contour.replace, pySet_length]
      · rw [if_neg hn] at h
        cases hb : pyGet c.pts (ui + 1) with
        | none => rw [hb] at h; cases h
        | some b =>
          rw [hb] at h
          simp only [] at h
          by_cases hn' : near b up = true
          · rw [if_pos hn'] at h; cases h
            simp [insertsAt, ha, hb, hn', Contour.replace, pySet_length]
          · rw [if_neg hn'] at h; cases h
            simp [insertsAt, ha, hb, hn, hn', insert_pts_length]

/-! ### the other points are kept, in order -/
/-- `l'` contains the points of `l` in the same order, except those at the positions `E`; `#E` + growth ≤ `m` -/
def Embeds (l l' : List P) (m : Nat) : Prop :=
  ∃ (f g : ℕ → ℕ) (E : List ℕ), (∀ i j, i < j → f i < f j) ∧ (∀ i, g (f i) = i) ∧ E.length + l'.length ≤ l.length + m ∧
    ∀ i, i ∉ E → l'[f i]? = l[i]?

theorem Embeds.refl (l : List P) (m : Nat) : Embeds l l m :=
  ⟨id, id, [], fun _ _ h => h, fun _ => rfl, by simp, fun _ _ => rfl⟩

theorem Embeds.set (l : List P) (k : Nat) (v : P) : Embeds l (l.set k v) 1 :=
  ⟨id, id, [k], fun _ _ h => h, fun _ => rfl, by simp; omega, fun i hi => by
    simp only [List.mem_singleton] at hi
    simp only [id, List.getElem?_set]; rw [if_neg (fun h => hi h.symm)]⟩

theorem Embeds.pySet (l : List P) (i : Int) (v : P) : Embeds l (pySet l i v) 1 := by
  unfold Wall.pySet
  split
  · exact Embeds.set _ _ _
  · split
    · exact Embeds.set _ _ _
    · exact Embeds.refl _ _

theorem Embeds.insertIdx (l : List P) (k : Nat) (v : P) (hk : k ≤ l.length) : Embeds l (l.insertIdx k v) 1 := by
  refine ⟨fun i => if i < k then i else i + 1, fun j => if j ≤ k then j else j - 1, [], ?_, ?_, ?_, ?_⟩
  · intro i j h; simp only []; split <;> split <;> omega
  · intro i; simp only []; split
    · rw [if_pos (by omega)]
    · rw [if_neg (by omega)]; omega
  · rw [List.length_insertIdx, if_pos hk]; simp
  · intro i _
    simp only []
    split
    · rw [List.getElem?_insertIdx_of_lt (by assumption)]
    · rw [List.getElem?_insertIdx_of_gt (by omega)]; simp

theorem Embeds.trans {l l1 l2 : List P} {m1 m2 : Nat} (h1 : Embeds l l1 m1) (h2 : Embeds l1 l2 m2) : Embeds l l2 (m1 + m2) := by
  obtain ⟨f1, g1, E1, hf1, hg1, hl1, he1⟩ := h1
  obtain ⟨f2, g2, E2, hf2, hg2, hl2, he2⟩ := h2
  refine ⟨f2 ∘ f1, g1 ∘ g2, E1 ++ E2.map g1, ?_, ?_, ?_, ?_⟩
  · intro i j h; exact hf2 _ _ (hf1 _ _ h)
  · intro i; simp only [Function.comp]; rw [hg2, hg1]
  · simp only [List.length_append, List.length_map]; omega
  · intro i hi
    simp only [List.mem_append, List.mem_map, not_or, not_exists, not_and] at hi
    simp only [Function.comp]
    rw [he2 (f1 i) (fun hmem => hi.2 _ hmem (hg1 i)), he1 i hi.1]

theorem lowerStage_embeds {near : P → P → Bool} {c : Contour P} {lw uw : Bool} {li : Int} {lp : P} {ui : Int}
    {x : Contour P × Int × Int} (h : lowerStage near c lw uw li lp ui = some x) : Embeds c.pts x.1.pts 1 := by
  cases lw with
  | false => simp only [lowerStage, Bool.false_eq_true, if_false] at h; cases h; exact Embeds.refl _ _
  | true =>
    simp only [lowerStage, if_true] at h
    cases ha : pyGet c.pts li with
    | none => rw [ha] at h; cases h
    | some a =>
      rw [ha] at h
      simp only [Option.bind] at h
      split at h
      · cases h; exact Embeds.pySet _ _ _
      · cases hb : pyGet c.pts (li + 1) with
        | none => rw [hb] at h; cases h
        | some b =>
          rw [hb] at h
          simp only [] at h
          split at h
          · cases h; exact Embeds.pySet _ _ _
          · cases h; exact Embeds.insertIdx _ _ _ (insPos_le _ _)

theorem upperStage_embeds {near : P → P → Bool} {c : Contour P} {uw : Bool} {li : Int} {up : P} {ui : Int}
    {x : Contour P × Int × Int} (h : upperStage near uw up (c, li, ui) = some x) : Embeds c.pts x.1.pts 1 := by
  cases uw with
  | false => simp only [upperStage, Bool.false_eq_true, if_false] at h; cases h; exact Embeds.refl _ _
  | true =>
    simp only [upperStage, if_true] at h
    cases ha : pyGet c.pts ui with
    | none => rw [ha] at h; cases h
    | some a =>
      rw [ha] at h
      simp only [Option.bind] at h
      split at h
      · cases h; exact Embeds.pySet _ _ _
      · cases hb : pyGet c.pts (ui + 1) with
        | none => rw [hb] at h; cases h
        | some b =>
          rw [hb] at h
          simp only [] at h
          split at h
          · cases h; exact Embeds.pySet _ _ _
          · cases h; exact Embeds.insertIdx _ _ _ (insPos_le _ _)

/-! ### squared distances along a segment -/
theorem dist2_pos {p q : Pt} (h : p ≠ q) : 0 < dist2 p q := by
  unfold dist2
  have hne : p.R - q.R ≠ 0 ∨ p.Z - q.Z ≠ 0 := by
    by_contra hc
    simp only [not_or, not_not] at hc
    apply h
    cases p; cases q
    simp only [Pt.mk.injEq]
    constructor <;> linarith [hc.1, hc.2]
  rcases hne with h1 | h1
  · have := mul_self_pos.mpr h1
    nlinarith [mul_self_nonneg (p.Z - q.Z)]
  · have := mul_self_pos.mpr h1
    nlinarith [mul_self_nonneg (p.R - q.R)]

theorem dist2_segment_left (p1 p2 pi : Pt) (t : ℚ) (hR : pi.R = p1.R + t * (p2.R - p1.R)) (hZ : pi.Z = p1.Z + t * (p2.Z - p1.Z)) :
    dist2 p1 pi = t ^ 2 * dist2 p1 p2 := by
  unfold dist2; rw [hR, hZ]; ring

theorem dist2_segment_right (p1 p2 pi : Pt) (t : ℚ) (hR : pi.R = p1.R + t * (p2.R - p1.R)) (hZ : pi.Z = p1.Z + t * (p2.Z - p1.Z)) :
    dist2 p2 pi = (1 - t) ^ 2 * dist2 p1 p2 := by
  unfold dist2; rw [hR, hZ]; ring

end WallLemmas
