/- helper lemmas for C01: `absv`, `newtonLoop`, `List.mapM` in `Option`, `tangents`, the end-point restoration of `getRefined`,
   `runFlag`, and the sub-sampling (`evens`, `odds`, `pick`, `sample`) and corner substitution (`set2`) of `fillRZ`
   (HypnoModel/Model/Refine.lean).  Auxiliary definitions: `get2` (entry of a list of lists), `restore`, `Rect`, `pinPos`. -/
import HypnoModel.Model.Refine
import Mathlib.Algebra.Order.Ring.Abs
import Mathlib.Algebra.Order.Field.Basic
import Mathlib.Data.Real.Basic
import Mathlib.Tactic.Linarith
import Mathlib.Tactic.NormNum

namespace Refine

/-! ### absv -/
section absv
variable {α : Type} [Field α] [LinearOrder α] [IsStrictOrderedRing α]

/-- the code's `abs` is the absolute value -/
theorem absv_eq_abs (x : α) : absv x = |x| := by
  unfold absv
  split_ifs with h
  · exact (abs_of_neg h).symm
  · exact (abs_of_nonneg (not_lt.mp h)).symm

theorem absv_real (x : ℝ) : absv x = |x| := absv_eq_abs x

end absv

/-! ### the Newton loop -/
section newton
variable {α : Type} [Sub α] [Div α] [Neg α] [Zero α] [LT α] [DecidableLT α]

theorem newtonLoop_zero (f dfds : α → α) (atol : α) (count : Nat) (s fprev : α) :
    newtonLoop f dfds atol 0 count s fprev = none := rfl

theorem newtonLoop_succ (f dfds : α → α) (atol : α) (fuel count : Nat) (s fprev : α) :
    newtonLoop f dfds atol (fuel + 1) count s fprev =
      if absv (f (s - fprev / dfds s)) < atol then some (s - fprev / dfds s)
      else if absv fprev < absv (f (s - fprev / dfds s)) ∨ 10 < count then none
      else newtonLoop f dfds atol fuel (count + 1) (s - fprev / dfds s) (f (s - fprev / dfds s)) := rfl

/-- the loop can only return a point at which the convergence test `|f s'| < atol` (in the code's `abs`) held -/
theorem newtonLoop_some_absv (f dfds : α → α) (atol : α) :
    ∀ (fuel count : Nat) (s fprev s' : α),
      newtonLoop f dfds atol fuel count s fprev = some s' → absv (f s') < atol := by
  intro fuel
  induction fuel with
  | zero => intro count s fprev s' h; simp [newtonLoop_zero] at h
  | succ n ih =>
    intro count s fprev s' h
    rw [newtonLoop_succ] at h
    split_ifs at h with h1 h2
    · cases h; exact h1
    · exact ih _ _ _ _ h

/-- once the remaining fuel covers the iterations the counter still allows (`12 - count`), extra fuel changes nothing:
    the loop leaves through its own `count > 10` test, never through the `fuel = 0` branch -/
theorem newtonLoop_fuel_add (f dfds : α → α) (atol : α) (k : Nat) :
    ∀ (fuel count : Nat) (s fprev : α), 1 ≤ fuel → 12 ≤ fuel + count →
      newtonLoop f dfds atol (fuel + k) count s fprev = newtonLoop f dfds atol fuel count s fprev := by
  intro fuel
  induction fuel with
  | zero => intro count s fprev h1; omega
  | succ n ih =>
    intro count s fprev _ h12
    rw [show n + 1 + k = (n + k) + 1 by omega, newtonLoop_succ, newtonLoop_succ]
    split_ifs with h1 h2
    · rfl
    · rfl
    · have hc : ¬ 10 < count := fun hc => h2 (Or.inr hc)
      exact ih _ _ _ (by omega) (by omega)

end newton

/-! ### `List.mapM` in `Option` -/

theorem mapM_option_some {A B : Type} (f : A → Option B) :
    ∀ (l : List A) (r : List B), l.mapM f = some r →
      r.length = l.length ∧ ∀ (i : Nat) (y : B), r[i]? = some y → ∃ x, l[i]? = some x ∧ f x = some y := by
  intro l
  induction l with
  | nil =>
    intro r h
    simp at h
    subst h
    simp
  | cons a l ih =>
    intro r h
    rw [List.mapM_cons] at h
    cases hfa : f a with
    | none => simp [hfa] at h
    | some b =>
      cases hl : l.mapM f with
      | none => simp [hfa, hl] at h
      | some bs =>
        simp [hfa, hl] at h
        subst h
        obtain ⟨hlen, hget⟩ := ih bs hl
        refine ⟨by simp [hlen], ?_⟩
        intro i y hy
        cases i with
        | zero => simp at hy; subst hy; exact ⟨a, by simp, hfa⟩
        | succ i => simpa using hget i y (by simpa using hy)

/-! ### tangents -/
section tangents
variable {P : Type} [Sub P]

theorem mid_length : ∀ (a b : P) (l : List P), (tangents.mid a b l).length = l.length + 1
  | _, _, [] => rfl
  | a, b, c :: r => by simp [tangents.mid, mid_length b c r]

/-- a list of n ≥ 2 points gets n tangents -/
theorem tangents_length_eq : ∀ (pts : List P), 2 ≤ pts.length → (tangents pts).length = pts.length
  | [], h => by simp at h
  | [_], h => by simp at h
  | p0 :: p1 :: rest, _ => by simp [tangents, mid_length]

/-- interior entries of `mid a b l` (= tangents 1 … of `a :: b :: l`): centred difference -/
theorem mid_getElem_lt : ∀ (a b : P) (l : List P) (k : Nat) (x y : P),
    (a :: b :: l)[k]? = some x → l[k]? = some y → (tangents.mid a b l)[k]? = some (y - x)
  | _, _, [], k, _, _, _, hy => by simp at hy
  | a, b, c :: r, 0, x, y, hx, hy => by
    simp at hx hy; subst hx; subst hy; simp [tangents.mid]
  | a, b, c :: r, k + 1, x, y, hx, hy => by
    have := mid_getElem_lt b c r k x y (by simpa using hx) (by simpa using hy)
    simpa [tangents.mid] using this

/-- last entry of `mid a b l`: backward difference -/
theorem mid_getElem_last : ∀ (a b : P) (l : List P) (x y : P),
    (a :: b :: l)[l.length]? = some x → (a :: b :: l)[l.length + 1]? = some y →
      (tangents.mid a b l)[l.length]? = some (y - x)
  | a, b, [], x, y, hx, hy => by
    simp at hx hy; subst hx; subst hy; simp [tangents.mid]
  | a, b, c :: r, x, y, hx, hy => by
    rw [List.length_cons, List.getElem?_cons_succ] at hx hy
    have := mid_getElem_last b c r x y hx hy
    rw [List.length_cons, tangents.mid, List.getElem?_cons_succ]
    exact this

end tangents

/-! ### getRefined: restoring the end points -/

/-- put the old point back at index i (nothing happens when i is out of range) -/
def restore {P : Type} (pts new : List P) (i : Nat) : List P :=
  match pts[i]? with | some p => new.set i p | none => new

theorem restore_length {P : Type} (pts new : List P) (i : Nat) : (restore pts new i).length = new.length := by
  unfold restore; split <;> simp

theorem restore_getElem {P : Type} (pts new : List P) (i k : Nat) (hlen : new.length = pts.length) :
    (restore pts new i)[k]? = if k = i then pts[k]? else new[k]? := by
  unfold restore
  by_cases hi : i < pts.length
  · rw [List.getElem?_eq_getElem hi]
    simp only [List.getElem?_set]
    by_cases hk : k = i
    · subst hk; simp [hlen, hi]
    · have : ¬ i = k := fun e => hk e.symm
      simp [hk, this]
  · have hnone : pts[i]? = none := List.getElem?_eq_none (by omega)
    rw [hnone]
    by_cases hk : k = i
    · subst hk; simp [hnone, List.getElem?_eq_none (show new.length ≤ k by omega)]
    · simp [hk]

/-- an entry of the restored list is the new entry, or the old point at the restored index -/
theorem restore_getElem_some {P : Type} (pts new : List P) (i k : Nat) (q : P)
    (h : (restore pts new i)[k]? = some q) : new[k]? = some q ∨ (k = i ∧ pts[k]? = some q) := by
  unfold restore at h
  cases hp : pts[i]? with
  | none => rw [hp] at h; exact Or.inl h
  | some p =>
    rw [hp] at h
    simp only [List.getElem?_set] at h
    split_ifs at h with h1 h2
    · subst h1; cases h; exact Or.inr ⟨rfl, hp⟩
    · exact Or.inl h

/-- `getRefined` = refine every point with its tangent, then (skip_endpoints) restore the two end points -/
theorem getRefined_eq_some {P : Type} [Sub P] (refine : P → P → Option P) (pts : List P) (skip : Bool)
    (startInd endInd : Int) (r : List P) :
    getRefined refine pts skip startInd endInd = some r ↔
      ∃ new, (pts.zip (tangents pts)).mapM (fun (p, t) => refine p t) = some new ∧
        r = if skip then restore pts (restore pts new (pyIndex pts.length startInd)) (pyIndex pts.length endInd)
            else new := by
  unfold getRefined restore
  cases hm : (pts.zip (tangents pts)).mapM (fun (p, t) => refine p t) with
  | none => simp
  | some new =>
    cases skip
    · simp [eq_comm]
    · simp only [if_true, Option.some.injEq, exists_eq_left']
      exact eq_comm

/-! ### the operation list -/

theorem runFlag_append (b : Bool) (l₁ l₂ : List Gen.Pipeline.Op) :
    runFlag b (l₁ ++ l₂) = runFlag (runFlag b l₁) l₂ := by
  simp [runFlag, List.foldl_append]

theorem runFlag_nil (b : Bool) : runFlag b [] = b := rfl

theorem stepFlag_assign_refine (b : Bool) : stepFlag b (.assignMap "PsiContour.refine") = true := by
  simp [stepFlag]

/-- if one pass of `ops` re-establishes the flag from any state, so does any number of passes -/
theorem runFlag_replicate (ops : List Gen.Pipeline.Op) (h : ∀ b, runFlag b ops = true) :
    ∀ k, runFlag true (List.replicate k ops).flatten = true
  | 0 => rfl
  | k + 1 => by
    rw [List.replicate_succ, List.flatten_cons, runFlag_append, h, runFlag_replicate ops h k]

/-! ### fillRZ: sub-sampling -/
section sampling
variable {β : Type}

/-- entry (i, j) of a list of lists -/
abbrev get2 (m : List (List β)) (i j : Nat) : Option β := m[i]?.bind (·[j]?)

theorem get2_some_mem (m : List (List β)) (i j : Nat) (q : β) (h : get2 m i j = some q) :
    ∃ c, m[i]? = some c ∧ q ∈ c := by
  unfold get2 at h
  cases hc : m[i]? with
  | none => simp [hc] at h
  | some c =>
    rw [hc] at h
    exact ⟨c, rfl, List.mem_of_getElem? h⟩

theorem evens_getElem' : ∀ (l : List β) (i : Nat), (evens l)[i]? = l[2 * i]?
  | [], i => by simp [evens]
  | [a], i => by cases i <;> simp [evens]
  | a :: b :: r, 0 => by simp [evens]
  | a :: b :: r, i + 1 => by
    rw [show 2 * (i + 1) = 2 * i + 1 + 1 by omega]
    simp [evens, evens_getElem' r i]

theorem odds_getElem' : ∀ (l : List β) (i : Nat), (odds l)[i]? = l[2 * i + 1]?
  | [], i => by simp [odds]
  | [a], i => by simp [odds]
  | a :: b :: r, 0 => by simp [odds]
  | a :: b :: r, i + 1 => by
    rw [show 2 * (i + 1) + 1 = (2 * i + 1) + 1 + 1 by omega]
    simp [odds, odds_getElem' r i]

theorem evens_length' : ∀ (l : List β), (evens l).length = (l.length + 1) / 2
  | [] => by simp [evens]
  | [_] => by simp [evens]
  | _ :: _ :: r => by simp [evens, evens_length' r]; omega

theorem odds_length' : ∀ (l : List β), (odds l).length = l.length / 2
  | [] => by simp [odds]
  | [_] => by simp [odds]
  | _ :: _ :: r => by simp [odds, odds_length' r]; omega

/-- `[par::2]` for a parity 0 or 1 -/
theorem pick_getElem (par : Nat) (hpar : par ≤ 1) (l : List β) (i : Nat) : (pick par l)[i]? = l[2 * i + par]? := by
  unfold pick
  by_cases h : par = 1
  · subst h; simp [odds_getElem']
  · have : par = 0 := by omega
    subst this; simp [evens_getElem']

theorem pick_length (par : Nat) (hpar : par ≤ 1) (l : List β) : (pick par l).length = (l.length + 1 - par) / 2 := by
  unfold pick
  by_cases h : par = 1
  · subst h; simp [odds_length']
  · have : par = 0 := by omega
    subst this; simp [evens_length']

theorem get2_sample (par : Nat × Nat) (h1 : par.1 ≤ 1) (h2 : par.2 ≤ 1) (cs : List (List β)) (i j : Nat) :
    get2 (sample par cs) i j = get2 cs (2 * i + par.1) (2 * j + par.2) := by
  unfold get2 sample
  rw [List.getElem?_map, pick_getElem _ h1]
  cases cs[2 * i + par.1]? with
  | none => rfl
  | some row => simp [pick_getElem _ h2]

end sampling

/-! ### fillRZ: rectangular matrices and the corner substitution -/
section pins
variable {β : Type}

/-- R rows, all of length C -/
def Rect (m : List (List β)) (R C : Nat) : Prop := m.length = R ∧ ∀ row ∈ m, row.length = C

theorem mem_evens : ∀ (l : List β) (x : β), x ∈ evens l → x ∈ l
  | [], x, h => by simp [evens] at h
  | [a], x, h => by simpa [evens] using h
  | a :: b :: r, x, h => by
    simp only [evens, List.mem_cons] at h ⊢
    rcases h with h | h
    · exact Or.inl h
    · exact Or.inr (Or.inr (mem_evens r x h))

theorem mem_odds : ∀ (l : List β) (x : β), x ∈ odds l → x ∈ l
  | [], x, h => by simp [odds] at h
  | [a], x, h => by simp [odds] at h
  | a :: b :: r, x, h => by
    simp only [odds, List.mem_cons] at h ⊢
    rcases h with h | h
    · exact Or.inr (Or.inl h)
    · exact Or.inr (Or.inr (mem_odds r x h))

theorem mem_pick (par : Nat) (l : List β) (x : β) (h : x ∈ pick par l) : x ∈ l := by
  unfold pick at h
  split_ifs at h
  · exact mem_odds l x h
  · exact mem_evens l x h

/-- sub-sampling a rectangular matrix gives a rectangular matrix -/
theorem sample_rect (par : Nat × Nat) (h1 : par.1 ≤ 1) (h2 : par.2 ≤ 1) (cs : List (List β)) (R C : Nat)
    (h : Rect cs R C) : Rect (sample par cs) ((R + 1 - par.1) / 2) ((C + 1 - par.2) / 2) := by
  obtain ⟨hR, hC⟩ := h
  refine ⟨by simp [sample, pick_length _ h1, hR], ?_⟩
  intro row hrow
  simp only [sample, List.mem_map] at hrow
  obtain ⟨row0, hmem, rfl⟩ := hrow
  rw [pick_length _ h2, hC row0 (mem_pick _ _ _ hmem)]

theorem set2_rect (m : List (List β)) (R C : Nat) (h : Rect m R C) (i j : Int) (v : β) :
    Rect (set2 m i j v) R C := by
  obtain ⟨hR, hC⟩ := h
  unfold set2
  dsimp only
  split
  · exact ⟨hR, hC⟩
  · rename_i row hrow
    refine ⟨by simpa using hR, ?_⟩
    intro row' hrow'
    rcases List.mem_or_eq_of_mem_set hrow' with h' | h'
    · exact hC _ h'
    · subst h'; simpa using hC row (List.mem_of_getElem? hrow)

/-- the position (as natural-number indices into an R × C matrix) a python index pair refers to, and whether (a, b) is it -/
def Hit (R C : Nat) (ij : Int × Int) (a b : Nat) : Prop :=
  a = pyIndex R ij.1 ∧ b = pyIndex C ij.2 ∧ a < R ∧ b < C

instance (R C : Nat) (ij : Int × Int) (a b : Nat) : Decidable (Hit R C ij a b) := by unfold Hit; infer_instance

/-- `m[i, j] = v` on a rectangular matrix changes exactly the entry (i, j) (python indices), if it exists -/
theorem get2_set2 (m : List (List β)) (R C : Nat) (h : Rect m R C) (i j : Int) (v : β) (a b : Nat) :
    get2 (set2 m i j v) a b = if Hit R C (i, j) a b then some v else get2 m a b := by
  obtain ⟨hR, hC⟩ := h
  unfold set2 Hit
  simp only [hR]
  by_cases ha0 : pyIndex R i < R
  · have hlt : pyIndex R i < m.length := by omega
    rw [List.getElem?_eq_getElem hlt]
    have hrowC : (m[pyIndex R i]).length = C := hC _ (List.getElem_mem hlt)
    simp only [hrowC]
    by_cases ha : a = pyIndex R i
    · subst ha
      by_cases hb : b = pyIndex C j
      · subst hb
        by_cases hbC : pyIndex C j < C
        · simp [get2, hlt, hrowC, hbC, ha0]
        · have hge : (m[pyIndex R i]).length ≤ pyIndex C j := by omega
          simp [get2, hlt, hbC, hrowC]
      · have : ¬ pyIndex C j = b := fun e => hb e.symm
        simp [get2, hlt, hb, this]
    · have : ¬ pyIndex R i = a := fun e => ha e.symm
      simp [get2, ha, this]
  · have hnone : m[pyIndex R i]? = none := List.getElem?_eq_none (by omega)
    rw [hnone]
    have : ¬ (a = pyIndex R i ∧ b = pyIndex C j ∧ a < R ∧ b < C) := by
      rintro ⟨rfl, _, h3, _⟩; exact ha0 h3
    simp [this]

/-- the substitution of one optional X-point, as written in `fillRZ` -/
def pinAt (m : List (List β)) (x : Option β) (ij : Int × Int) : List (List β) :=
  match x with | some v => set2 m ij.1 ij.2 v | none => m

theorem pinAt_rect (m : List (List β)) (R C : Nat) (h : Rect m R C) (x : Option β) (ij : Int × Int) :
    Rect (pinAt m x ij) R C := by
  cases x with
  | none => exact h
  | some v => exact set2_rect m R C h _ _ v

theorem get2_pinAt (m : List (List β)) (R C : Nat) (h : Rect m R C) (x : Option β) (ij : Int × Int) (a b : Nat) :
    get2 (pinAt m x ij) a b = if Hit R C ij a b ∧ x.isSome then x else get2 m a b := by
  cases x with
  | none => simp [pinAt]
  | some v => simp only [pinAt, get2_set2 m R C h, Option.isSome_some, and_true]

open Gen.Pipeline in
theorem fillRZ_corners_eq (cs : List (List β)) (sI sO eI eO : Option β) :
    (fillRZ cs sI sO eI eO).corners =
      pinAt (pinAt (pinAt (pinAt (sample cornersParity cs) sI pin_startInner) sO pin_startOuter) eI pin_endInner)
        eO pin_endOuter := rfl

open Gen.Pipeline in
/-- every entry of the corner array, for a rectangular sampled matrix: the last substitution that hits the position wins,
    otherwise the sampled point -/
theorem fillRZ_corners_get2 (cs : List (List β)) (sI sO eI eO : Option β) (R C : Nat)
    (h : Rect (sample cornersParity cs) R C) (a b : Nat) :
    get2 (fillRZ cs sI sO eI eO).corners a b =
      if Hit R C pin_endOuter a b ∧ eO.isSome then eO
      else if Hit R C pin_endInner a b ∧ eI.isSome then eI
      else if Hit R C pin_startOuter a b ∧ sO.isSome then sO
      else if Hit R C pin_startInner a b ∧ sI.isSome then sI
      else get2 (sample cornersParity cs) a b := by
  have h1 := pinAt_rect _ R C h sI pin_startInner
  have h2 := pinAt_rect _ R C h1 sO pin_startOuter
  have h3 := pinAt_rect _ R C h2 eI pin_endInner
  rw [fillRZ_corners_eq, get2_pinAt _ R C h3, get2_pinAt _ R C h2, get2_pinAt _ R C h1, get2_pinAt _ R C h]

end pins

end Refine
