/-
C06 — `zShift` / `ShiftAngle` (`MeshRegion.calcZShift`, hypnotoad/core/mesh.py): the discrete structure.
Model: HypnoModel/Model/Distance.lean at α := ℝ.  `cumtrapz x y` is `scipy.integrate.cumulative_trapezoid(y, x=x, initial=0)`
on the FineContour (distances `x`, integrand `y = Bt/(R·Bp)`); the hand-over between the regions of a chain is the one of
`chainPD` (offset = value at the upper end of the previous region), applied to the per-region cumulative lists
(`zregs`: the first region zeroed at its startInd `s0`, every later region starting at its first point).
Helper lemmas: HypnoModel/Lemmas/Distance.lean.  This file: property theorems only.
-/
import HypnoModel.Model.Distance
import HypnoModel.Lemmas.Distance

namespace HypnoModel.Props.C06
open Distance DistanceLemmas

/-! ## 1. the cumulative trapezoid -/

/-- one value per FineContour point -/
theorem cumtrapz_length (x y : List ℝ) (hxy : x.length = y.length) : (cumtrapz x y).length = x.length :=
  DistanceLemmas.cumtrapz_length x y hxy

/-- the first value is 0 (`initial=0`) -/
theorem cumtrapz_zero_at_start (x y : List ℝ) (hx : x ≠ []) : (cumtrapz x y).head? = some 0 :=
  DistanceLemmas.cumtrapz_head? y hx

/-- consecutive values differ by the trapezoid `(x[i+1]-x[i])·(y[i]+y[i+1])/2` -/
theorem cumtrapz_step (x y : List ℝ) (hxy : x.length = y.length) (i : ℕ) (hi : i + 1 < x.length) :
    (cumtrapz x y)[i + 1]'(by rw [DistanceLemmas.cumtrapz_length x y hxy]; exact hi) -
      (cumtrapz x y)[i]'(by rw [DistanceLemmas.cumtrapz_length x y hxy]; omega)
      = (x[i + 1] - x[i]) * (y[i] + y[i + 1]) / 2 := by
  rw [DistanceLemmas.cumtrapz_getElem_succ x y hxy i hi]
  ring

/-! ## 2. monotonicity along the field line when Bt has one sign -/

/-- strictly increasing distances: integrand ≥ 0 (resp. > 0) gives non-decreasing (resp. strictly increasing) values,
    integrand ≤ 0 (resp. < 0) non-increasing (resp. strictly decreasing) ones -/
theorem cumtrapz_monotone (x y : List ℝ) (hx : x.Pairwise (· < ·)) :
    ((∀ v ∈ y, 0 ≤ v) → (cumtrapz x y).Pairwise (· ≤ ·)) ∧ ((∀ v ∈ y, 0 < v) → (cumtrapz x y).Pairwise (· < ·)) ∧
    ((∀ v ∈ y, v ≤ 0) → (cumtrapz x y).Pairwise (· ≥ ·)) ∧ ((∀ v ∈ y, v < 0) → (cumtrapz x y).Pairwise (· > ·)) :=
  DistanceLemmas.cumtrapz_pairwise x y hx

/-! ## 3. re-zeroing; constant integrand -/

/-- `zShift_fine[:] -= zShift_fine[startInd]`: subtracting any value `z` (in particular the one at startInd) leaves every
    difference `c[j] - c[i]` unchanged, and subtracting `c[s]` puts the zero at index `s` -/
theorem cumtrapz_shift_invariance (c : List ℝ) (z : ℝ) :
    (∀ (i j : ℕ) (hi : i < c.length) (hj : j < c.length),
      (c.map (· - z))[j]'(by simpa using hj) - (c.map (· - z))[i]'(by simpa using hi) = c[j] - c[i]) ∧
    (∀ (s : ℕ) (hs : s < c.length), (c.map (· - c[s]))[s]'(by simpa using hs) = 0) := by
  constructor
  · intro i j hi hj
    simp only [List.getElem_map]
    ring
  · intro s hs
    simp only [List.getElem_map]
    ring

/-- constant integrand `y ≡ c`: the values are exactly `c·(x[i] - x[0])` — zShift proportional to arc length (circular
    flux surface with constant Bt/(R·Bp)) -/
theorem cumtrapz_const (x : List ℝ) (c : ℝ) (i : ℕ) (hi : i < x.length) :
    (cumtrapz x (List.replicate x.length c))[i]'(by
        rw [DistanceLemmas.cumtrapz_length x _ (by simp)]; exact hi) = c * (x[i] - x[0]) :=
  DistanceLemmas.cumtrapz_replicate x c i hi _

/-! ## 4. the chain of regions -/

/-- each region starts from the previous region's last (upper y-face) value: zShift is continuous across every join of
    the chain -/
theorem zshift_chain (x0 y0 : List ℝ) (s0 : ℕ) (rest : List (List ℝ × List ℝ)) (h0 : x0 ≠ [])
    (hrest : ∀ p ∈ rest, p.1 ≠ []) (k : ℕ) (hk : k + 1 < (zregs x0 y0 s0 rest).length) :
    ∃ u v a, (chainPD 0 (zregs x0 y0 s0 rest))[k]? = some u ∧ (chainPD 0 (zregs x0 y0 s0 rest))[k + 1]? = some v ∧
      u.getLast? = some a ∧ v.head? = some a := by
  have hall : ∀ p ∈ zregs x0 y0 s0 rest, p.1 ≠ [] := by
    intro p hp
    simp only [zregs, List.mem_cons, List.mem_map] at hp
    rcases hp with rfl | ⟨q, hq, rfl⟩
    · exact DistanceLemmas.cumtrapz_ne_nil y0 h0
    · exact DistanceLemmas.cumtrapz_ne_nil q.2 (hrest q hq)
  have hk' : k < rest.length := by simpa [zregs] using hk
  apply DistanceLemmas.chainPD_join_continuous 0 (zregs x0 y0 s0 rest) k hk
  · exact hall _ (List.getElem_mem _)
  · exact hall _ (List.getElem_mem _)
  · simp [zregs]

/-- ShiftAngle = (last value of the last region) − (first value of the first region) is the sum of the per-region
    integrals (the last cumulative value of each region), whatever the first region's startInd -/
theorem shiftAngle_is_total (x0 y0 : List ℝ) (s0 : ℕ) (rest : List (List ℝ × List ℝ)) (h0 : x0 ≠ [])
    (hrest : ∀ p ∈ rest, p.1 ≠ []) :
    ∃ u v a b, (chainPD 0 (zregs x0 y0 s0 rest)).head? = some u ∧ (chainPD 0 (zregs x0 y0 s0 rest)).getLast? = some v ∧
      u.head? = some a ∧ v.getLast? = some b ∧
      b - a = (((x0, y0) :: rest).map fun p => (cumtrapz p.1 p.2).getLastD 0).sum := by
  obtain ⟨u, v, a, b, hu, hv, ha, hb, hab⟩ := DistanceLemmas.chainPD_end_minus_start 0 (cumtrapz x0 y0) s0
    (rest.map fun p => (cumtrapz p.1 p.2, 0)) (DistanceLemmas.cumtrapz_ne_nil y0 h0) (by
      intro p hp
      simp only [List.mem_map] at hp
      obtain ⟨q, hq, rfl⟩ := hp
      exact DistanceLemmas.cumtrapz_ne_nil q.2 (hrest q hq))
  refine ⟨u, v, a, b, hu, hv, ha, hb, ?_⟩
  rw [hab]
  simp only [List.map_map, Function.comp_def, regionSpan_cumtrapz_zero, List.map_cons, List.sum_cons]

/-! ## satisfiability of the hypotheses -/

/-- `cumtrapz_step`, `cumtrapz_monotone`: three fine points, positive integrand -/
example : ∃ x y : List ℝ, x.length = y.length ∧ 1 + 1 < x.length ∧ x.Pairwise (· < ·) ∧ (∀ v ∈ y, 0 < v) :=
  ⟨[0, 1, 3], [1, 2, 1], rfl, by simp, by norm_num, by simp⟩

/-- the values for that input: 0, 3/2, 9/2 -/
example : cumtrapz ([0, 1, 3] : List ℝ) [1, 2, 1] = [0, 3 / 2, 9 / 2] := by
  norm_num [DistanceLemmas.cumtrapz_cons, DistanceLemmas.cumtrapzAux_cons2, DistanceLemmas.cumtrapzAux_one_left]

/-- `zshift_chain`, `shiftAngle_is_total`: two regions -/
example : ∃ (x0 y0 : List ℝ) (s0 : ℕ) (rest : List (List ℝ × List ℝ)), x0 ≠ [] ∧ (∀ p ∈ rest, p.1 ≠ []) ∧
    0 + 1 < (zregs x0 y0 s0 rest).length :=
  ⟨[0, 1, 3], [1, 2, 1], 1, [([0, 2], [1, 1])], by simp, by simp, by simp [zregs]⟩

end HypnoModel.Props.C06
