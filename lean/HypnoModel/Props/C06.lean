/-
C06 — `zShift` / `ShiftAngle` (`MeshRegion.calcZShift`, hypnotoad/core/mesh.py): the discrete structure.
Model: HypnoModel/Model/Distance.lean at α := ℝ.  `cumtrapz x y` is `scipy.integrate.cumulative_trapezoid(y, x=x, initial=0)`
on the FineContour (distances `x`, integrand `y = Bt/(R·Bp)`); the hand-over between the regions of a chain is the one of
`chainPD` (offset = value at the upper end of the previous region), applied to the per-region cumulative lists
(`zregs`: the first region zeroed at its startInd `s0`, every later region starting at its first point).
Helper lemmas: HypnoModel/Lemmas/Distance.lean.  This file: property theorems only.
-/
import HypnoModel.Model.Distance
import HypnoModel.Lemmas.Distance
import HypnoModel.Model.Stencil
import HypnoModel.Lemmas.Stencil

namespace HypnoModel.Props.C06
open Distance DistanceLemmas

/-! ## 1. the cumulative trapezoid -/

/-- one value per FineContour point -/
theorem cumtrapz_length (x y : List ℝ) (hxy : x.length = y.length) : (cumtrapz x y).length = x.length :=
  DistanceLemmas.cumtrapz_length x y hxy

/-- the first value is 0 (`initial=0`) -/
theorem cumtrapz_zero_at_start (x y : List ℝ) (hx : x ≠ []) : (cumtrapz x y).head? = some 0 :=
  DistanceLemmas.cumtrapz_head? y hx

/-- consecutive values differ by the trapezoid `(x[i+1]-x[i])·(y[i]+y[i+1])/2` -/
theorem cumtrapz_step (x y : List ℝ) (hxy : x.length = y.length) (i : ℕ) (hi : i + 1 < x.length) :
    (cumtrapz x y)[i + 1]'(by rw [DistanceLemmas.cumtrapz_length x y hxy]; exact hi) -
      (cumtrapz x y)[i]'(by rw [DistanceLemmas.cumtrapz_length x y hxy]; omega)
      = (x[i + 1] - x[i]) * (y[i] + y[i + 1]) / 2 := by
  rw [DistanceLemmas.cumtrapz_getElem_succ x y hxy i hi]
  ring

/-! ## 2. monotonicity along the field line when Bt has one sign -/

/-- strictly increasing distances: integrand ≥ 0 (resp. > 0) gives non-decreasing (resp. strictly increasing) values,
    integrand ≤ 0 (resp. < 0) non-increasing (resp. strictly decreasing) ones -/
theorem cumtrapz_monotone (x y : List ℝ) (hx : x.Pairwise (· < ·)) :
    ((∀ v ∈ y, 0 ≤ v) → (cumtrapz x y).Pairwise (· ≤ ·)) ∧ ((∀ v ∈ y, 0 < v) → (cumtrapz x y).Pairwise (· < ·)) ∧
    ((∀ v ∈ y, v ≤ 0) → (cumtrapz x y).Pairwise (· ≥ ·)) ∧ ((∀ v ∈ y, v < 0) → (cumtrapz x y).Pairwise (· > ·)) :=
  DistanceLemmas.cumtrapz_pairwise x y hx

/-! ## 3. re-zeroing; constant integrand -/

/-- `zShift_fine[:] -= zShift_fine[startInd]`: subtracting any value `z` (in particular the one at startInd) leaves every
    difference `c[j] - c[i]` unchanged, and subtracting `c[s]` puts the zero at index `s` -/
theorem cumtrapz_shift_invariance (c : List ℝ) (z : ℝ) :
    (∀ (i j : ℕ) (hi : i < c.length) (hj : j < c.length),
      (c.map (· - z))[j]'(by simpa using hj) - (c.map (· - z))[i]'(by simpa using hi) = c[j] - c[i]) ∧
    (∀ (s : ℕ) (hs : s < c.length), (c.map (· - c[s]))[s]'(by simpa using hs) = 0) := by
  constructor
  · intro i j hi hj
    simp only [List.getElem_map]
    ring
  · intro s hs
    simp only [List.getElem_map]
    ring

/-- constant integrand `y ≡ c`: the values are exactly `c·(x[i] - x[0])` — zShift proportional to arc length (circular
    flux surface with constant Bt/(R·Bp)) -/
theorem cumtrapz_const (x : List ℝ) (c : ℝ) (i : ℕ) (hi : i < x.length) :
    (cumtrapz x (List.replicate x.length c))[i]'(by
        rw [DistanceLemmas.cumtrapz_length x _ (by simp)]; exact hi) = c * (x[i] - x[0]) :=
  DistanceLemmas.cumtrapz_replicate x c i hi _

/-! ## 4. the chain of regions -/

/-- each region starts from the previous region's last (upper y-face) value: zShift is continuous across every join of
    the chain -/
theorem zshift_chain (x0 y0 : List ℝ) (s0 : ℕ) (rest : List (List ℝ × List ℝ)) (h0 : x0 ≠ [])
    (hrest : ∀ p ∈ rest, p.1 ≠ []) (k : ℕ) (hk : k + 1 < (zregs x0 y0 s0 rest).length) :
    ∃ u v a, (chainPD 0 (zregs x0 y0 s0 rest))[k]? = some u ∧ (chainPD 0 (zregs x0 y0 s0 rest))[k + 1]? = some v ∧
      u.getLast? = some a ∧ v.head? = some a := by
  have hall : ∀ p ∈ zregs x0 y0 s0 rest, p.1 ≠ [] := by
    intro p hp
    simp only [zregs, List.mem_cons, List.mem_map] at hp
    rcases hp with rfl | ⟨q, hq, rfl⟩
    · exact DistanceLemmas.cumtrapz_ne_nil y0 h0
    · exact DistanceLemmas.cumtrapz_ne_nil q.2 (hrest q hq)
  have hk' : k < rest.length := by simpa [zregs] using hk
  apply DistanceLemmas.chainPD_join_continuous 0 (zregs x0 y0 s0 rest) k hk
  · exact hall _ (List.getElem_mem _)
  · exact hall _ (List.getElem_mem _)
  · simp [zregs]

/-- ShiftAngle = (last value of the last region) − (first value of the first region) is the sum of the per-region
    integrals (the last cumulative value of each region), whatever the first region's startInd -/
theorem shiftAngle_is_total (x0 y0 : List ℝ) (s0 : ℕ) (rest : List (List ℝ × List ℝ)) (h0 : x0 ≠ [])
    (hrest : ∀ p ∈ rest, p.1 ≠ []) :
    ∃ u v a b, (chainPD 0 (zregs x0 y0 s0 rest)).head? = some u ∧ (chainPD 0 (zregs x0 y0 s0 rest)).getLast? = some v ∧
      u.head? = some a ∧ v.getLast? = some b ∧
      b - a = (((x0, y0) :: rest).map fun p => (cumtrapz p.1 p.2).getLastD 0).sum := by
  obtain ⟨u, v, a, b, hu, hv, ha, hb, hab⟩ := DistanceLemmas.chainPD_end_minus_start 0 (cumtrapz x0 y0) s0
    (rest.map fun p => (cumtrapz p.1 p.2, 0)) (DistanceLemmas.cumtrapz_ne_nil y0 h0) (by
      intro p hp
      simp only [List.mem_map] at hp
      obtain ⟨q, hq, rfl⟩ := hp
      exact DistanceLemmas.cumtrapz_ne_nil q.2 (hrest q hq))
  refine ⟨u, v, a, b, hu, hv, ha, hb, ?_⟩
  rw [hab]
  simp only [List.map_map, Function.comp_def, regionSpan_cumtrapz_zero, List.map_cons, List.sum_cons]

/-! ## satisfiability of the hypotheses -/

/-- `cumtrapz_step`, `cumtrapz_monotone`: three fine points, positive integrand -/
example : ∃ x y : List ℝ, x.length = y.length ∧ 1 + 1 < x.length ∧ x.Pairwise (· < ·) ∧ (∀ v ∈ y, 0 < v) :=
  ⟨[0, 1, 3], [1, 2, 1], rfl, by simp, by norm_num, by simp⟩

/-- the values for that input: 0, 3/2, 9/2 -/
example : cumtrapz ([0, 1, 3] : List ℝ) [1, 2, 1] = [0, 3 / 2, 9 / 2] := by
  norm_num [DistanceLemmas.cumtrapz_cons, DistanceLemmas.cumtrapzAux_cons2, DistanceLemmas.cumtrapzAux_one_left]

/-- `zshift_chain`, `shiftAngle_is_total`: two regions -/
example : ∃ (x0 y0 : List ℝ) (s0 : ℕ) (rest : List (List ℝ × List ℝ)), x0 ≠ [] ∧ (∀ p ∈ rest, p.1 ≠ []) ∧
    0 + 1 < (zregs x0 y0 s0 rest).length :=
  ⟨[0, 1, 3], [1, 2, 1], 1, [([0, 2], [1, 1])], by simp, by simp, by simp [zregs]⟩

/-! ## 5. the grid spacing dx at the cell centres and at the x-faces, and the DDX stencils that divide by it

Model: HypnoModel/Model/Stencil.lean (`MeshRegion.geometry1`, `MeshRegion.DDX`) at α := ℝ — one radial line of one region
with nx cells: `psi = (List.range (2*nx+1)).map P` (even index = x-face, odd index = cell centre; by `psi_as_function`
every list of that length is of this form), `inner` / `outer` = psi at the adjacent cell centre of the inner / outer
neighbour region (`none` at a boundary of the grid).  A field affine in psi, `F x = a + b·x`, has face values
`(evens psi).map F`, centre values `(odds psi).map F` and neighbour values `inner.map F`, `outer.map F`.
Helper lemmas: HypnoModel/Lemmas/Stencil.lean. -/

section StencilSection
open Stencil StencilLemmas

/-- every psi list with 2·nx+1 entries is `(List.range (2*nx+1)).map P` for its own index function -/
theorem psi_as_function (nx : ℕ) (psi : List ℝ) (h : psi.length = 2 * nx + 1) :
    psi = (List.range (2 * nx + 1)).map (fun k => psi.getD k 0) :=
  eq_map_range_getD psi _ h

/-- `dx.centre`: one value per cell, face to face -/
theorem dxCentre_spec (nx : ℕ) (P : ℕ → ℝ) (psi : List ℝ) (hpsi : psi = (List.range (2 * nx + 1)).map P) :
    (dxCentre psi).length = nx ∧ ∀ i < nx, (dxCentre psi)[i]? = some (P (2 * i + 2) - P (2 * i)) := by
  subst hpsi
  rw [dxCentre_eq]
  refine ⟨by simp, fun i hi => ?_⟩
  rw [List.getElem?_map, List.getElem?_range hi]
  rfl

/-- `dx.xlow`: one value per x-face, centre to centre — across the region boundary with a neighbour, twice the half cell
    at a boundary of the grid -/
theorem dxFaces_spec (nx : ℕ) (hnx : 1 ≤ nx) (P : ℕ → ℝ) (psi : List ℝ) (hpsi : psi = (List.range (2 * nx + 1)).map P)
    (inner outer : Option ℝ) :
    (dxFaces psi inner outer).length = nx + 1 ∧
    (∀ pi, inner = some pi → (dxFaces psi inner outer)[0]? = some (P 1 - pi)) ∧
    (inner = none → (dxFaces psi inner outer)[0]? = some (2 * (P 1 - P 0))) ∧
    (∀ i, 1 ≤ i → i < nx → (dxFaces psi inner outer)[i]? = some (P (2 * i + 1) - P (2 * i - 1))) ∧
    (∀ po, outer = some po → (dxFaces psi inner outer)[nx]? = some (po - P (2 * nx - 1))) ∧
    (outer = none → (dxFaces psi inner outer)[nx]? = some (2 * (P (2 * nx) - P (2 * nx - 1)))) := by
  obtain ⟨m, rfl⟩ : ∃ m, nx = m + 1 := ⟨nx - 1, by omega⟩
  subst hpsi
  have hlast : 2 * (m + 1) - 1 = 2 * m + 1 := by omega
  rw [dxFaces_eq, hlast]
  obtain ⟨h0, h1, h2, h3⟩ := getElem?_cons_map_append
    (match inner with
      | some pi => P 1 - pi
      | none => 2 * (P 1 - P 0))
    (match outer with
      | some po => po - P (2 * m + 1)
      | none => 2 * (P (2 * (m + 1)) - P (2 * m + 1)))
    (fun i => P (2 * (i + 1) + 1) - P (2 * i + 1)) m
  refine ⟨h0, ?_, ?_, ?_, ?_, ?_⟩
  · rintro pi rfl
    exact h1
  · rintro rfl
    exact h1
  · intro i hi1 hi2
    obtain ⟨j, rfl⟩ : ∃ j, i = j + 1 := ⟨i - 1, by omega⟩
    have e : 2 * (j + 1) - 1 = 2 * j + 1 := by omega
    rw [e]
    exact h2 j (by omega)
  · rintro po rfl
    exact h3
  · rintro rfl
    exact h3

/-- `DDX(F).centre` is exact for F affine in psi: every entry is the slope b — provided no cell has zero width -/
theorem ddxCentre_affine_exact (nx : ℕ) (P : ℕ → ℝ) (psi : List ℝ) (hpsi : psi = (List.range (2 * nx + 1)).map P)
    (a b : ℝ) (hP : ∀ i < nx, P (2 * i + 2) ≠ P (2 * i)) :
    ddxCentre ((evens psi).map fun x => a + b * x) (dxCentre psi) = List.replicate nx b := by
  subst hpsi
  rw [ddxCentre_affine_eq, map_range_eq_replicate]
  exact fun i hi => ite_zero_eq b _ (hP i hi)

/-- … and for b ≠ 0 that hypothesis is necessary: a zero-width cell gives the entry 0 -/
theorem ddxCentre_affine_exact_iff (nx : ℕ) (P : ℕ → ℝ) (psi : List ℝ) (hpsi : psi = (List.range (2 * nx + 1)).map P)
    (a b : ℝ) (hb : b ≠ 0) :
    ddxCentre ((evens psi).map fun x => a + b * x) (dxCentre psi) = List.replicate nx b ↔
      ∀ i < nx, P (2 * i + 2) ≠ P (2 * i) := by
  subst hpsi
  rw [ddxCentre_affine_eq, map_range_eq_replicate]
  exact forall₂_congr fun i _ => ite_zero_eq_iff b hb _

/-- `DDX(F).xlow` is exact for F affine in psi, in all four combinations of neighbour / no neighbour: each of the nx+1
    entries is the slope b — provided the psi differences that `dx.xlow` consists of are non-zero.  This is the statement
    that `dx.xlow` is the spacing the x-face stencil of DDX assumes. -/
theorem ddxXlow_affine_exact (nx : ℕ) (hnx : 1 ≤ nx) (P : ℕ → ℝ) (psi : List ℝ)
    (hpsi : psi = (List.range (2 * nx + 1)).map P) (a b : ℝ) (inner outer : Option ℝ)
    (hin : ∀ pi, inner = some pi → pi ≠ P 1) (hin0 : inner = none → P 0 ≠ P 1)
    (hmid : ∀ i, 1 ≤ i → i < nx → P (2 * i + 1) ≠ P (2 * i - 1))
    (hout : ∀ po, outer = some po → po ≠ P (2 * nx - 1)) (hout0 : outer = none → P (2 * nx) ≠ P (2 * nx - 1)) :
    ddxXlow ((odds psi).map fun x => a + b * x) ((evens psi).map fun x => a + b * x) (dxFaces psi inner outer)
      (inner.map fun x => a + b * x) (outer.map fun x => a + b * x) = List.replicate (nx + 1) b := by
  obtain ⟨m, rfl⟩ : ∃ m, nx = m + 1 := ⟨nx - 1, by omega⟩
  subst hpsi
  have hlast : 2 * (m + 1) - 1 = 2 * m + 1 := by omega
  rw [hlast] at hout hout0
  rw [ddxXlow_affine_eq, cons_map_append_eq_replicate]
  refine ⟨?_, fun i hi => ite_zero_eq b _ ?_, ?_⟩
  · cases inner with
    | some pi => exact ite_zero_eq b _ (fun h => hin pi rfl h.symm)
    | none => exact ite_zero_eq b _ (fun h => hin0 rfl h.symm)
  · have := hmid (i + 1) (by omega) (by omega)
    rwa [show 2 * (i + 1) - 1 = 2 * i + 1 by omega] at this
  · cases outer with
    | some po => exact ite_zero_eq b _ (hout po rfl)
    | none => exact ite_zero_eq b _ (hout0 rfl)

/-- … and for b ≠ 0 those hypotheses are necessary: they are exactly "no entry of `dx.xlow` is 0" -/
theorem ddxXlow_affine_exact_iff (nx : ℕ) (hnx : 1 ≤ nx) (P : ℕ → ℝ) (psi : List ℝ)
    (hpsi : psi = (List.range (2 * nx + 1)).map P) (a b : ℝ) (hb : b ≠ 0) (inner outer : Option ℝ) :
    ddxXlow ((odds psi).map fun x => a + b * x) ((evens psi).map fun x => a + b * x) (dxFaces psi inner outer)
      (inner.map fun x => a + b * x) (outer.map fun x => a + b * x) = List.replicate (nx + 1) b ↔
    ((∀ pi, inner = some pi → pi ≠ P 1) ∧ (inner = none → P 0 ≠ P 1) ∧
      (∀ i, 1 ≤ i → i < nx → P (2 * i + 1) ≠ P (2 * i - 1)) ∧
      (∀ po, outer = some po → po ≠ P (2 * nx - 1)) ∧ (outer = none → P (2 * nx) ≠ P (2 * nx - 1))) := by
  constructor
  · intro h
    obtain ⟨m, rfl⟩ : ∃ m, nx = m + 1 := ⟨nx - 1, by omega⟩
    subst hpsi
    have hlast : 2 * (m + 1) - 1 = 2 * m + 1 := by omega
    rw [ddxXlow_affine_eq, cons_map_append_eq_replicate] at h
    obtain ⟨h1, h2, h3⟩ := h
    rw [hlast]
    refine ⟨?_, ?_, ?_, ?_, ?_⟩
    · rintro pi rfl
      exact fun e => (ite_zero_eq_iff b hb _).mp h1 e.symm
    · rintro rfl
      exact fun e => (ite_zero_eq_iff b hb _).mp h1 e.symm
    · intro i hi1 hi2
      obtain ⟨j, rfl⟩ : ∃ j, i = j + 1 := ⟨i - 1, by omega⟩
      rw [show 2 * (j + 1) - 1 = 2 * j + 1 by omega]
      exact (ite_zero_eq_iff b hb _).mp (h2 j (by omega))
    · rintro po rfl
      exact (ite_zero_eq_iff b hb _).mp h3
    · rintro rfl
      exact (ite_zero_eq_iff b hb _).mp h3
  · rintro ⟨h1, h2, h3, h4, h5⟩
    exact ddxXlow_affine_exact nx hnx P psi hpsi a b inner outer h1 h2 h3 h4 h5

/-- psi strictly monotone along the line (increasing or decreasing — both signs of the poloidal field occur) -/
def StrictlyMonotoneLine (nx : ℕ) (P : ℕ → ℝ) : Prop :=
  (∀ k < 2 * nx, P k < P (k + 1)) ∨ (∀ k < 2 * nx, P (k + 1) < P k)

theorem ddxCentre_affine_exact_of_monotone (nx : ℕ) (P : ℕ → ℝ) (psi : List ℝ)
    (hpsi : psi = (List.range (2 * nx + 1)).map P) (a b : ℝ) (hP : StrictlyMonotoneLine nx P) :
    ddxCentre ((evens psi).map fun x => a + b * x) (dxCentre psi) = List.replicate nx b := by
  apply ddxCentre_affine_exact nx P psi hpsi a b
  intro i hi
  rcases hP with h | h
  · exact ne_of_gt (lt_trans (h (2 * i) (by omega)) (h (2 * i + 1) (by omega)))
  · exact ne_of_lt (lt_trans (h (2 * i + 1) (by omega)) (h (2 * i) (by omega)))

theorem ddxXlow_affine_exact_of_monotone (nx : ℕ) (hnx : 1 ≤ nx) (P : ℕ → ℝ) (psi : List ℝ)
    (hpsi : psi = (List.range (2 * nx + 1)).map P) (a b : ℝ) (hP : StrictlyMonotoneLine nx P) (inner outer : Option ℝ)
    (hin : ∀ pi, inner = some pi → pi ≠ P 1) (hout : ∀ po, outer = some po → po ≠ P (2 * nx - 1)) :
    ddxXlow ((odds psi).map fun x => a + b * x) ((evens psi).map fun x => a + b * x) (dxFaces psi inner outer)
      (inner.map fun x => a + b * x) (outer.map fun x => a + b * x) = List.replicate (nx + 1) b := by
  apply ddxXlow_affine_exact nx hnx P psi hpsi a b inner outer hin _ _ hout
  · intro _
    have e : 2 * nx = 2 * nx - 1 + 1 := by omega
    rw [e, Nat.add_sub_cancel]
    rcases hP with h | h
    · exact ne_of_gt (h (2 * nx - 1) (by omega))
    · exact ne_of_lt (h (2 * nx - 1) (by omega))
  · intro _
    rcases hP with h | h
    · exact ne_of_lt (h 0 (by omega))
    · exact ne_of_gt (h 0 (by omega))
  · intro i hi1 hi2
    obtain ⟨j, rfl⟩ : ∃ j, i = j + 1 := ⟨i - 1, by omega⟩
    rw [show 2 * (j + 1) - 1 = 2 * j + 1 by omega, show 2 * (j + 1) + 1 = 2 * j + 1 + 1 + 1 by omega]
    rcases hP with h | h
    · exact ne_of_gt (lt_trans (h (2 * j + 1) (by omega)) (h (2 * j + 1 + 1) (by omega)))
    · exact ne_of_lt (lt_trans (h (2 * j + 1 + 1) (by omega)) (h (2 * j + 1) (by omega)))

/-- the state before the repair that introduced dx at the x-faces: `dx.xlow` all zeros.  Then every entry of `DDX(f).xlow`
    is 0 (over ℝ division by zero gives 0; in floating point inf or nan), whatever the field — so for F = a + b·psi with
    b ≠ 0 no entry is the slope b: `ddxXlow_affine_exact` fails for that `dx.xlow`. -/
theorem ddxXlow_zero_dx_counterexample (nx : ℕ) (hnx : 1 ≤ nx) (fc fx : List ℝ) (hfc : fc.length = nx)
    (fInner fOuter : Option ℝ) (b : ℝ) (hb : b ≠ 0) :
    ddxXlow fc fx (List.replicate (nx + 1) 0) fInner fOuter = List.replicate (nx + 1) 0 ∧
    (∀ x ∈ ddxXlow fc fx (List.replicate (nx + 1) 0) fInner fOuter, x ≠ b) ∧
    ddxXlow fc fx (List.replicate (nx + 1) 0) fInner fOuter ≠ List.replicate (nx + 1) b := by
  obtain ⟨m, rfl⟩ : ∃ m, nx = m + 1 := ⟨nx - 1, by omega⟩
  have h := ddxXlow_zero_dx fc fx m hfc fInner fOuter
  refine ⟨h, ?_, ?_⟩
  · rw [h]
    intro x hx
    rw [List.eq_of_mem_replicate hx]
    exact hb.symm
  · rw [h]
    intro e
    have := List.eq_of_mem_replicate (e ▸ (by simp : (0 : ℝ) ∈ List.replicate (m + 1 + 1) (0 : ℝ)))
    exact hb this.symm

/-- two radially adjacent regions A (inner) and B (outer) on one line, A's last face = B's first face: the shared face gets
    the same dx from both sides (A's last entry with B's first centre as outer neighbour, B's first entry with A's last
    centre as inner neighbour) — the sum of the two half cells adjacent to it -/
theorem dxFaces_consistent_across_boundary (nxA nxB : ℕ) (hA : 1 ≤ nxA) (hB : 1 ≤ nxB) (PA PB : ℕ → ℝ)
    (psiA psiB : List ℝ) (hpsiA : psiA = (List.range (2 * nxA + 1)).map PA)
    (hpsiB : psiB = (List.range (2 * nxB + 1)).map PB) (hshared : PA (2 * nxA) = PB 0) (innerA outerB : Option ℝ) :
    (dxFaces psiA innerA (some (PB 1)))[nxA]? = (dxFaces psiB (some (PA (2 * nxA - 1))) outerB)[0]? ∧
    (dxFaces psiA innerA (some (PB 1)))[nxA]? = some (PB 1 - PA (2 * nxA - 1)) ∧
    PB 1 - PA (2 * nxA - 1) = (PA (2 * nxA) - PA (2 * nxA - 1)) + (PB 1 - PB 0) := by
  have hAl := (dxFaces_spec nxA hA PA psiA hpsiA innerA (some (PB 1))).2.2.2.2.1 (PB 1) rfl
  have hBf := (dxFaces_spec nxB hB PB psiB hpsiB (some (PA (2 * nxA - 1))) outerB).2.1 (PA (2 * nxA - 1)) rfl
  refine ⟨by rw [hAl, hBf], hAl, ?_⟩
  rw [hshared]
  ring

/-! ### concrete lines -/

/-- nx = 2, psi = 0 1 2 4 6 (faces 0 2 6, centres 1 4) -/
example : dxCentre ([0, 1, 2, 4, 6] : List ℝ) = [2, 4] := by
  norm_num [dxCentre, evens, diffs]

example : dxFaces ([0, 1, 2, 4, 6] : List ℝ) none none = [2, 3, 4] := by
  norm_num [dxFaces, odds, diffs]

example : dxFaces ([0, 1, 2, 4, 6] : List ℝ) (some (-1)) (some 9) = [2, 3, 5] := by
  norm_num [dxFaces, odds, diffs]

/-- F = 1 + 2·psi on that line: fc = 3 9, fx = 1 5 13; slope 2 everywhere, with and without neighbours -/
example : ddxCentre ([1, 5, 13] : List ℝ) [2, 4] = [2, 2] := by
  norm_num [ddxCentre, diffs, zipDiv]

example : ddxXlow ([3, 9] : List ℝ) [1, 5, 13] [2, 3, 4] none none = [2, 2, 2] := by
  norm_num [ddxXlow, diffs, zipDiv]

example : ddxXlow ([3, 9] : List ℝ) [1, 5, 13] [2, 3, 5] (some (-1)) (some 19) = [2, 2, 2] := by
  norm_num [ddxXlow, diffs, zipDiv]

/-- the same field with the pre-repair `dx.xlow = 0`: every entry 0, not 2 -/
example : ddxXlow ([3, 9] : List ℝ) [1, 5, 13] [0, 0, 0] none none = [0, 0, 0] := by
  norm_num [ddxXlow, diffs, zipDiv]

/-- the hypotheses of `ddxXlow_affine_exact_of_monotone` / `dxFaces_consistent_across_boundary` are satisfiable:
    P k = k (increasing) and P k = -k (decreasing), neighbours one cell further out -/
example : StrictlyMonotoneLine 2 (fun k => (k : ℝ)) ∧ StrictlyMonotoneLine 2 (fun k => -(k : ℝ)) ∧
    (∀ pi, some (-1 : ℝ) = some pi → pi ≠ (fun k : ℕ => (k : ℝ)) 1) ∧
    (∀ po, some (5 : ℝ) = some po → po ≠ (fun k : ℕ => (k : ℝ)) (2 * 2 - 1)) := by
  refine ⟨Or.inl fun k _ => by simp, Or.inr fun k _ => by simp, ?_, ?_⟩
  · intro pi h
    rw [← Option.some.inj h]
    norm_num
  · intro po h
    rw [← Option.some.inj h]
    norm_num

/-- two adjacent regions: A = 0 1 2 4 6, B = 6 7 8 (shared face psi = 6): dx at the shared face is 7 - 4 = 3 from both sides -/
example : (dxFaces ([0, 1, 2, 4, 6] : List ℝ) none (some 7))[2]? = some 3 ∧
    (dxFaces ([6, 7, 8] : List ℝ) (some 4) none)[0]? = some 3 := by
  norm_num [dxFaces, odds, diffs]

end StencilSection

end HypnoModel.Props.C06
