/-
C09 — radial psi spacing functions (`Equilibrium.getSmoothMonotonicGridFunc`, hypnotoad/core/equilibrium.py).
Definitions: HypnoModel/Gen/Spacing.lean (GENERATED from the Python on every run; `Gen.R.Spacing.*` over ℝ, with the
branch conditions `_guard` incl. the code's 1e-8 tolerance band, the sign checks `_signs`, and the brentq equations
`_constraint`).  Normal forms and helper lemmas: HypnoModel/Lemmas/Spacing.lean.  This file: property theorems only.
`erf : ℝ → ℝ` and `sici : ℝ → ℝ × ℝ` (`sici x = (Si x, Ci x)`) are parameters; only the stated facts about them are used.
-/
import HypnoModel.Gen.Spacing
import HypnoModel.Gen.Tokamak
import HypnoModel.Lemmas.Spacing

namespace HypnoModel.Props.C09
open Real Gen.R.Spacing

/-! ## 1. endpoints of the closed-form paths -/

/-- `linear`: value `lower` at index 0 and `upper` at index n -/
theorem linear_endpoints (n lower upper : ℝ) (hn : n ≠ 0) :
    linear n lower upper 0 = lower ∧ linear n lower upper n = upper := by
  rw [SpacingLemmas.linear_eq, SpacingLemmas.linear_eq]
  exact ⟨SpacingLemmas.fLin_zero n lower upper, SpacingLemmas.fLin_n n lower upper hn⟩

/-- `lowerPoly` (cubic, gradient prescribed at 0): value `lower` at 0 and `upper` at n, whatever the gradient -/
theorem lowerPoly_endpoints (n lower upper grad_lower : ℝ) (hn : n ≠ 0) :
    lowerPoly n lower upper grad_lower 0 = lower ∧ lowerPoly n lower upper grad_lower n = upper := by
  rw [SpacingLemmas.lowerPoly_eq, SpacingLemmas.lowerPoly_eq]
  exact ⟨SpacingLemmas.fCub_zero n lower upper grad_lower, SpacingLemmas.fCub_n n lower upper grad_lower hn⟩

/-- `upperPoly` (cubic, gradient prescribed at n): value `lower` at 0 and `upper` at n -/
theorem upperPoly_endpoints (n lower upper grad_upper : ℝ) (hn : n ≠ 0) :
    upperPoly n lower upper grad_upper 0 = lower ∧ upperPoly n lower upper grad_upper n = upper := by
  rw [SpacingLemmas.upperPoly_eq, SpacingLemmas.upperPoly_eq]
  exact ⟨SpacingLemmas.fCubU_zero n lower upper grad_upper hn, SpacingLemmas.fCubU_n n lower upper grad_upper⟩

/-- `bothTrig` (both gradients prescribed): value `lower` at 0 and `upper` at n -/
theorem bothTrig_endpoints (n lower upper grad_lower grad_upper : ℝ) (hn : n ≠ 0) :
    bothTrig n lower upper grad_lower grad_upper 0 = lower ∧
    bothTrig n lower upper grad_lower grad_upper n = upper := by
  rw [SpacingLemmas.bothTrig_eq, SpacingLemmas.bothTrig_eq]
  exact ⟨SpacingLemmas.fT_zero n lower upper grad_lower grad_upper,
    SpacingLemmas.fT_n n lower upper grad_lower grad_upper hn⟩

/-! ## 2. strict monotonicity on [0,n] under exactly the conditions the code checks -/

/-- `linear` is strictly increasing when lower < upper (its guard and sign conditions are `True`) -/
theorem linear_strictMono (n lower upper : ℝ) (hn : 0 < n) (h : lower < upper) :
    StrictMonoOn (linear n lower upper) (Set.Icc 0 n) := by
  rw [SpacingLemmas.linear_funeq]
  exact (SpacingLemmas.fLin_strictMono n lower upper hn h).strictMonoOn _

/-- `linear` is strictly decreasing when upper < lower -/
theorem linear_strictAnti (n lower upper : ℝ) (hn : 0 < n) (h : upper < lower) :
    StrictAntiOn (linear n lower upper) (Set.Icc 0 n) := by
  rw [SpacingLemmas.linear_funeq]
  exact SpacingLemmas.strictAntiOn_of_neg (SpacingLemmas.fLin_odd n lower upper)
    ((SpacingLemmas.fLin_strictMono n (-lower) (-upper) hn (by linarith)).strictMonoOn _)

/-- `lowerPoly`, increasing case: in the branch the code selects (|grad_lower·n| < |upper-lower|·(1+1e-8), tolerance band
    included) and with the sign check passed, the cubic is strictly increasing on [0,n] -/
theorem lowerPoly_strictMono (n lower upper grad_lower : ℝ) (hn : 0 < n) (h : lower < upper)
    (hguard : lowerPoly_guard n lower upper grad_lower) (hsigns : lowerPoly_signs n lower upper grad_lower) :
    StrictMonoOn (lowerPoly n lower upper grad_lower) (Set.Icc 0 n) :=
  SpacingLemmas.lowerPoly_strictMonoOn n lower upper grad_lower hn h hguard hsigns

/-- `lowerPoly`, decreasing case (upper < lower) -/
theorem lowerPoly_strictAnti (n lower upper grad_lower : ℝ) (hn : 0 < n) (h : upper < lower)
    (hguard : lowerPoly_guard n lower upper grad_lower) (hsigns : lowerPoly_signs n lower upper grad_lower) :
    StrictAntiOn (lowerPoly n lower upper grad_lower) (Set.Icc 0 n) :=
  SpacingLemmas.lowerPoly_strictAntiOn n lower upper grad_lower hn h hguard hsigns

/-- `upperPoly`, increasing case, under its guard (with tolerance band) and sign check -/
theorem upperPoly_strictMono (n lower upper grad_upper : ℝ) (hn : 0 < n) (h : lower < upper)
    (hguard : upperPoly_guard n lower upper grad_upper) (hsigns : upperPoly_signs n lower upper grad_upper) :
    StrictMonoOn (upperPoly n lower upper grad_upper) (Set.Icc 0 n) :=
  SpacingLemmas.upperPoly_strictMonoOn n lower upper grad_upper hn h hguard hsigns

/-- `upperPoly`, decreasing case -/
theorem upperPoly_strictAnti (n lower upper grad_upper : ℝ) (hn : 0 < n) (h : upper < lower)
    (hguard : upperPoly_guard n lower upper grad_upper) (hsigns : upperPoly_signs n lower upper grad_upper) :
    StrictAntiOn (upperPoly n lower upper grad_upper) (Set.Icc 0 n) :=
  SpacingLemmas.upperPoly_strictAntiOn n lower upper grad_upper hn h hguard hsigns

/-- `bothTrig`, increasing case, under its guard (½|gl+gu|·n < |upper-lower|·(1+1e-8)) and both sign checks -/
theorem bothTrig_strictMono (n lower upper grad_lower grad_upper : ℝ) (hn : 0 < n) (h : lower < upper)
    (hguard : bothTrig_guard n lower upper grad_lower grad_upper)
    (hsigns : bothTrig_signs n lower upper grad_lower grad_upper) :
    StrictMonoOn (bothTrig n lower upper grad_lower grad_upper) (Set.Icc 0 n) :=
  SpacingLemmas.bothTrig_strictMonoOn n lower upper grad_lower grad_upper hn h hguard hsigns

/-- `bothTrig`, decreasing case -/
theorem bothTrig_strictAnti (n lower upper grad_lower grad_upper : ℝ) (hn : 0 < n) (h : upper < lower)
    (hguard : bothTrig_guard n lower upper grad_lower grad_upper)
    (hsigns : bothTrig_signs n lower upper grad_lower grad_upper) :
    StrictAntiOn (bothTrig n lower upper grad_lower grad_upper) (Set.Icc 0 n) :=
  SpacingLemmas.bothTrig_strictAntiOn n lower upper grad_lower grad_upper hn h hguard hsigns

/-! ## 3. prescribed end gradients, vanishing second derivative there -/

/-- `lowerPoly`: the derivative is `grad_lower + a·i²` with `a = 3(upper-lower-grad_lower·n)/n³` (the code's `dpsidi`),
    so it equals `grad_lower` at 0, and the second derivative at 0 exists and is 0 -/
theorem lowerPoly_deriv (n lower upper grad_lower : ℝ) :
    (∀ i, HasDerivAt (lowerPoly n lower upper grad_lower)
        (grad_lower + 3 * (upper - lower - grad_lower * n) / n ^ 3 * i ^ 2) i) ∧
    HasDerivAt (lowerPoly n lower upper grad_lower) grad_lower 0 ∧
    HasDerivAt (deriv (lowerPoly n lower upper grad_lower)) 0 0 := by
  rw [SpacingLemmas.lowerPoly_funeq]
  refine ⟨fun i => SpacingLemmas.fCub_hasDeriv n lower upper grad_lower i, ?_,
    SpacingLemmas.fCub_deriv2_zero n lower upper grad_lower⟩
  simpa using SpacingLemmas.fCub_hasDeriv n lower upper grad_lower 0

/-- `upperPoly`: the derivative is `grad_upper + a·(n-i)²`, equal to `grad_upper` at n, and the second derivative at n
    exists and is 0 -/
theorem upperPoly_deriv (n lower upper grad_upper : ℝ) :
    (∀ i, HasDerivAt (upperPoly n lower upper grad_upper)
        (grad_upper + 3 * (upper - lower - grad_upper * n) / n ^ 3 * (n - i) ^ 2) i) ∧
    HasDerivAt (upperPoly n lower upper grad_upper) grad_upper n ∧
    HasDerivAt (deriv (upperPoly n lower upper grad_upper)) 0 n := by
  rw [SpacingLemmas.upperPoly_funeq]
  refine ⟨fun i => SpacingLemmas.fCubU_hasDeriv n lower upper grad_upper i, ?_,
    SpacingLemmas.fCubU_deriv2_zero n lower upper grad_upper⟩
  simpa using SpacingLemmas.fCubU_hasDeriv n lower upper grad_upper n

/-- `bothTrig`: the derivative everywhere is the code's `dpsidi`
    `½(gl+gu) + ½(gl-gu)cos(πi/n) + a(1-cos(2πi/n))`, `a = (upper-lower-½(gl+gu)n)/n`; it is `grad_lower` at 0 and
    `grad_upper` at n, and the second derivative exists and vanishes at both ends -/
theorem bothTrig_deriv (n lower upper grad_lower grad_upper : ℝ) (hn : n ≠ 0) :
    (∀ i, HasDerivAt (bothTrig n lower upper grad_lower grad_upper)
        (1/2 * (grad_lower + grad_upper) + 1/2 * (grad_lower - grad_upper) * cos (π * i / n)
          + (upper - lower - 1/2 * (grad_lower + grad_upper) * n) / n * (1 - cos (2 * π * i / n))) i) ∧
    HasDerivAt (bothTrig n lower upper grad_lower grad_upper) grad_lower 0 ∧
    HasDerivAt (bothTrig n lower upper grad_lower grad_upper) grad_upper n ∧
    HasDerivAt (deriv (bothTrig n lower upper grad_lower grad_upper)) 0 0 ∧
    HasDerivAt (deriv (bothTrig n lower upper grad_lower grad_upper)) 0 n := by
  rw [SpacingLemmas.bothTrig_funeq, SpacingLemmas.fT_deriv n lower upper grad_lower grad_upper hn]
  refine ⟨fun i => SpacingLemmas.fT_hasDeriv n lower upper grad_lower grad_upper i hn, ?_, ?_, ?_, ?_⟩
  · have h := SpacingLemmas.fT_hasDeriv n lower upper grad_lower grad_upper 0 hn
    rwa [SpacingLemmas.fT'_zero] at h
  · have h := SpacingLemmas.fT_hasDeriv n lower upper grad_lower grad_upper n hn
    rwa [SpacingLemmas.fT'_n n lower upper grad_lower grad_upper hn] at h
  · have h := SpacingLemmas.fT'_hasDeriv n lower upper grad_lower grad_upper 0
    rwa [SpacingLemmas.fT''_zero] at h
  · have h := SpacingLemmas.fT'_hasDeriv n lower upper grad_lower grad_upper n
    rwa [SpacingLemmas.fT''_n n lower upper grad_lower grad_upper hn] at h

/-! ## 4. nesting: refining the index by a factor k (gradients per index divided by k) keeps the old faces -/

/-- `linear`: the grid with k·n intervals evaluated at index k·i is the grid with n intervals at index i -/
theorem linear_nesting (k n lower upper i : ℝ) (hk : k ≠ 0) (hn : n ≠ 0) :
    linear (k * n) lower upper (k * i) = linear n lower upper i := by
  rw [SpacingLemmas.linear_eq, SpacingLemmas.linear_eq]
  exact SpacingLemmas.fLin_nest k n lower upper i hk hn

/-- `lowerPoly` nests -/
theorem lowerPoly_nesting (k n lower upper grad_lower i : ℝ) (hk : k ≠ 0) (hn : n ≠ 0) :
    lowerPoly (k * n) lower upper (grad_lower / k) (k * i) = lowerPoly n lower upper grad_lower i := by
  rw [SpacingLemmas.lowerPoly_eq, SpacingLemmas.lowerPoly_eq]
  exact SpacingLemmas.fCub_nest k n lower upper grad_lower i hk hn

/-- `upperPoly` nests -/
theorem upperPoly_nesting (k n lower upper grad_upper i : ℝ) (hk : k ≠ 0) (hn : n ≠ 0) :
    upperPoly (k * n) lower upper (grad_upper / k) (k * i) = upperPoly n lower upper grad_upper i := by
  rw [SpacingLemmas.upperPoly_eq, SpacingLemmas.upperPoly_eq]
  exact SpacingLemmas.fCubU_nest k n lower upper grad_upper i hk hn

/-- `bothTrig` nests -/
theorem bothTrig_nesting (k n lower upper grad_lower grad_upper i : ℝ) (hk : k ≠ 0) (hn : n ≠ 0) :
    bothTrig (k * n) lower upper (grad_lower / k) (grad_upper / k) (k * i)
      = bothTrig n lower upper grad_lower grad_upper i := by
  rw [SpacingLemmas.bothTrig_eq, SpacingLemmas.bothTrig_eq]
  exact SpacingLemmas.fT_nest k n lower upper grad_lower grad_upper i hk hn

/-! ## 5. oddness in psi: negating all psi-valued inputs negates the spacing function -/

/-- `linear` is odd in (lower, upper) -/
theorem linear_odd (n lower upper i : ℝ) :
    linear n (-lower) (-upper) i = - linear n lower upper i := by
  rw [SpacingLemmas.linear_eq, SpacingLemmas.linear_eq]; exact SpacingLemmas.fLin_odd n lower upper i

/-- `lowerPoly` is odd in (lower, upper, grad_lower) -/
theorem lowerPoly_odd (n lower upper grad_lower i : ℝ) :
    lowerPoly n (-lower) (-upper) (-grad_lower) i = - lowerPoly n lower upper grad_lower i := by
  rw [SpacingLemmas.lowerPoly_eq, SpacingLemmas.lowerPoly_eq]
  exact SpacingLemmas.fCub_odd n lower upper grad_lower i

/-- `upperPoly` is odd in (lower, upper, grad_upper) -/
theorem upperPoly_odd (n lower upper grad_upper i : ℝ) :
    upperPoly n (-lower) (-upper) (-grad_upper) i = - upperPoly n lower upper grad_upper i := by
  rw [SpacingLemmas.upperPoly_eq, SpacingLemmas.upperPoly_eq]
  exact SpacingLemmas.fCubU_odd n lower upper grad_upper i

/-- `bothTrig` is odd in (lower, upper, grad_lower, grad_upper) -/
theorem bothTrig_odd (n lower upper grad_lower grad_upper i : ℝ) :
    bothTrig n (-lower) (-upper) (-grad_lower) (-grad_upper) i
      = - bothTrig n lower upper grad_lower grad_upper i := by
  rw [SpacingLemmas.bothTrig_eq, SpacingLemmas.bothTrig_eq]
  exact SpacingLemmas.fT_odd n lower upper grad_lower grad_upper i

/-! ## 6. branch switch: at the parameter values where the branch flips, the polynomial/trig path has coefficient a = 0 -/

/-- when `|grad_lower·n| = |upper-lower|` (sign check passed) `lowerPoly` is the constant-gradient function -/
theorem lowerPoly_branch_switch (n lower upper grad_lower : ℝ) (hn : 0 < n)
    (hsigns : lowerPoly_signs n lower upper grad_lower) (h : |grad_lower * n| = |upper - lower|) :
    lowerPoly n lower upper grad_lower = fun i => lower + grad_lower * i := by
  funext i
  rw [SpacingLemmas.lowerPoly_eq]
  unfold SpacingLemmas.fCub
  rw [SpacingLemmas.aCoef_switch n lower upper grad_lower hn hsigns h]; ring

/-- when `|grad_upper·n| = |upper-lower|` (sign check passed) `upperPoly` is the constant-gradient function -/
theorem upperPoly_branch_switch (n lower upper grad_upper : ℝ) (hn : 0 < n)
    (hsigns : upperPoly_signs n lower upper grad_upper) (h : |grad_upper * n| = |upper - lower|) :
    upperPoly n lower upper grad_upper = fun i => upper + grad_upper * (i - n) := by
  funext i
  rw [SpacingLemmas.upperPoly_eq]
  unfold SpacingLemmas.fCubU
  rw [SpacingLemmas.aCoef_switch n lower upper grad_upper hn hsigns h]; ring

/-- when `½|gl+gu|·n = |upper-lower|` (sign checks passed) the `a(…)` term of `bothTrig` drops out -/
theorem bothTrig_branch_switch (n lower upper grad_lower grad_upper : ℝ) (hn : 0 < n)
    (hsigns : bothTrig_signs n lower upper grad_lower grad_upper)
    (h : 1/2 * |grad_lower + grad_upper| * n = |upper - lower|) :
    bothTrig n lower upper grad_lower grad_upper = fun i =>
      lower + 1/2 * (grad_lower + grad_upper) * i + 1/2 * (grad_lower - grad_upper) * n / π * sin (π * i / n) := by
  funext i
  rw [SpacingLemmas.bothTrig_eq]
  unfold SpacingLemmas.fT
  rw [SpacingLemmas.aT_switch n lower upper grad_lower grad_upper hn hsigns.1 hsigns.2 h]; ring

/-! ## 7. solver paths (`root` is the value brentq returned; `erf`, `sici` are parameters) -/

/-- `lowerErf`: value `lower` at 0, and the miss at n is exactly the residual of the equation brentq solved -/
theorem lowerErf_endpoints (erf : ℝ → ℝ) (h0 : erf 0 = 0) (n lower upper grad_lower root : ℝ) :
    lowerErf erf n lower upper grad_lower root 0 = lower ∧
    lowerErf erf n lower upper grad_lower root n - upper = lowerErf_constraint erf n lower upper grad_lower root :=
  SpacingLemmas.lowerErf_endpoints erf h0 n lower upper grad_lower root

/-- `upperErf`: value `upper` at n, and the miss at 0 is the residual of the equation brentq solved (erf odd) -/
theorem upperErf_endpoints (erf : ℝ → ℝ) (h0 : erf 0 = 0) (hodd : ∀ x, erf (-x) = - erf x)
    (n lower upper grad_upper root : ℝ) :
    upperErf erf n lower upper grad_upper root n = upper ∧
    lower - upperErf erf n lower upper grad_upper root 0 = upperErf_constraint erf n lower upper grad_upper root :=
  SpacingLemmas.upperErf_endpoints erf h0 hodd n lower upper grad_upper root

/-- `lowerErf` is strictly increasing (on all of ℝ) for a positive gradient, any positive root -/
theorem lowerErf_strictMono (erf : ℝ → ℝ) (herf : StrictMono erf) (n lower upper grad_lower root : ℝ)
    (hroot : 0 < root) (hg : 0 < grad_lower) :
    StrictMono (lowerErf erf n lower upper grad_lower root) := by
  rw [show lowerErf erf n lower upper grad_lower root = SpacingLemmas.fErfL erf lower grad_lower root from
    funext (SpacingLemmas.lowerErf_eq erf n lower upper grad_lower root)]
  exact SpacingLemmas.fErfL_strictMono erf herf lower grad_lower root hg hroot

/-- `upperErf` is strictly increasing (on all of ℝ) for a positive gradient, any positive root -/
theorem upperErf_strictMono (erf : ℝ → ℝ) (herf : StrictMono erf) (n lower upper grad_upper root : ℝ)
    (hroot : 0 < root) (hg : 0 < grad_upper) :
    StrictMono (upperErf erf n lower upper grad_upper root) := by
  rw [show upperErf erf n lower upper grad_upper root = SpacingLemmas.fErfU erf n upper grad_upper root from
    funext (SpacingLemmas.upperErf_eq erf n lower upper grad_upper root)]
  exact SpacingLemmas.fErfU_strictMono erf herf n upper grad_upper root hg hroot

/-- `lowerErf` under what the code checks (erf branch taken, sign check passed), lower < upper: the gradient is
    necessarily positive and the function strictly increasing -/
theorem lowerErf_strictMono_of_guard (erf : ℝ → ℝ) (herf : StrictMono erf) (n lower upper grad_lower root : ℝ)
    (hroot : 0 < root) (h : lower < upper)
    (hguard : lowerErf_guard n lower upper grad_lower) (hsigns : lowerErf_signs n lower upper grad_lower) :
    StrictMono (lowerErf erf n lower upper grad_lower root) :=
  SpacingLemmas.lowerErf_strictMono' erf herf n lower upper grad_lower root hroot h hguard hsigns

/-- `lowerErf` under what the code checks, upper < lower: strictly decreasing -/
theorem lowerErf_strictAnti_of_guard (erf : ℝ → ℝ) (herf : StrictMono erf) (n lower upper grad_lower root : ℝ)
    (hroot : 0 < root) (h : upper < lower)
    (hguard : lowerErf_guard n lower upper grad_lower) (hsigns : lowerErf_signs n lower upper grad_lower) :
    StrictAnti (lowerErf erf n lower upper grad_lower root) :=
  SpacingLemmas.lowerErf_strictAnti' erf herf n lower upper grad_lower root hroot h hguard hsigns

/-- `upperErf` under what the code checks, lower < upper: strictly increasing -/
theorem upperErf_strictMono_of_guard (erf : ℝ → ℝ) (herf : StrictMono erf) (n lower upper grad_upper root : ℝ)
    (hroot : 0 < root) (h : lower < upper)
    (hguard : upperErf_guard n lower upper grad_upper) (hsigns : upperErf_signs n lower upper grad_upper) :
    StrictMono (upperErf erf n lower upper grad_upper root) :=
  SpacingLemmas.upperErf_strictMono' erf herf n lower upper grad_upper root hroot h hguard hsigns

/-- `upperErf` under what the code checks, upper < lower: strictly decreasing -/
theorem upperErf_strictAnti_of_guard (erf : ℝ → ℝ) (herf : StrictMono erf) (n lower upper grad_upper root : ℝ)
    (hroot : 0 < root) (h : upper < lower)
    (hguard : upperErf_guard n lower upper grad_upper) (hsigns : upperErf_signs n lower upper grad_upper) :
    StrictAnti (upperErf erf n lower upper grad_upper root) :=
  SpacingLemmas.upperErf_strictAnti' erf herf n lower upper grad_upper root hroot h hguard hsigns

/-- `bothSici`: value `lower` at 0, and the miss at n is exactly the residual of the equation brentq solved
    (uses only that Ci, the second component of `sici`, is even — as scipy's is on the reals up to the imaginary part
    it drops) -/
theorem bothSici_endpoints (sici : ℝ → ℝ × ℝ) (n lower upper grad_lower grad_upper root : ℝ)
    (hn : 0 < n) (hroot : 0 < root) (hCi : ∀ x, (sici (-x)).2 = (sici x).2) :
    bothSici sici n lower upper grad_lower grad_upper root 0 = lower ∧
    bothSici sici n lower upper grad_lower grad_upper root n - upper
      = bothSici_constraint sici n lower upper grad_lower grad_upper root :=
  ⟨SpacingLemmas.bothSici_zero sici n lower upper grad_lower grad_upper root hn hroot,
   SpacingLemmas.bothSici_n sici n lower upper grad_lower grad_upper root hn hroot hCi⟩

/-! ## 8. the hypotheses are satisfiable -/

/-- hypotheses of `lowerPoly_strictMono`: n=4, lower=0, upper=1, grad_lower=1/8 -/
example : ∃ n lower upper g : ℝ, 0 < n ∧ lower < upper ∧ lowerPoly_guard n lower upper g ∧
    lowerPoly_signs n lower upper g :=
  ⟨4, 0, 1, 1/8, by norm_num, by norm_num, by unfold lowerPoly_guard; norm_num [abs_of_pos],
    by unfold lowerPoly_signs; norm_num⟩

/-- hypotheses of `lowerPoly_strictAnti`: n=4, lower=1, upper=0, grad_lower=-1/8 -/
example : ∃ n lower upper g : ℝ, 0 < n ∧ upper < lower ∧ lowerPoly_guard n lower upper g ∧
    lowerPoly_signs n lower upper g :=
  ⟨4, 1, 0, -1/8, by norm_num, by norm_num, by unfold lowerPoly_guard; norm_num [abs_of_pos],
    by unfold lowerPoly_signs; norm_num⟩

/-- hypotheses of `upperPoly_strictMono` -/
example : ∃ n lower upper g : ℝ, 0 < n ∧ lower < upper ∧ upperPoly_guard n lower upper g ∧
    upperPoly_signs n lower upper g :=
  ⟨4, 0, 1, 1/8, by norm_num, by norm_num, by unfold upperPoly_guard; norm_num [abs_of_pos],
    by unfold upperPoly_signs; norm_num⟩

/-- hypotheses of `upperPoly_strictAnti` -/
example : ∃ n lower upper g : ℝ, 0 < n ∧ upper < lower ∧ upperPoly_guard n lower upper g ∧
    upperPoly_signs n lower upper g :=
  ⟨4, 1, 0, -1/8, by norm_num, by norm_num, by unfold upperPoly_guard; norm_num [abs_of_pos],
    by unfold upperPoly_signs; norm_num⟩

/-- hypotheses of `bothTrig_strictMono`: n=4, lower=0, upper=1, grad_lower=1/8, grad_upper=1/4 -/
example : ∃ n lower upper gl gu : ℝ, 0 < n ∧ lower < upper ∧ bothTrig_guard n lower upper gl gu ∧
    bothTrig_signs n lower upper gl gu :=
  ⟨4, 0, 1, 1/8, 1/4, by norm_num, by norm_num, by unfold bothTrig_guard; norm_num [abs_of_pos],
    by unfold bothTrig_signs; norm_num⟩

/-- hypotheses of `bothTrig_strictAnti` -/
example : ∃ n lower upper gl gu : ℝ, 0 < n ∧ upper < lower ∧ bothTrig_guard n lower upper gl gu ∧
    bothTrig_signs n lower upper gl gu :=
  ⟨4, 1, 0, -1/8, -1/4, by norm_num, by norm_num, by unfold bothTrig_guard; norm_num [abs_of_pos],
    by unfold bothTrig_signs; norm_num⟩

/-- hypotheses of `lowerPoly_branch_switch` / `upperPoly_branch_switch`: n=4, lower=0, upper=1, grad=1/4 -/
example : ∃ n lower upper g : ℝ, 0 < n ∧ lowerPoly_signs n lower upper g ∧ upperPoly_signs n lower upper g ∧
    |g * n| = |upper - lower| :=
  ⟨4, 0, 1, 1/4, by norm_num, by unfold lowerPoly_signs; norm_num, by unfold upperPoly_signs; norm_num,
    by norm_num⟩

/-- hypotheses of `bothTrig_branch_switch`: n=4, lower=0, upper=1, grad_lower=1/8, grad_upper=3/8 -/
example : ∃ n lower upper gl gu : ℝ, 0 < n ∧ bothTrig_signs n lower upper gl gu ∧
    1/2 * |gl + gu| * n = |upper - lower| :=
  ⟨4, 0, 1, 1/8, 3/8, by norm_num, by unfold bothTrig_signs; norm_num, by norm_num [abs_of_pos]⟩

/-- hypotheses on `erf` in `lowerErf_endpoints`, `upperErf_endpoints`, `…Erf_strictMono`: satisfied e.g. by the identity
    (and by the real error function) -/
example : ∃ erf : ℝ → ℝ, erf 0 = 0 ∧ (∀ x, erf (-x) = - erf x) ∧ StrictMono erf :=
  ⟨id, rfl, fun _ => rfl, strictMono_id⟩

/-- hypotheses of `lowerErf_strictMono_of_guard` / `upperErf_strictMono_of_guard`: n=4, lower=0, upper=1, grad=1 -/
example : ∃ n lower upper g root : ℝ, 0 < root ∧ lower < upper ∧ lowerErf_guard n lower upper g ∧
    lowerErf_signs n lower upper g ∧ upperErf_guard n lower upper g ∧ upperErf_signs n lower upper g :=
  ⟨4, 0, 1, 1, 1, by norm_num, by norm_num, by unfold lowerErf_guard; norm_num [abs_of_pos],
    by unfold lowerErf_signs; norm_num, by unfold upperErf_guard; norm_num [abs_of_pos],
    by unfold upperErf_signs; norm_num⟩

/-- hypotheses of `lowerErf_strictAnti_of_guard` / `upperErf_strictAnti_of_guard`: n=4, lower=1, upper=0, grad=-1 -/
example : ∃ n lower upper g root : ℝ, 0 < root ∧ upper < lower ∧ lowerErf_guard n lower upper g ∧
    lowerErf_signs n lower upper g ∧ upperErf_guard n lower upper g ∧ upperErf_signs n lower upper g :=
  ⟨4, 1, 0, -1, 1, by norm_num, by norm_num, by unfold lowerErf_guard; norm_num [abs_of_pos],
    by unfold lowerErf_signs; norm_num, by unfold upperErf_guard; norm_num [abs_of_pos],
    by unfold upperErf_signs; norm_num⟩

/-- hypotheses of `bothSici_endpoints` -/
example : ∃ (sici : ℝ → ℝ × ℝ) (n root : ℝ), 0 < n ∧ 0 < root ∧ ∀ x, (sici (-x)).2 = (sici x).2 :=
  ⟨fun _ => (0, 0), 4, 1, by norm_num, by norm_num, fun _ => rfl⟩

/-! ## The segments the real describe* code builds (GENERATED `Gen.Tokamak`)

Every radial segment of describeSingleNull / describeDoubleNull as written in the source.  One and the same expression is used as the
gradient at every segment end that lies on a separatrix (same gradient on both sides), every such end has a gradient, and the
separatrix multiplier is applied to that expression exactly once, in place, before any segment reads it. -/
section Segments
open Gen.Tokamak

/-- the source expressions that denote a separatrix value -/
def sepNames : List String := ["psi_sep", "self.psi_sep[0]", "self.psi_sep[1]", "self.psi_sep[-1]", "upper_psi", "lower_psi"]

def gradsOf (segs : List (String × List (String × String))) : List String :=
  (segs.flatMap fun s => s.2.filterMap fun kv => if kv.1 = "grad_start" ∨ kv.1 = "grad_end" then some kv.2 else none).eraseDups

/-- a segment end on a separatrix carries a gradient -/
def endsCovered (segs : List (String × List (String × String))) : Bool :=
  segs.all fun s =>
    ((s.2.lookup "psi_start").all fun v => !(sepNames.contains v) || (s.2.lookup "grad_start").isSome) &&
    ((s.2.lookup "psi_end").all fun v => !(sepNames.contains v) || (s.2.lookup "grad_end").isSome)

theorem segments_one_gradient : (gradsOf segmentsSingleNull).length = 1 ∧ (gradsOf segmentsDoubleNull).length = 1 := by decide
theorem segments_ends_covered : endsCovered segmentsSingleNull = true ∧ endsCovered segmentsDoubleNull = true := by decide
/-- the separatrix multiplier is applied to that one gradient exactly once, in place, after its definition -/
theorem segments_multiplier_once :
    (gradHistorySingleNull.map fun h => (h.1, h.2.1)) = [(((gradsOf segmentsSingleNull).headD ""), "="), (((gradsOf segmentsSingleNull).headD ""), "*=")] ∧
    (gradHistoryDoubleNull.map fun h => (h.1, h.2.1)) = [(((gradsOf segmentsDoubleNull).headD ""), "="), (((gradsOf segmentsDoubleNull).headD ""), "*=")] ∧
    (gradHistorySingleNull.getLast?.map fun h => h.2.2) = some "self.user_options.psi_spacing_separatrix_multiplier" ∧
    (gradHistoryDoubleNull.getLast?.map fun h => h.2.2) = some "self.user_options.psi_spacing_separatrix_multiplier" := by decide


end Segments

end HypnoModel.Props.C09
