/-
C12 — a valid grid or an explicit error (the part carried by the model).
Model: HypnoModel/Model/Valid.lean (hand-written from `BoutMesh.writeGridfile`'s NaN mask on `chi`, `BoutMesh.__init__`'s
`dy_scalar`, the unused-option rejection of the scripts, and the NaN sets documented in doc/grid-file.rst) on top of the
topology-integer encoder of HypnoModel/Model/Topology.lean (theorems about the encoder: Props/C08.lean, imported).

File indexing.  BOUT++ y-indices carry no boundary cells; the grid file has `myg` boundary cells at every target.
* single null, regions [leg, core, leg] = [y0, y1, y2]: file index j ∈ [0, y0+y1+y2+2·myg), BOUT++ index j − myg for
  myg ≤ j < myg+y0+y1+y2, the rest are boundary cells;
* double null, regions [il, ic, iu, ou, oc, ol] = [y0..y5]: file index j ∈ [0, Σ+4·myg); BOUT++ index j − myg for
  myg ≤ j < myg+y0+y1+y2 and j − 3·myg for y0+y1+y2+3·myg ≤ j < Σ+3·myg (`dnBoutIndex`); boundary cells below myg, in
  [myg+y0+y1+y2, y0+y1+y2+3·myg) (the two upper targets) and from Σ+3·myg on.
Remarks on the statements.
* The mask theorems are stated for `encode xs sep dn ys nyTot = some t` with ANY radial segmentation `xs` (the mask only reads
  the jyseps integers); no lower bound on the region sizes is needed for the single null, and the double null needs only
  y2 + y3 ≥ 1 (so that `jyseps2_1 ≠ jyseps1_2`, which is how the mask recognises a double null); all sizes ≥ 1 implies it.
* `Valid.coreBoutIndex` is the inverse index map on UNMASKED indices only: it switches to `j − 3·myg` at the start of the outer
  core (`jyseps1_2 + 3·myg + 1`), not at the start of the outer upper leg, so on region 3 (outer upper leg) it is not the
  BOUT++ index.  `coreBoutIndex_double_null` states exactly what holds: on unmasked indices it equals `dnBoutIndex`.
-/
import HypnoModel.Model.Valid
import HypnoModel.Props.C08
import Mathlib.Algebra.Order.Field.Rat

namespace HypnoModel.Props.C12
open Valid Topology

/-! ## 1. the verdict -/

theorem verdict_iff (s : Summary) :
    verdict s = true ↔ s.missing = 0 ∧ s.badShape = 0 ∧ s.nonfiniteOutside = 0 ∧ s.nonpositive = 0 ∧ s.zeroDx = 0 ∧
      s.folded = 0 := by
  simp [verdict, and_assoc]

theorem verdict_monotone (s s' : Summary) (h1 : s'.missing ≤ s.missing) (h2 : s'.badShape ≤ s.badShape)
    (h3 : s'.nonfiniteOutside ≤ s.nonfiniteOutside) (h4 : s'.nonpositive ≤ s.nonpositive) (h5 : s'.zeroDx ≤ s.zeroDx)
    (h6 : s'.folded ≤ s.folded) (hv : verdict s = true) : verdict s' = true := by
  rw [verdict_iff] at hv ⊢
  omega

/-! ## 2. cli -/

theorem cliAccepts_iff (e n m given : List String) :
    cliAccepts e n m given = true ↔ ∀ k ∈ given, k ∈ e ∨ k ∈ n ∨ k ∈ m := by
  simp [cliAccepts, List.all_eq_true, or_assoc]

theorem cliAccepts_reject_unknown (e n m given : List String) (k : String) (hk : k ∈ given)
    (he : k ∉ e) (hn : k ∉ n) (hm : k ∉ m) : cliAccepts e n m given = false := by
  rw [← Bool.not_eq_true, cliAccepts_iff]
  intro h
  rcases h k hk with h | h | h
  · exact he h
  · exact hn h
  · exact hm h

theorem cliAccepts_append (e n m g1 g2 : List String) :
    cliAccepts e n m (g1 ++ g2) = (cliAccepts e n m g1 && cliAccepts e n m g2) := by
  simp [cliAccepts, List.all_append]

theorem cliAccepts_perm (e n m g1 g2 : List String) (hp : g1.Perm g2) :
    cliAccepts e n m g1 = cliAccepts e n m g2 := by
  rw [Bool.eq_iff_iff, cliAccepts_iff, cliAccepts_iff]
  constructor
  · intro h k hk; exact h k (hp.mem_iff.mpr hk)
  · intro h k hk; exact h k (hp.mem_iff.mp hk)

/-! ## 3. chi mask -/

theorem encode_sn_jyseps (xs : List Nat) (sep : Nat) (dn : DNType) (y0 y1 y2 nyTot : Nat) (t : Topo)
    (h : encode xs sep dn [y0, y1, y2] nyTot = some t) :
    t.jyseps1_1 = (y0 : Int) - 1 ∧ t.jyseps2_1 = t.jyseps1_2 ∧ t.jyseps2_2 = ((y0 + y1 : Nat) : Int) - 1 := by
  unfold encode at h
  split at h
  · cases h
  · simp only [Option.some.injEq] at h
    subst h
    exact ⟨rfl, rfl, rfl⟩

theorem encode_dn_jyseps (xs : List Nat) (sep : Nat) (dn : DNType) (y0 y1 y2 y3 y4 y5 nyTot : Nat) (t : Topo)
    (h : encode xs sep dn [y0, y1, y2, y3, y4, y5] nyTot = some t) :
    t.jyseps1_1 = (y0 : Int) - 1 ∧ t.jyseps2_1 = ((y0 + y1 : Nat) : Int) - 1 ∧
      t.jyseps1_2 = ((y0 + y1 + y2 + y3 : Nat) : Int) - 1 ∧ t.jyseps2_2 = ((y0 + y1 + y2 + y3 + y4 : Nat) : Int) - 1 := by
  unfold encode at h
  split at h
  · cases h
  · simp only [Option.some.injEq] at h
    subst h
    exact ⟨rfl, rfl, rfl, rfl⟩

theorem encode_core_jyseps (xs : List Nat) (sep : Nat) (dn : DNType) (y0 nyTot : Nat) (t : Topo)
    (h : encode xs sep dn [y0] nyTot = some t) :
    t.jyseps1_1 = -1 ∧ t.jyseps2_1 = t.jyseps1_2 ∧ t.jyseps2_2 = (y0 : Int) - 1 := by
  unfold encode at h
  split at h
  · cases h
  · simp only [Option.some.injEq] at h
    subst h
    exact ⟨rfl, rfl, rfl⟩

theorem regionOf3 (y0 y1 y2 k : Nat) (hk : k < y0 + y1 + y2) :
    regionOf [y0, y1, y2] k = if k < y0 then 0 else if k < y0 + y1 then 1 else 2 := by
  simp only [regionOf]
  by_cases h0 : k < y0
  · simp [h0]
  · by_cases h1 : k < y0 + y1
    · have : k - y0 < y1 := by omega
      simp [h0, h1, this]
    · have h2 : ¬ k - y0 < y1 := by omega
      have h3 : k - y0 - y1 < y2 := by omega
      simp [h0, h1, h2, h3]

theorem regionOf6 (y0 y1 y2 y3 y4 y5 k : Nat) (hk : k < y0 + y1 + y2 + y3 + y4 + y5) :
    regionOf [y0, y1, y2, y3, y4, y5] k =
      if k < y0 then 0 else if k < y0 + y1 then 1 else if k < y0 + y1 + y2 then 2
      else if k < y0 + y1 + y2 + y3 then 3 else if k < y0 + y1 + y2 + y3 + y4 then 4 else 5 := by
  simp only [regionOf]
  by_cases h0 : k < y0
  · simp [h0]
  by_cases h1 : k < y0 + y1
  · have : k - y0 < y1 := by omega
    simp [h0, h1, this]
  have g1 : ¬ k - y0 < y1 := by omega
  by_cases h2 : k < y0 + y1 + y2
  · have : k - y0 - y1 < y2 := by omega
    simp [h0, h1, h2, g1, this]
  have g2 : ¬ k - y0 - y1 < y2 := by omega
  by_cases h3 : k < y0 + y1 + y2 + y3
  · have : k - y0 - y1 - y2 < y3 := by omega
    simp [h0, h1, h2, h3, g1, g2, this]
  have g3 : ¬ k - y0 - y1 - y2 < y3 := by omega
  by_cases h4 : k < y0 + y1 + y2 + y3 + y4
  · have : k - y0 - y1 - y2 - y3 < y4 := by omega
    simp [h0, h1, h2, h3, h4, g1, g2, g3, this]
  have g4 : ¬ k - y0 - y1 - y2 - y3 < y4 := by omega
  have : k - y0 - y1 - y2 - y3 - y4 < y5 := by omega
  simp [h0, h1, h2, h3, h4, g1, g2, g3, g4, this]

/-- the mask, as a proposition -/
theorem chiLegMask_false_iff (t : Topo) (myg j : Int) :
    chiLegMask t myg j = false ↔
      t.jyseps1_1 + myg + 1 ≤ j ∧
        (if t.jyseps2_1 ≠ t.jyseps1_2 then
           ¬ (t.jyseps2_1 + myg + 1 ≤ j ∧ j < t.jyseps1_2 + 3 * myg + 1) ∧ j < t.jyseps2_2 + 3 * myg + 1
         else j < t.jyseps2_2 + myg + 1) := by
  unfold chiLegMask
  by_cases h1 : j < t.jyseps1_1 + myg + 1
  · simp [h1]
  · by_cases h2 : t.jyseps2_1 = t.jyseps1_2
    · simp [h1, h2]; omega
    · simp [h1, h2]; omega

theorem chiLegMask_single_null (xs : List Nat) (sep : Nat) (dn : DNType) (y0 y1 y2 nyTot : Nat) (t : Topo)
    (h : encode xs sep dn [y0, y1, y2] nyTot = some t) (myg j : Int)
    (hlo : myg ≤ j) (hhi : j < myg + ((y0 + y1 + y2 : Nat) : Int)) :
    chiLegMask t myg j = false ↔ regionOf [y0, y1, y2] (j - myg).toNat = 1 := by
  obtain ⟨e1, e2, e3⟩ := encode_sn_jyseps xs sep dn y0 y1 y2 nyTot t h
  rw [chiLegMask_false_iff, if_neg (not_not.mpr e2), e1, e3, regionOf3 _ _ _ _ (by omega)]
  by_cases a : (j - myg).toNat < y0
  · simp [a]; omega
  · by_cases b : (j - myg).toNat < y0 + y1
    · simp [a, b]; omega
    · simp [a, b]; omega

theorem chiLegMask_single_null_boundary (xs : List Nat) (sep : Nat) (dn : DNType) (y0 y1 y2 nyTot : Nat) (t : Topo)
    (h : encode xs sep dn [y0, y1, y2] nyTot = some t) (myg j : Int)
    (hj : j < myg ∨ myg + ((y0 + y1 + y2 : Nat) : Int) ≤ j) : chiLegMask t myg j = true := by
  obtain ⟨e1, e2, e3⟩ := encode_sn_jyseps xs sep dn y0 y1 y2 nyTot t h
  rw [← Bool.not_eq_false, chiLegMask_false_iff, if_neg (not_not.mpr e2), e1, e3]
  omega

theorem coreBoutIndex_single_null (xs : List Nat) (sep : Nat) (dn : DNType) (y0 y1 y2 nyTot : Nat) (t : Topo)
    (h : encode xs sep dn [y0, y1, y2] nyTot = some t) (myg j : Int) : coreBoutIndex t myg j = j - myg := by
  obtain ⟨_, e2, _⟩ := encode_sn_jyseps xs sep dn y0 y1 y2 nyTot t h
  unfold coreBoutIndex
  rw [if_neg (fun hh => hh.1 e2)]

/-- file index → BOUT++ index of a double-null grid file -/
def dnBoutIndex (y0 y1 y2 : Nat) (myg j : Int) : Int :=
  if j < ((y0 + y1 + y2 : Nat) : Int) + 2 * myg then j - myg else j - 3 * myg

theorem chiLegMask_double_null (xs : List Nat) (sep : Nat) (dn : DNType) (y0 y1 y2 y3 y4 y5 nyTot : Nat) (t : Topo)
    (h : encode xs sep dn [y0, y1, y2, y3, y4, y5] nyTot = some t) (h23 : 1 ≤ y2 + y3) (myg j : Int) (hg : 0 ≤ myg)
    (hdom : (myg ≤ j ∧ j < myg + ((y0 + y1 + y2 : Nat) : Int)) ∨
      (((y0 + y1 + y2 : Nat) : Int) + 3 * myg ≤ j ∧ j < ((y0 + y1 + y2 + y3 + y4 + y5 : Nat) : Int) + 3 * myg)) :
    chiLegMask t myg j = false ↔
      (regionOf [y0, y1, y2, y3, y4, y5] (dnBoutIndex y0 y1 y2 myg j).toNat = 1 ∨
       regionOf [y0, y1, y2, y3, y4, y5] (dnBoutIndex y0 y1 y2 myg j).toNat = 4) := by
  obtain ⟨e1, e2, e3, e4⟩ := encode_dn_jyseps xs sep dn y0 y1 y2 y3 y4 y5 nyTot t h
  have hne : t.jyseps2_1 ≠ t.jyseps1_2 := by rw [e2, e3]; omega
  rw [chiLegMask_false_iff, if_pos hne, e1, e2, e3, e4]
  unfold dnBoutIndex
  rcases hdom with ⟨d1, d2⟩ | ⟨d1, d2⟩
  · rw [if_pos (by omega), regionOf6 _ _ _ _ _ _ _ (by omega)]
    generalize hk : (j - myg).toNat = k
    have hkj : (k : Int) = j - myg := by omega
    by_cases a0 : k < y0
    · simp [a0]; omega
    by_cases a1 : k < y0 + y1
    · simp [a0, a1]; omega
    have a2 : k < y0 + y1 + y2 := by omega
    simp [a0, a1, a2]; omega
  · rw [if_neg (by omega), regionOf6 _ _ _ _ _ _ _ (by omega)]
    generalize hk : (j - 3 * myg).toNat = k
    have hkj : (k : Int) = j - 3 * myg := by omega
    have a0 : ¬ k < y0 := by omega
    have a1 : ¬ k < y0 + y1 := by omega
    have a2 : ¬ k < y0 + y1 + y2 := by omega
    by_cases a3 : k < y0 + y1 + y2 + y3
    · simp [a0, a1, a2, a3]; omega
    by_cases a4 : k < y0 + y1 + y2 + y3 + y4
    · simp [a0, a1, a2, a3, a4]; omega
    simp [a0, a1, a2, a3, a4]; omega

theorem chiLegMask_double_null_boundary (xs : List Nat) (sep : Nat) (dn : DNType) (y0 y1 y2 y3 y4 y5 nyTot : Nat)
    (t : Topo) (h : encode xs sep dn [y0, y1, y2, y3, y4, y5] nyTot = some t) (h23 : 1 ≤ y2 + y3) (myg j : Int)
    (hj : j < myg ∨
      (myg + ((y0 + y1 + y2 : Nat) : Int) ≤ j ∧ j < ((y0 + y1 + y2 : Nat) : Int) + 3 * myg) ∨
      ((y0 + y1 + y2 + y3 + y4 + y5 : Nat) : Int) + 3 * myg ≤ j) : chiLegMask t myg j = true := by
  obtain ⟨e1, e2, e3, e4⟩ := encode_dn_jyseps xs sep dn y0 y1 y2 y3 y4 y5 nyTot t h
  have hne : t.jyseps2_1 ≠ t.jyseps1_2 := by rw [e2, e3]; omega
  rw [← Bool.not_eq_false, chiLegMask_false_iff, if_pos hne, e1, e2, e3, e4]
  omega

theorem coreBoutIndex_double_null (xs : List Nat) (sep : Nat) (dn : DNType) (y0 y1 y2 y3 y4 y5 nyTot : Nat) (t : Topo)
    (h : encode xs sep dn [y0, y1, y2, y3, y4, y5] nyTot = some t) (h23 : 1 ≤ y2 + y3) (myg j : Int) (hg : 0 ≤ myg)
    (hm : chiLegMask t myg j = false) : coreBoutIndex t myg j = dnBoutIndex y0 y1 y2 myg j := by
  obtain ⟨e1, e2, e3, e4⟩ := encode_dn_jyseps xs sep dn y0 y1 y2 y3 y4 y5 nyTot t h
  have hne : t.jyseps2_1 ≠ t.jyseps1_2 := by rw [e2, e3]; omega
  rw [chiLegMask_false_iff, if_pos hne, e1, e2, e3, e4] at hm
  unfold coreBoutIndex dnBoutIndex
  by_cases c : t.jyseps1_2 + 3 * myg + 1 ≤ j
  · rw [if_pos ⟨hne, c⟩, if_neg (by omega)]
  · rw [if_neg (fun hh => c hh.2), if_pos (by omega)]

theorem chiLegMask_core_only_iff (xs : List Nat) (sep : Nat) (dn : DNType) (y0 nyTot : Nat) (t : Topo)
    (h : encode xs sep dn [y0] nyTot = some t) (myg j : Int) :
    chiLegMask t myg j = false ↔ myg ≤ j ∧ j < myg + (y0 : Int) := by
  obtain ⟨e1, e2, e3⟩ := encode_core_jyseps xs sep dn y0 nyTot t h
  rw [chiLegMask_false_iff, if_neg (not_not.mpr e2), e1, e3]
  omega

theorem chiLegMask_core_only (xs : List Nat) (sep : Nat) (dn : DNType) (y0 nyTot : Nat) (t : Topo)
    (h : encode xs sep dn [y0] nyTot = some t) (j : Int) (hlo : 0 ≤ j) (hhi : j < (y0 : Int)) :
    chiLegMask t 0 j = false := by
  rw [chiLegMask_core_only_iff xs sep dn y0 nyTot t h]
  omega

/-! ## 4. chiDefined, closedSurface -/

theorem chiDefined_iff (t : Topo) (myg x j : Int) :
    chiDefined t myg x j = true ↔ 0 ≤ x ∧ x < t.ixseps1 ∧ x < t.ixseps2 ∧ chiLegMask t myg j = false := by
  simp only [chiDefined, closedSurface, Bool.and_eq_true, Bool.not_eq_true', decide_eq_true_eq]
  constructor
  · rintro ⟨⟨a, b⟩, c⟩; exact ⟨a, by omega, by omega, c⟩
  · rintro ⟨a, b, c, d⟩; exact ⟨⟨a, by omega⟩, d⟩

theorem closedSurface_iff (t : Topo) (x : Int) :
    closedSurface t x = true ↔ 0 ≤ x ∧ x < t.ixseps1 ∧ x < t.ixseps2 := by
  simp only [closedSurface, decide_eq_true_eq]
  omega

theorem closedSurface_sn (x0 x1 sep : Nat) (dn : DNType) (y0 y1 y2 nyTot : Nat) (t : Topo)
    (h : encode [x0, x1] sep dn [y0, y1, y2] nyTot = some t) (x : Int) :
    closedSurface t x = true ↔ 0 ≤ x ∧ x < (x0 : Int) := by
  rw [C08.encode_SN] at h
  simp only [Option.some.injEq] at h
  subst h
  rw [closedSurface_iff]
  simp only [C08.encSN]
  omega

theorem encode_one_segment_ixseps (n sep : Nat) (dn : DNType) (ys : List Nat) (nyTot : Nat) (t : Topo)
    (h : encode [n] sep dn ys nyTot = some t) :
    (sep = 0 → t.ixseps1 = -1 ∧ t.ixseps2 = -1) ∧ (sep ≠ 0 → t.ixseps1 = (n : Int) ∧ t.ixseps2 = (n : Int)) := by
  unfold encode at h
  by_cases hs : sep = 0
  · simp only [encodeX, hs, if_true] at h
    split at h <;> cases h <;> simp [hs]
  · simp only [encodeX, hs, if_false] at h
    split at h <;> cases h <;> simp [hs]

theorem closedSurface_sol_only (n : Nat) (dn : DNType) (ys : List Nat) (nyTot : Nat) (t : Topo)
    (h : encode [n] 0 dn ys nyTot = some t) (x : Int) : closedSurface t x = false := by
  obtain ⟨e1, _⟩ := (encode_one_segment_ixseps n 0 dn ys nyTot t h).1 rfl
  rw [← Bool.not_eq_true, closedSurface_iff, e1]
  omega

theorem closedSurface_core_only (n sep : Nat) (hsep : sep ≠ 0) (dn : DNType) (ys : List Nat) (nyTot : Nat) (t : Topo)
    (h : encode [n] sep dn ys nyTot = some t) (x : Int) (hlo : 0 ≤ x) (hhi : x < (n : Int)) :
    closedSurface t x = true := by
  obtain ⟨e1, e2⟩ := (encode_one_segment_ixseps n sep dn ys nyTot t h).2 hsep
  rw [closedSurface_iff, e1, e2]
  omega

/-! ## 5. dy -/

/-- dy = 2π × this (`dy_scalar` of `BoutMesh.__init__`) -/
def dyFactor (nyCore nyNoguards : Nat) : ℚ := if 0 < nyCore then (1 : ℚ) / nyCore else 1 / nyNoguards

theorem dy_pos (nyCore nyNoguards : Nat) (h : 0 < nyNoguards) : 0 < dyFactor nyCore nyNoguards := by
  unfold dyFactor
  split
  · next hc => exact div_pos one_pos (Nat.cast_pos.mpr hc)
  · exact div_pos one_pos (Nat.cast_pos.mpr h)

/-- with a core, dy summed once around the core is 2π -/
theorem dyFactor_core_total (nyCore nyNoguards : Nat) (h : 0 < nyCore) :
    (nyCore : ℚ) * dyFactor nyCore nyNoguards = 1 := by
  unfold dyFactor
  rw [if_pos h]
  exact mul_one_div_cancel (Nat.cast_ne_zero.mpr (Nat.pos_iff_ne_zero.mp h))

/-! ## 6. examples -/

def exTopo : Topo := ⟨4, 15, 2, 2, 2, 7, 7, 7, 11⟩

example : (List.range 17).map (fun j : Nat => chiDefined exTopo 1 0 (j : Int))
    = [false, false, false, false, true, true, true, true, true, true, true, true, true, false, false, false, false] := by
  decide
example : (List.range 17).map (fun j : Nat => chiDefined exTopo 1 1 (j : Int))
    = [false, false, false, false, true, true, true, true, true, true, true, true, true, false, false, false, false] := by
  decide
example : ∀ j ∈ List.range 17, chiDefined exTopo 1 2 (j : Int) = false ∧ chiDefined exTopo 1 3 (j : Int) = false := by
  decide

/-! hypotheses are satisfiable; the encoder's own single null [3, 9, 3], nyTot = 17, has the same mask as the driver example -/
example : encode [2, 2] 1 .none [3, 9, 3] 17 = some ⟨4, 15, 2, 4, 2, 8, 8, 8, 11⟩ := by decide
example : (List.range 17).map (fun j : Nat => chiDefined ⟨4, 15, 2, 4, 2, 8, 8, 8, 11⟩ 1 1 (j : Int))
    = (List.range 17).map (fun j : Nat => chiDefined exTopo 1 1 (j : Int)) := by decide
example : (List.range 15).map (fun j : Nat => regionOf [3, 9, 3] j) =
    [0, 0, 0, 1, 1, 1, 1, 1, 1, 1, 1, 1, 2, 2, 2] := by decide
/-- a connected double null [2,3,2,2,3,2] with myg = 1: file ny = 14 + 4 -/
example : encode [2, 2] 1 .connected [2, 3, 2, 2, 3, 2] 18 = some ⟨4, 14, 2, 2, 1, 4, 7, 8, 11⟩ := by decide
example : (List.range 18).map (fun j : Nat => chiLegMask ⟨4, 14, 2, 2, 1, 4, 7, 8, 11⟩ 1 (j : Int))
    = [true, true, true, false, false, false, true, true, true, true, true, true, false, false, false, true, true, true] := by
  decide
/-- where `coreBoutIndex` is not the BOUT++ index: first cell of the outer upper leg, file index 10, BOUT++ index 7 -/
example : coreBoutIndex ⟨4, 14, 2, 2, 1, 4, 7, 8, 11⟩ 1 10 = 9 ∧ dnBoutIndex 2 3 2 1 10 = 7 := by decide
example : encode [4] 1 .none [8] 8 = some ⟨4, 8, 4, 4, -1, 4, 4, 4, 7⟩ := by decide
example : encode [4] 0 .none [3, 9, 3] 17 = some ⟨4, 15, -1, -1, 2, 8, 8, 8, 11⟩ := by decide
example : verdict ⟨0, 0, 0, 0, 0, 0⟩ = true ∧ verdict ⟨0, 0, 1, 0, 0, 0⟩ = false := by decide
example : cliAccepts ["a"] ["b"] ["c"] ["c", "a"] = true ∧ cliAccepts ["a"] ["b"] ["c"] ["c", "d"] = false := by decide

end HypnoModel.Props.C12
