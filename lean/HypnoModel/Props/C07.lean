/-
C07 — `MeshRegion.calc_curvature` (hypnotoad/core/mesh.py), curvature_type "curl(b/B)": the outputs are the
contravariant components (projections on Grad x, Grad y, Grad z) of the cylindrical curl of A = B/B² = b/B.
Definitions: HypnoModel/Gen/Fields.lean (GENERATED from the Python on every run; `Gen.R.Fields.rz_orth.*`,
`rz_nonorth.*`, `xy.*`), integrated shear I = 0.  The cylindrical curl components `cR cZ czeta` (functions of the
point values, written with the generated helper expressions), the bridges from the generated text and the exact
stencils `DDXex`, `DDYex`: HypnoModel/Lemmas/Fields.lean.  The derivative facts come from Props/C18.

`PT[g]` = the generated expression `g` at the point values of the analytic fields at (R, Z) (see Props/C18.lean).
Items 2–6 are algebraic and are stated for ARBITRARY real point values `(R Z BR BZ f fp pRR pZZ pRZ)`.
-/
import HypnoModel.Gen.Fields
import HypnoModel.Lemmas.Fields
import HypnoModel.Props.C18

namespace HypnoModel.Props.C07
open Real Gen.R.Fields FieldsLemmas HypnoModel.Props.C18

/-! ## 1. the cylindrical curl of A = B/B² (axisymmetric): cR = −∂Z Aζ, cZ = (1/R) ∂R(R Aζ), cζ = ∂Z A_R − ∂R A_Z -/
section analytic
variable {psi psiR psiZ psiRR psiZZ psiRZ : ℝ → ℝ → ℝ} {fpolF fpolF' : ℝ → ℝ} {R Z : ℝ}

local notation "PT[" g "]" =>
  g R Z (BRf psiZ R Z) (BZf psiR R Z) (fpolF (psi R Z)) (fpolF' (psi R Z)) (psiRR R Z) (psiZZ R Z) (psiRZ R Z)

/-- C07.1: the four derivatives entering curl A are the quotient-rule expressions of the generated helpers, and
`cR cZ czeta` are assembled from them as the cylindrical curl prescribes -/
theorem curl_components (hR : R ≠ 0) (hB : B2f psi psiR psiZ fpolF R Z ≠ 0)
    (hpR : HasDerivAt (fun r => psi r Z) (psiR R Z) R) (hpZ : HasDerivAt (fun z => psi R z) (psiZ R Z) Z)
    (hRR : HasDerivAt (fun r => psiR r Z) (psiRR R Z) R) (hRZ : HasDerivAt (fun z => psiR R z) (psiRZ R Z) Z)
    (hZR : HasDerivAt (fun r => psiZ r Z) (psiRZ R Z) R) (hZZ : HasDerivAt (fun z => psiZ R z) (psiZZ R Z) Z)
    (hf : HasDerivAt fpolF (fpolF' (psi R Z)) (psi R Z)) :
    HasDerivAt (fun z => Azetaf psi psiR psiZ fpolF R z) (PT[dAzetadZ]) Z ∧
    HasDerivAt (fun r => r * Azetaf psi psiR psiZ fpolF r Z) (PT[dRAzetadR]) R ∧
    HasDerivAt (fun z => ARf psi psiR psiZ fpolF R z) (PT[dARdZ]) Z ∧
    HasDerivAt (fun r => AZf psi psiR psiZ fpolF r Z) (PT[dAZdR]) R ∧
    PT[cR] = -PT[dAzetadZ] ∧ PT[cZ] = 1 / R * PT[dRAzetadR] ∧ PT[czeta] = PT[dARdZ] - PT[dAZdR] := by
  have h2R := dB2dR_hasDerivAt (psiZZ := psiZZ) hR hpR hRR hZR hf
  have h2Z := dB2dZ_hasDerivAt (psiRR := psiRR) hpZ hRZ hZZ hf
  refine ⟨?_, ?_, ?_, ?_, rfl, rfl, rfl⟩
  · exact (hasDerivAt_quot (dBzetadZ_hasDerivAt (psiR := psiR) (psiRR := psiRR) (psiZZ := psiZZ)
      (psiRZ := psiRZ) hpZ hf) h2Z hB).congr_deriv (by unfold dAzetadZ; rw [B2_eq_field, Bzeta_eq_field])
  · exact (hasDerivAt_id_mul (hasDerivAt_quot (dBzetadR_hasDerivAt (psiZ := psiZ) (psiRR := psiRR)
      (psiZZ := psiZZ) (psiRZ := psiRZ) hR hpR hf) h2R hB)).congr_deriv
      (by unfold dRAzetadR dAzetadR; rw [B2_eq_field, Bzeta_eq_field])
  · exact (hasDerivAt_quot (dBRdZ_hasDerivAt (psi := psi) (psiR := psiR) (psiRR := psiRR) (psiRZ := psiRZ)
      (fpolF := fpolF) (fpolF' := fpolF') hZZ) h2Z hB).congr_deriv (by unfold dARdZ; rw [B2_eq_field])
  · exact (hasDerivAt_quot (dBZdR_hasDerivAt (psi := psi) (psiZ := psiZ) (psiZZ := psiZZ) (psiRZ := psiRZ)
      (fpolF := fpolF) (fpolF' := fpolF') hR hRR) h2R hB).congr_deriv (by unfold dAZdR; rw [B2_eq_field])

/-- Grad x = Grad psi = (psiR, psiZ) = (−R·BZ, R·BR) at the point values -/
theorem grad_x_eq (hR : R ≠ 0) : psiR R Z = -R * BZf psiR R Z ∧ psiZ R Z = R * BRf psiZ R Z := by
  unfold BZf BRf
  constructor <;> field_simp

/-- C07.2 in the analytic setting: curl_bOverB_x = (curl A)·Grad psi, both branches -/
theorem projection_x_field (Bp Bt B hy tanBeta bpsign : ℝ) (hR : R ≠ 0) :
    (PT[rz_orth.curl_bOverB_x]) Bp Bt B hy tanBeta bpsign = PT[cR] * psiR R Z + PT[cZ] * psiZ R Z ∧
    (PT[rz_nonorth.curl_bOverB_x]) Bp Bt B hy tanBeta bpsign = PT[cR] * psiR R Z + PT[cZ] * psiZ R Z := by
  have hg := grad_x_eq (psiR := psiR) (psiZ := psiZ) (R := R) (Z := Z) hR
  rw [orth_x_bridge, nonorth_x_bridge, cZpy_eq _ _ _ _ _ _ _ _ _ hR, ← hg.1, ← hg.2]
  exact ⟨rfl, rfl⟩

/-- the integrands of the x–y form, Bt·R/B² and Bt/R, have the partial derivatives `dBtRB2dR/dZ`, `dBtoRdR/dZ` used as
(gR, gZ) in `xy_form_agrees_y` and `xy_form_agrees_z_partial` -/
theorem xy_integrands_hasDerivAt (hR : R ≠ 0) (hB : B2f psi psiR psiZ fpolF R Z ≠ 0)
    (hpR : HasDerivAt (fun r => psi r Z) (psiR R Z) R) (hpZ : HasDerivAt (fun z => psi R z) (psiZ R Z) Z)
    (hRR : HasDerivAt (fun r => psiR r Z) (psiRR R Z) R) (hRZ : HasDerivAt (fun z => psiR R z) (psiRZ R Z) Z)
    (hZR : HasDerivAt (fun r => psiZ r Z) (psiRZ R Z) R) (hZZ : HasDerivAt (fun z => psiZ R z) (psiZZ R Z) Z)
    (hf : HasDerivAt fpolF (fpolF' (psi R Z)) (psi R Z)) :
    HasDerivAt (fun r => Bzetaf fpolF psi r Z * r / B2f psi psiR psiZ fpolF r Z) (PT[dBtRB2dR]) R ∧
    HasDerivAt (fun z => Bzetaf fpolF psi R z * R / B2f psi psiR psiZ fpolF R z) (PT[dBtRB2dZ]) Z ∧
    HasDerivAt (fun r => Bzetaf fpolF psi r Z / r) (PT[dBtoRdR]) R ∧
    HasDerivAt (fun z => Bzetaf fpolF psi R z / R) (PT[dBtoRdZ]) Z := by
  have h2R := dB2dR_hasDerivAt (psiZZ := psiZZ) hR hpR hRR hZR hf
  have h2Z := dB2dZ_hasDerivAt (psiRR := psiRR) hpZ hRZ hZZ hf
  have hzR := dBzetadR_hasDerivAt (psiZ := psiZ) (psiRR := psiRR) (psiZZ := psiZZ) (psiRZ := psiRZ) hR hpR hf
  have hzZ := dBzetadZ_hasDerivAt (psiR := psiR) (psiRR := psiRR) (psiZZ := psiZZ) (psiRZ := psiRZ) hpZ hf
  refine ⟨?_, ?_, ?_, ?_⟩
  · refine (hasDerivAt_quot (hzR.fun_mul (hasDerivAt_id' R)) h2R hB).congr_deriv ?_
    unfold dBtRB2dR
    rw [B2_eq_field]
    generalize (dB2dR R Z (BRf psiZ R Z) (BZf psiR R Z) (fpolF (psi R Z)) (fpolF' (psi R Z)) (psiRR R Z) (psiZZ R Z)
      (psiRZ R Z)) = d
    generalize B2f psi psiR psiZ fpolF R Z = b at hB ⊢
    unfold dBzetadR Bzetaf BZf
    field_simp
    ring
  · refine (hasDerivAt_quot (hzZ.mul_const R) h2Z hB).congr_deriv ?_
    unfold dBtRB2dZ
    rw [B2_eq_field]
    generalize (dB2dZ R Z (BRf psiZ R Z) (BZf psiR R Z) (fpolF (psi R Z)) (fpolF' (psi R Z)) (psiRR R Z) (psiZZ R Z)
      (psiRZ R Z)) = d
    generalize B2f psi psiR psiZ fpolF R Z = b at hB ⊢
    unfold dBzetadZ Bzetaf BRf
    field_simp
  · exact (hasDerivAt_div_id hzR hR).congr_deriv (by unfold dBtoRdR; rw [Bzeta_eq_field])
  · exact (hzZ.div_const R).congr_deriv (by unfold dBtoRdZ; rfl)

/-- the signed poloidal field Bp = s·√(BR² + BZ²), s = bpsign = ±1, has the partial derivatives `dBpdR`, `dBpdZ` used in
`xy_form_agrees_z_partial` -/
theorem Bp_signed_hasDerivAt (s : ℝ) (hs : s = 1 ∨ s = -1) (hR : R ≠ 0)
    (hS : BRf psiZ R Z ^ 2 + BZf psiR R Z ^ 2 ≠ 0)
    (hRR : HasDerivAt (fun r => psiR r Z) (psiRR R Z) R) (hRZ : HasDerivAt (fun z => psiR R z) (psiRZ R Z) Z)
    (hZR : HasDerivAt (fun r => psiZ r Z) (psiRZ R Z) R) (hZZ : HasDerivAt (fun z => psiZ R z) (psiZZ R Z) Z) :
    HasDerivAt (fun r => s * Real.sqrt (BRf psiZ r Z ^ 2 + BZf psiR r Z ^ 2))
      ((PT[dBpdR]) (s * Real.sqrt (BRf psiZ R Z ^ 2 + BZf psiR R Z ^ 2))) R ∧
    HasDerivAt (fun z => s * Real.sqrt (BRf psiZ R z ^ 2 + BZf psiR R z ^ 2))
      ((PT[dBpdZ]) (s * Real.sqrt (BRf psiZ R Z ^ 2 + BZf psiR R Z ^ 2))) Z := by
  have hq : Real.sqrt (BRf psiZ R Z ^ 2 + BZf psiR R Z ^ 2) ≠ 0 := by
    rw [Ne, Real.sqrt_eq_zero (by positivity)]; exact hS
  constructor
  · have h := ((hasDerivAt_sq2 (dBRdR_hasDerivAt (psi := psi) (psiR := psiR) (psiRR := psiRR) (psiZZ := psiZZ)
      (fpolF := fpolF) (fpolF' := fpolF') hR hZR)
      (dBZdR_hasDerivAt (psi := psi) (psiZ := psiZ) (psiZZ := psiZZ) (psiRZ := psiRZ)
        (fpolF := fpolF) (fpolF' := fpolF') hR hRR)).sqrt hS).const_mul s
    refine h.congr_deriv ?_
    unfold dBpdR
    generalize Real.sqrt (BRf psiZ R Z ^ 2 + BZf psiR R Z ^ 2) = q at hq ⊢
    rcases hs with rfl | rfl <;> field_simp
  · have h := ((hasDerivAt_sq2 (dBRdZ_hasDerivAt (psi := psi) (psiR := psiR) (psiRR := psiRR) (psiRZ := psiRZ)
      (fpolF := fpolF) (fpolF' := fpolF') hZZ)
      (dBZdZ_hasDerivAt (psi := psi) (psiZ := psiZ) (psiZZ := psiZZ) (psiRR := psiRR)
        (fpolF := fpolF) (fpolF' := fpolF') hRZ)).sqrt hS).const_mul s
    refine h.congr_deriv ?_
    unfold dBpdZ
    generalize Real.sqrt (BRf psiZ R Z ^ 2 + BZf psiR R Z ^ 2) = q at hq ⊢
    rcases hs with rfl | rfl <;> field_simp

/-- the expression `dxLnHyLame` assumed for ∂x ln hy in `xy_form_agrees_z_partial` is ∇·(∇ψ/|∇ψ|)/|∇ψ|, the divergence of
the unit normal of the flux surface over |∇ψ| (so what remains unproved there is exactly the Lamé relation
∂x ln hy = ∇·e_x/|∇ψ| of the orthogonal coordinates) -/
theorem lame_is_div_unit_normal (hG : psiR R Z ^ 2 + psiZ R Z ^ 2 ≠ 0)
    (hRR : HasDerivAt (fun r => psiR r Z) (psiRR R Z) R) (hRZ : HasDerivAt (fun z => psiR R z) (psiRZ R Z) Z)
    (hZR : HasDerivAt (fun r => psiZ r Z) (psiRZ R Z) R) (hZZ : HasDerivAt (fun z => psiZ R z) (psiZZ R Z) Z) :
    ∃ v1 v2 : ℝ,
      HasDerivAt (fun r => psiR r Z / Real.sqrt (psiR r Z ^ 2 + psiZ r Z ^ 2)) v1 R ∧
      HasDerivAt (fun z => psiZ R z / Real.sqrt (psiR R z ^ 2 + psiZ R z ^ 2)) v2 Z ∧
      (v1 + v2) / Real.sqrt (psiR R Z ^ 2 + psiZ R Z ^ 2)
        = dxLnHyLame (psiR R Z) (psiZ R Z) (psiRR R Z) (psiZZ R Z) (psiRZ R Z) := by
  have hq : Real.sqrt (psiR R Z ^ 2 + psiZ R Z ^ 2) ≠ 0 := by
    rw [Ne, Real.sqrt_eq_zero (by positivity)]; exact hG
  have hqq : Real.sqrt (psiR R Z ^ 2 + psiZ R Z ^ 2) ^ 2 = psiR R Z ^ 2 + psiZ R Z ^ 2 :=
    Real.sq_sqrt (by positivity)
  have h1 := hasDerivAt_quot hRR ((hasDerivAt_sq2 hRR hZR).sqrt hG) hq
  have h2 := hasDerivAt_quot hZZ ((hasDerivAt_sq2 hRZ hZZ).sqrt hG) hq
  refine ⟨_, _, h1, h2, ?_⟩
  unfold dxLnHyLame
  generalize Real.sqrt (psiR R Z ^ 2 + psiZ R Z ^ 2) = q at hq hqq ⊢
  rw [← hqq]
  field_simp
  ring

end analytic

section algebraic
variable (R Z BR BZ f fp pRR pZZ pRZ Bp Bt B hy tanBeta bpsign : ℝ)

/-! ## 2. x component: projection on Grad x = (−R·BZ, R·BR) -/

/-- C07.2 -/
theorem projection_x (hR : R ≠ 0) :
    rz_orth.curl_bOverB_x R Z BR BZ f fp pRR pZZ pRZ Bp Bt B hy tanBeta bpsign =
      cR R Z BR BZ f fp pRR pZZ pRZ * (-R * BZ) + cZ R Z BR BZ f fp pRR pZZ pRZ * (R * BR) ∧
    rz_nonorth.curl_bOverB_x R Z BR BZ f fp pRR pZZ pRZ Bp Bt B hy tanBeta bpsign =
      cR R Z BR BZ f fp pRR pZZ pRZ * (-R * BZ) + cZ R Z BR BZ f fp pRR pZZ pRZ * (R * BR) := by
  rw [orth_x_bridge, nonorth_x_bridge, cZpy_eq _ _ _ _ _ _ _ _ _ hR]
  exact ⟨rfl, rfl⟩

/-! ## 3. y component: projection on Grad y -/

/-- C07.3 (orthogonal grid): Grad y = (BR, BZ)/(Bp·hy) -/
theorem projection_y_orth (hR : R ≠ 0) :
    rz_orth.curl_bOverB_y R Z BR BZ f fp pRR pZZ pRZ Bp Bt B hy tanBeta bpsign =
      cR R Z BR BZ f fp pRR pZZ pRZ * (BR / (Bp * hy)) + cZ R Z BR BZ f fp pRR pZZ pRZ * (BZ / (Bp * hy)) := by
  rw [orth_y_bridge, cZpy_eq _ _ _ _ _ _ _ _ _ hR]
  ring

/-- |Grad y| = 1/hy on an orthogonal grid (Bp² = BR² + BZ²) -/
theorem grad_y_orth_norm (hBp : Bp ≠ 0) (hh : hy ≠ 0) (hBp2 : Bp ^ 2 = BR ^ 2 + BZ ^ 2) :
    (BR / (Bp * hy)) ^ 2 + (BZ / (Bp * hy)) ^ 2 = 1 / hy ^ 2 := by
  have : (BR / (Bp * hy)) ^ 2 + (BZ / (Bp * hy)) ^ 2 = (BR ^ 2 + BZ ^ 2) / (Bp ^ 2 * hy ^ 2) := by ring
  rw [this, ← hBp2]
  field_simp

/-- Grad y ⟂ Grad x on an orthogonal grid -/
theorem grad_y_orth_perp_grad_x : BR / (Bp * hy) * (-R * BZ) + BZ / (Bp * hy) * (R * BR) = 0 := by ring

/-- C07.3 (non-orthogonal grid): Grad y = (BR + BZ·tanBeta, BZ − BR·tanBeta)/(Bp·hy) -/
theorem projection_y_nonorth (hR : R ≠ 0) :
    rz_nonorth.curl_bOverB_y R Z BR BZ f fp pRR pZZ pRZ Bp Bt B hy tanBeta bpsign =
      cR R Z BR BZ f fp pRR pZZ pRZ * ((BR + BZ * tanBeta) / (Bp * hy))
        + cZ R Z BR BZ f fp pRR pZZ pRZ * ((BZ - BR * tanBeta) / (Bp * hy)) := by
  rw [nonorth_y_bridge, cZpy_eq _ _ _ _ _ _ _ _ _ hR]
  ring

/-- |Grad y|² = (1 + tan²β)/hy² -/
theorem grad_y_nonorth_norm (hBp : Bp ≠ 0) (hh : hy ≠ 0) (hBp2 : Bp ^ 2 = BR ^ 2 + BZ ^ 2) :
    ((BR + BZ * tanBeta) / (Bp * hy)) ^ 2 + ((BZ - BR * tanBeta) / (Bp * hy)) ^ 2 = (1 + tanBeta ^ 2) / hy ^ 2 := by
  have : ((BR + BZ * tanBeta) / (Bp * hy)) ^ 2 + ((BZ - BR * tanBeta) / (Bp * hy)) ^ 2
      = (BR ^ 2 + BZ ^ 2) * (1 + tanBeta ^ 2) / (Bp ^ 2 * hy ^ 2) := by ring
  rw [this, ← hBp2]
  field_simp

/-- … = 1/(hy cosβ)² when cos²β (1 + tan²β) = 1 -/
theorem grad_y_nonorth_norm_cos (cosBeta : ℝ) (hBp : Bp ≠ 0) (hh : hy ≠ 0) (hBp2 : Bp ^ 2 = BR ^ 2 + BZ ^ 2)
    (hc : cosBeta ^ 2 * (1 + tanBeta ^ 2) = 1) :
    ((BR + BZ * tanBeta) / (Bp * hy)) ^ 2 + ((BZ - BR * tanBeta) / (Bp * hy)) ^ 2 = 1 / (hy * cosBeta) ^ 2 := by
  have hc0 : cosBeta ≠ 0 := by
    intro h; rw [h] at hc; norm_num at hc
  rw [grad_y_nonorth_norm BR BZ Bp hy tanBeta hBp hh hBp2]
  field_simp
  linear_combination hc

/-- Grad y ⟂ e_x, the unit vector along the radial grid line,
e_x = cosβ·(−BZ, BR)/Bp' + sinβ·(BR, BZ)/Bp' (any common normalisation Bp'), tanBeta = sinβ/cosβ -/
theorem grad_y_nonorth_perp_ex (cosBeta sinBeta Bp' : ℝ) (hc : cosBeta ≠ 0) (ht : tanBeta = sinBeta / cosBeta) :
    (BR + BZ * tanBeta) / (Bp * hy) * (cosBeta * (-BZ) / Bp' + sinBeta * BR / Bp')
      + (BZ - BR * tanBeta) / (Bp * hy) * (cosBeta * BR / Bp' + sinBeta * BZ / Bp') = 0 := by
  have hs : sinBeta = tanBeta * cosBeta := by rw [ht]; field_simp
  rw [hs]
  ring

/-! ## 4. z component: projection on Grad z = Grad ζ − (Bt hy/(Bp R)) Grad y, |Grad ζ| = 1/R (I = 0) -/

/-- C07.4 -/
theorem projection_z :
    rz_orth.curl_bOverB_z R Z BR BZ f fp pRR pZZ pRZ Bp Bt B hy tanBeta bpsign =
      czeta R Z BR BZ f fp pRR pZZ pRZ / R
        - Bt * hy / (Bp * R) * rz_orth.curl_bOverB_y R Z BR BZ f fp pRR pZZ pRZ Bp Bt B hy tanBeta bpsign ∧
    rz_nonorth.curl_bOverB_z R Z BR BZ f fp pRR pZZ pRZ Bp Bt B hy tanBeta bpsign =
      czeta R Z BR BZ f fp pRR pZZ pRZ / R
        - Bt * hy / (Bp * R) * rz_nonorth.curl_bOverB_y R Z BR BZ f fp pRR pZZ pRZ Bp Bt B hy tanBeta bpsign :=
  ⟨orth_z_bridge .., nonorth_z_bridge ..⟩

/-! ## 5. bxcv = (B/2)·curl(b/B) -/

/-- C07.5 -/
theorem bxcv_def (D1 D2 D3 D4 : ℝ) :
    (rz_orth.bxcvx R Z BR BZ f fp pRR pZZ pRZ Bp Bt B hy tanBeta bpsign =
      B / 2 * rz_orth.curl_bOverB_x R Z BR BZ f fp pRR pZZ pRZ Bp Bt B hy tanBeta bpsign ∧
     rz_orth.bxcvy R Z BR BZ f fp pRR pZZ pRZ Bp Bt B hy tanBeta bpsign =
      B / 2 * rz_orth.curl_bOverB_y R Z BR BZ f fp pRR pZZ pRZ Bp Bt B hy tanBeta bpsign ∧
     rz_orth.bxcvz R Z BR BZ f fp pRR pZZ pRZ Bp Bt B hy tanBeta bpsign =
      B / 2 * rz_orth.curl_bOverB_z R Z BR BZ f fp pRR pZZ pRZ Bp Bt B hy tanBeta bpsign) ∧
    (rz_nonorth.bxcvx R Z BR BZ f fp pRR pZZ pRZ Bp Bt B hy tanBeta bpsign =
      B / 2 * rz_nonorth.curl_bOverB_x R Z BR BZ f fp pRR pZZ pRZ Bp Bt B hy tanBeta bpsign ∧
     rz_nonorth.bxcvy R Z BR BZ f fp pRR pZZ pRZ Bp Bt B hy tanBeta bpsign =
      B / 2 * rz_nonorth.curl_bOverB_y R Z BR BZ f fp pRR pZZ pRZ Bp Bt B hy tanBeta bpsign ∧
     rz_nonorth.bxcvz R Z BR BZ f fp pRR pZZ pRZ Bp Bt B hy tanBeta bpsign =
      B / 2 * rz_nonorth.curl_bOverB_z R Z BR BZ f fp pRR pZZ pRZ Bp Bt B hy tanBeta bpsign) ∧
    (xy.bxcvx R Bp Bt B hy bpsign D1 D2 D3 D4 = B / 2 * xy.curl_bOverB_x R Bp Bt B hy bpsign D1 D2 D3 D4 ∧
     xy.bxcvy R Bp Bt B hy bpsign D1 D2 D3 D4 = B / 2 * xy.curl_bOverB_y R Bp Bt B hy bpsign D1 D2 D3 D4 ∧
     xy.bxcvz R Bp Bt B hy bpsign D1 D2 D3 D4 = B / 2 * xy.curl_bOverB_z R Bp Bt B hy bpsign D1 D2 D3 D4) := by
  refine ⟨⟨?_, ?_, ?_⟩, ⟨?_, ?_, ?_⟩, ⟨?_, ?_, ?_⟩⟩
  · unfold rz_orth.bxcvx rz_orth.curl_bOverB_x; ring
  · unfold rz_orth.bxcvy rz_orth.curl_bOverB_y; ring
  · unfold rz_orth.bxcvz rz_orth.curl_bOverB_z; ring
  · unfold rz_nonorth.bxcvx rz_nonorth.curl_bOverB_x; ring
  · unfold rz_nonorth.bxcvy rz_nonorth.curl_bOverB_y; ring
  · unfold rz_nonorth.bxcvz rz_nonorth.curl_bOverB_z; ring
  · unfold xy.bxcvx xy.curl_bOverB_x; ring
  · unfold xy.bxcvy xy.curl_bOverB_y; ring
  · unfold xy.bxcvz xy.curl_bOverB_z; ring

end algebraic

/-! ## 6. the "curl(b/B) with x-y derivatives" form with EXACT stencils agrees with the R–Z form (orthogonal grid)

x = ψ, y along the signed poloidal field: `DDX g = DDXex psiR psiZ gR gZ = (∇ψ·∇g)/|∇ψ|²`,
`DDY g = DDYex hy Bp BR BZ gR gZ = hy (B_p·∇g)/Bp`, with (psiR, psiZ) = (−R·BZ, R·BR).  Grid relations of an
orthogonal grid: `Bp² = BR² + BZ²`, `B² = Bp² + Bt²`, `B > 0`, `Bt = f/R`. -/
section xyform
variable (R Z BR BZ f fp pRR pZZ pRZ Bp Bt B hy tanBeta bpsign : ℝ)

theorem B2_eq_Bsq (hB2 : B ^ 2 = Bp ^ 2 + Bt ^ 2) (hBp2 : Bp ^ 2 = BR ^ 2 + BZ ^ 2) (hBt : Bt = f / R) :
    B2 R Z BR BZ f fp pRR pZZ pRZ = B ^ 2 := by
  rw [B2_eq, hB2, hBp2, hBt]

/-- C07.6, x component (uses gR = dBdR, gZ = dBdZ of C18.3b for DDY(Bxy)) -/
theorem xy_form_agrees_x (D2 D3 D4 : ℝ) (hR : R ≠ 0) (hBp : Bp ≠ 0) (hh : hy ≠ 0) (hB : 0 < B)
    (hB2 : B ^ 2 = Bp ^ 2 + Bt ^ 2) (hBp2 : Bp ^ 2 = BR ^ 2 + BZ ^ 2) (hBt : Bt = f / R) :
    xy.curl_bOverB_x R Bp Bt B hy bpsign
      (DDYex hy Bp BR BZ (dBdR R Z BR BZ f fp pRR pZZ pRZ) (dBdZ R Z BR BZ f fp pRR pZZ pRZ)) D2 D3 D4 =
    rz_orth.curl_bOverB_x R Z BR BZ f fp pRR pZZ pRZ Bp Bt B hy tanBeta bpsign := by
  have hb := B2_eq_Bsq R Z BR BZ f fp pRR pZZ pRZ Bp Bt B hB2 hBp2 hBt
  have hs : Real.sqrt (B2 R Z BR BZ f fp pRR pZZ pRZ) = B := by rw [hb]; exact Real.sqrt_sq hB.le
  have hB0 : B ≠ 0 := ne_of_gt hB
  rw [orth_x_bridge]
  unfold xy.curl_bOverB_x DDYex cR dAzetadZ cZpy
  rw [dBdR_eq, dBdZ_eq, hs, hb, Bzeta_eq, dBzetadZ_eq, dBzetadR_eq]
  generalize dB2dR R Z BR BZ f fp pRR pZZ pRZ = d1
  generalize dB2dZ R Z BR BZ f fp pRR pZZ pRZ = d2
  subst hBt
  field_simp
  ring

/-- C07.6, y component (gR, gZ = the partial derivatives of Bt·R/B², see `xy_integrands_hasDerivAt`) -/
theorem xy_form_agrees_y (D1 D3 D4 : ℝ) (hR : R ≠ 0) (hBp : Bp ≠ 0) (hh : hy ≠ 0)
    (hb : B2 R Z BR BZ f fp pRR pZZ pRZ ≠ 0) (hBp2 : Bp ^ 2 = BR ^ 2 + BZ ^ 2) :
    xy.curl_bOverB_y R Bp Bt B hy bpsign D1
      (DDXex (-R * BZ) (R * BR) (dBtRB2dR R Z BR BZ f fp pRR pZZ pRZ) (dBtRB2dZ R Z BR BZ f fp pRR pZZ pRZ)) D3 D4 =
    rz_orth.curl_bOverB_y R Z BR BZ f fp pRR pZZ pRZ Bp Bt B hy tanBeta bpsign := by
  have hG : (-R * BZ) ^ 2 + (R * BR) ^ 2 = R ^ 2 * Bp ^ 2 := by rw [hBp2]; ring
  rw [orth_y_bridge]
  unfold xy.curl_bOverB_y DDXex dBtRB2dR dBtRB2dZ cR dAzetadZ cZpy
  rw [hG, Bzeta_eq, dBzetadZ_eq, dBzetadR_eq]
  generalize dB2dR R Z BR BZ f fp pRR pZZ pRZ = d1
  generalize dB2dZ R Z BR BZ f fp pRR pZZ pRZ = d2
  generalize B2 R Z BR BZ f fp pRR pZZ pRZ = b at hb ⊢
  field_simp
  ring

/-- C07.6, z component, PARTIAL: `DDX(Btxy/Rxy)` is replaced by the exact derivative; for `DDX(hy/Bpxy)` the exact
derivative is (hy/Bp)(∂x ln hy − ∂x ln Bp) where ∂x ln Bp is exact (`dBpdR`, `dBpdZ`) but ∂x ln hy is SUPPLIED by the
Lamé relation `dxLnHyLame` (hy is a grid quantity; no model of hy as a function of (R, Z) is available here). -/
theorem xy_form_agrees_z_partial (D1 D2 : ℝ) (hR : R ≠ 0) (hBp : Bp ≠ 0) (hh : hy ≠ 0) (hB : B ≠ 0)
    (hB2 : B ^ 2 = Bp ^ 2 + Bt ^ 2) (hBp2 : Bp ^ 2 = BR ^ 2 + BZ ^ 2) (hBt : Bt = f / R) :
    xy.curl_bOverB_z R Bp Bt B hy bpsign D1 D2
      (hy / Bp * (dxLnHyLame (-R * BZ) (R * BR) pRR pZZ pRZ
        - DDXex (-R * BZ) (R * BR) (dBpdR R Z BR BZ f fp pRR pZZ pRZ Bp) (dBpdZ R Z BR BZ f fp pRR pZZ pRZ Bp) / Bp))
      (DDXex (-R * BZ) (R * BR) (dBtoRdR R Z BR BZ f fp pRR pZZ pRZ) (dBtoRdZ R Z BR BZ f fp pRR pZZ pRZ)) =
    rz_orth.curl_bOverB_z R Z BR BZ f fp pRR pZZ pRZ Bp Bt B hy tanBeta bpsign := by
  have hf : f = Bt * R := by rw [hBt]; field_simp
  subst hf
  have hS : BR ^ 2 + BZ ^ 2 ≠ 0 := by rw [← hBp2]; exact pow_ne_zero 2 hBp
  have hb : BR ^ 2 + BZ ^ 2 + Bt ^ 2 ≠ 0 := by rw [← hBp2, ← hB2]; exact pow_ne_zero 2 hB
  have hfR : Bt * R / R = Bt := by field_simp
  have hG : (-R * BZ) ^ 2 + (R * BR) ^ 2 = R ^ 2 * (BR ^ 2 + BZ ^ 2) := by ring
  rw [orth_z_bridge, orth_y_bridge]
  unfold xy.curl_bOverB_z
  -- only even powers of Bp occur: bring both sides to a form in Bp², then eliminate Bp
  have e1 : ∀ E : ℝ, Bp ^ 3 / (hy * B ^ 2) * (hy / Bp * E) = Bp ^ 2 / B ^ 2 * E := by
    intro E; field_simp
  have e2 : ∀ Y : ℝ, Bt * hy / (Bp * R) * (Y / (Bp * hy)) = Bt / (Bp ^ 2 * R) * Y := by
    intro Y; field_simp
  have e3 : ∀ a b n1 n2 : ℝ, DDXex a b (n1 / Bp) (n2 / Bp) / Bp = DDXex a b n1 n2 / Bp ^ 2 := by
    intro a b n1 n2; unfold DDXex; ring
  rw [e1, e2]
  unfold dBpdR dBpdZ
  rw [e3, hB2, hBp2]
  unfold DDXex dxLnHyLame dBtoRdR dBtoRdZ czeta dARdZ dAZdR cR dAzetadZ cZpy
  rw [hG]
  simp only [B2_eq, Bzeta_eq, dBzetadZ_eq, dBzetadR_eq, dBRdR_eq, dBRdZ_eq, dBZdR_eq, dBZdZ_eq, dB2dR_eq, dB2dZ_eq,
    hfR]
  field_simp
  ring

end xyform

/-! ## 7. the hypotheses are satisfiable -/

/-- orthogonal-grid relations of `grad_y_orth_norm`: BR = 3, BZ = 4, Bp = −5 (negative: bpsign = −1), hy = 1/3 -/
example : ∃ BR BZ Bp hy : ℝ, Bp ≠ 0 ∧ hy ≠ 0 ∧ Bp ^ 2 = BR ^ 2 + BZ ^ 2 :=
  ⟨3, 4, -5, 1 / 3, by norm_num, by norm_num, by norm_num⟩

/-- `grad_y_nonorth_norm_cos`, `grad_y_nonorth_perp_ex`: cosβ = 4/5, sinβ = 3/5, tanβ = 3/4 -/
example : ∃ cosBeta sinBeta tanBeta : ℝ, cosBeta ≠ 0 ∧ tanBeta = sinBeta / cosBeta ∧
    cosBeta ^ 2 * (1 + tanBeta ^ 2) = 1 ∧ sinBeta ^ 2 + cosBeta ^ 2 = 1 :=
  ⟨4 / 5, 3 / 5, 3 / 4, by norm_num, by norm_num, by norm_num, by norm_num⟩

/-- grid relations of `xy_form_agrees_x/_y/_z_partial`: R = 2, BR = 3, BZ = 0, Bp = −3, f = 8, Bt = 4, B = 5, hy = 1/3,
and B2 at these point values is 25 ≠ 0 -/
example : ∃ R BR BZ f Bp Bt B hy : ℝ, R ≠ 0 ∧ Bp ≠ 0 ∧ hy ≠ 0 ∧ 0 < B ∧ B ^ 2 = Bp ^ 2 + Bt ^ 2 ∧
    Bp ^ 2 = BR ^ 2 + BZ ^ 2 ∧ Bt = f / R ∧ B2 R 0 BR BZ f 0 0 0 0 ≠ 0 := by
  refine ⟨2, 3, 0, 8, -3, 4, 5, 1 / 3, by norm_num, by norm_num, by norm_num, by norm_num, by norm_num, by norm_num,
    by norm_num, ?_⟩
  unfold B2; norm_num

/-- `curl_components` (and `xy_integrands_hasDerivAt`) instantiated on the concrete flux function of
`C18.hyps_satisfiable` (psi = R² Z, fpol(p) = 1 + p): the analytic hypotheses hold at every point with R ≠ 0 -/
example : ∃ (psi psiR psiZ psiRR psiZZ psiRZ : ℝ → ℝ → ℝ) (fpolF fpolF' : ℝ → ℝ), ∀ R Z : ℝ, R ≠ 0 →
    HasDerivAt (fun z => Azetaf psi psiR psiZ fpolF R z)
      (dAzetadZ R Z (BRf psiZ R Z) (BZf psiR R Z) (fpolF (psi R Z)) (fpolF' (psi R Z)) (psiRR R Z) (psiZZ R Z)
        (psiRZ R Z)) Z := by
  obtain ⟨psi, psiR, psiZ, psiRR, psiZZ, psiRZ, fpolF, fpolF', h⟩ := hyps_satisfiable
  refine ⟨psi, psiR, psiZ, psiRR, psiZZ, psiRZ, fpolF, fpolF', fun R Z hR => ?_⟩
  obtain ⟨h1, h2, h3, h4, h5, h6, h7, h8⟩ := h R Z hR
  exact (curl_components hR (ne_of_gt h8) h1 h2 h3 h4 h5 h6 h7).1

end HypnoModel.Props.C07
