/-
C05 — `hy` and `poloidal_distance` are arc lengths (`MeshRegion.calcHy`, `MeshRegion.calcPoloidalDistance`,
hypnotoad/core/mesh.py): the discrete structure.
Model: HypnoModel/Model/Distance.lean (hand-written, generic in the number type, executed over Float by the driver; here at
α := ℝ).  A contour is the list `d` of its poloidal distances (2·ny+1 entries: even indices y-faces, odd indices cell centres);
a chain of y-connected regions is a list of pairs `(d_k, s_k)` (distances, startInd).
Helper lemmas and the auxiliary definitions `regionSpan`, `chainOffset`, `joinChain`, `chainPDfirstOnly`, `chordSum`:
HypnoModel/Lemmas/Distance.lean.  This file: property theorems only.
-/
import HypnoModel.Model.Distance
import HypnoModel.Lemmas.Distance

namespace HypnoModel.Props.C05
open Distance DistanceLemmas

/-! ## 1. what `calcHy` takes differences of -/

/-- `hy.centre·dy` (`d[2::2] - d[:-2:2]`): one entry per cell, the j-th being the distance between the two y-faces of cell j -/
theorem hy_centre_is_face_gap (d : List ℝ) (n : ℕ) (hd : d.length = 2 * n + 1) :
    (hyCentre d).length = n ∧
    ∀ (j : ℕ) (hj : j < n),
      (hyCentre d)[j]'(by rw [hyCentre_length_odd d n hd]; exact hj) = d[2 * j + 2] - d[2 * j] :=
  ⟨hyCentre_length_odd d n hd, fun j _ => hyCentre_getElem d j (by omega) _⟩

/-- `hy.ylow[1:-1]·dy` (`d[3:-1:2] - d[1:-3:2]`): one entry per interior y-face, the j-th (face j+1) being the distance
    between the centres of the two cells adjacent to that face -/
theorem hy_ylow_inner_is_centre_gap (d : List ℝ) (n : ℕ) (hd : d.length = 2 * n + 1) :
    (hyYlowInner d).length = n - 1 ∧
    ∀ (j : ℕ) (hj : j + 1 < n),
      (hyYlowInner d)[j]'(by rw [hyYlowInner_length_odd d n hd]; omega) = d[2 * j + 3] - d[2 * j + 1] :=
  ⟨hyYlowInner_length_odd d n hd, fun j _ => hyYlowInner_getElem d j (by omega) _⟩

/-! ## 2. positivity -/

/-- strictly increasing distances give strictly positive `hy` at every centre and every interior y-face -/
theorem hy_pos (d : List ℝ) (hd : d.Pairwise (· < ·)) :
    (∀ v ∈ hyCentre d, 0 < v) ∧ (∀ v ∈ hyYlowInner d, 0 < v) :=
  ⟨hyCentre_pos d hd, hyYlowInner_pos d hd⟩

/-! ## 3. the cells tile the flux surface -/

/-- Σ_j hy.centre[j]·dy = d[last] - d[first]: the cell lengths add up to the length of the contour -/
theorem hy_telescopes (d : List ℝ) (n : ℕ) (hd : d.length = 2 * n + 1) :
    (hyCentre d).sum = d.getLast (ne_nil_of_length_odd hd) - d.head (ne_nil_of_length_odd hd) ∧
    (hyCentre d).sum = d[2 * n] - d[0] := by
  have h := hyCentre_sum d (ne_nil_of_length_odd hd) (by omega)
  refine ⟨h, ?_⟩
  rw [h, List.getLast_eq_getElem, List.head_eq_getElem]
  simp only [hd, Nat.add_sub_cancel]

/-! ## 4. the value written at a region join -/

/-- `hy.ylow[0]·dy = d[1] - d[0] + dbelow[-1] - dbelow[-2]`: the half cell above the join plus the half cell below it;
    both halves, hence the sum, are positive for strictly increasing distances -/
theorem hy_ylow_join (d dbelow : List ℝ) (hd : d.Pairwise (· < ·)) (hb : dbelow.Pairwise (· < ·))
    (h2 : 2 ≤ d.length) (hb2 : 2 ≤ dbelow.length) :
    d[1] - d[0] + dbelow[dbelow.length - 1] - dbelow[dbelow.length - 2]
      = (d[1] - d[0]) + (dbelow[dbelow.length - 1] - dbelow[dbelow.length - 2]) ∧
    (0 : ℝ) < d[1] - d[0] ∧ (0 : ℝ) < dbelow[dbelow.length - 1] - dbelow[dbelow.length - 2] ∧
    (0 : ℝ) < d[1] - d[0] + dbelow[dbelow.length - 1] - dbelow[dbelow.length - 2] := by
  have h1 : d[0] < d[1] := pairwise_lt_getElem hd (by omega) (by omega)
  have h3 : dbelow[dbelow.length - 2] < dbelow[dbelow.length - 1] :=
    pairwise_lt_getElem hb (by omega) (by omega)
  refine ⟨by ring, by linarith, by linarith, by linarith⟩

/-- … and it is the interior-face formula continued across the join: on the chain written as one sequence
    (`joinChain (chainPD …)`, i.e. poloidal_distance along the two regions) the interior `hy.ylow` entry at the join face is
    exactly `(d[1] - d[0]) + (dbelow[-1] - dbelow[-2])`, the distance between the cell centres on either side -/
theorem hy_ylow_join_is_chain_centre_gap (off : ℝ) (dbelow d : List ℝ) (s m : ℕ) (hb : dbelow.length = 2 * m + 3)
    (hd : 2 ≤ d.length) :
    (hyYlowInner (joinChain (chainPD off [(dbelow, s), (d, 0)])))[m]? =
      some ((d[1] - d[0]) + (dbelow[2 * m + 2] - dbelow[2 * m + 1])) := by
  have hne : dbelow ≠ [] := List.ne_nil_of_length_pos (by omega)
  rw [joinChain_two, hyYlowInner_append _ _ m (by rw [regionVals_length, hb])
    (by rw [List.length_tail, regionVals_length]; omega)]
  have hlast : dbelow.getLast hne = dbelow[2 * m + 2] := by
    have e : 2 * m + 3 - 1 = 2 * m + 2 := by omega
    rw [List.getLast_eq_getElem]; simp only [hb, e]
  rw [regionSpan_eq_getD hne, hlast]
  simp only [regionVals, List.getElem_tail, List.getElem_map, List.getD_eq_getElem d 0 (by omega : 0 < d.length)]
  congr 1
  ring

/-! ## 5. `calcPoloidalDistance` along a chain of regions -/

/-- 5a: the chain starts from 0 at the startInd point of its first region -/
theorem chain_starts_at_zero (d : List ℝ) (s : ℕ) (rest : List (List ℝ × ℕ)) (hs : s < d.length) :
    ∃ v, (chainPD 0 ((d, s) :: rest))[0]? = some v ∧ v[s]? = some 0 := by
  refine ⟨regionVals 0 d s, by simp [chainPD_cons], ?_⟩
  simp [regionVals, hs]

/-- the offsets: `offset_0 = off`, `offset_{k+1} = offset_k + (d_k[last] - d_k[s_k])` -/
theorem chain_offset_rec (off : ℝ) (regs : List (List ℝ × ℕ)) :
    chainOffset off regs 0 = off ∧
    ∀ (k : ℕ) (hk : k < regs.length) (hne : regs[k].1 ≠ []) (hs : regs[k].2 < regs[k].1.length),
      chainOffset off regs (k + 1) = chainOffset off regs k + (regs[k].1.getLast hne - regs[k].1[regs[k].2]) := by
  refine ⟨chainOffset_zero off regs, fun k hk hne hs => ?_⟩
  rw [chainOffset_step off regs k hk, ← regionSpan_eq hne hs]

/-- 5b: inside region k the values are `offset_k + (d_k[i] - d_k[s_k])`, hence strictly increasing in i when `d_k` is -/
theorem chain_within_region (off : ℝ) (regs : List (List ℝ × ℕ)) (k : ℕ) (hk : k < regs.length) :
    ∃ v, (chainPD off regs)[k]? = some v ∧ v.length = regs[k].1.length ∧
      (∀ (i : ℕ) (hi : i < regs[k].1.length),
        v[i]? = some (chainOffset off regs k + (regs[k].1[i] - regs[k].1.getD regs[k].2 0))) ∧
      (regs[k].1.Pairwise (· < ·) → v.Pairwise (· < ·)) := by
  refine ⟨_, chainPD_getElem? off regs k hk, regionVals_length _ _ _, fun i hi => ?_, fun h => regionVals_pairwise h⟩
  simp [regionVals, hi]

/-- 5c: when region k+1 starts at its first point (startInd = 0, as for every region that has a lower neighbour) its first
    value equals the last value of region k: poloidal_distance is continuous across the join -/
theorem chain_join_continuous (off : ℝ) (regs : List (List ℝ × ℕ)) (k : ℕ) (hk : k + 1 < regs.length)
    (hne : regs[k].1 ≠ []) (hne' : regs[k + 1].1 ≠ []) (hs : regs[k + 1].2 = 0) :
    ∃ u v a, (chainPD off regs)[k]? = some u ∧ (chainPD off regs)[k + 1]? = some v ∧
      u.getLast? = some a ∧ v.head? = some a :=
  chainPD_join_continuous off regs k hk hne hne' hs

/-- 5c: … and therefore the whole chain, written as one sequence with the duplicated join points dropped, is strictly
    increasing when every region's distances are -/
theorem chain_strictly_increasing (off : ℝ) (d : List ℝ) (s : ℕ) (rest : List (List ℝ × ℕ)) (hne : d ≠ [])
    (hd : d.Pairwise (· < ·)) (h : ∀ p ∈ rest, p.2 = 0 ∧ p.1 ≠ [] ∧ p.1.Pairwise (· < ·)) :
    (joinChain (chainPD off ((d, s) :: rest))).Pairwise (· < ·) :=
  joinChain_pairwise off d s rest hne hd h

/-- 5d: the last value of the last region is the sum over the regions of `d_k[last] - d_k[s_k]`
    (`total_poloidal_distance`: the circumference, for the periodic chain of a closed surface) -/
theorem chain_total (regs : List (List ℝ × ℕ)) (hne : regs ≠ []) (h : ∀ p ∈ regs, p.1 ≠ []) :
    ∃ v, (chainPD 0 regs).getLast? = some v ∧
      v.getLast? = some ((regs.map fun p => p.1.getLastD 0 - p.1.getD p.2 0).sum) := by
  obtain ⟨v, hv, hv'⟩ := chainPD_last 0 regs hne h
  refine ⟨v, hv, ?_⟩
  rw [hv', zero_add]
  rfl

/-- 5d': (last value of the chain) − (first value of the chain) = Σ_k (d_k[last] - d_k[first]) when the later regions start
    at their first point: the length of the whole chain, independent of the initial offset and of the first region's
    startInd -/
theorem chain_end_minus_start (off : ℝ) (d0 : List ℝ) (s0 : ℕ) (rest : List (List ℝ × ℕ)) (h0 : d0 ≠ [])
    (hrest : ∀ p ∈ rest, p.1 ≠ [] ∧ p.2 = 0) :
    ∃ u v a b, (chainPD off ((d0, s0) :: rest)).head? = some u ∧ (chainPD off ((d0, s0) :: rest)).getLast? = some v ∧
      u.head? = some a ∧ v.getLast? = some b ∧
      b - a = (((d0, s0) :: rest).map fun p => p.1.getLastD 0 - p.1.getD 0 0).sum := by
  obtain ⟨u, v, a, b, hu, hv, ha, hb, hab⟩ := chainPD_end_minus_start off d0 s0 rest h0 (fun p hp => (hrest p hp).1)
  refine ⟨u, v, a, b, hu, hv, ha, hb, ?_⟩
  rw [hab, List.map_cons, List.sum_cons]
  congr 1
  congr 1
  apply List.map_congr_left
  intro p hp
  simp only [regionSpan, (hrest p hp).2]

/-- 5e: the variant that subtracts `d[startInd]` for the FIRST region only (`chainPDfirstOnly`, the code before the fix)
    jumps at a join by exactly the first distance `b` of the next region: continuity needs the per-region subtraction
    unless every later region has `d[0] = 0` -/
theorem chain_without_per_region_start_is_discontinuous (off : ℝ) (d0 : List ℝ) (s0 s1 : ℕ) (b : ℝ) (dt : List ℝ)
    (h0 : d0 ≠ []) :
    ∃ u v a, chainPDfirstOnly off [(d0, s0), (b :: dt, s1)] = [u, v] ∧ u.getLast? = some a ∧
      v.head? = some (a + b) := by
  refine ⟨_, _, _, chainPDfirstOnly_two off d0 (b :: dt) s0 s1, regionVals_getLast? h0, ?_⟩
  simp

/-- 5e, concrete: two regions with distances 1,2,3 (not starting from 0) after 0,1,2: the first-only variant jumps from 2
    to 3 at the join, the per-region version continues from 2 -/
theorem chain_without_per_region_start_example :
    chainPDfirstOnly 0 [([0, 1, 2], 0), ([1, 2, 3], 0)] = [[0, 1, 2], [3, 4, 5]] ∧
    chainPD (0 : ℝ) [([0, 1, 2], 0), ([1, 2, 3], 0)] = [[0, 1, 2], [2, 3, 4]] := by
  constructor
  · rw [chainPDfirstOnly_two]
    norm_num [regionVals, regionSpan]
  · rw [chainPD_cons, chainPD_cons, chainPD_nil]
    norm_num [regionVals, regionSpan]

/-! ## 6. chords of a circular arc: the FineContour polygon length converges quadratically -/

/-- the polygon of N equal chords is shorter than the arc -/
theorem chord_le_arc_circle (r θ : ℝ) (N : ℕ) (hr : 0 < r) (hθ : 0 < θ) (hN : 1 ≤ N) :
    N * (2 * r * Real.sin (θ / (2 * N))) < r * θ := by
  have hN' : (0 : ℝ) < N := by exact_mod_cast hN
  set x := θ / (2 * N) with hx
  have hx0 : 0 < x := by positivity
  have hθx : θ = 2 * N * x := by rw [hx]; field_simp
  have h1 : Real.sin x < x := Real.sin_lt hx0
  rw [hθx]
  nlinarith [mul_pos hN' hr]

/-- … and the deficit is below r·θ³/(24 N²), for every N ≥ 1 (the hypothesis θ ≤ π of the geometric statement — each chord
    subtends at most a half turn — is not needed for the inequality) -/
theorem chord_error_circle (r θ : ℝ) (N : ℕ) (hr : 0 < r) (hθ : 0 < θ) (hN : 1 ≤ N) :
    0 < r * θ - N * (2 * r * Real.sin (θ / (2 * N))) ∧
    r * θ - N * (2 * r * Real.sin (θ / (2 * N))) < r * θ ^ 3 / (24 * N ^ 2) := by
  have hN' : (0 : ℝ) < N := by exact_mod_cast hN
  refine ⟨by linarith [chord_le_arc_circle r θ N hr hθ hN], ?_⟩
  set x := θ / (2 * N) with hx
  have hx0 : 0 < x := by positivity
  have hθx : θ = 2 * N * x := by rw [hx]; field_simp
  have h2 : x - x ^ 3 / 6 < Real.sin x := Real.sin_gt_sub_cube hx0
  have e : r * θ ^ 3 / (24 * N ^ 2) = N * (2 * r) * (x ^ 3 / 6) := by
    rw [hθx]; field_simp; ring
  rw [e, hθx]
  nlinarith [mul_pos hN' hr]

/-- what `FineContour.calcDistance` adds per segment on a circle: the straight-line distance between two points of the circle
    of radius r whose angles differ by φ ∈ [0, 2π] is the chord 2·r·sin(φ/2) used above (φ = θ/N) -/
theorem chord_length_circle (r a φ : ℝ) (hr : 0 ≤ r) (h0 : 0 ≤ φ) (h1 : φ ≤ 2 * Real.pi) :
    Real.sqrt ((r * Real.cos (a + φ) - r * Real.cos a) ^ 2 + (r * Real.sin (a + φ) - r * Real.sin a) ^ 2)
      = 2 * r * Real.sin (φ / 2) :=
  chord_length r a φ hr h0 h1

/-- the same with the model's name for the polygon length -/
theorem chordSum_error (r θ : ℝ) (N : ℕ) (hr : 0 < r) (hθ : 0 < θ) (hN : 1 ≤ N) :
    0 < r * θ - chordSum r θ N ∧ r * θ - chordSum r θ N < r * θ ^ 3 / (24 * N ^ 2) :=
  chord_error_circle r θ N hr hθ hN

/-! ## satisfiability of the hypotheses -/

/-- `hy_centre_is_face_gap`, `hy_ylow_inner_is_centre_gap`, `hy_telescopes`, `hy_pos`: ny = 2 -/
example : ∃ (d : List ℝ) (n : ℕ), d.length = 2 * n + 1 ∧ 1 < n ∧ d.Pairwise (· < ·) :=
  ⟨[0, 1, 2, 3, 4], 2, rfl, by norm_num, by norm_num⟩

/-- `hy_ylow_join` -/
example : ∃ d dbelow : List ℝ, d.Pairwise (· < ·) ∧ dbelow.Pairwise (· < ·) ∧ 2 ≤ d.length ∧ 2 ≤ dbelow.length :=
  ⟨[0, 1, 2], [0, 1, 2], by norm_num, by norm_num, by simp, by simp⟩

/-- `chain_join_continuous`, `chain_within_region`, `chain_total`: two regions, the second not starting from distance 0 -/
example : ∃ (regs : List (List ℝ × ℕ)) (k : ℕ) (hk : k + 1 < regs.length),
    regs[k].1 ≠ [] ∧ regs[k + 1].1 ≠ [] ∧ regs[k + 1].2 = 0 ∧ regs ≠ [] ∧ ∀ p ∈ regs, p.1 ≠ [] :=
  ⟨[([0, 1, 2], 1), ([1, 2, 3], 0)], 0, by simp, by simp, by simp, by simp, by simp, by simp⟩

/-- `chain_strictly_increasing` -/
example : ∃ (d : List ℝ) (rest : List (List ℝ × ℕ)), d ≠ [] ∧ d.Pairwise (· < ·) ∧ rest ≠ [] ∧
    ∀ p ∈ rest, p.2 = 0 ∧ p.1 ≠ [] ∧ p.1.Pairwise (· < ·) :=
  ⟨[0, 1, 2], [([1, 2, 3], 0)], by simp, by norm_num, by simp, by simp; norm_num⟩

/-- `chord_error_circle`: a half circle of radius 1 with 10 chords -/
example : ∃ (r θ : ℝ) (N : ℕ), 0 < r ∧ 0 < θ ∧ θ ≤ Real.pi ∧ 1 ≤ N :=
  ⟨1, Real.pi, 10, by norm_num, Real.pi_pos, le_refl _, by norm_num⟩

/-- `hy_ylow_join_is_chain_centre_gap`: a lower region of one cell (3 points) and an upper region -/
example : ∃ (dbelow d : List ℝ) (m : ℕ), dbelow.length = 2 * m + 3 ∧ 2 ≤ d.length :=
  ⟨[0, 1, 2], [1, 2, 3], 0, rfl, by simp⟩

/-- `chain_end_minus_start` -/
example : ∃ (d0 : List ℝ) (rest : List (List ℝ × ℕ)), d0 ≠ [] ∧ rest ≠ [] ∧ ∀ p ∈ rest, p.1 ≠ [] ∧ p.2 = 0 :=
  ⟨[0, 1, 2], [([1, 2, 3], 0)], by simp, by simp, by simp⟩

/-- `chord_length_circle`: a quarter turn on the unit circle -/
example : ∃ r φ : ℝ, 0 ≤ r ∧ 0 ≤ φ ∧ φ ≤ 2 * Real.pi :=
  ⟨1, Real.pi / 2, by norm_num, by positivity, by linarith [Real.pi_pos]⟩

end HypnoModel.Props.C05
