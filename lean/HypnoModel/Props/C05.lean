/-
C05 — `hy` and `poloidal_distance` are arc lengths (`MeshRegion.calcHy`, `MeshRegion.calcPoloidalDistance`,
hypnotoad/core/mesh.py): the discrete structure.
Model: HypnoModel/Model/Distance.lean (hand-written, generic in the number type, executed over Float by the driver; here at
α := ℝ).  A contour is the list `d` of its poloidal distances (2·ny+1 entries: even indices y-faces, odd indices cell centres);
a chain of y-connected regions is a list of pairs `(d_k, s_k)` (distances, startInd).
Helper lemmas and the auxiliary definitions `regionSpan`, `chainOffset`, `joinChain`, `chainPDfirstOnly`, `chordSum`:
HypnoModel/Lemmas/Distance.lean.  This file: property theorems only.
-/
import HypnoModel.Model.Distance
import HypnoModel.Lemmas.Distance

namespace HypnoModel.Props.C05
open Distance DistanceLemmas

/-! ## 1. what `calcHy` takes differences of -/

/-- `hy.centre·dy` (`d[2::2] - d[:-2:2]`): one entry per cell, the j-th being the distance between the two y-faces of cell j -/
theorem hy_centre_is_face_gap (d : List ℝ) (n : ℕ) (hd : d.length = 2 * n + 1) :
    (hyCentre d).length = n ∧
    ∀ (j : ℕ) (hj : j < n),
      (hyCentre d)[j]'(by rw [hyCentre_length_odd d n hd]; exact hj) = d[2 * j + 2] - d[2 * j] :=
  ⟨hyCentre_length_odd d n hd, fun j _ => hyCentre_getElem d j (by omega) _⟩

/-- `hy.ylow[1:-1]·dy` (`d[3:-1:2] - d[1:-3:2]`): one entry per interior y-face, the j-th (face j+1) being the distance
    between the centres of the two cells adjacent to that face -/
theorem hy_ylow_inner_is_centre_gap (d : List ℝ) (n : ℕ) (hd : d.length = 2 * n + 1) :
    (hyYlowInner d).length = n - 1 ∧
    ∀ (j : ℕ) (hj : j + 1 < n),
      (hyYlowInner d)[j]'(by rw [hyYlowInner_length_odd d n hd]; omega) = d[2 * j + 3] - d[2 * j + 1] :=
  ⟨hyYlowInner_length_odd d n hd, fun j _ => hyYlowInner_getElem d j (by omega) _⟩

/-! ## 2. positivity -/

/-- strictly increasing distances give strictly positive `hy` at every centre and every interior y-face -/
theorem hy_pos (d : List ℝ) (hd : d.Pairwise (· < ·)) :
    (∀ v ∈ hyCentre d, 0 < v) ∧ (∀ v ∈ hyYlowInner d, 0 < v) :=
  ⟨hyCentre_pos d hd, hyYlowInner_pos d hd⟩

/-! ## 3. the cells tile the flux surface -/

/-- Σ_j hy.centre[j]·dy = d[last] - d[first]: the cell lengths add up to the length of the contour -/
theorem hy_telescopes (d : List ℝ) (n : ℕ) (hd : d.length = 2 * n + 1) :
    (hyCentre d).sum = d.getLast (ne_nil_of_length_odd hd) - d.head (ne_nil_of_length_odd hd) ∧
    (hyCentre d).sum = d[2 * n] - d[0] := by
  have h := hyCentre_sum d (ne_nil_of_length_odd hd) (by omega)
  refine ⟨h, ?_⟩
  rw [h, List.getLast_eq_getElem, List.head_eq_getElem]
  simp only [hd, Nat.add_sub_cancel]

/-! ## 4. the value written at a region join -/

/-- `hy.ylow[0]·dy = d[1] - d[0] + dbelow[-1] - dbelow[-2]`: the half cell above the join plus the half cell below it;
    both halves, hence the sum, are positive for strictly increasing distances -/
theorem hy_ylow_join (d dbelow : List ℝ) (hd : d.Pairwise (· < ·)) (hb : dbelow.Pairwise (· < ·))
    (h2 : 2 ≤ d.length) (hb2 : 2 ≤ dbelow.length) :
    d[1] - d[0] + dbelow[dbelow.length - 1] - dbelow[dbelow.length - 2]
      = (d[1] - d[0]) + (dbelow[dbelow.length - 1] - dbelow[dbelow.length - 2]) ∧
    (0 : ℝ) < d[1] - d[0] ∧ (0 : ℝ) < dbelow[dbelow.length - 1] - dbelow[dbelow.length - 2] ∧
    (0 : ℝ) < d[1] - d[0] + dbelow[dbelow.length - 1] - dbelow[dbelow.length - 2] := by
  have h1 : d[0] < d[1] := pairwise_lt_getElem hd (by omega) (by omega)
  have h3 : dbelow[dbelow.length - 2] < dbelow[dbelow.length - 1] :=
    pairwise_lt_getElem hb (by omega) (by omega)
  refine ⟨by ring, by linarith, by linarith, by linarith⟩

/-- … and it is the interior-face formula continued across the join: on the chain written as one sequence
    (`joinChain (chainPD …)`, i.e. poloidal_distance along the two regions) the interior `hy.ylow` entry at the join face is
    exactly `(d[1] - d[0]) + (dbelow[-1] - dbelow[-2])`, the distance between the cell centres on either side -/
theorem hy_ylow_join_is_chain_centre_gap (off : ℝ) (dbelow d : List ℝ) (s m : ℕ) (hb : dbelow.length = 2 * m + 3)
    (hd : 2 ≤ d.length) :
    (hyYlowInner (joinChain (chainPD off [(dbelow, s), (d, 0)])))[m]? =
      some ((d[1] - d[0]) + (dbelow[2 * m + 2] - dbelow[2 * m + 1])) := by
  have hne : dbelow ≠ [] := List.ne_nil_of_length_pos (by omega)
  rw [joinChain_two, hyYlowInner_append _ _ m (by rw [regionVals_length, hb])
    (by rw [List.length_tail, regionVals_length]; omega)]
  have hlast : dbelow.getLast hne = dbelow[2 * m + 2] := by
    have e : 2 * m + 3 - 1 = 2 * m + 2 := by omega
    rw [List.getLast_eq_getElem]; simp only [hb, e]
  rw [regionSpan_eq_getD hne, hlast]
  simp only [regionVals, List.getElem_tail, List.getElem_map, List.getD_eq_getElem d 0 (by omega : 0 < d.length)]
  congr 1
  ring

/-! ## 5. `calcPoloidalDistance` along a chain of regions -/

/-- 5a: the chain starts from 0 at the startInd point of its first region -/
theorem chain_starts_at_zero (d : List ℝ) (s : ℕ) (rest : List (List ℝ × ℕ)) (hs : s < d.length) :
    ∃ v, (chainPD 0 ((d, s) :: rest))[0]? = some v ∧ v[s]? = some 0 := by
  refine ⟨regionVals 0 d s, by simp [chainPD_cons], ?_⟩
  simp [regionVals, hs]

/-- the offsets: `offset_0 = off`, `offset_{k+1} = offset_k + (d_k[last] - d_k[s_k])` -/
theorem chain_offset_rec (off : ℝ) (regs : List (List ℝ × ℕ)) :
    chainOffset off regs 0 = off ∧
    ∀ (k : ℕ) (hk : k < regs.length) (hne : regs[k].1 ≠ []) (hs : regs[k].2 < regs[k].1.length),
      chainOffset off regs (k + 1) = chainOffset off regs k + (regs[k].1.getLast hne - regs[k].1[regs[k].2]) := by
  refine ⟨chainOffset_zero off regs, fun k hk hne hs => ?_⟩
  rw [chainOffset_step off regs k hk, ← regionSpan_eq hne hs]

/-- 5b: inside region k the values are `offset_k + (d_k[i] - d_k[s_k])`, hence strictly increasing in i when `d_k` is -/
theorem chain_within_region (off : ℝ) (regs : List (List ℝ × ℕ)) (k : ℕ) (hk : k < regs.length) :
    ∃ v, (chainPD off regs)[k]? = some v ∧ v.length = regs[k].1.length ∧
      (∀ (i : ℕ) (hi : i < regs[k].1.length),
        v[i]? = some (chainOffset off regs k + (regs[k].1[i] - regs[k].1.getD regs[k].2 0))) ∧
      (regs[k].1.Pairwise (· < ·) → v.Pairwise (· < ·)) := by
  refine ⟨_, chainPD_getElem? off regs k hk, regionVals_length _ _ _, fun i hi => ?_, fun h => regionVals_pairwise h⟩
  simp [regionVals, hi]

/-- 5c: when region k+1 starts at its first point (startInd = 0, as for every region that has a lower neighbour) its first
    value equals the last value of region k: poloidal_distance is continuous across the join -/
theorem chain_join_continuous (off : ℝ) (regs : List (List ℝ × ℕ)) (k : ℕ) (hk : k + 1 < regs.length)
    (hne : regs[k].1 ≠ []) (hne' : regs[k + 1].1 ≠ []) (hs : regs[k + 1].2 = 0) :
    ∃ u v a, (chainPD off regs)[k]? = some u ∧ (chainPD off regs)[k + 1]? = some v ∧
      u.getLast? = some a ∧ v.head? = some a :=
  chainPD_join_continuous off regs k hk hne hne' hs

/-- 5c: … and therefore the whole chain, written as one sequence with the duplicated join points dropped, is strictly
    increasing when every region's distances are -/
theorem chain_strictly_increasing (off : ℝ) (d : List ℝ) (s : ℕ) (rest : List (List ℝ × ℕ)) (hne : d ≠ [])
    (hd : d.Pairwise (· < ·)) (h : ∀ p ∈ rest, p.2 = 0 ∧ p.1 ≠ [] ∧ p.1.Pairwise (· < ·)) :
    (joinChain (chainPD off ((d, s) :: rest))).Pairwise (· < ·) :=
  joinChain_pairwise off d s rest hne hd h

/-- 5d: the last value of the last region is the sum over the regions of `d_k[last] - d_k[s_k]`
    (`total_poloidal_distance`: the circumference, for the periodic chain of a closed surface) -/
theorem chain_total (regs : List (List ℝ × ℕ)) (hne : regs ≠ []) (h : ∀ p ∈ regs, p.1 ≠ []) :
    ∃ v, (chainPD 0 regs).getLast? = some v ∧
      v.getLast? = some ((regs.map fun p => p.1.getLastD 0 - p.1.getD p.2 0).sum) := by
  obtain ⟨v, hv, hv'⟩ := chainPD_last 0 regs hne h
  refine ⟨v, hv, ?_⟩
  rw [hv', zero_add]
  rfl

/-- 5d': (last value of the chain) − (first value of the chain) = Σ_k (d_k[last] - d_k[first]) when the later regions start
    at their first point: the length of the whole chain, independent of the initial offset and of the first region's
    startInd -/
theorem chain_end_minus_start (off : ℝ) (d0 : List ℝ) (s0 : ℕ) (rest : List (List ℝ × ℕ)) (h0 : d0 ≠ [])
    (hrest : ∀ p ∈ rest, p.1 ≠ [] ∧ p.2 = 0) :
    ∃ u v a b, (chainPD off ((d0, s0) :: rest)).head? = some u ∧ (chainPD off ((d0, s0) :: rest)).getLast? = some v ∧
      u.head? = some a ∧ v.getLast? = some b ∧
      b - a = (((d0, s0) :: rest).map fun p => p.1.getLastD 0 - p.1.getD 0 0).sum := by
  obtain ⟨u, v, a, b, hu, hv, ha, hb, hab⟩ := chainPD_end_minus_start off d0 s0 rest h0 (fun p hp => (hrest p hp).1)
  refine ⟨u, v, a, b, hu, hv, ha, hb, ?_⟩
  rw [hab, List.map_cons, List.sum_cons]
  congr 1
  congr 1
  apply List.map_congr_left
  intro p hp
  simp only [regionSpan, (hrest p hp).2]

/-- 5e: the variant that subtracts `d[startInd]` for the FIRST region only (`chainPDfirstOnly`, the code before the fix)
    jumps at a join by exactly the first distance `b` of the next region: continuity needs the per-region subtraction
    unless every later region has `d[0] = 0` -/
theorem chain_without_per_region_start_is_discontinuous (off : ℝ) (d0 : List ℝ) (s0 s1 : ℕ) (b : ℝ) (dt : List ℝ)
    (h0 : d0 ≠ []) :
    ∃ u v a, chainPDfirstOnly off [(d0, s0), (b :: dt, s1)] = [u, v] ∧ u.getLast? = some a ∧
      v.head? = some (a + b) := by
  refine ⟨_, _, _, chainPDfirstOnly_two off d0 (b :: dt) s0 s1, regionVals_getLast? h0, ?_⟩
  simp

/-- 5e, concrete: two regions with distances 1,2,3 (not starting from 0) after 0,1,2: the first-only variant jumps from 2
    to 3 at the join, the per-region version continues from 2 -/
theorem chain_without_per_region_start_example :
    chainPDfirstOnly 0 [([0, 1, 2], 0), ([1, 2, 3], 0)] = [[0, 1, 2], [3, 4, 5]] ∧
    chainPD (0 : ℝ) [([0, 1, 2], 0), ([1, 2, 3], 0)] = [[0, 1, 2], [2, 3, 4]] := by
  constructor
  · rw [chainPDfirstOnly_two]
    norm_num [regionVals, regionSpan]
  · rw [chainPD_cons, chainPD_cons, chainPD_nil]
    norm_num [regionVals, regionSpan]

/-! ## 6. chords of a circular arc: the FineContour polygon length converges quadratically -/

/-- the polygon of N equal chords is shorter than the arc -/
theorem chord_le_arc_circle (r θ : ℝ) (N : ℕ) (hr : 0 < r) (hθ : 0 < θ) (hN : 1 ≤ N) :
    N * (2 * r * Real.sin (θ / (2 * N))) < r * θ := by
  have hN' : (0 : ℝ) < N := by exact_mod_cast hN
  set x := θ / (2 * N) with hx
  have hx0 : 0 < x := by positivity
  have hθx : θ = 2 * N * x := by rw [hx]; field_simp
  have h1 : Real.sin x < x := Real.sin_lt hx0
  rw [hθx]
  nlinarith [mul_pos hN' hr]

/-- … and the deficit is below r·θ³/(24 N²), for every N ≥ 1 (the hypothesis θ ≤ π of the geometric statement — each chord
    subtends at most a half turn — is not needed for the inequality) -/
theorem chord_error_circle (r θ : ℝ) (N : ℕ) (hr : 0 < r) (hθ : 0 < θ) (hN : 1 ≤ N) :
    0 < r * θ - N * (2 * r * Real.sin (θ / (2 * N))) ∧
    r * θ - N * (2 * r * Real.sin (θ / (2 * N))) < r * θ ^ 3 / (24 * N ^ 2) := by
  have hN' : (0 : ℝ) < N := by exact_mod_cast hN
  refine ⟨by linarith [chord_le_arc_circle r θ N hr hθ hN], ?_⟩
  set x := θ / (2 * N) with hx
  have hx0 : 0 < x := by positivity
  have hθx : θ = 2 * N * x := by rw [hx]; field_simp
  have h2 : x - x ^ 3 / 6 < Real.sin x := Real.sin_gt_sub_cube hx0
  have e : r * θ ^ 3 / (24 * N ^ 2) = N * (2 * r) * (x ^ 3 / 6) := by
    rw [hθx]; field_simp; ring
  rw [e, hθx]
  nlinarith [mul_pos hN' hr]

/-- what `FineContour.calcDistance` adds per segment on a circle: the straight-line distance between two points of the circle
    of radius r whose angles differ by φ ∈ [0, 2π] is the chord 2·r·sin(φ/2) used above (φ = θ/N) -/
theorem chord_length_circle (r a φ : ℝ) (hr : 0 ≤ r) (h0 : 0 ≤ φ) (h1 : φ ≤ 2 * Real.pi) :
    Real.sqrt ((r * Real.cos (a + φ) - r * Real.cos a) ^ 2 + (r * Real.sin (a + φ) - r * Real.sin a) ^ 2)
      = 2 * r * Real.sin (φ / 2) :=
  chord_length r a φ hr h0 h1

/-- the same with the model's name for the polygon length -/
theorem chordSum_error (r θ : ℝ) (N : ℕ) (hr : 0 < r) (hθ : 0 < θ) (hN : 1 ≤ N) :
    0 < r * θ - chordSum r θ N ∧ r * θ - chordSum r θ N < r * θ ^ 3 / (24 * N ^ 2) :=
  chord_error_circle r θ N hr hθ hN

/-! ## satisfiability of the hypotheses -/

/-- `hy_centre_is_face_gap`, `hy_ylow_inner_is_centre_gap`, `hy_telescopes`, `hy_pos`: ny = 2 -/
example : ∃ (d : List ℝ) (n : ℕ), d.length = 2 * n + 1 ∧ 1 < n ∧ d.Pairwise (· < ·) :=
  ⟨[0, 1, 2, 3, 4], 2, rfl, by norm_num, by norm_num⟩

/-- `hy_ylow_join` -/
example : ∃ d dbelow : List ℝ, d.Pairwise (· < ·) ∧ dbelow.Pairwise (· < ·) ∧ 2 ≤ d.length ∧ 2 ≤ dbelow.length :=
  ⟨[0, 1, 2], [0, 1, 2], by norm_num, by norm_num, by simp, by simp⟩

/-- `chain_join_continuous`, `chain_within_region`, `chain_total`: two regions, the second not starting from distance 0 -/
example : ∃ (regs : List (List ℝ × ℕ)) (k : ℕ) (hk : k + 1 < regs.length),
    regs[k].1 ≠ [] ∧ regs[k + 1].1 ≠ [] ∧ regs[k + 1].2 = 0 ∧ regs ≠ [] ∧ ∀ p ∈ regs, p.1 ≠ [] :=
  ⟨[([0, 1, 2], 1), ([1, 2, 3], 0)], 0, by simp, by simp, by simp, by simp, by simp, by simp⟩

/-- `chain_strictly_increasing` -/
example : ∃ (d : List ℝ) (rest : List (List ℝ × ℕ)), d ≠ [] ∧ d.Pairwise (· < ·) ∧ rest ≠ [] ∧
    ∀ p ∈ rest, p.2 = 0 ∧ p.1 ≠ [] ∧ p.1.Pairwise (· < ·) :=
  ⟨[0, 1, 2], [([1, 2, 3], 0)], by simp, by norm_num, by simp, by simp; norm_num⟩

/-- `chord_error_circle`: a half circle of radius 1 with 10 chords -/
example : ∃ (r θ : ℝ) (N : ℕ), 0 < r ∧ 0 < θ ∧ θ ≤ Real.pi ∧ 1 ≤ N :=
  ⟨1, Real.pi, 10, by norm_num, Real.pi_pos, le_refl _, by norm_num⟩

/-- `hy_ylow_join_is_chain_centre_gap`: a lower region of one cell (3 points) and an upper region -/
example : ∃ (dbelow d : List ℝ) (m : ℕ), dbelow.length = 2 * m + 3 ∧ 2 ≤ d.length :=
  ⟨[0, 1, 2], [1, 2, 3], 0, rfl, by simp⟩

/-- `chain_end_minus_start` -/
example : ∃ (d0 : List ℝ) (rest : List (List ℝ × ℕ)), d0 ≠ [] ∧ rest ≠ [] ∧ ∀ p ∈ rest, p.1 ≠ [] ∧ p.2 = 0 :=
  ⟨[0, 1, 2], [([1, 2, 3], 0)], by simp, by simp, by simp⟩

/-- `chord_length_circle`: a quarter turn on the unit circle -/
example : ∃ r φ : ℝ, 0 ≤ r ∧ 0 ≤ φ ∧ φ ≤ 2 * Real.pi :=
  ⟨1, Real.pi / 2, by norm_num, by positivity, by linarith [Real.pi_pos]⟩

/-! ## 7. the y-faces at the two ends of a region (`hy.ylow[i, 0]`, `hy.ylow[i, -1]`, `hy.corners[i, 0]`)

`hyYlowFirst d below`, `hyYlowLast d above`, `hyYlowAll d below above`: `below` / `above` are the distance lists of the
contour with the same radial index in the neighbouring region (`none` at a target).  In the arc-length statements
`G : ℤ → ℝ` is the arc length along one flux surface at the points of the chain of regions (face, centre, face, …), the last
point of the region below being the first point (index `K`) of this region and the last point of this region (index
`K + 2·ny`) the first point of the region above; every region measures its distances from its own origin (`c`, `cb`, `ca`). -/

/-- one value per y-face of the region -/
theorem hyYlowAll_length (d : List ℝ) (below above : Option (List ℝ)) (ny : ℕ) (hd : d.length = 2 * ny + 1)
    (hny : 1 ≤ ny) :
    (hyYlowAll d below above).length = ny + 1 := by
  rw [hyYlowAll_eq, List.length_append, List.length_cons, hyYlowInner_length_odd d ny hd]
  simp only [List.length_cons, List.length_nil]
  omega

/-- the entries of `hyYlowAll`: the lower end face, the interior faces (section 1), the upper end face -/
theorem hyYlowAll_entries (d : List ℝ) (below above : Option (List ℝ)) (ny : ℕ) (hd : d.length = 2 * ny + 1)
    (hny : 1 ≤ ny) :
    (hyYlowAll d below above)[0]? = some (hyYlowFirst d below) ∧
    (∀ j : ℕ, j + 1 < ny → (hyYlowAll d below above)[j + 1]? = some (d.getD (2 * j + 3) 0 - d.getD (2 * j + 1) 0)) ∧
    (hyYlowAll d below above)[ny]? = some (hyYlowLast d above) := by
  have hlen : (hyYlowInner d).length = ny - 1 := hyYlowInner_length_odd d ny hd
  refine ⟨by rw [hyYlowAll_eq]; rfl, fun j hj => ?_, ?_⟩
  · have h' : j < (hyYlowInner d).length := by omega
    rw [hyYlowAll_eq, List.cons_append, List.getElem?_cons_succ, List.getElem?_append_left h',
      List.getElem?_eq_getElem h', hyYlowInner_getElem d j (by omega) h',
      List.getD_eq_getElem d 0 (by omega : 2 * j + 3 < d.length),
      List.getD_eq_getElem d 0 (by omega : 2 * j + 1 < d.length)]
  · have e : ny = (hyYlowFirst d below :: hyYlowInner d).length := by rw [List.length_cons, hlen]; omega
    rw [hyYlowAll_eq]
    conv_lhs => rw [e]
    rw [List.getElem?_append_right (le_refl _)]
    simp

/-- at a join the lower end face is the arc length between the two cell centres either side of it: the last centre of the
    region below and the first centre of this region; the origins `c`, `cb` of the two regions drop out -/
theorem hyYlowFirst_join (G : ℤ → ℝ) (K : ℤ) (c cb : ℝ) (d db : List ℝ) (ny nb : ℕ) (hny : 1 ≤ ny) (hnb : 1 ≤ nb)
    (hb : db.length = 2 * nb + 1)
    (hG : ∀ k : ℕ, k ≤ 2 * ny → d.getD k 0 = G (K + k) - c)
    (hGb : ∀ k : ℕ, k ≤ 2 * nb → db.getD k 0 = G (K - 2 * nb + k) - cb) :
    hyYlowFirst d (some db) = G (K + 1) - G (K - 1) := by
  obtain ⟨m, rfl⟩ : ∃ m, nb = m + 1 := ⟨nb - 1, by omega⟩
  have e1 : db.length - 1 = 2 * m + 2 := by omega
  have e2 : db.length - 2 = 2 * m + 1 := by omega
  rw [hyYlowFirst_some, e1, e2, hG 1 (by omega), hG 0 (by omega), hGb (2 * m + 2) (by omega),
    hGb (2 * m + 1) (by omega)]
  have a0 : K + ((0 : ℕ) : ℤ) = K := by omega
  have a1 : K + ((1 : ℕ) : ℤ) = K + 1 := by omega
  have b1 : K - 2 * ((m + 1 : ℕ) : ℤ) + ((2 * m + 2 : ℕ) : ℤ) = K := by omega
  have b2 : K - 2 * ((m + 1 : ℕ) : ℤ) + ((2 * m + 1 : ℕ) : ℤ) = K - 1 := by omega
  rw [a0, a1, b1, b2]
  ring

/-- at a join the upper end face is the arc length between the last centre of this region and the first centre of the
    region above -/
theorem hyYlowLast_join (G : ℤ → ℝ) (K : ℤ) (c ca : ℝ) (d da : List ℝ) (ny na : ℕ) (hny : 1 ≤ ny) (hna : 1 ≤ na)
    (hd : d.length = 2 * ny + 1)
    (hG : ∀ k : ℕ, k ≤ 2 * ny → d.getD k 0 = G (K + k) - c)
    (hGa : ∀ k : ℕ, k ≤ 2 * na → da.getD k 0 = G (K + 2 * ny + k) - ca) :
    hyYlowLast d (some da) = G (K + 2 * ny + 1) - G (K + 2 * ny - 1) := by
  obtain ⟨m, rfl⟩ : ∃ m, ny = m + 1 := ⟨ny - 1, by omega⟩
  have e1 : d.length - 1 = 2 * m + 2 := by omega
  have e2 : d.length - 2 = 2 * m + 1 := by omega
  rw [hyYlowLast_some, e1, e2, hG (2 * m + 2) (by omega), hG (2 * m + 1) (by omega), hGa 1 (by omega),
    hGa 0 (by omega)]
  have a0 : K + 2 * ((m + 1 : ℕ) : ℤ) + ((0 : ℕ) : ℤ) = K + 2 * ((m + 1 : ℕ) : ℤ) := by omega
  have a1 : K + 2 * ((m + 1 : ℕ) : ℤ) + ((1 : ℕ) : ℤ) = K + 2 * ((m + 1 : ℕ) : ℤ) + 1 := by omega
  have b1 : K + ((2 * m + 2 : ℕ) : ℤ) = K + 2 * ((m + 1 : ℕ) : ℤ) := by omega
  have b2 : K + ((2 * m + 1 : ℕ) : ℤ) = K + 2 * ((m + 1 : ℕ) : ℤ) - 1 := by omega
  rw [a0, a1, b1, b2]
  ring

/-- at a target (no region below) the lower end face is twice the half cell next to it -/
theorem hyYlowFirst_target (G : ℤ → ℝ) (K : ℤ) (c : ℝ) (d : List ℝ) (ny : ℕ) (hny : 1 ≤ ny)
    (hG : ∀ k : ℕ, k ≤ 2 * ny → d.getD k 0 = G (K + k) - c) :
    hyYlowFirst d none = 2 * (G (K + 1) - G K) := by
  rw [hyYlowFirst_none, hG 1 (by omega), hG 0 (by omega)]
  have a0 : K + ((0 : ℕ) : ℤ) = K := by omega
  have a1 : K + ((1 : ℕ) : ℤ) = K + 1 := by omega
  rw [a0, a1]
  ring

/-- at a target (no region above) the upper end face is twice the half cell next to it -/
theorem hyYlowLast_target (G : ℤ → ℝ) (K : ℤ) (c : ℝ) (d : List ℝ) (ny : ℕ) (hny : 1 ≤ ny)
    (hd : d.length = 2 * ny + 1)
    (hG : ∀ k : ℕ, k ≤ 2 * ny → d.getD k 0 = G (K + k) - c) :
    hyYlowLast d none = 2 * (G (K + 2 * ny) - G (K + 2 * ny - 1)) := by
  obtain ⟨m, rfl⟩ : ∃ m, ny = m + 1 := ⟨ny - 1, by omega⟩
  have e1 : d.length - 1 = 2 * m + 2 := by omega
  have e2 : d.length - 2 = 2 * m + 1 := by omega
  rw [hyYlowLast_none, e1, e2, hG (2 * m + 2) (by omega), hG (2 * m + 1) (by omega)]
  have b1 : K + ((2 * m + 2 : ℕ) : ℤ) = K + 2 * ((m + 1 : ℕ) : ℤ) := by omega
  have b2 : K + ((2 * m + 1 : ℕ) : ℤ) = K + 2 * ((m + 1 : ℕ) : ℤ) - 1 := by omega
  rw [b1, b2]
  ring

/-- the faces tile the surface between cell centres: the lower end face and the interior faces of a region with a region
    below add up to the arc length from the last cell centre of the region below to the last cell centre of this region -/
theorem hyYlow_sum_join (G : ℤ → ℝ) (K : ℤ) (c cb : ℝ) (d db : List ℝ) (above : Option (List ℝ)) (ny nb : ℕ)
    (hny : 1 ≤ ny) (hnb : 1 ≤ nb) (hd : d.length = 2 * ny + 1) (hb : db.length = 2 * nb + 1)
    (hG : ∀ k : ℕ, k ≤ 2 * ny → d.getD k 0 = G (K + k) - c)
    (hGb : ∀ k : ℕ, k ≤ 2 * nb → db.getD k 0 = G (K - 2 * nb + k) - cb) :
    ((hyYlowAll d (some db) above).take ny).sum = G (K + 2 * ny - 1) - G (K - 1) := by
  rw [hyYlowAll_take_sum d _ _ ny hd hny, hyYlowFirst_join G K c cb d db ny nb hny hnb hb hG hGb,
    hG (2 * ny - 1) (by omega), hG 1 (by omega)]
  have a1 : K + ((1 : ℕ) : ℤ) = K + 1 := by omega
  have a2 : K + ((2 * ny - 1 : ℕ) : ℤ) = K + 2 * (ny : ℤ) - 1 := by omega
  rw [a1, a2]
  ring

/-- the seeded regression, in general: with the half cell taken from the wrong end of the region below the value is the own
    half cell plus the FIRST half cell of the region below … -/
theorem hyYlowFirstWrongEnd_join (G : ℤ → ℝ) (K : ℤ) (c cb : ℝ) (d db : List ℝ) (ny nb : ℕ) (hny : 1 ≤ ny)
    (hnb : 1 ≤ nb)
    (hG : ∀ k : ℕ, k ≤ 2 * ny → d.getD k 0 = G (K + k) - c)
    (hGb : ∀ k : ℕ, k ≤ 2 * nb → db.getD k 0 = G (K - 2 * nb + k) - cb) :
    hyYlowFirstWrongEnd d db = (G (K + 1) - G K) + (G (K - 2 * nb + 1) - G (K - 2 * nb)) := by
  rw [hyYlowFirstWrongEnd, hG 1 (by omega), hG 0 (by omega), hGb 1 (by omega), hGb 0 (by omega)]
  have a0 : K + ((0 : ℕ) : ℤ) = K := by omega
  have a1 : K + ((1 : ℕ) : ℤ) = K + 1 := by omega
  have b0 : K - 2 * (nb : ℤ) + ((0 : ℕ) : ℤ) = K - 2 * (nb : ℤ) := by omega
  have b1 : K - 2 * (nb : ℤ) + ((1 : ℕ) : ℤ) = K - 2 * (nb : ℤ) + 1 := by omega
  rw [a0, a1, b0, b1]
  ring

/-- … which differs from the arc length between the adjacent cell centres exactly when the first and the last half cell of
    the region below differ -/
theorem hyYlowFirstWrongEnd_ne_iff (G : ℤ → ℝ) (K : ℤ) (c cb : ℝ) (d db : List ℝ) (ny nb : ℕ) (hny : 1 ≤ ny)
    (hnb : 1 ≤ nb) (hb : db.length = 2 * nb + 1)
    (hG : ∀ k : ℕ, k ≤ 2 * ny → d.getD k 0 = G (K + k) - c)
    (hGb : ∀ k : ℕ, k ≤ 2 * nb → db.getD k 0 = G (K - 2 * nb + k) - cb) :
    hyYlowFirstWrongEnd d db ≠ hyYlowFirst d (some db) ↔ G (K - 2 * nb + 1) - G (K - 2 * nb) ≠ G K - G (K - 1) := by
  rw [hyYlowFirstWrongEnd_join G K c cb d db ny nb hny hnb hG hGb,
    hyYlowFirst_join G K c cb d db ny nb hny hnb hb hG hGb]
  constructor
  · intro h h'
    apply h
    linarith
  · intro h h'
    apply h
    linarith

/-- the seeded regression on a concrete chain with unequal spacing: arc lengths 0, 1, 3 (region below, own origin) and
    3, 7, 11 continued as 0, 4, 8 (this region, own origin).  The face at the join is 6 = (3 − 1) + (4 − 0), the distance
    between the adjacent cell centres; the wrong-end variant gives 5 -/
theorem hyYlowFirst_wrong_end_counterexample :
    hyYlowFirst ([0, 4, 8] : List ℝ) (some [0, 1, 3]) = 6 ∧ hyYlowFirstWrongEnd [0, 4, 8] [0, 1, 3] = 5 ∧
    hyYlowFirstWrongEnd [0, 4, 8] [0, 1, 3] ≠ hyYlowFirst ([0, 4, 8] : List ℝ) (some [0, 1, 3]) := by
  have h1 : hyYlowFirst ([0, 4, 8] : List ℝ) (some [0, 1, 3]) = 6 := by
    rw [hyYlowFirst_some]; norm_num
  have h2 : hyYlowFirstWrongEnd [0, 4, 8] [0, 1, 3] = 5 := by
    rw [hyYlowFirstWrongEnd]; norm_num
  refine ⟨h1, h2, ?_⟩
  rw [h1, h2]
  norm_num

/-- a periodic region is its own neighbour on both sides: the two end faces are the same face -/
theorem hyYlow_periodic_ends (d : List ℝ) : hyYlowLast d (some d) = hyYlowFirst d (some d) := by
  rw [hyYlowLast_some, hyYlowFirst_some]
  ring

/-- a single periodic region (the core of a grid with one closed region: below = above = the contour itself).  Its ny + 1
    face values list the face at the branch cut twice (`hyYlow_periodic_ends`); the ny distinct faces — each the distance
    between two consecutive cell centres going round — add up to `d[2·ny] − d[0]`, the circumference.  No closedness
    hypothesis on the half cells is needed: the identity is exact for every list -/
theorem hyYlow_periodic_sum (d : List ℝ) (ny : ℕ) (hd : d.length = 2 * ny + 1) (hny : 1 ≤ ny) :
    ((hyYlowAll d (some d) (some d)).take ny).sum = d[2 * ny] - d[0] ∧
    ((hyYlowAll d (some d) (some d)).take ny).sum = (hyCentre d).sum := by
  have h : ((hyYlowAll d (some d) (some d)).take ny).sum = d[2 * ny] - d[0] := by
    have e1 : d.length - 1 = 2 * ny := by omega
    have e2 : d.length - 2 = 2 * ny - 1 := by omega
    rw [hyYlowAll_take_sum d _ _ ny hd hny, hyYlowFirst_some, e1, e2,
      List.getD_eq_getElem d 0 (by omega : 2 * ny < d.length), List.getD_eq_getElem d 0 (by omega : 0 < d.length)]
    ring
  exact ⟨h, by rw [h, (hy_telescopes d ny hd).2]⟩

/-! ### section 7: concrete values and satisfiability of the hypotheses -/

/-- `hyYlowAll`: a region of two cells between a region below and a target -/
example : hyYlowAll ([0, 1, 2, 4, 6] : List ℝ) (some [0, 3, 6]) none = [4, 3, 4] := by
  rw [hyYlowAll_eq, hyYlowFirst_some, hyYlowLast_none]
  norm_num [hyYlowInner, hyCentre]

/-- `hyYlow_periodic_sum`: a closed contour of three cells with unequal spacing, circumference 12 -/
example : hyYlowAll ([0, 1, 2, 4, 6, 9, 12] : List ℝ) (some [0, 1, 2, 4, 6, 9, 12]) (some [0, 1, 2, 4, 6, 9, 12])
    = [4, 3, 5, 4] ∧ (4 : ℝ) + 3 + 5 = 12 - 0 := by
  rw [hyYlowAll_eq, hyYlowFirst_some, hyYlowLast_some]
  norm_num [hyYlowInner, hyCentre]

/-- `hyYlowFirst_join`, `hyYlowLast_join`, `hyYlow_sum_join`, `hyYlowFirstWrongEnd_ne_iff`: the chain of
    `hyYlowFirst_wrong_end_counterexample` with `G k = k²` on points −2 … 4 (K = 0: region below −2, −1, 0, this region
    0, 1, 2, region above 2, 3, 4), each region measured from its first point -/
example : ∃ (G : ℤ → ℝ) (K : ℤ) (c cb ca : ℝ) (d db da : List ℝ) (ny nb na : ℕ), 1 ≤ ny ∧ 1 ≤ nb ∧ 1 ≤ na ∧
    d.length = 2 * ny + 1 ∧ db.length = 2 * nb + 1 ∧
    (∀ k : ℕ, k ≤ 2 * ny → d.getD k 0 = G (K + k) - c) ∧
    (∀ k : ℕ, k ≤ 2 * nb → db.getD k 0 = G (K - 2 * nb + k) - cb) ∧
    (∀ k : ℕ, k ≤ 2 * na → da.getD k 0 = G (K + 2 * ny + k) - ca) ∧
    G (K - 2 * nb + 1) - G (K - 2 * nb) ≠ G K - G (K - 1) := by
  refine ⟨fun k => ((k * |k| : ℤ) : ℝ), 0, 0, -4, 4, [0, 1, 4], [0, 3, 4], [0, 5, 12], 1, 1, 1, le_refl _, le_refl _,
    le_refl _, rfl, rfl, ?_, ?_, ?_, ?_⟩
  · intro k hk
    have h : k = 0 ∨ k = 1 ∨ k = 2 := by omega
    rcases h with rfl | rfl | rfl <;> norm_num
  · intro k hk
    have h : k = 0 ∨ k = 1 ∨ k = 2 := by omega
    rcases h with rfl | rfl | rfl <;> norm_num
  · intro k hk
    have h : k = 0 ∨ k = 1 ∨ k = 2 := by omega
    rcases h with rfl | rfl | rfl <;> norm_num
  · norm_num

/-- `hyYlowFirst_target`, `hyYlowLast_target`, `hyYlowAll_length`, `hyYlowAll_entries`: a region of two cells -/
example : ∃ (G : ℤ → ℝ) (K : ℤ) (c : ℝ) (d : List ℝ) (ny : ℕ), 1 ≤ ny ∧ d.length = 2 * ny + 1 ∧
    ∀ k : ℕ, k ≤ 2 * ny → d.getD k 0 = G (K + k) - c := by
  refine ⟨fun k => (k : ℝ), 3, 3, [0, 1, 2, 3, 4], 2, by norm_num, rfl, ?_⟩
  intro k hk
  have h : k = 0 ∨ k = 1 ∨ k = 2 ∨ k = 3 ∨ k = 4 := by omega
  rcases h with rfl | rfl | rfl | rfl | rfl <;> norm_num

end HypnoModel.Props.C05
