/-
C03 — field and profile values: the sign decision, the pressure reflection in divertor legs, and the profile extrapolation.
Model: HypnoModel/Model/Profiles.lean (hand-written; tied to mesh.py / tokamak.py by py/props/c03.py: driver ops c03s/c03r and the
grid-level oracle). The field formulas Brxy, Bzxy, Btxy themselves are part of the generated Gen/Fields.lean (C18).
-/
import HypnoModel.Model.Profiles
import HypnoModel.Gen.Geom1
import HypnoModel.Gen.Fields
import Mathlib.Analysis.SpecialFunctions.ExpDeriv
import Mathlib.Tactic.Linarith
import Mathlib.Tactic.Ring

namespace HypnoModel.Props.C03
open Profiles

/-- the grid gets ONE sign: if geometry1 does not raise, the sign given to Bpxy is both the sign of Bp along increasing y
    and `bpsign`, the direction in which psi varies radially (which C09 makes common to all regions) -/
theorem bp_sign_decision (dot s : ℝ) (hs : s = 1 ∨ s = -1) (k : Int) (h : bpDecision dot s = .ok k) :
    (k = 1 ∨ k = -1) ∧ ((k : ℝ) = s) ∧ (dot < 0 ↔ k = -1) := by
  unfold bpDecision at h
  rcases hs with rfl | rfl
  · by_cases hd : dot < 0
    · rw [if_pos hd, if_pos (by norm_num : (0 : ℝ) < 1)] at h; cases h
    · rw [if_neg hd, if_neg (by norm_num : ¬ (1 : ℝ) < 0)] at h
      cases h
      exact ⟨Or.inl rfl, by norm_num, by simp [hd]⟩
  · by_cases hd : dot < 0
    · rw [if_pos hd, if_neg (by norm_num : ¬ (0 : ℝ) < -1)] at h
      cases h
      exact ⟨Or.inr rfl, by norm_num, by simp [hd]⟩
    · rw [if_neg hd, if_pos (by norm_num : (-1 : ℝ) < 0)] at h; cases h

/-- it raises exactly when the two signs disagree -/
theorem bp_sign_raises_iff (dot s : ℝ) (hs : s = 1 ∨ s = -1) :
    bpDecision dot s = .raise ↔ (dot < 0 ∧ s = 1) ∨ (¬ dot < 0 ∧ s = -1) := by
  unfold bpDecision
  rcases hs with rfl | rfl <;> by_cases hd : dot < 0 <;> simp [hd] <;> norm_num

/-- reflection about the leg's separatrix: the argument is on the SOL side (`sign·(ψ' − leg) ≥ 0`), at the same distance -/
theorem reflect_props (leg sign psi : ℝ) (hs : sign = 1 ∨ sign = -1) :
    0 ≤ sign * (reflect (fun x => |x|) leg sign psi - leg) ∧
    |reflect (fun x => |x|) leg sign psi - leg| = |psi - leg| := by
  unfold reflect
  rcases hs with rfl | rfl
  · constructor
    · have := abs_nonneg (psi - leg); linarith
    · simp
  · constructor
    · have := abs_nonneg (psi - leg); linarith
    · simp

/-- it is the identity on the SOL side … -/
theorem reflect_identity_on_sol (leg sign psi : ℝ) (hs : sign = 1 ∨ sign = -1) (h : 0 ≤ sign * (psi - leg)) :
    reflect (fun x => |x|) leg sign psi = psi := by
  unfold reflect
  beta_reduce
  rcases hs with rfl | rfl
  · rw [abs_of_nonneg (show 0 ≤ psi - leg by linarith)]; ring
  · rw [abs_of_nonpos (show psi - leg ≤ 0 by linarith)]; ring

/-- … mirrors the private-flux side onto it … -/
theorem reflect_mirror_on_pf (leg sign psi : ℝ) (hs : sign = 1 ∨ sign = -1) (h : sign * (psi - leg) ≤ 0) :
    reflect (fun x => |x|) leg sign psi = 2 * leg - psi := by
  unfold reflect
  beta_reduce
  rcases hs with rfl | rfl
  · rw [abs_of_nonpos (show psi - leg ≤ 0 by linarith)]; ring
  · rw [abs_of_nonneg (show 0 ≤ psi - leg by linarith)]; ring

/-- … is idempotent and continuous at the separatrix -/
theorem reflect_idempotent (leg sign psi : ℝ) (hs : sign = 1 ∨ sign = -1) :
    reflect (fun x => |x|) leg sign (reflect (fun x => |x|) leg sign psi) = reflect (fun x => |x|) leg sign psi :=
  reflect_identity_on_sol leg sign _ hs (reflect_props leg sign psi hs).1

theorem reflect_at_separatrix (leg sign : ℝ) : reflect (fun x => |x|) leg sign leg = leg := by
  simp [reflect]

/-- the exponential continuation matches value and slope of the profile at its last point -/
theorem extrapolation_continuous (p0 dpdpsi psi0 : ℝ) (hp : p0 ≠ 0) :
    extrap Real.exp p0 dpdpsi psi0 psi0 = p0 ∧
    HasDerivAt (fun psi => extrap Real.exp p0 dpdpsi psi0 psi) dpdpsi psi0 := by
  constructor
  · simp [extrap]
  · unfold extrap
    have h1 : HasDerivAt (fun psi : ℝ => (psi - psi0) * dpdpsi / p0) (dpdpsi / p0) psi0 := by
      have := ((hasDerivAt_id psi0).sub_const psi0).mul_const dpdpsi
      have := this.div_const p0
      simpa using this
    have h2 := (h1.exp).const_mul p0
    have e : p0 * (Real.exp ((psi0 - psi0) * dpdpsi / p0) * (dpdpsi / p0)) = dpdpsi := by
      simp; field_simp
    rw [e] at h2
    exact h2

/-- using the absolute psi in the exponent (what the code did before the fix) is discontinuous unless psi0·dpdpsi = 0 -/
theorem extrapolation_absolute_psi_discontinuous :
    ∃ p0 dpdpsi psi0 : ℝ, p0 ≠ 0 ∧ p0 * Real.exp (psi0 * dpdpsi / p0) ≠ p0 := by
  refine ⟨1, 1, 1, one_ne_zero, ?_⟩
  simp

example : bpDecision (-0.3 : ℝ) (-1) = .ok (-1) := by unfold bpDecision; norm_num
example : reflect (fun x => |x|) (1 : ℝ) (-1) 2 = 0 := by unfold reflect; norm_num


/-! ## the field magnitudes assigned in geometry1 (formulas regenerated from the source: Gen/Geom1.lean) -/
section geometry1
open Gen.R.Geom1

/-- |Bpxy| = sqrt(Brxy² + Bzxy²): non-negative, and its square is the sum of squares -/
theorem Bpxy_sq (Br Bz : ℝ) : Bpxy Br Bz ^ 2 = Br ^ 2 + Bz ^ 2 := by
  unfold Bpxy; exact Real.sq_sqrt (by positivity)

theorem Bpxy_nonneg (Br Bz : ℝ) : 0 ≤ Bpxy Br Bz := by unfold Bpxy; exact Real.sqrt_nonneg _

/-- with Brxy = (∂ψ/∂Z)/R and Bzxy = −(∂ψ/∂R)/R (the generated Bp_R, Bp_Z of the Equilibrium, C18): |Bp| = |∇ψ| / |R| -/
theorem Bpxy_eq_gradpsi_over_R (pR pZ R : ℝ) (hR : R ≠ 0) :
    Bpxy (pZ / R) (-pR / R) = Real.sqrt (pR ^ 2 + pZ ^ 2) / |R| := by
  unfold Bpxy
  have h : (pZ / R) ^ 2 + (-pR / R) ^ 2 = (pR ^ 2 + pZ ^ 2) / R ^ 2 := by field_simp; ring
  rw [h, Real.sqrt_div (by positivity), Real.sqrt_sq_eq_abs]

/-- Btxy = fpol(ψ)/R -/
theorem Btxy_eq (R f : ℝ) : Btxy R f = f / R := by unfold Btxy; ring

/-- Bxy = sqrt(Bpxy² + Btxy²): the same for either sign given to Bpxy, never smaller than |Bpxy| or |Btxy| -/
theorem Bxy_sq (Bp Bt : ℝ) : Bxy Bp Bt ^ 2 = Bp ^ 2 + Bt ^ 2 := by
  unfold Bxy; exact Real.sq_sqrt (by positivity)

theorem Bxy_sign_independent (Bp Bt : ℝ) : Bxy (-Bp) Bt = Bxy Bp Bt ∧ Bxy Bp (-Bt) = Bxy Bp Bt := by
  unfold Bxy; constructor <;> congr 1 <;> ring

theorem Bxy_ge (Bp Bt : ℝ) : |Bp| ≤ Bxy Bp Bt ∧ |Bt| ≤ Bxy Bp Bt := by
  unfold Bxy
  constructor
  · rw [← Real.sqrt_sq_eq_abs]; exact Real.sqrt_le_sqrt (by nlinarith [sq_nonneg Bt])
  · rw [← Real.sqrt_sq_eq_abs]; exact Real.sqrt_le_sqrt (by nlinarith [sq_nonneg Bp])

example : Bxy 3 4 = 5 := by
  unfold Bxy; rw [show ((3 : ℝ) ^ 2 + 4 ^ 2) = 5 ^ 2 by norm_num]; exact Real.sqrt_sq (by norm_num)

end geometry1

end HypnoModel.Props.C03
