/-
C10 — poloidal spacing functions (`EquilibriumRegion.getSqrtPoloidalDistanceFunc`, `getMonotonicPoloidalDistanceFunc`,
`getLinearPoloidalDistanceFunc`, hypnotoad/core/equilibrium.py).
Definitions: HypnoModel/Gen/PolSpacing.lean (GENERATED from the Python on every run; `Gen.R.PolSpacing.*` over ℝ, one
definition per code path, `numpy.piecewise` as nested `if`, with the branch conditions/checks `_guard` and the brentq
equation `monoConcave_constraint`).  Normal forms in the normalised variables `X = N/N_norm`, `x = i/N_norm` and helper
lemmas: HypnoModel/Lemmas/PolSpacing.lean.  This file: property theorems only.
-/
import HypnoModel.Gen.PolSpacing
import HypnoModel.Gen.Spacings
import HypnoModel.Lemmas.PolSpacing

namespace HypnoModel.Props.C10
open Real Set Gen.R.PolSpacing
open PolSpacingLemmas (cvx sL sU sB eL eU dU dB eB fB)

/-! ## 1. endpoints: `s 0 = 0`, `s N = length` -/

theorem linear_endpoints (length N : ℝ) (hN : 0 < N) :
    linear length N 0 = 0 ∧ linear length N N = length := by
  unfold linear
  refine ⟨by simp, ?_⟩
  field_simp

theorem sqrtNone_endpoints (length N N_norm : ℝ) (hN : 0 < N) :
    sqrtNone length N N_norm 0 = 0 ∧ sqrtNone length N N_norm N = length := by
  unfold sqrtNone
  refine ⟨by simp, ?_⟩
  field_simp

/-- convex (cubic) branch of `getMonotonicPoloidalDistanceFunc` -/
theorem monoConvex_endpoints (length N N_norm d_lower d_upper : ℝ) (hN : 0 < N) (hM : 0 < N_norm) :
    monoConvex length N N_norm d_lower d_upper 0 = 0 ∧ monoConvex length N N_norm d_lower d_upper N = length := by
  rw [PolSpacingLemmas.monoConvex_inner _ _ _ _ _ 0 le_rfl hN.le,
    PolSpacingLemmas.monoConvex_inner _ _ _ _ _ N hN.le le_rfl, zero_div]
  exact ⟨PolSpacingLemmas.cvx_zero _ _ _ _, PolSpacingLemmas.cvx_end _ _ _ _ (div_pos hN hM).ne'⟩

/-- concave (log) branch: `s 0 = 0` exactly, and `s N` misses `length` by exactly the residual of the equation handed to
    brentq, evaluated at the root brentq returned.  Only the positivity check `r2 > 0` of the guard is used. -/
theorem monoConcave_endpoints (length N N_norm d_lower d_upper root : ℝ) (hN : 0 < N) (hM : 0 < N_norm)
    (hg : monoConcave_guard length N N_norm d_lower d_upper root) :
    monoConcave length N N_norm d_lower d_upper root 0 = 0 ∧
    monoConcave length N N_norm d_lower d_upper root N - length
      = monoConcave_constraint length N N_norm d_lower d_upper root := by
  unfold monoConcave_guard at hg
  have hr2 := not_le.mp hg.2.2.2.2.1
  constructor
  · unfold monoConcave
    rw [if_neg (not_lt.mpr hN.le), if_neg (lt_irrefl 0)]
    simp
  · unfold monoConcave monoConcave_constraint
    rw [if_neg (lt_irrefl N), if_neg (not_lt.mpr hN.le), div_div,
      PolSpacingLemmas.log_one_sub_div N N_norm _ hN hM hr2]
    ring

theorem sqrtUpperOnly_endpoints (length N N_norm b_upper a_upper : ℝ) (hN : 0 < N) (hM : 0 < N_norm) :
    sqrtUpperOnly length N N_norm b_upper a_upper 0 = 0 ∧ sqrtUpperOnly length N N_norm b_upper a_upper N = length := by
  rw [PolSpacingLemmas.sqrtUpperOnly_inner _ _ _ _ _ 0 le_rfl,
    PolSpacingLemmas.sqrtUpperOnly_inner _ _ _ _ _ N hN.le, zero_div]
  exact ⟨PolSpacingLemmas.sU_zero _ _ _ _, PolSpacingLemmas.sU_end _ _ _ _ (div_pos hN hM)⟩

theorem sqrtLowerOnly_endpoints (length N N_norm b_lower a_lower : ℝ) (hN : 0 < N) (hM : 0 < N_norm) :
    sqrtLowerOnly length N N_norm b_lower a_lower 0 = 0 ∧ sqrtLowerOnly length N N_norm b_lower a_lower N = length := by
  rw [PolSpacingLemmas.sqrtLowerOnly_inner _ _ _ _ _ 0 hN.le,
    PolSpacingLemmas.sqrtLowerOnly_inner _ _ _ _ _ N le_rfl, zero_div]
  exact ⟨PolSpacingLemmas.sL_zero _ _ _ _, PolSpacingLemmas.sL_end _ _ _ _ (div_pos hN hM)⟩

/-- general both-ends path: unconditional -/
theorem sqrtBothab_endpoints (length N N_norm b_lower a_lower b_upper a_upper : ℝ) (hN : 0 < N) (hM : 0 < N_norm) :
    sqrtBothab length N N_norm b_lower a_lower b_upper a_upper 0 = 0 ∧
    sqrtBothab length N N_norm b_lower a_lower b_upper a_upper N = length := by
  rw [PolSpacingLemmas.sqrtBothab_inner, PolSpacingLemmas.sqrtBothab_inner, zero_div]
  exact ⟨PolSpacingLemmas.sB_zero _ _ _ _ _ _, PolSpacingLemmas.sB_end _ _ _ _ _ _ (div_pos hN hM)⟩

/-- `sqrtBotha0` (the text omits the upper sqrt term but keeps `c = 2 a_upper √(N/N_norm)`): `s N = length` always,
    `s 0 = 0` needs `a_upper = 0`, which is the branch condition (5th conjunct of `sqrtBotha0_guard`);
    without it `s 0 = 2 a_upper √(N/N_norm)` -/
theorem sqrtBotha0_endpoints (length N N_norm b_lower a_lower b_upper a_upper : ℝ) (hN : 0 < N) (hM : 0 < N_norm)
    (hau : a_upper = 0) :
    sqrtBotha0 length N N_norm b_lower a_lower b_upper a_upper 0 = 0 ∧
    sqrtBotha0 length N N_norm b_lower a_lower b_upper a_upper N = length := by
  rw [PolSpacingLemmas.sqrtBotha0_inner _ _ _ _ _ _ _ 0 hN.le,
    PolSpacingLemmas.sqrtBotha0_inner _ _ _ _ _ _ _ N le_rfl, zero_div,
    PolSpacingLemmas.sB_zero, PolSpacingLemmas.sB_end _ _ _ _ _ _ (div_pos hN hM), hau]
  constructor <;> simp

/-- `sqrtBoth0b` (the text omits the lower sqrt term): `s 0 = 0` always, `s N = length` needs `a_lower = 0` (2nd conjunct
    of `sqrtBoth0b_guard`) -/
theorem sqrtBoth0b_endpoints (length N N_norm b_lower a_lower b_upper a_upper : ℝ) (hN : 0 < N) (hM : 0 < N_norm)
    (hal : a_lower = 0) :
    sqrtBoth0b length N N_norm b_lower a_lower b_upper a_upper 0 = 0 ∧
    sqrtBoth0b length N N_norm b_lower a_lower b_upper a_upper N = length := by
  rw [PolSpacingLemmas.sqrtBoth0b_inner _ _ _ _ _ _ _ 0 le_rfl,
    PolSpacingLemmas.sqrtBoth0b_inner _ _ _ _ _ _ _ N hN.le, zero_div,
    PolSpacingLemmas.sB_zero, PolSpacingLemmas.sB_end _ _ _ _ _ _ (div_pos hN hM), hal]
  constructor <;> simp

/-- `sqrtBoth00` (no sqrt terms in the text): needs `a_lower = 0` and `a_upper = 0` (2nd and 5th conjuncts of its guard) -/
theorem sqrtBoth00_endpoints (length N N_norm b_lower a_lower b_upper a_upper : ℝ) (hN : 0 < N) (hM : 0 < N_norm)
    (hal : a_lower = 0) (hau : a_upper = 0) :
    sqrtBoth00 length N N_norm b_lower a_lower b_upper a_upper 0 = 0 ∧
    sqrtBoth00 length N N_norm b_lower a_lower b_upper a_upper N = length := by
  rw [PolSpacingLemmas.sqrtBoth00_inner _ _ _ _ _ _ _ 0 le_rfl hN.le,
    PolSpacingLemmas.sqrtBoth00_inner _ _ _ _ _ _ _ N hN.le le_rfl, zero_div,
    PolSpacingLemmas.sB_zero, PolSpacingLemmas.sB_end _ _ _ _ _ _ (div_pos hN hM), hal, hau]
  constructor <;> simp

/-- the three special-case paths under their guards -/
theorem sqrtBoth_special_endpoints_of_guard (length N N_norm b_lower a_lower b_upper a_upper tol : ℝ)
    (hN : 0 < N) (hM : 0 < N_norm) :
    (sqrtBoth00_guard length N N_norm b_lower a_lower b_upper a_upper →
      sqrtBoth00 length N N_norm b_lower a_lower b_upper a_upper 0 = 0 ∧
      sqrtBoth00 length N N_norm b_lower a_lower b_upper a_upper N = length) ∧
    (sqrtBoth0b_guard length N N_norm b_lower a_lower b_upper a_upper tol →
      sqrtBoth0b length N N_norm b_lower a_lower b_upper a_upper 0 = 0 ∧
      sqrtBoth0b length N N_norm b_lower a_lower b_upper a_upper N = length) ∧
    (sqrtBotha0_guard length N N_norm b_lower a_lower b_upper a_upper tol →
      sqrtBotha0 length N N_norm b_lower a_lower b_upper a_upper 0 = 0 ∧
      sqrtBotha0 length N N_norm b_lower a_lower b_upper a_upper N = length) := by
  refine ⟨fun hg => ?_, fun hg => ?_, fun hg => ?_⟩
  · unfold sqrtBoth00_guard at hg
    exact sqrtBoth00_endpoints _ _ _ _ _ _ _ hN hM hg.2.1 hg.2.2.2.2.1
  · unfold sqrtBoth0b_guard at hg
    exact sqrtBoth0b_endpoints _ _ _ _ _ _ _ hN hM hg.2.1
  · unfold sqrtBotha0_guard at hg
    exact sqrtBotha0_endpoints _ _ _ _ _ _ _ hN hM hg.2.2.2.2.1

/-! ## 2. end gradients -/

/-- `monoConvex` (the full piecewise function, linear continuations included) is differentiable at index 0 with
    `ds/di = d_lower / N_norm`, i.e. `dsN/diN = d_lower`, and at index N with `d_upper / N_norm` -/
theorem monoConvex_end_gradients (length N N_norm d_lower d_upper : ℝ) (hN : 0 < N) (hM : 0 < N_norm) :
    HasDerivAt (monoConvex length N N_norm d_lower d_upper) (d_lower / N_norm) 0 ∧
    HasDerivAt (monoConvex length N N_norm d_lower d_upper) (d_upper / N_norm) N :=
  ⟨PolSpacingLemmas.monoConvex_hasDerivAt_zero length N N_norm d_lower d_upper hN,
   PolSpacingLemmas.monoConvex_hasDerivAt_N length N N_norm d_lower d_upper hN hM⟩

/-- `monoConvex` between the ends: `ds/di = sprime(i/N_norm)/N_norm` with `sprime = a iN² + b iN + c` -/
theorem monoConvex_gradient (length N N_norm d_lower d_upper i : ℝ) (hi0 : 0 < i) (hiN : i < N) :
    HasDerivAt (monoConvex length N N_norm d_lower d_upper)
      (PolSpacingLemmas.cvx' d_lower d_upper (N / N_norm) length (i / N_norm) / N_norm) i :=
  PolSpacingLemmas.hasDerivAt_of_inner hi0 hiN
    (fun j h0 hN => PolSpacingLemmas.monoConvex_inner length N N_norm d_lower d_upper j h0 hN)
    (PolSpacingLemmas.cvx_hasDeriv _ _ _ _ _)

/-- `sqrtLowerOnly`: for `0 < i < N`, `ds/di = [a_lower/√iN + (b_lower + 2 e iN)]/N_norm` with `iN = i/N_norm`:
    the singular part `a_lower/√iN` plus a regular part whose value at `iN = 0` is `b_lower` -/
theorem sqrtLowerOnly_gradient (length N N_norm b_lower a_lower i : ℝ) (hM : 0 < N_norm) (hi0 : 0 < i) (hiN : i < N) :
    HasDerivAt (sqrtLowerOnly length N N_norm b_lower a_lower)
      (a_lower / √(i / N_norm) / N_norm
        + (b_lower / N_norm
          + 2 * ((length - 2 * a_lower * √(N / N_norm) - b_lower * (N / N_norm)) / (N / N_norm) ^ 2) * i / N_norm ^ 2)) i := by
  have h := PolSpacingLemmas.hasDerivAt_of_inner (F := sqrtLowerOnly length N N_norm b_lower a_lower) hi0 hiN
    (fun j _ hN => PolSpacingLemmas.sqrtLowerOnly_inner length N N_norm b_lower a_lower j hN)
    (PolSpacingLemmas.sL_hasDeriv (2 * a_lower) b_lower (N / N_norm) length (i / N_norm) (div_pos hi0 hM).ne')
  refine h.congr_deriv ?_
  unfold PolSpacingLemmas.eL
  rw [mul_div_mul_left _ _ (two_ne_zero : (2 : ℝ) ≠ 0)]
  ring

/-- hence `ds/di − (a_lower/√iN)/N_norm → b_lower/N_norm` as `i ↓ 0` -/
theorem sqrtLowerOnly_gradient_limit (length N N_norm b_lower a_lower : ℝ) (hN : 0 < N) (hM : 0 < N_norm) :
    Filter.Tendsto
      (fun i => deriv (sqrtLowerOnly length N N_norm b_lower a_lower) i - a_lower / √(i / N_norm) / N_norm)
      (nhdsWithin 0 (Ioi 0)) (nhds (b_lower / N_norm)) := by
  set e := (length - 2 * a_lower * √(N / N_norm) - b_lower * (N / N_norm)) / (N / N_norm) ^ 2 with he
  have hlin : Filter.Tendsto (fun i : ℝ => b_lower / N_norm + 2 * e * i / N_norm ^ 2)
      (nhdsWithin 0 (Ioi 0)) (nhds (b_lower / N_norm)) := by
    have hc : Continuous (fun i : ℝ => b_lower / N_norm + 2 * e * i / N_norm ^ 2) := by fun_prop
    have h0 := hc.tendsto 0
    simp only [mul_zero, zero_div, add_zero] at h0
    exact tendsto_nhdsWithin_of_tendsto_nhds h0
  refine Filter.Tendsto.congr' ?_ hlin
  have hmem : Ioo (0 : ℝ) N ∈ nhdsWithin 0 (Ioi 0) := Ioo_mem_nhdsGT hN
  filter_upwards [hmem] with i hi
  rw [(sqrtLowerOnly_gradient length N N_norm b_lower a_lower i hM hi.1 hi.2).deriv]
  ring

/-- `sqrtUpperOnly`: for `0 < i < N`, `ds/di = [a_upper/√(N/N_norm − iN) + (d + 2 e iN)]/N_norm`, and the regular part
    `d + 2 e iN` equals `b_upper` at the upper end `iN = N/N_norm`.  Here, with `X = N/N_norm`, `b = 2 a_upper`:
    `eU b b_upper X length = (b√X + b_upper X − length)/X²` and `dU b b_upper X length = b_upper − 2 e X` are the code's
    `e` and `d` (Lemmas/PolSpacing.lean). -/
theorem sqrtUpperOnly_gradient (length N N_norm b_upper a_upper i : ℝ) (hM : 0 < N_norm) (hi0 : 0 < i) (hiN : i < N) :
    HasDerivAt (sqrtUpperOnly length N N_norm b_upper a_upper)
      (a_upper / √((N - i) / N_norm) / N_norm
        + (dU (2 * a_upper) b_upper (N / N_norm) length
          + 2 * eU (2 * a_upper) b_upper (N / N_norm) length * (i / N_norm)) / N_norm) i ∧
    dU (2 * a_upper) b_upper (N / N_norm) length
      + 2 * eU (2 * a_upper) b_upper (N / N_norm) length * (N / N_norm) = b_upper := by
  refine ⟨?_, PolSpacingLemmas.dU_end _ _ _ _⟩
  have hne : N / N_norm - i / N_norm ≠ 0 := by
    rw [← sub_div]; exact (div_pos (by linarith) hM).ne'
  have h := PolSpacingLemmas.hasDerivAt_of_inner (F := sqrtUpperOnly length N N_norm b_upper a_upper) hi0 hiN
    (fun j h0 _ => PolSpacingLemmas.sqrtUpperOnly_inner length N N_norm b_upper a_upper j h0)
    (PolSpacingLemmas.sU_hasDeriv (2 * a_upper) b_upper (N / N_norm) length (i / N_norm) hne)
  refine h.congr_deriv ?_
  rw [mul_div_mul_left _ _ (two_ne_zero : (2 : ℝ) ≠ 0), sub_div]
  ring

/-- `sqrtBothab`: for `0 < i < N`,
    `ds/di = [a_lower/√iN + a_upper/√(N/N_norm − iN) + d + 2 e iN + 3 f iN²]/N_norm`; the part regular at the lower end,
    `a_upper/√(N/N_norm − iN) + d + …`, equals `b_lower` at `iN = 0`, and the part regular at the upper end,
    `a_lower/√iN + d + 2 e iN + 3 f iN²`, equals `b_upper` at `iN = N/N_norm`.  `dB`, `eB`, `fB` are the code's
    `d`, `e`, `f` as functions of `a = 2 a_lower`, `b = 2 a_upper`, `b_lower`, `b_upper`, `X = N/N_norm`, `length`
    (Lemmas/PolSpacing.lean). -/
theorem sqrtBothab_gradient (length N N_norm b_lower a_lower b_upper a_upper i : ℝ) (hN : 0 < N) (hM : 0 < N_norm)
    (hi0 : 0 < i) (hiN : i < N) :
    HasDerivAt (sqrtBothab length N N_norm b_lower a_lower b_upper a_upper)
      (a_lower / √(i / N_norm) / N_norm + a_upper / √((N - i) / N_norm) / N_norm
        + (dB (2 * a_upper) b_lower (N / N_norm)
          + 2 * eB (2 * a_lower) (2 * a_upper) b_lower b_upper (N / N_norm) length * (i / N_norm)
          + 3 * fB (2 * a_lower) (2 * a_upper) b_lower b_upper (N / N_norm) length * (i / N_norm) ^ 2) / N_norm) i ∧
    a_upper / √(N / N_norm) + dB (2 * a_upper) b_lower (N / N_norm) = b_lower ∧
    a_lower / √(N / N_norm) + dB (2 * a_upper) b_lower (N / N_norm)
      + 2 * eB (2 * a_lower) (2 * a_upper) b_lower b_upper (N / N_norm) length * (N / N_norm)
      + 3 * fB (2 * a_lower) (2 * a_upper) b_lower b_upper (N / N_norm) length * (N / N_norm) ^ 2 = b_upper := by
  refine ⟨?_, ?_, ?_⟩
  · have hne : N / N_norm - i / N_norm ≠ 0 := by
      rw [← sub_div]; exact (div_pos (by linarith) hM).ne'
    have h := PolSpacingLemmas.hasDerivAt_of_inner
      (F := sqrtBothab length N N_norm b_lower a_lower b_upper a_upper) hi0 hiN
      (fun j _ _ => PolSpacingLemmas.sqrtBothab_inner length N N_norm b_lower a_lower b_upper a_upper j)
      (PolSpacingLemmas.sB_hasDeriv (2 * a_lower) (2 * a_upper) b_lower b_upper (N / N_norm) length (i / N_norm)
        (div_pos hi0 hM).ne' hne)
    refine h.congr_deriv ?_
    rw [mul_div_mul_left _ _ (two_ne_zero : (2 : ℝ) ≠ 0), mul_div_mul_left _ _ (two_ne_zero : (2 : ℝ) ≠ 0), sub_div]
    ring
  · have h := PolSpacingLemmas.dB_start (2 * a_upper) b_lower (N / N_norm)
    rwa [mul_div_mul_left _ _ (two_ne_zero : (2 : ℝ) ≠ 0)] at h
  · have h := PolSpacingLemmas.sB_grad_end (2 * a_lower) (2 * a_upper) b_lower b_upper (N / N_norm) length (div_pos hN hM)
    rwa [mul_div_mul_left _ _ (two_ne_zero : (2 : ℝ) ≠ 0)] at h

/-! ## 3. strict monotonicity on `[0, N]` -/

theorem linear_strictMono (length N : ℝ) (hN : 0 < N) (hL : 0 < length) :
    StrictMonoOn (linear length N) (Icc 0 N) := by
  intro i _ j _ hij
  unfold linear
  exact mul_lt_mul_of_pos_right (div_lt_div_of_pos_right hij hN) hL

theorem sqrtNone_strictMono (length N N_norm : ℝ) (hN : 0 < N) (hL : 0 < length) :
    StrictMonoOn (sqrtNone length N N_norm) (Icc 0 N) := by
  intro i _ j _ hij
  unfold sqrtNone
  exact div_lt_div_of_pos_right (mul_lt_mul_of_pos_right hij hL) hN

/-- convex branch: whenever the code takes it (`¬ length < ½(d_u+d_l)N/N_norm − 1e-8·length`, the tolerance band
    included) and the prescribed end gradients are positive, `s` is strictly increasing on `[0,N]`.
    In the band `sprime` dips below the straight line by at most `3e-8·(d_l(1-t)+d_u t)`, so it stays positive:
    nothing is left open. -/
theorem monoConvex_strictMono (length N N_norm d_lower d_upper : ℝ) (hN : 0 < N) (hM : 0 < N_norm) (hL : 0 < length)
    (hdl : 0 < d_lower) (hdu : 0 < d_upper) (hg : monoConvex_guard length N N_norm d_lower d_upper) :
    StrictMonoOn (monoConvex length N N_norm d_lower d_upper) (Icc 0 N) := by
  unfold monoConvex_guard at hg
  refine PolSpacingLemmas.strictMonoOn_of_inner hM
    (fun i hi => PolSpacingLemmas.monoConvex_inner length N N_norm d_lower d_upper i hi.1 hi.2)
    (PolSpacingLemmas.cvx_strictMonoOn d_lower d_upper (N / N_norm) length (1 / 100000000) (by norm_num)
      (div_pos hN hM) hdl hdu hL ?_)
  intro h
  exact hg (lt_of_lt_of_eq h (by ring))

/-- positivity of the gradient itself on the closed interval, same hypotheses -/
theorem monoConvex_sprime_pos (length N N_norm d_lower d_upper i : ℝ) (hN : 0 < N) (hM : 0 < N_norm) (hL : 0 < length)
    (hdl : 0 < d_lower) (hdu : 0 < d_upper) (hg : monoConvex_guard length N N_norm d_lower d_upper)
    (hi0 : 0 ≤ i) (hiN : i ≤ N) :
    0 < PolSpacingLemmas.cvx' d_lower d_upper (N / N_norm) length (i / N_norm) := by
  unfold monoConvex_guard at hg
  refine PolSpacingLemmas.cvx'_pos d_lower d_upper (N / N_norm) length (1 / 100000000) (i / N_norm) (by norm_num)
    (div_pos hN hM) hdl hdu hL ?_ (div_nonneg hi0 hM.le) (div_le_div_of_nonneg_right hiN hM.le)
  intro h
  exact hg (lt_of_lt_of_eq h (by ring))

/-- upper-end sqrt path: the three checks of the code (`gradient at start > 0`, `b ≥ 0`, `polynomial gradient at end ≥ 0`)
    are sufficient for strict monotonicity on `[0,N]` -/
theorem sqrtUpperOnly_strictMono (length N N_norm b_upper a_upper : ℝ) (hN : 0 < N) (hM : 0 < N_norm)
    (hg : sqrtUpperOnly_guard length N N_norm b_upper a_upper) :
    StrictMonoOn (sqrtUpperOnly length N N_norm b_upper a_upper) (Icc 0 N) := by
  unfold sqrtUpperOnly_guard at hg
  obtain ⟨h1, h2, h3⟩ := hg
  refine PolSpacingLemmas.strictMonoOn_of_inner hM
    (fun i hi => PolSpacingLemmas.sqrtUpperOnly_inner length N N_norm b_upper a_upper i hi.1)
    (PolSpacingLemmas.sU_strictMonoOn (2 * a_upper) b_upper (N / N_norm) length (div_pos hN hM) ?_ (not_lt.mp h2) ?_)
  · refine lt_of_lt_of_eq (not_le.mp h1) ?_
    unfold PolSpacingLemmas.dU PolSpacingLemmas.eU PolSpacingLemmas.cU
    ring
  · refine le_of_le_of_eq (not_lt.mp h3) ?_
    unfold PolSpacingLemmas.dU PolSpacingLemmas.eU PolSpacingLemmas.cU
    ring

/-- lower-end sqrt path: the three checks (`a ≥ 0`, `d ≥ 0`, `gradient at end > 0`) are sufficient -/
theorem sqrtLowerOnly_strictMono (length N N_norm b_lower a_lower : ℝ) (hN : 0 < N) (hM : 0 < N_norm)
    (hg : sqrtLowerOnly_guard length N N_norm b_lower a_lower) :
    StrictMonoOn (sqrtLowerOnly length N N_norm b_lower a_lower) (Icc 0 N) := by
  unfold sqrtLowerOnly_guard at hg
  obtain ⟨h1, h2, h3⟩ := hg
  refine PolSpacingLemmas.strictMonoOn_of_inner hM
    (fun i hi => PolSpacingLemmas.sqrtLowerOnly_inner length N N_norm b_lower a_lower i hi.2)
    (PolSpacingLemmas.sL_strictMonoOn (2 * a_lower) b_lower (N / N_norm) length (div_pos hN hM)
      (not_lt.mp h1) (not_lt.mp h2) ?_)
  refine lt_of_lt_of_eq (not_le.mp h3) ?_
  unfold PolSpacingLemmas.eL
  ring

/-- generic both-ends path: the code only checks the two end gradients ("should really add a check that gradient does
    not reverse in the middle somewhere").  These checks guarantee nothing in between: parameters that pass every check
    of `sqrtBothab_guard` (with `sfunc_checktol = 1e-13`), with `s(9) ≈ 15.3 > 1 = s(25) = length` -/
theorem sqrtBoth_no_guarantee :
    ∃ length N N_norm b_lower a_lower b_upper a_upper : ℝ, 0 < length ∧ 0 < N ∧ 0 < N_norm ∧
      sqrtBothab_guard length N N_norm b_lower a_lower b_upper a_upper (1 / 10000000000000) ∧
      ∃ i j : ℝ, 0 ≤ i ∧ i < j ∧ j ≤ N ∧
        sqrtBothab length N N_norm b_lower a_lower b_upper a_upper j
          < sqrtBothab length N N_norm b_lower a_lower b_upper a_upper i := by
  refine ⟨1, 25, 25, 100, 1, 1, 1, by norm_num, by norm_num, by norm_num, ?_, 9, 25,
    by norm_num, by norm_num, by norm_num, ?_⟩
  · unfold sqrtBothab_guard
    norm_num
  · rw [(sqrtBothab_endpoints 1 25 25 100 1 1 1 (by norm_num) (by norm_num)).2]
    unfold sqrtBothab
    norm_num [PolSpacingLemmas.sqrt_9, PolSpacingLemmas.sqrt_16, PolSpacingLemmas.sqrt_25,
      PolSpacingLemmas.sqrt_9_25, PolSpacingLemmas.sqrt_16_25]

/-- the same on the `a_upper = 0` path with parameters of the size met in practice (cf. the failure found numerically
    on the real code at N=34, N_norm=98): length = 0.0645, a_lower = 1.16e-3, b_lower = 4.48, b_upper = 0.267, here
    with N = 36, N_norm = 100 so that the square roots are rational: `s(9) ≈ 0.233 > 0.0645 = s(36)` -/
theorem sqrtBotha0_no_guarantee :
    ∃ length N N_norm b_lower a_lower b_upper a_upper : ℝ, 0 < length ∧ 0 < N ∧ 0 < N_norm ∧
      sqrtBotha0_guard length N N_norm b_lower a_lower b_upper a_upper (1 / 10000000000000) ∧
      ∃ i j : ℝ, 0 ≤ i ∧ i < j ∧ j ≤ N ∧
        sqrtBotha0 length N N_norm b_lower a_lower b_upper a_upper j
          < sqrtBotha0 length N N_norm b_lower a_lower b_upper a_upper i := by
  refine ⟨129 / 2000, 36, 100, 112 / 25, 29 / 25000, 267 / 1000, 0, by norm_num, by norm_num, by norm_num, ?_, 9, 36,
    by norm_num, by norm_num, by norm_num, ?_⟩
  · unfold sqrtBotha0_guard
    norm_num [PolSpacingLemmas.sqrt_9, PolSpacingLemmas.sqrt_25, PolSpacingLemmas.sqrt_36, PolSpacingLemmas.sqrt_100]
  · rw [(sqrtBotha0_endpoints (129 / 2000) 36 100 (112 / 25) (29 / 25000) (267 / 1000) 0 (by norm_num) (by norm_num)
      rfl).2]
    unfold sqrtBotha0
    norm_num [PolSpacingLemmas.sqrt_9, PolSpacingLemmas.sqrt_25, PolSpacingLemmas.sqrt_36, PolSpacingLemmas.sqrt_100,
      PolSpacingLemmas.sqrt_9_100]

/-! ## 4. resolution consistency: dependence on `(i, N, N_norm)` only through `i/N_norm`, `N/N_norm` -/

theorem linear_rescale (k length N i : ℝ) (hk : 0 < k) :
    linear length (k * N) (k * i) = linear length N i := by
  unfold linear; hom_tac hk

theorem sqrtNone_rescale (k length N N_norm i : ℝ) (hk : 0 < k) :
    sqrtNone length (k * N) (k * N_norm) (k * i) = sqrtNone length N N_norm i := by
  unfold sqrtNone; hom_tac hk

theorem monoConvex_rescale (k length N N_norm d_lower d_upper i : ℝ) (hk : 0 < k) :
    monoConvex length (k * N) (k * N_norm) d_lower d_upper (k * i) = monoConvex length N N_norm d_lower d_upper i := by
  unfold monoConvex; hom_tac hk

theorem monoConcave_rescale (k length N N_norm d_lower d_upper root i : ℝ) (hk : 0 < k) :
    monoConcave length (k * N) (k * N_norm) d_lower d_upper root (k * i)
      = monoConcave length N N_norm d_lower d_upper root i := by
  unfold monoConcave; hom_tac hk

/-- the brentq equation, hence its root `l1`, is the same at every resolution -/
theorem monoConcave_constraint_rescale (k length N N_norm d_lower d_upper l1 : ℝ) (hk : 0 < k) :
    monoConcave_constraint length (k * N) (k * N_norm) d_lower d_upper l1
      = monoConcave_constraint length N N_norm d_lower d_upper l1 := by
  unfold monoConcave_constraint; hom_tac hk

theorem sqrtUpperOnly_rescale (k length N N_norm b_upper a_upper i : ℝ) (hk : 0 < k) :
    sqrtUpperOnly length (k * N) (k * N_norm) b_upper a_upper (k * i)
      = sqrtUpperOnly length N N_norm b_upper a_upper i := by
  unfold sqrtUpperOnly; hom_tac hk

theorem sqrtLowerOnly_rescale (k length N N_norm b_lower a_lower i : ℝ) (hk : 0 < k) :
    sqrtLowerOnly length (k * N) (k * N_norm) b_lower a_lower (k * i)
      = sqrtLowerOnly length N N_norm b_lower a_lower i := by
  unfold sqrtLowerOnly; hom_tac hk

theorem sqrtBoth00_rescale (k length N N_norm b_lower a_lower b_upper a_upper i : ℝ) (hk : 0 < k) :
    sqrtBoth00 length (k * N) (k * N_norm) b_lower a_lower b_upper a_upper (k * i)
      = sqrtBoth00 length N N_norm b_lower a_lower b_upper a_upper i := by
  unfold sqrtBoth00; hom_tac hk

theorem sqrtBoth0b_rescale (k length N N_norm b_lower a_lower b_upper a_upper i : ℝ) (hk : 0 < k) :
    sqrtBoth0b length (k * N) (k * N_norm) b_lower a_lower b_upper a_upper (k * i)
      = sqrtBoth0b length N N_norm b_lower a_lower b_upper a_upper i := by
  unfold sqrtBoth0b; hom_tac hk

theorem sqrtBotha0_rescale (k length N N_norm b_lower a_lower b_upper a_upper i : ℝ) (hk : 0 < k) :
    sqrtBotha0 length (k * N) (k * N_norm) b_lower a_lower b_upper a_upper (k * i)
      = sqrtBotha0 length N N_norm b_lower a_lower b_upper a_upper i := by
  unfold sqrtBotha0; hom_tac hk

theorem sqrtBothab_rescale (k length N N_norm b_lower a_lower b_upper a_upper i : ℝ) (hk : 0 < k) :
    sqrtBothab length (k * N) (k * N_norm) b_lower a_lower b_upper a_upper (k * i)
      = sqrtBothab length N N_norm b_lower a_lower b_upper a_upper i := by
  unfold sqrtBothab; hom_tac hk

/-- the branch conditions and checks are themselves resolution independent, so the same path is taken (and the same
    checks pass or raise) at every resolution -/
theorem guards_rescale (k length N N_norm p q r t tol : ℝ) (hk : 0 < k) :
    (monoConvex_guard length (k * N) (k * N_norm) p q ↔ monoConvex_guard length N N_norm p q) ∧
    (monoConcave_guard length (k * N) (k * N_norm) p q r ↔ monoConcave_guard length N N_norm p q r) ∧
    (sqrtUpperOnly_guard length (k * N) (k * N_norm) p q ↔ sqrtUpperOnly_guard length N N_norm p q) ∧
    (sqrtLowerOnly_guard length (k * N) (k * N_norm) p q ↔ sqrtLowerOnly_guard length N N_norm p q) ∧
    (sqrtBoth00_guard length (k * N) (k * N_norm) p q r t ↔ sqrtBoth00_guard length N N_norm p q r t) ∧
    (sqrtBoth0b_guard length (k * N) (k * N_norm) p q r t tol ↔ sqrtBoth0b_guard length N N_norm p q r t tol) ∧
    (sqrtBotha0_guard length (k * N) (k * N_norm) p q r t tol ↔ sqrtBotha0_guard length N N_norm p q r t tol) ∧
    (sqrtBothab_guard length (k * N) (k * N_norm) p q r t tol ↔ sqrtBothab_guard length N N_norm p q r t tol) := by
  refine ⟨?_, ?_, ?_, ?_, ?_, ?_, ?_, ?_⟩
  · unfold monoConvex_guard; hom_tac hk
  · unfold monoConcave_guard; hom_tac hk
  · unfold sqrtUpperOnly_guard; hom_tac hk
  · unfold sqrtLowerOnly_guard; hom_tac hk
  · unfold sqrtBoth00_guard; hom_tac hk
  · unfold sqrtBoth0b_guard; hom_tac hk
  · unfold sqrtBotha0_guard; hom_tac hk
  · unfold sqrtBothab_guard; hom_tac hk

/-- "doubling all ny keeps every old face": the point with index `i` on the coarse grid is the point with index `2i` on
    the grid with `N`, `N_norm` doubled (shown for the general sqrt path; the same follows from every `_rescale`) -/
theorem sqrtBothab_doubling (length N N_norm b_lower a_lower b_upper a_upper i : ℝ) :
    sqrtBothab length (2 * N) (2 * N_norm) b_lower a_lower b_upper a_upper (2 * i)
      = sqrtBothab length N N_norm b_lower a_lower b_upper a_upper i :=
  sqrtBothab_rescale 2 _ _ _ _ _ _ _ _ (by norm_num)

/-! ## 5. order along the surface -/

/-- a strictly increasing list of distances orders its indices strictly -/
theorem order_along_surface (ds : List ℝ) (h : ds.Pairwise (· < ·)) (i j : ℕ) (hij : i < j) (hj : j < ds.length) :
    ds[i]'(lt_trans hij hj) < ds[j] :=
  List.pairwise_iff_getElem.mp h i j (lt_trans hij hj) hj hij

/-! ## 6. the hypotheses are satisfiable: concrete instances -/

/-- convex branch, well inside: length = 1, N = N_norm = 10, d_lower = d_upper = 1/2 -/
example : StrictMonoOn (monoConvex 1 10 10 (1 / 2) (1 / 2)) (Icc 0 10) :=
  monoConvex_strictMono 1 10 10 (1 / 2) (1 / 2) (by norm_num) (by norm_num) (by norm_num) (by norm_num) (by norm_num)
    (by unfold monoConvex_guard; norm_num)

/-- convex branch, inside the 1e-8 tolerance band (length = 1 < ½(d_u+d_l)N/N_norm = 1 + 5e-9) -/
example : StrictMonoOn (monoConvex 1 10 10 (1 + 5 / 1000000000) (1 + 5 / 1000000000)) (Icc 0 10) :=
  monoConvex_strictMono 1 10 10 _ _ (by norm_num) (by norm_num) (by norm_num) (by norm_num) (by norm_num)
    (by unfold monoConvex_guard; norm_num)

/-- concave branch guard: d_lower = d_upper = 1, N = N_norm = 1, length = 1/2, l1 = 2 gives l2 = r2 = 1, l3 = r3 = 1 -/
example : monoConcave_guard (1 / 2) 1 1 1 1 2 := by
  unfold monoConcave_guard
  norm_num [PolSpacingLemmas.sqrt_9]

example : monoConcave (1 / 2) 1 1 1 1 2 1 - 1 / 2 = monoConcave_constraint (1 / 2) 1 1 1 1 2 :=
  (monoConcave_endpoints (1 / 2) 1 1 1 1 2 (by norm_num) (by norm_num)
    (by unfold monoConcave_guard; norm_num [PolSpacingLemmas.sqrt_9])).2

/-- upper sqrt path: length = 1, N = N_norm = 4, b_upper = 1, a_upper = 1/4 passes the three checks -/
example : StrictMonoOn (sqrtUpperOnly 1 4 4 1 (1 / 4)) (Icc 0 4) :=
  sqrtUpperOnly_strictMono 1 4 4 1 (1 / 4) (by norm_num) (by norm_num)
    (by unfold sqrtUpperOnly_guard; norm_num)

/-- lower sqrt path: length = 1, N = N_norm = 4, b_lower = 1/2, a_lower = 1/4 passes the three checks -/
example : StrictMonoOn (sqrtLowerOnly 1 4 4 (1 / 2) (1 / 4)) (Icc 0 4) :=
  sqrtLowerOnly_strictMono 1 4 4 (1 / 2) (1 / 4) (by norm_num) (by norm_num)
    (by unfold sqrtLowerOnly_guard; norm_num)

/-- both-ends path without sqrt terms: length = 1, N = N_norm = 4, b_lower = b_upper = 1 -/
example : sqrtBoth00 1 4 4 1 0 1 0 0 = 0 ∧ sqrtBoth00 1 4 4 1 0 1 0 4 = 1 :=
  (sqrtBoth_special_endpoints_of_guard 1 4 4 1 0 1 0 0 (by norm_num) (by norm_num)).1
    (by unfold sqrtBoth00_guard; norm_num)

example : sqrtBoth0b_guard 1 4 4 1 0 1 (1 / 4) (1 / 10000000000000) := by
  unfold sqrtBoth0b_guard; norm_num

example : sqrtBotha0_guard 1 4 4 1 (1 / 4) 1 0 (1 / 10000000000000) := by
  unfold sqrtBotha0_guard; norm_num

example : HasDerivAt (sqrtLowerOnly 1 4 4 (1 / 2) (1 / 4))
    ((1 / 4) / √(1 / 4) / 4 + (1 / 2 / 4 + 2 * ((1 - 2 * (1 / 4) * √(4 / 4) - 1 / 2 * (4 / 4)) / (4 / 4) ^ 2) * 1 / 4 ^ 2)) 1 :=
  sqrtLowerOnly_gradient 1 4 4 (1 / 2) (1 / 4) 1 (by norm_num) (by norm_num) (by norm_num)

example : sqrtBothab 1 8 8 1 1 1 1 6 = sqrtBothab 1 4 4 1 1 1 1 3 := by
  have h := sqrtBothab_rescale 2 1 4 4 1 1 1 1 3 (by norm_num)
  norm_num at h ⊢
  exact h

example : ([0, 1 / 2, 6 / 5] : List ℝ)[0] < ([0, 1 / 2, 6 / 5] : List ℝ)[2] :=
  order_along_surface [0, 1 / 2, 6 / 5] (by simp; norm_num) 0 2 (by norm_num) (by simp)

/-! ## Which option feeds which end (`EquilibriumRegion.getSpacings`, GENERATED tables `Gen.Spacings`)

The requested end gradients of the spacing functions are the values `getSpacings` returns.  The tables are regenerated from the source
on every run; locals are written with `@` for the end they belong to.  An end's parameters depend only on the *kind of that end*:
the table used for the upper end is the table used for the lower end, and every returned key carries the local of its own name and
its own end — so a region `wall.X` gets the target length at its lower and the X-point length at its upper end (the regression
"`monotonic_d_upper` taken from the lower end's parameters" makes `spacings_returned_own_end` false). -/
section Spacings
open Gen.Spacings

/-- the upper end reads the same options as the lower end does for the same kind of end -/
theorem spacings_upper_is_lower : upperWall = lowerWall ∧ upperX = lowerX := by decide

/-- every key of the returned dict carries the local with its own name and its own end -/
theorem spacings_returned_own_end : ∀ p ∈ returned, p.1 = p.2.2.1 ∧ p.2.1 = p.2.2.2 := by decide

/-- both kinds of end define the same parameters, in the same order -/
theorem spacings_same_parameters : lowerWall.map Prod.fst = lowerX.map Prod.fst := by decide

/-- every parameter is returned for both ends -/
theorem spacings_returned_complete :
    ∀ s ∈ lowerWall.map Prod.fst,
      "lower" ∈ (returned.filter (fun p => p.1 == s)).map (fun p => p.2.1) ∧
      "upper" ∈ (returned.filter (fun p => p.1 == s)).map (fun p => p.2.1) := by decide

/-- the gradient of the `monotonic` family and the coefficients of the `sqrt` family come from the target options at a wall end and from
the X-point options at an X-point end -/
theorem spacings_sources :
    lowerWall.lookup "monotonic_d_@" = some "self.getTargetParameter('nonorthogonal_target_poloidal_spacing_length')" ∧
    lowerX.lookup "monotonic_d_@" = some "self.nonorthogonal_options.nonorthogonal_xpoint_poloidal_spacing_length" ∧
    lowerWall.lookup "sqrt_b_@" = some "self.getTargetParameter('target_poloidal_spacing_length')" ∧
    lowerWall.lookup "sqrt_a_@" = some "None" ∧
    lowerX.lookup "sqrt_a_@" = some "self.user_options.xpoint_poloidal_spacing_length" ∧
    lowerX.lookup "sqrt_b_@" = some "0.0" := by decide

end Spacings

end HypnoModel.Props.C10
