/-
C13 — parallel execution is observationally equivalent to serial execution.
Model: HypnoModel/Model/ParMap.lean (tied to hypnotoad/utils/parallel_map.py by py/props/c13.py:
forced completion orders, failing tasks at every position, watchdog for hangs).
-/
import HypnoModel.Props.C13Pipe
import HypnoModel.Model.ParMap

namespace HypnoModel.Props.C13
open ParMap

variable {β ε : Type}

/-- invariant of every reachable state, any number of workers, any schedule: each task index is in exactly
    one of queue / in flight / results / lost, and every result is tagged with the index it belongs to -/
theorem inv_multiset {f : Nat → Except ε β} {fixed n w} {s : St β ε} (h : Reach f fixed n w s) :
    AllOnce n s ∧ Tagged f s := reach_inv h

/-- results can never land in wrong positions: for every arrival order, once n results are in, slot i
    holds the outcome of task i -/
theorem positions_any_order {f : Nat → Except ε β} {fixed n w} {s : St β ε}
    (h : Reach f fixed n w s) (hall : s.results.length = n) (i : Nat) (hi : i < n) :
    (assemble n s.results)[i]? = some (some (f i)) := by
  obtain ⟨hinv, _⟩ := reach_inv h
  have hlen := hinv.length_eq
  simp only [List.length_append, List.length_map, List.length_range] at hlen
  have hq : s.queue = [] := List.eq_nil_of_length_eq_zero (by omega)
  have hfl : s.inflight = [] := List.eq_nil_of_length_eq_zero (by omega)
  have hlo : s.lost = [] := List.eq_nil_of_length_eq_zero (by omega)
  exact assemble_any_order h hall hq hfl hlo i hi

/-- when the n-th result has arrived both queues hold nothing further (the two `empty()` checks pass) and no
    worker has been lost -/
theorem queues_empty_after {f : Nat → Except ε β} {fixed n w} {s : St β ε}
    (h : Reach f fixed n w s) (hall : s.results.length = n) :
    s.queue = [] ∧ s.inflight = [] ∧ s.lost = [] ∧ s.idle = w := by
  obtain ⟨hinv, _⟩ := reach_inv h
  have hw := reach_workers h
  have hlen := hinv.length_eq
  simp only [List.length_append, List.length_map, List.length_range] at hlen
  have hq : s.queue = [] := List.eq_nil_of_length_eq_zero (by omega)
  have hfl : s.inflight = [] := List.eq_nil_of_length_eq_zero (by omega)
  have hlo : s.lost = [] := List.eq_nil_of_length_eq_zero (by omega)
  refine ⟨hq, hfl, hlo, ?_⟩
  simp [Workers, hfl, hlo] at hw
  exact hw

/-- every step strictly decreases `2|queue| + |in flight|`: every run from the initial state has at most 2n steps -/
theorem runs_finite {f : Nat → Except ε β} {fixed} {s t : St β ε} (h : Step f fixed s t) : mu t + 1 = mu s :=
  step_mu h

/-- never blocks forever: while fewer than n results have arrived some step is enabled — for every worker
    count ≥ 1, every task count, every schedule, every set of failing tasks (with `runs_finite`: every
    maximal run delivers exactly n results) -/
theorem progress {f : Nat → Except ε β} {n w} {s : St β ε} (hw : 0 < w)
    (h : Reach f true n w s) (hlt : s.results.length < n) : ∃ t, Step f true s t :=
  progress_fixed hw h hlt

theorem assemble_length (n : Nat) (rs : List (Nat × Except ε β)) : (assemble n rs).length = n := by
  unfold assemble
  have : ∀ (rs : List (Nat × Except ε β)) (acc : List (Option (Except ε β))), acc.length = n →
      (rs.foldl (fun acc p => acc.set p.1 (some p.2)) acc).length = n := by
    intro rs
    induction rs with
    | nil => intro acc h; simpa using h
    | cons p ps ih => intro acc h; exact ih _ (by simpa using h)
  exact this rs _ (by simp)

theorem collect_map (g : Nat → Except ε β) (l : List Nat) :
    collect (l.map (fun i => some (g i))) = some (serial g l) := by
  induction l with
  | nil => rfl
  | cons i is ih =>
    simp only [List.map_cons, serial]
    cases hg : g i with
    | error e => simp [collect]
    | ok r =>
      simp only [collect, ih]
      cases serial g is <;> rfl

/-- **parallel ≡ serial, failures included**: in every reachable state with all n results in — whatever the
    number of workers, the completion order and the positions of failing tasks — the caller's outcome
    (the list, or the exception it raises) is exactly that of the serial list comprehension -/
theorem outcome_equals_serial {f : Nat → Except ε β} {fixed n w} {s : St β ε}
    (h : Reach f fixed n w s) (hall : s.results.length = n) :
    callerOutcome n s.results = some (serial f (List.range n)) := by
  unfold callerOutcome
  rw [if_pos hall]
  have hl : (assemble n s.results).length = n := assemble_length n s.results
  have he : assemble n s.results = (List.range n).map (fun i => some (f i)) := by
    apply List.ext_getElem?
    intro i
    by_cases hi : i < n
    · rw [positions_any_order h hall i hi]
      simp [hi]
    · rw [List.getElem?_eq_none (by omega), List.getElem?_eq_none (by simp; omega)]
  rw [he, collect_map]

/-- a worker loop without a failure path (the code before the fix): if any task raises, then in *every* reachable
    state fewer than n results have arrived, so the n-th `result_queue.get()` never returns -/
theorem blocks_forever_without_failure_path {f : Nat → Except ε β} {n w} {s : St β ε}
    (h : Reach f false n w s) (j : Nat) (hj : j < n) (e : ε) (hfail : f j = .error e) :
    s.results.length < n := blocks_forever_on_failure h j hj e hfail

/-! ### non-vacuity: 3 tasks, task 1 fails, 2 workers; a concrete schedule reaches a state with all results in -/

def exF : Nat → Except String Nat := fun i => if i = 1 then .error "boom" else .ok (10 * i)

example : ∃ s : St Nat String, Reach exF true 3 2 s ∧ s.results.length = 3 ∧
    callerOutcome 3 s.results = some (.error "boom") := by
  refine ⟨⟨[], [], [(1, .error "boom"), (0, .ok 0), (2, .ok 20)], [], 2⟩, ?_, rfl, by simp [callerOutcome, assemble, collect]⟩
  have s0 : Reach exF true 3 2 ⟨[0, 1, 2], [], [], [], 2⟩ := Reach.init
  have s1 := Reach.step s0 (Step.take 0 [1, 2] [] [] [] 1)
  have s2 := Reach.step s1 (Step.take 1 [2] [0] [] [] 0)
  have s3 := Reach.step s2 (Step.finishErrFixed 1 [2] [] [0] [] [] 0 "boom" rfl rfl)
  have s4 := Reach.step s3 (Step.take 2 [] [0] [(1, .error "boom")] [] 0)
  have s5 := Reach.step s4 (Step.finishOk 0 [] [2] [] [(1, .error "boom")] [] 0 0 rfl)
  have s6 := Reach.step s5 (Step.finishOk 2 [] [] [] [(1, .error "boom"), (0, .ok 0)] [] 1 20 rfl)
  exact s6

end HypnoModel.Props.C13
