/-
C17 — g-eqdsk write/read round-trips and parses the fixed-width format.
Property theorems only; helper lemmas are in HypnoModel/Lemmas/Geqdsk.lean, the model in
HypnoModel/Model/{Scan,Geqdsk}.lean (tied to hypnotoad/geqdsk/_geqdsk.py and _fileutils.py by the
correspondence check py/props/c17.py on every run).
-/
import HypnoModel.Lemmas.Geqdsk

namespace HypnoModel.Props.C17
open Geqdsk

/-- what the writer requires of a data set: array lengths as declared, values finite (ten digits and a
    two-digit exponent) -/
structure WF (d : Data D10) : Prop where
  fpol : d.fpol.length = d.nx
  pres : d.pres.length = d.nx
  qpsi : d.qpsi.length = d.nx
  ffprime : ∀ l, d.ffprime = some l → l.length = d.nx
  pprime : ∀ l, d.pprime = some l → l.length = d.nx
  zbdry : d.zbdry.length = (d.rbdry.getD []).length
  zlim : d.zlim.length = (d.rlim.getD []).length
  vals : ∀ v ∈ (bodyVals d).1 ++ (bodyVals d).2.2.2, v.WF

def cv (v : D10) : Val := .flt v.canon

/-- the data set `read` must return for a file written from `d`: every value as its ten-digit text,
    `ffprime`/`pprime` zero-filled when absent, boundary and limiter as written -/
def expected (d : Data D10) : ReadData :=
  { nx := d.nx, ny := d.ny,
    sc := ⟨cv d.sc.rdim, cv d.sc.zdim, cv d.sc.rcentr, cv d.sc.rleft, cv d.sc.zmid, cv d.sc.rmagx,
           cv d.sc.zmagx, cv d.sc.simagx, cv d.sc.sibdry, cv d.sc.bcentr, cv d.sc.cpasma⟩,
    fpol := d.fpol.map cv, pres := d.pres.map cv,
    ffprime := (d.ffprime.getD (List.replicate d.nx D10.zero)).map cv,
    pprime := (d.pprime.getD (List.replicate d.nx D10.zero)).map cv,
    psiFlat := (flat2d d.nx d.ny d.psi).map cv, qpsi := d.qpsi.map cv,
    rbdry := (d.rbdry.getD []).map cv, zbdry := d.zbdry.map cv,
    rlim := (d.rlim.getD []).map cv, zlim := d.zlim.map cv }

theorem splitLine_app_nl (a b : List Char) (h : '\n' ∉ a) : splitLine (a ++ '\n' :: b) = (a, b) := by
  induction a with
  | nil => simp [splitLine]
  | cons c cs ih =>
    simp only [List.mem_cons, not_or] at h
    have hc : c ≠ '\n' := fun e => h.1 e.symm
    simp [splitLine, hc, ih h.2]

theorem nl_notin_header (pre : List Char) (nx ny : Nat) (h : '\n' ∉ pre) : '\n' ∉ headerLine pre nx ny := by
  have hd : ∀ n, '\n' ∉ natDigits n := fun n hm => by
    have := natDigits_isD n _ hm; exact absurd this (by decide)
  have hr : ∀ k, '\n' ∉ List.replicate k ' ' := fun k hm => by
    have := List.eq_of_mem_replicate hm; exact absurd this (by decide)
  have h3 : '\n' ∉ (Tok.int (padInt 4 3).1 (padInt 4 3).2).str := by
    simp only [Tok.str, List.mem_append, not_or]; exact ⟨hr _, hd 3⟩
  unfold headerLine
  rw [sepTok_str, sepTok_str]
  simp only [List.mem_append, List.mem_cons, not_or]
  exact ⟨⟨⟨h, h3⟩, by decide, hr _, hd nx⟩, by decide, hr _, hd ny⟩

/-- **round trip**: for every data set of any size (nx, ny need not be multiples of the five-per-line
    chunking, optional entries present or not, any numbers of boundary and limiter points, any signs
    and magnitudes including ±0) and any header text, reading the written file returns the data set. -/
theorem read_write (pre : List Char) (d : Data D10) (hpre : '\n' ∉ pre) (hwf : WF d) :
    Geqdsk.read (write pre d) = .ok (expected d) := by
  unfold Geqdsk.read write
  rw [splitLine_app_nl _ _ (nl_notin_header pre d.nx d.ny hpre)]
  simp only [readHeader_headerLine]
  rw [scanLines_eq_findall]
  unfold writeBody
  have hv := hwf.vals
  have hwfT : ∀ t ∈ opToks (bodyOps d), t.WF := by
    rw [opToks_bodyOps]
    intro t ht
    simp only [List.mem_append, List.mem_cons, List.mem_map] at ht
    rcases ht with ⟨v, hv1, rfl⟩ | rfl | rfl | ⟨v, hv1, rfl⟩
    · exact f2s_WF (hv v (by simp [hv1]))
    · exact countTok_WF _
    · exact sepTok_WF _ _
    · exact f2s_WF (hv v (by simp [hv1]))
  have hfo : FollowOK (opToks (bodyOps d)) := by
    rw [opToks_bodyOps]
    apply followOK_mid
    · intro t ht; simp only [List.mem_map] at ht; obtain ⟨v, _, rfl⟩ := ht; rfl
    · intro t ht
      simp only [List.mem_cons, List.mem_map] at ht
      rcases ht with rfl | ⟨v, _, rfl⟩
      · exact sepTok_startOK _ _
      · exact f2s_startOK v
  rw [findall_emit' 0 _ hwfT hfo, opToks_bodyOps]
  simp only [List.map_append, List.map_cons, List.map_map]
  have e1 : ∀ l : List D10, l.map (classify ∘ Tok.matched ∘ f2s) = l.map cv := by
    intro l; apply List.map_congr_left; intro v _; simp [Function.comp, classify_f2s, cv]
  have e2 : ∀ n, classify (countTok n).matched = .int false n := fun n => classify_int _ n
  have e3 : ∀ w n, classify (sepTok w n).matched = .int false n := fun w n => classify_int _ n
  rw [e1, e1, e2, e3]
  -- the value sequence, block by block
  have hff : (d.ffprime.getD (List.replicate d.nx D10.zero)).length = d.nx := by
    cases h : d.ffprime with
    | none => simp
    | some l => simpa using hwf.ffprime l h
  have hpp : (d.pprime.getD (List.replicate d.nx D10.zero)).length = d.nx := by
    cases h : d.pprime with
    | none => simp
    | some l => simpa using hwf.pprime l h
  simp only [bodyVals, List.map_append, List.map_cons, List.map_nil, List.append_assoc, interleave_map]
  unfold readVals
  simp only [bind, Except.bind]
  rw [show ∀ (a b c d' e f g h i j k l m n o p q r s t : Val) (rest : List Val),
      a :: b :: c :: d' :: e :: f :: g :: h :: i :: j :: k :: l :: m :: n :: o :: p :: q :: r :: s :: t :: rest
      = [a, b, c, d', e, f, g, h, i, j, k, l, m, n, o, p, q, r, s, t] ++ rest from fun _ _ _ _ _ _ _ _ _ _ _ _ _ _ _ _ _ _ _ _ _ => rfl]
  rw [takeN_app _ _ 20 rfl]
  simp only
  rw [takeN_app _ _ d.nx (by simp [hwf.fpol])]; simp only
  rw [takeN_app _ _ d.nx (by simp [hwf.pres])]; simp only
  rw [takeN_app _ _ d.nx (by simp [hff])]; simp only
  rw [takeN_app _ _ d.nx (by simp [hpp])]; simp only
  rw [takeN_app _ _ (d.nx * d.ny) (by simp [flat2d_length])]; simp only
  rw [takeN_app _ _ d.nx (by simp [hwf.qpsi])]; simp only [readCount]
  rw [takeN_app _ _ _ (by rw [interleave_length _ _ (by simp [hwf.zbdry])]; simp)]; simp only
  have := takeN_app (interleave ((d.rlim.getD []).map cv) (d.zlim.map cv)) [] (2 * (d.rlim.getD []).length)
    (by rw [interleave_length _ _ (by simp [hwf.zlim])]; simp)
  rw [List.append_nil] at this
  rw [this]
  simp only [unInterleave_interleave _ _ (show (d.zbdry.map cv).length = ((d.rbdry.getD []).map cv).length by simp [hwf.zbdry]),
    unInterleave_interleave _ _ (show (d.zlim.map cv).length = ((d.rlim.getD []).map cv).length by simp [hwf.zlim])]
  rfl

/-- **index order of the 2-D array**: after the round trip `psi[x, y]` is the written `psi[x, y]` -/
theorem psi_index_order (d : Data D10) (x y : Nat) (hx : x < d.nx) (hy : y < d.ny) :
    (expected d).psi x y = some (cv (d.psi x y)) := by
  simp [ReadData.psi, expected, flat2d_get d.nx d.ny d.psi x y hx hy]

/-- **numbers may abut / any line layout**: for every sequence of well-formed tokens (floats with either
    sign, negative zero, padded or unpadded counts) separated by any number of line breaks — none included —
    the scanner returns exactly those tokens, provided only that a count is followed by a blank, a minus
    sign or a line break -/
theorem reader_accepts_any_layout (l : List (Tok × Nat)) (hwf : ∀ p ∈ l, p.1.WF) (hs : IntsSafe l) :
    findall (layoutStr l) = l.map (·.1.matched) := findall_layout l hwf hs

/-- the reader's per-line scanning is scanning of the whole text -/
theorem per_line_scanning (s : List Char) : scanLines s = findall s := scanLines_eq_findall s

/-- **first line**: `nx`, `ny` are recovered for every size and every header text -/
theorem header_any_size (pre : List Char) (nx ny : Nat) : readHeader (headerLine pre nx ny) = .ok (nx, ny) :=
  readHeader_headerLine pre nx ny

/-- `int(str(n)) = n` for the counts -/
theorem count_roundtrip (pad n : Nat) : classify (Tok.int pad (natDigits n)).matched = .int false n :=
  classify_int pad n

/-- a written value is read back with the same sign, ten digits and exponent (negative zero included) -/
theorem value_roundtrip (v : D10) : classify (f2s v).matched = .flt v.canon := classify_f2s v

/-! ### non-vacuity: a concrete 2×3 data set with a boundary and no limiter satisfies `WF` -/

def exV (neg : Bool) (d0 : Char) : D10 := ⟨if neg then .neg else .pos, d0, "250000000".toList, '-', '0', '3'⟩

def exData : Data D10 :=
  { nx := 2, ny := 3,
    sc := ⟨exV false '1', exV true '2', exV false '3', exV false '4', D10.zero, exV false '6', exV true '7',
           exV false '8', exV false '9', exV true '1', exV false '2'⟩,
    fpol := [exV false '1', exV true '2'], pres := [exV false '3', exV false '4'],
    ffprime := none, pprime := some [exV true '5', exV false '6'],
    psi := fun x y => exV (x = 1) (Char.ofNat (49 + y)), qpsi := [exV false '7', exV false '8'],
    rbdry := some [exV false '1'], zbdry := [exV true '1'], rlim := none, zlim := [] }

example : WF exData := by
  refine ⟨rfl, rfl, rfl, ?_, ?_, rfl, rfl, ?_⟩
  · intro l h; cases h
  · intro l h; cases h; rfl
  · decide

end HypnoModel.Props.C17
