/-
C20 — segment/polygon predicates agree with exact arithmetic.
Model: HypnoModel/Model/Intersect.lean (exact rationals; tied to hypnotoad/core/equilibrium.py and
hypnotoad/utils/polygons.py by py/props/c20.py). Generic ordered-field lemmas: HypnoModel/Lemmas/Intersect.lean.
-/
import HypnoModel.Model.Intersect
import HypnoModel.Lemmas.Intersect
import Mathlib.Algebra.Order.Field.Rat
import Mathlib.Tactic.NormNum

namespace HypnoModel.Props.C20
open Intersect IntersectLemmas

/-- the two segments P→Q and A→B have a common point -/
def Meets (p q a b : Pt) : Prop :=
  ∃ t u : ℚ, 0 ≤ t ∧ t ≤ 1 ∧ 0 ≤ u ∧ u ≤ 1 ∧
    p.R + t * (q.R - p.R) = a.R + u * (b.R - a.R) ∧ p.Z + t * (q.Z - p.Z) = a.Z + u * (b.Z - a.Z)

theorem absq_nonneg (x : ℚ) : 0 ≤ absq x := by
  unfold absq; split <;> linarith

theorem absq_eq_abs (x : ℚ) : absq x = |x| := by
  unfold absq; split
  · rw [abs_of_neg (by assumption)]
  · rw [abs_of_nonneg (by linarith)]

/-- **both R-like** (wall edge class a, segment with |dR| > |dZ|; both sorted in R): at zero tolerance a point is
    reported exactly when the segments meet, provided they are not ε-parallel -/
theorem crossRA_hit_iff_meets (eps : ℚ) (e1 e2 s1 s2 : Pt) (he : e1.R < e2.R) (hs : s1.R < s2.R)
    (hnp : (e2.Z - e1.Z) / (e2.R - e1.R) ≠ (s2.Z - s1.Z) / (s2.R - s1.R))
    (heps : ¬ absq ((e2.Z - e1.Z) / (e2.R - e1.R) - (s2.Z - s1.Z) / (s2.R - s1.R)) < eps) :
    (crossRA eps 0 e1 e2 s1 s2).isSome ↔ Meets e1 e2 s1 s2 := by
  have h := hit_iff_meets e1.R e1.Z e2.R e2.Z s1.R s1.Z s2.R s2.Z he hs hnp
  unfold Meets
  rw [← h]
  simp only [crossRA, heps, if_false, sub_zero, add_zero, Rcross]
  split <;> simp_all

/-- the point reported in that branch lies on both lines -/
theorem crossRA_on_both_lines (eps tol : ℚ) (e1 e2 s1 s2 P : Pt)
    (hnp : (e2.Z - e1.Z) / (e2.R - e1.R) ≠ (s2.Z - s1.Z) / (s2.R - s1.R))
    (h : crossRA eps tol e1 e2 s1 s2 = some P) :
    P.Z = e1.Z + (e2.Z - e1.Z) / (e2.R - e1.R) * (P.R - e1.R) ∧
    P.Z = s1.Z + (s2.Z - s1.Z) / (s2.R - s1.R) * (P.R - s1.R) := by
  have hl := cross_on_both_lines e1.R e1.Z e2.R e2.Z s1.R s1.Z s2.R s2.Z hnp
  simp only [crossRA] at h
  split at h
  · cases h
  · split at h
    · cases h
      exact ⟨rfl, hl⟩
    · cases h

theorem Meets.symm_swap {e1 e2 s1 s2 : Pt}
    (h : ∃ t u : ℚ, 0 ≤ t ∧ t ≤ 1 ∧ 0 ≤ u ∧ u ≤ 1 ∧
      s1.Z + t * (s2.Z - s1.Z) = e1.Z + u * (e2.Z - e1.Z) ∧ s1.R + t * (s2.R - s1.R) = e1.R + u * (e2.R - e1.R)) :
    Meets e1 e2 s1 s2 := by
  obtain ⟨t, u, h1, h2, h3, h4, h5, h6⟩ := h
  exact ⟨u, t, h3, h4, h1, h2, h6.symm, h5.symm⟩

theorem Meets.to_swap {e1 e2 s1 s2 : Pt} (h : Meets e1 e2 s1 s2) :
    ∃ t u : ℚ, 0 ≤ t ∧ t ≤ 1 ∧ 0 ≤ u ∧ u ≤ 1 ∧
      s1.Z + t * (s2.Z - s1.Z) = e1.Z + u * (e2.Z - e1.Z) ∧ s1.R + t * (s2.R - s1.R) = e1.R + u * (e2.R - e1.R) := by
  obtain ⟨t, u, h1, h2, h3, h4, h5, h6⟩ := h
  exact ⟨u, t, h3, h4, h1, h2, h6.symm, h5.symm⟩

/-- **both Z-like** (edge class b sorted in Z, segment sorted in Z): the same statement with R and Z exchanged -/
theorem crossZB_hit_iff_meets (eps : ℚ) (e1 e2 s1 s2 : Pt) (he : e1.Z < e2.Z) (hs : s1.Z < s2.Z)
    (hnp : (s2.R - s1.R) / (s2.Z - s1.Z) ≠ (e2.R - e1.R) / (e2.Z - e1.Z))
    (heps : ¬ absq ((s2.R - s1.R) / (s2.Z - s1.Z) - (e2.R - e1.R) / (e2.Z - e1.Z)) < eps) :
    (crossZB eps 0 e1 e2 s1 s2).isSome ↔ Meets e1 e2 s1 s2 := by
  have h := hit_iff_meets s1.Z s1.R s2.Z s2.R e1.Z e1.R e2.Z e2.R hs he hnp
  constructor
  · intro hh
    apply Meets.symm_swap
    rw [← h]
    simp only [crossZB, heps, if_false, sub_zero, add_zero] at hh
    split at hh
    · rename_i hc; simp only [Rcross]; tauto
    · simp at hh
  · intro hm
    have := h.mpr (Meets.to_swap hm)
    simp only [Rcross] at this
    simp only [crossZB, heps, if_false, sub_zero, add_zero]
    rw [if_pos (by tauto)]
    rfl

/-- **mixed**: edge Z-like (class b, sorted in Z), segment R-like (sorted in R). No parallel test is needed:
    |dR1/dZ1| ≤ 1 and |dZ2/dR2| < 1 make the denominator positive. -/
theorem crossRB_hit_iff_meets (e1 e2 s1 s2 : Pt) (he : e1.Z < e2.Z) (hs : s1.R < s2.R)
    (hnp : 1 - (e2.R - e1.R) / (e2.Z - e1.Z) * ((s2.Z - s1.Z) / (s2.R - s1.R)) ≠ 0) :
    (crossRB 0 e1 e2 s1 s2).isSome ↔ Meets e1 e2 s1 s2 := by
  have h := hit_iff_meets_mixed e1.R e1.Z e2.R e2.Z s1.R s1.Z s2.R s2.Z he hs hnp
  unfold Meets
  rw [← h]
  simp only [crossRB, sub_zero, add_zero, RcrossM, ZcrossM]
  split <;> simp_all

/-- the mixed denominator cannot vanish for a class-b edge and an R-like segment -/
theorem mixed_denominator_pos (k m : ℚ) (hk : |k| ≤ 1) (hm : |m| < 1) : 0 < 1 - k * m := by
  have : |k * m| < 1 := by
    rw [abs_mul]
    calc |k| * |m| ≤ 1 * |m| := by gcongr
      _ = |m| := one_mul _
      _ < 1 := hm
  have := (abs_lt.mp this).2
  linarith

/-- **mixed**, the other way round: edge R-like (class a, sorted in R), segment Z-like (sorted in Z) -/
theorem crossZA_hit_iff_meets (e1 e2 s1 s2 : Pt) (he : e1.R < e2.R) (hs : s1.Z < s2.Z)
    (hnp : 1 - (e2.Z - e1.Z) / (e2.R - e1.R) * ((s2.R - s1.R) / (s2.Z - s1.Z)) ≠ 0) :
    (crossZA 0 e1 e2 s1 s2).isSome ↔ Meets e1 e2 s1 s2 := by
  have h := hit_iff_meets_mixed e1.Z e1.R e2.Z e2.R s1.Z s1.R s2.Z s2.R he hs hnp
  have hden : (e2.Z - e1.Z) * (s2.R - s1.R) / ((e2.R - e1.R) * (s2.Z - s1.Z))
      = (e2.Z - e1.Z) / (e2.R - e1.R) * ((s2.R - s1.R) / (s2.Z - s1.Z)) := by
    rw [div_mul_div_comm]
  have hm : Meets e1 e2 s1 s2 ↔ ∃ t u : ℚ, 0 ≤ t ∧ t ≤ 1 ∧ 0 ≤ u ∧ u ≤ 1 ∧
      e1.Z + t * (e2.Z - e1.Z) = s1.Z + u * (s2.Z - s1.Z) ∧ e1.R + t * (e2.R - e1.R) = s1.R + u * (s2.R - s1.R) := by
    constructor
    · rintro ⟨t, u, h1, h2, h3, h4, h5, h6⟩; exact ⟨t, u, h1, h2, h3, h4, h6, h5⟩
    · rintro ⟨t, u, h1, h2, h3, h4, h5, h6⟩; exact ⟨t, u, h1, h2, h3, h4, h6, h5⟩
  rw [hm, ← h]
  simp only [crossZA, sub_zero, add_zero, RcrossM, ZcrossM, hden]
  split <;> simp_all

/-! ### closest approach -/

/-- `closest_approach`² is the minimum over the segment of the squared distance -/
theorem closest_is_min (p a b : Pt) (hab : (b.R - a.R) * (b.R - a.R) + (b.Z - a.Z) * (b.Z - a.Z) ≠ 0)
    (d : ℚ) (hd : closest2 p a b = some d) :
    (∀ t : ℚ, 0 ≤ t → t ≤ 1 →
        d ≤ (p.R - (a.R + t * (b.R - a.R))) * (p.R - (a.R + t * (b.R - a.R)))
          + (p.Z - (a.Z + t * (b.Z - a.Z))) * (p.Z - (a.Z + t * (b.Z - a.Z)))) ∧
    (∃ t : ℚ, 0 ≤ t ∧ t ≤ 1 ∧
        d = (p.R - (a.R + t * (b.R - a.R))) * (p.R - (a.R + t * (b.R - a.R)))
          + (p.Z - (a.Z + t * (b.Z - a.Z))) * (p.Z - (a.Z + t * (b.Z - a.Z)))) := by
  simp only [closest2, hab, if_false] at hd
  set mR := b.R - a.R with hmR
  set mZ := b.Z - a.Z with hmZ
  set mm := mR * mR + mZ * mZ with hmm
  have hmmpos : 0 < mm := by
    rcases lt_or_gt_of_ne hab with h | h
    · nlinarith [mul_self_nonneg mR, mul_self_nonneg mZ]
    · exact h
  set t0 := (mR * (p.R - a.R) + mZ * (p.Z - a.Z)) / mm with ht0
  have ht0m : t0 * mm = mR * (p.R - a.R) + mZ * (p.Z - a.Z) := by
    rw [ht0]; field_simp
  -- squared distance at parameter t, expanded around t0
  have expand : ∀ t : ℚ, (p.R - (a.R + t * mR)) * (p.R - (a.R + t * mR)) + (p.Z - (a.Z + t * mZ)) * (p.Z - (a.Z + t * mZ))
      = (p.R - (a.R + t0 * mR)) * (p.R - (a.R + t0 * mR)) + (p.Z - (a.Z + t0 * mZ)) * (p.Z - (a.Z + t0 * mZ))
        + (t - t0) * (t - t0) * mm := by
    intro t
    have : mR * (p.R - a.R) + mZ * (p.Z - a.Z) = t0 * mm := ht0m.symm
    linear_combination (2 * (t0 - t)) * this
  split at hd
  · rename_i hneg
    cases hd
    constructor
    · intro t ht0' ht1
      have e0 := expand 0
      have et := expand t
      simp only [zero_mul, add_zero] at e0
      rw [et]
      have : (0 - t0) * (0 - t0) ≤ (t - t0) * (t - t0) := by nlinarith
      nlinarith
    · exact ⟨0, le_refl _, by norm_num, by simp⟩
  · split at hd
    · rename_i hge hgt
      cases hd
      constructor
      · intro t ht0' ht1
        have e1 := expand 1
        have et := expand t
        simp only [one_mul] at e1
        have hb : p.R - b.R = p.R - (a.R + mR) := by rw [hmR]; ring
        have hb2 : p.Z - b.Z = p.Z - (a.Z + mZ) := by rw [hmZ]; ring
        rw [hb, hb2, e1, et]
        have : (1 - t0) * (1 - t0) ≤ (t - t0) * (t - t0) := by nlinarith
        nlinarith
      · refine ⟨1, by norm_num, le_refl _, ?_⟩
        simp only [one_mul]
        have hb : p.R - b.R = p.R - (a.R + mR) := by rw [hmR]; ring
        have hb2 : p.Z - b.Z = p.Z - (a.Z + mZ) := by rw [hmZ]; ring
        rw [hb, hb2]
    · rename_i hge hle
      cases hd
      constructor
      · intro t _ _
        rw [expand t]
        nlinarith [mul_self_nonneg (t - t0)]
      · exact ⟨t0, not_lt.mp hge, not_lt.mp hle, rfl⟩

/-! ### polygon area (shoelace) -/

/-- triangle: twice the signed area is minus the cross product (positive = clockwise, as documented) -/
theorem area2_triangle (a b c : Pt) :
    area2 [a, b, c] = -((b.R - a.R) * (c.Z - a.Z) - (b.Z - a.Z) * (c.R - a.R)) := by
  simp only [area2, area2From]; ring

theorem area2_triangle_reverse (a b c : Pt) : area2 [c, b, a] = -area2 [a, b, c] := by
  simp only [area2, area2From]; ring

theorem area2_quad_reverse (a b c d : Pt) : area2 [d, c, b, a] = -area2 [a, b, c, d] := by
  simp only [area2, area2From]; ring

/-- translation invariance for quadrilaterals (the telescoping Σ dR = 0) -/
theorem area2_quad_translate (a b c d : Pt) (vR vZ : ℚ) :
    area2 [⟨a.R + vR, a.Z + vZ⟩, ⟨b.R + vR, b.Z + vZ⟩, ⟨c.R + vR, c.Z + vZ⟩, ⟨d.R + vR, d.Z + vZ⟩]
      = area2 [a, b, c, d] := by
  simp only [area2, area2From]; ring

/-! ### wallIntersection: a crossing through a shared vertex of the closed wall is two reports merged into one -/

def square : List Pt := [⟨0, 0⟩, ⟨2, 0⟩, ⟨2, 2⟩, ⟨0, 2⟩, ⟨0, 0⟩]

example : findIntersections (1 / 1000000000000000) (1 / 100000000000000) square ⟨1, 1⟩ ⟨3, 3⟩ = [⟨2, 2⟩, ⟨2, 2⟩] := by
  decide +kernel

example : wallIntersection (1 / 1000000000000000) (1 / 100000000000000) square ⟨1, 1⟩ ⟨3, 3⟩ = .one ⟨2, 2⟩ := by
  decide +kernel

/-- two reports within tolerance are merged; two distinct ones are refused -/
theorem wallIntersection_dedup (eps tol : ℚ) (wall : List Pt) (p1 p2 P Q : Pt)
    (h : findIntersections eps tol wall p1 p2 = [P, Q]) :
    wallIntersection eps tol wall p1 p2 =
      if absq (P.R - Q.R) < tol ∧ absq (P.Z - Q.Z) < tol then .one P else .multiple := by
  simp [wallIntersection, h]

-- non-vacuity of the hit theorems: a concrete crossing in each slope class
example : Meets ⟨0, 0⟩ ⟨2, 1⟩ ⟨0, 1⟩ ⟨2, 0⟩ := ⟨1/2, 1/2, by norm_num, by norm_num, by norm_num, by norm_num, by norm_num, by norm_num⟩
example : (crossRA 0 0 ⟨0, 0⟩ ⟨2, 1⟩ ⟨0, 1⟩ ⟨2, 0⟩).isSome = true := by decide +kernel
example : (crossRB 0 ⟨1, 0⟩ ⟨1, 2⟩ ⟨0, 1⟩ ⟨2, 1⟩).isSome = true := by decide +kernel

end HypnoModel.Props.C20
