/-
C11 — targets sit on the wall; penalty_mask and the wall output match the geometry.
Model: HypnoModel/Model/Wall.lean (hand-written from hypnotoad/cases/tokamak.py, hypnotoad/core/equilibrium.py
`PsiContour.insert/replace`, hypnotoad/core/mesh.py `addPointAtWallToContours` / `calcPenaltyMask`; `area2`, `clockwise`,
`findIntersections` are those of Model/Intersect.lean).  Helper lemmas: HypnoModel/Lemmas/Wall.lean.  This file: property theorems.

Conventions.  `PyIdx n i k` (Lemmas/Wall.lean): the python index `i` refers to position `k` of a list of length `n`
(`k < n ∧ (i = k ∨ i + n = k)`).  `normIdx n index` is the index after the normalisation at the top of `PsiContour.insert`
(negative → `index + n`, clamped at 0), `insPos n index = min (normIdx n index) n` is where `list.insert` puts the point.
`lowerStage` / `upperStage` are the two halves of `addWallPoints` (`addWallPoints_stages`).

Findings recorded by the statements below (the model reproduces the code; each has a `decide`d counter-example in section E):
* B2 `insert_keeps_end_neg`: for a negative `endInd` the third clause of `PsiContour.insert`, `index > len(self) + self.endInd`
  evaluated with the NEW length, misses exactly the insertion position one past the referenced element: then `endInd` is left
  unchanged and refers to the inserted point.  The test `index > len(self) - 1 + self.endInd` is right
  (`insert_end_neg_corrected`).
* C1 `wall_points_at_indices`: (i) `upper_intersect_index = -1` is not supported: `ui + 1 = 0` wraps to the FIRST point, so
  "insert" puts the wall point at the front and `endInd = -1` still refers to the old last point (`upper_neg_one_insert_wrong`);
  (`-2`, the value `_find_intersection` uses, and every `ui ≤ -2` in range are fine).  (ii) a negative lower index is not
  supported in the insert branch.  (iii) the start point survives the upper stage iff the upper stage does not REPLACE it; this
  is guaranteed when the two wall points are not within the exclude radius of each other (`near lp up = false`), or when the
  upper segment starts at least two points after the lower one (`li + 2 ≤ U`).  With `li + 1 = U` (adjacent segments, sharing
  one contour point) and `near lp up` the shared point is replaced twice and startInd = endInd refer to `up`
  (`adjacent_segments_shared_point`).
* D2: that a point returned by `findIntersections` lies on the segment is kept as a hypothesis (`hR`, `hZ`, `ht0`, `ht1`):
  Props/C20 proves it only per slope-class branch at zero tolerance, and with tol > 0 it holds only up to tol.
-/
import HypnoModel.Model.Wall
import HypnoModel.Lemmas.Wall
import HypnoModel.Model.Extend
import HypnoModel.Lemmas.Extend
import HypnoModel.Props.C20
import Mathlib.Tactic.NormNum

namespace HypnoModel.Props.C11
open Intersect Wall WallLemmas

/-! ## A. wall orientation and closing -/

/-- the shoelace sum of the code is the sum of (R_{i+1} − R_i)(Z_i + Z_{i+1}) over the consecutive pairs of the CLOSED polygon
    `w ++ [w[0]]`: the closing edge last → first counts like every other edge -/
theorem area2_closed_path (w : List Pt) : area2 w = pathSum (closed w) := area2_eq_pathSum w

/-- … i.e. the cyclic sum Σ_{i<n} (R_{(i+1) mod n} − R_i)(Z_i + Z_{(i+1) mod n}) (`d` is an irrelevant default point) -/
theorem area2_cyclic_sum (d : Pt) (w : List Pt) :
    area2 w = ∑ i ∈ Finset.range w.length,
      ((w[(i + 1) % w.length]?.getD d).R - (w[i]?.getD d).R) * ((w[i]?.getD d).Z + (w[(i + 1) % w.length]?.getD d).Z) :=
  area2_eq_cyclic_sum d w

theorem area2_reverse (w : List Pt) : area2 w.reverse = - area2 w := WallLemmas.area2_reverse w

/-- the start vertex does not matter -/
theorem area2_rotate (w : List Pt) (k : ℕ) : area2 (w.rotate k) = area2 w := WallLemmas.area2_rotate w k

theorem normalise_cases (w : List Pt) :
    (clockwise w = true ∧ normalise w = w.reverse) ∨ (clockwise w = false ∧ normalise w = w) := by
  unfold normalise
  cases h : clockwise w <;> simp

/-- positive `area2` = clockwise is the code's convention: after normalisation the wall is anticlockwise (or degenerate) -/
theorem normalise_anticlockwise (w : List Pt) : area2 (normalise w) ≤ 0 ∧ clockwise (normalise w) = false := by
  have key : area2 (normalise w) ≤ 0 := by
    rcases normalise_cases w with ⟨hc, hn⟩ | ⟨hc, hn⟩
    · rw [hn, area2_reverse]
      have : area2 w > 0 := by simpa [clockwise] using hc
      linarith
    · rw [hn]
      have : ¬ area2 w > 0 := by simpa [clockwise] using hc
      linarith
  refine ⟨key, ?_⟩
  simp only [clockwise, decide_eq_false_iff_not, not_lt]
  exact key

theorem normalise_perm (w : List Pt) : (normalise w).Perm w := by
  rcases normalise_cases w with ⟨_, hn⟩ | ⟨_, hn⟩ <;> rw [hn]
  exact List.reverse_perm w

theorem normalise_idempotent (w : List Pt) : normalise (normalise w) = normalise w := by
  have h := (normalise_anticlockwise w).2
  have e : normalise (normalise w) = if clockwise (normalise w) = true then (normalise w).reverse else normalise w := rfl
  rw [e, h]; simp

/-- a strictly clockwise wall becomes strictly anticlockwise with the same |area| -/
theorem normalise_area (w : List Pt) : area2 (normalise w) = - |area2 w| := by
  rcases normalise_cases w with ⟨hc, hn⟩ | ⟨hc, hn⟩
  · have : area2 w > 0 := by simpa [clockwise] using hc
    rw [hn, area2_reverse, abs_of_pos this]
  · have : ¬ area2 w > 0 := by simpa [clockwise] using hc
    rw [hn, abs_of_nonpos (by linarith)]; ring

theorem closed_nil : closed [] = [] := rfl

theorem closed_spec (w : List Pt) (h : w ≠ []) :
    closed w = w ++ [w.head h] ∧ (closed w).head? = (closed w).getLast? ∧ (closed w).length = w.length + 1 := by
  cases w with
  | nil => exact absurd rfl h
  | cons p t =>
    refine ⟨by simp [closed], ?_, by simp [closed]⟩
    have e : closed (p :: t) = (p :: t) ++ [p] := by simp [closed]
    rw [e, List.getLast?_concat]; rfl

/-! ## B. python indexing and `PsiContour.insert` -/

/-- the normalisation at the top of `PsiContour.insert` -/
theorem normIdx_cases (n : ℕ) (i : ℤ) :
    (0 ≤ i → normIdx n i = i) ∧ (-(n : ℤ) ≤ i → i < 0 → normIdx n i = i + n) ∧ (i < -(n : ℤ) → normIdx n i = 0) := by
  unfold normIdx
  refine ⟨fun h => ?_, fun h h' => ?_, fun h => ?_⟩
  · rw [if_neg (by omega)]
  · rw [if_pos h', if_neg (by omega)]
  · rw [if_pos (by omega), if_pos (by omega)]

variable {P : Type}

theorem insert_pts_length (c : Contour P) (i : ℤ) (p : P) : (c.insert i p).pts.length = c.pts.length + 1 :=
  WallLemmas.insert_pts_length c i p

/-- a valid non-negative startInd keeps referring to the same point, for every python index `i` -/
theorem insert_keeps_start (c : Contour P) (i : ℤ) (p : P) (h0 : 0 ≤ c.startInd) (h1 : c.startInd < c.pts.length) :
    pyGet (c.insert i p).pts (c.insert i p).startInd = pyGet c.pts c.startInd := by
  rw [insert_pts, insert_startInd]
  exact insertIdx_shift_get c.pts p i c.startInd h0 h1

theorem insert_keeps_end_nonneg (c : Contour P) (i : ℤ) (p : P) (h0 : 0 ≤ c.endInd) (h1 : c.endInd < c.pts.length) :
    pyGet (c.insert i p).pts (c.insert i p).endInd = pyGet c.pts c.endInd :=
  insert_end_nonneg c i p h0 h1

/-- negative endInd, the bad position: the point goes in exactly one past the referenced element (`normIdx = n + 1 + endInd`,
    i.e. position `n + endInd + 1`); endInd is left unchanged and now refers to the inserted point -/
theorem insert_end_neg_refers_to_new (c : Contour P) (i : ℤ) (p : P) (h1 : c.endInd < 0)
    (he : normIdx c.pts.length i = c.pts.length + 1 + c.endInd) :
    (c.insert i p).endInd = c.endInd ∧ pyGet (c.insert i p).pts (c.insert i p).endInd = some p :=
  insert_end_neg_hit c i p h1 he

/-- negative endInd: the reference is kept iff the normalised insertion index is not exactly one past the referenced element
    (`p` different from the referenced point, otherwise the two cannot be told apart) -/
theorem insert_keeps_end_neg (c : Contour P) (i : ℤ) (p : P) (h0 : -(c.pts.length : ℤ) ≤ c.endInd) (h1 : c.endInd < 0)
    (hp : pyGet c.pts c.endInd ≠ some p) :
    pyGet (c.insert i p).pts (c.insert i p).endInd = pyGet c.pts c.endInd ↔
      normIdx c.pts.length i ≠ c.pts.length + 1 + c.endInd := by
  constructor
  · intro h he
    rw [(insert_end_neg_hit c i p h1 he).2] at h
    exact hp h.symm
  · exact insert_end_neg_kept c i p h0 h1

/-- with the test `index > len(self) - 1 + self.endInd` (new length; `n + endInd` with the old one) the reference is always kept -/
theorem insert_end_neg_corrected (c : Contour P) (i : ℤ) (p : P) (h0 : -(c.pts.length : ℤ) ≤ c.endInd) (h1 : c.endInd < 0) :
    pyGet (c.insert i p).pts (if normIdx c.pts.length i > c.pts.length + c.endInd then c.endInd - 1 else c.endInd)
      = pyGet c.pts c.endInd := by
  have hn := normIdx_nonneg c.pts.length i
  have hk := insPos_eq c.pts.length i
  have hlen := WallLemmas.insert_pts_length c i p
  rw [insert_pts] at hlen ⊢
  rw [pyGet_of_idx (l := c.pts) (k := (c.endInd + c.pts.length).toNat) ⟨by omega, Or.inr (by omega)⟩]
  split
  · rw [pyGet_of_idx (k := (c.endInd + c.pts.length).toNat) ⟨by omega, Or.inr (by omega)⟩]
    rw [List.getElem?_insertIdx_of_lt (by omega)]
  · rw [pyGet_of_idx (k := (c.endInd + c.pts.length).toNat + 1) ⟨by omega, Or.inr (by omega)⟩]
    rw [List.getElem?_insertIdx_of_gt (by omega)]; simp

/-- pts = [10,20,30], endInd = -1 (→ 30), insert(3, 99) appends: endInd stays -1 and refers to 99 -/
theorem insert_neg_end_off_by_one :
    let c : Contour ℤ := ⟨[10, 20, 30], 0, -1⟩
    pyGet c.pts c.endInd = some 30 ∧ (c.insert 3 99).pts = [10, 20, 30, 99] ∧ (c.insert 3 99).endInd = -1 ∧
      pyGet (c.insert 3 99).pts (c.insert 3 99).endInd = some 99 := by
  decide

/-- the inserted point is at the normalised position `min (normIdx n i) n` -/
theorem insert_new_point (c : Contour P) (i : ℤ) (p : P) :
    (c.insert i p).pts[insPos c.pts.length i]? = some p ∧ (insPos c.pts.length i : ℤ) = min (normIdx c.pts.length i) c.pts.length :=
  ⟨insert_new_at_pos c i p, insPos_eq _ _⟩

/-- … as python sees it: `l[i]` for `0 ≤ i ≤ n`, and `l[i - 1]` for a negative in-range `i` (the list has grown) -/
theorem insert_new_point_py (c : Contour P) (i : ℤ) (p : P) :
    (0 ≤ i → i ≤ c.pts.length → pyGet (c.insert i p).pts i = some p) ∧
    (-(c.pts.length : ℤ) ≤ i → i < 0 → pyGet (c.insert i p).pts (i - 1) = some p) := by
  have hlen := WallLemmas.insert_pts_length c i p
  have hk := insPos_eq c.pts.length i
  have hnc := normIdx_cases c.pts.length i
  constructor
  · intro h0 h1
    rw [pyGet_of_idx (k := insPos c.pts.length i) ⟨by omega, Or.inl (by rw [hk, hnc.1 h0]; omega)⟩]
    exact insert_new_at_pos c i p
  · intro h0 h1
    rw [pyGet_of_idx (k := insPos c.pts.length i) ⟨by omega, Or.inr (by rw [hk, hnc.2.1 h0 h1]; omega)⟩]
    exact insert_new_at_pos c i p

/-! ## C. `addWallPoints` -/

/-- `addWallPoints` = lower-wall stage, then upper-wall stage on its result -/
theorem addWallPoints_stages (near : P → P → Bool) (c : Contour P) (lw uw : Bool) (li : ℤ) (lp : P) (ui : ℤ) (up : P) :
    addWallPoints near c lw uw li lp ui up = (lowerStage near c lw uw li lp ui).bind (upperStage near uw up) :=
  addWallPoints_eq near c lw uw li lp ui up

theorem wall_points_no_wall (near : P → P → Bool) (c : Contour P) (li : ℤ) (lp : P) (ui : ℤ) (up : P) :
    addWallPoints near c false false li lp ui up = some (c, li, ui) := rfl

private theorem stages_of_some {near : P → P → Bool} {c : Contour P} {lw uw : Bool} {li : ℤ} {lp : P} {ui : ℤ} {up : P}
    {r : Contour P × ℤ × ℤ} (h : addWallPoints near c lw uw li lp ui up = some r) :
    ∃ c1 li1 ui1, lowerStage near c lw uw li lp ui = some (c1, li1, ui1) ∧ upperStage near uw up (c1, li1, ui1) = some r := by
  rw [addWallPoints_eq] at h
  obtain ⟨⟨c1, li1, ui1⟩, h1, h2⟩ := Option.bind_eq_some_iff.mp h
  exact ⟨c1, li1, ui1, h1, h2⟩

private theorem lowerOut_ui {near : P → P → Bool} {c : Contour P} {uw : Bool} {li : ℤ} {lp : P} {ui : ℤ}
    {x : Contour P × ℤ × ℤ} (h : LowerOut near c uw li lp ui x) : x.2.2 = ui ∨ (0 ≤ ui ∧ x.2.2 = ui + 1) := by
  cases h with
  | first => exact Or.inl rfl
  | second => exact Or.inl rfl
  | ins =>
    simp only []
    split
    · rename_i h; exact Or.inr ⟨h.2, rfl⟩
    · exact Or.inl rfl

/-- **the wall point is where endInd says**, whatever happened at the lower wall, for every upper index except `-1` -/
theorem wall_points_end (near : P → P → Bool) (c : Contour P) (lw : Bool) (li : ℤ) (lp : P) (ui : ℤ) (up : P)
    (c' : Contour P) (li' ui' : ℤ) (h : addWallPoints near c lw true li lp ui up = some (c', li', ui'))
    (hli : lw = true → 0 ≤ li) (hui : ui ≠ -1) :
    pyGet c'.pts c'.endInd = some up ∧ c'.endInd = ui' := by
  obtain ⟨c1, li1, ui1, h1, h2⟩ := stages_of_some h
  have hU := upperStage_spec near up c1 li1 ui1 _ h2
  have hui1 : ui1 ≠ -1 := by
    cases lw with
    | false => simp only [lowerStage, Bool.false_eq_true, if_false] at h1; cases h1; exact hui
    | true =>
      have := lowerOut_ui (lowerStage_spec near c true li lp ui _ (hli rfl) h1)
      simp only [] at this
      omega
  have := upperOut_end hU hui1
  exact ⟨this.2, this.1⟩

/-- **the wall point is where startInd says** after the lower stage alone -/
theorem wall_points_start_lower_only (near : P → P → Bool) (c : Contour P) (li : ℤ) (lp : P) (ui : ℤ) (up : P)
    (c' : Contour P) (li' ui' : ℤ) (h : addWallPoints near c true false li lp ui up = some (c', li', ui')) (hli : 0 ≤ li) :
    pyGet c'.pts c'.startInd = some lp ∧ c'.startInd = li' := by
  obtain ⟨c1, li1, ui1, h1, h2⟩ := stages_of_some h
  simp only [upperStage, Bool.false_eq_true, if_false] at h2
  cases h2
  obtain ⟨e, s0, s1, sg⟩ := lowerOut_start (lowerStage_spec near c false li lp ui _ hli h1)
  simp only [] at e s0 s1 sg
  refine ⟨?_, e⟩
  rw [pyGet_of_idx (k := c'.startInd.toNat) ⟨by omega, Or.inl (by omega)⟩]
  exact sg

/-- both walls: the upper stage keeps the start point unless it replaces it — no point of the (shifted) upper segment that is
    near `up` is the start point.  `c1, ui1` are the contour and upper index after the lower stage. -/
theorem wall_points_start_general (near : P → P → Bool) (c : Contour P) (li : ℤ) (lp : P) (ui : ℤ) (up : P)
    (c' : Contour P) (li' ui' : ℤ) (h : addWallPoints near c true true li lp ui up = some (c', li', ui')) (hli : 0 ≤ li) :
    ∃ c1 li1 ui1, lowerStage near c true true li lp ui = some (c1, li1, ui1) ∧
      pyGet c1.pts c1.startInd = some lp ∧
      ((∀ k a, (PyIdx c1.pts.length ui1 k ∨ PyIdx c1.pts.length (ui1 + 1) k) → c1.pts[k]? = some a → near a up = true →
          c1.startInd ≠ k) →
        pyGet c'.pts c'.startInd = some lp) := by
  obtain ⟨c1, li1, ui1, h1, h2⟩ := stages_of_some h
  obtain ⟨_, s0, s1, sg⟩ := lowerOut_start (lowerStage_spec near c true li lp ui _ hli h1)
  simp only [] at s0 s1 sg
  have hs : pyGet c1.pts c1.startInd = some lp := by
    rw [pyGet_of_idx (k := c1.startInd.toNat) ⟨by omega, Or.inl (by omega)⟩]; exact sg
  refine ⟨c1, li1, ui1, h1, hs, fun hsep => ?_⟩
  rw [upperOut_start (upperStage_spec near up c1 li1 ui1 _ h2) s0 s1 hsep, hs]

/-- **C1, main statement.**  Hypotheses: a non-negative lower index; an upper index other than `-1` (non-negative, or negative
    `≤ -2`); and, when both walls are present, either the two wall points are not within the exclude radius of each other, or the
    upper segment (at position `U`, whichever way `ui` is written) starts at least two points after the lower one.  That the
    indices are in range follows from the result being `some` (no IndexError). -/
theorem wall_points_at_indices (near : P → P → Bool) (c : Contour P) (lw uw : Bool) (li : ℤ) (lp : P) (ui : ℤ) (up : P)
    (c' : Contour P) (li' ui' : ℤ) (h : addWallPoints near c lw uw li lp ui up = some (c', li', ui'))
    (hli : lw = true → 0 ≤ li) (hui : uw = true → ui ≠ -1)
    (hsep : lw = true → uw = true → near lp up = false ∨ ∃ U : ℕ, PyIdx c.pts.length ui U ∧ li + 2 ≤ U) :
    (lw = true → pyGet c'.pts c'.startInd = some lp) ∧ (uw = true → pyGet c'.pts c'.endInd = some up) := by
  constructor
  · intro hl
    subst hl
    cases uw with
    | false => exact (wall_points_start_lower_only near c li lp ui up c' li' ui' h (hli rfl)).1
    | true =>
      obtain ⟨c1, li1, ui1, h1, h2⟩ := stages_of_some h
      have hL := lowerStage_spec near c true li lp ui _ (hli rfl) h1
      obtain ⟨_, s0, s1, sg⟩ := lowerOut_start hL
      simp only [] at s0 s1 sg
      have hs : pyGet c1.pts c1.startInd = some lp := by
        rw [pyGet_of_idx (k := c1.startInd.toNat) ⟨by omega, Or.inl (by omega)⟩]; exact sg
      rw [upperOut_start (upperStage_spec near up c1 li1 ui1 _ h2) s0 s1 ?_, hs]
      intro k a hk hka hn
      rcases hsep rfl rfl with hfar | ⟨U, hU, hUl⟩
      · intro hk'
        have : c1.startInd.toNat = k := by omega
        rw [this, hka] at sg
        cases sg
        rw [hfar] at hn; cases hn
      · exact lowerOut_sep hL hU hUl (hui rfl) k hk
  · intro hu
    subst hu
    exact (wall_points_end near c lw li lp ui up c' li' ui' h hli (hui rfl)).1

/-- the separation hypothesis in the two ways `ui` is given: a non-negative index with `li + 2 ≤ ui`, or a negative index
    `-n ≤ ui ≤ -2` with `li + 2 ≤ n + ui` -/
theorem sep_of_nonneg (n : ℕ) (li ui : ℤ) (h0 : 0 ≤ ui) (h1 : ui < n) (h : li + 2 ≤ ui) :
    ∃ U : ℕ, PyIdx n ui U ∧ li + 2 ≤ U := ⟨ui.toNat, ⟨by omega, Or.inl (by omega)⟩, by omega⟩
theorem sep_of_neg (n : ℕ) (li ui : ℤ) (h0 : -(n : ℤ) ≤ ui) (h1 : ui ≤ -2) (h : li + 2 ≤ n + ui) :
    ∃ U : ℕ, PyIdx n ui U ∧ li + 2 ≤ U := ⟨(ui + n).toNat, ⟨by omega, Or.inr (by omega)⟩, by omega⟩

/-- exactly when the start point is lost (both walls, `lp ≠ up`): iff the final startInd and endInd refer to the same position -/
theorem wall_points_start_iff (near : P → P → Bool) (c : Contour P) (li : ℤ) (lp : P) (ui : ℤ) (up : P)
    (c' : Contour P) (li' ui' : ℤ) (h : addWallPoints near c true true li lp ui up = some (c', li', ui'))
    (hli : 0 ≤ li) (hui : ui ≠ -1) (hne : lp ≠ up) :
    pyGet c'.pts c'.startInd = some lp ↔ ¬ PyIdx c'.pts.length c'.endInd c'.startInd.toNat := by
  have hend := (wall_points_end near c true li lp ui up c' li' ui' h (fun _ => hli) hui).1
  obtain ⟨c1, li1, ui1, h1, h2⟩ := stages_of_some h
  have hL := lowerStage_spec near c true li lp ui _ hli h1
  obtain ⟨_, s0, s1, sg⟩ := lowerOut_start hL
  simp only [] at s0 s1 sg
  have hU := upperStage_spec near up c1 li1 ui1 _ h2
  -- the final startInd is a valid non-negative index
  have hrange : 0 ≤ c'.startInd ∧ c'.startInd < c'.pts.length := by
    cases hU with
    | first => simp only [List.length_set]; omega
    | second => simp only [List.length_set]; omega
    | ins =>
      simp only []
      rw [WallLemmas.insert_pts_length, insert_startInd]
      have := normIdx_nonneg c1.pts.length (ui1 + 1)
      split <;> omega
  constructor
  · intro hs hidx
    rw [pyGet_of_idx hidx] at hend
    rw [pyGet_of_idx (k := c'.startInd.toNat) ⟨by omega, Or.inl (by omega)⟩, hend] at hs
    cases hs; exact hne rfl
  · intro hidx
    have hs : pyGet c1.pts c1.startInd = some lp := by
      rw [pyGet_of_idx (k := c1.startInd.toNat) ⟨by omega, Or.inl (by omega)⟩]; exact sg
    have keep : ∀ k : ℕ, c1.startInd ≠ k → pyGet (c1.pts.set k up) c1.startInd = some lp := by
      intro k hk
      rw [pyGet_of_idx (k := c1.startInd.toNat) ⟨by simp only [List.length_set]; omega, Or.inl (by omega)⟩,
        List.getElem?_set, if_neg (by omega)]
      exact sg
    cases hU with
    | first k a hk ha hn =>
      simp only [List.length_set] at hidx ⊢
      apply keep
      intro hk'
      apply hidx
      rw [show c1.startInd.toNat = k by omega]; exact hk
    | second k0 k a b hk0 ha hn hk hb hn' =>
      simp only [List.length_set] at hidx ⊢
      apply keep
      intro hk'
      apply hidx
      rw [show c1.startInd.toNat = k by omega]; exact hk
    | ins k0 k a b hk0 ha hn hk hb hn' =>
      simp only []
      rw [insert_pts, insert_startInd, insertIdx_shift_get c1.pts up (ui1 + 1) c1.startInd s0 s1, hs]

/-- the contour grows by the number of insertions: one at the lower wall iff neither end of the lower segment is near `lp`, one at
    the upper wall iff neither end of the upper segment (in the contour `c1` after the lower stage) is near `up` -/
theorem wall_points_length (near : P → P → Bool) (c : Contour P) (lw uw : Bool) (li : ℤ) (lp : P) (ui : ℤ) (up : P)
    (c' : Contour P) (li' ui' : ℤ) (h : addWallPoints near c lw uw li lp ui up = some (c', li', ui')) :
    ∃ c1 li1 ui1, lowerStage near c lw uw li lp ui = some (c1, li1, ui1) ∧
      c1.pts.length = c.pts.length + (if (lw && insertsAt near c.pts li lp) = true then 1 else 0) ∧
      c'.pts.length = c1.pts.length + (if (uw && insertsAt near c1.pts ui1 up) = true then 1 else 0) := by
  obtain ⟨c1, li1, ui1, h1, h2⟩ := stages_of_some h
  exact ⟨c1, li1, ui1, h1, lowerStage_length h1, upperStage_length h2⟩

theorem wall_points_length_bounds (near : P → P → Bool) (c : Contour P) (lw uw : Bool) (li : ℤ) (lp : P) (ui : ℤ) (up : P)
    (c' : Contour P) (li' ui' : ℤ) (h : addWallPoints near c lw uw li lp ui up = some (c', li', ui')) :
    c.pts.length ≤ c'.pts.length ∧ c'.pts.length ≤ c.pts.length + 2 := by
  obtain ⟨c1, li1, ui1, _, e1, e2⟩ := wall_points_length near c lw uw li lp ui up c' li' ui' h
  constructor
  · rw [e2, e1]; omega
  · rw [e2, e1]; split <;> split <;> omega

/-- every original point other than the replaced ones (positions `E`) is still in the contour, in the original order: there is a
    strictly increasing position map `f`; replaced + inserted points are at most two -/
theorem wall_points_others_kept (near : P → P → Bool) (c : Contour P) (lw uw : Bool) (li : ℤ) (lp : P) (ui : ℤ) (up : P)
    (c' : Contour P) (li' ui' : ℤ) (h : addWallPoints near c lw uw li lp ui up = some (c', li', ui')) :
    ∃ (f : ℕ → ℕ) (E : List ℕ), (∀ i j, i < j → f i < f j) ∧ E.length + c'.pts.length ≤ c.pts.length + 2 ∧
      ∀ i, i ∉ E → c'.pts[f i]? = c.pts[i]? := by
  obtain ⟨c1, li1, ui1, h1, h2⟩ := stages_of_some h
  obtain ⟨f, _, E, hf, _, hl, he⟩ := (lowerStage_embeds h1).trans (upperStage_embeds h2)
  exact ⟨f, E, hf, hl, he⟩

/-! ## D. penalty mask -/

theorem maskSq_both_outside (eps tol : ℚ) (wall : List Pt) (p0 p1 p2 : Pt)
    (h1 : isOutside eps tol wall p0 p1 = true) (h2 : isOutside eps tol wall p0 p2 = true) : maskSq eps tol wall p0 p1 p2 = 1 := by
  simp [maskSq, h1, h2]

theorem maskSq_both_inside (eps tol : ℚ) (wall : List Pt) (p0 p1 p2 : Pt)
    (h1 : isOutside eps tol wall p0 p1 = false) (h2 : isOutside eps tol wall p0 p2 = false) : maskSq eps tol wall p0 p1 p2 = 0 := by
  simp [maskSq, h1, h2]

/-- exactly one y-face outside: the squared distance from the outside face to the first reported crossing, over the squared length -/
theorem maskSq_crossing (eps tol : ℚ) (wall : List Pt) (p0 p1 p2 pi : Pt) (rest : List Pt)
    (hx : isOutside eps tol wall p0 p1 ≠ isOutside eps tol wall p0 p2)
    (hf : findIntersections eps tol wall p1 p2 = pi :: rest) :
    maskSq eps tol wall p0 p1 p2 = dist2 (if isOutside eps tol wall p0 p1 = true then p1 else p2) pi / dist2 p1 p2 := by
  unfold maskSq
  simp only [hf]
  cases h1 : isOutside eps tol wall p0 p1 <;> cases h2 : isOutside eps tol wall p0 p2 <;> simp_all

theorem maskSq_crossing_none (eps tol : ℚ) (wall : List Pt) (p0 p1 p2 : Pt)
    (hf : findIntersections eps tol wall p1 p2 = []) (hx : isOutside eps tol wall p0 p1 ≠ isOutside eps tol wall p0 p2) :
    maskSq eps tol wall p0 p1 p2 = 0 := by
  unfold maskSq
  simp only [hf]
  cases h1 : isOutside eps tol wall p0 p1 <;> cases h2 : isOutside eps tol wall p0 p2 <;> simp_all

/-- a non-empty answer of `findIntersections` means the cell has non-zero poloidal extent -/
theorem findIntersections_ne (eps tol : ℚ) (wall : List Pt) (p1 p2 pi : Pt) (rest : List Pt)
    (hf : findIntersections eps tol wall p1 p2 = pi :: rest) : p1 ≠ p2 := by
  intro h
  simp [findIntersections, h] at hf

/-- if the reported crossing is the point at parameter `t ∈ [0,1]` of the cell's poloidal extent p1 → p2, the value is the square
    of the outside fraction: `t` when p1 is the outside face, `1 − t` when p2 is; hence in [0, 1].
    (That the reported point lies on the segment is a hypothesis here, see the header.) -/
theorem maskSq_range (eps tol : ℚ) (wall : List Pt) (p0 p1 p2 pi : Pt) (rest : List Pt) (t : ℚ)
    (hx : isOutside eps tol wall p0 p1 ≠ isOutside eps tol wall p0 p2)
    (hf : findIntersections eps tol wall p1 p2 = pi :: rest)
    (hR : pi.R = p1.R + t * (p2.R - p1.R)) (hZ : pi.Z = p1.Z + t * (p2.Z - p1.Z)) (ht0 : 0 ≤ t) (ht1 : t ≤ 1) :
    maskSq eps tol wall p0 p1 p2 = (if isOutside eps tol wall p0 p1 = true then t else 1 - t) ^ 2 ∧
    0 ≤ maskSq eps tol wall p0 p1 p2 ∧ maskSq eps tol wall p0 p1 p2 ≤ 1 := by
  have hne := findIntersections_ne eps tol wall p1 p2 pi rest hf
  have hpos := dist2_pos hne
  have hval : maskSq eps tol wall p0 p1 p2 = (if isOutside eps tol wall p0 p1 = true then t else 1 - t) ^ 2 := by
    rw [maskSq_crossing eps tol wall p0 p1 p2 pi rest hx hf]
    split
    · rw [dist2_segment_left p1 p2 pi t hR hZ, mul_div_assoc, div_self (ne_of_gt hpos), mul_one]
    · rw [dist2_segment_right p1 p2 pi t hR hZ, mul_div_assoc, div_self (ne_of_gt hpos), mul_one]
  refine ⟨hval, ?_, ?_⟩
  · rw [hval]; exact sq_nonneg _
  · rw [hval]
    split
    · nlinarith
    · nlinarith

/-! ## E. concrete evaluations; the hypotheses are satisfiable -/
section examples

/-- a clockwise square (R to the right, Z up: up, right, down, left) -/
def cwSquare : List Pt := [⟨0, 0⟩, ⟨0, 2⟩, ⟨2, 2⟩, ⟨2, 0⟩]

example : area2 cwSquare = 8 ∧ clockwise cwSquare = true := by decide +kernel
example : normalise cwSquare = [⟨2, 0⟩, ⟨2, 2⟩, ⟨0, 2⟩, ⟨0, 0⟩] := by decide +kernel
example : area2 (normalise cwSquare) = -8 := by decide +kernel
example : normalise (normalise cwSquare) = normalise cwSquare := normalise_idempotent _
example : closed (normalise cwSquare) = [⟨2, 0⟩, ⟨2, 2⟩, ⟨0, 2⟩, ⟨0, 0⟩, ⟨2, 0⟩] := by decide +kernel
example : cwSquare ≠ [] := by decide

-- python indexing and insert (points are integers)
example : pyGet [10, 20, 30] (-1 : ℤ) = some (30 : ℤ) ∧ pyGet [10, 20, 30] (3 : ℤ) = (none : Option ℤ) ∧
    pyGet [10, 20, 30] (-4 : ℤ) = (none : Option ℤ) := by decide
/-- insert in the middle: startInd (before) stays, endInd (after) moves; negative index; past the end; before the start -/
example : ((⟨[10, 20, 30], 0, 2⟩ : Contour ℤ).insert 1 15).pts = [10, 15, 20, 30] ∧
    ((⟨[10, 20, 30], 0, 2⟩ : Contour ℤ).insert 1 15).startInd = 0 ∧ ((⟨[10, 20, 30], 0, 2⟩ : Contour ℤ).insert 1 15).endInd = 3 := by
  decide
example : ((⟨[10, 20, 30], 0, 2⟩ : Contour ℤ).insert (-1) 25).pts = [10, 20, 25, 30] ∧
    ((⟨[10, 20, 30], 0, 2⟩ : Contour ℤ).insert (-1) 25).endInd = 3 := by decide
example : ((⟨[10, 20, 30], 0, 2⟩ : Contour ℤ).insert 7 35).pts = [10, 20, 30, 35] ∧
    ((⟨[10, 20, 30], 0, 2⟩ : Contour ℤ).insert (-9) 5).pts = [5, 10, 20, 30] ∧
    ((⟨[10, 20, 30], 0, 2⟩ : Contour ℤ).insert (-9) 5).startInd = 1 := by decide
/-- negative endInd handled correctly away from the bad position: -1 → 30 before and after -/
example : ((⟨[10, 20, 30], 0, -1⟩ : Contour ℤ).insert 1 15).endInd = -1 ∧
    ((⟨[10, 20, 30], 0, -2⟩ : Contour ℤ).insert 3 35).endInd = -3 := by decide
-- hypotheses of `insert_keeps_end_neg` are satisfiable, on both sides of the iff
example : let c : Contour ℤ := ⟨[10, 20, 30], 0, -1⟩;
    -(c.pts.length : ℤ) ≤ c.endInd ∧ c.endInd < 0 ∧ pyGet c.pts c.endInd ≠ some 99 ∧
    normIdx c.pts.length 3 = c.pts.length + 1 + c.endInd ∧ normIdx c.pts.length 1 ≠ c.pts.length + 1 + c.endInd := by decide

/-- `near a b` = |a − b| < 3 on the integer line -/
def near3 : ℤ → ℤ → Bool := fun x y => decide ((x - y).natAbs < 3)
def line5 : Contour ℤ := ⟨[0, 10, 20, 30, 40], 0, 4⟩
/-- run `addWallPoints` and show (pts, startInd, endInd, li, ui) -/
def run (lw uw : Bool) (li lp ui up : ℤ) : Option (List ℤ × ℤ × ℤ × ℤ × ℤ) :=
  (addWallPoints near3 line5 lw uw li lp ui up).map fun r => (r.1.pts, r.1.startInd, r.1.endInd, r.2.1, r.2.2)

-- lower wall: replace the first point of the segment / the second / insert
example : run true false 1 11 3 0 = some ([0, 11, 20, 30, 40], 1, 4, 1, 3) := by decide
example : run true false 1 19 3 0 = some ([0, 10, 19, 30, 40], 2, 4, 2, 3) := by decide
example : run true false 1 15 3 0 = some ([0, 10, 15, 20, 30, 40], 2, 5, 2, 3) := by decide
-- upper wall, non-negative index: replace first / second / insert
example : run false true 0 0 3 31 = some ([0, 10, 20, 31, 40], 0, 3, 0, 3) := by decide
example : run false true 0 0 3 39 = some ([0, 10, 20, 30, 39], 0, 4, 0, 4) := by decide
example : run false true 0 0 3 35 = some ([0, 10, 20, 30, 35, 40], 0, 4, 0, 4) := by decide
-- upper wall, index -2 (what `_find_intersection` returns after extending): replace first / second / insert
example : run false true 0 0 (-2) 31 = some ([0, 10, 20, 31, 40], 0, -2, 0, -2) := by decide
example : run false true 0 0 (-2) 39 = some ([0, 10, 20, 30, 39], 0, -1, 0, -1) := by decide
example : run false true 0 0 (-2) 35 = some ([0, 10, 20, 30, 35, 40], 0, -2, 0, -2) := by decide
-- both walls, insertion at both ends; the non-negative upper index is shifted by the lower insertion, the negative one is not
example : run true true 0 5 3 35 = some ([0, 5, 10, 20, 30, 35, 40], 1, 5, 1, 5) := by decide
example : run true true 0 5 (-2) 35 = some ([0, 5, 10, 20, 30, 35, 40], 1, -2, 1, -2) := by decide
-- index error of the real code = none
example : run true false 4 45 3 0 = none := by decide

-- hypotheses of `wall_points_at_indices` are satisfiable (both forms of the separation, both forms of ui)
example : near3 5 35 = false ∧ (∃ U : ℕ, PyIdx line5.pts.length 3 U ∧ (0 : ℤ) + 2 ≤ U) ∧
    (∃ U : ℕ, PyIdx line5.pts.length (-2) U ∧ (0 : ℤ) + 2 ≤ U) :=
  ⟨by decide, sep_of_nonneg 5 0 3 (by decide) (by decide) (by decide), sep_of_neg 5 0 (-2) (by decide) (by decide) (by decide)⟩

/-- **counter-example (iii)**: adjacent segments li = 1, ui = 2 sharing the point 20, which is near both wall points 19 and 21:
    it is replaced by 19, then by 21; startInd = endInd = 2 and the start point is `up` -/
theorem adjacent_segments_shared_point : run true true 1 19 2 21 = some ([0, 10, 21, 30, 40], 2, 2, 2, 2) := by decide

/-- **counter-example (i)**: ui = -1 with an insertion: `ui + 1 = 0`, the wall point 45 goes to the FRONT, endInd = -1 → 40 -/
theorem upper_neg_one_insert_wrong : run false true 0 0 (-1) 45 = some ([45, 0, 10, 20, 30, 40], 1, -1, 0, -1) := by decide

/-- ui = -1, second clause: `contour[ui + 1] = contour[0]` is the FIRST point; here it is the lower wall point, which is replaced -/
theorem upper_neg_one_wraps_to_start : run true true 0 1 (-1) 2 = some ([2, 10, 20, 30, 40], 0, 0, 0, 0) := by decide

/-- **counter-example (ii)**: negative lower index with an insertion: li = -3 (→ 20), the point 25 is inserted after it but
    startInd = -2 refers to 30 -/
theorem lower_negative_insert_wrong : run true false (-3) 25 3 0 = some ([0, 10, 20, 25, 30, 40], -2, 5, -2, 3) := by decide

-- penalty mask: the square 0,0;2,0;2,2;0,2;0,0, interior point (1,1), y-faces (1,3/2) inside and (1,5/2) outside → (1/2)² = 1/4
example : maskSq (1 / 1000000000000000) (1 / 100000000000000) C20.square ⟨1, 1⟩ ⟨1, 3 / 2⟩ ⟨1, 5 / 2⟩ = 1 / 4 := by
  decide +kernel
example : maskSq (1 / 1000000000000000) (1 / 100000000000000) C20.square ⟨1, 1⟩ ⟨1, 5 / 4⟩ ⟨1, 3 / 2⟩ = 0 ∧
    maskSq (1 / 1000000000000000) (1 / 100000000000000) C20.square ⟨1, 1⟩ ⟨1, 5 / 2⟩ ⟨1, 3⟩ = 1 := by
  decide +kernel
-- hypotheses of `maskSq_range` are satisfiable: the reported crossing is (1,2) = p1 + t (p2 − p1) with t = 1/2, p2 outside
example : findIntersections (1 / 1000000000000000) (1 / 100000000000000) C20.square ⟨1, 3 / 2⟩ ⟨1, 5 / 2⟩ = [⟨1, 2⟩] ∧
    isOutside (1 / 1000000000000000) (1 / 100000000000000) C20.square ⟨1, 1⟩ ⟨1, 3 / 2⟩ = false ∧
    isOutside (1 / 1000000000000000) (1 / 100000000000000) C20.square ⟨1, 1⟩ ⟨1, 5 / 2⟩ = true := by
  decide +kernel
example : (2 : ℚ) = 3 / 2 + 1 / 2 * (5 / 2 - 3 / 2) := by norm_num

end examples

/-! ### temporaryExtend -/
/-! `PsiContour.temporaryExtend` (hypnotoad/core/equilibrium.py) adds temporary guard points in front of / behind a contour whose
`startInd` / `endInd` mark the wall points.  Model: Model/Extend.lean; the index adjustments after `prepend` / `append` are the
GENERATED tables `Gen.Contour.afterPrepend` / `afterAppend` (Gen/Contour.lean).  Helper lemmas: Lemmas/Extend.lean.
Result: `endInd` keeps its point for every valid python index (negative or not), `startInd` keeps its point iff it is
non-negative or nothing is appended (`append` does not adjust a negative `startInd`: `temporaryExtend_neg_start_moves`; the code
only ever sets a non-negative `startInd`). -/

section extend
variable {P : Type}

/-- the bookkeeping statements read from the source: this is the statement that breaks when the source changes them -/
theorem extend_tables : Gen.Contour.afterPrepend = [⟨.startInd, .ge, 0, 1⟩, ⟨.endInd, .ge, 0, 1⟩] ∧
    Gen.Contour.afterAppend = [⟨.endInd, .lt, 0, -1⟩] := by decide

theorem prependStep_pts (c : Contour P) (p : P) : (c.prependStep p).pts = p :: c.pts := by rw [prependStep_eq]
theorem appendStep_pts (c : Contour P) (p : P) : (c.appendStep p).pts = c.pts ++ [p] := by rw [appendStep_eq]

/-- the accepted lower candidates end up in front (the last one tried first), the accepted upper ones behind -/
theorem temporaryExtend_pts (c : Contour P) (inRange : P → Bool) (lows ups : List P) :
    (c.temporaryExtend inRange lows ups).pts = (accepted inRange lows).reverse ++ c.pts ++ accepted inRange ups := by
  rw [temporaryExtend_eq]

theorem temporaryExtend_length (c : Contour P) (inRange : P → Bool) (lows ups : List P) :
    (c.temporaryExtend inRange lows ups).pts.length =
      (accepted inRange lows).length + c.pts.length + (accepted inRange ups).length := by
  rw [temporaryExtend_pts]; simp only [List.length_append, List.length_reverse]

/-- `endInd` refers to the same POSITION of the original contour, shifted by the number of points put in front — for any valid
    python index, negative or not -/
theorem temporaryExtend_end_position (c : Contour P) (inRange : P → Bool) (lows ups : List P) {k : Nat}
    (h : PyIdx c.pts.length c.endInd k) :
    PyIdx (c.temporaryExtend inRange lows ups).pts.length (c.temporaryExtend inRange lows ups).endInd
      (k + (accepted inRange lows).length) := by
  rw [temporaryExtend_length, temporaryExtend_eq]
  exact h.extend _ _

/-- … hence to the same point -/
theorem temporaryExtend_keeps_end (c : Contour P) (inRange : P → Bool) (lows ups : List P) {k : Nat}
    (h : PyIdx c.pts.length c.endInd k) :
    pyGet (c.temporaryExtend inRange lows ups).pts (c.temporaryExtend inRange lows ups).endInd = pyGet c.pts c.endInd := by
  rw [pyGet_of_idx (temporaryExtend_end_position c inRange lows ups h), pyGet_of_idx h, temporaryExtend_pts,
    ← List.length_reverse (as := accepted inRange lows), getElem?_extend _ _ _ _ h.1]

/-- a non-negative `startInd` refers to the same position, shifted -/
theorem temporaryExtend_start_position (c : Contour P) (inRange : P → Bool) (lows ups : List P)
    (h0 : 0 ≤ c.startInd) (h1 : c.startInd < c.pts.length) :
    PyIdx (c.temporaryExtend inRange lows ups).pts.length (c.temporaryExtend inRange lows ups).startInd
      (c.startInd.toNat + (accepted inRange lows).length) := by
  rw [temporaryExtend_length, temporaryExtend_eq]
  exact PyIdx.extend_nonneg _ _ h0 ⟨by omega, Or.inl (by omega)⟩

/-- … hence to the same point (the code only ever uses a non-negative `startInd`) -/
theorem temporaryExtend_keeps_start (c : Contour P) (inRange : P → Bool) (lows ups : List P)
    (h0 : 0 ≤ c.startInd) (h1 : c.startInd < c.pts.length) :
    pyGet (c.temporaryExtend inRange lows ups).pts (c.temporaryExtend inRange lows ups).startInd = pyGet c.pts c.startInd := by
  have hk : PyIdx c.pts.length c.startInd c.startInd.toNat := ⟨by omega, Or.inl (by omega)⟩
  rw [pyGet_of_idx (temporaryExtend_start_position c inRange lows ups h0 h1), pyGet_of_idx hk, temporaryExtend_pts,
    ← List.length_reverse (as := accepted inRange lows), getElem?_extend _ _ _ _ hk.1]

/-- a NEGATIVE `startInd` is not adjusted by `append`: it then refers to the position `#accepted ups` places further on -/
theorem temporaryExtend_neg_start_position (c : Contour P) (inRange : P → Bool) (lows ups : List P) {k : Nat}
    (h0 : c.startInd < 0) (h : PyIdx c.pts.length c.startInd k) :
    PyIdx (c.temporaryExtend inRange lows ups).pts.length (c.temporaryExtend inRange lows ups).startInd
      (k + (accepted inRange lows).length + (accepted inRange ups).length) := by
  rw [temporaryExtend_length, temporaryExtend_eq]
  exact h.extend_neg_unadjusted _ _ h0

/-- **the hypothesis `0 ≤ c.startInd` of `temporaryExtend_keeps_start` is necessary**: contour 10, 20, 30 with startInd = -3 (→ 10),
    one accepted upper candidate 40: the contour is 10, 20, 30, 40, startInd is still -3 and refers to 20 -/
theorem temporaryExtend_neg_start_moves :
    let c : Contour Nat := ⟨[10, 20, 30], -3, -1⟩
    let c' := c.temporaryExtend (fun _ => true) [] [40]
    pyGet c.pts c.startInd = some 10 ∧ c'.pts = [10, 20, 30, 40] ∧ c'.startInd = -3 ∧ pyGet c'.pts c'.startInd = some 20 ∧
      pyGet c'.pts c'.endInd = pyGet c.pts c.endInd := by
  decide

/-- nothing is added when the first candidate of each loop is outside the R–Z range (or there is none): the contour is unchanged -/
theorem temporaryExtend_out_of_range (c : Contour P) (inRange : P → Bool) (lows ups : List P)
    (hl : ∀ l ∈ lows.head?, inRange l = false) (hu : ∀ u ∈ ups.head?, inRange u = false) :
    c.temporaryExtend inRange lows ups = c := by
  unfold Contour.temporaryExtend
  rw [accepted_nil_of_head inRange lows hl, accepted_nil_of_head inRange ups hu]
  rfl

/-- the domain between the two targets is not inverted: the positions after the extension are the old ones shifted by the same
    amount, so start ≤ end is kept (positions are unique: `PyIdx.unique`) -/
theorem temporaryExtend_order (c : Contour P) (inRange : P → Bool) (lows ups : List P) {ks ke : Nat}
    (hs : PyIdx c.pts.length c.startInd ks) (he : PyIdx c.pts.length c.endInd ke) (hle : ks ≤ ke) (h0 : 0 ≤ c.startInd) :
    ∃ ks' ke', PyIdx (c.temporaryExtend inRange lows ups).pts.length (c.temporaryExtend inRange lows ups).startInd ks' ∧
      PyIdx (c.temporaryExtend inRange lows ups).pts.length (c.temporaryExtend inRange lows ups).endInd ke' ∧ ks' ≤ ke' ∧
      ks' = ks + (accepted inRange lows).length ∧ ke' = ke + (accepted inRange lows).length := by
  refine ⟨ks + (accepted inRange lows).length, ke + (accepted inRange lows).length, ?_,
    temporaryExtend_end_position c inRange lows ups he, by omega, rfl, rfl⟩
  rw [temporaryExtend_length, temporaryExtend_eq]
  exact PyIdx.extend_nonneg _ _ h0 hs

/-- the same, for whatever positions the new indices refer to -/
theorem temporaryExtend_order' (c : Contour P) (inRange : P → Bool) (lows ups : List P) {ks ke ks' ke' : Nat}
    (hs : PyIdx c.pts.length c.startInd ks) (he : PyIdx c.pts.length c.endInd ke) (hle : ks ≤ ke) (h0 : 0 ≤ c.startInd)
    (hs' : PyIdx (c.temporaryExtend inRange lows ups).pts.length (c.temporaryExtend inRange lows ups).startInd ks')
    (he' : PyIdx (c.temporaryExtend inRange lows ups).pts.length (c.temporaryExtend inRange lows ups).endInd ke') : ks' ≤ ke' := by
  obtain ⟨a, b, ha, hb, hab, _, _⟩ := temporaryExtend_order c inRange lows ups hs he hle h0
  rw [hs'.unique ha, he'.unique hb]; exact hab

/-- **seeded regression** "appending does not move any existing point, so endInd stays": contour 10, 20, 30 with endInd = -1 (→ 30);
    after appending 40 without the adjustment endInd = -1 refers to 40; the real step makes it -2 (→ 30) -/
theorem appendStep_without_adjust_moves_end :
    let c : Contour Nat := ⟨[10, 20, 30], 0, -1⟩
    pyGet c.pts c.endInd = some 30 ∧ pyGet (c.appendStepNoAdjust 40).pts (c.appendStepNoAdjust 40).endInd = some 40 ∧
      pyGet (c.appendStep 40).pts (c.appendStep 40).endInd = some 30 := by
  decide

/-- generally: without the adjustment a negative `endInd` refers to the NEXT position after an `append` -/
theorem appendStep_without_adjust_next_position (c : Contour P) (p : P) {k : Nat} (h0 : c.endInd < 0)
    (h : PyIdx c.pts.length c.endInd k) :
    PyIdx (c.appendStepNoAdjust p).pts.length (c.appendStepNoAdjust p).endInd (k + 1) :=
  appendStepNoAdjust_next c p h0 h

/-- the arithmetic core of the same statement -/
theorem pyIdx_neg_after_append {n : Nat} {i : Int} {k : Nat} (h0 : i < 0) (h : PyIdx n i k) : PyIdx (n + 1) i (k + 1) := by
  obtain ⟨h1, h2 | h2⟩ := h
  · omega
  · exact ⟨by omega, Or.inr (by push_cast; omega)⟩

/-- … whereas the real `appendStep` keeps the position, for any valid index -/
theorem appendStep_end_position (c : Contour P) (p : P) {k : Nat} (h : PyIdx c.pts.length c.endInd k) :
    PyIdx (c.appendStep p).pts.length (c.appendStep p).endInd k := by
  rw [appendStep_eq]
  obtain ⟨h1, h2 | h2⟩ := h
  · simp only [List.length_append, List.length_cons, List.length_nil]
    rw [if_neg (by omega)]; exact ⟨by omega, Or.inl h2⟩
  · simp only [List.length_append, List.length_cons, List.length_nil]
    rw [if_pos (by omega)]; exact ⟨by omega, Or.inr (by push_cast; omega)⟩

section extendExamples
/-- contour 10 … 40, startInd = 1 (→ 20), endInd = -2 (→ 30); R–Z range: `< 100`; lower candidates 9, 8 accepted, 200 rejected (7 never
    tried); upper candidates 41, 42 accepted, 300 rejected -/
private def cE : Contour Nat := ⟨[10, 20, 30, 40], 1, -2⟩
private def inR : Nat → Bool := fun x => decide (x < 100)

example : (cE.temporaryExtend inR [9, 8, 200, 7] [41, 42, 300, 43]).pts = [8, 9, 10, 20, 30, 40, 41, 42] ∧
    (cE.temporaryExtend inR [9, 8, 200, 7] [41, 42, 300, 43]).startInd = 3 ∧
    (cE.temporaryExtend inR [9, 8, 200, 7] [41, 42, 300, 43]).endInd = -4 ∧
    accepted inR [9, 8, 200, 7] = [9, 8] ∧ accepted inR [41, 42, 300, 43] = [41, 42] := by decide
-- theorems 4 and 5 instantiated (hypotheses satisfiable), and their conclusions evaluated
example : pyGet (cE.temporaryExtend inR [9, 8, 200, 7] [41, 42, 300, 43]).pts
    (cE.temporaryExtend inR [9, 8, 200, 7] [41, 42, 300, 43]).endInd = pyGet cE.pts cE.endInd :=
  temporaryExtend_keeps_end cE inR _ _ (k := 2) ⟨by decide, Or.inr (by decide)⟩
example : PyIdx (cE.temporaryExtend inR [9, 8, 200, 7] [41, 42, 300, 43]).pts.length
    (cE.temporaryExtend inR [9, 8, 200, 7] [41, 42, 300, 43]).endInd (2 + 2) :=
  temporaryExtend_end_position cE inR _ _ (k := 2) ⟨by decide, Or.inr (by decide)⟩
example : pyGet (cE.temporaryExtend inR [9, 8, 200, 7] [41, 42, 300, 43]).pts
    (cE.temporaryExtend inR [9, 8, 200, 7] [41, 42, 300, 43]).startInd = pyGet cE.pts cE.startInd :=
  temporaryExtend_keeps_start cE inR _ _ (by decide) (by decide)
example : pyGet (cE.temporaryExtend inR [9, 8, 200, 7] [41, 42, 300, 43]).pts
    (cE.temporaryExtend inR [9, 8, 200, 7] [41, 42, 300, 43]).endInd = some 30 ∧
    pyGet (cE.temporaryExtend inR [9, 8, 200, 7] [41, 42, 300, 43]).pts
    (cE.temporaryExtend inR [9, 8, 200, 7] [41, 42, 300, 43]).startInd = some 20 := by decide
example :=
  temporaryExtend_order cE inR [9, 8, 200, 7] [41, 42, 300, 43] (ks := 1) (ke := 2) ⟨by decide, Or.inl (by decide)⟩
    ⟨by decide, Or.inr (by decide)⟩ (by decide) (by decide)
-- out of range at once: unchanged
example : cE.temporaryExtend inR [200, 9] [] = cE :=
  temporaryExtend_out_of_range cE inR _ _ (by decide) (by decide)
end extendExamples

end extend

end HypnoModel.Props.C11
