/-
C18 — the derived fields of `Equilibrium` (`Bzeta, B2, dBzetadR, dBzetadZ, dBRdR, dBRdZ, dBZdR, dBZdZ, dB2dR, dB2dZ,
dBdR, dBdZ`; hypnotoad/core/equilibrium.py), `f_R, f_Z, Bp_R, Bp_Z` of `magneticFunctionsFromGrid` and
`TokamakEquilibrium.fpol/fpolprime` (hypnotoad/cases/tokamak.py) are the derivatives of ONE interpolant.
Definitions: HypnoModel/Gen/Fields.lean (GENERATED from the Python on every run, namespace `Gen.R.Fields`); every
helper is an algebraic expression of the nine point values `(R Z BR BZ f fp pRR pZZ pRZ)`.  Hand-written analytic
fields (`BRf, BZf, Bzetaf, B2f`) and calculus cores: HypnoModel/Lemmas/Fields.lean.  This file: property theorems.

Setting: `psi` with partial-derivative functions `psiR psiZ psiRR psiZZ psiRZ` (ONE mixed derivative, used both for
∂Z psiR and ∂R psiZ) and `fpolF` with derivative `fpolF'`; all differentiability hypotheses are explicit `HasDerivAt`
hypotheses AT THE POINT (R, Z), and each theorem lists only the ones it uses.  `PT[g]` is the generated expression `g`
applied to the point values at (R, Z):
  BR = BRf = psiZ/R, BZ = BZf = −psiR/R, f = fpolF (psi R Z), fp = fpolF' (psi R Z), pRR = psiRR R Z, ….
-/
import HypnoModel.Gen.Fields
import HypnoModel.Lemmas.Fields

namespace HypnoModel.Props.C18
open Real Gen.R.Fields FieldsLemmas

section analytic
variable {psi psiR psiZ psiRR psiZZ psiRZ : ℝ → ℝ → ℝ} {fpolF fpolF' : ℝ → ℝ} {R Z : ℝ}

/-- a generated nine-argument expression applied to the point values of the analytic fields at (R, Z) -/
local notation "PT[" g "]" =>
  g R Z (BRf psiZ R Z) (BZf psiR R Z) (fpolF (psi R Z)) (fpolF' (psi R Z)) (psiRR R Z) (psiZZ R Z) (psiRZ R Z)

/-! ## 1. dBRdR, dBRdZ, dBZdR, dBZdZ are the partial derivatives of Bp_R = psiZ/R, Bp_Z = −psiR/R -/

theorem dBRdR_hasDerivAt (hR : R ≠ 0) (hZR : HasDerivAt (fun r => psiZ r Z) (psiRZ R Z) R) :
    HasDerivAt (fun r => BRf psiZ r Z) (PT[dBRdR]) R :=
  (hasDerivAt_div_id hZR hR).congr_deriv (by unfold dBRdR BRf; ring)

theorem dBRdZ_hasDerivAt (hZZ : HasDerivAt (fun z => psiZ R z) (psiZZ R Z) Z) :
    HasDerivAt (fun z => BRf psiZ R z) (PT[dBRdZ]) Z :=
  (hZZ.div_const R).congr_deriv (by unfold dBRdZ; ring)

theorem dBZdR_hasDerivAt (hR : R ≠ 0) (hRR : HasDerivAt (fun r => psiR r Z) (psiRR R Z) R) :
    HasDerivAt (fun r => BZf psiR r Z) (PT[dBZdR]) R :=
  (hasDerivAt_div_id hRR.fun_neg hR).congr_deriv (by unfold dBZdR BZf; ring)

theorem dBZdZ_hasDerivAt (hRZ : HasDerivAt (fun z => psiR R z) (psiRZ R Z) Z) :
    HasDerivAt (fun z => BZf psiR R z) (PT[dBZdZ]) Z :=
  (hRZ.fun_neg.div_const R).congr_deriv (by unfold dBZdZ; ring)

/-- C18.1: the four generated helpers are the four partial derivatives of (Bp_R, Bp_Z); the same `psiRZ` serves as
∂Z psiR and ∂R psiZ -/
theorem helpers_are_derivatives_Bp (hR : R ≠ 0)
    (hRR : HasDerivAt (fun r => psiR r Z) (psiRR R Z) R) (hRZ : HasDerivAt (fun z => psiR R z) (psiRZ R Z) Z)
    (hZR : HasDerivAt (fun r => psiZ r Z) (psiRZ R Z) R) (hZZ : HasDerivAt (fun z => psiZ R z) (psiZZ R Z) Z) :
    HasDerivAt (fun r => BRf psiZ r Z) (PT[dBRdR]) R ∧ HasDerivAt (fun z => BRf psiZ R z) (PT[dBRdZ]) Z ∧
    HasDerivAt (fun r => BZf psiR r Z) (PT[dBZdR]) R ∧ HasDerivAt (fun z => BZf psiR R z) (PT[dBZdZ]) Z :=
  ⟨dBRdR_hasDerivAt hR hZR, dBRdZ_hasDerivAt hZZ, dBZdR_hasDerivAt hR hRR, dBZdZ_hasDerivAt hRZ⟩

/-! ## 2. Bzeta = fpol(psi)/R and its derivatives -/

theorem Bzeta_eq_field : PT[Bzeta] = Bzetaf fpolF psi R Z := by unfold Bzeta Bzetaf; ring

theorem dBzetadR_hasDerivAt (hR : R ≠ 0) (hpR : HasDerivAt (fun r => psi r Z) (psiR R Z) R)
    (hf : HasDerivAt fpolF (fpolF' (psi R Z)) (psi R Z)) :
    HasDerivAt (fun r => Bzetaf fpolF psi r Z) (PT[dBzetadR]) R := by
  have h1 : HasDerivAt (fun r => fpolF (psi r Z)) (fpolF' (psi R Z) * psiR R Z) R := hf.comp R hpR
  exact (hasDerivAt_div_id h1 hR).congr_deriv (by unfold dBzetadR BZf; fields_tac)

theorem dBzetadZ_hasDerivAt (hpZ : HasDerivAt (fun z => psi R z) (psiZ R Z) Z)
    (hf : HasDerivAt fpolF (fpolF' (psi R Z)) (psi R Z)) :
    HasDerivAt (fun z => Bzetaf fpolF psi R z) (PT[dBzetadZ]) Z := by
  have h1 : HasDerivAt (fun z => fpolF (psi R z)) (fpolF' (psi R Z) * psiZ R Z) Z := hf.comp Z hpZ
  exact (h1.div_const R).congr_deriv (by unfold dBzetadZ BRf; ring)

/-- C18.2 -/
theorem helpers_are_derivatives_Bzeta (hR : R ≠ 0)
    (hpR : HasDerivAt (fun r => psi r Z) (psiR R Z) R) (hpZ : HasDerivAt (fun z => psi R z) (psiZ R Z) Z)
    (hf : HasDerivAt fpolF (fpolF' (psi R Z)) (psi R Z)) :
    PT[Bzeta] = Bzetaf fpolF psi R Z ∧
    HasDerivAt (fun r => Bzetaf fpolF psi r Z) (PT[dBzetadR]) R ∧
    HasDerivAt (fun z => Bzetaf fpolF psi R z) (PT[dBzetadZ]) Z :=
  ⟨Bzeta_eq_field, dBzetadR_hasDerivAt hR hpR hf, dBzetadZ_hasDerivAt hpZ hf⟩

/-! ## 3. B2 = BR² + BZ² + Bzeta², dB2dR, dB2dZ, and dBdR, dBdZ for B = √B2 -/

theorem B2_eq_field : PT[B2] = B2f psi psiR psiZ fpolF R Z := by unfold B2 B2f Bzetaf; ring

theorem B2_eq_sum : PT[B2] = BRf psiZ R Z ^ 2 + BZf psiR R Z ^ 2 + (PT[Bzeta]) ^ 2 := B2_eq_Bzeta ..

theorem dB2dR_hasDerivAt (hR : R ≠ 0)
    (hpR : HasDerivAt (fun r => psi r Z) (psiR R Z) R)
    (hRR : HasDerivAt (fun r => psiR r Z) (psiRR R Z) R) (hZR : HasDerivAt (fun r => psiZ r Z) (psiRZ R Z) R)
    (hf : HasDerivAt fpolF (fpolF' (psi R Z)) (psi R Z)) :
    HasDerivAt (fun r => B2f psi psiR psiZ fpolF r Z) (PT[dB2dR]) R := by
  have h := hasDerivAt_sq3 (dBRdR_hasDerivAt (psi := psi) (psiR := psiR) (psiRR := psiRR) (psiZZ := psiZZ)
    (fpolF := fpolF) (fpolF' := fpolF') hR hZR)
    (dBZdR_hasDerivAt (psi := psi) (psiZ := psiZ) (psiZZ := psiZZ) (psiRZ := psiRZ)
      (fpolF := fpolF) (fpolF' := fpolF') hR hRR)
    (dBzetadR_hasDerivAt (psiZ := psiZ) (psiRR := psiRR) (psiZZ := psiZZ) (psiRZ := psiRZ) hR hpR hf)
  exact h.congr_deriv (by rw [dB2dR_eq, Bzeta_eq_field])

theorem dB2dZ_hasDerivAt
    (hpZ : HasDerivAt (fun z => psi R z) (psiZ R Z) Z)
    (hRZ : HasDerivAt (fun z => psiR R z) (psiRZ R Z) Z) (hZZ : HasDerivAt (fun z => psiZ R z) (psiZZ R Z) Z)
    (hf : HasDerivAt fpolF (fpolF' (psi R Z)) (psi R Z)) :
    HasDerivAt (fun z => B2f psi psiR psiZ fpolF R z) (PT[dB2dZ]) Z := by
  have h := hasDerivAt_sq3 (dBRdZ_hasDerivAt (psi := psi) (psiR := psiR) (psiRR := psiRR) (psiRZ := psiRZ)
    (fpolF := fpolF) (fpolF' := fpolF') hZZ)
    (dBZdZ_hasDerivAt (psi := psi) (psiZ := psiZ) (psiZZ := psiZZ) (psiRR := psiRR)
      (fpolF := fpolF) (fpolF' := fpolF') hRZ)
    (dBzetadZ_hasDerivAt (psiR := psiR) (psiRR := psiRR) (psiZZ := psiZZ) (psiRZ := psiRZ) hpZ hf)
  exact h.congr_deriv (by rw [dB2dZ_eq, Bzeta_eq_field])

/-- C18.3a -/
theorem helpers_are_derivatives_B2 (hR : R ≠ 0)
    (hpR : HasDerivAt (fun r => psi r Z) (psiR R Z) R) (hpZ : HasDerivAt (fun z => psi R z) (psiZ R Z) Z)
    (hRR : HasDerivAt (fun r => psiR r Z) (psiRR R Z) R) (hRZ : HasDerivAt (fun z => psiR R z) (psiRZ R Z) Z)
    (hZR : HasDerivAt (fun r => psiZ r Z) (psiRZ R Z) R) (hZZ : HasDerivAt (fun z => psiZ R z) (psiZZ R Z) Z)
    (hf : HasDerivAt fpolF (fpolF' (psi R Z)) (psi R Z)) :
    PT[B2] = BRf psiZ R Z ^ 2 + BZf psiR R Z ^ 2 + (PT[Bzeta]) ^ 2 ∧
    PT[B2] = B2f psi psiR psiZ fpolF R Z ∧
    HasDerivAt (fun r => B2f psi psiR psiZ fpolF r Z) (PT[dB2dR]) R ∧
    HasDerivAt (fun z => B2f psi psiR psiZ fpolF R z) (PT[dB2dZ]) Z :=
  ⟨B2_eq_sum, B2_eq_field, dB2dR_hasDerivAt hR hpR hRR hZR hf, dB2dZ_hasDerivAt hpZ hRZ hZZ hf⟩

/-- C18.3b: dBdR, dBdZ are the partial derivatives of B = √B2 where B2 > 0 -/
theorem helpers_are_derivatives_B (hR : R ≠ 0) (hB : 0 < B2f psi psiR psiZ fpolF R Z)
    (hpR : HasDerivAt (fun r => psi r Z) (psiR R Z) R) (hpZ : HasDerivAt (fun z => psi R z) (psiZ R Z) Z)
    (hRR : HasDerivAt (fun r => psiR r Z) (psiRR R Z) R) (hRZ : HasDerivAt (fun z => psiR R z) (psiRZ R Z) Z)
    (hZR : HasDerivAt (fun r => psiZ r Z) (psiRZ R Z) R) (hZZ : HasDerivAt (fun z => psiZ R z) (psiZZ R Z) Z)
    (hf : HasDerivAt fpolF (fpolF' (psi R Z)) (psi R Z)) :
    HasDerivAt (fun r => Real.sqrt (B2f psi psiR psiZ fpolF r Z)) (PT[dBdR]) R ∧
    HasDerivAt (fun z => Real.sqrt (B2f psi psiR psiZ fpolF R z)) (PT[dBdZ]) Z := by
  constructor
  · exact ((dB2dR_hasDerivAt hR hpR hRR hZR hf).sqrt (ne_of_gt hB)).congr_deriv
      (by rw [dBdR_eq, B2_eq_field])
  · exact ((dB2dZ_hasDerivAt hpZ hRZ hZZ hf).sqrt (ne_of_gt hB)).congr_deriv
      (by rw [dBdZ_eq, B2_eq_field])

/-! ## 4. div B = 0: (1/R) ∂(R B_R)/∂R + ∂B_Z/∂Z = 0, because both use the same mixed derivative -/

/-- C18.4 -/
theorem divB_zero (hR : R ≠ 0)
    (hRZ : HasDerivAt (fun z => psiR R z) (psiRZ R Z) Z) (hZR : HasDerivAt (fun r => psiZ r Z) (psiRZ R Z) R) :
    HasDerivAt (fun r => r * BRf psiZ r Z) (BRf psiZ R Z + R * PT[dBRdR]) R ∧
    HasDerivAt (fun z => BZf psiR R z) (PT[dBZdZ]) Z ∧
    1 / R * (BRf psiZ R Z + R * PT[dBRdR]) + PT[dBZdZ] = 0 := by
  refine ⟨hasDerivAt_id_mul (dBRdR_hasDerivAt hR hZR), dBZdZ_hasDerivAt hRZ, ?_⟩
  unfold dBRdR dBZdZ
  fields_tac

end analytic

/-- the analytic hypotheses are satisfiable: psi = R² Z, fpol(p) = 1 + p, at every point with R ≠ 0 (and B2 > 0 there) -/
theorem hyps_satisfiable : ∃ (psi psiR psiZ psiRR psiZZ psiRZ : ℝ → ℝ → ℝ) (fpolF fpolF' : ℝ → ℝ), ∀ R Z : ℝ, R ≠ 0 →
    HasDerivAt (fun r => psi r Z) (psiR R Z) R ∧ HasDerivAt (fun z => psi R z) (psiZ R Z) Z ∧
    HasDerivAt (fun r => psiR r Z) (psiRR R Z) R ∧ HasDerivAt (fun z => psiR R z) (psiRZ R Z) Z ∧
    HasDerivAt (fun r => psiZ r Z) (psiRZ R Z) R ∧ HasDerivAt (fun z => psiZ R z) (psiZZ R Z) Z ∧
    HasDerivAt fpolF (fpolF' (psi R Z)) (psi R Z) ∧ 0 < B2f psi psiR psiZ fpolF R Z := by
  refine ⟨fun R Z => R ^ 2 * Z, fun R Z => 2 * R * Z, fun R _ => R ^ 2, fun _ Z => 2 * Z, fun _ _ => 0,
    fun R _ => 2 * R, fun p => 1 + p, fun _ => 1, ?_⟩
  intro R Z hR
  refine ⟨?_, ?_, ?_, ?_, ?_, ?_, ?_, ?_⟩
  · exact ((hasDerivAt_pow 2 R).mul_const Z).congr_deriv (by simp)
  · exact ((hasDerivAt_id' Z).const_mul (R ^ 2)).congr_deriv (by simp)
  · exact (((hasDerivAt_id' R).const_mul 2).mul_const Z).congr_deriv (by simp)
  · exact ((hasDerivAt_id' Z).const_mul (2 * R)).congr_deriv (by simp)
  · exact (hasDerivAt_pow 2 R).congr_deriv (by simp)
  · exact hasDerivAt_const Z (R ^ 2)
  · exact (hasDerivAt_id' (R ^ 2 * Z)).const_add 1
  · unfold B2f BRf BZf Bzetaf
    have h1 : 0 < (R ^ 2 / R) ^ 2 := by
      have : R ^ 2 / R ≠ 0 := div_ne_zero (pow_ne_zero 2 hR) hR
      positivity
    positivity

/-! ## 5. f_R, f_Z, Bp_R, Bp_Z of `magneticFunctionsFromGrid` -/

/-- `numpy.clip` is the identity inside the bounding box -/
theorem clip_identity_inside {lo hi x : ℝ} (h1 : lo ≤ x) (h2 : x ≤ hi) : min hi (max lo x) = x := clip_id h1 h2

/-- spline branch, any point: (f_R, f_Z) is Grad psi/|Grad psi|² of the interpolant AT THE CLIPPED POINT -/
theorem f_dot_grad_spline_clipped (D01 D10 : ℝ → ℝ → ℝ) (R Z loR hiR loZ hiZ : ℝ)
    (hg : D10 (min hiR (max loR R)) (min hiZ (max loZ Z)) ^ 2
      + D01 (min hiR (max loR R)) (min hiZ (max loZ Z)) ^ 2 ≠ 0) :
    spline.f_R D01 D10 R Z loR hiR loZ hiZ * D10 (min hiR (max loR R)) (min hiZ (max loZ Z))
      + spline.f_Z D01 D10 R Z loR hiR loZ hiZ * D01 (min hiR (max loR R)) (min hiZ (max loZ Z)) = 1 ∧
    spline.f_R D01 D10 R Z loR hiR loZ hiZ * D01 (min hiR (max loR R)) (min hiZ (max loZ Z))
      - spline.f_Z D01 D10 R Z loR hiR loZ hiZ * D10 (min hiR (max loR R)) (min hiZ (max loZ Z)) = 0 := by
  unfold spline.f_R spline.f_Z
  exact ⟨dot_grad_core hg, cross_grad_core⟩

/-- C18.5, spline branch, point inside the box -/
theorem f_dot_grad_spline (D01 D10 : ℝ → ℝ → ℝ) {R Z loR hiR loZ hiZ : ℝ}
    (h1 : loR ≤ R) (h2 : R ≤ hiR) (h3 : loZ ≤ Z) (h4 : Z ≤ hiZ) (hg : D10 R Z ^ 2 + D01 R Z ^ 2 ≠ 0) :
    spline.f_R D01 D10 R Z loR hiR loZ hiZ * D10 R Z + spline.f_Z D01 D10 R Z loR hiR loZ hiZ * D01 R Z = 1 ∧
    spline.f_R D01 D10 R Z loR hiR loZ hiZ * D01 R Z - spline.f_Z D01 D10 R Z loR hiR loZ hiZ * D10 R Z = 0 := by
  have h := f_dot_grad_spline_clipped D01 D10 R Z loR hiR loZ hiZ
  rw [clip_id h1 h2, clip_id h3 h4] at h
  exact h hg

/-- C18.5, dct branch (no clipping) -/
theorem f_dot_grad_dct (D01 D10 : ℝ → ℝ → ℝ) {R Z : ℝ} (hg : D10 R Z ^ 2 + D01 R Z ^ 2 ≠ 0) :
    dct.f_R D01 D10 R Z * D10 R Z + dct.f_Z D01 D10 R Z * D01 R Z = 1 ∧
    dct.f_R D01 D10 R Z * D01 R Z - dct.f_Z D01 D10 R Z * D10 R Z = 0 := by
  unfold dct.f_R dct.f_Z
  exact ⟨dot_grad_core hg, cross_grad_core⟩

/-- C18.5 (both branches) -/
theorem f_dot_grad (D01 D10 : ℝ → ℝ → ℝ) {R Z loR hiR loZ hiZ : ℝ}
    (h1 : loR ≤ R) (h2 : R ≤ hiR) (h3 : loZ ≤ Z) (h4 : Z ≤ hiZ) (hg : D10 R Z ^ 2 + D01 R Z ^ 2 ≠ 0) :
    (spline.f_R D01 D10 R Z loR hiR loZ hiZ * D10 R Z + spline.f_Z D01 D10 R Z loR hiR loZ hiZ * D01 R Z = 1 ∧
     spline.f_R D01 D10 R Z loR hiR loZ hiZ * D01 R Z - spline.f_Z D01 D10 R Z loR hiR loZ hiZ * D10 R Z = 0) ∧
    (dct.f_R D01 D10 R Z * D10 R Z + dct.f_Z D01 D10 R Z * D01 R Z = 1 ∧
     dct.f_R D01 D10 R Z * D01 R Z - dct.f_Z D01 D10 R Z * D10 R Z = 0) :=
  ⟨f_dot_grad_spline D01 D10 h1 h2 h3 h4 hg, f_dot_grad_dct D01 D10 hg⟩

/-- the hypotheses of `f_dot_grad` are satisfiable (D10 = 1, D01 = 0, unit box, centre point) -/
example : ∃ (D01 D10 : ℝ → ℝ → ℝ) (R Z loR hiR loZ hiZ : ℝ), loR ≤ R ∧ R ≤ hiR ∧ loZ ≤ Z ∧ Z ≤ hiZ ∧
    D10 R Z ^ 2 + D01 R Z ^ 2 ≠ 0 :=
  ⟨fun _ _ => 0, fun _ _ => 1, 1 / 2, 1 / 2, 0, 1, 0, 1, by norm_num, by norm_num, by norm_num, by norm_num,
    by norm_num⟩

/-- Bp_R = D01/R, Bp_Z = −D10/R in both branches: (Bp_R, Bp_Z) is built from the same interpolant derivatives as
(f_R, f_Z) -/
theorem Bp_from_interpolant (D01 D10 : ℝ → ℝ → ℝ) (R Z : ℝ) :
    spline.Bp_R D01 R Z = D01 R Z / R ∧ spline.Bp_Z D10 R Z = -D10 R Z / R ∧
    dct.Bp_R D01 R Z = D01 R Z / R ∧ dct.Bp_Z D10 R Z = -D10 R Z / R := by
  unfold spline.Bp_R spline.Bp_Z dct.Bp_R dct.Bp_Z
  exact ⟨rfl, rfl, rfl, rfl⟩

/-- the generated `Bp_R`, `Bp_Z` are the analytic fields `BRf`, `BZf` of items 1–4 when D01 = psiZ, D10 = psiR -/
theorem Bp_is_field (psiR psiZ : ℝ → ℝ → ℝ) (R Z : ℝ) :
    spline.Bp_R psiZ R Z = BRf psiZ R Z ∧ spline.Bp_Z psiR R Z = BZf psiR R Z ∧
    dct.Bp_R psiZ R Z = BRf psiZ R Z ∧ dct.Bp_Z psiR R Z = BZf psiR R Z := by
  unfold spline.Bp_R spline.Bp_Z dct.Bp_R dct.Bp_Z BRf BZf
  exact ⟨rfl, rfl, rfl, rfl⟩

/-! ## 6. fpolprime is the derivative of fpol, for every f_psi_sign -/

/-- C18.6: chain rule through `psi * f_psi_sign` -/
theorem fpolprime_is_derivative (f_spl f_spl' : ℝ → ℝ) (sigma p : ℝ) (h : ∀ q, HasDerivAt f_spl (f_spl' q) q) :
    HasDerivAt (fun p => tok_fpol f_spl p sigma) (tok_fpolprime f_spl' sigma p) p := by
  have h1 : HasDerivAt (fun q : ℝ => q * sigma) sigma p := hasDerivAt_mul_const sigma
  have h2 : HasDerivAt (fun q => f_spl (q * sigma)) (f_spl' (p * sigma) * sigma) p := (h (p * sigma)).comp p h1
  exact h2.congr_deriv (by unfold tok_fpolprime; ring)

/-- without the factor f_psi_sign the statement is false for f_psi_sign = −1 (f_spl = id) -/
theorem fpolprime_needs_sigma :
    ¬ ∀ (f_spl f_spl' : ℝ → ℝ) (p : ℝ), (∀ q, HasDerivAt f_spl (f_spl' q) q) →
      HasDerivAt (fun p => tok_fpol f_spl p (-1)) (f_spl' (p * (-1))) p := by
  intro H
  have h1 := H (fun q => q) (fun _ => 1) 0 (fun q => hasDerivAt_id' q)
  have h2 := fpolprime_is_derivative (fun q => q) (fun _ => 1) (-1) 0 (fun q => hasDerivAt_id' q)
  have := h1.unique h2
  unfold tok_fpolprime at this
  norm_num at this

/-! ## OPTIONAL: derivative of a HAND-WRITTEN model of `DCT_2D` (not generated from the Python) -/

/-- the R-derivative of the hand-written finite cosine sum `dctEval` (model of `DCT_2D.__call__`) is the hand-written
`dctDdR` (model of `DCT_2D.ddR`) -/
theorem dct_ddR (nR nZ : ℕ) (c : ℕ → ℕ → ℝ) (Rmin Rsize Zmin Zsize R Z : ℝ) (hR : Rsize ≠ 0)
    (hn : (nR : ℝ) - 1 ≠ 0) :
    HasDerivAt (fun r => dctEval nR nZ c Rmin Rsize Zmin Zsize r Z) (dctDdR nR nZ c Rmin Rsize Zmin Zsize R Z) R :=
  FieldsLemmas.dct_ddR_core nR nZ c Rmin Rsize Zmin Zsize R Z hR hn

end HypnoModel.Props.C18
