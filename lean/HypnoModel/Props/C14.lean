/-
C14 — reproducibility from the embedded inputs: options semantics.
Model: HypnoModel/Model/Options.lean (hand-written; `optionsfactory` as hypnotoad uses it — expression defaults are
evaluated lazily and recursively through a getter, `evalKey F s fuel`, and `create F s : Option (Dict V)` is `none` when
some key fails, e.g. on a dependency cycle — and the embedding
`options_dict = dict(eq.user_options); update(eq.nonorthogonal_options); update(mesh.user_options)` of
`BoutMesh.writeGridfile`, hypnotoad/core/mesh.py, which hypnotoad/scripts/hypnotoad_geqdsk.py later feeds to all three
factories again).  Helper lemmas: HypnoModel/Lemmas/Options.lean.  This file: property theorems only.
The keys of a factory `F` are `keys F.entries`.  In this model the evaluated value of an entry depends on its key only
(`evalKey` looks the default up by key), so distinct keys (`Nodup`) are needed only where a hypothesis speaks of a
factory ENTRY (`create_default`, `create_default_expr`), not for idempotence or the round trips.
In the three-factory statements a = `Equilibrium.user_options`, b = `Equilibrium.nonorthogonal_options`,
c = `Mesh.user_options`; the statements allow the three sets to have been evaluated from different settings
(`sa`, `sb`, `sc`), which is the situation the check in `Mesh.__init__` guards against.
-/
import HypnoModel.Model.Options
import HypnoModel.Lemmas.Options

namespace HypnoModel.Props.C14
open Options

variable {V : Type}

/-! ## 0. the evaluation function -/

/-- an explicit setting of a factory key wins, with any positive fuel -/
theorem evalKey_explicit (F : Factory V) (s : Dict V) (n : Nat) (k : String) (v : V)
    (hk : k ∈ keys F.entries) (hs : lookup s k = some v) : evalKey F s (n + 1) k = some v :=
  Options.evalKey_explicit F s n k v hk hs

/-- a key the factory does not know evaluates to nothing: this is all an expression default can see of it -/
theorem evalKey_unknown (F : Factory V) (s : Dict V) (n : Nat) (k : String) (hk : k ∉ keys F.entries) :
    evalKey F s n k = none :=
  Options.evalKey_unknown F s n k hk

/-- if every expression default of the factory is monotone in its getter (a value obtained from a getter is also
    obtained from any getter that knows more — true of expressions that just read some options and compute), then more
    fuel never changes a value already obtained.  Without monotonicity this is false (an expression may test whether a
    key is still unevaluated), which is why the statements below name the specific fuel. -/
theorem evalKey_fuel_mono (F : Factory V) (s : Dict V)
    (hF : ∀ k f, lookup F.entries k = some (Default.expr f) → ExprMonotone f)
    (n m : Nat) (k : String) (v : V) (hnm : n ≤ m) (h : evalKey F s n k = some v) : evalKey F s m k = some v :=
  evalKey_mono F s hF n m k v hnm h

/-! ## 1. the evaluated set has exactly the factory's keys -/

/-- exactly the factory's keys, in the factory's order: unknown settings are dropped, nothing is missing -/
theorem create_keys (F : Factory V) (s d : Dict V) (h : create F s = some d) : keys d = keys F.entries :=
  keys_create F s d h

/-- the evaluated set is the evaluation function with fuel `length + 1`, at every key -/
theorem create_lookup (F : Factory V) (s d : Dict V) (h : create F s = some d) (k : String) :
    lookup d k = evalKey F s (F.entries.length + 1) k :=
  lookup_create F s d h k

/-- characterisation of the result of `create` -/
theorem create_some_iff (F : Factory V) (s d : Dict V) :
    create F s = some d ↔
      keys d = keys F.entries ∧ ∀ q ∈ d, evalKey F s (F.entries.length + 1) q.1 = some q.2 :=
  create_eq_some_iff F s d

/-- `create` succeeds exactly when every key of the factory evaluates -/
theorem create_succeeds_iff (F : Factory V) (s : Dict V) :
    (create F s).isSome = true ↔
      ∀ k ∈ keys F.entries, (evalKey F s (F.entries.length + 1) k).isSome = true :=
  create_isSome_iff F s

/-! ## 2. explicit settings win, defaults fill in -/

/-- an explicit setting of a factory key is the evaluated value (distinct keys not needed) -/
theorem create_explicit_wins (F : Factory V) (s d : Dict V) (h : create F s = some d) (k : String) (v : V)
    (hk : k ∈ keys F.entries) (hs : lookup s k = some v) : lookup d k = some v :=
  lookup_create_explicit F s d h k v hs hk

/-- a key that is not set gets its constant default -/
theorem create_default (F : Factory V) (hnd : (keys F.entries).Nodup) (s d : Dict V) (h : create F s = some d)
    (k : String) (v : V) (hs : lookup s k = none) (hk : (k, Default.const v) ∈ F.entries) :
    lookup d k = some v := by
  rw [lookup_create F s d h, evalKey_const F s _ k v (lookup_of_mem_nodup hnd hk) hs]

/-- a key that is not set and has an expression default gets the expression applied to the getter "evaluate with one
    unit of fuel less" (stated for the specific fuel; see `evalKey_fuel_mono`) -/
theorem create_default_expr (F : Factory V) (hnd : (keys F.entries).Nodup) (s d : Dict V) (h : create F s = some d)
    (k : String) (f : (String → Option V) → Option V) (hs : lookup s k = none)
    (hk : (k, Default.expr f) ∈ F.entries) :
    lookup d k = f (evalKey F s F.entries.length) := by
  rw [lookup_create F s d h, evalKey_expr F s _ k f (lookup_of_mem_nodup hnd hk) hs]

/-- a key the factory does not know is absent from the evaluated set -/
theorem create_unknown_dropped (F : Factory V) (s d : Dict V) (h : create F s = some d) (k : String)
    (hk : k ∉ keys F.entries) : lookup d k = none :=
  lookup_create_none F s d h k hk

/-! ## 3. feeding the evaluated set back reproduces it -/

/-- feeding every evaluated value back as an explicit setting reproduces the same evaluated set: every key is explicit
    in the second pass, so no expression default is evaluated (in particular the second pass cannot fail).
    Distinct keys are not needed. -/
theorem create_idempotent (F : Factory V) (s d : Dict V) (h : create F s = some d) : create F d = some d :=
  create_create F s d h

/-! ## 4. unknown settings are ignored -/

/-- evaluation and `create` see the settings only through `lookup` at the factory's keys (expression defaults reach
    the other options only through the getter, which is `none` outside the factory) -/
theorem create_depends_on_factory_keys_only (F : Factory V) (s s' : Dict V)
    (h : ∀ k ∈ keys F.entries, lookup s k = lookup s' k) :
    (∀ n k, evalKey F s n k = evalKey F s' n k) ∧ create F s = create F s' :=
  ⟨evalKey_congr F s s' h, create_congr F s s' h⟩

/-- settings appended after `s` whose keys the factory does not know change nothing -/
theorem create_ignores_unknown (F : Factory V) (s extra : Dict V)
    (h : ∀ k ∈ keys extra, k ∉ keys F.entries) : create F (s ++ extra) = create F s := by
  apply create_congr
  intro k hk
  have hx : lookup extra k = none := (lookup_eq_none_iff extra k).mpr (fun hm => h k hm hk)
  rw [lookup_append, hx]
  cases lookup s k <;> rfl

/-- the same with the unknown settings in front of `s` (they cannot shadow a factory key) -/
theorem create_ignores_unknown_front (F : Factory V) (s extra : Dict V)
    (h : ∀ k ∈ keys extra, k ∉ keys F.entries) : create F (extra ++ s) = create F s := by
  apply create_congr
  intro k hk
  have hx : lookup extra k = none := (lookup_eq_none_iff extra k).mpr (fun hm => h k hm hk)
  rw [lookup_append, hx]; rfl

/-! ## 5. `dict.update` and the embedded dictionary -/

/-- in `a.update(b)` the value from b wins; no distinctness assumption is needed -/
theorem update_lookup (a b : Dict V) (k : String) :
    lookup (update a b) k = (lookup b k).orElse (fun _ => lookup a k) :=
  lookup_update a b k

/-- `update` keeps the order of a and appends the new keys of b in b's order -/
theorem update_keys (a b : Dict V) :
    keys (update a b) = keys a ++ (keys b).filter (fun k => !(keys a).contains k) :=
  keys_update a b

/-- every key of a, b, c is a key of `embed a b c` -/
theorem embed_complete (a b c : Dict V) :
    (∀ k ∈ keys a, k ∈ keys (embed a b c)) ∧ (∀ k ∈ keys b, k ∈ keys (embed a b c)) ∧
    (∀ k ∈ keys c, k ∈ keys (embed a b c)) :=
  ⟨fun k h => (mem_keys_embed a b c k).mpr (Or.inl h), fun k h => (mem_keys_embed a b c k).mpr (Or.inr (Or.inl h)),
   fun k h => (mem_keys_embed a b c k).mpr (Or.inr (Or.inr h))⟩

/-- and `embed a b c` has no other keys -/
theorem embed_keys_iff (a b c : Dict V) (k : String) :
    k ∈ keys (embed a b c) ↔ k ∈ keys a ∨ k ∈ keys b ∨ k ∈ keys c :=
  mem_keys_embed a b c k

/-- the embedded dictionary has each key once when a, b, c have -/
theorem embed_keys_nodup (a b c : Dict V) (ha : (keys a).Nodup) (hb : (keys b).Nodup) (hc : (keys c).Nodup) :
    (keys (embed a b c)).Nodup :=
  nodup_keys_embed a b c ha hb hc

/-! ## 7. (used by 6) the embedded value of a shared key is the one from the LAST dictionary -/

/-- c over b over a -/
theorem embedded_overlap_agrees_or_last_wins (a b c : Dict V) (k : String) :
    lookup (embed a b c) k = (lookup c k).orElse (fun _ => (lookup b k).orElse (fun _ => lookup a k)) :=
  lookup_embed a b c k

/-- a key of c has c's value in the embedded dictionary, whatever a and b say -/
theorem embedded_last_wins_c (a b c : Dict V) (k : String) (v : V) (hc : lookup c k = some v) :
    lookup (embed a b c) k = some v := by
  rw [lookup_embed, hc]; rfl

/-- a key of b that is not a key of c has b's value, whatever a says -/
theorem embedded_last_wins_b (a b c : Dict V) (k : String) (v : V) (hc : lookup c k = none)
    (hb : lookup b k = some v) : lookup (embed a b c) k = some v := by
  rw [lookup_embed, hc, hb]; rfl

/-- a key of a only has a's value -/
theorem embedded_only_a (a b c : Dict V) (k : String) (hc : lookup c k = none) (hb : lookup b k = none) :
    lookup (embed a b c) k = lookup a k := by
  rw [lookup_embed, hc, hb]; rfl

/-! ## 6. reloading the embedded dictionary reproduces each evaluated set -/

/-- the LAST set (c, `Mesh.user_options`) is always reproduced: no consistency hypothesis, a and b arbitrary -/
theorem cli_roundtrip_c (Fc : Factory V) (sc a b c : Dict V) (hc : create Fc sc = some c) :
    create Fc (embed a b c) = some c := by
  apply create_of_lookup_eq Fc sc c _ hc
  intro k hk
  obtain ⟨v, hv⟩ := exists_lookup_create Fc sc c hc k hk
  rw [embedded_last_wins_c _ _ _ k v hv, hv]

/-- the MIDDLE set (b, `nonorthogonal_options`) is reproduced iff b and c agree on their common keys; a arbitrary -/
theorem cli_roundtrip_b_iff (Fb Fc : Factory V) (sb sc a b c : Dict V)
    (hb : create Fb sb = some b) (hc : create Fc sc = some c) :
    create Fb (embed a b c) = some b ↔
      ∀ k, k ∈ keys Fb.entries → k ∈ keys Fc.entries → lookup b k = lookup c k := by
  constructor
  · intro h k hkb hkc
    have hE := lookup_eq_of_create_eq Fb b _
      (fun k hk => (mem_keys_embed _ _ _ k).mpr (Or.inr (Or.inl (by rw [keys_create Fb sb b hb]; exact hk)))) h k hkb
    obtain ⟨v, hv⟩ := exists_lookup_create Fc sc c hc k hkc
    rw [← hE, embedded_last_wins_c _ _ _ k v hv, hv]
  · intro hbc
    apply create_of_lookup_eq Fb sb b _ hb
    intro k hk
    obtain ⟨v, hv⟩ := exists_lookup_create Fb sb b hb k hk
    by_cases hkc : k ∈ keys Fc.entries
    · obtain ⟨w, hw⟩ := exists_lookup_create Fc sc c hc k hkc
      rw [embedded_last_wins_c _ _ _ k w hw, hbc k hk hkc, hw]
    · rw [embedded_last_wins_b _ _ _ k v (lookup_create_none Fc sc c hc k hkc) hv, hv]

/-- the FIRST set (a, `Equilibrium.user_options`) is reproduced iff a agrees with c on their common keys, and with b on
    the common keys of a and b that are not keys of c -/
theorem cli_roundtrip_a_iff (Fa Fb Fc : Factory V) (sa sb sc a b c : Dict V)
    (ha : create Fa sa = some a) (hb : create Fb sb = some b) (hc : create Fc sc = some c) :
    create Fa (embed a b c) = some a ↔
      (∀ k, k ∈ keys Fa.entries → k ∈ keys Fc.entries → lookup a k = lookup c k) ∧
      (∀ k, k ∈ keys Fa.entries → k ∈ keys Fb.entries → k ∉ keys Fc.entries → lookup a k = lookup b k) := by
  constructor
  · intro h
    have hE := lookup_eq_of_create_eq Fa a _
      (fun k hk => (mem_keys_embed _ _ _ k).mpr (Or.inl (by rw [keys_create Fa sa a ha]; exact hk))) h
    refine ⟨fun k hka hkc => ?_, fun k hka hkb hkc => ?_⟩
    · obtain ⟨v, hv⟩ := exists_lookup_create Fc sc c hc k hkc
      rw [← hE k hka, embedded_last_wins_c _ _ _ k v hv, hv]
    · obtain ⟨v, hv⟩ := exists_lookup_create Fb sb b hb k hkb
      rw [← hE k hka, embedded_last_wins_b _ _ _ k v (lookup_create_none Fc sc c hc k hkc) hv, hv]
  · rintro ⟨hac, hab⟩
    apply create_of_lookup_eq Fa sa a _ ha
    intro k hk
    by_cases hkc : k ∈ keys Fc.entries
    · obtain ⟨w, hw⟩ := exists_lookup_create Fc sc c hc k hkc
      rw [embedded_last_wins_c _ _ _ k w hw, hac k hk hkc, hw]
    · by_cases hkb : k ∈ keys Fb.entries
      · obtain ⟨w, hw⟩ := exists_lookup_create Fb sb b hb k hkb
        rw [embedded_last_wins_b _ _ _ k w (lookup_create_none Fc sc c hc k hkc) hw, hab k hk hkb hkc, hw]
      · rw [embedded_only_a _ _ _ k (lookup_create_none Fc sc c hc k hkc) (lookup_create_none Fb sb b hb k hkb)]

/-- Three factories evaluated on the same user settings `s` (successfully: a, b, c); if any key common to two of the
    factories has the same evaluated value in both, reloading the embedded dictionary reproduces each evaluated set.
    What is used: for Fa the pairs a–c and a–b (a–b only at keys that are not keys of Fc), for Fb the pair b–c, for Fc
    nothing (see `cli_roundtrip_a_iff`, `cli_roundtrip_b_iff`, `cli_roundtrip_c`).  `Mesh.__init__` checks the pair a–c;
    in hypnotoad the keys of b are disjoint from those of a and of c (see `cli_roundtrip_options_b_disjoint`).
    Distinct keys are not needed. -/
theorem cli_roundtrip_options (Fa Fb Fc : Factory V) (s a b c : Dict V)
    (ha : create Fa s = some a) (hb : create Fb s = some b) (hc : create Fc s = some c)
    (hab : ∀ k, k ∈ keys Fa.entries → k ∈ keys Fb.entries → lookup a k = lookup b k)
    (hac : ∀ k, k ∈ keys Fa.entries → k ∈ keys Fc.entries → lookup a k = lookup c k)
    (hbc : ∀ k, k ∈ keys Fb.entries → k ∈ keys Fc.entries → lookup b k = lookup c k) :
    create Fa (embed a b c) = some a ∧ create Fb (embed a b c) = some b ∧ create Fc (embed a b c) = some c :=
  ⟨(cli_roundtrip_a_iff Fa Fb Fc s s s a b c ha hb hc).mpr ⟨hac, fun k h1 h2 _ => hab k h1 h2⟩,
   (cli_roundtrip_b_iff Fb Fc s s a b c hb hc).mpr hbc,
   cli_roundtrip_c Fc s a b c hc⟩

/-- the same with the three sets evaluated from possibly different settings (the equilibrium is created before the
    mesh, from its own settings dictionary) -/
theorem cli_roundtrip_options_settings (Fa Fb Fc : Factory V) (sa sb sc a b c : Dict V)
    (ha : create Fa sa = some a) (hb : create Fb sb = some b) (hc : create Fc sc = some c)
    (hab : ∀ k, k ∈ keys Fa.entries → k ∈ keys Fb.entries → lookup a k = lookup b k)
    (hac : ∀ k, k ∈ keys Fa.entries → k ∈ keys Fc.entries → lookup a k = lookup c k)
    (hbc : ∀ k, k ∈ keys Fb.entries → k ∈ keys Fc.entries → lookup b k = lookup c k) :
    create Fa (embed a b c) = some a ∧ create Fb (embed a b c) = some b ∧ create Fc (embed a b c) = some c :=
  ⟨(cli_roundtrip_a_iff Fa Fb Fc sa sb sc a b c ha hb hc).mpr ⟨hac, fun k h1 h2 _ => hab k h1 h2⟩,
   (cli_roundtrip_b_iff Fb Fc sb sc a b c hb hc).mpr hbc,
   cli_roundtrip_c Fc sc a b c hc⟩

/-- hypnotoad's situation: the keys of b (`nonorthogonal_options`) are disjoint from those of a and c, so the check of
    `Mesh.__init__` (a–c) is the only consistency hypothesis -/
theorem cli_roundtrip_options_b_disjoint (Fa Fb Fc : Factory V) (sa sb sc a b c : Dict V)
    (ha : create Fa sa = some a) (hb : create Fb sb = some b) (hc : create Fc sc = some c)
    (hdab : ∀ k, k ∈ keys Fa.entries → k ∉ keys Fb.entries)
    (hdbc : ∀ k, k ∈ keys Fb.entries → k ∉ keys Fc.entries)
    (hac : ∀ k, k ∈ keys Fa.entries → k ∈ keys Fc.entries → lookup a k = lookup c k) :
    create Fa (embed a b c) = some a ∧ create Fb (embed a b c) = some b ∧ create Fc (embed a b c) = some c :=
  cli_roundtrip_options_settings Fa Fb Fc sa sb sc a b c ha hb hc
    (fun k h1 h2 => absurd h2 (hdab k h1)) hac (fun k h1 h2 => absurd h2 (hdbc k h1))

/-! ## 7. (continued) without the consistency hypothesis the round trip fails -/

/-- counter-example to `cli_roundtrip_options` without `hac`: same settings (none), distinct keys in every factory,
    but a and c have different defaults for the shared key "x"; the embedded value of "x" is c's, and reloading a
    gives c's value, not a's -/
theorem cli_roundtrip_needs_consistency :
    ∃ (Fa Fb Fc : Factory Int) (s a b c : Dict Int),
      (keys Fa.entries).Nodup ∧ (keys Fb.entries).Nodup ∧ (keys Fc.entries).Nodup ∧
      create Fa s = some a ∧ create Fb s = some b ∧ create Fc s = some c ∧
      a = [("x", 1)] ∧ lookup (embed a b c) "x" = some 2 ∧
      create Fa (embed a b c) = some [("x", 2)] ∧ create Fa (embed a b c) ≠ some a :=
  ⟨⟨[("x", .const 1)]⟩, ⟨[]⟩, ⟨[("x", .const 2)]⟩, [], [("x", 1)], [], [("x", 2)],
    by decide, by decide, by decide, by decide, by decide, by decide, by decide, by decide, by decide, by decide⟩

/-- the situation the check of `Mesh.__init__` is there for: the SAME factory entry for "x" in a and c, but the setting
    of "x" changed between creating the equilibrium (sa) and the mesh (sc); reloading a gives the changed value -/
theorem cli_roundtrip_needs_consistency_settings :
    ∃ (F : Factory Int) (sa sc a c : Dict Int), (keys F.entries).Nodup ∧
      create F sa = some a ∧ create F sc = some c ∧ a = [("x", 1)] ∧
      create F (embed a [] c) = some [("x", 2)] :=
  ⟨⟨[("x", .const 1)]⟩, [], [("x", 2)], [("x", 1)], [("x", 2)], by decide, by decide, by decide, by decide, by decide⟩

/-! ## 8. concrete evaluations; the hypotheses are satisfiable -/

/-- a 3-deep chain of expression defaults, as hypnotoad's
    `nonorthogonal_xpoint_poloidal_spacing_range_inner → …_range → …_length` -/
def exChain : Factory Int :=
  ⟨[("range_inner", .expr fun get => get "range"),
    ("range", .expr fun get => (get "length").map (2 * ·)),
    ("length", .const 3),
    ("orthogonal", .const 1)]⟩

/-- nothing set: the chain is evaluated through to the constant -/
example : create exChain [] = some [("range_inner", 6), ("range", 6), ("length", 3), ("orthogonal", 1)] := by decide

/-- the end of the chain set: both dependants follow; an unknown setting is dropped -/
example : create exChain [("length", 5), ("junk", 0)]
    = some [("range_inner", 10), ("range", 10), ("length", 5), ("orthogonal", 1)] := by decide

/-- the middle of the chain set: only the first dependant follows -/
example : create exChain [("range", 7)]
    = some [("range_inner", 7), ("range", 7), ("length", 3), ("orthogonal", 1)] := by decide

/-- reloading the evaluated set reproduces it although "length" is then explicit and no longer determines "range" -/
example : create exChain [("range_inner", 7), ("range", 7), ("length", 3), ("orthogonal", 1)]
    = some [("range_inner", 7), ("range", 7), ("length", 3), ("orthogonal", 1)] := by decide

/-- a 2-cycle of expression defaults: evaluation runs out of fuel, `create` fails … -/
def exCycle : Factory Int := ⟨[("p", .expr fun get => get "q"), ("q", .expr fun get => get "p")]⟩
example : create exCycle [] = none := by decide
/-- … unless one of the two is set explicitly -/
example : create exCycle [("q", 4)] = some [("p", 4), ("q", 4)] := by decide

/-- the expression defaults of `exChain` are monotone (hypothesis of `evalKey_fuel_mono`) -/
example : ∀ k f, lookup exChain.entries k = some (Default.expr f) → ExprMonotone f := by
  intro k f h
  have hk : k ∈ keys exChain.entries := mem_keys_of_lookup h
  simp only [exChain, keys, List.map_cons, List.map_nil, List.mem_cons, List.not_mem_nil, or_false] at hk
  rcases hk with rfl | rfl | rfl | rfl
  · have hf : f = fun get => get "range" := by
      have : lookup exChain.entries "range_inner" = some (Default.expr fun get => get "range") := rfl
      rw [this] at h; injection h with h; injection h with h; exact h.symm
    subst hf; intro g g' hg v hv; exact hg _ _ hv
  · have hf : f = fun get => (get "length").map (2 * ·) := by
      have : lookup exChain.entries "range" = some (Default.expr fun get => (get "length").map (2 * ·)) := rfl
      rw [this] at h; injection h with h; injection h with h; exact h.symm
    subst hf; intro g g' hg v hv
    dsimp only at hv ⊢
    cases hl : g "length" with
    | none => rw [hl] at hv; cases hv
    | some w => rw [hl] at hv; rw [hg _ _ hl]; exact hv
  · have : lookup exChain.entries "length" = some (Default.const 3) := rfl
    rw [this] at h; injection h with h; cases h
  · have : lookup exChain.entries "orthogonal" = some (Default.const 1) := rfl
    rw [this] at h; injection h with h; cases h

/-- hypotheses of `evalKey_explicit`, `create_explicit_wins` -/
example : "length" ∈ keys exChain.entries ∧ lookup [("length", (5 : Int)), ("junk", 0)] "length" = some 5 ∧
    (create exChain [("length", 5), ("junk", 0)]).isSome = true := by decide

/-- hypotheses of `create_default`, `create_default_expr`, `create_unknown_dropped` (s = {length: 5, junk: 0}) -/
example : (keys exChain.entries).Nodup ∧ (create exChain [("length", 5), ("junk", 0)]).isSome = true ∧
    lookup [("length", (5 : Int)), ("junk", 0)] "orthogonal" = none ∧
    lookup [("length", (5 : Int)), ("junk", 0)] "range" = none ∧
    "junk" ∉ keys exChain.entries := by decide

example : ("orthogonal", Default.const 1) ∈ exChain.entries ∧
    ∃ f, ("range", Default.expr f) ∈ exChain.entries := by
  refine ⟨by simp [exChain], _, by simp only [exChain]; exact List.mem_cons_of_mem _ List.mem_cons_self⟩

/-- hypothesis of `create_ignores_unknown` / `create_ignores_unknown_front` -/
example : ∀ k ∈ keys [("junk", (3 : Int)), ("plot_mesh", 1)], k ∉ keys exChain.entries := by decide

/-- factories for `cli_roundtrip_options`: a and c share "nx" and "orthogonal" (same entries), b is disjoint -/
def exFa : Factory Int := ⟨[("nx", .const 4), ("orthogonal", .const 1), ("psi_core", .const 9)]⟩
def exFb : Factory Int := ⟨[("nonorthogonal_spacing", .const 0)]⟩
def exFc : Factory Int :=
  ⟨[("nx", .const 4), ("ny", .expr fun get => (get "nx").map (2 * ·)), ("orthogonal", .const 1)]⟩

/-- hypotheses of `cli_roundtrip_options` (and of `cli_roundtrip_options_b_disjoint`) with s = {nx: 8, junk: 3} -/
example : ∃ s a b c : Dict Int,
    create exFa s = some a ∧ create exFb s = some b ∧ create exFc s = some c ∧
    (∀ k, k ∈ keys exFa.entries → k ∈ keys exFb.entries → lookup a k = lookup b k) ∧
    (∀ k, k ∈ keys exFa.entries → k ∈ keys exFc.entries → lookup a k = lookup c k) ∧
    (∀ k, k ∈ keys exFb.entries → k ∈ keys exFc.entries → lookup b k = lookup c k) ∧
    (∀ k, k ∈ keys exFa.entries → k ∉ keys exFb.entries) ∧
    (∀ k, k ∈ keys exFb.entries → k ∉ keys exFc.entries) ∧
    embed a b c = [("nx", 8), ("orthogonal", 1), ("psi_core", 9), ("nonorthogonal_spacing", 0), ("ny", 16)] := by
  refine ⟨[("nx", 8), ("junk", 3)], [("nx", 8), ("orthogonal", 1), ("psi_core", 9)], [("nonorthogonal_spacing", 0)],
    [("nx", 8), ("ny", 16), ("orthogonal", 1)], by decide, by decide, by decide, ?_, ?_, ?_, ?_, ?_, by decide⟩
  all_goals
    intro k hk
    simp only [exFa, exFb, keys, List.map_cons, List.map_nil, List.mem_cons, List.not_mem_nil, or_false] at hk
    rcases hk with rfl | rfl | rfl <;> decide

end HypnoModel.Props.C14
