/-
C16 — equivariance under reflection in the midplane (Z ↦ −Z, lower/upper exchanged, y order reversed) and under field
reversal (psi ↦ −psi, fpol ↦ −fpol, psi ↦ psi/(2π)).
Helpers: HypnoModel/Lemmas/Mirror.lean (`mDN`, `mSN`, the finite-domain table checks).  This file: property theorems.

A. the region tables `Topology.upperSN/CDN/LDN/UDN` (tied to describeSingleNull / describeDoubleNull by the C08
   correspondence check) under the mirror: reflection exchanges lower and upper legs (`mDN`, `mSN`) and reversing y turns
   "upper neighbour" into "lower neighbour", so the mirrored table is the *inverse* relation on mirrored region numbers.
   All three relations asked for hold exactly as worded, with the SAME radial segment number s on both sides.
B. field reversal, by unfolding the GENERATED formulas Gen.R.Metric.* / Gen.R.Fields.* (must be re-checked when they change).
   NOTE (correction of the informal wording "Bp ↦ Bp [it is |Bp|]"): `Bpxy` of mesh.py is SIGNED (geometry1 negates it when
   Bp·∇y < 0, and then requires bpsign = −1), so what psi ↦ −psi does to the inputs of calcMetric is
     Bp ↦ −Bp, bpsign ↦ −bpsign, dphidy = hy·Bt/(Bp·R) ↦ −dphidy, cosBeta ↦ −cosBeta (calcBeta: ∇psi-direction flips), tanBeta fixed.
   Under THAT map J and Jcheck change sign, and so do the nonorthogonal x–y / x–z components g12, g13, g_12 (x = psi
   changes direction; each carries one factor (−bpsign)·tanBeta since the calcMetric sign fix); every other component is
   unchanged (`reversal_signs_psi`).  Under the map as worded (Bp fixed) J is unchanged, the nonorthogonal g12, g_12 change
   sign and det(g^{ij}) is not invariant (`reversal_signs_psi_absBp_*`).
C. citations of C19 (critical-point classification even in psi) and C09 (radial psi grid odd in psi).
-/
import HypnoModel.Lemmas.Mirror
import HypnoModel.Gen.Metric
import HypnoModel.Gen.Fields
import HypnoModel.Lemmas.Metric
import HypnoModel.Props.C08
import HypnoModel.Props.C09
import HypnoModel.Props.C19
import Mathlib.Analysis.SpecialFunctions.Trigonometric.Basic
import Mathlib.Tactic.FieldSimp
import Mathlib.Tactic.Ring
import Mathlib.Tactic.NormNum

namespace HypnoModel.Props.C16
open Real Topology MirrorLemmas

/-! ## A. region tables under the mirror -/

/-- lower ↔ upper disconnected double null: the upper-neighbour relation of the upper-disconnected table is the mirrored
    inverse of the lower-disconnected one, and vice versa (same radial segment s on both sides) -/
theorem mirror_ldn_udn (r r' s : Nat) (hr : r < 6) (hr' : r' < 6) (hs : s < 3) :
    (upperUDN (mDN r) s = some (mDN r') ↔ upperLDN r' s = some r) ∧
    (upperLDN (mDN r) s = some (mDN r') ↔ upperUDN r' s = some r) :=
  ⟨fin_ldn_udn ⟨r, hr⟩ ⟨r', hr'⟩ ⟨s, hs⟩, fin_udn_ldn ⟨r, hr⟩ ⟨r', hr'⟩ ⟨s, hs⟩⟩

/-- the same in "image" form: if r' is the upper neighbour of r in the lower-disconnected grid then, in the reflected
    (upper-disconnected) grid, the image of r is the upper neighbour of the image of r' -/
theorem mirror_ldn_udn_next (r r' s : Nat) (hr : r < 6) (hr' : r' < 6) (hs : s < 3) :
    (upperLDN r s = some r' → upperUDN (mDN r') s = some (mDN r)) ∧
    (upperUDN r s = some r' → upperLDN (mDN r') s = some (mDN r)) :=
  ⟨(mirror_ldn_udn r' r s hr' hr hs).1.2, (mirror_ldn_udn r' r s hr' hr hs).2.2⟩

/-- the relation has content: a lower-disconnected table is not its own mirror image -/
theorem mirror_ldn_not_self : ¬ ∀ r r' s : Nat, r < 6 → r' < 6 → s < 3 →
    (upperLDN (mDN r) s = some (mDN r') ↔ upperLDN r' s = some r) :=
  fun h => fin_ldn_not_self fun r r' s => h r.val r'.val s.val r.isLt r'.isLt s.isLt

/-- connected double null: the table is its own mirror image (an up-down symmetric double null gives a symmetric grid) -/
theorem mirror_cdn_self (r r' s : Nat) (hr : r < 6) (hr' : r' < 6) (hs : s < 2) :
    (upperCDN (mDN r) s = some (mDN r') ↔ upperCDN r' s = some r) :=
  fin_cdn_self ⟨r, hr⟩ ⟨r', hr'⟩ ⟨s, hs⟩

/-- single null: lower single null ↦ upper single null has the same table with the two legs exchanged and y reversed -/
theorem mirror_sn_self (r r' s : Nat) (hr : r < 3) (hr' : r' < 3) (hs : s < 2) :
    (upperSN (mSN r) s = some (mSN r') ↔ upperSN r' s = some r) :=
  fin_sn_self ⟨r, hr⟩ ⟨r', hr'⟩ ⟨s, hs⟩

/-- the region maps are involutions that preserve the range of region numbers -/
theorem mirror_maps_involutive :
    Function.Involutive mDN ∧ Function.Involutive mSN ∧ (∀ n, n < 6 → mDN n < 6) ∧ (∀ n, n < 3 → mSN n < 3) :=
  ⟨mDN_involutive, mSN_involutive, fun _ h => mDN_lt h, fun _ h => mSN_lt h⟩

/-- three radial segments: upper-disconnected is lower-disconnected with ixseps1 and ixseps2 exchanged -/
theorem ixseps_mirror (x0 x1 x2 sep : Nat) :
    encodeX [x0, x1, x2] sep .upper = (encodeX [x0, x1, x2] sep .lower).map Prod.swap := rfl

/-- one or two radial segments (no X-point / single null / connected double null): ixseps do not depend on the DNType -/
theorem ixseps_mirror_le2 (xs : List Nat) (sep : Nat) (dn dn' : DNType) (h : xs.length ≤ 2) :
    encodeX xs sep dn = encodeX xs sep dn' := by
  match xs, h with
  | [], _ => rfl
  | [_], _ => rfl
  | [_, _], _ => rfl
  | _ :: _ :: _ :: _, h => simp at h

/-! ## B1. psi ↦ −psi in calcMetric -/

section metric
open Gen.R.Metric MetricLemmas
variable (R Bp hy d c t s : ℝ)

/-- orth branch: the six diagonal components depend on Bp, dphidy only through squares and not at all on cosBeta, bpsign:
    unchanged under reverse_current, whichever sign convention Bp carries -/
theorem metric_reverse_current_orth (Bp' c' s' : ℝ) (hBp : Bp' = Bp ∨ Bp' = -Bp) :
    orth.g11 R Bp' hy (-d) c' t s' = orth.g11 R Bp hy d c t s ∧
    orth.g22 R Bp' hy (-d) c' t s' = orth.g22 R Bp hy d c t s ∧
    orth.g33 R Bp' hy (-d) c' t s' = orth.g33 R Bp hy d c t s ∧
    orth.g_11 R Bp' hy (-d) c' t s' = orth.g_11 R Bp hy d c t s ∧
    orth.g_22 R Bp' hy (-d) c' t s' = orth.g_22 R Bp hy d c t s ∧
    orth.g_33 R Bp' hy (-d) c' t s' = orth.g_33 R Bp hy d c t s := by
  unfold orth.g11 orth.g22 orth.g33 orth.g_11 orth.g_22 orth.g_33
  rcases hBp with rfl | rfl
  · refine ⟨rfl, rfl, by ring, rfl, by ring, rfl⟩
  · refine ⟨by ring, rfl, by ring, by ring, by ring, rfl⟩

/-- nonorth branch: the six diagonal components depend on Bp, dphidy, cosBeta only through squares and not on bpsign -/
theorem metric_reverse_current_nonorth (Bp' c' s' : ℝ) (hBp : Bp' = Bp ∨ Bp' = -Bp) (hc : c' = c ∨ c' = -c) :
    nonorth.g11 R Bp' hy (-d) c' t s' = nonorth.g11 R Bp hy d c t s ∧
    nonorth.g22 R Bp' hy (-d) c' t s' = nonorth.g22 R Bp hy d c t s ∧
    nonorth.g33 R Bp' hy (-d) c' t s' = nonorth.g33 R Bp hy d c t s ∧
    nonorth.g_11 R Bp' hy (-d) c' t s' = nonorth.g_11 R Bp hy d c t s ∧
    nonorth.g_22 R Bp' hy (-d) c' t s' = nonorth.g_22 R Bp hy d c t s ∧
    nonorth.g_33 R Bp' hy (-d) c' t s' = nonorth.g_33 R Bp hy d c t s := by
  unfold nonorth.g11 nonorth.g22 nonorth.g33 nonorth.g_11 nonorth.g_22 nonorth.g_33
  rcases hBp with rfl | rfl <;> rcases hc with rfl | rfl <;>
    exact ⟨by ring, by ring, by ring, by ring, by ring, rfl⟩

/-- orth branch, the map the code applies (Bp ↦ −Bp, dphidy ↦ −dphidy, cosBeta ↦ −cosBeta, bpsign ↦ −bpsign):
    all off-diagonal components unchanged; J and Jcheck change sign -/
theorem reversal_signs_psi_orth :
    orth.g12 R (-Bp) hy (-d) (-c) t (-s) = orth.g12 R Bp hy d c t s ∧
    orth.g13 R (-Bp) hy (-d) (-c) t (-s) = orth.g13 R Bp hy d c t s ∧
    orth.g23 R (-Bp) hy (-d) (-c) t (-s) = orth.g23 R Bp hy d c t s ∧
    orth.g_12 R (-Bp) hy (-d) (-c) t (-s) = orth.g_12 R Bp hy d c t s ∧
    orth.g_13 R (-Bp) hy (-d) (-c) t (-s) = orth.g_13 R Bp hy d c t s ∧
    orth.g_23 R (-Bp) hy (-d) (-c) t (-s) = orth.g_23 R Bp hy d c t s ∧
    orth.J R (-Bp) hy (-d) (-c) t (-s) = - orth.J R Bp hy d c t s ∧
    orth.Jcheck R (-Bp) hy (-d) (-c) t (-s) = - orth.Jcheck R Bp hy d c t s := by
  refine ⟨rfl, by unfold orth.g13; ring, by unfold orth.g23; ring, by unfold orth.g_12; ring, rfl,
    by unfold orth.g_23; ring, by unfold orth.J; ring, ?_⟩
  unfold orth.Jcheck
  rw [← neg_div]
  exact div_sqrt_congr (by ring) (by ring)

/-- nonorth branch, the map the code applies (tanBeta, the geometric angle of calcBeta, fixed): the x–y and x–z components
    g12, g13, g_12 change sign (x = psi changes direction; each carries one factor (−bpsign)·tanBeta), g23, g_13 (≡ 0),
    g_23 are unchanged; J and Jcheck change sign (det(g^{ij}) is invariant: g12·g13·g23 is odd·odd·even) -/
theorem reversal_signs_psi_nonorth :
    nonorth.g12 R (-Bp) hy (-d) (-c) t (-s) = - nonorth.g12 R Bp hy d c t s ∧
    nonorth.g13 R (-Bp) hy (-d) (-c) t (-s) = - nonorth.g13 R Bp hy d c t s ∧
    nonorth.g23 R (-Bp) hy (-d) (-c) t (-s) = nonorth.g23 R Bp hy d c t s ∧
    nonorth.g_12 R (-Bp) hy (-d) (-c) t (-s) = - nonorth.g_12 R Bp hy d c t s ∧
    nonorth.g_13 R (-Bp) hy (-d) (-c) t (-s) = nonorth.g_13 R Bp hy d c t s ∧
    nonorth.g_23 R (-Bp) hy (-d) (-c) t (-s) = nonorth.g_23 R Bp hy d c t s ∧
    nonorth.J R (-Bp) hy (-d) (-c) t (-s) = - nonorth.J R Bp hy d c t s ∧
    nonorth.Jcheck R (-Bp) hy (-d) (-c) t (-s) = - nonorth.Jcheck R Bp hy d c t s := by
  refine ⟨by unfold nonorth.g12; rw [abs_neg]; ring, by unfold nonorth.g13; ring,
    by unfold nonorth.g23; rw [abs_neg]; ring, by unfold nonorth.g_12; rw [abs_neg]; ring, rfl, by unfold nonorth.g_23; ring, by unfold nonorth.J; ring, ?_⟩
  unfold nonorth.Jcheck
  rw [← neg_div, abs_neg]
  exact div_sqrt_congr (by ring) (by ring)

/-- the table for psi ↦ −psi (reverse_current), both branches: under the map the code applies to the inputs of calcMetric
    what changes sign is J (and the Jacobian check value Jcheck, which is compared with J) and, on the nonorth branch, the
    x–y / x–z components g12, g13, g_12 (identically 0 on the orth branch); everything else is unchanged -/
theorem reversal_signs_psi :
    (orth.g12 R (-Bp) hy (-d) (-c) t (-s) = orth.g12 R Bp hy d c t s ∧
     orth.g13 R (-Bp) hy (-d) (-c) t (-s) = orth.g13 R Bp hy d c t s ∧
     orth.g23 R (-Bp) hy (-d) (-c) t (-s) = orth.g23 R Bp hy d c t s ∧
     orth.g_12 R (-Bp) hy (-d) (-c) t (-s) = orth.g_12 R Bp hy d c t s ∧
     orth.g_13 R (-Bp) hy (-d) (-c) t (-s) = orth.g_13 R Bp hy d c t s ∧
     orth.g_23 R (-Bp) hy (-d) (-c) t (-s) = orth.g_23 R Bp hy d c t s ∧
     orth.J R (-Bp) hy (-d) (-c) t (-s) = - orth.J R Bp hy d c t s ∧
     orth.Jcheck R (-Bp) hy (-d) (-c) t (-s) = - orth.Jcheck R Bp hy d c t s) ∧
    (nonorth.g12 R (-Bp) hy (-d) (-c) t (-s) = - nonorth.g12 R Bp hy d c t s ∧
     nonorth.g13 R (-Bp) hy (-d) (-c) t (-s) = - nonorth.g13 R Bp hy d c t s ∧
     nonorth.g23 R (-Bp) hy (-d) (-c) t (-s) = nonorth.g23 R Bp hy d c t s ∧
     nonorth.g_12 R (-Bp) hy (-d) (-c) t (-s) = - nonorth.g_12 R Bp hy d c t s ∧
     nonorth.g_13 R (-Bp) hy (-d) (-c) t (-s) = nonorth.g_13 R Bp hy d c t s ∧
     nonorth.g_23 R (-Bp) hy (-d) (-c) t (-s) = nonorth.g_23 R Bp hy d c t s ∧
     nonorth.J R (-Bp) hy (-d) (-c) t (-s) = - nonorth.J R Bp hy d c t s ∧
     nonorth.Jcheck R (-Bp) hy (-d) (-c) t (-s) = - nonorth.Jcheck R Bp hy d c t s) :=
  ⟨reversal_signs_psi_orth R Bp hy d c t s, reversal_signs_psi_nonorth R Bp hy d c t s⟩

/-- orth branch, the map as worded in the property (Bp kept as a magnitude; only bpsign ↦ −bpsign, dphidy ↦ −dphidy):
    every component and J unchanged, Jcheck changes sign -/
theorem reversal_signs_psi_absBp_orth :
    orth.g12 R Bp hy (-d) c t (-s) = orth.g12 R Bp hy d c t s ∧
    orth.g13 R Bp hy (-d) c t (-s) = orth.g13 R Bp hy d c t s ∧
    orth.g23 R Bp hy (-d) c t (-s) = orth.g23 R Bp hy d c t s ∧
    orth.g_12 R Bp hy (-d) c t (-s) = orth.g_12 R Bp hy d c t s ∧
    orth.g_13 R Bp hy (-d) c t (-s) = orth.g_13 R Bp hy d c t s ∧
    orth.g_23 R Bp hy (-d) c t (-s) = orth.g_23 R Bp hy d c t s ∧
    orth.J R Bp hy (-d) c t (-s) = orth.J R Bp hy d c t s ∧
    orth.Jcheck R Bp hy (-d) c t (-s) = - orth.Jcheck R Bp hy d c t s := by
  refine ⟨rfl, rfl, by unfold orth.g23; ring, by unfold orth.g_12; ring, rfl, by unfold orth.g_23; ring, rfl, ?_⟩
  unfold orth.Jcheck
  rw [← neg_div]
  exact div_sqrt_congr (by ring) (by ring)

/-- nonorth branch, the map as worded (Bp fixed): g12 = −bpsign·R·|Bp|·tanBeta/hy and g_12 change sign; g13 =
    bpsign·R·Bp·dphidy·tanBeta/hy (odd·odd), everything else and J are unchanged; the determinant under the square root
    of Jcheck is NOT invariant (it changes by −4·g12·g13·g23), which is how one sees that Bp fixed is not the map the code
    applies -/
theorem reversal_signs_psi_absBp_nonorth :
    nonorth.g12 R Bp hy (-d) c t (-s) = - nonorth.g12 R Bp hy d c t s ∧
    nonorth.g13 R Bp hy (-d) c t (-s) = nonorth.g13 R Bp hy d c t s ∧
    nonorth.g23 R Bp hy (-d) c t (-s) = nonorth.g23 R Bp hy d c t s ∧
    nonorth.g_12 R Bp hy (-d) c t (-s) = - nonorth.g_12 R Bp hy d c t s ∧
    nonorth.g_13 R Bp hy (-d) c t (-s) = nonorth.g_13 R Bp hy d c t s ∧
    nonorth.g_23 R Bp hy (-d) c t (-s) = nonorth.g_23 R Bp hy d c t s ∧
    nonorth.J R Bp hy (-d) c t (-s) = nonorth.J R Bp hy d c t s ∧
    det3 (nonorth.g11 R Bp hy (-d) c t (-s)) (nonorth.g22 R Bp hy (-d) c t (-s)) (nonorth.g33 R Bp hy (-d) c t (-s))
        (nonorth.g12 R Bp hy (-d) c t (-s)) (nonorth.g13 R Bp hy (-d) c t (-s)) (nonorth.g23 R Bp hy (-d) c t (-s)) =
      det3 (nonorth.g11 R Bp hy d c t s) (nonorth.g22 R Bp hy d c t s) (nonorth.g33 R Bp hy d c t s)
        (nonorth.g12 R Bp hy d c t s) (nonorth.g13 R Bp hy d c t s) (nonorth.g23 R Bp hy d c t s)
      - 4 * nonorth.g12 R Bp hy d c t s * nonorth.g13 R Bp hy d c t s * nonorth.g23 R Bp hy d c t s := by
  refine ⟨by unfold nonorth.g12; ring, by unfold nonorth.g13; ring, by unfold nonorth.g23; ring,
    by unfold nonorth.g_12; ring, rfl, by unfold nonorth.g_23; ring, rfl, ?_⟩
  unfold det3 nonorth.g11 nonorth.g22 nonorth.g33 nonorth.g12 nonorth.g13 nonorth.g23
  ring

/-! ## B2. fpol ↦ −fpol (reverse_Bt) -/

/-- `dphidy` is odd in Bt (and in Bp) -/
theorem dphidy_odd (hy Bt Bp R : ℝ) :
    dphidy hy (-Bt) Bp R = - dphidy hy Bt Bp R ∧ dphidy hy Bt (-Bp) R = - dphidy hy Bt Bp R := by
  unfold dphidy; constructor <;> ring

/-- orth branch under dphidy ↦ −dphidy alone (Bt ↦ −Bt): g23 and g_23 are odd; everything else, J and Jcheck are even -/
theorem reversal_signs_bt_orth :
    orth.g11 R Bp hy (-d) c t s = orth.g11 R Bp hy d c t s ∧
    orth.g22 R Bp hy (-d) c t s = orth.g22 R Bp hy d c t s ∧
    orth.g33 R Bp hy (-d) c t s = orth.g33 R Bp hy d c t s ∧
    orth.g12 R Bp hy (-d) c t s = orth.g12 R Bp hy d c t s ∧
    orth.g13 R Bp hy (-d) c t s = orth.g13 R Bp hy d c t s ∧
    orth.g23 R Bp hy (-d) c t s = - orth.g23 R Bp hy d c t s ∧
    orth.g_11 R Bp hy (-d) c t s = orth.g_11 R Bp hy d c t s ∧
    orth.g_22 R Bp hy (-d) c t s = orth.g_22 R Bp hy d c t s ∧
    orth.g_33 R Bp hy (-d) c t s = orth.g_33 R Bp hy d c t s ∧
    orth.g_12 R Bp hy (-d) c t s = orth.g_12 R Bp hy d c t s ∧
    orth.g_13 R Bp hy (-d) c t s = orth.g_13 R Bp hy d c t s ∧
    orth.g_23 R Bp hy (-d) c t s = - orth.g_23 R Bp hy d c t s ∧
    orth.J R Bp hy (-d) c t s = orth.J R Bp hy d c t s ∧
    orth.Jcheck R Bp hy (-d) c t s = orth.Jcheck R Bp hy d c t s := by
  refine ⟨rfl, rfl, by unfold orth.g33; ring, rfl, rfl, by unfold orth.g23; ring, rfl, by unfold orth.g_22; ring, rfl,
    by unfold orth.g_12; ring, rfl, by unfold orth.g_23; ring, rfl, ?_⟩
  unfold orth.Jcheck
  exact div_sqrt_congr rfl (by ring)

/-- nonorth branch under dphidy ↦ −dphidy alone: g13, g23 and g_23 are odd; everything else, J and Jcheck are even -/
theorem reversal_signs_bt_nonorth :
    nonorth.g11 R Bp hy (-d) c t s = nonorth.g11 R Bp hy d c t s ∧
    nonorth.g22 R Bp hy (-d) c t s = nonorth.g22 R Bp hy d c t s ∧
    nonorth.g33 R Bp hy (-d) c t s = nonorth.g33 R Bp hy d c t s ∧
    nonorth.g12 R Bp hy (-d) c t s = nonorth.g12 R Bp hy d c t s ∧
    nonorth.g13 R Bp hy (-d) c t s = - nonorth.g13 R Bp hy d c t s ∧
    nonorth.g23 R Bp hy (-d) c t s = - nonorth.g23 R Bp hy d c t s ∧
    nonorth.g_11 R Bp hy (-d) c t s = nonorth.g_11 R Bp hy d c t s ∧
    nonorth.g_22 R Bp hy (-d) c t s = nonorth.g_22 R Bp hy d c t s ∧
    nonorth.g_33 R Bp hy (-d) c t s = nonorth.g_33 R Bp hy d c t s ∧
    nonorth.g_12 R Bp hy (-d) c t s = nonorth.g_12 R Bp hy d c t s ∧
    nonorth.g_13 R Bp hy (-d) c t s = nonorth.g_13 R Bp hy d c t s ∧
    nonorth.g_23 R Bp hy (-d) c t s = - nonorth.g_23 R Bp hy d c t s ∧
    nonorth.J R Bp hy (-d) c t s = nonorth.J R Bp hy d c t s ∧
    nonorth.Jcheck R Bp hy (-d) c t s = nonorth.Jcheck R Bp hy d c t s := by
  refine ⟨rfl, rfl, by unfold nonorth.g33; ring, rfl, by unfold nonorth.g13; ring, by unfold nonorth.g23; ring, rfl,
    by unfold nonorth.g_22; ring, rfl, by unfold nonorth.g_12; ring, rfl, by unfold nonorth.g_23; ring, rfl, ?_⟩
  unfold nonorth.Jcheck
  exact div_sqrt_congr rfl (by ring)

/-- the table for fpol ↦ −fpol (reverse_Bt): dphidy is odd in Bt, and under dphidy ↦ −dphidy exactly g23, g_23 (and the
    nonorthogonal g13) change sign -/
theorem reversal_signs_bt (Bt : ℝ) :
    dphidy hy (-Bt) Bp R = - dphidy hy Bt Bp R ∧
    (orth.g23 R Bp hy (-d) c t s = - orth.g23 R Bp hy d c t s ∧
     orth.g_23 R Bp hy (-d) c t s = - orth.g_23 R Bp hy d c t s ∧
     orth.g33 R Bp hy (-d) c t s = orth.g33 R Bp hy d c t s ∧
     orth.g_22 R Bp hy (-d) c t s = orth.g_22 R Bp hy d c t s ∧
     orth.J R Bp hy (-d) c t s = orth.J R Bp hy d c t s) ∧
    (nonorth.g13 R Bp hy (-d) c t s = - nonorth.g13 R Bp hy d c t s ∧
     nonorth.g23 R Bp hy (-d) c t s = - nonorth.g23 R Bp hy d c t s ∧
     nonorth.g_23 R Bp hy (-d) c t s = - nonorth.g_23 R Bp hy d c t s ∧
     nonorth.g12 R Bp hy (-d) c t s = nonorth.g12 R Bp hy d c t s ∧
     nonorth.g_12 R Bp hy (-d) c t s = nonorth.g_12 R Bp hy d c t s ∧
     nonorth.g33 R Bp hy (-d) c t s = nonorth.g33 R Bp hy d c t s ∧
     nonorth.g_22 R Bp hy (-d) c t s = nonorth.g_22 R Bp hy d c t s ∧
     nonorth.J R Bp hy (-d) c t s = nonorth.J R Bp hy d c t s) := by
  have ho := reversal_signs_bt_orth R Bp hy d c t s
  have hn := reversal_signs_bt_nonorth R Bp hy d c t s
  exact ⟨(dphidy_odd hy Bt Bp R).1,
    ⟨ho.2.2.2.2.2.1, ho.2.2.2.2.2.2.2.2.2.2.2.1, ho.2.2.1, ho.2.2.2.2.2.2.2.1, ho.2.2.2.2.2.2.2.2.2.2.2.2.1⟩,
    ⟨hn.2.2.2.2.1, hn.2.2.2.2.2.1, hn.2.2.2.2.2.2.2.2.2.2.2.1, hn.2.2.2.1, hn.2.2.2.2.2.2.2.2.2.1, hn.2.2.1,
     hn.2.2.2.2.2.2.2.1, hn.2.2.2.2.2.2.2.2.2.2.2.2.1⟩⟩

end metric

section fields
open Gen.R.Fields
variable (R Z BR BZ f fp pRR pZZ pRZ : ℝ)

/-- `Bzeta` = f/R is odd in fpol -/
theorem Bzeta_odd : Bzeta R Z BR BZ (-f) fp pRR pZZ pRZ = - Bzeta R Z BR BZ f fp pRR pZZ pRZ := by
  unfold Bzeta; ring

/-- `B2` is even in (fpol, fpol') and in (BR, BZ) — and in BR alone, which is what the reflection Z ↦ −Z does -/
theorem B2_even :
    B2 R Z BR BZ (-f) (-fp) pRR pZZ pRZ = B2 R Z BR BZ f fp pRR pZZ pRZ ∧
    B2 R Z (-BR) (-BZ) f fp (-pRR) (-pZZ) (-pRZ) = B2 R Z BR BZ f fp pRR pZZ pRZ ∧
    B2 R (-Z) (-BR) BZ f fp pRR pZZ (-pRZ) = B2 R Z BR BZ f fp pRR pZZ pRZ := by
  unfold B2; refine ⟨by ring, by ring, by ring⟩

/-! ## B3. Bp_R, Bp_Z, f_R, f_Z are odd in the psi-derivative functions -/

variable (D01 D10 : ℝ → ℝ → ℝ) (loR hiR loZ hiZ : ℝ)

theorem Bp_odd :
    dct.Bp_R (fun r z => - D01 r z) R Z = - dct.Bp_R D01 R Z ∧
    dct.Bp_Z (fun r z => - D10 r z) R Z = - dct.Bp_Z D10 R Z ∧
    spline.Bp_R (fun r z => - D01 r z) R Z = - spline.Bp_R D01 R Z ∧
    spline.Bp_Z (fun r z => - D10 r z) R Z = - spline.Bp_Z D10 R Z := by
  unfold dct.Bp_R dct.Bp_Z spline.Bp_R spline.Bp_Z
  refine ⟨by ring, by ring, by ring, by ring⟩

/-- f_R, f_Z (= ∇psi/|∇psi|²) are odd in (D01, D10), dct and spline branches -/
theorem f_odd :
    dct.f_R (fun r z => - D01 r z) (fun r z => - D10 r z) R Z = - dct.f_R D01 D10 R Z ∧
    dct.f_Z (fun r z => - D01 r z) (fun r z => - D10 r z) R Z = - dct.f_Z D01 D10 R Z ∧
    spline.f_R (fun r z => - D01 r z) (fun r z => - D10 r z) R Z loR hiR loZ hiZ
      = - spline.f_R D01 D10 R Z loR hiR loZ hiZ ∧
    spline.f_Z (fun r z => - D01 r z) (fun r z => - D10 r z) R Z loR hiR loZ hiZ
      = - spline.f_Z D01 D10 R Z loR hiR loZ hiZ := by
  unfold dct.f_R dct.f_Z spline.f_R spline.f_Z
  refine ⟨?_, ?_, ?_, ?_⟩ <;> simp only [neg_sq, neg_div]

/-- the integral curves of dR/dpsi = f_R, dZ/dpsi = f_Z followed to the negated psi targets are the same curves:
    the displacement f(−D)·d(−psi) equals f(D)·dpsi -/
theorem grad_flow_invariant (dpsi : ℝ) :
    dct.f_R (fun r z => - D01 r z) (fun r z => - D10 r z) R Z * (-dpsi) = dct.f_R D01 D10 R Z * dpsi ∧
    dct.f_Z (fun r z => - D01 r z) (fun r z => - D10 r z) R Z * (-dpsi) = dct.f_Z D01 D10 R Z * dpsi ∧
    spline.f_R (fun r z => - D01 r z) (fun r z => - D10 r z) R Z loR hiR loZ hiZ * (-dpsi)
      = spline.f_R D01 D10 R Z loR hiR loZ hiZ * dpsi ∧
    spline.f_Z (fun r z => - D01 r z) (fun r z => - D10 r z) R Z loR hiR loZ hiZ * (-dpsi)
      = spline.f_Z D01 D10 R Z loR hiR loZ hiZ * dpsi := by
  obtain ⟨h1, h2, h3, h4⟩ := f_odd R Z D01 D10 loR hiR loZ hiZ
  rw [h1, h2, h3, h4]
  refine ⟨by ring, by ring, by ring, by ring⟩

/-! ## B4. psi ↦ l·psi (psi_divide_twopi: l = 1/(2π)) -/

/-- Bp_R, Bp_Z scale by l -/
theorem scaling_twopi_Bp (l : ℝ) :
    dct.Bp_R (fun r z => l * D01 r z) R Z = l * dct.Bp_R D01 R Z ∧
    dct.Bp_Z (fun r z => l * D10 r z) R Z = l * dct.Bp_Z D10 R Z ∧
    spline.Bp_R (fun r z => l * D01 r z) R Z = l * spline.Bp_R D01 R Z ∧
    spline.Bp_Z (fun r z => l * D10 r z) R Z = l * spline.Bp_Z D10 R Z := by
  unfold dct.Bp_R dct.Bp_Z spline.Bp_R spline.Bp_Z
  refine ⟨by ring, by ring, by ring, by ring⟩

/-- f_R, f_Z scale by 1/l (l ≠ 0; no hypothesis on ∇psi: at a critical point both sides are 0/0 = 0) -/
theorem scaling_twopi_f (l : ℝ) (hl : l ≠ 0) :
    dct.f_R (fun r z => l * D01 r z) (fun r z => l * D10 r z) R Z = 1 / l * dct.f_R D01 D10 R Z ∧
    dct.f_Z (fun r z => l * D01 r z) (fun r z => l * D10 r z) R Z = 1 / l * dct.f_Z D01 D10 R Z ∧
    spline.f_R (fun r z => l * D01 r z) (fun r z => l * D10 r z) R Z loR hiR loZ hiZ
      = 1 / l * spline.f_R D01 D10 R Z loR hiR loZ hiZ ∧
    spline.f_Z (fun r z => l * D01 r z) (fun r z => l * D10 r z) R Z loR hiR loZ hiZ
      = 1 / l * spline.f_Z D01 D10 R Z loR hiR loZ hiZ := by
  unfold dct.f_R dct.f_Z spline.f_R spline.f_Z
  exact ⟨scale_core l _ _ _ hl, scale_core l _ _ _ hl, scale_core l _ _ _ hl, scale_core l _ _ _ hl⟩

/-- hence positions are unchanged: the displacement f(l·D)·(l·dpsi) equals f(D)·dpsi -/
theorem scaling_twopi_flow_invariant (l : ℝ) (hl : l ≠ 0) (dpsi : ℝ) :
    dct.f_R (fun r z => l * D01 r z) (fun r z => l * D10 r z) R Z * (l * dpsi) = dct.f_R D01 D10 R Z * dpsi ∧
    dct.f_Z (fun r z => l * D01 r z) (fun r z => l * D10 r z) R Z * (l * dpsi) = dct.f_Z D01 D10 R Z * dpsi ∧
    spline.f_R (fun r z => l * D01 r z) (fun r z => l * D10 r z) R Z loR hiR loZ hiZ * (l * dpsi)
      = spline.f_R D01 D10 R Z loR hiR loZ hiZ * dpsi ∧
    spline.f_Z (fun r z => l * D01 r z) (fun r z => l * D10 r z) R Z loR hiR loZ hiZ * (l * dpsi)
      = spline.f_Z D01 D10 R Z loR hiR loZ hiZ * dpsi := by
  obtain ⟨h1, h2, h3, h4⟩ := scaling_twopi_f R Z D01 D10 loR hiR loZ hiZ l hl
  rw [h1, h2, h3, h4]
  refine ⟨?_, ?_, ?_, ?_⟩ <;> field_simp

end fields

section metric_scaling
open Gen.R.Metric
variable (R Bp hy Bt c t s : ℝ)

/-- metric under psi ↦ l·psi with Bt (fpol) fixed: Bp ↦ |l|·Bp, hence dphidy ↦ dphidy/|l|; g11 scales by l², g_11 by 1/l²,
    J by 1/|l|, g23 and g_23 by 1/|l|; g22 and g_33 are unchanged (both branches) -/
theorem scaling_twopi (l : ℝ) (d : ℝ) :
    dphidy hy Bt (|l| * Bp) R = 1 / |l| * dphidy hy Bt Bp R ∧
    (orth.g11 R (|l| * Bp) hy (1 / |l| * d) c t s = l ^ 2 * orth.g11 R Bp hy d c t s ∧
     orth.g_11 R (|l| * Bp) hy (1 / |l| * d) c t s = 1 / l ^ 2 * orth.g_11 R Bp hy d c t s ∧
     orth.J R (|l| * Bp) hy (1 / |l| * d) c t s = 1 / |l| * orth.J R Bp hy d c t s ∧
     orth.g23 R (|l| * Bp) hy (1 / |l| * d) c t s = 1 / |l| * orth.g23 R Bp hy d c t s ∧
     orth.g_23 R (|l| * Bp) hy (1 / |l| * d) c t s = 1 / |l| * orth.g_23 R Bp hy d c t s ∧
     orth.g22 R (|l| * Bp) hy (1 / |l| * d) c t s = orth.g22 R Bp hy d c t s ∧
     orth.g_33 R (|l| * Bp) hy (1 / |l| * d) c t s = orth.g_33 R Bp hy d c t s) ∧
    (nonorth.g11 R (|l| * Bp) hy (1 / |l| * d) c t s = l ^ 2 * nonorth.g11 R Bp hy d c t s ∧
     nonorth.g_11 R (|l| * Bp) hy (1 / |l| * d) c t s = 1 / l ^ 2 * nonorth.g_11 R Bp hy d c t s ∧
     nonorth.J R (|l| * Bp) hy (1 / |l| * d) c t s = 1 / |l| * nonorth.J R Bp hy d c t s ∧
     nonorth.g23 R (|l| * Bp) hy (1 / |l| * d) c t s = 1 / |l| * nonorth.g23 R Bp hy d c t s ∧
     nonorth.g_23 R (|l| * Bp) hy (1 / |l| * d) c t s = 1 / |l| * nonorth.g_23 R Bp hy d c t s ∧
     nonorth.g22 R (|l| * Bp) hy (1 / |l| * d) c t s = nonorth.g22 R Bp hy d c t s ∧
     nonorth.g_33 R (|l| * Bp) hy (1 / |l| * d) c t s = nonorth.g_33 R Bp hy d c t s) := by
  have hsq : |l| ^ 2 = l ^ 2 := sq_abs l
  refine ⟨by unfold dphidy; ring, ⟨?_, ?_, by unfold orth.J; ring, by unfold orth.g23; ring, by unfold orth.g_23; ring,
    rfl, rfl⟩, ⟨?_, ?_, by unfold nonorth.J; ring, by unfold nonorth.g23; ring, by unfold nonorth.g_23; ring, rfl, rfl⟩⟩
  · unfold orth.g11; rw [← hsq]; ring
  · unfold orth.g_11; rw [← hsq]; ring
  · unfold nonorth.g11; rw [← hsq]; ring
  · unfold nonorth.g_11; rw [← hsq]; ring

end metric_scaling

/-! ## B5. fpol / fpolprime of TokamakEquilibrium -/

section fpol
open Gen.R.Fields

/-- reversing psi together with the sign `sigma` (f_psi_sign) that multiplies it: fpol keeps its value, fpolprime
    (= d fpol / d psi) changes sign; reversing the spline itself (reverse_Bt) negates both -/
theorem fpol_reversal (f_spl fprime_spl : ℝ → ℝ) (psi sigma : ℝ) :
    tok_fpol f_spl (-psi) (-sigma) = tok_fpol f_spl psi sigma ∧
    tok_fpolprime fprime_spl (-sigma) (-psi) = - tok_fpolprime fprime_spl sigma psi ∧
    tok_fpol (fun x => - f_spl x) psi sigma = - tok_fpol f_spl psi sigma ∧
    tok_fpolprime (fun x => - fprime_spl x) sigma psi = - tok_fpolprime fprime_spl sigma psi := by
  unfold tok_fpol tok_fpolprime
  refine ⟨by rw [neg_mul_neg], by rw [neg_mul_neg]; ring, rfl, by ring⟩

/-- psi ↦ l·psi with the spline argument rescaled accordingly (sigma ↦ sigma/l): fpol keeps its value and
    fpolprime scales by 1/l -/
theorem fpol_scaling (f_spl fprime_spl : ℝ → ℝ) (psi sigma l : ℝ) (hl : l ≠ 0) :
    tok_fpol f_spl (l * psi) (sigma / l) = tok_fpol f_spl psi sigma ∧
    tok_fpolprime fprime_spl (sigma / l) (l * psi) = 1 / l * tok_fpolprime fprime_spl sigma psi := by
  unfold tok_fpol tok_fpolprime
  have h : l * psi * (sigma / l) = psi * sigma := by field_simp
  rw [h]
  exact ⟨rfl, by ring⟩

end fpol

/-! ## B6 / C. citations (statements proved elsewhere; the `example`s keep the citations compile-checked)

* Radial psi grid (Gen.R.Spacing), negating the psi end values (and end gradients) negates the grid values:
  `HypnoModel.Props.C09.linear_odd`, `lowerPoly_odd`, `upperPoly_odd`, `bothTrig_odd`.
* Critical points (Gen.R.Critical): the discriminant and the O-point/X-point classification are even under psi ↦ −psi:
  `HypnoModel.Props.C19.discriminant_even`, `classification_even`; the X-point filter: `keepX_even`.
-/

example := @HypnoModel.Props.C09.linear_odd
example := @HypnoModel.Props.C09.lowerPoly_odd
example := @HypnoModel.Props.C09.upperPoly_odd
example := @HypnoModel.Props.C09.bothTrig_odd
example := @HypnoModel.Props.C19.discriminant_even
example := @HypnoModel.Props.C19.classification_even
example := @HypnoModel.Props.C19.keepX_even

/-! ## D. instances -/

-- A: in LDN segment 1 (between the separatrices) the inner lower leg 0 continues into the inner core 1; mirrored: in UDN
-- the inner core 1 continues into the inner upper leg 2 = mDN 0
example : upperLDN 0 1 = some 1 ∧ upperUDN (mDN 1) 1 = some (mDN 0) := by decide
-- ... and the core part: LDN 1 → 4 (inner core to outer core over the top), UDN 4 → 1 (over the bottom)
example : upperLDN 1 1 = some 4 ∧ upperUDN (mDN 4) 1 = some (mDN 1) := by decide
example : upperCDN 0 0 = some 5 ∧ upperCDN (mDN 5) 0 = some (mDN 0) := by decide
example : upperSN 0 0 = some 2 ∧ upperSN (mSN 2) 0 = some (mSN 0) := by decide
example : upperSN 1 1 = some 2 ∧ upperSN (mSN 2) 1 = some (mSN 1) := by decide
-- hypotheses of the mirror theorems are satisfiable, and the theorem reproduces the instance
example : upperUDN (mDN 1) 1 = some (mDN 0) := ((mirror_ldn_udn 1 0 1 (by decide) (by decide) (by decide)).1).2 rfl
example : encodeX [3, 2, 4] 3 .lower = some (3, 5) ∧ encodeX [3, 2, 4] 3 .upper = some (5, 3) := by decide
example : encodeX [3, 6] 3 .lower = encodeX [3, 6] 3 .upper := ixseps_mirror_le2 _ _ _ _ (by decide)

-- B1: R = 2, Bp = 3, hy = 5, dphidy = 7, cosBeta = 1, tanBeta = 1/2, bpsign = 1
example : Gen.R.Metric.orth.g23 2 3 5 7 1 (1/2) 1 = -7/25 ∧ Gen.R.Metric.orth.g23 2 (-3) 5 (-7) (-1) (1/2) (-1) = -7/25 ∧
    Gen.R.Metric.orth.J 2 3 5 7 1 (1/2) 1 = 5/3 ∧ Gen.R.Metric.orth.J 2 (-3) 5 (-7) (-1) (1/2) (-1) = -(5/3) := by
  unfold Gen.R.Metric.orth.g23 Gen.R.Metric.orth.J; norm_num
example : Gen.R.Metric.nonorth.g13 2 3 5 7 1 (1/2) 1 = 21/5 ∧
    Gen.R.Metric.nonorth.g13 2 (-3) 5 (-7) (-1) (1/2) (-1) = -21/5 ∧
    Gen.R.Metric.nonorth.g13 2 3 5 (-7) 1 (1/2) (-1) = 21/5 := by
  unfold Gen.R.Metric.nonorth.g13; norm_num

-- g12 = −bpsign·R·|Bp|·tanBeta/hy and g_12 = bpsign·hy·tanBeta/(R·|Bp|): both odd under the code's map and under "Bp fixed"
example : Gen.R.Metric.nonorth.g12 2 3 5 7 1 (1/2) 1 = -3/5 ∧
    Gen.R.Metric.nonorth.g12 2 (-3) 5 (-7) (-1) (1/2) (-1) = 3/5 ∧
    Gen.R.Metric.nonorth.g12 2 3 5 (-7) 1 (1/2) (-1) = 3/5 ∧
    Gen.R.Metric.nonorth.g_12 2 3 5 7 1 (1/2) 1 = 5/12 ∧
    Gen.R.Metric.nonorth.g_12 2 (-3) 5 (-7) (-1) (1/2) (-1) = -5/12 := by
  unfold Gen.R.Metric.nonorth.g12 Gen.R.Metric.nonorth.g_12
  rw [abs_neg, abs_of_pos (by norm_num : (0 : ℝ) < 3)]; norm_num

-- B4 with l = 1/(2π): l ≠ 0, and g11 scales by 1/(4π²)
example : (1 / (2 * π) : ℝ) ≠ 0 := by positivity
example (R Bp hy d c t s : ℝ) :
    Gen.R.Metric.orth.g11 R (|1 / (2 * π)| * Bp) hy (1 / |1 / (2 * π)| * d) c t s
      = (1 / (2 * π)) ^ 2 * Gen.R.Metric.orth.g11 R Bp hy d c t s :=
  (scaling_twopi R Bp hy 0 c t s (1 / (2 * π)) d).2.1.1
example (D01 D10 : ℝ → ℝ → ℝ) (R Z dpsi : ℝ) :
    Gen.R.Fields.dct.f_R (fun r z => 1 / (2 * π) * D01 r z) (fun r z => 1 / (2 * π) * D10 r z) R Z * (1 / (2 * π) * dpsi)
      = Gen.R.Fields.dct.f_R D01 D10 R Z * dpsi :=
  (scaling_twopi_flow_invariant R Z D01 D10 0 0 0 0 (1 / (2 * π)) (by positivity) dpsi).1

end HypnoModel.Props.C16
