/-
C02 — metric tensor and Jacobian (`MeshRegion.calcMetric`, `geometry2`, `calcZShift`; hypnotoad/core/mesh.py).
Definitions: HypnoModel/Gen/Metric.lean (GENERATED from the Python on every run; `Gen.R.Metric.orth.*`,
`Gen.R.Metric.nonorth.*`, every component a function of the same seven arguments
`R Bp hy dphidy cosBeta tanBeta bpsign`, integrated shear I = 0 substituted).  Normal forms of the generated
components, the parity predicates and the algebraic cores: HypnoModel/Lemmas/Metric.lean.  This file: property theorems.

Hypotheses are what the code establishes: `R ≠ 0`, `Bp ≠ 0`, `hy ≠ 0`, `bpsign = 1 ∨ bpsign = -1`,
`|Bp| = bpsign * Bp` (Bpxy carries the sign bpsign), `cosBeta^2 = 1/(1+tanBeta^2)` (tanBeta = sinBeta/cosBeta and
sin² + cos² = 1).  `cosBeta ≠ 0` is not listed separately: it follows from the last one (`cosBeta_ne_zero`).
-/
import HypnoModel.Gen.Metric
import HypnoModel.Lemmas.Metric
import HypnoModel.Gen.Geom1

namespace HypnoModel.Props.C02
open Real Gen.R.Metric MetricLemmas

/-- rewrite every generated nonorth component to its normal form -/
local macro "nf_nonorth" : tactic => `(tactic| simp only [nonorth_g11_eq, nonorth_g22_eq, nonorth_g33_eq,
  nonorth_g12_eq, nonorth_g13_eq, nonorth_g23_eq, nonorth_J_eq, nonorth_g_11_eq, nonorth_g_22_eq, nonorth_g_33_eq,
  nonorth_g_12_eq, nonorth_g_13_eq, nonorth_g_23_eq])
/-- rewrite every generated orth component to its normal form -/
local macro "nf_orth" : tactic => `(tactic| simp only [orth_g11_eq, orth_g22_eq, orth_g33_eq,
  orth_g12_eq, orth_g13_eq, orth_g23_eq, orth_J_eq, orth_g_11_eq, orth_g_22_eq, orth_g_33_eq,
  orth_g_12_eq, orth_g_13_eq, orth_g_23_eq])
/-- rewrite every generated component of either branch to its normal form -/
local macro "nf_all" : tactic => `(tactic| simp only [nonorth_g11_eq, nonorth_g22_eq, nonorth_g33_eq,
  nonorth_g12_eq, nonorth_g13_eq, nonorth_g23_eq, nonorth_J_eq, nonorth_g_11_eq, nonorth_g_22_eq, nonorth_g_33_eq,
  nonorth_g_12_eq, nonorth_g_13_eq, nonorth_g_23_eq, orth_g11_eq, orth_g22_eq, orth_g33_eq,
  orth_g12_eq, orth_g13_eq, orth_g23_eq, orth_J_eq, orth_g_11_eq, orth_g_22_eq, orth_g_33_eq,
  orth_g_12_eq, orth_g_13_eq, orth_g_23_eq])
/-- nonorth identities: normal forms, |Bp| = bpsign·Bp, cos² = 1/(1+tan²), split on bpsign = ±1, clear denominators -/
local macro "nonorth_tac" hs:ident habs:ident ht:ident : tactic => `(tactic| (
  nf_nonorth
  try rw [$habs:ident]
  simp only [mul_pow, div_pow, $ht:ident]
  rcases $hs:ident with h | h <;> subst h <;> metric_tac))
/-- orth identities: normal forms, split on bpsign = ±1, clear denominators -/
local macro "orth_tac" hs:ident : tactic => `(tactic| (
  nf_orth
  rcases $hs:ident with h | h <;> subst h <;> metric_tac))

section
variable {R Bp hy dphidy cosBeta tanBeta bpsign : ℝ}

/-- the hypotheses used below are satisfiable (R=2, Bp=-1/2, hy=1/3, cosBeta=4/5, tanBeta=3/4, bpsign=-1) -/
theorem hyps_satisfiable : ∃ R Bp hy cosBeta tanBeta bpsign : ℝ, R ≠ 0 ∧ Bp ≠ 0 ∧ 0 < hy ∧ cosBeta ≠ 0 ∧
    (bpsign = 1 ∨ bpsign = -1) ∧ |Bp| = bpsign * Bp ∧ cosBeta ^ 2 = 1 / (1 + tanBeta ^ 2) := by
  refine ⟨2, -1 / 2, 1 / 3, 4 / 5, 3 / 4, -1, by norm_num, by norm_num, by norm_num, by norm_num, Or.inr rfl, ?_,
    by norm_num⟩
  rw [abs_of_neg (by norm_num)]; norm_num

/-- `cosBeta ≠ 0` is a consequence of `cosBeta² = 1/(1+tanBeta²)` -/
theorem cosBeta_ne_zero (ht : cosBeta ^ 2 = 1 / (1 + tanBeta ^ 2)) : cosBeta ≠ 0 := cos_ne_zero_of ht

/-! ## 1. g^{ij} g_{jk} = δ_{ik} -/

/-- nonorth branch: the covariant components are the inverse of the contravariant ones (all nine entries) -/
theorem nonorth_inverse (hR : R ≠ 0) (hB : Bp ≠ 0) (hh : hy ≠ 0) (hs : bpsign = 1 ∨ bpsign = -1)
    (habs : |Bp| = bpsign * Bp) (ht : cosBeta ^ 2 = 1 / (1 + tanBeta ^ 2)) :
    -- row 1
    (nonorth.g11 R Bp hy dphidy cosBeta tanBeta bpsign * nonorth.g_11 R Bp hy dphidy cosBeta tanBeta bpsign
      + nonorth.g12 R Bp hy dphidy cosBeta tanBeta bpsign * nonorth.g_12 R Bp hy dphidy cosBeta tanBeta bpsign
      + nonorth.g13 R Bp hy dphidy cosBeta tanBeta bpsign * nonorth.g_13 R Bp hy dphidy cosBeta tanBeta bpsign = 1) ∧
    (nonorth.g11 R Bp hy dphidy cosBeta tanBeta bpsign * nonorth.g_12 R Bp hy dphidy cosBeta tanBeta bpsign
      + nonorth.g12 R Bp hy dphidy cosBeta tanBeta bpsign * nonorth.g_22 R Bp hy dphidy cosBeta tanBeta bpsign
      + nonorth.g13 R Bp hy dphidy cosBeta tanBeta bpsign * nonorth.g_23 R Bp hy dphidy cosBeta tanBeta bpsign = 0) ∧
    (nonorth.g11 R Bp hy dphidy cosBeta tanBeta bpsign * nonorth.g_13 R Bp hy dphidy cosBeta tanBeta bpsign
      + nonorth.g12 R Bp hy dphidy cosBeta tanBeta bpsign * nonorth.g_23 R Bp hy dphidy cosBeta tanBeta bpsign
      + nonorth.g13 R Bp hy dphidy cosBeta tanBeta bpsign * nonorth.g_33 R Bp hy dphidy cosBeta tanBeta bpsign = 0) ∧
    -- row 2
    (nonorth.g12 R Bp hy dphidy cosBeta tanBeta bpsign * nonorth.g_11 R Bp hy dphidy cosBeta tanBeta bpsign
      + nonorth.g22 R Bp hy dphidy cosBeta tanBeta bpsign * nonorth.g_12 R Bp hy dphidy cosBeta tanBeta bpsign
      + nonorth.g23 R Bp hy dphidy cosBeta tanBeta bpsign * nonorth.g_13 R Bp hy dphidy cosBeta tanBeta bpsign = 0) ∧
    (nonorth.g12 R Bp hy dphidy cosBeta tanBeta bpsign * nonorth.g_12 R Bp hy dphidy cosBeta tanBeta bpsign
      + nonorth.g22 R Bp hy dphidy cosBeta tanBeta bpsign * nonorth.g_22 R Bp hy dphidy cosBeta tanBeta bpsign
      + nonorth.g23 R Bp hy dphidy cosBeta tanBeta bpsign * nonorth.g_23 R Bp hy dphidy cosBeta tanBeta bpsign = 1) ∧
    (nonorth.g12 R Bp hy dphidy cosBeta tanBeta bpsign * nonorth.g_13 R Bp hy dphidy cosBeta tanBeta bpsign
      + nonorth.g22 R Bp hy dphidy cosBeta tanBeta bpsign * nonorth.g_23 R Bp hy dphidy cosBeta tanBeta bpsign
      + nonorth.g23 R Bp hy dphidy cosBeta tanBeta bpsign * nonorth.g_33 R Bp hy dphidy cosBeta tanBeta bpsign = 0) ∧
    -- row 3
    (nonorth.g13 R Bp hy dphidy cosBeta tanBeta bpsign * nonorth.g_11 R Bp hy dphidy cosBeta tanBeta bpsign
      + nonorth.g23 R Bp hy dphidy cosBeta tanBeta bpsign * nonorth.g_12 R Bp hy dphidy cosBeta tanBeta bpsign
      + nonorth.g33 R Bp hy dphidy cosBeta tanBeta bpsign * nonorth.g_13 R Bp hy dphidy cosBeta tanBeta bpsign = 0) ∧
    (nonorth.g13 R Bp hy dphidy cosBeta tanBeta bpsign * nonorth.g_12 R Bp hy dphidy cosBeta tanBeta bpsign
      + nonorth.g23 R Bp hy dphidy cosBeta tanBeta bpsign * nonorth.g_22 R Bp hy dphidy cosBeta tanBeta bpsign
      + nonorth.g33 R Bp hy dphidy cosBeta tanBeta bpsign * nonorth.g_23 R Bp hy dphidy cosBeta tanBeta bpsign = 0) ∧
    (nonorth.g13 R Bp hy dphidy cosBeta tanBeta bpsign * nonorth.g_13 R Bp hy dphidy cosBeta tanBeta bpsign
      + nonorth.g23 R Bp hy dphidy cosBeta tanBeta bpsign * nonorth.g_23 R Bp hy dphidy cosBeta tanBeta bpsign
      + nonorth.g33 R Bp hy dphidy cosBeta tanBeta bpsign * nonorth.g_33 R Bp hy dphidy cosBeta tanBeta bpsign = 1) := by
  have h1 : (1 : ℝ) + tanBeta ^ 2 ≠ 0 := by positivity
  refine ⟨?_, ?_, ?_, ?_, ?_, ?_, ?_, ?_, ?_⟩
  · nonorth_tac hs habs ht
  · nonorth_tac hs habs ht
  · nonorth_tac hs habs ht
  · nonorth_tac hs habs ht
  · nonorth_tac hs habs ht
  · nonorth_tac hs habs ht
  · nonorth_tac hs habs ht
  · nonorth_tac hs habs ht
  · nonorth_tac hs habs ht

/-- orth branch: the covariant components are the inverse of the contravariant ones (all nine entries) -/
theorem orth_inverse (hR : R ≠ 0) (hB : Bp ≠ 0) (hh : hy ≠ 0) (hs : bpsign = 1 ∨ bpsign = -1) :
    -- row 1
    (orth.g11 R Bp hy dphidy cosBeta tanBeta bpsign * orth.g_11 R Bp hy dphidy cosBeta tanBeta bpsign
      + orth.g12 R Bp hy dphidy cosBeta tanBeta bpsign * orth.g_12 R Bp hy dphidy cosBeta tanBeta bpsign
      + orth.g13 R Bp hy dphidy cosBeta tanBeta bpsign * orth.g_13 R Bp hy dphidy cosBeta tanBeta bpsign = 1) ∧
    (orth.g11 R Bp hy dphidy cosBeta tanBeta bpsign * orth.g_12 R Bp hy dphidy cosBeta tanBeta bpsign
      + orth.g12 R Bp hy dphidy cosBeta tanBeta bpsign * orth.g_22 R Bp hy dphidy cosBeta tanBeta bpsign
      + orth.g13 R Bp hy dphidy cosBeta tanBeta bpsign * orth.g_23 R Bp hy dphidy cosBeta tanBeta bpsign = 0) ∧
    (orth.g11 R Bp hy dphidy cosBeta tanBeta bpsign * orth.g_13 R Bp hy dphidy cosBeta tanBeta bpsign
      + orth.g12 R Bp hy dphidy cosBeta tanBeta bpsign * orth.g_23 R Bp hy dphidy cosBeta tanBeta bpsign
      + orth.g13 R Bp hy dphidy cosBeta tanBeta bpsign * orth.g_33 R Bp hy dphidy cosBeta tanBeta bpsign = 0) ∧
    -- row 2
    (orth.g12 R Bp hy dphidy cosBeta tanBeta bpsign * orth.g_11 R Bp hy dphidy cosBeta tanBeta bpsign
      + orth.g22 R Bp hy dphidy cosBeta tanBeta bpsign * orth.g_12 R Bp hy dphidy cosBeta tanBeta bpsign
      + orth.g23 R Bp hy dphidy cosBeta tanBeta bpsign * orth.g_13 R Bp hy dphidy cosBeta tanBeta bpsign = 0) ∧
    (orth.g12 R Bp hy dphidy cosBeta tanBeta bpsign * orth.g_12 R Bp hy dphidy cosBeta tanBeta bpsign
      + orth.g22 R Bp hy dphidy cosBeta tanBeta bpsign * orth.g_22 R Bp hy dphidy cosBeta tanBeta bpsign
      + orth.g23 R Bp hy dphidy cosBeta tanBeta bpsign * orth.g_23 R Bp hy dphidy cosBeta tanBeta bpsign = 1) ∧
    (orth.g12 R Bp hy dphidy cosBeta tanBeta bpsign * orth.g_13 R Bp hy dphidy cosBeta tanBeta bpsign
      + orth.g22 R Bp hy dphidy cosBeta tanBeta bpsign * orth.g_23 R Bp hy dphidy cosBeta tanBeta bpsign
      + orth.g23 R Bp hy dphidy cosBeta tanBeta bpsign * orth.g_33 R Bp hy dphidy cosBeta tanBeta bpsign = 0) ∧
    -- row 3
    (orth.g13 R Bp hy dphidy cosBeta tanBeta bpsign * orth.g_11 R Bp hy dphidy cosBeta tanBeta bpsign
      + orth.g23 R Bp hy dphidy cosBeta tanBeta bpsign * orth.g_12 R Bp hy dphidy cosBeta tanBeta bpsign
      + orth.g33 R Bp hy dphidy cosBeta tanBeta bpsign * orth.g_13 R Bp hy dphidy cosBeta tanBeta bpsign = 0) ∧
    (orth.g13 R Bp hy dphidy cosBeta tanBeta bpsign * orth.g_12 R Bp hy dphidy cosBeta tanBeta bpsign
      + orth.g23 R Bp hy dphidy cosBeta tanBeta bpsign * orth.g_22 R Bp hy dphidy cosBeta tanBeta bpsign
      + orth.g33 R Bp hy dphidy cosBeta tanBeta bpsign * orth.g_23 R Bp hy dphidy cosBeta tanBeta bpsign = 0) ∧
    (orth.g13 R Bp hy dphidy cosBeta tanBeta bpsign * orth.g_13 R Bp hy dphidy cosBeta tanBeta bpsign
      + orth.g23 R Bp hy dphidy cosBeta tanBeta bpsign * orth.g_23 R Bp hy dphidy cosBeta tanBeta bpsign
      + orth.g33 R Bp hy dphidy cosBeta tanBeta bpsign * orth.g_33 R Bp hy dphidy cosBeta tanBeta bpsign = 1) := by
  refine ⟨?_, ?_, ?_, ?_, ?_, ?_, ?_, ?_, ?_⟩
  · orth_tac hs
  · orth_tac hs
  · orth_tac hs
  · orth_tac hs
  · orth_tac hs
  · orth_tac hs
  · orth_tac hs
  · orth_tac hs
  · orth_tac hs

/-! ## 2. Jacobian -/

/-- nonorth branch: `J² · det(g^{ij}) = 1`, det written as in the code's Jacobian check, and `J = hy/Bp` -/
theorem nonorth_jacobian_det (hR : R ≠ 0) (hB : Bp ≠ 0) (hh : hy ≠ 0) (hs : bpsign = 1 ∨ bpsign = -1)
    (habs : |Bp| = bpsign * Bp) (ht : cosBeta ^ 2 = 1 / (1 + tanBeta ^ 2)) :
    (nonorth.J R Bp hy dphidy cosBeta tanBeta bpsign) ^ 2 *
      (nonorth.g11 R Bp hy dphidy cosBeta tanBeta bpsign * nonorth.g22 R Bp hy dphidy cosBeta tanBeta bpsign
          * nonorth.g33 R Bp hy dphidy cosBeta tanBeta bpsign
        + 2 * nonorth.g12 R Bp hy dphidy cosBeta tanBeta bpsign * nonorth.g13 R Bp hy dphidy cosBeta tanBeta bpsign
          * nonorth.g23 R Bp hy dphidy cosBeta tanBeta bpsign
        - nonorth.g11 R Bp hy dphidy cosBeta tanBeta bpsign * (nonorth.g23 R Bp hy dphidy cosBeta tanBeta bpsign) ^ 2
        - nonorth.g22 R Bp hy dphidy cosBeta tanBeta bpsign * (nonorth.g13 R Bp hy dphidy cosBeta tanBeta bpsign) ^ 2
        - nonorth.g33 R Bp hy dphidy cosBeta tanBeta bpsign * (nonorth.g12 R Bp hy dphidy cosBeta tanBeta bpsign) ^ 2)
      = 1 ∧
    nonorth.J R Bp hy dphidy cosBeta tanBeta bpsign = hy / Bp := by
  have h1 : (1 : ℝ) + tanBeta ^ 2 ≠ 0 := by positivity
  refine ⟨?_, nonorth_J_eq ..⟩
  nonorth_tac hs habs ht

/-- orth branch: `J² · det(g^{ij}) = 1`, det written as in the code's Jacobian check, and `J = hy/Bp` -/
theorem orth_jacobian_det (hR : R ≠ 0) (hB : Bp ≠ 0) (hh : hy ≠ 0) (hs : bpsign = 1 ∨ bpsign = -1) :
    (orth.J R Bp hy dphidy cosBeta tanBeta bpsign) ^ 2 *
      (orth.g11 R Bp hy dphidy cosBeta tanBeta bpsign * orth.g22 R Bp hy dphidy cosBeta tanBeta bpsign
          * orth.g33 R Bp hy dphidy cosBeta tanBeta bpsign
        + 2 * orth.g12 R Bp hy dphidy cosBeta tanBeta bpsign * orth.g13 R Bp hy dphidy cosBeta tanBeta bpsign
          * orth.g23 R Bp hy dphidy cosBeta tanBeta bpsign
        - orth.g11 R Bp hy dphidy cosBeta tanBeta bpsign * (orth.g23 R Bp hy dphidy cosBeta tanBeta bpsign) ^ 2
        - orth.g22 R Bp hy dphidy cosBeta tanBeta bpsign * (orth.g13 R Bp hy dphidy cosBeta tanBeta bpsign) ^ 2
        - orth.g33 R Bp hy dphidy cosBeta tanBeta bpsign * (orth.g12 R Bp hy dphidy cosBeta tanBeta bpsign) ^ 2)
      = 1 ∧
    orth.J R Bp hy dphidy cosBeta tanBeta bpsign = hy / Bp := by
  refine ⟨?_, orth_J_eq ..⟩
  orth_tac hs

/-- nonorth branch, `hy > 0`: the generated `Jcheck` (= bpsign/√det) EQUALS `J`, so the run-time test
`|J − Jcheck|/|J| < rtol` tests an identity -/
theorem nonorth_jcheck_eq_J (hR : R ≠ 0) (hB : Bp ≠ 0) (hh : 0 < hy) (hs : bpsign = 1 ∨ bpsign = -1)
    (habs : |Bp| = bpsign * Bp) (ht : cosBeta ^ 2 = 1 / (1 + tanBeta ^ 2)) :
    nonorth.Jcheck R Bp hy dphidy cosBeta tanBeta bpsign = nonorth.J R Bp hy dphidy cosBeta tanBeta bpsign := by
  obtain ⟨hdet, hJ⟩ := nonorth_jacobian_det (dphidy := dphidy) hR hB (ne_of_gt hh) hs habs ht
  rw [nonorth_Jcheck_eq, hJ]
  rw [hJ] at hdet
  exact jcheck_core hB hh hs habs hdet

/-- orth branch, `hy > 0`: the generated `Jcheck` equals `J` -/
theorem orth_jcheck_eq_J (hR : R ≠ 0) (hB : Bp ≠ 0) (hh : 0 < hy) (hs : bpsign = 1 ∨ bpsign = -1)
    (habs : |Bp| = bpsign * Bp) :
    orth.Jcheck R Bp hy dphidy cosBeta tanBeta bpsign = orth.J R Bp hy dphidy cosBeta tanBeta bpsign := by
  obtain ⟨hdet, hJ⟩ := orth_jacobian_det (dphidy := dphidy) (cosBeta := cosBeta) (tanBeta := tanBeta)
    hR hB (ne_of_gt hh) hs
  rw [orth_Jcheck_eq, hJ]
  rw [hJ] at hdet
  exact jcheck_core hB hh hs habs hdet

end

/-! ## 3. closed forms -/

/-- g11 = (R·Bp)² and g_33 = R² in both branches; on the orth branch g12 = g13 = g_12 = g_13 = 0 -/
theorem closed_forms (R Bp hy dphidy cosBeta tanBeta bpsign : ℝ) :
    orth.g11 R Bp hy dphidy cosBeta tanBeta bpsign = (R * Bp) ^ 2 ∧
    nonorth.g11 R Bp hy dphidy cosBeta tanBeta bpsign = (R * Bp) ^ 2 ∧
    orth.g_33 R Bp hy dphidy cosBeta tanBeta bpsign = R ^ 2 ∧
    nonorth.g_33 R Bp hy dphidy cosBeta tanBeta bpsign = R ^ 2 ∧
    orth.g12 R Bp hy dphidy cosBeta tanBeta bpsign = 0 ∧
    orth.g13 R Bp hy dphidy cosBeta tanBeta bpsign = 0 ∧
    orth.g_12 R Bp hy dphidy cosBeta tanBeta bpsign = 0 ∧
    orth.g_13 R Bp hy dphidy cosBeta tanBeta bpsign = 0 :=
  ⟨orth_g11_eq .., nonorth_g11_eq .., orth_g_33_eq .., nonorth_g_33_eq .., orth_g12_eq .., orth_g13_eq ..,
    orth_g_12_eq .., orth_g_13_eq ..⟩

/-! ## 4. nonorth at β = 0 is orth -/

/-- at tanBeta = 0, cosBeta = 1 every nonorth component (and Jcheck) equals the orth one, for any bpsign
(no hypothesis needed: |Bp| only occurs multiplied by tanBeta = 0) -/
theorem nonorth_reduces_to_orth (R Bp hy dphidy bpsign : ℝ) :
    nonorth.g11 R Bp hy dphidy 1 0 bpsign = orth.g11 R Bp hy dphidy 1 0 bpsign ∧
    nonorth.g22 R Bp hy dphidy 1 0 bpsign = orth.g22 R Bp hy dphidy 1 0 bpsign ∧
    nonorth.g33 R Bp hy dphidy 1 0 bpsign = orth.g33 R Bp hy dphidy 1 0 bpsign ∧
    nonorth.g12 R Bp hy dphidy 1 0 bpsign = orth.g12 R Bp hy dphidy 1 0 bpsign ∧
    nonorth.g13 R Bp hy dphidy 1 0 bpsign = orth.g13 R Bp hy dphidy 1 0 bpsign ∧
    nonorth.g23 R Bp hy dphidy 1 0 bpsign = orth.g23 R Bp hy dphidy 1 0 bpsign ∧
    nonorth.J R Bp hy dphidy 1 0 bpsign = orth.J R Bp hy dphidy 1 0 bpsign ∧
    nonorth.g_11 R Bp hy dphidy 1 0 bpsign = orth.g_11 R Bp hy dphidy 1 0 bpsign ∧
    nonorth.g_22 R Bp hy dphidy 1 0 bpsign = orth.g_22 R Bp hy dphidy 1 0 bpsign ∧
    nonorth.g_33 R Bp hy dphidy 1 0 bpsign = orth.g_33 R Bp hy dphidy 1 0 bpsign ∧
    nonorth.g_12 R Bp hy dphidy 1 0 bpsign = orth.g_12 R Bp hy dphidy 1 0 bpsign ∧
    nonorth.g_13 R Bp hy dphidy 1 0 bpsign = orth.g_13 R Bp hy dphidy 1 0 bpsign ∧
    nonorth.g_23 R Bp hy dphidy 1 0 bpsign = orth.g_23 R Bp hy dphidy 1 0 bpsign ∧
    nonorth.Jcheck R Bp hy dphidy 1 0 bpsign = orth.Jcheck R Bp hy dphidy 1 0 bpsign := by
  refine ⟨?_, ?_, ?_, ?_, ?_, ?_, ?_, ?_, ?_, ?_, ?_, ?_, ?_, ?_⟩
  all_goals
    first
    | (nf_all; close_ring)
    | (rw [nonorth_Jcheck_eq, orth_Jcheck_eq]; refine div_sqrt_congr rfl ?_; nf_all; unfold det3; ring1)

/-! ## 5. g_23 against the zShift integrand -/

/-- `hy ·` (generated `zShiftIntegrand`) is `hy · Bt/(R·|Bp|)` when Bt = fpol(psi)/R and √(Bp_R²+Bp_Z²) = |Bp| -/
theorem zShiftIntegrand_eq (Bp_R Bp_Z : ℝ → ℝ → ℝ) (fpol : ℝ → ℝ) (psi : ℝ → ℝ → ℝ) (R Z Bt Bp hy : ℝ)
    (hBt : Bt = fpol (psi R Z) / R) (hBp : Real.sqrt ((Bp_R R Z) ^ 2 + (Bp_Z R Z) ^ 2) = |Bp|) :
    hy * zShiftIntegrand Bp_R Bp_Z fpol psi R Z = hy * (Bt / (R * |Bp|)) := by
  unfold zShiftIntegrand
  rw [hBp, hBt]

/-- nonorth branch: `g_23 = g_33 · ∂zShift/∂y` with dphidy from geometry2, for both signs of Bp -/
theorem g23_matches_zshift_nonorth {R Bp hy Bt cosBeta tanBeta bpsign : ℝ} (hR : R ≠ 0) (hB : Bp ≠ 0)
    (hs : bpsign = 1 ∨ bpsign = -1) (habs : |Bp| = bpsign * Bp) :
    nonorth.g_23 R Bp hy (Gen.R.Metric.dphidy hy Bt Bp R) cosBeta tanBeta bpsign =
    nonorth.g_33 R Bp hy (Gen.R.Metric.dphidy hy Bt Bp R) cosBeta tanBeta bpsign * (hy * (Bt / (R * |Bp|))) := by
  nf_nonorth
  rw [dphidy_eq, habs]
  rcases hs with rfl | rfl <;> metric_tac

/-- orth branch: `g_23 = g_33 · ∂zShift/∂y` with dphidy from geometry2, for both signs of Bp -/
theorem g23_matches_zshift_orth {R Bp hy Bt cosBeta tanBeta bpsign : ℝ} (hR : R ≠ 0) (hB : Bp ≠ 0)
    (hs : bpsign = 1 ∨ bpsign = -1) (habs : |Bp| = bpsign * Bp) :
    orth.g_23 R Bp hy (Gen.R.Metric.dphidy hy Bt Bp R) cosBeta tanBeta bpsign =
    orth.g_33 R Bp hy (Gen.R.Metric.dphidy hy Bt Bp R) cosBeta tanBeta bpsign * (hy * (Bt / (R * |Bp|))) := by
  nf_orth
  rw [dphidy_eq, habs]
  rcases hs with rfl | rfl <;> metric_tac

/-! ## 6. sign parities -/

/-- dphidy (geometry2) is odd in Bp -/
theorem dphidy_odd_Bp (hy Bt Bp R : ℝ) :
    Gen.R.Metric.dphidy hy Bt (-Bp) R = - Gen.R.Metric.dphidy hy Bt Bp R := by
  rw [dphidy_eq, dphidy_eq, neg_mul, div_neg]

/-- dphidy (geometry2) is odd in Bt -/
theorem dphidy_odd_Bt (hy Bt Bp R : ℝ) :
    Gen.R.Metric.dphidy hy (-Bt) Bp R = - Gen.R.Metric.dphidy hy Bt Bp R := by
  rw [dphidy_eq, dphidy_eq, mul_neg, neg_div]

/-- the exact parity table.  Reversing the poloidal field (Bp ↦ −Bp, bpsign ↦ −bpsign, hence dphidy ↦ −dphidy, with
the geometric tanBeta of calcBeta held fixed): x = psi changes direction, so on the nonorth branch the x–y and x–z
components g12, g13, g_12 — each carries exactly one factor `(-bpsign)·tanBeta` — change sign, as do J and Jcheck;
every other component is invariant (g_13 is identically 0 at I = 0; on the orth branch g12 = g13 = g_12 = g_13 = 0, so
there only J and Jcheck change sign).  det(g^{ij}) is invariant (the product g12·g13·g23 is odd·odd·even), which is why
Jcheck = bpsign/√det is odd.  Reversing the toroidal field (Bt ↦ −Bt, i.e. dphidy ↦ −dphidy alone): g13 (nonorth;
identically 0 on orth), g23 and g_23 change sign, everything else — including g12, g_12, g_13 (no dphidy dependence at
I = 0), J and Jcheck — is invariant. -/
theorem sign_parities :
    -- Bp ↦ −Bp, nonorth
    (EvenBp nonorth.g11 ∧ EvenBp nonorth.g22 ∧ EvenBp nonorth.g33 ∧ OddBp nonorth.g12 ∧ OddBp nonorth.g13 ∧
     EvenBp nonorth.g23 ∧ OddBp nonorth.J ∧ EvenBp nonorth.g_11 ∧ EvenBp nonorth.g_22 ∧ EvenBp nonorth.g_33 ∧
     OddBp nonorth.g_12 ∧ EvenBp nonorth.g_13 ∧ EvenBp nonorth.g_23 ∧ OddBp nonorth.Jcheck) ∧
    -- Bp ↦ −Bp, orth
    (EvenBp orth.g11 ∧ EvenBp orth.g22 ∧ EvenBp orth.g33 ∧ EvenBp orth.g12 ∧ EvenBp orth.g13 ∧
     EvenBp orth.g23 ∧ OddBp orth.J ∧ EvenBp orth.g_11 ∧ EvenBp orth.g_22 ∧ EvenBp orth.g_33 ∧
     EvenBp orth.g_12 ∧ EvenBp orth.g_13 ∧ EvenBp orth.g_23 ∧ OddBp orth.Jcheck) ∧
    -- Bt ↦ −Bt, nonorth
    (EvenBt nonorth.g11 ∧ EvenBt nonorth.g22 ∧ EvenBt nonorth.g33 ∧ EvenBt nonorth.g12 ∧ OddBt nonorth.g13 ∧
     OddBt nonorth.g23 ∧ EvenBt nonorth.J ∧ EvenBt nonorth.g_11 ∧ EvenBt nonorth.g_22 ∧ EvenBt nonorth.g_33 ∧
     EvenBt nonorth.g_12 ∧ EvenBt nonorth.g_13 ∧ OddBt nonorth.g_23 ∧ EvenBt nonorth.Jcheck) ∧
    -- Bt ↦ −Bt, orth
    (EvenBt orth.g11 ∧ EvenBt orth.g22 ∧ EvenBt orth.g33 ∧ EvenBt orth.g12 ∧ EvenBt orth.g13 ∧ OddBt orth.g13 ∧
     OddBt orth.g23 ∧ EvenBt orth.J ∧ EvenBt orth.g_11 ∧ EvenBt orth.g_22 ∧ EvenBt orth.g_33 ∧
     EvenBt orth.g_12 ∧ EvenBt orth.g_13 ∧ OddBt orth.g_23 ∧ EvenBt orth.Jcheck) := by
  refine ⟨⟨?_, ?_, ?_, ?_, ?_, ?_, ?_, ?_, ?_, ?_, ?_, ?_, ?_, ?_⟩, ⟨?_, ?_, ?_, ?_, ?_, ?_, ?_, ?_, ?_, ?_, ?_, ?_, ?_, ?_⟩,
    ⟨?_, ?_, ?_, ?_, ?_, ?_, ?_, ?_, ?_, ?_, ?_, ?_, ?_, ?_⟩, ⟨?_, ?_, ?_, ?_, ?_, ?_, ?_, ?_, ?_, ?_, ?_, ?_, ?_, ?_, ?_⟩⟩
  all_goals
    intro R Bp hy d c t s
    first
    | (nf_all; (try rw [abs_neg]); close_ring)
    | (rw [nonorth_Jcheck_eq, nonorth_Jcheck_eq]; refine neg_div_sqrt_congr ?_; nf_all; rw [abs_neg]; unfold det3; ring1)
    | (rw [orth_Jcheck_eq, orth_Jcheck_eq]; refine neg_div_sqrt_congr ?_; nf_all; unfold det3; ring1)
    | (rw [nonorth_Jcheck_eq, nonorth_Jcheck_eq]; refine div_sqrt_congr rfl ?_; nf_all; unfold det3; ring1)
    | (rw [orth_Jcheck_eq, orth_Jcheck_eq]; refine div_sqrt_congr rfl ?_; nf_all; unfold det3; ring1)

/-- the sign fix of the nonorth x–y terms, stated on the generated formulas: with `Bp = bpsign·aB`, `aB = |Bp| > 0`,
`bpsign = ±1`, the covariant component is `g_12 = bpsign·hy·tanBeta/(R·|Bp|)` (= `hy·tanBeta/(R·Bp)`: it has the sign
of bpsign·tanBeta, tanBeta being the geometric angle from calcBeta), and the contravariant one is
`g12 = −bpsign·R·|Bp|·tanBeta/hy`.  Before the fix both lacked the factor `−bpsign`, i.e. were wrong for bpsign = +1. -/
theorem nonorth_g_12_geometric {R aB hy d c t s : ℝ} (haB : 0 < aB) (hs : s = 1 ∨ s = -1) :
    nonorth.g_12 R (s * aB) hy d c t s = s * hy * t / (R * aB) ∧
    nonorth.g_12 R (s * aB) hy d c t s = hy * t / (R * (s * aB)) ∧
    nonorth.g12 R (s * aB) hy d c t s = -s * R * aB * t / hy := by
  have habs : |s * aB| = aB := by
    rcases hs with rfl | rfl
    · rw [one_mul, abs_of_pos haB]
    · rw [neg_one_mul, abs_neg, abs_of_pos haB]
  have haB0 : aB ≠ 0 := ne_of_gt haB
  refine ⟨?_, ?_, ?_⟩
  · rw [nonorth_g_12_eq, habs]; ring
  · rw [nonorth_g_12_eq, habs]
    rcases hs with rfl | rfl
    · rw [one_mul]; ring
    · by_cases hR : R = 0
      · subst hR; simp
      · field_simp
  · rw [nonorth_g12_eq, habs]; ring

/-! ## 7. displacement products -/

/-- exact statement for an affine psi with constant gradient G = (Gx, Gz) and a displacement δ = (dx, dz) with
G·δ ≠ 0 (which already forces G ≠ 0 and δ ≠ 0): with cosβ := (δ·G)/(|δ||G|),
(δ·δ)/(G·δ)² = 1/(|G|·cosβ)² -/
theorem displacement_products {Gx Gz dx dz : ℝ} (hGd : Gx * dx + Gz * dz ≠ 0) :
    (dx * dx + dz * dz) / (Gx * dx + Gz * dz) ^ 2 =
    1 / (Real.sqrt (Gx ^ 2 + Gz ^ 2) *
      ((dx * Gx + dz * Gz) / (Real.sqrt (dx ^ 2 + dz ^ 2) * Real.sqrt (Gx ^ 2 + Gz ^ 2)))) ^ 2 :=
  displacement_core hGd

/-- nonorth `g_11` is that displacement product when |∇psi| = R·|Bp| and cosBeta is the angle between the displacement
and ∇psi -/
theorem g_11_is_displacement_product {R Bp hy dphidy cosBeta tanBeta bpsign Gx Gz dx dz : ℝ}
    (hGd : Gx * dx + Gz * dz ≠ 0) (hG : Real.sqrt (Gx ^ 2 + Gz ^ 2) = R * |Bp|)
    (hcos : cosBeta = (dx * Gx + dz * Gz) / (Real.sqrt (dx ^ 2 + dz ^ 2) * (R * |Bp|))) :
    nonorth.g_11 R Bp hy dphidy cosBeta tanBeta bpsign = (dx * dx + dz * dz) / (Gx * dx + Gz * dz) ^ 2 := by
  rw [displacement_products hGd, hG, ← hcos, nonorth_g_11_eq]
  rw [mul_pow, mul_pow, mul_pow, mul_pow, sq_abs]

/-! ## 8. the hypotheses are satisfiable: every theorem above instantiated at concrete numbers
(R=2, Bp=-1/2, bpsign=-1, hy=1/3, tanBeta=3/4, cosBeta=4/5, dphidy=1/5) -/

section examples
private theorem e_abs : |(-1 / 2 : ℝ)| = (-1) * (-1 / 2) := by rw [abs_of_neg (by norm_num)]; norm_num

example := nonorth_inverse (R := 2) (Bp := -1 / 2) (hy := 1 / 3) (dphidy := 1 / 5) (cosBeta := 4 / 5)
  (tanBeta := 3 / 4) (bpsign := -1) (by norm_num) (by norm_num) (by norm_num) (Or.inr rfl) e_abs (by norm_num)
example := orth_inverse (R := 2) (Bp := -1 / 2) (hy := 1 / 3) (dphidy := 1 / 5) (cosBeta := 4 / 5)
  (tanBeta := 3 / 4) (bpsign := -1) (by norm_num) (by norm_num) (by norm_num) (Or.inr rfl)
example := nonorth_jacobian_det (R := 2) (Bp := -1 / 2) (hy := 1 / 3) (dphidy := 1 / 5) (cosBeta := 4 / 5)
  (tanBeta := 3 / 4) (bpsign := -1) (by norm_num) (by norm_num) (by norm_num) (Or.inr rfl) e_abs (by norm_num)
example := orth_jacobian_det (R := 2) (Bp := -1 / 2) (hy := 1 / 3) (dphidy := 1 / 5) (cosBeta := 4 / 5)
  (tanBeta := 3 / 4) (bpsign := -1) (by norm_num) (by norm_num) (by norm_num) (Or.inr rfl)
example := nonorth_jcheck_eq_J (R := 2) (Bp := -1 / 2) (hy := 1 / 3) (dphidy := 1 / 5) (cosBeta := 4 / 5)
  (tanBeta := 3 / 4) (bpsign := -1) (by norm_num) (by norm_num) (by norm_num) (Or.inr rfl) e_abs (by norm_num)
example := orth_jcheck_eq_J (R := 2) (Bp := -1 / 2) (hy := 1 / 3) (dphidy := 1 / 5) (cosBeta := 4 / 5)
  (tanBeta := 3 / 4) (bpsign := -1) (by norm_num) (by norm_num) (by norm_num) (Or.inr rfl) e_abs
example := g23_matches_zshift_nonorth (R := 2) (Bp := -1 / 2) (hy := 1 / 3) (Bt := 3 / 10) (cosBeta := 4 / 5)
  (tanBeta := 3 / 4) (bpsign := -1) (by norm_num) (by norm_num) (Or.inr rfl) e_abs
example := g23_matches_zshift_orth (R := 2) (Bp := -1 / 2) (hy := 1 / 3) (Bt := 3 / 10) (cosBeta := 4 / 5)
  (tanBeta := 3 / 4) (bpsign := -1) (by norm_num) (by norm_num) (Or.inr rfl) e_abs
example := nonorth_g_12_geometric (R := 2) (aB := 1 / 2) (hy := 1 / 3) (d := 1 / 5) (c := 4 / 5) (t := 3 / 4)
  (s := -1) (by norm_num) (Or.inr rfl)
/-- zShiftIntegrand_eq: Bp_R = 3/10, Bp_Z = -2/5 (so √(Bp_R²+Bp_Z²) = 1/2 = |Bp|), fpol = 3/5, R = 2, Bt = 3/10 -/
example := zShiftIntegrand_eq (fun _ _ => 3 / 10) (fun _ _ => -2 / 5) (fun _ => 3 / 5) (fun _ _ => 0) 2 0 (3 / 10)
  (-1 / 2) (1 / 3) (by norm_num) (by
    rw [show ((3 / 10 : ℝ)) ^ 2 + (-2 / 5) ^ 2 = (1 / 2) ^ 2 by norm_num, Real.sqrt_sq (by norm_num),
      abs_of_neg (by norm_num)]
    norm_num)
/-- displacement_products: G = (3, 4), δ = (1, 0) -/
example := displacement_products (Gx := 3) (Gz := 4) (dx := 1) (dz := 0) (by norm_num)
/-- g_11_is_displacement_product: G = (0, 1) (|G| = 1 = R|Bp|), δ = (3/5, 4/5) so that cosβ = 4/5 -/
example := g_11_is_displacement_product (R := 2) (Bp := -1 / 2) (hy := 1 / 3) (dphidy := 1 / 5) (cosBeta := 4 / 5)
  (tanBeta := 3 / 4) (bpsign := -1) (Gx := 0) (Gz := 1) (dx := 3 / 5) (dz := 4 / 5) (by norm_num)
  (by rw [abs_of_neg (by norm_num)]; norm_num)
  (by
    rw [show ((3 / 5 : ℝ)) ^ 2 + (4 / 5) ^ 2 = 1 ^ 2 by norm_num, Real.sqrt_sq (by norm_num),
      abs_of_neg (by norm_num)]
    norm_num)
end examples

/-! ## 9. g11 = |∇ψ|², g_11 = squared displacement between neighbouring flux surfaces per unit dx

x = ψ, so g11 = ∇x·∇x = |∇ψ|².  geometry1 sets Brxy = ψ_Z/R, Bzxy = −ψ_R/R, Bpxy = sqrt(Brxy² + Bzxy²) = |∇ψ|/|R| (Props/C03
`Bpxy_sq`, `Bpxy_eq_gradpsi_over_R`) and gives it the sign bpsign. -/

/-- with `Bp = |∇ψ|/R` the generated `g11` (both branches) is `ψ_R² + ψ_Z² = |∇ψ|²` -/
theorem g11_eq_gradpsi_sq {R psiR psiZ : ℝ} (hy dphidy cosBeta tanBeta bpsign : ℝ) (hR : R ≠ 0) :
    orth.g11 R (Real.sqrt (psiR ^ 2 + psiZ ^ 2) / R) hy dphidy cosBeta tanBeta bpsign = psiR ^ 2 + psiZ ^ 2 ∧
    nonorth.g11 R (Real.sqrt (psiR ^ 2 + psiZ ^ 2) / R) hy dphidy cosBeta tanBeta bpsign = psiR ^ 2 + psiZ ^ 2 := by
  have h : (R * (Real.sqrt (psiR ^ 2 + psiZ ^ 2) / R)) ^ 2 = psiR ^ 2 + psiZ ^ 2 := by
    rw [mul_div_cancel₀ _ hR, Real.sq_sqrt (by positivity)]
  exact ⟨by rw [orth_g11_eq, h], by rw [nonorth_g11_eq, h]⟩

/-- the same on the value geometry1 actually assigns: `Bp = s · Bpxy(ψ_Z/R, −ψ_R/R)` with the GENERATED `Bpxy` (Gen/Geom1.lean)
and either sign `s = ±1`, any sign of R -/
theorem g11_eq_gradpsi_sq_Bpxy {R psiR psiZ s : ℝ} (hy dphidy cosBeta tanBeta bpsign : ℝ) (hR : R ≠ 0) (hs : s = 1 ∨ s = -1) :
    orth.g11 R (s * Gen.R.Geom1.Bpxy (psiZ / R) (-psiR / R)) hy dphidy cosBeta tanBeta bpsign = psiR ^ 2 + psiZ ^ 2 ∧
    nonorth.g11 R (s * Gen.R.Geom1.Bpxy (psiZ / R) (-psiR / R)) hy dphidy cosBeta tanBeta bpsign = psiR ^ 2 + psiZ ^ 2 := by
  have hs2 : s ^ 2 = 1 := by rcases hs with rfl | rfl <;> norm_num
  have hB : Gen.R.Geom1.Bpxy (psiZ / R) (-psiR / R) ^ 2 = (psiZ / R) ^ 2 + (-psiR / R) ^ 2 := by
    unfold Gen.R.Geom1.Bpxy; exact Real.sq_sqrt (by positivity)
  have h : (R * (s * Gen.R.Geom1.Bpxy (psiZ / R) (-psiR / R))) ^ 2 = psiR ^ 2 + psiZ ^ 2 := by
    rw [mul_pow, mul_pow, hs2, hB]; field_simp; ring
  exact ⟨by rw [orth_g11_eq, h], by rw [nonorth_g11_eq, h]⟩

/-- orthogonal grid: for ∇ψ = (ψ_R, ψ_Z) ≠ 0 the displacement δ = ∇ψ/|∇ψ|² (along ∇ψ, i.e. across the flux surfaces at constant y)
changes ψ — the x coordinate — by one unit to first order, ∇ψ·δ = 1, and its squared length is the generated covariant `g_11`
at `Bp = |∇ψ|/R`: g_11 is the squared distance between neighbouring flux surfaces per unit dx -/
theorem g_11_is_unit_dx_displacement {R psiR psiZ : ℝ} (hy dphidy cosBeta tanBeta bpsign : ℝ) (hR : R ≠ 0)
    (hG : psiR ^ 2 + psiZ ^ 2 ≠ 0) :
    psiR * (psiR / (psiR ^ 2 + psiZ ^ 2)) + psiZ * (psiZ / (psiR ^ 2 + psiZ ^ 2)) = 1 ∧
    (psiR / (psiR ^ 2 + psiZ ^ 2)) ^ 2 + (psiZ / (psiR ^ 2 + psiZ ^ 2)) ^ 2 =
      orth.g_11 R (Real.sqrt (psiR ^ 2 + psiZ ^ 2) / R) hy dphidy cosBeta tanBeta bpsign ∧
    orth.g_11 R (Real.sqrt (psiR ^ 2 + psiZ ^ 2) / R) hy dphidy cosBeta tanBeta bpsign *
      orth.g11 R (Real.sqrt (psiR ^ 2 + psiZ ^ 2) / R) hy dphidy cosBeta tanBeta bpsign = 1 := by
  have h : (R * (Real.sqrt (psiR ^ 2 + psiZ ^ 2) / R)) ^ 2 = psiR ^ 2 + psiZ ^ 2 := by
    rw [mul_div_cancel₀ _ hR, Real.sq_sqrt (by positivity)]
  refine ⟨by field_simp, ?_, ?_⟩
  · rw [orth_g_11_eq, h]; field_simp
  · rw [orth_g_11_eq, orth_g11_eq, h]; field_simp

/-- `(ψ_R, ψ_Z) ≠ 0` in the form used above -/
theorem gradpsi_sq_ne_zero {psiR psiZ : ℝ} (h : psiR ≠ 0 ∨ psiZ ≠ 0) : psiR ^ 2 + psiZ ^ 2 ≠ 0 := by
  rcases h with h | h
  · have := pow_pos (abs_pos.mpr h) 2; rw [sq_abs] at this; nlinarith [sq_nonneg psiZ]
  · have := pow_pos (abs_pos.mpr h) 2; rw [sq_abs] at this; nlinarith [sq_nonneg psiR]

section examples9
/-- ∇ψ = (3, 4), R = 2: |∇ψ| = 5, Bp = 5/2, g11 = 25, δ = (3/25, 4/25), g_11 = 1/25 -/
example := g11_eq_gradpsi_sq (R := 2) (psiR := 3) (psiZ := 4) (1 / 3) (1 / 5) (4 / 5) (3 / 4) 1 (by norm_num)
example := g11_eq_gradpsi_sq_Bpxy (R := 2) (psiR := 3) (psiZ := 4) (s := -1) (1 / 3) (1 / 5) (4 / 5) (3 / 4) (-1) (by norm_num)
  (Or.inr rfl)
example := g_11_is_unit_dx_displacement (R := 2) (psiR := 3) (psiZ := 4) (1 / 3) (1 / 5) (4 / 5) (3 / 4) 1 (by norm_num)
  (gradpsi_sq_ne_zero (Or.inl (by norm_num)))
example : orth.g_11 2 (Real.sqrt ((3 : ℝ) ^ 2 + 4 ^ 2) / 2) (1 / 3) (1 / 5) (4 / 5) (3 / 4) 1 = 1 / 25 ∧
    orth.g11 2 (Real.sqrt ((3 : ℝ) ^ 2 + 4 ^ 2) / 2) (1 / 3) (1 / 5) (4 / 5) (3 / 4) 1 = 25 := by
  have h5 : Real.sqrt ((3 : ℝ) ^ 2 + 4 ^ 2) = 5 := by
    rw [show ((3 : ℝ)) ^ 2 + 4 ^ 2 = 5 ^ 2 by norm_num, Real.sqrt_sq (by norm_num)]
  rw [orth_g_11_eq, orth_g11_eq, h5]; norm_num
end examples9

end HypnoModel.Props.C02
