/-
C08 — block topology, branch-cut indices and global index map.
Model: HypnoModel/Model/Topology.lean and HypnoModel/Model/Tiling.lean.
-/
import HypnoModel.Model.Topology
import HypnoModel.Model.Tiling
import HypnoModel.Gen.Pipeline
import Mathlib.Tactic.IntervalCases

namespace HypnoModel.Props.C08
open Topology

/-- relational characterisation of the BOUT++ if-chain -/
theorem decodeNext_eq (t : Topo) (x : Int) (j : Int) (r : Option Int)
    (h : (x < t.ixseps1 ∧ j = t.jyseps1_1) ∧ r = some (t.jyseps2_2 + 1) ∨
         ¬(x < t.ixseps1 ∧ j = t.jyseps1_1) ∧
         ((x < t.ixseps1 ∧ j = t.jyseps2_2) ∧ r = some (t.jyseps1_1 + 1) ∨
          ¬(x < t.ixseps1 ∧ j = t.jyseps2_2) ∧
          ((t.jyseps2_1 ≠ t.jyseps1_2 ∧ x < t.ixseps2 ∧ j = t.jyseps2_1) ∧ r = some (t.jyseps1_2 + 1) ∨
           ¬(t.jyseps2_1 ≠ t.jyseps1_2 ∧ x < t.ixseps2 ∧ j = t.jyseps2_1) ∧
           ((t.jyseps2_1 ≠ t.jyseps1_2 ∧ x < t.ixseps2 ∧ j = t.jyseps1_2) ∧ r = some (t.jyseps2_1 + 1) ∨
            ¬(t.jyseps2_1 ≠ t.jyseps1_2 ∧ x < t.ixseps2 ∧ j = t.jyseps1_2) ∧
            ((j = t.ny - 1 ∨ (t.jyseps2_1 ≠ t.jyseps1_2 ∧ j = t.ny_inner - 1)) ∧ r = none ∨
             ¬(j = t.ny - 1 ∨ (t.jyseps2_1 ≠ t.jyseps1_2 ∧ j = t.ny_inner - 1)) ∧ r = some (j + 1)))))) :
    decodeNext t x j = r := by
  unfold decodeNext
  rcases h with ⟨h1, rfl⟩ | ⟨h1, h⟩
  · rw [if_pos h1]
  rw [if_neg h1]
  rcases h with ⟨h2, rfl⟩ | ⟨h2, h⟩
  · rw [if_pos h2]
  rw [if_neg h2]
  rcases h with ⟨h3, rfl⟩ | ⟨h3, h⟩
  · rw [if_pos h3]
  rw [if_neg h3]
  rcases h with ⟨h4, rfl⟩ | ⟨h4, h⟩
  · rw [if_pos h4]
  rw [if_neg h4]
  rcases h with ⟨h5, rfl⟩ | ⟨h5, rfl⟩
  · rw [if_pos h5]
  · rw [if_neg h5]

theorem segOf2 (x0 x1 x : Nat) (hx : x < x0 + x1) : segOf [x0, x1] x = if x < x0 then 0 else 1 := by
  simp only [segOf]
  split
  · rfl
  · rw [if_pos (by omega)]

theorem segOf3 (x0 x1 x2 x : Nat) (hx : x < x0 + x1 + x2) :
    segOf [x0, x1, x2] x = if x < x0 then 0 else if x < x0 + x1 then 1 else 2 := by
  simp only [segOf]
  by_cases h0 : x < x0
  · simp [h0]
  · by_cases h1 : x < x0 + x1
    · have : x - x0 < x1 := by omega
      simp [h0, h1, this]
    · have h2 : ¬ x - x0 < x1 := by omega
      have h3 : x - x0 - x1 < x2 := by omega
      simp [h0, h1, h2, h3]

/-! ### single null (lower or upper: the index structure is the same) -/

def encSN (y0 y1 y2 x0 x1 nyTot : Nat) : Topo :=
  let j11 : Int := (y0 : Int) - 1
  let j22 : Int := ((y0 + y1 : Nat) : Int) - 1
  let mid : Int := min (max ((nyTot / 2 : Nat) : Int) (j11 + 1)) j22
  ⟨((x0 + x1 : Nat) : Int), ((y0 + y1 + y2 : Nat) : Int), x0, ((x0 + x1 : Nat) : Int), j11, mid, mid, mid, j22⟩

theorem encode_SN (y0 y1 y2 x0 x1 nyTot sep : Nat) (dn : DNType) :
    encode [x0, x1] sep dn [y0, y1, y2] nyTot = some (encSN y0 y1 y2 x0 x1 nyTot) := by
  simp [encode, encodeX, encSN, Nat.add_assoc]

/-- **single null, every size vector and every total ny (any guard count)**: the written integers, read with
    their documented meaning, give exactly the adjacency of the region structure -/
theorem decode_encode_SN (y0 y1 y2 x0 x1 nyTot : Nat) (h0 : 1 ≤ y0) (h1 : 1 ≤ y1) (h2 : 1 ≤ y2)
    (hx0 : 1 ≤ x0) (hx1 : 1 ≤ x1) (x : Nat) (hx : x < x0 + x1) (r : Nat) (hr : r < 3) (j : Nat)
    (hlo : sumTo [y0, y1, y2] r ≤ j) (hhi : j < sumTo [y0, y1, y2] (r + 1)) :
    decodeNext (encSN y0 y1 y2 x0 x1 nyTot) x j = regionNext upperSN [x0, x1] [y0, y1, y2] r x j := by
  apply decodeNext_eq
  generalize nyTot / 2 = m
  unfold regionNext
  rw [segOf2 x0 x1 x hx]
  rcases Nat.lt_or_ge (j + 1) (sumTo [y0, y1, y2] (r + 1)) with hlast | hlast <;>
  rcases Nat.lt_or_ge x x0 with hs1 | hs1 <;>
  interval_cases r <;> simp [sumTo] at hlo hhi hlast <;>
  simp only [encSN, sumTo, upperSN, List.take, List.sum_cons, List.sum_nil] <;>
  simp [hlast, hs1, Nat.not_lt.mpr hlast, Nat.not_lt.mpr hs1] <;>
  omega

/-- the indices are ordered as a single null requires, whatever the leg lengths and the guard count -/
theorem ordered_SN (y0 y1 y2 x0 x1 nyTot : Nat) (h0 : 1 ≤ y0) (h1 : 1 ≤ y1) (h2 : 1 ≤ y2) (hx1 : 1 ≤ x1) :
    let t := encSN y0 y1 y2 x0 x1 nyTot
    (-1 : Int) ≤ t.jyseps1_1 ∧ t.jyseps1_1 < t.jyseps2_1 ∧ t.jyseps2_1 = t.jyseps1_2 ∧ t.jyseps1_2 ≤ t.jyseps2_2 ∧
      t.jyseps2_2 < t.ny - 1 ∧ t.ixseps1 < t.ixseps2 := by
  intro t
  generalize hm : nyTot / 2 = m
  have e1 : t.jyseps1_1 = (y0 : Int) - 1 := rfl
  have e2 : t.jyseps2_1 = min (max ((nyTot / 2 : Nat) : Int) ((y0 : Int) - 1 + 1)) (((y0 + y1 : Nat) : Int) - 1) := rfl
  have e3 : t.jyseps1_2 = t.jyseps2_1 := rfl
  have e4 : t.jyseps2_2 = ((y0 + y1 : Nat) : Int) - 1 := rfl
  have e5 : t.ny = ((y0 + y1 + y2 : Nat) : Int) := rfl
  have e6 : t.ixseps1 = (x0 : Int) := rfl
  have e7 : t.ixseps2 = ((x0 + x1 : Nat) : Int) := rfl
  rw [e3, e1, e2, e4, e5, e6, e7, hm]
  omega

/-- the formula used before the fix (`ny_with_guards // 2`, unclamped) is *not* ordered for strongly unequal legs -/
theorem sn_mid_unclamped_not_ordered : ∃ y0 y1 y2 g : Nat, 1 ≤ y0 ∧ 1 ≤ y1 ∧ 1 ≤ y2 ∧
    ¬ ((((y0 + y1 + y2 + 2 * g) / 2 : Nat) : Int) ≤ ((y0 + y1 : Nat) : Int) - 1) :=
  ⟨3, 4, 20, 0, by decide, by decide, by decide, by decide⟩

/-! ### double null -/

def encDN (y0 y1 y2 y3 y4 y5 : Nat) (nx ix1 ix2 : Int) : Topo :=
  ⟨nx, ((y0 + y1 + y2 + y3 + y4 + y5 : Nat) : Int), ix1, ix2, (y0 : Int) - 1, ((y0 + y1 : Nat) : Int) - 1,
   ((y0 + y1 + y2 : Nat) : Int), ((y0 + y1 + y2 + y3 : Nat) : Int) - 1, ((y0 + y1 + y2 + y3 + y4 : Nat) : Int) - 1⟩

theorem encode_LDN (y0 y1 y2 y3 y4 y5 x0 x1 x2 nyTot sep : Nat) (hx2 : 1 ≤ x2) :
    encode [x0, x1, x2] sep .lower [y0, y1, y2, y3, y4, y5] nyTot
      = some (encDN y0 y1 y2 y3 y4 y5 ((x0 + x1 + x2 : Nat) : Int) x0 ((x0 + x1 : Nat) : Int)) := by
  simp [encode, encodeX, encDN, Nat.add_assoc]
  intro h; omega

theorem encode_UDN (y0 y1 y2 y3 y4 y5 x0 x1 x2 nyTot sep : Nat) (hx12 : 1 ≤ x1 + x2) :
    encode [x0, x1, x2] sep .upper [y0, y1, y2, y3, y4, y5] nyTot
      = some (encDN y0 y1 y2 y3 y4 y5 ((x0 + x1 + x2 : Nat) : Int) ((x0 + x1 : Nat) : Int) x0) := by
  simp [encode, encodeX, encDN, Nat.add_assoc]
  intro h; omega

theorem encode_CDN (y0 y1 y2 y3 y4 y5 x0 x1 nyTot sep : Nat) (dn : DNType) :
    encode [x0, x1] sep dn [y0, y1, y2, y3, y4, y5] nyTot
      = some (encDN y0 y1 y2 y3 y4 y5 ((x0 + x1 : Nat) : Int) x0 x0) := by
  simp [encode, encodeX, encDN, Nat.add_assoc]

/-- **lower disconnected double null**, three radial segments, six symbolic region sizes -/
theorem decode_encode_LDN (y0 y1 y2 y3 y4 y5 x0 x1 x2 : Nat)
    (h0 : 1 ≤ y0) (h1 : 1 ≤ y1) (h2 : 1 ≤ y2) (h3 : 1 ≤ y3) (h4 : 1 ≤ y4) (h5 : 1 ≤ y5)
    (x : Nat) (hx : x < x0 + x1 + x2) (r : Nat) (hr : r < 6) (j : Nat)
    (hlo : sumTo [y0, y1, y2, y3, y4, y5] r ≤ j) (hhi : j < sumTo [y0, y1, y2, y3, y4, y5] (r + 1)) :
    decodeNext (encDN y0 y1 y2 y3 y4 y5 ((x0 + x1 + x2 : Nat) : Int) x0 ((x0 + x1 : Nat) : Int)) x j
      = regionNext upperLDN [x0, x1, x2] [y0, y1, y2, y3, y4, y5] r x j := by
  apply decodeNext_eq
  unfold regionNext
  rw [segOf3 x0 x1 x2 x hx]
  rcases Nat.lt_or_ge (j + 1) (sumTo [y0, y1, y2, y3, y4, y5] (r + 1)) with hlast | hlast <;>
  rcases Nat.lt_or_ge x x0 with hs1 | hs1 <;>
  rcases Nat.lt_or_ge x (x0 + x1) with hs2 | hs2 <;>
  interval_cases r <;> simp [sumTo] at hlo hhi hlast <;>
  simp only [encDN, sumTo, upperLDN, List.take, List.sum_cons, List.sum_nil] <;>
  simp [hlast, hs1, hs2, Nat.not_lt.mpr hlast, Nat.not_lt.mpr hs1, Nat.not_lt.mpr hs2] <;>
  omega

/-- **upper disconnected double null**: ixseps1 (lower X-point) is the outer separatrix -/
theorem decode_encode_UDN (y0 y1 y2 y3 y4 y5 x0 x1 x2 : Nat)
    (h0 : 1 ≤ y0) (h1 : 1 ≤ y1) (h2 : 1 ≤ y2) (h3 : 1 ≤ y3) (h4 : 1 ≤ y4) (h5 : 1 ≤ y5)
    (x : Nat) (hx : x < x0 + x1 + x2) (r : Nat) (hr : r < 6) (j : Nat)
    (hlo : sumTo [y0, y1, y2, y3, y4, y5] r ≤ j) (hhi : j < sumTo [y0, y1, y2, y3, y4, y5] (r + 1)) :
    decodeNext (encDN y0 y1 y2 y3 y4 y5 ((x0 + x1 + x2 : Nat) : Int) ((x0 + x1 : Nat) : Int) x0) x j
      = regionNext upperUDN [x0, x1, x2] [y0, y1, y2, y3, y4, y5] r x j := by
  apply decodeNext_eq
  unfold regionNext
  rw [segOf3 x0 x1 x2 x hx]
  rcases Nat.lt_or_ge (j + 1) (sumTo [y0, y1, y2, y3, y4, y5] (r + 1)) with hlast | hlast <;>
  rcases Nat.lt_or_ge x x0 with hs1 | hs1 <;>
  rcases Nat.lt_or_ge x (x0 + x1) with hs2 | hs2 <;>
  interval_cases r <;> simp [sumTo] at hlo hhi hlast <;>
  simp only [encDN, sumTo, upperUDN, List.take, List.sum_cons, List.sum_nil] <;>
  simp [hlast, hs1, hs2, Nat.not_lt.mpr hlast, Nat.not_lt.mpr hs1, Nat.not_lt.mpr hs2] <;>
  omega

/-- **connected double null**, two radial segments -/
theorem decode_encode_CDN (y0 y1 y2 y3 y4 y5 x0 x1 : Nat)
    (h0 : 1 ≤ y0) (h1 : 1 ≤ y1) (h2 : 1 ≤ y2) (h3 : 1 ≤ y3) (h4 : 1 ≤ y4) (h5 : 1 ≤ y5)
    (x : Nat) (hx : x < x0 + x1) (r : Nat) (hr : r < 6) (j : Nat)
    (hlo : sumTo [y0, y1, y2, y3, y4, y5] r ≤ j) (hhi : j < sumTo [y0, y1, y2, y3, y4, y5] (r + 1)) :
    decodeNext (encDN y0 y1 y2 y3 y4 y5 ((x0 + x1 : Nat) : Int) x0 x0) x j
      = regionNext upperCDN [x0, x1] [y0, y1, y2, y3, y4, y5] r x j := by
  apply decodeNext_eq
  unfold regionNext
  rw [segOf2 x0 x1 x hx]
  rcases Nat.lt_or_ge (j + 1) (sumTo [y0, y1, y2, y3, y4, y5] (r + 1)) with hlast | hlast <;>
  rcases Nat.lt_or_ge x x0 with hs1 | hs1 <;>
  interval_cases r <;> simp [sumTo] at hlo hhi hlast <;>
  simp only [encDN, sumTo, upperCDN, List.take, List.sum_cons, List.sum_nil] <;>
  simp [hlast, hs1, Nat.not_lt.mpr hlast, Nat.not_lt.mpr hs1] <;>
  omega

/-- the double-null indices are strictly ordered for all region sizes ≥ 1 -/
theorem ordered_DN (y0 y1 y2 y3 y4 y5 : Nat) (nx ix1 ix2 : Int)
    (h0 : 1 ≤ y0) (h1 : 1 ≤ y1) (h2 : 1 ≤ y2) (h3 : 1 ≤ y3) (h4 : 1 ≤ y4) (h5 : 1 ≤ y5) :
    let t := encDN y0 y1 y2 y3 y4 y5 nx ix1 ix2
    (-1 : Int) < t.jyseps1_1 + 1 ∧ t.jyseps1_1 < t.jyseps2_1 ∧ t.jyseps2_1 < t.ny_inner - 1 + 1 ∧
      t.ny_inner - 1 < t.jyseps1_2 ∧ t.jyseps1_2 < t.jyseps2_2 ∧ t.jyseps2_2 < t.ny - 1 := by
  simp only [encDN]; omega

/-! ### core only (circular, no X-point): one periodic region -/

def encCore (y0 x0 nyTot : Nat) : Topo :=
  ⟨x0, y0, x0, x0, -1, ((nyTot / 2 : Nat) : Int), ((nyTot / 2 : Nat) : Int), ((nyTot / 2 : Nat) : Int), (y0 : Int) - 1⟩

theorem encode_core (y0 x0 nyTot sep : Nat) (hsep : sep ≠ 0) (dn : DNType) :
    encode [x0] sep dn [y0] nyTot = some (encCore y0 x0 nyTot) := by
  simp [encode, encodeX, encCore, hsep]

theorem decode_encode_core (y0 x0 nyTot : Nat) (h0 : 1 ≤ y0) (x : Nat) (hx : x < x0) (j : Nat) (hj : j < y0) :
    decodeNext (encCore y0 x0 nyTot) x j = regionNext upperCore [x0] [y0] 0 x j := by
  apply decodeNext_eq
  unfold regionNext
  rcases Nat.lt_or_ge (j + 1) y0 with hlast | hlast <;>
  simp [encCore, sumTo, upperCore, segOf, hx, hlast, Nat.not_lt.mpr hlast] <;>
  omega

/-- writing `jyseps2_2 = ny` (one past the last cell, as before the fix) leaves the last core cell without its
    periodic partner under the documented meaning -/
theorem core_jyseps22_eq_ny_breaks_periodicity (y0 x0 m : Nat) (h0 : 1 ≤ y0) (x : Nat) (hx : x < x0) :
    decodeNext ⟨x0, y0, x0, x0, -1, m, m, m, (y0 : Int)⟩ x ((y0 : Int) - 1) = none := by
  apply decodeNext_eq
  simp
  omega

/-! ### the regions tile the global index rectangle exactly once -/

/-- 1-D: every index below the total lies in exactly one of the cumulative-sum slices, for any list of sizes -/
theorem tiling_1d (sizes : List Nat) (j : Nat) :
    j < Tiling.total sizes ↔ ∃ s ∈ Tiling.slices sizes 0, s.1 ≤ j ∧ j < s.2 := by
  have := Tiling.tiling sizes 0 j
  simpa using this

theorem slices_disjoint (sizes : List Nat) : (Tiling.slices sizes 0).Pairwise (fun a b => a.2 ≤ b.1) :=
  Tiling.slices_disjoint sizes 0

/-- 2-D: (x, y) lies in the rectangle iff it lies in the product of one x-slice and one y-slice -/
theorem tiling_2d (xs ys : List Nat) (x y : Nat) :
    (x < Tiling.total xs ∧ y < Tiling.total ys) ↔
      ∃ sx ∈ Tiling.slices xs 0, ∃ sy ∈ Tiling.slices ys 0, (sx.1 ≤ x ∧ x < sx.2) ∧ (sy.1 ≤ y ∧ y < sy.2) := by
  rw [tiling_1d xs x, tiling_1d ys y]
  constructor
  · rintro ⟨⟨sx, hsx, hx⟩, ⟨sy, hsy, hy⟩⟩; exact ⟨sx, hsx, sy, hsy, hx, hy⟩
  · rintro ⟨sx, hsx, sy, hsy, hx, hy⟩; exact ⟨⟨sx, hsx, hx⟩, ⟨sy, hsy, hy⟩⟩

example : Tiling.slices [3, 4, 20] 0 = [(0, 3), (3, 7), (7, 27)] := by decide

-- non-vacuity of the decode theorems: sizes [3,4,20], the witness of the pre-fix defect, are covered
example : decodeNext (encSN 3 4 20 2 2 27) 0 6 = some 3 := by decide
example : decodeNext (encSN 3 4 20 2 2 27) 3 6 = some 7 := by decide


/-! ## shared y-edges: `MeshRegion.getRZBoundary` (guard and copies regenerated from the source: Gen/Pipeline.lean) -/

/-- the first and the last row (in y) of one position array of a region -/
structure Edges (P : Type) where
  first : List P
  last : List P

/-- getRZBoundary on one array of one region: under the generated guard the last row is overwritten with the first row of the upper
neighbour (which is the region itself for the periodic core of a single null) -/
def applyRZ {P : Type} (hasUpper upperIsSelf : Bool) (own up : Edges P) : Edges P :=
  if Gen.Pipeline.rzCopyGuard hasUpper upperIsSelf then { own with last := up.first } else own

/-- the points on an edge shared by two regions coincide exactly: the upper row of a region *is* the lower row of its upper neighbour -/
theorem shared_edge_coincides {P : Type} (upperIsSelf : Bool) (own up : Edges P) :
    (applyRZ true upperIsSelf own up).last = up.first := by
  cases upperIsSelf <;> simp [applyRZ, Gen.Pipeline.rzCopyGuard]

/-- in particular the periodic core closes on itself -/
theorem periodic_core_closes {P : Type} (own : Edges P) : (applyRZ true true own own).last = own.first :=
  shared_edge_coincides true own own

/-- a target edge (no upper neighbour) is left alone, and the lower row is never touched -/
theorem target_edge_unchanged {P : Type} (b : Bool) (own up : Edges P) : applyRZ false b own up = own := by
  cases b <;> simp [applyRZ, Gen.Pipeline.rzCopyGuard]

theorem lower_row_untouched {P : Type} (a b : Bool) (own up : Edges P) : (applyRZ a b own up).first = own.first := by
  unfold applyRZ; split <;> rfl

/-- the copy is made for R and Z, at the y-faces and at the corners, from the neighbour's first row to the region's last row -/
theorem rz_copies_complete :
    Gen.Pipeline.rzCopies = [("Rxy", "ylow", -1, 0), ("Zxy", "ylow", -1, 0), ("Rxy", "corners", -1, 0), ("Zxy", "corners", -1, 0)] := rfl

example : (applyRZ true true (⟨[1, 2], [7, 8]⟩ : Edges Nat) ⟨[1, 2], [7, 8]⟩).last = [1, 2] := by decide

end HypnoModel.Props.C08
