/-
C08 — block topology, branch-cut indices and global index map.
Model: HypnoModel/Model/Topology.lean and HypnoModel/Model/Tiling.lean.
-/
import HypnoModel.Props.C08XInd
import HypnoModel.Model.Topology
import HypnoModel.Model.Tiling
import HypnoModel.Gen.Pipeline
import Mathlib.Tactic.IntervalCases

namespace HypnoModel.Props.C08
open Topology

/-- relational characterisation of the BOUT++ if-chain -/
theorem decodeNext_eq (t : Topo) (x : Int) (j : Int) (r : Option Int)
    (h : (x < t.ixseps1 ∧ j = t.jyseps1_1) ∧ r = some (t.jyseps2_2 + 1) ∨
         ¬(x < t.ixseps1 ∧ j = t.jyseps1_1) ∧
         ((x < t.ixseps1 ∧ j = t.jyseps2_2) ∧ r = some (t.jyseps1_1 + 1) ∨
          ¬(x < t.ixseps1 ∧ j = t.jyseps2_2) ∧
          ((t.jyseps2_1 ≠ t.jyseps1_2 ∧ x < t.ixseps2 ∧ j = t.jyseps2_1) ∧ r = some (t.jyseps1_2 + 1) ∨
           ¬(t.jyseps2_1 ≠ t.jyseps1_2 ∧ x < t.ixseps2 ∧ j = t.jyseps2_1) ∧
           ((t.jyseps2_1 ≠ t.jyseps1_2 ∧ x < t.ixseps2 ∧ j = t.jyseps1_2) ∧ r = some (t.jyseps2_1 + 1) ∨
            ¬(t.jyseps2_1 ≠ t.jyseps1_2 ∧ x < t.ixseps2 ∧ j = t.jyseps1_2) ∧
            ((j = t.ny - 1 ∨ (t.jyseps2_1 ≠ t.jyseps1_2 ∧ j = t.ny_inner - 1)) ∧ r = none ∨
             ¬(j = t.ny - 1 ∨ (t.jyseps2_1 ≠ t.jyseps1_2 ∧ j = t.ny_inner - 1)) ∧ r = some (j + 1)))))) :
    decodeNext t x j = r := by
  unfold decodeNext
  rcases h with ⟨h1, rfl⟩ | ⟨h1, h⟩
  · rw [if_pos h1]
  rw [if_neg h1]
  rcases h with ⟨h2, rfl⟩ | ⟨h2, h⟩
  · rw [if_pos h2]
  rw [if_neg h2]
  rcases h with ⟨h3, rfl⟩ | ⟨h3, h⟩
  · rw [if_pos h3]
  rw [if_neg h3]
  rcases h with ⟨h4, rfl⟩ | ⟨h4, h⟩
  · rw [if_pos h4]
  rw [if_neg h4]
  rcases h with ⟨h5, rfl⟩ | ⟨h5, rfl⟩
  · rw [if_pos h5]
  · rw [if_neg h5]

theorem segOf2 (x0 x1 x : Nat) (hx : x < x0 + x1) : segOf [x0, x1] x = if x < x0 then 0 else 1 := by
  simp only [segOf]
  split
  · rfl
  · rw [if_pos (by omega)]

theorem segOf3 (x0 x1 x2 x : Nat) (hx : x < x0 + x1 + x2) :
    segOf [x0, x1, x2] x = if x < x0 then 0 else if x < x0 + x1 then 1 else 2 := by
  simp only [segOf]
  by_cases h0 : x < x0
  · simp [h0]
  · by_cases h1 : x < x0 + x1
    · have : x - x0 < x1 := by omega
      simp [h0, h1, this]
    · have h2 : ¬ x - x0 < x1 := by omega
      have h3 : x - x0 - x1 < x2 := by omega
      simp [h0, h1, h2, h3]

/-! ### single null (lower or upper: the index structure is the same) -/

def encSN (y0 y1 y2 x0 x1 nyTot : Nat) : Topo :=
  let j11 : Int := (y0 : Int) - 1
  let j22 : Int := ((y0 + y1 : Nat) : Int) - 1
  let mid : Int := min (max ((nyTot / 2 : Nat) : Int) (j11 + 1)) j22
  ⟨((x0 + x1 : Nat) : Int), ((y0 + y1 + y2 : Nat) : Int), x0, ((x0 + x1 : Nat) : Int), j11, mid, mid, mid, j22⟩

theorem encode_SN (y0 y1 y2 x0 x1 nyTot sep : Nat) (dn : DNType) :
    encode [x0, x1] sep dn [y0, y1, y2] nyTot = some (encSN y0 y1 y2 x0 x1 nyTot) := by
  simp [encode, encodeX, encSN, Nat.add_assoc]

/-- **single null, every size vector and every total ny (any guard count)**: the written integers, read with
    their documented meaning, give exactly the adjacency of the region structure -/
theorem decode_encode_SN (y0 y1 y2 x0 x1 nyTot : Nat) (h0 : 1 ≤ y0) (h1 : 1 ≤ y1) (h2 : 1 ≤ y2)
    (hx0 : 1 ≤ x0) (hx1 : 1 ≤ x1) (x : Nat) (hx : x < x0 + x1) (r : Nat) (hr : r < 3) (j : Nat)
    (hlo : sumTo [y0, y1, y2] r ≤ j) (hhi : j < sumTo [y0, y1, y2] (r + 1)) :
    decodeNext (encSN y0 y1 y2 x0 x1 nyTot) x j = regionNext upperSN [x0, x1] [y0, y1, y2] r x j := by
  apply decodeNext_eq
  generalize nyTot / 2 = m
  unfold regionNext
  rw [segOf2 x0 x1 x hx]
  rcases Nat.lt_or_ge (j + 1) (sumTo [y0, y1, y2] (r + 1)) with hlast | hlast <;>
  rcases Nat.lt_or_ge x x0 with hs1 | hs1 <;>
  interval_cases r <;> simp [sumTo] at hlo hhi hlast <;>
  simp only [encSN, sumTo, upperSN, List.take, List.sum_cons, List.sum_nil] <;>
  simp [hlast, hs1, Nat.not_lt.mpr hlast, Nat.not_lt.mpr hs1] <;>
  omega

/-- the indices are ordered as a single null requires, whatever the leg lengths and the guard count -/
theorem ordered_SN (y0 y1 y2 x0 x1 nyTot : Nat) (h0 : 1 ≤ y0) (h1 : 1 ≤ y1) (h2 : 1 ≤ y2) (hx1 : 1 ≤ x1) :
    let t := encSN y0 y1 y2 x0 x1 nyTot
    (-1 : Int) ≤ t.jyseps1_1 ∧ t.jyseps1_1 < t.jyseps2_1 ∧ t.jyseps2_1 = t.jyseps1_2 ∧ t.jyseps1_2 ≤ t.jyseps2_2 ∧
      t.jyseps2_2 < t.ny - 1 ∧ t.ixseps1 < t.ixseps2 := by
  intro t
  generalize hm : nyTot / 2 = m
  have e1 : t.jyseps1_1 = (y0 : Int) - 1 := rfl
  have e2 : t.jyseps2_1 = min (max ((nyTot / 2 : Nat) : Int) ((y0 : Int) - 1 + 1)) (((y0 + y1 : Nat) : Int) - 1) := rfl
  have e3 : t.jyseps1_2 = t.jyseps2_1 := rfl
  have e4 : t.jyseps2_2 = ((y0 + y1 : Nat) : Int) - 1 := rfl
  have e5 : t.ny = ((y0 + y1 + y2 : Nat) : Int) := rfl
  have e6 : t.ixseps1 = (x0 : Int) := rfl
  have e7 : t.ixseps2 = ((x0 + x1 : Nat) : Int) := rfl
  rw [e3, e1, e2, e4, e5, e6, e7, hm]
  omega

/-- the formula used before the fix (`ny_with_guards // 2`, unclamped) is *not* ordered for strongly unequal legs -/
theorem sn_mid_unclamped_not_ordered : ∃ y0 y1 y2 g : Nat, 1 ≤ y0 ∧ 1 ≤ y1 ∧ 1 ≤ y2 ∧
    ¬ ((((y0 + y1 + y2 + 2 * g) / 2 : Nat) : Int) ≤ ((y0 + y1 : Nat) : Int) - 1) :=
  ⟨3, 4, 20, 0, by decide, by decide, by decide, by decide⟩

/-! ### double null -/

def encDN (y0 y1 y2 y3 y4 y5 : Nat) (nx ix1 ix2 : Int) : Topo :=
  ⟨nx, ((y0 + y1 + y2 + y3 + y4 + y5 : Nat) : Int), ix1, ix2, (y0 : Int) - 1, ((y0 + y1 : Nat) : Int) - 1,
   ((y0 + y1 + y2 : Nat) : Int), ((y0 + y1 + y2 + y3 : Nat) : Int) - 1, ((y0 + y1 + y2 + y3 + y4 : Nat) : Int) - 1⟩

theorem encode_LDN (y0 y1 y2 y3 y4 y5 x0 x1 x2 nyTot sep : Nat) (hx2 : 1 ≤ x2) :
    encode [x0, x1, x2] sep .lower [y0, y1, y2, y3, y4, y5] nyTot
      = some (encDN y0 y1 y2 y3 y4 y5 ((x0 + x1 + x2 : Nat) : Int) x0 ((x0 + x1 : Nat) : Int)) := by
  simp [encode, encodeX, encDN, Nat.add_assoc]
  intro h; omega

theorem encode_UDN (y0 y1 y2 y3 y4 y5 x0 x1 x2 nyTot sep : Nat) (hx12 : 1 ≤ x1 + x2) :
    encode [x0, x1, x2] sep .upper [y0, y1, y2, y3, y4, y5] nyTot
      = some (encDN y0 y1 y2 y3 y4 y5 ((x0 + x1 + x2 : Nat) : Int) ((x0 + x1 : Nat) : Int) x0) := by
  simp [encode, encodeX, encDN, Nat.add_assoc]
  intro h; omega

theorem encode_CDN (y0 y1 y2 y3 y4 y5 x0 x1 nyTot sep : Nat) (dn : DNType) :
    encode [x0, x1] sep dn [y0, y1, y2, y3, y4, y5] nyTot
      = some (encDN y0 y1 y2 y3 y4 y5 ((x0 + x1 : Nat) : Int) x0 x0) := by
  simp [encode, encodeX, encDN, Nat.add_assoc]

/-- **lower disconnected double null**, three radial segments, six symbolic region sizes -/
theorem decode_encode_LDN (y0 y1 y2 y3 y4 y5 x0 x1 x2 : Nat)
    (h0 : 1 ≤ y0) (h1 : 1 ≤ y1) (h2 : 1 ≤ y2) (h3 : 1 ≤ y3) (h4 : 1 ≤ y4) (h5 : 1 ≤ y5)
    (x : Nat) (hx : x < x0 + x1 + x2) (r : Nat) (hr : r < 6) (j : Nat)
    (hlo : sumTo [y0, y1, y2, y3, y4, y5] r ≤ j) (hhi : j < sumTo [y0, y1, y2, y3, y4, y5] (r + 1)) :
    decodeNext (encDN y0 y1 y2 y3 y4 y5 ((x0 + x1 + x2 : Nat) : Int) x0 ((x0 + x1 : Nat) : Int)) x j
      = regionNext upperLDN [x0, x1, x2] [y0, y1, y2, y3, y4, y5] r x j := by
  apply decodeNext_eq
  unfold regionNext
  rw [segOf3 x0 x1 x2 x hx]
  rcases Nat.lt_or_ge (j + 1) (sumTo [y0, y1, y2, y3, y4, y5] (r + 1)) with hlast | hlast <;>
  rcases Nat.lt_or_ge x x0 with hs1 | hs1 <;>
  rcases Nat.lt_or_ge x (x0 + x1) with hs2 | hs2 <;>
  interval_cases r <;> simp [sumTo] at hlo hhi hlast <;>
  simp only [encDN, sumTo, upperLDN, List.take, List.sum_cons, List.sum_nil] <;>
  simp [hlast, hs1, hs2, Nat.not_lt.mpr hlast, Nat.not_lt.mpr hs1, Nat.not_lt.mpr hs2] <;>
  omega

/-- **upper disconnected double null**: ixseps1 (lower X-point) is the outer separatrix -/
theorem decode_encode_UDN (y0 y1 y2 y3 y4 y5 x0 x1 x2 : Nat)
    (h0 : 1 ≤ y0) (h1 : 1 ≤ y1) (h2 : 1 ≤ y2) (h3 : 1 ≤ y3) (h4 : 1 ≤ y4) (h5 : 1 ≤ y5)
    (x : Nat) (hx : x < x0 + x1 + x2) (r : Nat) (hr : r < 6) (j : Nat)
    (hlo : sumTo [y0, y1, y2, y3, y4, y5] r ≤ j) (hhi : j < sumTo [y0, y1, y2, y3, y4, y5] (r + 1)) :
    decodeNext (encDN y0 y1 y2 y3 y4 y5 ((x0 + x1 + x2 : Nat) : Int) ((x0 + x1 : Nat) : Int) x0) x j
      = regionNext upperUDN [x0, x1, x2] [y0, y1, y2, y3, y4, y5] r x j := by
  apply decodeNext_eq
  unfold regionNext
  rw [segOf3 x0 x1 x2 x hx]
  rcases Nat.lt_or_ge (j + 1) (sumTo [y0, y1, y2, y3, y4, y5] (r + 1)) with hlast | hlast <;>
  rcases Nat.lt_or_ge x x0 with hs1 | hs1 <;>
  rcases Nat.lt_or_ge x (x0 + x1) with hs2 | hs2 <;>
  interval_cases r <;> simp [sumTo] at hlo hhi hlast <;>
  simp only [encDN, sumTo, upperUDN, List.take, List.sum_cons, List.sum_nil] <;>
  simp [hlast, hs1, hs2, Nat.not_lt.mpr hlast, Nat.not_lt.mpr hs1, Nat.not_lt.mpr hs2] <;>
  omega

/-- **connected double null**, two radial segments -/
theorem decode_encode_CDN (y0 y1 y2 y3 y4 y5 x0 x1 : Nat)
    (h0 : 1 ≤ y0) (h1 : 1 ≤ y1) (h2 : 1 ≤ y2) (h3 : 1 ≤ y3) (h4 : 1 ≤ y4) (h5 : 1 ≤ y5)
    (x : Nat) (hx : x < x0 + x1) (r : Nat) (hr : r < 6) (j : Nat)
    (hlo : sumTo [y0, y1, y2, y3, y4, y5] r ≤ j) (hhi : j < sumTo [y0, y1, y2, y3, y4, y5] (r + 1)) :
    decodeNext (encDN y0 y1 y2 y3 y4 y5 ((x0 + x1 : Nat) : Int) x0 x0) x j
      = regionNext upperCDN [x0, x1] [y0, y1, y2, y3, y4, y5] r x j := by
  apply decodeNext_eq
  unfold regionNext
  rw [segOf2 x0 x1 x hx]
  rcases Nat.lt_or_ge (j + 1) (sumTo [y0, y1, y2, y3, y4, y5] (r + 1)) with hlast | hlast <;>
  rcases Nat.lt_or_ge x x0 with hs1 | hs1 <;>
  interval_cases r <;> simp [sumTo] at hlo hhi hlast <;>
  simp only [encDN, sumTo, upperCDN, List.take, List.sum_cons, List.sum_nil] <;>
  simp [hlast, hs1, Nat.not_lt.mpr hlast, Nat.not_lt.mpr hs1] <;>
  omega

/-- the double-null indices are strictly ordered for all region sizes ≥ 1 -/
theorem ordered_DN (y0 y1 y2 y3 y4 y5 : Nat) (nx ix1 ix2 : Int)
    (h0 : 1 ≤ y0) (h1 : 1 ≤ y1) (h2 : 1 ≤ y2) (h3 : 1 ≤ y3) (h4 : 1 ≤ y4) (h5 : 1 ≤ y5) :
    let t := encDN y0 y1 y2 y3 y4 y5 nx ix1 ix2
    (-1 : Int) < t.jyseps1_1 + 1 ∧ t.jyseps1_1 < t.jyseps2_1 ∧ t.jyseps2_1 < t.ny_inner - 1 + 1 ∧
      t.ny_inner - 1 < t.jyseps1_2 ∧ t.jyseps1_2 < t.jyseps2_2 ∧ t.jyseps2_2 < t.ny - 1 := by
  simp only [encDN]; omega

/-! ### core only (circular, no X-point): one periodic region -/

def encCore (y0 x0 nyTot : Nat) : Topo :=
  ⟨x0, y0, x0, x0, -1, ((nyTot / 2 : Nat) : Int), ((nyTot / 2 : Nat) : Int), ((nyTot / 2 : Nat) : Int), (y0 : Int) - 1⟩

theorem encode_core (y0 x0 nyTot sep : Nat) (hsep : sep ≠ 0) (dn : DNType) :
    encode [x0] sep dn [y0] nyTot = some (encCore y0 x0 nyTot) := by
  simp [encode, encodeX, encCore, hsep]

theorem decode_encode_core (y0 x0 nyTot : Nat) (h0 : 1 ≤ y0) (x : Nat) (hx : x < x0) (j : Nat) (hj : j < y0) :
    decodeNext (encCore y0 x0 nyTot) x j = regionNext upperCore [x0] [y0] 0 x j := by
  apply decodeNext_eq
  unfold regionNext
  rcases Nat.lt_or_ge (j + 1) y0 with hlast | hlast <;>
  simp [encCore, sumTo, upperCore, segOf, hx, hlast, Nat.not_lt.mpr hlast] <;>
  omega

/-- writing `jyseps2_2 = ny` (one past the last cell, as before the fix) leaves the last core cell without its
    periodic partner under the documented meaning -/
theorem core_jyseps22_eq_ny_breaks_periodicity (y0 x0 m : Nat) (h0 : 1 ≤ y0) (x : Nat) (hx : x < x0) :
    decodeNext ⟨x0, y0, x0, x0, -1, m, m, m, (y0 : Int)⟩ x ((y0 : Int) - 1) = none := by
  apply decodeNext_eq
  simp
  omega

/-! ### the regions tile the global index rectangle exactly once -/

/-- 1-D: every index below the total lies in exactly one of the cumulative-sum slices, for any list of sizes -/
theorem tiling_1d (sizes : List Nat) (j : Nat) :
    j < Tiling.total sizes ↔ ∃ s ∈ Tiling.slices sizes 0, s.1 ≤ j ∧ j < s.2 := by
  have := Tiling.tiling sizes 0 j
  simpa using this

theorem slices_disjoint (sizes : List Nat) : (Tiling.slices sizes 0).Pairwise (fun a b => a.2 ≤ b.1) :=
  Tiling.slices_disjoint sizes 0

/-- 2-D: (x, y) lies in the rectangle iff it lies in the product of one x-slice and one y-slice -/
theorem tiling_2d (xs ys : List Nat) (x y : Nat) :
    (x < Tiling.total xs ∧ y < Tiling.total ys) ↔
      ∃ sx ∈ Tiling.slices xs 0, ∃ sy ∈ Tiling.slices ys 0, (sx.1 ≤ x ∧ x < sx.2) ∧ (sy.1 ≤ y ∧ y < sy.2) := by
  rw [tiling_1d xs x, tiling_1d ys y]
  constructor
  · rintro ⟨⟨sx, hsx, hx⟩, ⟨sy, hsy, hy⟩⟩; exact ⟨sx, hsx, sy, hsy, hx, hy⟩
  · rintro ⟨sx, hsx, sy, hsy, hx, hy⟩; exact ⟨⟨sx, hsx, hx⟩, ⟨sy, hsy, hy⟩⟩

example : Tiling.slices [3, 4, 20] 0 = [(0, 3), (3, 7), (7, 27)] := by decide

-- non-vacuity of the decode theorems: sizes [3,4,20], the witness of the pre-fix defect, are covered
example : decodeNext (encSN 3 4 20 2 2 27) 0 6 = some 3 := by decide
example : decodeNext (encSN 3 4 20 2 2 27) 3 6 = some 7 := by decide


/-! ## shared y-edges: `MeshRegion.getRZBoundary` (guard and copies regenerated from the source: Gen/Pipeline.lean) -/

/-- the first and the last row (in y) of one position array of a region -/
structure Edges (P : Type) where
  first : List P
  last : List P

/-- getRZBoundary on one array of one region: under the generated guard the last row is overwritten with the first row of the upper
neighbour (which is the region itself for the periodic core of a single null) -/
def applyRZ {P : Type} (hasUpper upperIsSelf : Bool) (own up : Edges P) : Edges P :=
  if Gen.Pipeline.rzCopyGuard hasUpper upperIsSelf then { own with last := up.first } else own

/-- the points on an edge shared by two regions coincide exactly: the upper row of a region *is* the lower row of its upper neighbour -/
theorem shared_edge_coincides {P : Type} (upperIsSelf : Bool) (own up : Edges P) :
    (applyRZ true upperIsSelf own up).last = up.first := by
  cases upperIsSelf <;> simp [applyRZ, Gen.Pipeline.rzCopyGuard]

/-- in particular the periodic core closes on itself -/
theorem periodic_core_closes {P : Type} (own : Edges P) : (applyRZ true true own own).last = own.first :=
  shared_edge_coincides true own own

/-- a target edge (no upper neighbour) is left alone, and the lower row is never touched -/
theorem target_edge_unchanged {P : Type} (b : Bool) (own up : Edges P) : applyRZ false b own up = own := by
  cases b <;> simp [applyRZ, Gen.Pipeline.rzCopyGuard]

theorem lower_row_untouched {P : Type} (a b : Bool) (own up : Edges P) : (applyRZ a b own up).first = own.first := by
  unfold applyRZ; split <;> rfl

/-- the copy is made for R and Z, at the y-faces and at the corners, from the neighbour's first row to the region's last row -/
theorem rz_copies_complete :
    Gen.Pipeline.rzCopies = [("Rxy", "ylow", -1, 0), ("Zxy", "ylow", -1, 0), ("Rxy", "corners", -1, 0), ("Zxy", "corners", -1, 0)] := rfl

example : (applyRZ true true (⟨[1, 2], [7, 8]⟩ : Edges Nat) ⟨[1, 2], [7, 8]⟩).last = [1, 2] := by decide


/-! ### X-point slots
`xPointsAtStart / xPointsAtEnd` of the equilibrium regions (tables `xslot*` of Model/Topology.lean, compared with the real
`describeSingleNull / describeDoubleNull` objects on every run) against the connection tables `upper*`. -/

/-- the topologies with a region table -/
inductive Cfg | sn | cdn | ldn | udn | core
  deriving DecidableEq, Repr

/-- (at start, at end) X-point slot of region r -/
def Cfg.slot : Cfg → Nat → XSlot × XSlot
  | .sn => xslotSN | .cdn => xslotCDN | .ldn => xslotLDN | .udn => xslotUDN | .core => xslotCore

/-- upper neighbour of (region r, radial segment s) -/
def Cfg.upper : Cfg → Nat → Nat → Option Nat
  | .sn => upperSN | .cdn => upperCDN | .ldn => upperLDN | .udn => upperUDN | .core => upperCore

/-- number of radial segments -/
def Cfg.nseg : Cfg → Nat
  | .sn => 2 | .cdn => 2 | .ldn => 3 | .udn => 3 | .core => 1

/-- number of regions -/
def Cfg.nreg : Cfg → Nat
  | .sn => 3 | .cdn => 6 | .ldn => 6 | .udn => 6 | .core => 1

/-- the X-point numbers of `equilibrium.x_points` -/
def Cfg.xpoints : Cfg → List Nat
  | .sn => [0] | .cdn => [0, 1] | .ldn => [0, 1] | .udn => [0, 1] | .core => []

/-- the radial boundary on which X-point w lies: the primary separatrix is boundary 1; the secondary X-point of a
disconnected double null lies on boundary 2 -/
def Cfg.xbound : Cfg → Nat → Nat
  | .ldn, w => w + 1 | .udn, w => w + 1 | _, _ => 1

/-- outside the region range the tables are empty -/
theorem xslot_none_of_ge (c : Cfg) (r : Nat) (h : c.nreg ≤ r) : c.slot r = (none, none) := by
  cases c <;> simp only [Cfg.nreg] at h <;>
    simp only [Cfg.slot, xslotSN, xslotCDN, xslotLDN, xslotUDN, xslotCore] <;> split <;> first | rfl | omega

theorem upper_none_of_ge (c : Cfg) (r s : Nat) (h : c.nreg ≤ r) : c.upper r s = none := by
  cases c <;> simp only [Cfg.nreg] at h <;>
    simp only [Cfg.upper, upperSN, upperCDN, upperLDN, upperUDN, upperCore] <;> split <;> first | rfl | omega

theorem xslot_start_lt (c : Cfg) (r : Nat) (p : Nat × Nat) (h : (c.slot r).1 = some p) : r < c.nreg := by
  rcases Nat.lt_or_ge r c.nreg with hr | hr
  · exact hr
  · rw [xslot_none_of_ge c r hr] at h; cases h

theorem xslot_end_lt (c : Cfg) (r : Nat) (p : Nat × Nat) (h : (c.slot r).2 = some p) : r < c.nreg := by
  rcases Nat.lt_or_ge r c.nreg with hr | hr
  · exact hr
  · rw [xslot_none_of_ge c r hr] at h; cases h

/-- **1, forward**: an X-point at the end of a region sits on an interior radial boundary, exactly where the region's upper
connection changes its target -/
theorem xslot_end_at_connection_change (c : Cfg) (r k w : Nat) (h : (c.slot r).2 = some (k, w)) :
    1 ≤ k ∧ k < c.nseg ∧ c.upper r (k - 1) ≠ c.upper r k := by
  have hr := xslot_end_lt c r _ h
  cases c <;> simp only [Cfg.nreg] at hr <;> interval_cases r <;>
    simp [Cfg.slot, xslotSN, xslotCDN, xslotLDN, xslotUDN, xslotCore] at h <;>
    obtain ⟨rfl, rfl⟩ := h <;> decide

/-- **1, converse** (no entry breaks it, and the hypothesis "both `some`" is not needed: inside the segment range a region's
upper connections are all present or all absent): wherever the upper connection changes target between the segments
`k-1` and `k`, the end slot holds an X-point at boundary `k` -/
theorem xslot_end_of_connection_change (c : Cfg) (r k : Nat) (hk1 : 1 ≤ k) (hk : k < c.nseg)
    (hne : c.upper r (k - 1) ≠ c.upper r k) : ∃ w, (c.slot r).2 = some (k, w) := by
  have hr : r < c.nreg := by
    rcases Nat.lt_or_ge r c.nreg with hr | hr
    · exact hr
    · exact absurd ((upper_none_of_ge c r _ hr).trans (upper_none_of_ge c r _ hr).symm) hne
  cases c <;> simp only [Cfg.nreg] at hr <;> simp only [Cfg.nseg] at hk <;> interval_cases r <;> interval_cases k <;>
    first | exact ⟨_, rfl⟩ | exact absurd rfl hne

/-- both directions together -/
theorem xslot_end_iff_connection_change (c : Cfg) (r k : Nat) (hk1 : 1 ≤ k) (hk : k < c.nseg) :
    (∃ w, (c.slot r).2 = some (k, w)) ↔ c.upper r (k - 1) ≠ c.upper r k :=
  ⟨fun ⟨w, h⟩ => (xslot_end_at_connection_change c r k w h).2.2, xslot_end_of_connection_change c r k hk1 hk⟩

/-- **2** (strongest form: no adjacency side condition `s = k-1 ∨ s = k` is needed, the equality holds for every segment):
the X-point slot at the end of a region is the slot at the start of each of its upper neighbours -/
theorem xslot_continuous_across_cut (c : Cfg) (r s q : Nat) (h : c.upper r s = some q) :
    (c.slot r).2 = (c.slot q).1 := by
  have hr : r < c.nreg := by
    rcases Nat.lt_or_ge r c.nreg with hr | hr
    · exact hr
    · rw [upper_none_of_ge c r s hr] at h; cases h
  have hs : s < 3 := by
    rcases Nat.lt_or_ge s 3 with hs | hs
    · exact hs
    · exfalso
      cases c <;> simp only [Cfg.upper, upperSN, upperCDN, upperLDN, upperUDN, upperCore] at h <;> split at h <;>
        first | omega | cases h
  cases c <;> simp only [Cfg.nreg] at hr <;> interval_cases r <;> interval_cases s <;>
    first | (injection h with h; subst h; rfl) | cases h

/-- in the iff form asked for: r has an end X-point iff q has a start X-point, and then they are the same `(k, w)` -/
theorem xslot_continuous_across_cut_iff (c : Cfg) (r s q : Nat) (h : c.upper r s = some q) (p : Nat × Nat) :
    (c.slot r).2 = some p ↔ (c.slot q).1 = some p := by
  rw [xslot_continuous_across_cut c r s q h]

/-- with an X-point (every table but the periodic core): a region has an upper neighbour exactly when it ends at an X-point,
and regions without one end on a target -/
theorem xslot_end_none_iff_target (c : Cfg) (hc : c ≠ .core) (r s : Nat) (hr : r < c.nreg) (hs : s < c.nseg) :
    (c.slot r).2 = none ↔ c.upper r s = none := by
  cases c <;> first | exact absurd rfl hc | skip
  all_goals simp only [Cfg.nreg] at hr; simp only [Cfg.nseg] at hs; interval_cases r <;> interval_cases s <;> decide

/-- the eight cells (region, at end?, radial segment) meeting at X-point w -/
def xcells (c : Cfg) (w : Nat) : List (Nat × Bool × Nat) :=
  (List.range c.nreg).flatMap fun r =>
    (match (c.slot r).1 with
      | some (k, w') => if w' = w then [(r, false, k - 1), (r, false, k)] else []
      | none => []) ++
    (match (c.slot r).2 with
      | some (k, w') => if w' = w then [(r, true, k - 1), (r, true, k)] else []
      | none => [])

/-- regions that start / end at X-point w -/
def xstarts (c : Cfg) (w : Nat) : List Nat :=
  (List.range c.nreg).filter fun r => (c.slot r).1.map Prod.snd = some w
def xends (c : Cfg) (w : Nat) : List Nat :=
  (List.range c.nreg).filter fun r => (c.slot r).2.map Prod.snd = some w

/-- **3**: every X-point of the topology closes exactly two region starts and two region ends; with the two radial sides of
each that is eight distinct cells, all inside the segment range -/
theorem xslot_eight_cells (c : Cfg) (w : Nat) (hw : w ∈ c.xpoints) :
    (xstarts c w).length = 2 ∧ (xends c w).length = 2 ∧ (xcells c w).length = 8 ∧ (xcells c w).Nodup ∧
      ∀ x ∈ xcells c w, x.2.2 < c.nseg := by
  cases c <;> simp only [Cfg.xpoints, List.mem_cons, List.not_mem_nil, or_false] at hw <;>
    first | exact hw.elim | (rcases hw with rfl | rfl <;> decide)

/-- and only those X-point numbers occur in a table -/
theorem xslot_number_mem (c : Cfg) (r k w : Nat) (h : (c.slot r).1 = some (k, w) ∨ (c.slot r).2 = some (k, w)) :
    w ∈ c.xpoints := by
  have hr : r < c.nreg := h.elim (xslot_start_lt c r _) (xslot_end_lt c r _)
  cases c <;> simp only [Cfg.nreg] at hr <;> interval_cases r <;>
    simp [Cfg.slot, xslotSN, xslotCDN, xslotLDN, xslotUDN, xslotCore] at h <;>
    (try simp [Cfg.xpoints]) <;> omega

/-- the explicit lists -/
example : xstarts .sn 0 = [1, 2] ∧ xends .sn 0 = [0, 1] := by decide
example : xstarts .ldn 0 = [1, 5] ∧ xends .ldn 0 = [0, 4] ∧ xstarts .ldn 1 = [2, 4] ∧ xends .ldn 1 = [1, 3] := by decide
example : xstarts .udn 0 = [2, 4] ∧ xends .udn 0 = [1, 3] ∧ xstarts .udn 1 = [1, 5] ∧ xends .udn 1 = [0, 4] := by decide

/-- **4a**: the primary X-point (w = 0) always sits on boundary 1; the secondary one (w = 1) on boundary 2 in the disconnected
double nulls and on boundary 1 in the connected one -/
theorem xslot_on_separatrix (c : Cfg) (r k w : Nat) (h : (c.slot r).1 = some (k, w) ∨ (c.slot r).2 = some (k, w)) :
    k = c.xbound w := by
  have hr : r < c.nreg := h.elim (xslot_start_lt c r _) (xslot_end_lt c r _)
  cases c <;> simp only [Cfg.nreg] at hr <;> interval_cases r <;>
    simp [Cfg.slot, xslotSN, xslotCDN, xslotLDN, xslotUDN, xslotCore] at h <;>
    simp only [Cfg.xbound] <;> omega

theorem xslot_on_separatrix_primary (c : Cfg) (r k : Nat) (h : (c.slot r).1 = some (k, 0) ∨ (c.slot r).2 = some (k, 0)) :
    k = 1 := by
  have := xslot_on_separatrix c r k 0 h
  cases c <;> simpa [Cfg.xbound] using this

theorem xslot_on_separatrix_secondary (c : Cfg) (r k : Nat) (h : (c.slot r).1 = some (k, 1) ∨ (c.slot r).2 = some (k, 1)) :
    k = if c = .ldn ∨ c = .udn then 2 else 1 := by
  have := xslot_on_separatrix c r k 1 h
  cases c <;> simpa [Cfg.xbound] using this

/-- **4b**, lower disconnected double null (`xs = [a, b, d]`): the x-index `sumTo xs k` of the slot's boundary is `ixseps1` for the
primary (lower) X-point and `ixseps2` for the secondary (upper) one -/
theorem xslot_ixseps_LDN (a b d sep r k w : Nat) (h : (xslotLDN r).1 = some (k, w) ∨ (xslotLDN r).2 = some (k, w))
    (i1 i2 : Int) (he : encodeX [a, b, d] sep .lower = some (i1, i2)) :
    ((sumTo [a, b, d] k : Nat) : Int) = (if w = 0 then i1 else i2) ∧ i1 = a ∧ i2 = ((a + b : Nat) : Int) := by
  have hk := xslot_on_separatrix .ldn r k w h
  have hw := xslot_number_mem .ldn r k w h
  simp only [Cfg.xbound] at hk
  simp only [Cfg.xpoints, List.mem_cons, List.not_mem_nil, or_false] at hw
  simp only [encodeX, Option.some.injEq, Prod.mk.injEq] at he
  obtain ⟨rfl, rfl⟩ := he
  rcases hw with rfl | rfl <;> subst hk <;> simp [sumTo]

/-- **4b**, upper disconnected double null: the primary X-point is the upper one, so the x-index of its boundary (boundary 1)
is `ixseps2`, and that of the secondary (lower) X-point (boundary 2) is `ixseps1` -/
theorem xslot_ixseps_UDN (a b d sep r k w : Nat) (h : (xslotUDN r).1 = some (k, w) ∨ (xslotUDN r).2 = some (k, w))
    (i1 i2 : Int) (he : encodeX [a, b, d] sep .upper = some (i1, i2)) :
    ((sumTo [a, b, d] k : Nat) : Int) = (if w = 0 then i2 else i1) ∧ i1 = ((a + b : Nat) : Int) ∧ i2 = a := by
  have hk := xslot_on_separatrix .udn r k w h
  have hw := xslot_number_mem .udn r k w h
  simp only [Cfg.xbound] at hk
  simp only [Cfg.xpoints, List.mem_cons, List.not_mem_nil, or_false] at hw
  simp only [encodeX, Option.some.injEq, Prod.mk.injEq] at he
  obtain ⟨rfl, rfl⟩ := he
  rcases hw with rfl | rfl <;> subst hk <;> simp [sumTo]

/-- **4b**, single null and connected double null (two radial segments `xs = [a, b]`, any `DNType`): every X-point sits on the
boundary whose x-index is `ixseps1`; `encodeX` gives `ixseps2 = nx` (`encode` replaces it by `ixseps1` for the connected
double null, see `encode_CDN`) -/
theorem xslot_ixseps_two_segments (c : Cfg) (hc : c = .sn ∨ c = .cdn) (a b sep : Nat) (dn : DNType) (r k w : Nat)
    (h : (c.slot r).1 = some (k, w) ∨ (c.slot r).2 = some (k, w))
    (i1 i2 : Int) (he : encodeX [a, b] sep dn = some (i1, i2)) :
    ((sumTo [a, b] k : Nat) : Int) = i1 ∧ i2 = ((a + b : Nat) : Int) := by
  have hk := xslot_on_separatrix c r k w h
  simp only [encodeX, Option.some.injEq, Prod.mk.injEq] at he
  obtain ⟨rfl, rfl⟩ := he
  rcases hc with rfl | rfl <;> simp only [Cfg.xbound] at hk <;> subst hk <;> simp [sumTo]

/-- the disconnected tables have no `encodeX` with the other `DNType`s, and three segments are required -/
example (a b d sep : Nat) : encodeX [a, b, d] sep .connected = none ∧ encodeX [a, b, d] sep .none = none := ⟨rfl, rfl⟩
example : encodeX [3, 2, 4] 0 .lower = some (3, 5) ∧ encodeX [3, 2, 4] 0 .upper = some (5, 3) := by decide

/-- **5**: the region involution inner lower leg ↔ inner upper leg, outer upper leg ↔ outer lower leg (cores fixed) -/
def flipUD : Nat → Nat
  | 0 => 2 | 2 => 0 | 3 => 5 | 5 => 3 | r => r

theorem flipUD_involutive (r : Nat) : flipUD (flipUD r) = r := by
  match r with
  | 0 => rfl | 1 => rfl | 2 => rfl | 3 => rfl | 4 => rfl | 5 => rfl
  | n + 6 => rfl

/-- the upper disconnected table is the lower disconnected one mirrored up-down: regions exchanged by `flipUD` and, because the
y direction reverses, start and end exchanged; boundary and X-point number are kept (primary stays primary) -/
theorem xslot_ldn_udn_swap (r : Nat) : xslotUDN (flipUD r) = (xslotLDN r).swap := by
  match r with
  | 0 => rfl | 1 => rfl | 2 => rfl | 3 => rfl | 4 => rfl | 5 => rfl
  | n + 6 => rfl

/-- the same mirror on the connection tables: q is above r in the lower disconnected double null iff `flipUD r` is above
`flipUD q` in the upper disconnected one -/
theorem upper_ldn_udn_swap (r q s : Nat) (hr : r < 6) (hq : q < 6) :
    upperLDN r s = some q ↔ upperUDN (flipUD q) s = some (flipUD r) := by
  rcases Nat.lt_or_ge s 3 with hs | hs
  · interval_cases r <;> interval_cases q <;> interval_cases s <;> decide
  · have h1 : ∀ r, upperLDN r s = none := by
      intro r; unfold upperLDN; split <;> first | rfl | omega
    have h2 : ∀ r, upperUDN r s = none := by
      intro r; unfold upperUDN; split <;> first | rfl | omega
    simp [h1, h2]

/-- the connected double null is its own mirror image with the two X-point numbers exchanged -/
theorem xslot_cdn_self_mirror (r : Nat) :
    xslotCDN (flipUD r) = ((xslotCDN r).swap).map (Option.map fun p => (p.1, 1 - p.2)) (Option.map fun p => (p.1, 1 - p.2)) := by
  match r with
  | 0 => rfl | 1 => rfl | 2 => rfl | 3 => rfl | 4 => rfl | 5 => rfl
  | n + 6 => rfl

/-! non-vacuity: one entry per table -/
example : xslotSN 1 = (some (1, 0), some (1, 0)) := rfl
example : xslotCDN 4 = (some (1, 1), some (1, 0)) := rfl
example : xslotLDN 1 = (some (1, 0), some (2, 1)) := rfl
example : xslotUDN 1 = (some (2, 1), some (1, 0)) := rfl
example : xslotCore 0 = (none, none) := rfl
example : xcells .ldn 1 =
    [(1, true, 1), (1, true, 2), (2, false, 1), (2, false, 2), (3, true, 1), (3, true, 2), (4, false, 1), (4, false, 2)] := by decide
example : (Cfg.ldn.slot 1).2 = some (2, 1) ∧ upperLDN 1 1 = some 4 ∧ upperLDN 1 2 = some 2 ∧ (Cfg.ldn.slot 4).1 = some (2, 1) ∧
    (Cfg.ldn.slot 2).1 = some (2, 1) := by decide

end HypnoModel.Props.C08
