/-
C15 — regridding is history independent.
Model: HypnoModel/Model/Regrid.lean (hand-written from `Mesh.__init__`/`makeRegions`, `Mesh.redistributePoints`,
`MeshRegion.distributePointsNonorthogonal`, `Equilibrium.resetNonorthogonalOptions`).  A mesh is (skeleton, recorded options,
region options, points); `build skel place s` is the mesh made from scratch with the non-orthogonal settings `s`,
`redistribute skel place m s` is `m.redistributePoints(s)` as it is now: nothing happens when `s` equals the recorded options,
otherwise the regions are re-created.  `skel` (settings ↦ skeleton: the skeleton may depend on the spacing method AND on the
numeric values) and `place` ((skeleton, settings) ↦ points) are arbitrary functions: every statement below holds for all of
them.  That the real construction IS a function of the settings alone is the numerical claim the correspondence check
exercises on real grids (there: equality to within the point-refinement tolerance; here: equality of the model meshes, hence
of anything derived from them, `history_independent_derived`).
The model has the nonorthogonal_* settings only; the second sentence of the property (other settings are unaffected or the
call is refused) is not expressible in it and is left to the check.
The two regressions the model also describes (`redistributeRegrid`: re-place on the old skeleton, never re-create the regions;
`redistributeStale`: additionally keep the regions' options when the new dictionary is empty) are shown NOT to be history
independent by concrete counter-examples, together with the exact side conditions under which they are.
-/
import HypnoModel.Model.Regrid

namespace HypnoModel.Props.C15
open Regrid

variable {N S P : Type}

/-! ## 1. the invariant -/

/-- the skeleton is the one of the recorded settings, the regions work with the recorded options, and the points are the
    placement of the recorded options on that skeleton -/
def Inv (skel : Settings N → S) (place : S → Settings N → P) (m : Mesh N S P) : Prop :=
  m.skeleton = skel m.recorded ∧ m.region = m.recorded ∧ m.pts = place m.skeleton m.recorded

/-- two meshes with equal fields are equal -/
theorem mesh_ext {m m' : Mesh N S P} (h1 : m.skeleton = m'.skeleton) (h2 : m.recorded = m'.recorded)
    (h3 : m.region = m'.region) (h4 : m.pts = m'.pts) : m = m' := by
  cases m; cases m'; cases h1; cases h2; cases h3; cases h4; rfl

/-- a mesh built from scratch satisfies the invariant -/
theorem build_inv (skel : Settings N → S) (place : S → Settings N → P) (s : Settings N) :
    Inv skel place (build skel place s) :=
  ⟨rfl, rfl, rfl⟩

/-- the invariant says exactly: the mesh is the one built from scratch with its recorded options -/
theorem inv_iff_eq_build (skel : Settings N → S) (place : S → Settings N → P) (m : Mesh N S P) :
    Inv skel place m ↔ m = build skel place m.recorded := by
  constructor
  · rintro ⟨h1, h2, h3⟩
    exact mesh_ext h1 rfl h2 (by rw [h3, h1]; rfl)
  · intro h; rw [h]; exact build_inv skel place _

/-! ## 2. one step -/

/-- `redistributePoints` with the options that are already recorded does nothing — whatever the mesh -/
theorem redistribute_same_settings_noop [DecidableEq N] (skel : Settings N → S) (place : S → Settings N → P)
    (m : Mesh N S P) : redistribute skel place m m.recorded = m := by
  unfold redistribute; rw [if_pos rfl]

/-- with different options the regions are re-created — whatever the mesh -/
theorem redistribute_of_ne [DecidableEq N] (skel : Settings N → S) (place : S → Settings N → P) (m : Mesh N S P)
    (s : Settings N) (h : s ≠ m.recorded) : redistribute skel place m s = build skel place s := by
  unfold redistribute; rw [if_neg h]

/-- on a mesh satisfying the invariant, `redistributePoints(s)` gives the mesh built from scratch with `s`: when the options
    differ because the regions are re-created, when they are equal because the mesh already is `build s` -/
theorem redistribute_eq_build [DecidableEq N] (skel : Settings N → S) (place : S → Settings N → P) (m : Mesh N S P)
    (s : Settings N) (h : Inv skel place m) : redistribute skel place m s = build skel place s := by
  by_cases hs : s = m.recorded
  · subst hs
    rw [redistribute_same_settings_noop]
    exact (inv_iff_eq_build skel place m).mp h
  · exact redistribute_of_ne skel place m s hs

/-- every step preserves the invariant -/
theorem redistribute_inv [DecidableEq N] (skel : Settings N → S) (place : S → Settings N → P) (m : Mesh N S P)
    (s : Settings N) (h : Inv skel place m) : Inv skel place (redistribute skel place m s) := by
  rw [redistribute_eq_build skel place m s h]; exact build_inv skel place s

/-- the options a step records are the ones it was given, invariant or not -/
theorem redistribute_recorded [DecidableEq N] (skel : Settings N → S) (place : S → Settings N → P) (m : Mesh N S P)
    (s : Settings N) : (redistribute skel place m s).recorded = s := by
  by_cases hs : s = m.recorded
  · subst hs; rw [redistribute_same_settings_noop]
  · rw [redistribute_of_ne skel place m s hs]; rfl

/-- the regions work with the options the step was given, provided they worked with the recorded ones before (the no-op
    branch leaves the regions alone, so this needs the middle part of the invariant) -/
theorem redistribute_region [DecidableEq N] (skel : Settings N → S) (place : S → Settings N → P) (m : Mesh N S P)
    (s : Settings N) (h : m.region = m.recorded) : (redistribute skel place m s).region = s := by
  by_cases hs : s = m.recorded
  · subst hs; rw [redistribute_same_settings_noop]; exact h
  · rw [redistribute_of_ne skel place m s hs]; rfl

/-- repeating a call with the same settings changes nothing — no hypothesis on the mesh: the second call finds its own
    settings recorded -/
theorem redistribute_idempotent [DecidableEq N] (skel : Settings N → S) (place : S → Settings N → P) (m : Mesh N S P)
    (s : Settings N) :
    redistribute skel place (redistribute skel place m s) s = redistribute skel place m s := by
  have h := redistribute_same_settings_noop skel place (redistribute skel place m s)
  rw [redistribute_recorded] at h
  exact h

/-! ## 3. any history -/

/-- a history of steps from a mesh satisfying the invariant ends in the mesh built from scratch with the last settings
    (or in the mesh itself when the history is empty) -/
theorem history_from_inv [DecidableEq N] (skel : Settings N → S) (place : S → Settings N → P) (m : Mesh N S P)
    (h : Inv skel place m) (ss : List (Settings N)) :
    ss.foldl (redistribute skel place) m = build skel place (ss.getLastD m.recorded) := by
  induction ss generalizing m with
  | nil => exact (inv_iff_eq_build skel place m).mp h
  | cons s ss ih =>
    rw [List.foldl_cons, List.getLastD_cons, redistribute_eq_build skel place m s h, ih _ (build_inv skel place s)]
    rfl

/-- build with `s0`, then any sequence `ss` of `redistributePoints` calls: the result is the mesh built from scratch with the
    final settings -/
theorem history_independent [DecidableEq N] (skel : Settings N → S) (place : S → Settings N → P) (s0 : Settings N)
    (ss : List (Settings N)) :
    ss.foldl (redistribute skel place) (build skel place s0) = build skel place (ss.getLastD s0) :=
  history_from_inv skel place _ (build_inv skel place s0) ss

/-- two histories with the same final settings give the same mesh -/
theorem history_independent_pair [DecidableEq N] (skel : Settings N → S) (place : S → Settings N → P)
    (s0 s0' : Settings N) (ss ss' : List (Settings N)) (h : ss.getLastD s0 = ss'.getLastD s0') :
    ss.foldl (redistribute skel place) (build skel place s0) =
      ss'.foldl (redistribute skel place) (build skel place s0') := by
  rw [history_independent, history_independent, h]

/-- anything derived from the mesh (the geometry, the contents of the grid file) agrees as well -/
theorem history_independent_derived [DecidableEq N] {G : Type} (derive : Mesh N S P → G) (skel : Settings N → S)
    (place : S → Settings N → P) (s0 : Settings N) (ss : List (Settings N)) :
    derive (ss.foldl (redistribute skel place) (build skel place s0)) = derive (build skel place (ss.getLastD s0)) :=
  congrArg derive (history_independent skel place s0 ss)

/-- returning to the initial settings after any excursion gives the mesh built with them directly -/
theorem history_independent_return [DecidableEq N] (skel : Settings N → S) (place : S → Settings N → P)
    (s0 : Settings N) (ss : List (Settings N)) :
    (ss ++ [s0]).foldl (redistribute skel place) (build skel place s0) = build skel place s0 := by
  rw [history_independent, List.getLastD_eq_getLast?, List.getLast?_append]
  rfl

/-- more generally: whatever came before, ending with `s` gives `build s` -/
theorem history_independent_last [DecidableEq N] (skel : Settings N → S) (place : S → Settings N → P)
    (s0 s : Settings N) (ss : List (Settings N)) :
    (ss ++ [s]).foldl (redistribute skel place) (build skel place s0) = build skel place s := by
  rw [history_independent, List.getLastD_eq_getLast?, List.getLast?_append]
  rfl

/-- the invariant holds after any history -/
theorem history_inv [DecidableEq N] (skel : Settings N → S) (place : S → Settings N → P) (s0 : Settings N)
    (ss : List (Settings N)) :
    Inv skel place (ss.foldl (redistribute skel place) (build skel place s0)) := by
  rw [history_independent]; exact build_inv skel place _

/-- after any history the options written to the grid file (`recorded`) are the ones the regions used, and they are the
    final settings -/
theorem recorded_matches_regions [DecidableEq N] (skel : Settings N → S) (place : S → Settings N → P)
    (s0 : Settings N) (ss : List (Settings N)) :
    (ss.foldl (redistribute skel place) (build skel place s0)).region =
      (ss.foldl (redistribute skel place) (build skel place s0)).recorded ∧
    (ss.foldl (redistribute skel place) (build skel place s0)).recorded = ss.getLastD s0 := by
  rw [history_independent]; exact ⟨rfl, rfl⟩

/-! ## 4. the two regressions are not history independent -/

/-- concrete instance: settings with a numeric value in `Nat`; the skeleton depends on the method and on the numeric value
    (as it does for `poloidal_orthogonal_combined`), injectively for numeric values below 1000 -/
abbrev exSkel : Settings Nat → Nat := fun s => 1000 * s.method + s.numeric

/-- a skeleton that depends on the method only (the default method: the numeric values enter the placement, not the skeleton) -/
abbrev exSkelMethod : Settings Nat → Nat := fun s => s.method

/-- a point set is the triple (skeleton, method, numeric) it was placed from -/
abbrev exPlace : Nat → Settings Nat → Nat × Nat × Nat := fun k s => (k, s.method, s.numeric)

/-- the settings dictionary is empty -/
abbrev exIsEmpty : Settings Nat → Bool := fun s => s.numeric == 0 && s.method == 0

/-- all four fields of a concrete mesh, for `decide` -/
abbrev fields (m : Mesh Nat Nat (Nat × Nat × Nat)) : Nat × Settings Nat × Settings Nat × (Nat × Nat × Nat) :=
  (m.skeleton, m.recorded, m.region, m.pts)

/-- one step of the regression, written out -/
theorem redistributeRegrid_fields (place : S → Settings N → P) (m : Mesh N S P) (s : Settings N) :
    (redistributeRegrid place m s).skeleton = m.skeleton ∧ (redistributeRegrid place m s).recorded = s ∧
      (redistributeRegrid place m s).region = s ∧ (redistributeRegrid place m s).pts = place m.skeleton s :=
  ⟨rfl, rfl, rfl, rfl⟩

/-- no re-creation of the regions on a method change: the skeleton stays the one of the first build, so the mesh differs
    from the one built with the new settings (the recorded and region options do agree, which is why this went unnoticed
    in the grid file); the present `redistribute` gives the build -/
theorem regrid_counterexample_method :
    let s0 : Settings Nat := ⟨0, 5⟩
    let s1 : Settings Nat := ⟨1, 5⟩
    let m := redistributeRegrid exPlace (build exSkel exPlace s0) s1
    m ≠ build exSkel exPlace s1 ∧ m.skeleton = (build exSkel exPlace s0).skeleton ∧
      m.skeleton ≠ (build exSkel exPlace s1).skeleton ∧ m.pts ≠ (build exSkel exPlace s1).pts ∧
      m.recorded = s1 ∧ m.region = s1 ∧
      redistribute exSkel exPlace (build exSkel exPlace s0) s1 = build exSkel exPlace s1 := by
  refine ⟨fun h => ?_, by decide, by decide, by decide, by decide, by decide,
    redistribute_eq_build _ _ _ _ (build_inv _ _ _)⟩
  exact absurd (congrArg fields h) (by decide)

/-- a purely numeric change (same method) also leaves the first skeleton, and when the skeleton depends on the numeric
    value the mesh differs from the one built with the new settings: the defect the second repair removed -/
theorem regrid_counterexample_numeric :
    let s0 : Settings Nat := ⟨1, 5⟩
    let s1 : Settings Nat := ⟨1, 7⟩
    let m := redistributeRegrid exPlace (build exSkel exPlace s0) s1
    s1.method = s0.method ∧
      m ≠ build exSkel exPlace s1 ∧ m.skeleton = (build exSkel exPlace s0).skeleton ∧
      m.skeleton ≠ (build exSkel exPlace s1).skeleton ∧ m.pts ≠ (build exSkel exPlace s1).pts ∧
      m.recorded = s1 ∧ m.region = s1 ∧
      redistribute exSkel exPlace (build exSkel exPlace s0) s1 = build exSkel exPlace s1 := by
  refine ⟨rfl, fun h => ?_, by decide, by decide, by decide, by decide, by decide,
    redistribute_eq_build _ _ _ _ (build_inv _ _ _)⟩
  exact absurd (congrArg fields h) (by decide)

/-- one regrid step on a build gives the build with the new settings when the two skeletons agree -/
theorem regrid_step_of_same_skeleton (skel : Settings N → S) (place : S → Settings N → P) (s0 s : Settings N)
    (h : skel s = skel s0) : redistributeRegrid place (build skel place s0) s = build skel place s := by
  refine mesh_ext h.symm rfl rfl ?_
  show place (skel s0) s = place (skel s) s
  rw [h]

/-- if the skeleton does not depend on what changed during the history (`skel s = skel s0` for every `s` in it), the variant
    without re-creation IS history independent.  This is why numeric changes under the default method, whose skeleton does
    not depend on them, were history independent even before the repair -/
theorem regrid_history_independent_of_constant_skeleton (skel : Settings N → S) (place : S → Settings N → P)
    (s0 : Settings N) (ss : List (Settings N)) (h : ∀ s ∈ ss, skel s = skel s0) :
    ss.foldl (redistributeRegrid place) (build skel place s0) = build skel place (ss.getLastD s0) := by
  induction ss generalizing s0 with
  | nil => rfl
  | cons s ss ih =>
    have hs : skel s = skel s0 := h s List.mem_cons_self
    rw [List.foldl_cons, List.getLastD_cons, regrid_step_of_same_skeleton skel place s0 s hs,
      ih s (fun t ht => (h t (List.mem_cons_of_mem _ ht)).trans hs.symm)]

/-- under that side condition the regression and the present code agree on every history -/
theorem regrid_eq_redistribute_of_constant_skeleton [DecidableEq N] (skel : Settings N → S) (place : S → Settings N → P)
    (s0 : Settings N) (ss : List (Settings N)) (h : ∀ s ∈ ss, skel s = skel s0) :
    ss.foldl (redistributeRegrid place) (build skel place s0) =
      ss.foldl (redistribute skel place) (build skel place s0) := by
  rw [regrid_history_independent_of_constant_skeleton skel place s0 ss h, history_independent]

/-- regions that keep their options when the new dictionary is empty: after `build s1; redistributePoints({})` the points
    are still those placed with the options of `s1` although `{}` is recorded — the mesh differs from `build {}` and the
    grid file would name options the regions did not use; the present `redistribute` gives the build -/
theorem stale_regions_counterexample :
    let s1 : Settings Nat := ⟨0, 5⟩
    let sEmpty : Settings Nat := ⟨0, 0⟩
    let m := redistributeStale exPlace exIsEmpty (build exSkel exPlace s1) sEmpty
    exIsEmpty sEmpty = true ∧
      m ≠ build exSkel exPlace sEmpty ∧ m.region ≠ m.recorded ∧ m.recorded = sEmpty ∧ m.region = s1 ∧
      m.pts = (build exSkel exPlace s1).pts ∧ m.pts ≠ (build exSkel exPlace sEmpty).pts ∧
      redistribute exSkel exPlace (build exSkel exPlace s1) sEmpty = build exSkel exPlace sEmpty := by
  refine ⟨rfl, fun h => ?_, by decide, by decide, by decide, by decide, by decide,
    redistribute_eq_build _ _ _ _ (build_inv _ _ _)⟩
  exact absurd (congrArg fields h) (by decide)

/-- the stale mesh violates the middle part of the invariant whenever the empty dictionary differs from the options of the
    regions (no concrete instance needed) -/
theorem stale_region_ne_recorded (place : S → Settings N → P) (isEmpty : Settings N → Bool) (m : Mesh N S P)
    (s : Settings N) (he : isEmpty s = true) (hne : m.region ≠ s) :
    (redistributeStale place isEmpty m s).region ≠ (redistributeStale place isEmpty m s).recorded := by
  unfold redistributeStale; rw [he]; exact hne

/-- with a non-empty dictionary the stale variant is the regrid variant -/
theorem stale_eq_regrid_of_nonempty (place : S → Settings N → P) (isEmpty : Settings N → Bool)
    (m : Mesh N S P) (s : Settings N) (h : isEmpty s = false) :
    redistributeStale place isEmpty m s = redistributeRegrid place m s := by
  unfold redistributeStale; rw [h]; rfl

/-- hence on histories of non-empty dictionaries the two regressions coincide -/
theorem stale_history_eq_regrid_of_nonempty (place : S → Settings N → P) (isEmpty : Settings N → Bool) (m : Mesh N S P)
    (ss : List (Settings N)) (h : ∀ s ∈ ss, isEmpty s = false) :
    ss.foldl (redistributeStale place isEmpty) m = ss.foldl (redistributeRegrid place) m := by
  induction ss generalizing m with
  | nil => rfl
  | cons s ss ih =>
    rw [List.foldl_cons, List.foldl_cons, stale_eq_regrid_of_nonempty place isEmpty m s (h s List.mem_cons_self)]
    exact ih _ (fun t ht => h t (List.mem_cons_of_mem _ ht))

/-- non-empty dictionaries and a skeleton that does not depend on what changed: the stale variant is history independent -/
theorem stale_history_nonempty_constant_skeleton (skel : Settings N → S) (place : S → Settings N → P)
    (isEmpty : Settings N → Bool) (s0 : Settings N) (ss : List (Settings N)) (he : ∀ s ∈ ss, isEmpty s = false)
    (hk : ∀ s ∈ ss, skel s = skel s0) :
    ss.foldl (redistributeStale place isEmpty) (build skel place s0) = build skel place (ss.getLastD s0) := by
  rw [stale_history_eq_regrid_of_nonempty place isEmpty _ ss he,
    regrid_history_independent_of_constant_skeleton skel place s0 ss hk]

/-! ## 5. the hypotheses are satisfiable; concrete runs -/

/-- `Inv` is satisfiable (by a build) and not trivially true (a mesh with stale regions violates it, and so does a mesh on
    the skeleton of other settings) -/
example : Inv exSkel exPlace (build exSkel exPlace ⟨1, 7⟩) := build_inv _ _ _
example : ¬ Inv exSkel exPlace
    ({ skeleton := 1007, recorded := ⟨1, 7⟩, region := ⟨1, 3⟩, pts := (1007, 1, 7) } : Mesh _ _ _) := by
  rintro ⟨_, h, _⟩; exact absurd h (by decide)
example : ¬ Inv exSkel exPlace
    ({ skeleton := 1005, recorded := ⟨1, 7⟩, region := ⟨1, 7⟩, pts := (1005, 1, 7) } : Mesh _ _ _) := by
  rintro ⟨h, _, _⟩; exact absurd h (by decide)

/-- a history with two method changes, numeric changes and a repeated call: equal to the direct build, field by field -/
example :
    fields ([⟨1, 5⟩, ⟨1, 2⟩, ⟨1, 2⟩, ⟨0, 9⟩, ⟨2, 4⟩].foldl (redistribute exSkel exPlace) (build exSkel exPlace ⟨0, 5⟩)) =
      fields (build exSkel exPlace ⟨2, 4⟩) := by decide
/-- … and a return to the initial settings -/
example :
    fields ([⟨1, 5⟩, ⟨2, 2⟩, ⟨0, 5⟩].foldl (redistribute exSkel exPlace) (build exSkel exPlace ⟨0, 5⟩)) =
      fields (build exSkel exPlace ⟨0, 5⟩) := by decide

/-- the no-op branch really leaves an arbitrary mesh (one violating `Inv`) untouched, while any other settings rebuild it -/
example :
    fields (redistribute exSkel exPlace ⟨42, ⟨1, 7⟩, ⟨3, 3⟩, (0, 0, 0)⟩ ⟨1, 7⟩) = (42, ⟨1, 7⟩, ⟨3, 3⟩, (0, 0, 0)) := by decide
example :
    fields (redistribute exSkel exPlace ⟨42, ⟨1, 7⟩, ⟨3, 3⟩, (0, 0, 0)⟩ ⟨1, 8⟩) = fields (build exSkel exPlace ⟨1, 8⟩) := by
  decide

/-- the same history on the old skeleton ends on the first skeleton -/
example :
    fields ([⟨1, 5⟩, ⟨1, 2⟩, ⟨1, 2⟩, ⟨0, 9⟩, ⟨2, 4⟩].foldl (redistributeRegrid exPlace) (build exSkel exPlace ⟨0, 5⟩)) =
      (5, ⟨2, 4⟩, ⟨2, 4⟩, (5, 2, 4)) := by decide

/-- a purely numeric history on the old skeleton: wrong when the skeleton depends on the numeric value, right when it
    depends on the method only -/
example :
    fields ([⟨0, 3⟩, ⟨0, 8⟩].foldl (redistributeRegrid exPlace) (build exSkel exPlace ⟨0, 5⟩)) ≠
      fields (build exSkel exPlace ⟨0, 8⟩) := by decide
example :
    fields ([⟨0, 3⟩, ⟨0, 8⟩].foldl (redistributeRegrid exPlace) (build exSkelMethod exPlace ⟨0, 5⟩)) =
      fields (build exSkelMethod exPlace ⟨0, 8⟩) := by decide

/-- hypothesis of `regrid_history_independent_of_constant_skeleton` (satisfied by a numeric history with a method-only
    skeleton, violated by the same history with `exSkel`) -/
example : ∀ s ∈ [(⟨0, 3⟩ : Settings Nat), ⟨0, 8⟩], exSkelMethod s = exSkelMethod ⟨0, 5⟩ := by decide
example : ¬ ∀ s ∈ [(⟨0, 3⟩ : Settings Nat), ⟨0, 8⟩], exSkel s = exSkel ⟨0, 5⟩ := by decide

/-- hypothesis of `stale_eq_regrid_of_nonempty` / `stale_history_eq_regrid_of_nonempty` -/
example : ∀ s ∈ [(⟨0, 3⟩ : Settings Nat), ⟨1, 0⟩], exIsEmpty s = false := by decide

/-- hypotheses of `stale_region_ne_recorded` -/
example : exIsEmpty ⟨0, 0⟩ = true ∧ (build exSkel exPlace ⟨0, 5⟩).region ≠ ⟨0, 0⟩ := by decide

/-- hypothesis of `redistribute_region` (and a mesh violating it) -/
example : (build exSkel exPlace ⟨1, 7⟩).region = (build exSkel exPlace ⟨1, 7⟩).recorded := rfl
example : (redistribute exSkel exPlace ⟨42, ⟨1, 7⟩, ⟨3, 3⟩, (0, 0, 0)⟩ ⟨1, 7⟩).region ≠ ⟨1, 7⟩ := by decide

/-- hypothesis of `history_independent_pair` -/
example : [(⟨0, 3⟩ : Settings Nat), ⟨1, 0⟩].getLastD ⟨4, 4⟩ = [(⟨1, 0⟩ : Settings Nat)].getLastD ⟨0, 0⟩ := by decide

end HypnoModel.Props.C15
