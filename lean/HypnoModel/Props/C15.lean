/-
C15 — regridding is history independent.
Model: HypnoModel/Model/Regrid.lean (hand-written from `Mesh.__init__`/`makeRegions`, `Mesh.redistributePoints`,
`MeshRegion.distributePointsNonorthogonal`, `Equilibrium.resetNonorthogonalOptions`).  A mesh is (skeleton, recorded options,
region options, points); `build skel place s` is the mesh made from scratch with the non-orthogonal settings `s`,
`redistribute skel place m s` is `m.redistributePoints(s)`.  `skel` (spacing method ↦ skeleton) and `place`
((skeleton, settings) ↦ points) are arbitrary functions: every statement below holds for all of them.  That the real placement
IS a function of the skeleton and the settings alone is the numerical claim the correspondence check exercises on real grids
(there: equality to within the point-refinement tolerance; here: equality of the model meshes, hence of anything derived from
them, `history_independent_derived`).
The model has the nonorthogonal_* settings only; the second sentence of the property (other settings are unaffected or the
call is refused) is not expressible in it and is left to the check.
The two regressions the model also describes (`redistributeStale`, `redistributeNoRebuild`) are shown NOT to be history
independent by concrete counter-examples, together with the exact side conditions under which they are.
-/
import HypnoModel.Model.Regrid

namespace HypnoModel.Props.C15
open Regrid

variable {N S P : Type}

/-! ## 1. the invariant -/

/-- the skeleton is the one of the recorded spacing method, the regions work with the recorded options, and the points are
    the placement of the recorded options on that skeleton -/
def Inv (skel : Nat → S) (place : S → Settings N → P) (m : Mesh N S P) : Prop :=
  m.skeleton = skel m.recorded.method ∧ m.region = m.recorded ∧ m.pts = place m.skeleton m.recorded

/-- two meshes with equal fields are equal -/
theorem mesh_ext {m m' : Mesh N S P} (h1 : m.skeleton = m'.skeleton) (h2 : m.recorded = m'.recorded)
    (h3 : m.region = m'.region) (h4 : m.pts = m'.pts) : m = m' := by
  cases m; cases m'; cases h1; cases h2; cases h3; cases h4; rfl

/-- a mesh built from scratch satisfies the invariant -/
theorem build_inv (skel : Nat → S) (place : S → Settings N → P) (s : Settings N) : Inv skel place (build skel place s) :=
  ⟨rfl, rfl, rfl⟩

/-- the invariant says exactly: the mesh is the one built from scratch with its recorded options -/
theorem inv_iff_eq_build (skel : Nat → S) (place : S → Settings N → P) (m : Mesh N S P) :
    Inv skel place m ↔ m = build skel place m.recorded := by
  constructor
  · rintro ⟨h1, h2, h3⟩
    exact mesh_ext h1 rfl h2 (by rw [h3, h1]; rfl)
  · intro h; rw [h]; exact build_inv skel place _

/-! ## 2. one step -/

/-- on a mesh satisfying the invariant, `redistributePoints(s)` gives the mesh built from scratch with `s` -/
theorem redistribute_eq_build (skel : Nat → S) (place : S → Settings N → P) (m : Mesh N S P) (s : Settings N)
    (h : Inv skel place m) : redistribute skel place m s = build skel place s := by
  unfold redistribute
  by_cases hm : s.method ≠ m.recorded.method
  · rw [if_pos hm]
  · rw [if_neg hm]
    have hm' : s.method = m.recorded.method := Classical.not_not.mp hm
    obtain ⟨h1, _, _⟩ := h
    have hs : m.skeleton = skel s.method := by rw [h1, hm']
    exact mesh_ext hs rfl rfl (by show place m.skeleton s = place (skel s.method) s; rw [hs])

/-- every step preserves the invariant -/
theorem redistribute_inv (skel : Nat → S) (place : S → Settings N → P) (m : Mesh N S P) (s : Settings N)
    (h : Inv skel place m) : Inv skel place (redistribute skel place m s) := by
  rw [redistribute_eq_build skel place m s h]; exact build_inv skel place s

/-- the options a step records are the ones it was given, invariant or not -/
theorem redistribute_recorded (skel : Nat → S) (place : S → Settings N → P) (m : Mesh N S P) (s : Settings N) :
    (redistribute skel place m s).recorded = s ∧ (redistribute skel place m s).region = s := by
  unfold redistribute
  by_cases hm : s.method ≠ m.recorded.method
  · rw [if_pos hm]; exact ⟨rfl, rfl⟩
  · rw [if_neg hm]; exact ⟨rfl, rfl⟩

/-! ## 3. any history -/

/-- a history of steps from a mesh satisfying the invariant ends in the mesh built from scratch with the last settings
    (or in the mesh itself when the history is empty) -/
theorem history_from_inv (skel : Nat → S) (place : S → Settings N → P) (m : Mesh N S P) (h : Inv skel place m)
    (ss : List (Settings N)) :
    ss.foldl (redistribute skel place) m = build skel place (ss.getLastD m.recorded) := by
  induction ss generalizing m with
  | nil => exact (inv_iff_eq_build skel place m).mp h
  | cons s ss ih =>
    rw [List.foldl_cons, List.getLastD_cons, redistribute_eq_build skel place m s h, ih _ (build_inv skel place s)]
    rfl

/-- build with `s0`, then any sequence `ss` of `redistributePoints` calls: the result is the mesh built from scratch with the
    final settings -/
theorem history_independent (skel : Nat → S) (place : S → Settings N → P) (s0 : Settings N) (ss : List (Settings N)) :
    ss.foldl (redistribute skel place) (build skel place s0) = build skel place (ss.getLastD s0) :=
  history_from_inv skel place _ (build_inv skel place s0) ss

/-- two histories with the same final settings give the same mesh -/
theorem history_independent_pair (skel : Nat → S) (place : S → Settings N → P) (s0 s0' : Settings N)
    (ss ss' : List (Settings N)) (h : ss.getLastD s0 = ss'.getLastD s0') :
    ss.foldl (redistribute skel place) (build skel place s0) =
      ss'.foldl (redistribute skel place) (build skel place s0') := by
  rw [history_independent, history_independent, h]

/-- anything derived from the mesh (the geometry, the contents of the grid file) agrees as well -/
theorem history_independent_derived {G : Type} (derive : Mesh N S P → G) (skel : Nat → S) (place : S → Settings N → P)
    (s0 : Settings N) (ss : List (Settings N)) :
    derive (ss.foldl (redistribute skel place) (build skel place s0)) = derive (build skel place (ss.getLastD s0)) :=
  congrArg derive (history_independent skel place s0 ss)

/-- returning to the initial settings after any excursion gives the mesh built with them directly -/
theorem history_independent_return (skel : Nat → S) (place : S → Settings N → P) (s0 : Settings N)
    (ss : List (Settings N)) :
    (ss ++ [s0]).foldl (redistribute skel place) (build skel place s0) = build skel place s0 := by
  rw [history_independent, List.getLastD_eq_getLast?, List.getLast?_append]
  rfl

/-- more generally: whatever came before, ending with `s` gives `build s` -/
theorem history_independent_last (skel : Nat → S) (place : S → Settings N → P) (s0 s : Settings N)
    (ss : List (Settings N)) :
    (ss ++ [s]).foldl (redistribute skel place) (build skel place s0) = build skel place s := by
  rw [history_independent, List.getLastD_eq_getLast?, List.getLast?_append]
  rfl

/-- repeating a call with the same settings changes nothing (after a build or any history: `Inv` suffices for the first
    call, nothing is needed for the second) -/
theorem redistribute_idempotent (skel : Nat → S) (place : S → Settings N → P) (m : Mesh N S P) (s : Settings N)
    (h : Inv skel place m) :
    redistribute skel place (redistribute skel place m s) s = redistribute skel place m s := by
  rw [redistribute_eq_build skel place m s h, redistribute_eq_build skel place _ s (build_inv skel place s)]

/-- the invariant holds after any history -/
theorem history_inv (skel : Nat → S) (place : S → Settings N → P) (s0 : Settings N) (ss : List (Settings N)) :
    Inv skel place (ss.foldl (redistribute skel place) (build skel place s0)) := by
  rw [history_independent]; exact build_inv skel place _

/-- after any history the options written to the grid file (`recorded`) are the ones the regions used, and they are the
    final settings -/
theorem recorded_matches_regions (skel : Nat → S) (place : S → Settings N → P) (s0 : Settings N)
    (ss : List (Settings N)) :
    (ss.foldl (redistribute skel place) (build skel place s0)).region =
      (ss.foldl (redistribute skel place) (build skel place s0)).recorded ∧
    (ss.foldl (redistribute skel place) (build skel place s0)).recorded = ss.getLastD s0 := by
  rw [history_independent]; exact ⟨rfl, rfl⟩

/-! ## 4. the two regressions are not history independent -/

/-- concrete instance: settings with a numeric value in `Nat`, the skeleton is the method index itself, a point set is the
    triple (skeleton, method, numeric) it was placed from -/
abbrev exPlace : Nat → Settings Nat → Nat × Nat × Nat := fun k s => (k, s.method, s.numeric)

/-- the settings dictionary is empty -/
abbrev exIsEmpty : Settings Nat → Bool := fun s => s.numeric == 0 && s.method == 0

/-- all four fields of a concrete mesh, for `decide` -/
abbrev fields (m : Mesh Nat Nat (Nat × Nat × Nat)) : Nat × Settings Nat × Settings Nat × (Nat × Nat × Nat) :=
  (m.skeleton, m.recorded, m.region, m.pts)

/-- regions that keep their options when the new dictionary is empty: after `build s1; redistributePoints({})` the points
    are still those of `s1` although `{}` is recorded — the mesh differs from `build {}` and the grid file would name
    options the regions did not use -/
theorem stale_regions_counterexample :
    let s1 : Settings Nat := ⟨0, 5⟩
    let sEmpty : Settings Nat := ⟨0, 0⟩
    let m := redistributeStale id exPlace exIsEmpty (build id exPlace s1) sEmpty
    m ≠ build id exPlace sEmpty ∧ m.region ≠ m.recorded ∧ m.recorded = sEmpty ∧ m.region = s1 ∧
      m.pts = (build id exPlace s1).pts ∧ m.pts ≠ (build id exPlace sEmpty).pts := by
  refine ⟨fun h => ?_, by decide, by decide, by decide, by decide, by decide⟩
  exact absurd (congrArg fields h) (by decide)

/-- with non-empty dictionaries only, the stale variant is the fixed one (so it is history independent on such histories) -/
theorem stale_eq_redistribute_of_nonempty (skel : Nat → S) (place : S → Settings N → P) (isEmpty : Settings N → Bool)
    (m : Mesh N S P) (s : Settings N) (h : isEmpty s = false) :
    redistributeStale skel place isEmpty m s = redistribute skel place m s := by
  unfold redistributeStale; rw [h]; rfl

theorem stale_history_nonempty (skel : Nat → S) (place : S → Settings N → P) (isEmpty : Settings N → Bool)
    (s0 : Settings N) (ss : List (Settings N)) (h : ∀ s ∈ ss, isEmpty s = false) :
    ss.foldl (redistributeStale skel place isEmpty) (build skel place s0) = build skel place (ss.getLastD s0) := by
  rw [← history_independent]
  generalize build skel place s0 = m
  induction ss generalizing m with
  | nil => rfl
  | cons s ss ih =>
    rw [List.foldl_cons, List.foldl_cons,
      stale_eq_redistribute_of_nonempty skel place isEmpty m s (h s List.mem_cons_self)]
    exact ih (fun t ht => h t (List.mem_cons_of_mem _ ht)) _

/-- no re-creation of the regions on a method change: the skeleton stays the one of the first build, so the mesh differs
    from the one built with the new settings (the recorded and region options do agree, which is why this went unnoticed
    in the grid file) -/
theorem no_rebuild_counterexample :
    let s0 : Settings Nat := ⟨0, 5⟩
    let s1 : Settings Nat := ⟨1, 5⟩
    let m := redistributeNoRebuild exPlace (build id exPlace s0) s1
    m ≠ build id exPlace s1 ∧ m.skeleton = (build id exPlace s0).skeleton ∧
      m.skeleton ≠ (build id exPlace s1).skeleton ∧ m.pts ≠ (build id exPlace s1).pts ∧
      m.recorded = s1 ∧ m.region = s1 ∧
      redistribute id exPlace (build id exPlace s0) s1 = build id exPlace s1 := by
  refine ⟨fun h => ?_, by decide, by decide, by decide, by decide, by decide, rfl⟩
  exact absurd (congrArg fields h) (by decide)

/-- one step without rebuild agrees with the fixed step when the method is unchanged -/
theorem no_rebuild_eq_redistribute_same_method (skel : Nat → S) (place : S → Settings N → P) (m : Mesh N S P)
    (s : Settings N) (h : s.method = m.recorded.method) :
    redistributeNoRebuild place m s = redistribute skel place m s := by
  unfold redistribute; rw [if_neg (fun hn => hn h)]; rfl

/-- if every setting of the history has the method of `s0`, the variant without rebuild IS history independent: the
    behaviour before the fix was wrong on method changes only -/
theorem no_rebuild_same_method (skel : Nat → S) (place : S → Settings N → P) (s0 : Settings N) (ss : List (Settings N))
    (h : ∀ s ∈ ss, s.method = s0.method) :
    ss.foldl (redistributeNoRebuild place) (build skel place s0) = build skel place (ss.getLastD s0) := by
  induction ss generalizing s0 with
  | nil => rfl
  | cons s ss ih =>
    have hs : s.method = s0.method := h s List.mem_cons_self
    have hstep : redistributeNoRebuild place (build skel place s0) s = build skel place s := by
      rw [no_rebuild_eq_redistribute_same_method skel place _ s hs]
      exact redistribute_eq_build skel place _ s (build_inv skel place s0)
    rw [List.foldl_cons, List.getLastD_cons, hstep,
      ih s (fun t ht => (h t (List.mem_cons_of_mem _ ht)).trans hs.symm)]

/-! ## 5. the hypotheses are satisfiable; concrete runs -/

/-- `Inv` is satisfiable (by a build) and not trivially true (a mesh with stale regions violates it) -/
example : Inv id exPlace (build id exPlace ⟨1, 7⟩) := build_inv _ _ _
example : ¬ Inv id exPlace ({ skeleton := 1, recorded := ⟨1, 7⟩, region := ⟨1, 3⟩, pts := (1, 1, 7) } : Mesh _ _ _) := by
  rintro ⟨_, h, _⟩; exact absurd h (by decide)

/-- a history with two method changes and a return: equal to the direct build, field by field -/
example :
    fields ([⟨1, 5⟩, ⟨1, 2⟩, ⟨0, 9⟩, ⟨2, 4⟩].foldl (redistribute id exPlace) (build id exPlace ⟨0, 5⟩)) =
      fields (build id exPlace ⟨2, 4⟩) := by decide
example :
    fields ([⟨1, 5⟩, ⟨2, 2⟩, ⟨0, 5⟩].foldl (redistribute id exPlace) (build id exPlace ⟨0, 5⟩)) =
      fields (build id exPlace ⟨0, 5⟩) := by decide

/-- the same history without rebuild ends on the first skeleton -/
example :
    fields ([⟨1, 5⟩, ⟨1, 2⟩, ⟨0, 9⟩, ⟨2, 4⟩].foldl (redistributeNoRebuild exPlace) (build id exPlace ⟨0, 5⟩)) =
      (0, ⟨2, 4⟩, ⟨2, 4⟩, (0, 2, 4)) := by decide

/-- hypothesis of `no_rebuild_same_method` -/
example : ∀ s ∈ [(⟨0, 3⟩ : Settings Nat), ⟨0, 8⟩], s.method = (⟨0, 5⟩ : Settings Nat).method := by decide

/-- hypothesis of `stale_history_nonempty` -/
example : ∀ s ∈ [(⟨0, 3⟩ : Settings Nat), ⟨1, 0⟩], exIsEmpty s = false := by decide

/-- hypothesis of `history_independent_pair` -/
example : [(⟨0, 3⟩ : Settings Nat), ⟨1, 0⟩].getLastD ⟨4, 4⟩ = [(⟨1, 0⟩ : Settings Nat)].getLastD ⟨0, 0⟩ := by decide

end HypnoModel.Props.C15
