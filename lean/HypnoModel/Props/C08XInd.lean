/-
C08 — points on a shared edge coincide: the global radial contour index `globalXInd`
(regenerated from hypnotoad/core/mesh.py :: MeshRegion.globalXInd into Gen/XInd.lean) is single valued on the
contour shared by two radially adjacent regions, increases outwards and is normalised by the inside / outside widths.
-/
import HypnoModel.Gen.XInd

namespace HypnoModel.Props.C08
open Gen.XInd

namespace XIndLemmas

/-- prefix sum `sum(nx[:k])` -/
def P (nx : List Nat) (k : Nat) : Nat := (nx.take k).sum

theorem sum_take_add_sum_drop (l : List Nat) (k : Nat) : (l.take k).sum + (l.drop k).sum = l.sum := by
  rw [← List.sum_append, List.take_append_drop]

theorem slice_add_prefix (nx : List Nat) {a b : Nat} (h : a ≤ b) :
    ((nx.take b).drop a).sum + P nx a = P nx b := by
  have h1 := sum_take_add_sum_drop (nx.take b) a
  rw [List.take_take, Nat.min_eq_left h] at h1
  unfold P
  omega

theorem P_succ (nx : List Nat) {k : Nat} (h : k < nx.length) :
    P nx (k + 1) = P nx k + nx[k] := by
  unfold P
  rw [List.take_succ_eq_append_getElem h, List.sum_append]
  simp only [List.sum_cons, List.sum_nil, Nat.add_zero]

theorem P_mono (nx : List Nat) {a b : Nat} (h : a ≤ b) : P nx a ≤ P nx b := by
  have := slice_add_prefix nx h
  omega

theorem P_add_drop (nx : List Nat) (k : Nat) : P nx k + (nx.drop k).sum = nx.sum :=
  sum_take_add_sum_drop nx k

theorem P_le_sum (nx : List Nat) (k : Nat) : P nx k ≤ nx.sum := by
  have := P_add_drop nx k
  omega

/-- both branches of `globalXInd` are the same affine expression of the prefix sums -/
theorem gxi_eq (nx : List Nat) (sep r : Nat) (i : Int) :
    globalXInd nx sep r i = i + 2 * (P nx r : Int) - 2 * (P nx sep : Int) := by
  unfold globalXInd
  by_cases h : r ≥ sep
  · rw [if_pos h]
    have := slice_add_prefix nx h
    omega
  · rw [if_neg h]
    have := slice_add_prefix nx (Nat.le_of_lt (Nat.lt_of_not_ge h))
    omega

end XIndLemmas

open XIndLemmas

/-! ### 1. the separatrix contour has index 0 from either side -/

theorem gxi_zero_at_separatrix_outer (nx : List Nat) (sep : Nat) :
    globalXInd nx sep sep 0 = 0 := by
  rw [gxi_eq]; omega

theorem gxi_zero_at_separatrix_sep_zero (nx : List Nat) :
    globalXInd nx 0 0 0 = 0 :=
  gxi_zero_at_separatrix_outer nx 0

theorem gxi_zero_at_separatrix (nx : List Nat) (sep : Nat) (hs : 0 < sep) (h : sep ≤ nx.length) :
    globalXInd nx sep sep 0 = 0 ∧
    globalXInd nx sep (sep - 1) (2 * (nx[sep - 1]'(by omega) : Nat)) = 0 := by
  refine ⟨gxi_zero_at_separatrix_outer nx sep, ?_⟩
  rw [gxi_eq]
  have h1 : sep - 1 < nx.length := by omega
  have h2 := P_succ nx h1
  have h3 : sep - 1 + 1 = sep := by omega
  rw [h3] at h2
  omega

/-! ### 2. the contour shared by regions `r` and `r+1` has one global index -/

theorem gxi_shared_contour (nx : List Nat) (sep r : Nat) (h : r < nx.length) :
    globalXInd nx sep r (2 * (nx[r] : Nat)) = globalXInd nx sep (r + 1) 0 := by
  rw [gxi_eq, gxi_eq]
  have := P_succ nx h
  omega

/-! ### 3. order -/

theorem gxi_strict_mono_in_i (nx : List Nat) (sep r : Nat) (i j : Int) (h : i < j) :
    globalXInd nx sep r i < globalXInd nx sep r j := by
  rw [gxi_eq, gxi_eq]; omega

theorem gxi_global_order (nx : List Nat) (sep r r' : Nat) (i j : Int)
    (hrr : r ≤ r') (hr : r < nx.length) (hr' : r' < nx.length)
    (hi : 0 ≤ i ∧ i ≤ 2 * (nx[r] : Nat)) (hj : 0 ≤ j ∧ j ≤ 2 * (nx[r'] : Nat))
    (h : r < r' ∨ i ≤ j) :
    globalXInd nx sep r i ≤ globalXInd nx sep r' j := by
  rw [gxi_eq, gxi_eq]
  rcases Nat.lt_or_ge r r' with hlt | hge
  · have h1 := P_succ nx hr
    have h2 : P nx (r + 1) ≤ P nx r' := P_mono nx hlt
    omega
  · have hEq : r = r' := Nat.le_antisymm hrr hge
    subst hEq
    rcases h with h | h
    · omega
    · omega

/-- strict version: across different regions only the shared contour can tie -/
theorem gxi_global_order_strict (nx : List Nat) (sep r r' : Nat) (i j : Int)
    (hrr : r < r') (hr : r < nx.length)
    (hi : i < 2 * (nx[r] : Nat)) (hj : 0 ≤ j) :
    globalXInd nx sep r i < globalXInd nx sep r' j := by
  rw [gxi_eq, gxi_eq]
  have h1 := P_succ nx hr
  have h2 : P nx (r + 1) ≤ P nx r' := P_mono nx hrr
  omega

/-! ### 4. range: the normalisations used by the weights -/

theorem gxi_range_inside (nx : List Nat) (sep r : Nat) (i : Int)
    (hr : r < sep) (hsep : sep ≤ nx.length)
    (hi : 0 ≤ i ∧ i ≤ 2 * (nx[r]'(by omega) : Nat)) :
    -(2 * ((nx.take sep).sum : Int)) ≤ globalXInd nx sep r i ∧ globalXInd nx sep r i ≤ 0 := by
  rw [gxi_eq]
  have hr' : r < nx.length := by omega
  have h1 := P_succ nx hr'
  have h2 : P nx (r + 1) ≤ P nx sep := P_mono nx hr
  have h3 : (nx.take sep).sum = P nx sep := rfl
  rw [h3]
  omega

theorem gxi_range_outside (nx : List Nat) (sep r : Nat) (i : Int)
    (hr : sep ≤ r) (hr' : r < nx.length)
    (hi : 0 ≤ i ∧ i ≤ 2 * (nx[r] : Nat)) :
    0 ≤ globalXInd nx sep r i ∧ globalXInd nx sep r i ≤ 2 * ((nx.drop sep).sum : Int) := by
  rw [gxi_eq]
  have h1 := P_succ nx hr'
  have h2 : P nx sep ≤ P nx r := P_mono nx hr
  have h3 := P_add_drop nx sep
  have h4 := P_le_sum nx (r + 1)
  omega

/-- the end points of the two ranges are attained: innermost contour and outermost contour -/
theorem gxi_range_attained (nx : List Nat) (sep : Nat) :
    globalXInd nx sep 0 0 = -(2 * ((nx.take sep).sum : Int)) ∧
    globalXInd nx sep nx.length 0 = 2 * ((nx.drop sep).sum : Int) := by
  rw [gxi_eq, gxi_eq]
  have h0 : P nx 0 = 0 := rfl
  have h1 : P nx nx.length = nx.sum := by unfold P; rw [List.take_length]
  have h3 := P_add_drop nx sep
  have h4 : (nx.take sep).sum = P nx sep := rfl
  rw [h4]
  omega

/-! ### 5. the original inside branch (python slice `nx[sep:r:-1]`, the segments `sep, sep-1, …, r+1`) -/

/-- `globalXInd` as originally written: for `r < sep` the sum runs over the segments `r+1 … sep` instead of `r … sep-1`. -/
def globalXIndOld (nx : List Nat) (sep r : Nat) (i : Int) : Int :=
  if r ≥ sep then i + 2 * (((nx.take r).drop sep).sum : Int)
  else i - 2 * (((nx.take (sep + 1)).drop (r + 1)).sum : Int)

/-- disconnected double null with unequal widths: the separatrix contour gets two different indices -/
theorem gxi_old_tears_shared_contour :
    globalXIndOld [2, 1, 2] 1 0 4 = 2 ∧ globalXIndOld [2, 1, 2] 1 1 0 = 0 ∧
    globalXInd [2, 1, 2] 1 0 4 = 0 ∧ globalXInd [2, 1, 2] 1 1 0 = 0 := by
  decide

/-- closed form of the old function inside the separatrix -/
theorem gxi_old_eq_inside (nx : List Nat) (sep r : Nat) (i : Int) (hr : r < sep) :
    globalXIndOld nx sep r i = i + 2 * (P nx (r + 1) : Int) - 2 * (P nx (sep + 1) : Int) := by
  unfold globalXIndOld
  rw [if_neg (by omega)]
  have := slice_add_prefix nx (show r + 1 ≤ sep + 1 by omega)
  omega

/-- the old value is off by twice the difference of the widths of segments `sep` and `r` -/
theorem gxi_old_error (nx : List Nat) (sep r : Nat) (i : Int) (hr : r < sep) (hsep : sep < nx.length) :
    globalXIndOld nx sep r i = globalXInd nx sep r i + 2 * ((nx[r]'(by omega) : Nat) : Int) - 2 * ((nx[sep] : Nat) : Int) := by
  rw [gxi_old_eq_inside nx sep r i hr, gxi_eq]
  have h1 := P_succ nx (show r < nx.length by omega)
  have h2 := P_succ nx hsep
  omega

theorem gxi_old_agrees_when_equal_widths (nx : List Nat) (n : Nat) (i : Int)
    (hall : ∀ a ∈ nx, a = n) (hlen : 1 < nx.length) :
    globalXIndOld nx 1 0 i = globalXInd nx 1 0 i := by
  rw [gxi_old_error nx 1 0 i (by omega) hlen]
  have h0 : nx[0]'(by omega) = n := hall _ (List.getElem_mem _)
  have h1 : nx[1] = n := hall _ (List.getElem_mem _)
  rw [h0, h1]
  omega

/-- general form: equal widths hide the defect for every `r < sep` -/
theorem gxi_old_agrees_when_equal_widths_general (nx : List Nat) (n sep r : Nat) (i : Int)
    (hall : ∀ a ∈ nx, a = n) (hr : r < sep) (hsep : sep < nx.length) :
    globalXIndOld nx sep r i = globalXInd nx sep r i := by
  rw [gxi_old_error nx sep r i hr hsep]
  have h0 : nx[r]'(by omega) = n := hall _ (List.getElem_mem _)
  have h1 : nx[sep] = n := hall _ (List.getElem_mem _)
  rw [h0, h1]
  omega

/-- and unequal widths of the two segments adjacent to the contour always expose it -/
theorem gxi_old_tears_iff (nx : List Nat) (sep : Nat) (hs : 0 < sep) (hsep : sep < nx.length) :
    globalXIndOld nx sep (sep - 1) (2 * (nx[sep - 1]'(by omega) : Nat)) = globalXIndOld nx sep sep 0
      ↔ nx[sep - 1]'(by omega) = nx[sep] := by
  rw [gxi_old_error nx sep (sep - 1) _ (by omega) hsep]
  have h1 := (gxi_zero_at_separatrix nx sep hs (by omega)).2
  rw [h1]
  have h2 : globalXIndOld nx sep sep 0 = 0 := by
    unfold globalXIndOld
    rw [if_pos (Nat.le_refl _)]
    have := slice_add_prefix nx (Nat.le_refl sep)
    omega
  rw [h2]
  omega

/-! ### 6. non-vacuity -/

example :
    (globalXInd [2, 1, 2] 1 1 0 = 0 ∧ globalXInd [2, 1, 2] 1 0 4 = 0) ∧
    globalXInd [2, 1, 2] 1 1 2 = globalXInd [2, 1, 2] 1 2 0 ∧
    globalXInd [2, 1, 2] 1 2 0 = 2 ∧ globalXInd [2, 1, 2] 1 0 0 = -4 :=
  ⟨gxi_zero_at_separatrix [2, 1, 2] 1 (by decide) (by decide),
   gxi_shared_contour [2, 1, 2] 1 1 (by decide),
   by decide, by decide⟩

end HypnoModel.Props.C08
