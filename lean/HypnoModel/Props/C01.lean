/-
C01 — every grid point lies on its flux surface.
Definitions: HypnoModel/Gen/Pipeline.lean (GENERATED from hypnotoad/core/mesh.py on every run: the list of operations on
`MeshRegion.contours` in `__init__` / `distributePointsNonorthogonal`, the `fillRZ` slicing parities and the X-point corner
positions) and HypnoModel/Model/Refine.lean (hand-written model of `PsiContour.refinePointNewton`, `refinePoint`, `getRefined`,
the flag "all points were last written by a refinement", and `fillRZ`).
Helper lemmas and the auxiliary definitions `get2` (`get2 m i j = m[i]?.bind (·[j]?)`, entry (i, j) of a list of lists), `Rect`
(`Rect m R C`: R rows, all of length C), `Hit` (`Hit R C ij a b`: the python index pair `ij` refers to the existing entry (a, b)
of an R × C array): HypnoModel/Lemmas/Refine.lean.  This file: property theorems only.

The chain of the property: a successful Newton refinement ends within `atol` of the surface (§1); `refinePoint` returns the
outcome of the first method that succeeds (§2); `getRefined` refines every point of a contour (§3); the last operation on the
contours in every construction path is a whole-contour refinement whose result is stored (§4); `fillRZ` only copies contour
points into the arrays, contour 2i+1 / 2i of the region feeding row i (§5); hence every array entry is within the tolerance of
the flux surface of its radial index, apart from the corners that are replaced by X-points (§6).

Remarks on the statements.
* "Within the point-refinement tolerance" is `atol · max 1 |psival|`: the entry test of `refinePointNewton` is relative
  (`|f 0| < atol·|psival|`, in which case the point is returned unchanged), the convergence test absolute (`|f s| < atol`).
* `newton_fuel_enough` holds already from fuel 12 (the model uses 13): at most 12 Newton steps are possible.
* The pipeline theorems of §4 are stated about the generated lists and proved by evaluation, so they fail to compile if the
  source stops storing the result of the final `PsiContour.refine` map (or adds a point-writing operation after it).
-/
import HypnoModel.Gen.Pipeline
import HypnoModel.Model.Refine
import HypnoModel.Lemmas.Refine

namespace HypnoModel.Props.C01
open Refine Gen.Pipeline

/-! ## 1. refinePointNewton -/
section newton
variable {α : Type} [Field α] [LinearOrder α] [IsStrictOrderedRing α]

/-- whatever the loop returns passed the convergence test -/
theorem newtonLoop_post (f dfds : α → α) (atol : α) (fuel count : Nat) (s fprev s' : α)
    (h : newtonLoop f dfds atol fuel count s fprev = some s') : |f s'| < atol := by
  rw [← absv_eq_abs]
  exact newtonLoop_some_absv f dfds atol fuel count s fprev s' h

/-- a returned point is either the unchanged input, which passed the relative entry test, or passed the absolute
    convergence test -/
theorem newton_post_cases (f dfds : α → α) (atol psival s : α) (h : newton f dfds atol psival = some s) :
    (s = 0 ∧ |f 0| < atol * |psival|) ∨ |f s| < atol := by
  unfold newton at h
  split_ifs at h with h0
  · cases h
    rw [absv_eq_abs, absv_eq_abs] at h0
    exact Or.inl ⟨rfl, h0⟩
  · exact Or.inr (newtonLoop_post f dfds atol _ _ _ _ s h)

/-- a point returned by refinePointNewton is within the point-refinement tolerance of its surface -/
theorem newton_post (f dfds : α → α) (atol psival s : α) (h : newton f dfds atol psival = some s) :
    |f s| < atol * max 1 |psival| := by
  rcases newton_post_cases f dfds atol psival s h with ⟨rfl, h0⟩ | h1
  · have hpos : 0 < atol := by
      by_contra hn
      have h1 : atol * |psival| ≤ 0 := mul_nonpos_iff.mpr (Or.inr ⟨not_lt.mp hn, abs_nonneg _⟩)
      have h2 := abs_nonneg (f 0)
      linarith
    calc |f 0| < atol * |psival| := h0
      _ ≤ atol * max 1 |psival| := mul_le_mul_of_nonneg_left (le_max_right _ _) hpos.le
  · have hpos : 0 < atol := lt_of_le_of_lt (abs_nonneg _) h1
    calc |f s| < atol := h1
      _ = atol * 1 := (mul_one _).symm
      _ ≤ atol * max 1 |psival| := mul_le_mul_of_nonneg_left (le_max_left _ _) hpos.le

end newton

/-- the fuel of the model never runs out before the code's own `count > 10` test fires: from `count = 0` any fuel ≥ 12 gives
    the same result as the 13 that `newton` uses, so the `| 0 => none` branch of `newtonLoop` is unreachable from `newton` -/
theorem newton_fuel_enough {α : Type} [Sub α] [Div α] [Neg α] [Zero α] [LT α] [DecidableLT α]
    (f dfds : α → α) (atol : α) (fuel : Nat) (hfuel : 12 ≤ fuel) (s fprev : α) :
    newtonLoop f dfds atol fuel 0 s fprev = newtonLoop f dfds atol 13 0 s fprev := by
  obtain ⟨k, rfl⟩ := Nat.exists_eq_add_of_le hfuel
  rw [newtonLoop_fuel_add f dfds atol k 12 0 s fprev (by omega) (by omega)]
  exact (newtonLoop_fuel_add f dfds atol 1 12 0 s fprev (by omega) (by omega)).symm

/-! ## 2. refinePoint -/
section refinePoint
variable {P : Type}

/-- the result is that of the first method that does not raise, all earlier ones having raised -/
theorem refinePoint_first_success (run : Method → P → Option P) (ms : List Method) (p q : P) :
    refinePoint true run ms p = some q ↔
      ∃ pre m post, ms = pre ++ m :: post ∧ (∀ m' ∈ pre, run m' p = none) ∧ run m p = some q := by
  simp only [refinePoint, Bool.not_true, Bool.false_eq_true, if_false, List.findSome?_eq_some_iff]
  constructor
  · rintro ⟨a, b, c, h1, h2, h3⟩; exact ⟨a, b, c, h1, h3, h2⟩
  · rintro ⟨a, b, c, h1, h2, h3⟩; exact ⟨a, b, c, h1, h3, h2⟩

/-- SolutionError exactly when every method raised -/
theorem refinePoint_error_iff (run : Method → P → Option P) (ms : List Method) (p : P) :
    refinePoint true run ms p = none ↔ ∀ m ∈ ms, run m p = none := by
  simp only [refinePoint, Bool.not_true, Bool.false_eq_true, if_false, List.findSome?_eq_none_iff]

/-- without a psival the point is returned unchanged -/
theorem refinePoint_no_psival (run : Method → P → Option P) (ms : List Method) (p : P) :
    refinePoint false run ms p = some p := rfl

/-- whatever holds of every successful outcome of every listed method holds of the result -/
theorem refinePoint_post (run : Method → P → Option P) (ms : List Method) (p q : P) (Q : P → Prop)
    (hQ : ∀ m ∈ ms, ∀ q, run m p = some q → Q q) (h : refinePoint true run ms p = some q) : Q q := by
  obtain ⟨pre, m, post, hms, -, hm⟩ := (refinePoint_first_success run ms p q).mp h
  exact hQ m (by simp [hms]) q hm

/-- "integrate+newton" ends with a Newton refinement (of the integrated point) -/
theorem runOf_integrateNewton (n l i : P → Option P) (p q : P) (h : runOf n l i .integrateNewton p = some q) :
    ∃ r, i p = some r ∧ n r = some q := by
  simpa [runOf, Option.bind_eq_some_iff] using h

/-- with the method table of the code: if Q holds of every outcome of `newton` (from any starting point) and of `line`, and
    the list of methods contains neither "integrate" nor "none", the result satisfies Q.  The two excluded methods are exactly
    the ones that by their own docstrings do not respect `atol` ("integrate" has the accuracy of the ODE integrator only,
    "none" does not move the point), which is what is missing for an unconditional statement. -/
theorem refinePoint_post_partial (newton line integrate : P → Option P) (ms : List Method) (p q : P) (Q : P → Prop)
    (hnewton : ∀ p q, newton p = some q → Q q) (hline : ∀ p q, line p = some q → Q q)
    (hint : Method.integrate ∉ ms) (hnone : Method.noRefine ∉ ms)
    (h : refinePoint true (runOf newton line integrate) ms p = some q) : Q q := by
  refine refinePoint_post _ ms p q Q ?_ h
  intro m hm q' hq'
  cases m with
  | newton => exact hnewton p q' hq'
  | line => exact hline p q' hq'
  | integrate => exact absurd hm hint
  | integrateNewton =>
    obtain ⟨r, -, hr⟩ := runOf_integrateNewton newton line integrate p q' hq'
    exact hnewton r q' hr
  | noRefine => exact absurd hm hnone

end refinePoint

/-! ## 3. getRefined -/
section getRefined
variable {P : Type} [Sub P]

/-- n ≥ 2 points get n tangents -/
theorem tangents_length (pts : List P) (h : 2 ≤ pts.length) : (tangents pts).length = pts.length :=
  tangents_length_eq pts h

/-- forward difference at the first point, centred differences (not normalised) inside, backward difference at the last -/
theorem tangents_spec (pts : List P) :
    (∀ a b, pts[0]? = some a → pts[1]? = some b → (tangents pts)[0]? = some (b - a)) ∧
    (∀ i a b, 0 < i → pts[i - 1]? = some a → pts[i + 1]? = some b → (tangents pts)[i]? = some (b - a)) ∧
    (∀ a b, 2 ≤ pts.length → pts[pts.length - 2]? = some a → pts[pts.length - 1]? = some b →
      (tangents pts)[pts.length - 1]? = some (b - a)) := by
  match pts with
  | [] => simp
  | [_] => simp
  | p0 :: p1 :: rest =>
    refine ⟨?_, ?_, ?_⟩
    · intro a b ha hb
      simp at ha hb; subst ha; subst hb
      simp [tangents]
    · intro i a b hi ha hb
      obtain ⟨k, rfl⟩ : ∃ k, i = k + 1 := ⟨i - 1, by omega⟩
      simp only [Nat.add_sub_cancel, List.getElem?_cons_succ] at ha hb
      simp only [tangents, List.getElem?_cons_succ]
      exact mid_getElem_lt p0 p1 rest k a b ha hb
    · intro a b _ ha hb
      simp only [List.length_cons, Nat.add_sub_cancel] at ha hb ⊢
      rw [show rest.length + 1 + 1 - 2 = rest.length by omega] at ha
      simp only [tangents, List.getElem?_cons_succ]
      exact mid_getElem_last p0 p1 rest a b ha hb

/-- a successful getRefined returns as many points as it was given -/
theorem getRefined_length (refine : P → P → Option P) (pts : List P) (skip : Bool) (startInd endInd : Int) (r : List P)
    (hn : 2 ≤ pts.length) (h : getRefined refine pts skip startInd endInd = some r) : r.length = pts.length := by
  obtain ⟨new, hm, rfl⟩ := (getRefined_eq_some refine pts skip startInd endInd r).mp h
  have hlen : new.length = pts.length := by
    rw [(mapM_option_some _ _ _ hm).1, List.length_zip, tangents_length_eq pts hn, Nat.min_self]
  cases skip
  · simpa using hlen
  · simpa [restore_length] using hlen

/-- every point of the result is the outcome of a refinement, except (skip_endpoints) the points at startInd and endInd, which
    are the original ones -/
theorem getRefined_post (refine : P → P → Option P) (Q : P → Prop) (hQ : ∀ p t q, refine p t = some q → Q q)
    (pts : List P) (skip : Bool) (startInd endInd : Int) (r : List P)
    (h : getRefined refine pts skip startInd endInd = some r) (k : Nat) (q : P) (hk : r[k]? = some q) :
    Q q ∨ (skip = true ∧ (k = pyIndex pts.length startInd ∨ k = pyIndex pts.length endInd) ∧ pts[k]? = some q) := by
  obtain ⟨new, hm, rfl⟩ := (getRefined_eq_some refine pts skip startInd endInd r).mp h
  have hnew : ∀ q, new[k]? = some q → Q q := by
    intro q hq
    obtain ⟨⟨p, t⟩, -, hx⟩ := (mapM_option_some _ _ _ hm).2 k q hq
    exact hQ p t q hx
  cases skip
  · exact Or.inl (hnew q (by simpa using hk))
  · simp only [if_true] at hk
    rcases restore_getElem_some _ _ _ _ _ hk with h1 | ⟨h1, h2⟩
    · rcases restore_getElem_some _ _ _ _ _ h1 with h3 | ⟨h3, h4⟩
      · exact Or.inl (hnew q h3)
      · exact Or.inr ⟨rfl, Or.inl h3, h4⟩
    · exact Or.inr ⟨rfl, Or.inr h1, h2⟩

/-- skip_endpoints: the points at startInd and endInd are the original ones -/
theorem getRefined_skip (refine : P → P → Option P) (pts : List P) (startInd endInd : Int) (r : List P)
    (hn : 2 ≤ pts.length) (h : getRefined refine pts true startInd endInd = some r) :
    r[pyIndex pts.length startInd]? = pts[pyIndex pts.length startInd]? ∧
    r[pyIndex pts.length endInd]? = pts[pyIndex pts.length endInd]? := by
  obtain ⟨new, hm, rfl⟩ := (getRefined_eq_some refine pts true startInd endInd r).mp h
  have hlen : new.length = pts.length := by
    rw [(mapM_option_some _ _ _ hm).1, List.length_zip, tangents_length_eq pts hn, Nat.min_self]
  have hlen' : (restore pts new (pyIndex pts.length startInd)).length = pts.length := by rw [restore_length, hlen]
  simp only [if_true]
  rw [restore_getElem _ _ _ _ hlen', restore_getElem _ _ _ _ hlen', restore_getElem _ _ _ _ hlen]
  exact ⟨by simp, by simp⟩

end getRefined

/-! ## 4. the operations on the contours -/

/-- a list of operations ending with a stored whole-contour refinement leaves every contour refined -/
theorem runFlag_last_refine (b : Bool) (pre ops : List Op) (h : ops = pre ++ [.assignMap "PsiContour.refine"]) :
    runFlag b ops = true := by
  subst h
  rw [runFlag_append]
  exact stepFlag_assign_refine (runFlag b pre)

/-- a map whose result is thrown away establishes nothing -/
theorem runFlag_discard_not_enough : runFlag false [.build, .discardMap "PsiContour.refine"] = false := by decide

/-- `MeshRegion.__init__`, orthogonal grid -/
theorem pipeline_orthogonal_refined : runFlag false initOrthogonal = true := by decide

/-- `MeshRegion.__init__`, non-orthogonal grid (including addPointAtWallToContours and distributePointsNonorthogonal) -/
theorem pipeline_nonorthogonal_refined : runFlag false initNonorthogonal = true := by decide

/-- one `distributePointsNonorthogonal`, from any state -/
theorem pipeline_redistribute_refined : ∀ b, runFlag b redistribute = true := by decide

/-- any number of redistributions after the construction -/
theorem pipeline_any_history :
    ∀ k, runFlag false (initNonorthogonal ++ (List.replicate k redistribute).flatten) = true := by
  intro k
  rw [runFlag_append, pipeline_nonorthogonal_refined]
  exact runFlag_replicate redistribute pipeline_redistribute_refined k

/-! ## 5. fillRZ -/
section fillRZ
variable {β : Type}

theorem evens_getElem (l : List β) (i : Nat) : (evens l)[i]? = l[2 * i]? := evens_getElem' l i
theorem odds_getElem (l : List β) (i : Nat) : (odds l)[i]? = l[2 * i + 1]? := odds_getElem' l i
theorem evens_length (l : List β) : (evens l).length = (l.length + 1) / 2 := evens_length' l
theorem odds_length (l : List β) : (odds l).length = l.length / 2 := odds_length' l

/-- the arrays are sub-samplings of the contour matrix with the generated parities … -/
theorem fillRZ_centre (cs : List (List β)) (a b c d : Option β) (i j : Nat) :
    get2 (fillRZ cs a b c d).centre i j = get2 cs (2 * i + centreParity.1) (2 * j + centreParity.2) :=
  get2_sample centreParity (by decide) (by decide) cs i j

theorem fillRZ_xlow (cs : List (List β)) (a b c d : Option β) (i j : Nat) :
    get2 (fillRZ cs a b c d).xlow i j = get2 cs (2 * i + xlowParity.1) (2 * j + xlowParity.2) :=
  get2_sample xlowParity (by decide) (by decide) cs i j

theorem fillRZ_ylow (cs : List (List β)) (a b c d : Option β) (i j : Nat) :
    get2 (fillRZ cs a b c d).ylow i j = get2 cs (2 * i + ylowParity.1) (2 * j + ylowParity.2) :=
  get2_sample ylowParity (by decide) (by decide) cs i j

/-- … which currently are: centre = `cs[2i+1][2j+1]`, xlow = `cs[2i][2j+1]`, ylow = `cs[2i+1][2j]` -/
theorem fillRZ_centre_current (cs : List (List β)) (a b c d : Option β) (i j : Nat) :
    get2 (fillRZ cs a b c d).centre i j = get2 cs (2 * i + 1) (2 * j + 1) := fillRZ_centre cs a b c d i j

theorem fillRZ_xlow_current (cs : List (List β)) (a b c d : Option β) (i j : Nat) :
    get2 (fillRZ cs a b c d).xlow i j = get2 cs (2 * i) (2 * j + 1) := fillRZ_xlow cs a b c d i j

theorem fillRZ_ylow_current (cs : List (List β)) (a b c d : Option β) (i j : Nat) :
    get2 (fillRZ cs a b c d).ylow i j = get2 cs (2 * i + 1) (2 * j) := fillRZ_ylow cs a b c d i j

/-- without X-points the corners are the even/even sub-sampling -/
theorem fillRZ_corners_unpinned (cs : List (List β)) (i j : Nat) :
    get2 (fillRZ cs none none none none).corners i j = get2 cs (2 * i + cornersParity.1) (2 * j + cornersParity.2) :=
  get2_sample cornersParity (by decide) (by decide) cs i j

theorem fillRZ_corners_unpinned_current (cs : List (List β)) (i j : Nat) :
    get2 (fillRZ cs none none none none).corners i j = get2 cs (2 * i) (2 * j) := fillRZ_corners_unpinned cs i j

/-- the corner array in general (generated parities and pin positions), for an R × C sampled matrix: an X-point where a
    substitution whose slot is filled hits the position (the last one in source order wins), the sampled point elsewhere -/
theorem fillRZ_corners_general (cs : List (List β)) (sI sO eI eO : Option β) (R C : Nat)
    (h : Rect (sample cornersParity cs) R C) (a b : Nat) :
    get2 (fillRZ cs sI sO eI eO).corners a b =
      if Hit R C pin_endOuter a b ∧ eO.isSome then eO
      else if Hit R C pin_endInner a b ∧ eI.isSome then eI
      else if Hit R C pin_startOuter a b ∧ sO.isSome then sO
      else if Hit R C pin_startInner a b ∧ sI.isSome then sI
      else get2 (sample cornersParity cs) a b :=
  fillRZ_corners_get2 cs sI sO eI eO R C h a b

/-- the (nx+1) × (ny+1) corner array of a (2nx+1) × (2ny+1) contour matrix is a rectangle -/
theorem corners_rect (cs : List (List β)) (nx ny : Nat) (hcs : Rect cs (2 * nx + 1) (2 * ny + 1)) :
    Rect (sample cornersParity cs) (nx + 1) (ny + 1) := by
  have h := sample_rect cornersParity (by decide) (by decide) cs _ _ hcs
  have e1 : (2 * nx + 1 + 1 - cornersParity.1) / 2 = nx + 1 := by simp [cornersParity]; omega
  have e2 : (2 * ny + 1 + 1 - cornersParity.2) / 2 = ny + 1 := by simp [cornersParity]; omega
  rwa [e1, e2] at h

/-- where the four substitutions currently go: (0,0), (nx,0), (0,ny), (nx,ny) -/
theorem pin_positions (nx ny a b : Nat) :
    (Hit (nx + 1) (ny + 1) pin_startInner a b ↔ a = 0 ∧ b = 0) ∧
    (Hit (nx + 1) (ny + 1) pin_startOuter a b ↔ a = nx ∧ b = 0) ∧
    (Hit (nx + 1) (ny + 1) pin_endInner a b ↔ a = 0 ∧ b = ny) ∧
    (Hit (nx + 1) (ny + 1) pin_endOuter a b ↔ a = nx ∧ b = ny) := by
  simp only [Hit, pin_startInner, pin_startOuter, pin_endInner, pin_endOuter, pyIndex]
  refine ⟨?_, ?_, ?_, ?_⟩ <;> simp <;> omega

/-- for a (2nx+1) × (2ny+1) contour matrix with nx, ny ≥ 1: each filled X-point slot ends up at its corner — startInner at
    (0,0), startOuter at (nx,0), endInner at (0,ny), endOuter at (nx,ny) — and every other entry is the sampled `cs[2a][2b]` -/
theorem fillRZ_corners_pinned (cs : List (List β)) (sI sO eI eO : Option β) (nx ny : Nat)
    (hcs : Rect cs (2 * nx + 1) (2 * ny + 1)) (hnx : 1 ≤ nx) (hny : 1 ≤ ny) :
    (∀ v, sI = some v → get2 (fillRZ cs sI sO eI eO).corners 0 0 = some v) ∧
    (∀ v, sO = some v → get2 (fillRZ cs sI sO eI eO).corners nx 0 = some v) ∧
    (∀ v, eI = some v → get2 (fillRZ cs sI sO eI eO).corners 0 ny = some v) ∧
    (∀ v, eO = some v → get2 (fillRZ cs sI sO eI eO).corners nx ny = some v) ∧
    (∀ a b, ¬ (a = 0 ∧ b = 0 ∧ sI.isSome) → ¬ (a = nx ∧ b = 0 ∧ sO.isSome) → ¬ (a = 0 ∧ b = ny ∧ eI.isSome) →
      ¬ (a = nx ∧ b = ny ∧ eO.isSome) → get2 (fillRZ cs sI sO eI eO).corners a b = get2 cs (2 * a) (2 * b)) := by
  have hrect := corners_rect cs nx ny hcs
  have hgen : ∀ a b, get2 (fillRZ cs sI sO eI eO).corners a b =
      if (a = nx ∧ b = ny) ∧ eO.isSome then eO
      else if (a = 0 ∧ b = ny) ∧ eI.isSome then eI
      else if (a = nx ∧ b = 0) ∧ sO.isSome then sO
      else if (a = 0 ∧ b = 0) ∧ sI.isSome then sI
      else get2 cs (2 * a) (2 * b) := by
    intro a b
    have hpos := pin_positions nx ny a b
    rw [fillRZ_corners_general cs sI sO eI eO _ _ hrect a b, get2_sample cornersParity (by decide) (by decide)]
    simp only [hpos.1, hpos.2.1, hpos.2.2.1, hpos.2.2.2]
    rfl
  refine ⟨?_, ?_, ?_, ?_, ?_⟩
  · rintro v rfl
    rw [hgen, if_neg (by rintro ⟨⟨h, -⟩, -⟩; omega), if_neg (by rintro ⟨⟨-, h⟩, -⟩; omega),
      if_neg (by rintro ⟨⟨h, -⟩, -⟩; omega), if_pos (by simp)]
  · rintro v rfl
    rw [hgen, if_neg (by rintro ⟨⟨-, h⟩, -⟩; omega), if_neg (by rintro ⟨⟨-, h⟩, -⟩; omega), if_pos (by simp)]
  · rintro v rfl
    rw [hgen, if_neg (by rintro ⟨⟨h, -⟩, -⟩; omega), if_pos (by simp)]
  · rintro v rfl
    rw [hgen, if_pos (by simp)]
  · intro a b h1 h2 h3 h4
    rw [hgen, if_neg (by rintro ⟨⟨h, h'⟩, h''⟩; exact h4 ⟨h, h', h''⟩),
      if_neg (by rintro ⟨⟨h, h'⟩, h''⟩; exact h3 ⟨h, h', h''⟩),
      if_neg (by rintro ⟨⟨h, h'⟩, h''⟩; exact h2 ⟨h, h', h''⟩),
      if_neg (by rintro ⟨⟨h, h'⟩, h''⟩; exact h1 ⟨h, h', h''⟩)]

/-- every entry away from the four corners of the corner array is the sampled point, whatever the X-point slots hold -/
theorem fillRZ_corners_elsewhere (cs : List (List β)) (sI sO eI eO : Option β) (nx ny : Nat)
    (hcs : Rect cs (2 * nx + 1) (2 * ny + 1)) (hnx : 1 ≤ nx) (hny : 1 ≤ ny) (a b : Nat)
    (hab : ¬ ((a = 0 ∨ a = nx) ∧ (b = 0 ∨ b = ny))) :
    get2 (fillRZ cs sI sO eI eO).corners a b = get2 cs (2 * a) (2 * b) :=
  (fillRZ_corners_pinned cs sI sO eI eO nx ny hcs hnx hny).2.2.2.2 a b
    (fun ⟨ha, hb, _⟩ => hab ⟨Or.inl ha, Or.inl hb⟩) (fun ⟨ha, hb, _⟩ => hab ⟨Or.inr ha, Or.inl hb⟩)
    (fun ⟨ha, hb, _⟩ => hab ⟨Or.inl ha, Or.inr hb⟩) (fun ⟨ha, hb, _⟩ => hab ⟨Or.inr ha, Or.inr hb⟩)

end fillRZ

/-! ## 6. every array entry is on the flux surface of its radial index -/
section onSurface
variable {β : Type}

/-- if every point of contour k is within `tol psiVals[k]` of the surface `psiVals[k]`, then so is every entry of `centre`,
    `xlow`, `ylow` (row i ↔ the contour given by the generated parity), and every entry of `corners` that is not an X-point
    substitution -/
theorem on_surface (psi : β → ℝ) (psiVals : List ℝ) (tol : ℝ → ℝ) (cs : List (List β)) (sI sO eI eO : Option β)
    (hcs : ∀ (k : Nat) c v q, cs[k]? = some c → psiVals[k]? = some v → q ∈ c → |psi q - v| < tol v) :
    (∀ i j q v, get2 (fillRZ cs sI sO eI eO).centre i j = some q → psiVals[2 * i + centreParity.1]? = some v →
      |psi q - v| < tol v) ∧
    (∀ i j q v, get2 (fillRZ cs sI sO eI eO).xlow i j = some q → psiVals[2 * i + xlowParity.1]? = some v →
      |psi q - v| < tol v) ∧
    (∀ i j q v, get2 (fillRZ cs sI sO eI eO).ylow i j = some q → psiVals[2 * i + ylowParity.1]? = some v →
      |psi q - v| < tol v) ∧
    (∀ R C i j q v, Rect (sample cornersParity cs) R C →
      get2 (fillRZ cs sI sO eI eO).corners i j = some q → psiVals[2 * i + cornersParity.1]? = some v →
      ¬ (Hit R C pin_startInner i j ∧ sI.isSome) → ¬ (Hit R C pin_startOuter i j ∧ sO.isSome) →
      ¬ (Hit R C pin_endInner i j ∧ eI.isSome) → ¬ (Hit R C pin_endOuter i j ∧ eO.isSome) →
      |psi q - v| < tol v) := by
  have key : ∀ a b q v, get2 cs a b = some q → psiVals[a]? = some v → |psi q - v| < tol v := by
    intro a b q v hq hv
    obtain ⟨c, hc, hmem⟩ := get2_some_mem cs a b q hq
    exact hcs a c v q hc hv hmem
  refine ⟨?_, ?_, ?_, ?_⟩
  · intro i j q v hq hv
    rw [fillRZ_centre] at hq
    exact key _ _ q v hq hv
  · intro i j q v hq hv
    rw [fillRZ_xlow] at hq
    exact key _ _ q v hq hv
  · intro i j q v hq hv
    rw [fillRZ_ylow] at hq
    exact key _ _ q v hq hv
  · intro R C i j q v hrect hq hv h1 h2 h3 h4
    rw [fillRZ_corners_general cs sI sO eI eO R C hrect, if_neg h4, if_neg h3, if_neg h2, if_neg h1,
      get2_sample cornersParity (by decide) (by decide)] at hq
    exact key _ _ q v hq hv

/-- the same with the current slicing: centre and ylow rows come from contour 2i+1, xlow and corners rows from contour 2i;
    for a (2nx+1) × (2ny+1) matrix the corner entries excepted are the filled ones among (0,0), (nx,0), (0,ny), (nx,ny) -/
theorem on_surface_current (psi : β → ℝ) (psiVals : List ℝ) (tol : ℝ → ℝ) (cs : List (List β)) (sI sO eI eO : Option β)
    (hcs : ∀ (k : Nat) c v q, cs[k]? = some c → psiVals[k]? = some v → q ∈ c → |psi q - v| < tol v) :
    (∀ i j q v, get2 (fillRZ cs sI sO eI eO).centre i j = some q → psiVals[2 * i + 1]? = some v → |psi q - v| < tol v) ∧
    (∀ i j q v, get2 (fillRZ cs sI sO eI eO).xlow i j = some q → psiVals[2 * i]? = some v → |psi q - v| < tol v) ∧
    (∀ i j q v, get2 (fillRZ cs sI sO eI eO).ylow i j = some q → psiVals[2 * i + 1]? = some v → |psi q - v| < tol v) ∧
    (∀ nx ny i j q v, Rect cs (2 * nx + 1) (2 * ny + 1) →
      get2 (fillRZ cs sI sO eI eO).corners i j = some q → psiVals[2 * i]? = some v →
      ¬ (i = 0 ∧ j = 0 ∧ sI.isSome) → ¬ (i = nx ∧ j = 0 ∧ sO.isSome) →
      ¬ (i = 0 ∧ j = ny ∧ eI.isSome) → ¬ (i = nx ∧ j = ny ∧ eO.isSome) →
      |psi q - v| < tol v) := by
  obtain ⟨h1, h2, h3, h4⟩ := on_surface psi psiVals tol cs sI sO eI eO hcs
  refine ⟨h1, h2, h3, ?_⟩
  intro nx ny i j q v hrect hq hv n1 n2 n3 n4
  have hpos := pin_positions nx ny i j
  refine h4 (nx + 1) (ny + 1) i j q v (corners_rect cs nx ny hrect) hq hv ?_ ?_ ?_ ?_
  · exact fun ⟨h, hs⟩ => n1 ⟨(hpos.1.mp h).1, (hpos.1.mp h).2, hs⟩
  · exact fun ⟨h, hs⟩ => n2 ⟨(hpos.2.1.mp h).1, (hpos.2.1.mp h).2, hs⟩
  · exact fun ⟨h, hs⟩ => n3 ⟨(hpos.2.2.1.mp h).1, (hpos.2.2.1.mp h).2, hs⟩
  · exact fun ⟨h, hs⟩ => n4 ⟨(hpos.2.2.2.mp h).1, (hpos.2.2.2.mp h).2, hs⟩

/-- psi is constant along y on the cell centres, to twice the tolerance -/
theorem psixy_const_along_y (psi : β → ℝ) (psiVals : List ℝ) (tol : ℝ → ℝ) (cs : List (List β)) (sI sO eI eO : Option β)
    (hcs : ∀ (k : Nat) c v q, cs[k]? = some c → psiVals[k]? = some v → q ∈ c → |psi q - v| < tol v)
    (i j j' : Nat) (q q' : β) (v : ℝ)
    (hq : get2 (fillRZ cs sI sO eI eO).centre i j = some q) (hq' : get2 (fillRZ cs sI sO eI eO).centre i j' = some q')
    (hv : psiVals[2 * i + centreParity.1]? = some v) : |psi q - psi q'| < 2 * tol v := by
  have h := (on_surface psi psiVals tol cs sI sO eI eO hcs).1
  have h1 := abs_lt.mp (h i j q v hq hv)
  have h2 := abs_lt.mp (h i j' q' v hq' hv)
  exact abs_lt.mpr ⟨by linarith [h1.1, h2.2], by linarith [h1.2, h2.1]⟩

end onSurface

/-! ## 7. the hypotheses are satisfiable -/

/-- a linear residual: one Newton step converges -/
example : newton (fun s : ℝ => s - 1) (fun _ => 1) (1 / 10) 5 = some 1 := by
  unfold newton
  rw [newtonLoop_succ]
  norm_num [absv]

/-- the entry test: a point already on the surface is returned unchanged -/
example : newton (fun s : ℝ => s) (fun _ => 1) (1 / 10) 5 = some 0 := by
  unfold newton
  norm_num [absv]

/-- a residual that grows: SolutionError (so `none` really occurs, and the hypothesis of `newton_post` is not automatic) -/
example : newton (fun s : ℝ => s ^ 2 + 1) (fun _ => -1) (1 / 10) 5 = none := by
  unfold newton
  rw [newtonLoop_succ]
  norm_num [absv]

/-- refinePoint: newton fails, line succeeds -/
example : refinePoint true (runOf (fun _ : Nat => none) (fun p => some (p + 1)) (fun _ => none)) [.newton, .line] 3 = some 4 := by
  decide

/-- a method list as `refinePoint_post_partial` wants it -/
example : Method.integrate ∉ [Method.integrateNewton, .newton, .line] ∧ Method.noRefine ∉ [Method.integrateNewton, .newton, .line] := by
  decide

/-- getRefined on three points with skip_endpoints (startInd = 0, endInd = -1) -/
example : getRefined (fun (p t : Int) => some (p + 10 * t)) [1, 2, 4] true 0 (-1) = some [1, 32, 4] := by decide

example : tangents [(1 : Int), 2, 4, 8] = [1, 3, 6, 4] := by decide

/-- a 3 × 5 contour matrix (nx = 1, ny = 2) with two X-points -/
example : (fillRZ [[0, 1, 2, 3, 4], [10, 11, 12, 13, 14], [20, 21, 22, 23, 24]] (some 100) none none (some 103)).corners
    = [[100, 2, 4], [20, 22, 103]] := by decide

example : (fillRZ [[0, 1, 2, 3, 4], [10, 11, 12, 13, 14], [20, 21, 22, 23, 24]] (some 100) none none (some 103)).centre
    = [[11, 13]] := by decide

example : Rect [[0, 1, 2, 3, 4], [10, 11, 12, 13, 14], [20, 21, 22, 23, 24]] (2 * 1 + 1) (2 * 2 + 1) := by
  refine ⟨rfl, ?_⟩
  intro row h
  simp at h
  rcases h with rfl | rfl | rfl <;> rfl

/-- the hypothesis of `on_surface`: three contours exactly on their surfaces, psi = the first coordinate -/
example : ∀ (k : Nat) (c : List (ℝ × ℝ)) (v : ℝ) (q : ℝ × ℝ),
    [[(1, 0), (1, 1), (1, 2)], [(2, 0), (2, 1), (2, 2)], [(3, 0), (3, 1), (3, 2)]][k]? = some c →
    [(1 : ℝ), 2, 3][k]? = some v → q ∈ c → |Prod.fst q - v| < (fun _ => (1 : ℝ)) v := by
  intro k c v q hc hv hq
  match k with
  | 0 => simp at hc hv; subst hc; subst hv; simp at hq; rcases hq with rfl | rfl | rfl <;> norm_num
  | 1 => simp at hc hv; subst hc; subst hv; simp at hq; rcases hq with rfl | rfl | rfl <;> norm_num
  | 2 => simp at hc hv; subst hc; subst hv; simp at hq; rcases hq with rfl | rfl | rfl <;> norm_num
  | k + 3 => simp at hc

end HypnoModel.Props.C01
