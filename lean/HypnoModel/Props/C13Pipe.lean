/-
C13 (channel part) — `ParallelMap.__call__` returns: with the two channels as the source builds them (`multiprocessing.Queue`,
unbounded) the put-all-then-get-all protocol can never block; with bounded channels (`multiprocessing.SimpleQueue`: a synchronous
write into an OS pipe) it deadlocks exactly when the number of tasks exceeds `capT + capR + w`.
Model: HypnoModel/Model/ParPipe.lean; constructors and call phases: HypnoModel/Gen/ParMapQ.lean (generated from the source).
-/
import HypnoModel.Model.ParPipe

namespace HypnoModel.Props.C13
open ParPipe

namespace PipeLemmas

/-- termination measure: a task moves toPut → taskCh → busy → resCh → got, one stage per step -/
def pipeMeasure (s : St) : Nat :=
  4 * s.toPut.length + 3 * s.taskCh.length + 2 * s.busy.length + s.resCh.length

theorem step_measure {capT capR : Option Nat} {s t : St} (h : Step capT capR s t) :
    pipeMeasure t + 1 = pipeMeasure s := by
  cases h <;> simp only [pipeMeasure, List.length_append, List.length_cons, List.length_nil] <;> try omega

theorem step_conserve {capT capR : Option Nat} {s t : St} (h : Step capT capR s t) :
    (t.toPut ++ t.taskCh ++ t.busy ++ t.resCh ++ t.got).Perm (s.toPut ++ s.taskCh ++ s.busy ++ s.resCh ++ s.got)
      ∧ t.busy.length + t.idle = s.busy.length + s.idle := by
  cases h <;> refine ⟨?_, ?_⟩
  all_goals first
    | (rw [List.perm_iff_count]; intro a
       simp only [List.count_append, List.count_cons, List.count_nil]; omega)
    | rfl
    | (simp only [List.length_append, List.length_cons]; omega)

theorem hasRoom_some {c len : Nat} : hasRoom (some c) len = true ↔ len < c := by
  simp [hasRoom]

theorem hasRoom_some_false {c len : Nat} : hasRoom (some c) len = false ↔ c ≤ len := by
  simp [hasRoom]

theorem hasRoom_none (len : Nat) : hasRoom none len = true := rfl

/-- a bounded channel's capacity is respected -/
theorem taskCh_le {ct : Nat} {capR : Option Nat} {n w : Nat} {s : St} (h : Reach (some ct) capR n w s) :
    s.taskCh.length ≤ ct := by
  induction h with
  | init => simp
  | step _ hst ih =>
    cases hst with
    | mainPut i rest tc b k rc g h =>
      have := hasRoom_some.mp h
      simp only [List.length_append, List.length_cons, List.length_nil]; omega
    | workerTake tp i tc b k rc g => simp only [List.length_cons] at ih; simp only []; omega
    | workerPut => exact ih
    | mainGet => exact ih

theorem resCh_le {cr : Nat} {capT : Option Nat} {n w : Nat} {s : St} (h : Reach capT (some cr) n w s) :
    s.resCh.length ≤ cr := by
  induction h with
  | init => simp
  | step _ hst ih =>
    cases hst with
    | mainPut => exact ih
    | workerTake => exact ih
    | workerPut tp tc b1 i b2 k rc g h =>
      have := hasRoom_some.mp h
      simp only [List.length_append, List.length_cons, List.length_nil]; omega
    | mainGet tc b k i rc g => simp only [List.length_cons] at ih; simp only []; omega

/-- none of the three "push" transitions (main put, worker take, worker put) is enabled -/
def NoPush (capT capR : Option Nat) (s : St) : Prop :=
  (s.toPut = [] ∨ hasRoom capT s.taskCh.length = false) ∧ (s.taskCh = [] ∨ s.idle = 0) ∧
    (s.busy = [] ∨ hasRoom capR s.resCh.length = false)

theorem exists_mainPut {capT capR : Option Nat} {s : St} (h1 : s.toPut ≠ [])
    (h2 : hasRoom capT s.taskCh.length = true) : ∃ t, Step capT capR s t ∧ t.got = s.got := by
  obtain ⟨tp, tc, b, k, rc, g⟩ := s
  obtain ⟨i, rest, rfl⟩ := List.exists_cons_of_ne_nil h1
  exact ⟨_, Step.mainPut i rest tc b k rc g h2, rfl⟩

theorem exists_workerTake {capT capR : Option Nat} {s : St} (h1 : s.taskCh ≠ []) (h2 : s.idle ≠ 0) :
    ∃ t, Step capT capR s t ∧ t.got = s.got := by
  obtain ⟨tp, tc, b, k, rc, g⟩ := s
  obtain ⟨i, rest, rfl⟩ := List.exists_cons_of_ne_nil h1
  obtain ⟨k, rfl⟩ := Nat.exists_eq_succ_of_ne_zero h2
  exact ⟨_, Step.workerTake tp i rest b k rc g, rfl⟩

theorem exists_workerPut {capT capR : Option Nat} {s : St} (h1 : s.busy ≠ [])
    (h2 : hasRoom capR s.resCh.length = true) : ∃ t, Step capT capR s t ∧ t.got = s.got := by
  obtain ⟨tp, tc, b, k, rc, g⟩ := s
  obtain ⟨i, rest, rfl⟩ := List.exists_cons_of_ne_nil h1
  exact ⟨_, Step.workerPut tp tc [] i rest k rc g h2, rfl⟩

theorem exists_mainGet {capT capR : Option Nat} {s : St} (h1 : s.toPut = []) (h2 : s.resCh ≠ []) :
    ∃ t, Step capT capR s t := by
  obtain ⟨tp, tc, b, k, rc, g⟩ := s
  obtain ⟨i, rest, rfl⟩ := List.exists_cons_of_ne_nil h2
  obtain rfl : tp = [] := h1
  exact ⟨_, Step.mainGet tc b k i rest g⟩

theorem exists_push_of_not_noPush {capT capR : Option Nat} {s : St} (h : ¬ NoPush capT capR s) :
    ∃ t, Step capT capR s t ∧ t.got = s.got := by
  by_cases h1 : s.toPut = [] ∨ hasRoom capT s.taskCh.length = false
  · by_cases h2 : s.taskCh = [] ∨ s.idle = 0
    · by_cases h3 : s.busy = [] ∨ hasRoom capR s.resCh.length = false
      · exact absurd ⟨h1, h2, h3⟩ h
      · rw [not_or] at h3
        exact exists_workerPut h3.1 (by simpa using h3.2)
    · rw [not_or] at h2
      exact exists_workerTake h2.1 h2.2
  · rw [not_or] at h1
    exact exists_mainPut h1.1 (by simpa using h1.2)

/-- `Stuck` as a decidable condition on the state -/
theorem stuck_iff {capT capR : Option Nat} {s : St} :
    Stuck capT capR s ↔ NoPush capT capR s ∧ (s.toPut ≠ [] ∨ s.resCh = []) := by
  constructor
  · intro hS
    refine ⟨?_, ?_⟩
    · apply Classical.byContradiction; intro hN
      obtain ⟨t, ht, _⟩ := exists_push_of_not_noPush hN
      exact hS t ht
    · apply Classical.byContradiction; intro hN
      rw [not_or] at hN
      obtain ⟨t, ht⟩ := exists_mainGet (capT := capT) (capR := capR) (by simpa using hN.1) hN.2
      exact hS t ht
  · rintro ⟨⟨h1, h2, h3⟩, h4⟩ t hst
    cases hst <;> simp_all

/-- from a state in which the main thread has read nothing, the push transitions alone lead to a state where none of them is enabled -/
theorem exists_noPush {capT capR : Option Nat} {n w : Nat} :
    ∀ (m : Nat) (s : St), pipeMeasure s ≤ m → Reach capT capR n w s → s.got = [] →
      ∃ t, Reach capT capR n w t ∧ t.got = [] ∧ NoPush capT capR t := by
  intro m
  induction m with
  | zero =>
    intro s hm hr hg
    by_cases hN : NoPush capT capR s
    · exact ⟨s, hr, hg, hN⟩
    · obtain ⟨t, ht, _⟩ := exists_push_of_not_noPush hN
      have := step_measure ht
      omega
  | succ m ih =>
    intro s hm hr hg
    by_cases hN : NoPush capT capR s
    · exact ⟨s, hr, hg, hN⟩
    · obtain ⟨t, ht, htg⟩ := exists_push_of_not_noPush hN
      have := step_measure ht
      exact ih t (by omega) (Reach.step hr ht) (htg.trans hg)

end PipeLemmas

open PipeLemmas

variable {capT capR : Option Nat} {n w : Nat} {s t : St}

/-! ## 1. conservation -/

/-- along every run each task index is in exactly one of the five places, and every worker is either busy or idle -/
theorem pipe_conservation (h : Reach capT capR n w s) :
    (s.toPut ++ s.taskCh ++ s.busy ++ s.resCh ++ s.got).Perm (List.range n) ∧ s.busy.length + s.idle = w := by
  induction h with
  | init => simp
  | step _ hst ih =>
    obtain ⟨hp, hl⟩ := step_conserve hst
    exact ⟨hp.trans ih.1, hl.trans ih.2⟩

/-- the five lengths add up to `n` -/
theorem pipe_lengths (h : Reach capT capR n w s) :
    s.toPut.length + s.taskCh.length + s.busy.length + s.resCh.length + s.got.length = n := by
  have := (pipe_conservation h).1.length_eq
  simpa only [List.length_append, List.length_range] using this

/-! ## 2. termination -/

/-- every transition lowers `4·|toPut| + 3·|taskCh| + 2·|busy| + |resCh|` by exactly one -/
theorem pipe_terminates (h : Step capT capR s t) : pipeMeasure t < pipeMeasure s := by
  have := step_measure h; omega

/-- the transition relation is well founded: no infinite runs -/
theorem pipe_wellFounded (capT capR : Option Nat) : WellFounded (fun t s => Step capT capR s t) :=
  Subrelation.wf (fun {_ _} h => pipe_terminates h) (InvImage.wf pipeMeasure Nat.lt_wfRel.wf)

/-- a run of `k` steps from `f 0` costs `k` units of the measure; so no run is longer than `pipeMeasure (f 0)` (`= 4 n` from the initial state) -/
theorem pipe_run_length (f : Nat → St) (k : Nat) (h : ∀ j, j < k → Step capT capR (f j) (f (j + 1))) :
    pipeMeasure (f k) + k = pipeMeasure (f 0) := by
  induction k with
  | zero => rfl
  | succ k ih =>
    have h1 := ih (fun j hj => h j (Nat.lt_succ_of_lt hj))
    have h2 := step_measure (h k (Nat.lt_succ_self k))
    omega

theorem pipe_no_infinite_run (f : Nat → St) : ¬ ∀ j, Step capT capR (f j) (f (j + 1)) := by
  intro h
  have := pipe_run_length (capT := capT) (capR := capR) f (pipeMeasure (f 0) + 1) (fun j _ => h j)
  omega

theorem pipeMeasure_init (n w : Nat) : pipeMeasure ⟨List.range n, [], [], w, [], []⟩ = 4 * n := by
  simp [pipeMeasure]

/-! ## 3. when the call cannot block -/

/-- General form.  With at least one worker, channels that can hold at least one object, and — if both channels are bounded —
    no more tasks than `ct + cr + w`, every reachable state that is not `Done` has a successor. -/
theorem never_stuck_of (hw : 0 < w) (hT : hasRoom capT 0 = true) (hR : hasRoom capR 0 = true)
    (hsmall : ∀ ct cr, capT = some ct → capR = some cr → n ≤ ct + cr + w)
    (h : Reach capT capR n w s) (hnd : ¬ Done n s) : ∃ t, Step capT capR s t := by
  apply Classical.byContradiction; intro hne
  have hS : Stuck capT capR s := fun t ht => hne ⟨t, ht⟩
  obtain ⟨⟨h1, h2, h3⟩, h4⟩ := stuck_iff.mp hS
  have hlen := pipe_lengths h
  have hbi := (pipe_conservation h).2
  by_cases htp : s.toPut = []
  · -- get phase: the result channel is empty, so no worker is busy, so no task is waiting: everything has been read
    have hrc : s.resCh = [] := h4.resolve_left (fun hh => hh htp)
    have hb : s.busy = [] := by
      rcases h3 with hb | hb
      · exact hb
      · rw [hrc] at hb; simp only [List.length_nil] at hb; rw [hR] at hb; cases hb
    have htc : s.taskCh = [] := by
      rcases h2 with htc | hi
      · exact htc
      · rw [hb] at hbi; simp only [List.length_nil] at hbi; omega
    apply hnd
    unfold Done
    rw [htp, hrc, hb, htc] at hlen
    simpa using hlen
  · -- put phase: task channel full, every worker holds a result, result channel full
    have hfull : hasRoom capT s.taskCh.length = false := h1.resolve_left htp
    have htc : s.taskCh ≠ [] := by
      intro hh; rw [hh] at hfull; simp only [List.length_nil] at hfull; rw [hT] at hfull; cases hfull
    have hidle : s.idle = 0 := h2.resolve_left htc
    have hb : s.busy ≠ [] := by
      intro hh; rw [hh] at hbi; simp only [List.length_nil] at hbi; omega
    have hrfull : hasRoom capR s.resCh.length = false := h3.resolve_left hb
    cases capT with
    | none => cases hfull
    | some ct =>
      cases capR with
      | none => cases hrfull
      | some cr =>
        have := hsmall ct cr rfl rfl
        have := hasRoom_some_false.mp hfull
        have := hasRoom_some_false.mp hrfull
        have : 0 < s.toPut.length := List.length_pos_iff.mpr htp
        omega

/-- both channels unbounded (the source): every reachable state that is not `Done` has a successor -/
theorem unbounded_never_stuck (hw : 0 < w) (h : Reach none none n w s) (hnd : ¬ Done n s) :
    ∃ t, Step none none s t :=
  never_stuck_of hw rfl rfl (fun _ _ h => by cases h) h hnd

/-- half-bounded, task channel unbounded: true as long as the result channel can hold one object -/
theorem task_unbounded_never_stuck (hw : 0 < w) (hR : hasRoom capR 0 = true) (h : Reach none capR n w s)
    (hnd : ¬ Done n s) : ∃ t, Step none capR s t :=
  never_stuck_of hw rfl hR (fun _ _ h => by cases h) h hnd

/-- half-bounded, result channel unbounded: true as long as the task channel can hold one object -/
theorem result_unbounded_never_stuck (hw : 0 < w) (hT : hasRoom capT 0 = true) (h : Reach capT none n w s)
    (hnd : ¬ Done n s) : ∃ t, Step capT none s t :=
  never_stuck_of hw hT rfl (fun _ _ _ h => by cases h) h hnd

/-- with 2: a maximal run (one that ends in a state without successor) of the unbounded protocol ends in `Done` -/
theorem unbounded_stuck_is_done (hw : 0 < w) (h : Reach none none n w s) (hS : Stuck none none s) : Done n s := by
  apply Classical.byContradiction; intro hnd
  obtain ⟨t, ht⟩ := unbounded_never_stuck hw h hnd
  exact hS t ht

/-- `Done` states are final: the run cannot go past the return -/
theorem done_is_stuck (h : Reach capT capR n w s) (hd : Done n s) : Stuck capT capR s := by
  intro t ht
  have hlen := pipe_lengths h
  unfold Done at hd
  have := step_measure ht
  simp only [pipeMeasure] at this
  omega

/-! ## 4. the source as it is -/

theorem taskCap_current (pipe : Nat) : capOf pipe Gen.ParMapQ.taskQueueCtor = none := by
  unfold capOf; exact if_pos rfl

theorem resultCap_current (pipe : Nat) : capOf pipe Gen.ParMapQ.resultQueueCtor = none := by
  unfold capOf; exact if_pos rfl

/-- the order of the main thread's phases that `Model/ParPipe.lean` builds in (`mainGet` only once `toPut = []`) is the one read from the source -/
theorem callPhases_as_modelled : Gen.ParMapQ.callPhases = "put-all-then-get-all" := rfl

/-- the channels as `ParallelMap.__init__` builds them, whatever the size of an OS pipe: `__call__` never blocks.
    Breaks (at `taskCap_current` / `resultCap_current`) if the source swaps a constructor. -/
theorem current_code_never_stuck (pipe : Nat) (hw : 0 < w)
    (h : Reach (capOf pipe Gen.ParMapQ.taskQueueCtor) (capOf pipe Gen.ParMapQ.resultQueueCtor) n w s)
    (hnd : ¬ Done n s) :
    ∃ t, Step (capOf pipe Gen.ParMapQ.taskQueueCtor) (capOf pipe Gen.ParMapQ.resultQueueCtor) s t := by
  rw [taskCap_current, resultCap_current] at h ⊢
  exact unbounded_never_stuck hw h hnd

/-! ## 5. bounded channels deadlock for large inputs -/

/-- both channels bounded and more tasks than `ct + cr + w`: a deadlocked state is reachable (no hypothesis on `w`, `ct`, `cr`) -/
theorem bounded_deadlock_reachable {ct cr : Nat} (hbig : ct + cr + w < n) :
    ∃ s, Reach (some ct) (some cr) n w s ∧ Stuck (some ct) (some cr) s ∧ ¬ Done n s := by
  obtain ⟨t, hr, hg, hN⟩ := exists_noPush (capT := some ct) (capR := some cr) (n := n) (w := w)
    _ _ (Nat.le_refl _) Reach.init rfl
  have hlen := pipe_lengths hr
  have hbi := (pipe_conservation hr).2
  have h1 := taskCh_le hr
  have h2 := resCh_le hr
  rw [hg] at hlen; simp only [List.length_nil] at hlen
  have htp : t.toPut ≠ [] := by
    intro hh; rw [hh] at hlen; simp only [List.length_nil] at hlen; omega
  refine ⟨t, hr, stuck_iff.mpr ⟨hN, Or.inl htp⟩, ?_⟩
  unfold Done; rw [hg]; simp only [List.length_nil]; omega

/-- a channel that can hold nothing deadlocks at once -/
theorem result_cap_zero_deadlock (hn : 0 < n) :
    ∃ s, Reach capT (some 0) n w s ∧ Stuck capT (some 0) s ∧ ¬ Done n s := by
  obtain ⟨t, hr, hg, hN⟩ := exists_noPush (capT := capT) (capR := some 0) (n := n) (w := w)
    _ _ (Nat.le_refl _) Reach.init rfl
  have h2 := resCh_le hr
  have hrc : t.resCh = [] := List.eq_nil_of_length_eq_zero (by omega)
  refine ⟨t, hr, stuck_iff.mpr ⟨hN, Or.inr hrc⟩, ?_⟩
  unfold Done; rw [hg]; simp only [List.length_nil]; omega

theorem task_cap_zero_deadlock (hn : 0 < n) :
    ∃ s, Reach (some 0) capR n w s ∧ Stuck (some 0) capR s ∧ ¬ Done n s := by
  have hne : List.range n ≠ [] := by
    intro hh; have := congrArg List.length hh; simp at this; omega
  refine ⟨_, Reach.init, stuck_iff.mpr ⟨⟨Or.inr rfl, Or.inl rfl, Or.inl rfl⟩, Or.inl hne⟩, ?_⟩
  unfold Done; simp only [List.length_nil]; omega

/-! ## 6. the threshold is sharp -/

/-- both channels bounded (each holds at least one object), at least one worker, `n ≤ ct + cr + w`: never stuck before `Done` -/
theorem bounded_small_payload_fine {ct cr : Nat} (hw : 0 < w) (hct : 0 < ct) (hcr : 0 < cr) (hsmall : n ≤ ct + cr + w)
    (h : Reach (some ct) (some cr) n w s) (hnd : ¬ Done n s) : ∃ t, Step (some ct) (some cr) s t :=
  never_stuck_of hw (hasRoom_some.mpr hct) (hasRoom_some.mpr hcr)
    (fun _ _ h1 h2 => by cases h1; cases h2; exact hsmall) h hnd

/-- 5 and 6 together, for bounded channels that hold at least one object and at least one worker:
    a deadlock is reachable iff `ct + cr + w < n` -/
theorem bounded_deadlock_iff {ct cr : Nat} (hw : 0 < w) (hct : 0 < ct) (hcr : 0 < cr) :
    (∃ s, Reach (some ct) (some cr) n w s ∧ Stuck (some ct) (some cr) s ∧ ¬ Done n s) ↔ ct + cr + w < n := by
  constructor
  · rintro ⟨s, hr, hS, hnd⟩
    apply Classical.byContradiction; intro hle
    obtain ⟨t, ht⟩ := bounded_small_payload_fine hw hct hcr (Nat.le_of_not_lt hle) hr hnd
    exact hS t ht
  · exact bounded_deadlock_reachable

/-- the regression the theorems are about: both constructors swapped to `SimpleQueue`, payloads so large that the pipe holds
    `pipe` objects and `2·pipe + w < n` -/
theorem simplequeue_regression_deadlocks (pipe : Nat) (hbig : pipe + pipe + w < n) :
    ∃ s, Reach (capOf pipe "multiprocessing.SimpleQueue") (capOf pipe "multiprocessing.SimpleQueue") n w s ∧
      Stuck (capOf pipe "multiprocessing.SimpleQueue") (capOf pipe "multiprocessing.SimpleQueue") s ∧ ¬ Done n s := by
  have hc : capOf pipe "multiprocessing.SimpleQueue" = some pipe := by
    unfold capOf; exact if_neg (by decide)
  rw [hc]
  exact bounded_deadlock_reachable hbig

/-! ## 7. non-vacuity -/

/-- a reachable non-initial state (one task put, taken and computed; `n = 3`, `w = 2`, any capacities ≥ 1) -/
example : Reach (some 1) (some 1) 3 2 ⟨[1, 2], [], [], 2, [0], []⟩ :=
  Reach.step (Reach.step (Reach.step Reach.init
    (Step.mainPut 0 [1, 2] [] [] 2 [] [] rfl))
    (Step.workerTake [1, 2] 0 [] [] 1 [] []))
    (Step.workerPut [1, 2] [] [] 0 [] 1 [] [] rfl)

example : ([1, 2] ++ [] ++ [] ++ [0] ++ ([] : List Nat)).Perm (List.range 3) ∧ ([] : List Nat).length + 2 = 2 :=
  pipe_conservation (capT := some 1) (capR := some 1) (s := ⟨[1, 2], [], [], 2, [0], []⟩)
    (Reach.step (Reach.step (Reach.step Reach.init
      (Step.mainPut 0 [1, 2] [] [] 2 [] [] rfl))
      (Step.workerTake [1, 2] 0 [] [] 1 [] []))
      (Step.workerPut [1, 2] [] [] 0 [] 1 [] [] rfl))

/-- the deadlocked state for `ct = 1, cr = 1, w = 1, n = 4`: result 0 sits in the result channel, the worker holds result 1,
    task 2 sits in the task channel, the main thread is blocked putting task 3 -/
def deadlock1114 : St := ⟨[3], [2], [1], 0, [0], []⟩

theorem deadlock1114_reach : Reach (some 1) (some 1) 4 1 deadlock1114 :=
  Reach.step (Reach.step (Reach.step (Reach.step (Reach.step (Reach.step Reach.init
    (Step.mainPut 0 [1, 2, 3] [] [] 1 [] [] rfl))
    (Step.workerTake [1, 2, 3] 0 [] [] 0 [] []))
    (Step.workerPut [1, 2, 3] [] [] 0 [] 0 [] [] rfl))
    (Step.mainPut 1 [2, 3] [] [] 1 [0] [] rfl))
    (Step.workerTake [2, 3] 1 [] [] 0 [0] []))
    (Step.mainPut 2 [3] [] [1] 0 [0] [] rfl)

theorem deadlock1114_stuck : Stuck (some 1) (some 1) deadlock1114 ∧ ¬ Done 4 deadlock1114 := by
  refine ⟨stuck_iff.mpr ?_, ?_⟩
  · simp [NoPush, deadlock1114, hasRoom]
  · simp [Done, deadlock1114]

example : ∃ s, Reach (some 1) (some 1) 4 1 s ∧ Stuck (some 1) (some 1) s ∧ ¬ Done 4 s :=
  ⟨deadlock1114, deadlock1114_reach, deadlock1114_stuck.1, deadlock1114_stuck.2⟩

/-- the same numbers through the general theorem -/
example : ∃ s, Reach (some 1) (some 1) 4 1 s ∧ Stuck (some 1) (some 1) s ∧ ¬ Done 4 s :=
  bounded_deadlock_reachable (by decide)

/-- and with one task fewer nothing can block -/
example {s : St} (h : Reach (some 1) (some 1) 3 1 s) (hnd : ¬ Done 3 s) : ∃ t, Step (some 1) (some 1) s t :=
  bounded_small_payload_fine (by decide) (by decide) (by decide) (by decide) h hnd

end HypnoModel.Props.C13
