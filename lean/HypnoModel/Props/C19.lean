/-
C19 — critical points are classified, de-duplicated, ordered and selected correctly
(`find_critical`, hypnotoad/utils/critical.py; the single/double-null decision of `TokamakEquilibrium.makeRegions`).
Definitions: HypnoModel/Gen/Critical.lean (GENERATED from the live discriminant block of `find_critical` on every run:
`Gen.R.Critical.d2dr2 / d2dz2 / d2drdz / D` as functions of `dR dZ` and the stencil values `p_<a>_<b>` = psi[i+a, j+b]) and
HypnoModel/Model/Critical.lean (hand-written model of the post-processing, instantiated here at α := ℝ).
Helper lemmas and the auxiliary definitions `flipIf`, `maxOf`, `dropRatio`, `withKey`: HypnoModel/Lemmas/Critical.lean.
This file: property theorems only.

Two remarks on the statements.
* `removeDup_idempotent` does not need `dist2` to be symmetric: the separation relation that `removeDup_separated` establishes
  has the argument order of the duplicate test itself.
* Stability: `sortBy_stable` — entries of equal key keep their input order, as with python's `list.sort` (only irreflexivity of
  `<` on ℝ is used: `insertBy` moves the new entry only past entries of strictly smaller key).
-/
import HypnoModel.Gen.Critical
import HypnoModel.Gen.Tokamak
import Mathlib.Algebra.Order.Ring.Rat
import HypnoModel.Model.Critical
import HypnoModel.Lemmas.Critical

namespace HypnoModel.Props.C19
open Critical Gen.R.Critical CriticalLemmas

/-! ## 1. the classification stencil is exact for quadratics; the sign of D classifies -/

/-- for a quadratic psi sampled at the nodes (R0 + a·dR, Z0 + b·dZ), a, b ∈ {-2, 0, 2}, the generated second differences are the
    exact second derivatives psi_RR = 2c3, psi_ZZ = 2c5, psi_RZ = c4, and D = psi_RR·psi_ZZ - psi_RZ² = 4c3c5 - c4² -/
theorem stencil_exact_for_quadratics (c0 c1 c2 c3 c4 c5 R0 Z0 dR dZ : ℝ) (psi : ℝ → ℝ → ℝ)
    (hpsi : ∀ R Z, psi R Z = c0 + c1 * R + c2 * Z + c3 * R ^ 2 + c4 * R * Z + c5 * Z ^ 2)
    (hR : dR ≠ 0) (hZ : dZ ≠ 0) :
    d2dr2 dR (psi (R0 - 2 * dR) Z0) (psi R0 Z0) (psi (R0 + 2 * dR) Z0) = 2 * c3 ∧
    d2dz2 dZ (psi R0 (Z0 - 2 * dZ)) (psi R0 Z0) (psi R0 (Z0 + 2 * dZ)) = 2 * c5 ∧
    d2drdz dR dZ (psi (R0 - 2 * dR) (Z0 - 2 * dZ)) (psi (R0 - 2 * dR) (Z0 + 2 * dZ))
      (psi (R0 + 2 * dR) (Z0 - 2 * dZ)) (psi (R0 + 2 * dR) (Z0 + 2 * dZ)) = c4 ∧
    D dR dZ
      (psi (R0 - 2 * dR) (Z0 - 2 * dZ)) (psi (R0 - 2 * dR) Z0) (psi (R0 - 2 * dR) (Z0 + 2 * dZ))
      (psi R0 (Z0 - 2 * dZ)) (psi R0 Z0) (psi R0 (Z0 + 2 * dZ))
      (psi (R0 + 2 * dR) (Z0 - 2 * dZ)) (psi (R0 + 2 * dR) Z0) (psi (R0 + 2 * dR) (Z0 + 2 * dZ))
      = 4 * c3 * c5 - c4 ^ 2 := by
  simp only [hpsi]
  refine ⟨?_, ?_, ?_, ?_⟩
  · unfold d2dr2; field_simp; ring
  · unfold d2dz2; field_simp; ring
  · unfold d2drdz; field_simp; ring
  · unfold D; field_simp; ring

/-- the generated D is the product of the generated second differences minus the square of the mixed one -/
theorem D_eq_det (dR dZ p_m2_m2 p_m2_p0 p_m2_p2 p_p0_m2 p_p0_p0 p_p0_p2 p_p2_m2 p_p2_p0 p_p2_p2 : ℝ) :
    D dR dZ p_m2_m2 p_m2_p0 p_m2_p2 p_p0_m2 p_p0_p0 p_p0_p2 p_p2_m2 p_p2_p0 p_p2_p2 =
      d2dr2 dR p_m2_p0 p_p0_p0 p_p2_p0 * d2dz2 dZ p_p0_m2 p_p0_p0 p_p0_p2
        - d2drdz dR dZ p_m2_m2 p_m2_p2 p_p2_m2 p_p2_p2 ^ 2 := by
  unfold D d2dr2 d2dz2 d2drdz; rfl

/-- for quadratics the point is classified as an X-point exactly when the Hessian determinant psi_RR·psi_ZZ - psi_RZ² is
    negative (saddle), and as an O-point otherwise -/
theorem classification_sign (c0 c1 c2 c3 c4 c5 R0 Z0 dR dZ : ℝ) (psi : ℝ → ℝ → ℝ)
    (hpsi : ∀ R Z, psi R Z = c0 + c1 * R + c2 * Z + c3 * R ^ 2 + c4 * R * Z + c5 * Z ^ 2)
    (hR : dR ≠ 0) (hZ : dZ ≠ 0) :
    (classify (D dR dZ
      (psi (R0 - 2 * dR) (Z0 - 2 * dZ)) (psi (R0 - 2 * dR) Z0) (psi (R0 - 2 * dR) (Z0 + 2 * dZ))
      (psi R0 (Z0 - 2 * dZ)) (psi R0 Z0) (psi R0 (Z0 + 2 * dZ))
      (psi (R0 + 2 * dR) (Z0 - 2 * dZ)) (psi (R0 + 2 * dR) Z0) (psi (R0 + 2 * dR) (Z0 + 2 * dZ))) = Kind.xpoint
        ↔ (2 * c3) * (2 * c5) - c4 ^ 2 < 0) ∧
    (classify (D dR dZ
      (psi (R0 - 2 * dR) (Z0 - 2 * dZ)) (psi (R0 - 2 * dR) Z0) (psi (R0 - 2 * dR) (Z0 + 2 * dZ))
      (psi R0 (Z0 - 2 * dZ)) (psi R0 Z0) (psi R0 (Z0 + 2 * dZ))
      (psi (R0 + 2 * dR) (Z0 - 2 * dZ)) (psi (R0 + 2 * dR) Z0) (psi (R0 + 2 * dR) (Z0 + 2 * dZ))) = Kind.opoint
        ↔ 0 ≤ (2 * c3) * (2 * c5) - c4 ^ 2) := by
  rw [(stencil_exact_for_quadratics c0 c1 c2 c3 c4 c5 R0 Z0 dR dZ psi hpsi hR hZ).2.2.2,
    classify_xpoint_iff, classify_opoint_iff, not_lt,
    show (2 * c3) * (2 * c5) - c4 ^ 2 = 4 * c3 * c5 - c4 ^ 2 by ring]
  exact ⟨Iff.rfl, Iff.rfl⟩

/-- `classify` in general: X-point iff D < 0, O-point iff not (in particular D = 0 gives an O-point) -/
theorem classify_iff (d : ℝ) :
    (classify d = Kind.xpoint ↔ d < 0) ∧ (classify d = Kind.opoint ↔ 0 ≤ d) := by
  rw [classify_xpoint_iff, classify_opoint_iff, not_lt]
  exact ⟨Iff.rfl, Iff.rfl⟩

/-! ## 2. remove_dup -/

/-- the result is a sublist of the input: nothing is invented, the order is preserved -/
theorem removeDup_sublist (thr : ℝ) (l : List (Pt ℝ)) : (removeDup thr l).Sublist l := by
  have := aux_sublist thr l []
  simpa [removeDup] using this

/-- the first point is always kept, in first position -/
theorem removeDup_head (thr : ℝ) (p : Pt ℝ) (ps : List (Pt ℝ)) : (removeDup thr (p :: ps)).head? = some p := by
  unfold removeDup
  rw [aux_cons_new thr [] ps p (by simp)]
  obtain ⟨t, ht⟩ := aux_prefix thr ps ([] ++ [p])
  rw [← ht]; simp

/-- any two entries of the result are at squared distance ≥ thr (later entry compared with earlier one, as the code does) -/
theorem removeDup_separated (thr : ℝ) (l : List (Pt ℝ)) :
    (removeDup thr l).Pairwise (fun p q => ¬ dist2 q p < thr) :=
  aux_pairwise thr l [] List.Pairwise.nil

/-- every input point is kept or is within thr of a kept point -/
theorem removeDup_covers (thr : ℝ) (l : List (Pt ℝ)) :
    ∀ p ∈ l, p ∈ removeDup thr l ∨ ∃ q ∈ removeDup thr l, dist2 p q < thr :=
  aux_covers thr l []

/-- the loop body: the next point is appended iff it is not within thr of a point kept so far -/
theorem removeDup_snoc (thr : ℝ) (l : List (Pt ℝ)) (p : Pt ℝ) :
    removeDup thr (l ++ [p]) =
      if ∃ q ∈ removeDup thr l, dist2 p q < thr then removeDup thr l else removeDup thr l ++ [p] :=
  aux_snoc thr p l []

/-- a list that is already separated is returned unchanged -/
theorem removeDup_of_separated (thr : ℝ) (l : List (Pt ℝ)) (h : l.Pairwise (fun p q => ¬ dist2 q p < thr)) :
    removeDup thr l = l := by
  unfold removeDup
  rw [aux_of_separated thr l [] h (by simp)]; simp

/-- applying `remove_dup` twice changes nothing (symmetry of `dist2` is not needed) -/
theorem removeDup_idempotent (thr : ℝ) (l : List (Pt ℝ)) :
    removeDup thr (removeDup thr l) = removeDup thr l :=
  removeDup_of_separated thr _ (removeDup_separated thr l)

/-- `dist2` is symmetric over ℝ, so the separation holds in both argument orders -/
theorem dist2_comm (p q : Pt ℝ) : dist2 p q = dist2 q p := by
  unfold dist2; ring

/-! ## 3. sorting -/

/-- the sort permutes its input -/
theorem sortBy_perm (key : Pt ℝ → ℝ) (l : List (Pt ℝ)) : (sortBy key l).Perm l :=
  CriticalLemmas.sortBy_perm key l

/-- the keys of the result are non-decreasing -/
theorem sortBy_sorted (key : Pt ℝ → ℝ) (l : List (Pt ℝ)) :
    (sortBy key l).Pairwise (fun p q => ¬ key q < key p) :=
  CriticalLemmas.sortBy_sorted key l

/-- stability: for every key value `k` the entries with that key appear in the result in their input order (`withKey key k` =
    filter on `key · = k`), as with python's stable `list.sort` -/
theorem sortBy_stable (key : Pt ℝ → ℝ) (k : ℝ) (l : List (Pt ℝ)) :
    withKey key k (sortBy key l) = withKey key k l :=
  sortBy_withKey key k l

/-- concrete instance: two X-points with the same psi keep their order, a third with smaller psi moves in front of both -/
theorem sortBy_stable_example :
    sortBy (fun p => p.psi) [(⟨0, 0, 1⟩ : Pt ℝ), ⟨1, 0, 1⟩, ⟨2, 0, 0⟩] = [⟨2, 0, 0⟩, ⟨0, 0, 1⟩, ⟨1, 0, 1⟩] := by
  norm_num [sortBy, insertBy]

/-- the primary O-point (head of the sorted list) is one of the O-points and minimises the squared distance to (Rmid, Zmid) -/
theorem primary_o_point_nearest (Rmid Zmid : ℝ) (os : List (Pt ℝ)) (hne : os ≠ []) :
    ∃ o, (sortO Rmid Zmid os).head? = some o ∧ o ∈ os ∧
      ∀ p ∈ os, (o.R - Rmid) ^ 2 + (o.Z - Zmid) ^ 2 ≤ (p.R - Rmid) ^ 2 + (p.Z - Zmid) ^ 2 := by
  unfold sortO
  cases hs : sortBy (fun p => (p.R - Rmid) * (p.R - Rmid) + (p.Z - Zmid) * (p.Z - Zmid)) os with
  | nil => exact absurd hs (sortBy_ne_nil _ os hne)
  | cons o rest =>
    refine ⟨o, rfl, ?_⟩
    obtain ⟨h1, h2⟩ := sortBy_head_min _ os o (by rw [hs]; rfl)
    refine ⟨h1, fun p hp => ?_⟩
    have h3 : (o.R - Rmid) * (o.R - Rmid) + (o.Z - Zmid) * (o.Z - Zmid)
        ≤ (p.R - Rmid) * (p.R - Rmid) + (p.Z - Zmid) * (p.Z - Zmid) := h2 p hp
    simp only [pow_two]
    exact h3

/-- the X-points come out ordered by non-decreasing (psi - psi_axis)², equivalently by |psi - psi_axis| -/
theorem xpoints_sorted (psiAxis : ℝ) (xs : List (Pt ℝ)) :
    (sortX psiAxis xs).Perm xs ∧
    (sortX psiAxis xs).Pairwise (fun p q => (p.psi - psiAxis) ^ 2 ≤ (q.psi - psiAxis) ^ 2) ∧
    (sortX psiAxis xs).Pairwise (fun p q => |p.psi - psiAxis| ≤ |q.psi - psiAxis|) := by
  unfold sortX
  have h := CriticalLemmas.sortBy_sorted (fun p => (p.psi - psiAxis) * (p.psi - psiAxis)) xs
  have h2 : (sortBy (fun p => (p.psi - psiAxis) * (p.psi - psiAxis)) xs).Pairwise
      (fun p q => (p.psi - psiAxis) ^ 2 ≤ (q.psi - psiAxis) ^ 2) := by
    refine h.imp ?_
    intro p q hpq
    have := not_lt.1 hpq
    simp only [pow_two]
    exact this
  exact ⟨CriticalLemmas.sortBy_perm _ xs, h2, h2.imp (fun hpq => sq_le_sq.1 hpq)⟩

/-! ## 4. the monotonicity filter -/

/-- an X-point is kept iff the relative drop from the maximum to the X-point end is ≤ tolDrop and the minimum is within tolDist
    (squared) of the O-point -/
theorem keepX_iff (tolDrop tolDist maxp p0 plast d2min : ℝ) :
    keepX tolDrop tolDist maxp p0 plast d2min = true ↔
      ¬ tolDrop < (maxp - plast) / (maxp - p0) ∧ ¬ tolDist < d2min := by
  by_cases h1 : tolDrop < (maxp - plast) / (maxp - p0) <;>
    by_cases h2 : tolDist < d2min <;> simp [keepX, h1, h2]

/-- `maxOf` is `amax`: an upper bound that is attained -/
theorem maxOf_is_max (s : List ℝ) (hne : s ≠ []) : maxOf s ∈ s ∧ ∀ x ∈ s, x ≤ maxOf s :=
  ⟨maxOf_mem s hne, fun x hx => le_maxOf s x hx⟩

/-- evenness under psi ↦ -psi: for the samples `s` of psi on the line from the O-point (psi = Po) to the X-point (psi = Px ≠ Po),
    the conditionally flipped line `flipIf (Px < Po) s` is the same list for the data (s, Px, Po) and for the negated data
    (-s, -Px, -Po); hence so are the triple (max, first, last), the drop ratio, anything else computed from the flipped line
    (`d2 `: the arg-min test) and the decision `keepX` -/
theorem keepX_even (tolDrop tolDist Px Po : ℝ) (s : List ℝ) (d2 : List ℝ → ℝ) (hne : Px ≠ Po) :
    flipIf (decide (Px < Po)) s = flipIf (decide (-Px < -Po)) (s.map Neg.neg) ∧
    dropRatio (flipIf (decide (Px < Po)) s) = dropRatio (flipIf (decide (-Px < -Po)) (s.map Neg.neg)) ∧
    keepX tolDrop tolDist (maxOf (flipIf (decide (Px < Po)) s)) ((flipIf (decide (Px < Po)) s).headD 0)
        ((flipIf (decide (Px < Po)) s).getLastD 0) (d2 (flipIf (decide (Px < Po)) s)) =
      keepX tolDrop tolDist (maxOf (flipIf (decide (-Px < -Po)) (s.map Neg.neg)))
        ((flipIf (decide (-Px < -Po)) (s.map Neg.neg)).headD 0)
        ((flipIf (decide (-Px < -Po)) (s.map Neg.neg)).getLastD 0)
        (d2 (flipIf (decide (-Px < -Po)) (s.map Neg.neg))) := by
  rw [← flipIf_neg_data s Px Po hne]
  exact ⟨rfl, rfl, rfl⟩

/-- the hypothesis Px ≠ Po of `keepX_even` is needed: with Px = Po neither data set is flipped and the two lines differ -/
theorem keepX_even_needs_ne :
    flipIf (decide ((0 : ℝ) < 0)) [0, 1] ≠ flipIf (decide (-(0 : ℝ) < -0)) ([0, 1].map Neg.neg) := by
  norm_num [flipIf]

/-! ## 5. single / double null -/

theorem null_count_decision (n : Nat) :
    (nullCount n = Nulls.single ↔ n = 1) ∧ (nullCount n = Nulls.double ↔ n = 2) ∧
    (nullCount n = Nulls.refuse ↔ n = 0 ∨ 2 < n) := by
  match n with
  | 0 => simp [nullCount]
  | 1 => simp [nullCount]
  | 2 => simp [nullCount]
  | n + 3 => simp [nullCount]

/-! ## 6. evenness and scaling of the discriminant -/

/-- D is unchanged when all nine stencil values are negated -/
theorem discriminant_even (dR dZ p_m2_m2 p_m2_p0 p_m2_p2 p_p0_m2 p_p0_p0 p_p0_p2 p_p2_m2 p_p2_p0 p_p2_p2 : ℝ) :
    D dR dZ (-p_m2_m2) (-p_m2_p0) (-p_m2_p2) (-p_p0_m2) (-p_p0_p0) (-p_p0_p2) (-p_p2_m2) (-p_p2_p0) (-p_p2_p2) =
      D dR dZ p_m2_m2 p_m2_p0 p_m2_p2 p_p0_m2 p_p0_p0 p_p0_p2 p_p2_m2 p_p2_p0 p_p2_p2 := by
  unfold D; ring

/-- hence the classification is even under psi ↦ -psi -/
theorem classification_even (dR dZ p_m2_m2 p_m2_p0 p_m2_p2 p_p0_m2 p_p0_p0 p_p0_p2 p_p2_m2 p_p2_p0 p_p2_p2 : ℝ) :
    classify (D dR dZ (-p_m2_m2) (-p_m2_p0) (-p_m2_p2) (-p_p0_m2) (-p_p0_p0) (-p_p0_p2) (-p_p2_m2) (-p_p2_p0)
        (-p_p2_p2)) =
      classify (D dR dZ p_m2_m2 p_m2_p0 p_m2_p2 p_p0_m2 p_p0_p0 p_p0_p2 p_p2_m2 p_p2_p0 p_p2_p2) := by
  rw [discriminant_even]

/-- multiplying all stencil values by lam multiplies D by lam² -/
theorem discriminant_scale (lam dR dZ p_m2_m2 p_m2_p0 p_m2_p2 p_p0_m2 p_p0_p0 p_p0_p2 p_p2_m2 p_p2_p0 p_p2_p2 : ℝ) :
    D dR dZ (lam * p_m2_m2) (lam * p_m2_p0) (lam * p_m2_p2) (lam * p_p0_m2) (lam * p_p0_p0) (lam * p_p0_p2)
        (lam * p_p2_m2) (lam * p_p2_p0) (lam * p_p2_p2) =
      lam ^ 2 * D dR dZ p_m2_m2 p_m2_p0 p_m2_p2 p_p0_m2 p_p0_p0 p_p0_p2 p_p2_m2 p_p2_p0 p_p2_p2 := by
  unfold D; ring

/-- hence the classification is unchanged by any non-zero rescaling of psi -/
theorem classification_scale (lam dR dZ p_m2_m2 p_m2_p0 p_m2_p2 p_p0_m2 p_p0_p0 p_p0_p2 p_p2_m2 p_p2_p0 p_p2_p2 : ℝ)
    (hlam : lam ≠ 0) :
    classify (D dR dZ (lam * p_m2_m2) (lam * p_m2_p0) (lam * p_m2_p2) (lam * p_p0_m2) (lam * p_p0_p0) (lam * p_p0_p2)
        (lam * p_p2_m2) (lam * p_p2_p0) (lam * p_p2_p2)) =
      classify (D dR dZ p_m2_m2 p_m2_p0 p_m2_p2 p_p0_m2 p_p0_p0 p_p0_p2 p_p2_m2 p_p2_p0 p_p2_p2) := by
  rw [discriminant_scale]
  have hpos : 0 < lam ^ 2 := by positivity
  unfold classify
  by_cases h : D dR dZ p_m2_m2 p_m2_p0 p_m2_p2 p_p0_m2 p_p0_p0 p_p0_p2 p_p2_m2 p_p2_p0 p_p2_p2 < 0
  · rw [if_pos h, if_pos (mul_neg_of_pos_of_neg hpos h)]
  · rw [if_neg h, if_neg (not_lt.2 (mul_nonneg hpos.le (not_lt.1 h)))]

/-! ## 7. the hypotheses are satisfiable; concrete instances -/

section examples

/-- `stencil_exact_for_quadratics` / `classification_sign`: the saddle psi = R² - Z² on a grid with dR = 1/10, dZ = 1/5 around
    (R0, Z0) = (1, 0): D = -4 < 0, an X-point -/
example : D (1 / 10) (1 / 5)
      (((1 : ℝ) - 2 * (1 / 10)) ^ 2 - ((0 : ℝ) - 2 * (1 / 5)) ^ 2) (((1 : ℝ) - 2 * (1 / 10)) ^ 2 - (0 : ℝ) ^ 2)
      (((1 : ℝ) - 2 * (1 / 10)) ^ 2 - ((0 : ℝ) + 2 * (1 / 5)) ^ 2)
      ((1 : ℝ) ^ 2 - ((0 : ℝ) - 2 * (1 / 5)) ^ 2) ((1 : ℝ) ^ 2 - (0 : ℝ) ^ 2) ((1 : ℝ) ^ 2 - ((0 : ℝ) + 2 * (1 / 5)) ^ 2)
      (((1 : ℝ) + 2 * (1 / 10)) ^ 2 - ((0 : ℝ) - 2 * (1 / 5)) ^ 2) (((1 : ℝ) + 2 * (1 / 10)) ^ 2 - (0 : ℝ) ^ 2)
      (((1 : ℝ) + 2 * (1 / 10)) ^ 2 - ((0 : ℝ) + 2 * (1 / 5)) ^ 2) = -4 := by
  have h := (stencil_exact_for_quadratics 0 0 0 1 0 (-1) 1 0 (1 / 10) (1 / 5) (fun R Z => R ^ 2 - Z ^ 2)
    (by intro R Z; ring) (by norm_num) (by norm_num)).2.2.2
  rw [h]; norm_num

/-- the same saddle is classified as an X-point, the bowl psi = R² + Z² as an O-point -/
example : classify (-4 : ℝ) = Kind.xpoint ∧ classify (4 : ℝ) = Kind.opoint ∧ classify (0 : ℝ) = Kind.opoint := by
  refine ⟨(classify_iff _).1.2 (by norm_num), (classify_iff _).2.2 (by norm_num), (classify_iff _).2.2 (by norm_num)⟩

/-- hypotheses of `stencil_exact_for_quadratics` / `classification_sign` -/
example : ∃ (psi : ℝ → ℝ → ℝ) (c0 c1 c2 c3 c4 c5 dR dZ : ℝ),
    (∀ R Z, psi R Z = c0 + c1 * R + c2 * Z + c3 * R ^ 2 + c4 * R * Z + c5 * Z ^ 2) ∧ dR ≠ 0 ∧ dZ ≠ 0 ∧
    (2 * c3) * (2 * c5) - c4 ^ 2 < 0 :=
  ⟨fun R Z => R ^ 2 - Z ^ 2, 0, 0, 0, 1, 0, -1, 1 / 10, 1 / 5, by intro R Z; ring, by norm_num, by norm_num,
    by norm_num⟩

/-- `removeDup` on three points, the third a duplicate (squared distance 1e-6 < 1e-5) of the first -/
example : removeDup (1 / 100000 : ℝ) [⟨1, 0, 5⟩, ⟨2, 0, 6⟩, ⟨1 + 1 / 1000, 0, 7⟩] = [⟨1, 0, 5⟩, ⟨2, 0, 6⟩] := by
  simp only [removeDup, removeDupAux, dist2, List.any_nil, List.any_cons, List.nil_append, List.cons_append]
  norm_num

/-- hypothesis of `removeDup_of_separated`: two points at squared distance 1 -/
example : ([⟨1, 0, 5⟩, ⟨2, 0, 6⟩] : List (Pt ℝ)).Pairwise (fun p q => ¬ dist2 q p < (1 / 100000 : ℝ)) := by
  simp [dist2]; norm_num

/-- hypothesis of `primary_o_point_nearest` -/
example : ([⟨1, 0, 5⟩] : List (Pt ℝ)) ≠ [] := by simp

/-- `sortX`: psi_axis = 0, X-points with psi = 3, -1, 2 come out as -1, 2, 3 -/
example : (sortX (0 : ℝ) [⟨0, 0, 3⟩, ⟨0, 1, -1⟩, ⟨0, 2, 2⟩]).map (fun p => p.psi) = [-1, 2, 3] := by
  norm_num [sortX, sortBy, insertBy]

/-- hypothesis of `keepX_even`, and an instance: samples 0, 1, 3 of psi from the O-point (Po = 0) to the X-point (Px = 3):
    max = last, drop ratio 0, kept -/
example : (3 : ℝ) ≠ 0 ∧ dropRatio (flipIf (decide ((3 : ℝ) < 0)) [0, 1, 3]) = 0 := by
  refine ⟨by norm_num, ?_⟩
  norm_num [flipIf, dropRatio, maxOf]

/-- `keepX` with the code's tolerances: no drop, minimum at the O-point -/
example : keepX (1 / 1000 : ℝ) (1 / 10000) 3 0 3 0 = true := by
  rw [keepX_iff]; norm_num

/-- `null_count_decision` -/
example : nullCount 1 = Nulls.single ∧ nullCount 2 = Nulls.double ∧ nullCount 0 = Nulls.refuse ∧
    nullCount 3 = Nulls.refuse := by
  simp [nullCount]

end examples


/-! ## 8. the point the O-points are ranked against -/

/-- `find_critical` ranks the O-points by their distance to (Rmid, Zmid). The coordinate arrays are indexed `[iR, iZ]`, so the centre of the
domain in R is the mean of `R[0, 0]` and `R[-1, 0]` (first and last row), in Z the mean of `Z[0, 0]` and `Z[0, -1]` (first and last column);
`R[0, -1]` would be `R[0, 0]` again. The entry lists are regenerated from the source on every run. -/
theorem rmid_reads_first_and_last_row : Gen.R.Critical.Rmid_entries = [(0, 0), (-1, 0)] := rfl

theorem zmid_reads_first_and_last_column : Gen.R.Critical.Zmid_entries = [(0, 0), (0, -1)] := rfl

theorem rmid_is_mean (a b : ℝ) : Gen.R.Critical.Rmid a b = (a + b) / 2 := by unfold Gen.R.Critical.Rmid; ring

theorem zmid_is_mean (a b : ℝ) : Gen.R.Critical.Zmid a b = (a + b) / 2 := by unfold Gen.R.Critical.Zmid; ring

/-! ## Leg labelling (`findLegs`, GENERATED `Gen.Tokamak.legsSwap`) -/
section Legs
open Gen.Tokamak

/-- legs are labelled by the major radius of their strike points: after the exchange the leg returned as inner strikes at R ≤ that of outer -/
theorem legs_labelled_by_strike (strike : Nat → Rat) :
    (if legsSwap strike then strike 1 else strike 0) ≤ (if legsSwap strike then strike 0 else strike 1) := by
  unfold legsSwap
  by_cases h : strike 0 > strike 1
  · simp [h]; exact le_of_lt h
  · simp [h]; exact not_lt.mp h
theorem legs_swap_iff (strike : Nat → Rat) : legsSwap strike = true ↔ strike 1 < strike 0 := by
  unfold legsSwap; simp

end Legs

end HypnoModel.Props.C19
