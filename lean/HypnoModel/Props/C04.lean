/-
C04 — orthogonal grids follow grad psi: the radial grid lines of an orthogonal grid are the integral curves of ∇ψ/|∇ψ|² through
the points of the skeleton contour, and contour i is the flux surface ψ = psi_vals[i].
Definitions: HypnoModel/Gen/Pipeline.lean (GENERATED from hypnotoad/core/mesh.py on every run: the two orientation tests
`reverseBefore`, `reverseAfter` of `MeshRegion.__init__`) and HypnoModel/Model/Perp.lean (hand-written model of
`followPerpendicular` — `followBase`, `followRev`, `follow` — and of the assembly of the followed lines into contours,
`assemble`).  The integrator is a parameter: `flow ψ` is the point reached from the skeleton point by integrating
dr/dψ = ∇ψ/|∇ψ|² to the value ψ.
Helper lemmas and the auxiliary definitions `WeakMono` (weakly increasing or weakly decreasing list), `assembleWith rb ra`
(`assemble` with the two generated tests replaced by booleans), `radialOrder`: HypnoModel/Lemmas/Perp.lean.
This file: property theorems only.  The number type is any linear order with `-`, unary `-`, `0` (so ℝ in particular; ℤ in the
examples); the `absv` test of case 2 never matters for the result, so no arithmetic law is needed.

The content: however followPerpendicular splits and reverses the list of requested psi values, on a monotone list the k-th
returned point is the flow at the k-th requested value (§1–2; false without monotonicity, §3); `MeshRegion.__init__` reverses
the psi values before following and the lines after following under the same (generated) test, so point j of contour i is the
flow from skeleton point j at psi_vals[i] (§4); with the integrator's contract ψ(flow ψ') = ψ' every contour is a flux surface (§5).
-/
import HypnoModel.Gen.Pipeline
import HypnoModel.Gen.Follow
import HypnoModel.Gen.Fields
import Mathlib.Tactic.FieldSimp
import Mathlib.Tactic.Ring
import HypnoModel.Model.Perp
import HypnoModel.Lemmas.Perp
import Mathlib.Algebra.Order.Group.Int

namespace HypnoModel.Props.C04
open Perp Gen.Pipeline

/-! ## 1. cases 2/3 -/

/-- reversing the request and reversing the answer, or not: the values in the order given -/
theorem followRev_eq_map {α P : Type} [LT α] [DecidableLT α] [Sub α] [Neg α] [Zero α]
    (flow : α → P) (psi0 : α) (vs : List α) : followRev flow psi0 vs = vs.map flow :=
  followRev_map flow psi0 vs

section
variable {α : Type} [LinearOrder α] [Sub α] [Neg α] [Zero α] {P : Type}

/-! ## 2. followPerpendicular on a monotone list -/

omit [Sub α] [Neg α] [Zero α] in
/-- a (weakly) increasing list is its `< ψ₀` part followed by its `≥ ψ₀` part … -/
theorem partition_increasing (psi0 : α) (vs : List α) (h : vs.Pairwise (· ≤ ·)) :
    vs.filter (fun x => decide (x < psi0)) ++ vs.filter (fun x => decide (psi0 ≤ x)) = vs :=
  filter_lt_append_filter_ge psi0 vs h

omit [Sub α] [Neg α] [Zero α] in
/-- … a (weakly) decreasing list its `≥ ψ₀` part followed by its `< ψ₀` part -/
theorem partition_decreasing (psi0 : α) (vs : List α) (h : vs.Pairwise (· ≥ ·)) :
    vs.filter (fun x => decide (psi0 ≤ x)) ++ vs.filter (fun x => decide (x < psi0)) = vs :=
  filter_ge_append_filter_lt psi0 vs h

/-- for weakly monotone requests, whatever the position of ψ₀ relative to them: `result[k] = flow vs[k]` -/
theorem follow_eq_map_of_weakly_sorted (flow : α → P) (psi0 : α) (vs : List α)
    (h : vs.Pairwise (· ≤ ·) ∨ vs.Pairwise (· ≥ ·)) : follow flow psi0 vs = vs.map flow :=
  follow_map_of_weakMono flow psi0 vs h

/-- for strictly monotone requests (the code's psi grids, by C09) -/
theorem follow_eq_map_of_sorted (flow : α → P) (psi0 : α) (vs : List α)
    (h : vs.Pairwise (· < ·) ∨ vs.Pairwise (· > ·)) : follow flow psi0 vs = vs.map flow :=
  follow_map_of_weakMono flow psi0 vs (WeakMono.of_strict h)

/-- index form -/
theorem follow_getElem_of_sorted (flow : α → P) (psi0 : α) (vs : List α)
    (h : vs.Pairwise (· < ·) ∨ vs.Pairwise (· > ·)) (k : Nat) :
    (follow flow psi0 vs)[k]? = vs[k]?.map flow := by
  rw [follow_eq_map_of_sorted flow psi0 vs h, List.getElem?_map]

end

/-! ## 3. monotonicity is needed -/

/-- for a non-monotone request the points come back in a different order than requested (here sorted) -/
theorem follow_nonmonotone_counterexample :
    follow (id : Int → Int) 2 [0, 3, 1] = [0, 1, 3] ∧ follow (id : Int → Int) 2 [0, 3, 1] ≠ [0, 3, 1].map id := by
  decide

/-! ## 4. the contours of a MeshRegion -/

/-- the psi values are reversed before following under exactly the test under which the lines are reversed afterwards
    (proved from the generated definitions: it fails to compile if the two tests of the source differ) -/
theorem orientation_consistent : ∀ ri si, reverseBefore ri si = reverseAfter ri si := by
  intro ri si
  simp only [reverseBefore, reverseAfter]

section
variable {α : Type} [LinearOrder α] [Sub α] [Neg α] [Zero α] {P : Type}

/-- `assemble` is `assembleWith` at the generated tests -/
theorem assemble_eq (flows : Nat → α → P) (psi0s : Nat → α) (nskel : Nat) (psiVals : List α) (ri si : Nat) :
    assemble flows psi0s nskel psiVals ri si =
      assembleWith (reverseBefore ri si) (reverseAfter ri si) flows psi0s nskel psiVals :=
  assemble_eq_assembleWith flows psi0s nskel psiVals ri si

/-- with consistent reversals, point j of contour i is the flow from skeleton point j at psiVals[i] -/
theorem assembleWith_consistent (rb : Bool) (flows : Nat → α → P) (psi0s : Nat → α) (nskel : Nat) (psiVals : List α)
    (hmono : psiVals.Pairwise (· < ·) ∨ psiVals.Pairwise (· > ·))
    (i j : Nat) (v : α) (hv : psiVals[i]? = some v) (hj : j < nskel) :
    (assembleWith rb rb flows psi0s nskel psiVals)[i]?.bind (·[j]?) = some (flows j v) :=
  assembleWith_get rb rb flows psi0s nskel psiVals (WeakMono.of_strict hmono) i j v (by simpa [radialOrder] using hv) hj

/-- point j of contour i lies on the integral curve through skeleton point j, at ψ = psiVals[i] — provided the two orientation
    tests agree -/
theorem assemble_same_curve (flows : Nat → α → P) (psi0s : Nat → α) (nskel : Nat) (psiVals : List α) (ri si : Nat)
    (hmono : psiVals.Pairwise (· < ·) ∨ psiVals.Pairwise (· > ·))
    (hor : reverseBefore ri si = reverseAfter ri si)
    (i j : Nat) (v : α) (hv : psiVals[i]? = some v) (hj : j < nskel) :
    (assemble flows psi0s nskel psiVals ri si)[i]?.bind (·[j]?) = some (flows j v) := by
  rw [assemble_eq, ← hor]
  exact assembleWith_consistent _ flows psi0s nskel psiVals hmono i j v hv hj

/-- … which they do -/
theorem assemble_same_curve_current (flows : Nat → α → P) (psi0s : Nat → α) (nskel : Nat) (psiVals : List α) (ri si : Nat)
    (hmono : psiVals.Pairwise (· < ·) ∨ psiVals.Pairwise (· > ·))
    (i j : Nat) (v : α) (hv : psiVals[i]? = some v) (hj : j < nskel) :
    (assemble flows psi0s nskel psiVals ri si)[i]?.bind (·[j]?) = some (flows j v) :=
  assemble_same_curve flows psi0s nskel psiVals ri si hmono (orientation_consistent ri si) i j v hv hj

/-- as many contours as psi values, each with one point per skeleton point (whatever the orientation tests) -/
theorem assemble_dims (flows : Nat → α → P) (psi0s : Nat → α) (nskel : Nat) (psiVals : List α) (ri si : Nat)
    (hmono : psiVals.Pairwise (· < ·) ∨ psiVals.Pairwise (· > ·)) :
    (assemble flows psi0s nskel psiVals ri si).length = psiVals.length ∧
      ∀ c ∈ assemble flows psi0s nskel psiVals ri si, c.length = nskel := by
  rw [assemble_eq]
  exact assembleWith_dims _ _ flows psi0s nskel psiVals (WeakMono.of_strict hmono)

/-- with a (hypothetical) reverse-before ≠ reverse-after the contours come out in reversed radial order: contour i holds the
    points for the i-th psi value counted from the other end, while `contours[i].psival = psi_vals[i]` -/
theorem assemble_inconsistent_counterexample (rb ra : Bool) (hne : rb ≠ ra) (flows : Nat → α → P) (psi0s : Nat → α)
    (nskel : Nat) (psiVals : List α) (hmono : psiVals.Pairwise (· < ·) ∨ psiVals.Pairwise (· > ·))
    (i j : Nat) (v : α) (hv : psiVals.reverse[i]? = some v) (hj : j < nskel) :
    (assembleWith rb ra flows psi0s nskel psiVals)[i]?.bind (·[j]?) = some (flows j v) :=
  assembleWith_get rb ra flows psi0s nskel psiVals (WeakMono.of_strict hmono) i j v
    (by simpa [radialOrder, hne] using hv) hj

/-! ## 5. every contour is a flux surface -/

/-- the integrator's contract — integrating dr/dψ = ∇ψ/|∇ψ|² from the skeleton point to ψ reaches the surface ψ — makes every
    point of contour i lie on ψ = psiVals[i] (and, by `assemble_same_curve`, column j is the integral curve through skeleton
    point j) -/
theorem flow_on_surface (psi : P → α) (flows : Nat → α → P) (psi0s : Nat → α) (nskel : Nat) (psiVals : List α) (ri si : Nat)
    (hmono : psiVals.Pairwise (· < ·) ∨ psiVals.Pairwise (· > ·))
    (hflow : ∀ j ψ, psi (flows j ψ) = ψ)
    (i j : Nat) (v : α) (q : P) (hv : psiVals[i]? = some v)
    (hq : (assemble flows psi0s nskel psiVals ri si)[i]?.bind (·[j]?) = some q) : psi q = v := by
  have hj : j < nskel := by
    cases hc : (assemble flows psi0s nskel psiVals ri si)[i]? with
    | none => simp [hc] at hq
    | some c =>
      rw [hc] at hq
      have hlen := (assemble_dims flows psi0s nskel psiVals ri si hmono).2 c (List.mem_of_getElem? hc)
      have := (List.getElem?_eq_some_iff.mp hq).1
      omega
  rw [assemble_same_curve_current flows psi0s nskel psiVals ri si hmono i j v hv hj] at hq
  cases hq
  exact hflow j v

end

/-! ## 6. the hypotheses are satisfiable -/

example : [(1 : Int), 2, 3].Pairwise (· < ·) ∨ [(1 : Int), 2, 3].Pairwise (· > ·) := Or.inl (by decide)

/-- ψ₀ strictly inside an increasing request (case 1): still the order requested -/
example : follow (fun x : Int => 10 * x) 2 [0, 1, 3, 5] = [0, 10, 30, 50] := by decide

/-- ψ₀ inside a decreasing request -/
example : follow (fun x : Int => 10 * x) 2 [5, 3, 1, 0] = [50, 30, 10, 0] := by decide

/-- three psi values, two skeleton points, region inside the separatrix (both reversals active): contour i at psiVals[i] -/
example : assemble (fun j (x : Int) => (j, x)) (fun _ => 3) 2 [1, 2, 3] 0 1 =
    [[(0, 1), (1, 1)], [(0, 2), (1, 2)], [(0, 3), (1, 3)]] := by decide

/-- the same with only one of the reversals: reversed radial order -/
example : assembleWith true false (fun j (x : Int) => (j, x)) (fun _ => 3) 2 [1, 2, 3] =
    [[(0, 3), (1, 3)], [(0, 2), (1, 2)], [(0, 1), (1, 1)]] := by decide

/-- a flow satisfying the integrator's contract for ψ = second coordinate -/
example : ∀ (j : Nat) (x : Int), Prod.snd ((fun j (x : Int) => (j, x)) j x) = x := fun _ _ => rfl

/-! ## The integration itself (`followPerpendicular`, GENERATED `Gen.Follow`)

`Gen.Follow.rhs` is the pair the inner function `f` returns to solve_ivp, `selfCalls` the keyword arguments of every recursive call,
`solveKeywords` those of the solve_ivp call.  With the generated `f_R`, `f_Z` of the equilibrium (`Gen.R.Fields`) the right-hand side
advances psi at unit rate and is parallel to grad(psi): the independent variable of the integration *is* psi and the curve is the
integral curve of grad(psi) — for every flux function, whatever its units (a clipped or rescaled component breaks both). -/
section Follow
open Gen.Follow

theorem rhs_unit_rate_dct (D01 D10 : ℝ → ℝ → ℝ) (R Z : ℝ) (h : (D10 R Z) ^ 2 + (D01 R Z) ^ 2 ≠ 0) :
    D10 R Z * (rhs (Gen.R.Fields.dct.f_R D01 D10) (Gen.R.Fields.dct.f_Z D01 D10) R Z).1
      + D01 R Z * (rhs (Gen.R.Fields.dct.f_R D01 D10) (Gen.R.Fields.dct.f_Z D01 D10) R Z).2 = 1 ∧
    D10 R Z * (rhs (Gen.R.Fields.dct.f_R D01 D10) (Gen.R.Fields.dct.f_Z D01 D10) R Z).2
      - D01 R Z * (rhs (Gen.R.Fields.dct.f_R D01 D10) (Gen.R.Fields.dct.f_Z D01 D10) R Z).1 = 0 := by
  simp only [rhs, Gen.R.Fields.dct.f_R, Gen.R.Fields.dct.f_Z]
  constructor
  · field_simp
  · field_simp; ring

theorem rhs_unit_rate_spline (D01 D10 : ℝ → ℝ → ℝ) (R Z loR hiR loZ hiZ : ℝ)
    (hR : loR ≤ R ∧ R ≤ hiR) (hZ : loZ ≤ Z ∧ Z ≤ hiZ) (h : (D10 R Z) ^ 2 + (D01 R Z) ^ 2 ≠ 0) :
    D10 R Z * (rhs (fun r z => Gen.R.Fields.spline.f_R D01 D10 r z loR hiR loZ hiZ) (fun r z => Gen.R.Fields.spline.f_Z D01 D10 r z loR hiR loZ hiZ) R Z).1
      + D01 R Z * (rhs (fun r z => Gen.R.Fields.spline.f_R D01 D10 r z loR hiR loZ hiZ) (fun r z => Gen.R.Fields.spline.f_Z D01 D10 r z loR hiR loZ hiZ) R Z).2 = 1 ∧
    D10 R Z * (rhs (fun r z => Gen.R.Fields.spline.f_R D01 D10 r z loR hiR loZ hiZ) (fun r z => Gen.R.Fields.spline.f_Z D01 D10 r z loR hiR loZ hiZ) R Z).2
      - D01 R Z * (rhs (fun r z => Gen.R.Fields.spline.f_R D01 D10 r z loR hiR loZ hiZ) (fun r z => Gen.R.Fields.spline.f_Z D01 D10 r z loR hiR loZ hiZ) R Z).1 = 0 := by
  have e1 : min hiR (max loR R) = R := by rw [max_eq_right hR.1, min_eq_right hR.2]
  have e2 : min hiZ (max loZ Z) = Z := by rw [max_eq_right hZ.1, min_eq_right hZ.2]
  simp only [rhs, Gen.R.Fields.spline.f_R, Gen.R.Fields.spline.f_Z, e1, e2]
  constructor
  · field_simp
  · field_simp; ring

theorem follow_everything_forwarded :
    ∀ c ∈ selfCalls, c.lookup "rtol" = some "rtol" ∧ c.lookup "atol" = some "atol" ∧ c.lookup "maxits" = some "maxits" ∧
      c.lookup "recover" = some "recover" ∧ c.lookup "f_R" = some "f_R" ∧ c.lookup "f_Z" = some "f_Z" := by decide

theorem follow_solver_arguments :
    solvePositional = ["f", "psirange", "tuple(p0)"] ∧ solveKeywords.lookup "rtol" = some "rtol" ∧
      solveKeywords.lookup "atol" = some "atol" ∧ solveKeywords.lookup "t_eval" = some "psivals" := by decide

theorem follow_selfcalls_same_start : ∀ p ∈ selfCallsPositional, p = ["None", "p0", "psi0"] := by decide

example : (3 : ℝ) * (rhs (fun _ _ => (3 : ℝ) / 25) (fun _ _ => (4 : ℝ) / 25) 0 0).1 + 4 * (rhs (fun _ _ => (3 : ℝ) / 25) (fun _ _ => (4 : ℝ) / 25) 0 0).2 = 1 := by
  simp only [rhs]; norm_num

end Follow

end HypnoModel.Props.C04
