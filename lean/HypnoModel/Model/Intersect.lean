/-
C20 model (core Lean only, exact rational arithmetic): `find_intersections`, `Equilibrium.wallIntersection`,
`closest_approach` (squared) of hypnotoad/core/equilibrium.py and `polygons.area / clockwise / intersect`.
Executable over `Rat`; the theorems in Props/C20.lean are about these definitions.
Division by zero never reaches Lean's totalised `x / 0 = 0`: zero-length wall edges and segments are rejected
explicitly (numpy gives NaN there and every comparison with NaN is false, i.e. "no crossing").
-/
namespace Intersect

structure Pt where
  R : Rat
  Z : Rat
  deriving DecidableEq, Repr

def absq (x : Rat) : Rat := if x < 0 then -x else x

/-- `numpy.argsort` of the two end points by R (ties keep the order) -/
def sortR (p q : Pt) : Pt × Pt := if q.R < p.R then (q, p) else (p, q)
def sortZ (p q : Pt) : Pt × Pt := if q.Z < p.Z then (q, p) else (p, q)

/-- class 'a' wall edge: |dR| > |dZ| -/
def isA (p q : Pt) : Bool := decide (absq (p.R - q.R) > absq (p.Z - q.Z))

/-- segment R-like (sorted in R), edge class a (sorted in R). -/
def crossRA (eps tol : Rat) (e1 e2 s1 s2 : Pt) : Option Pt :=
  let m1 := (e2.Z - e1.Z) / (e2.R - e1.R)
  let m2 := (s2.Z - s1.Z) / (s2.R - s1.R)
  if absq (m1 - m2) < eps then none
  else
    let Rc := (s1.Z - e1.Z + m1 * e1.R - m2 * s1.R) / (m1 - m2)
    if e1.R - tol ≤ Rc ∧ Rc ≤ e2.R + tol ∧ s1.R - tol ≤ Rc ∧ Rc ≤ s2.R + tol then
      some ⟨Rc, e1.Z + m1 * (Rc - e1.R)⟩
    else none

/-- segment R-like, edge class b (sorted in Z) -/
def crossRB (tol : Rat) (e1 e2 s1 s2 : Pt) : Option Pt :=
  let k1 := (e2.R - e1.R) / (e2.Z - e1.Z)
  let m2 := (s2.Z - s1.Z) / (s2.R - s1.R)
  let Rc := (e1.R + k1 * (s1.Z - m2 * s1.R - e1.Z)) / (1 - k1 * m2)
  let Zc := s1.Z + m2 * (Rc - s1.R)
  if e1.Z - tol ≤ Zc ∧ Zc ≤ e2.Z + tol ∧ s1.R - tol ≤ Rc ∧ Rc ≤ s2.R + tol then some ⟨Rc, Zc⟩ else none

/-- segment Z-like (sorted in Z), edge class a (sorted in R) -/
def crossZA (tol : Rat) (e1 e2 s1 s2 : Pt) : Option Pt :=
  let dR1 := e2.R - e1.R
  let dZ1 := e2.Z - e1.Z
  let dR2 := s2.R - s1.R
  let dZ2 := s2.Z - s1.Z
  let Zc := (e1.Z + dZ1 / dR1 * (s1.R - dR2 / dZ2 * s1.Z - e1.R)) / (1 - dZ1 * dR2 / (dR1 * dZ2))
  let Rc := s1.R + dR2 / dZ2 * (Zc - s1.Z)
  if e1.R - tol ≤ Rc ∧ Rc ≤ e2.R + tol ∧ s1.Z - tol ≤ Zc ∧ Zc ≤ s2.Z + tol then some ⟨Rc, Zc⟩ else none

/-- segment Z-like, edge class b (sorted in Z) -/
def crossZB (eps tol : Rat) (e1 e2 s1 s2 : Pt) : Option Pt :=
  let k1 := (e2.R - e1.R) / (e2.Z - e1.Z)
  let k2 := (s2.R - s1.R) / (s2.Z - s1.Z)
  if absq (k2 - k1) < eps then none
  else
    let Zc := (e1.R - s1.R + k2 * s1.Z - k1 * e1.Z) / (k2 - k1)
    if e1.Z - tol ≤ Zc ∧ Zc ≤ e2.Z + tol ∧ s1.Z - tol ≤ Zc ∧ Zc ≤ s2.Z + tol then
      some ⟨s1.R + k2 * (Zc - s1.Z), Zc⟩
    else none

/-- one wall edge against the (already sorted) segment -/
def crossEdge (eps tol : Rat) (rlike : Bool) (s1 s2 : Pt) (p q : Pt) : Option Pt :=
  if p = q then none                                  -- zero-length edge: NaN in numpy, never reported
  else if isA p q then
    let e := sortR p q
    if rlike then crossRA eps tol e.1 e.2 s1 s2 else crossZA tol e.1 e.2 s1 s2
  else
    let e := sortZ p q
    if rlike then crossRB tol e.1 e.2 s1 s2 else crossZB eps tol e.1 e.2 s1 s2

def edges : List Pt → List (Pt × Pt)
  | p :: q :: r => (p, q) :: edges (q :: r)
  | _ => []

/-- `find_intersections(l1array, l2start, l2end)`: class-a edges first, then class-b, each in wall order -/
def findIntersections (eps tol : Rat) (wall : List Pt) (p1 p2 : Pt) : List Pt :=
  if p1 = p2 then []                                  -- zero-length segment: NaN everywhere
  else
    let rlike := decide (absq (p2.R - p1.R) > absq (p2.Z - p1.Z))
    let s := if rlike then (if p2.R < p1.R then (p2, p1) else (p1, p2))
             else (if p2.Z < p1.Z then (p2, p1) else (p1, p2))
    let es := edges wall
    let ea := es.filter (fun e => e.1 ≠ e.2 ∧ isA e.1 e.2)
    let eb := es.filter (fun e => ¬ (e.1 ≠ e.2 ∧ isA e.1 e.2))
    (ea ++ eb).filterMap (fun e => crossEdge eps tol rlike s.1 s.2 e.1 e.2)

inductive WallHit
  | none
  | one (p : Pt)
  | tooMany
  | multiple
  deriving DecidableEq, Repr

/-- `Equilibrium.wallIntersection` -/
def wallIntersection (eps tol : Rat) (wall : List Pt) (p1 p2 : Pt) : WallHit :=
  match findIntersections eps tol wall p1 p2 with
  | [] => .none
  | [p] => .one p
  | [p, q] => if absq (p.R - q.R) < tol ∧ absq (p.Z - q.Z) < tol then .one p else .multiple
  | _ => .tooMany

/-- `closest_approach(point, a, b)` squared; `none` for a = b (0/0 in numpy) -/
def closest2 (p a b : Pt) : Option Rat :=
  let mR := b.R - a.R
  let mZ := b.Z - a.Z
  let mm := mR * mR + mZ * mZ
  if mm = 0 then none
  else
    let t0 := (mR * (p.R - a.R) + mZ * (p.Z - a.Z)) / mm
    if t0 < 0 then some ((p.R - a.R) * (p.R - a.R) + (p.Z - a.Z) * (p.Z - a.Z))
    else if 1 < t0 then some ((p.R - b.R) * (p.R - b.R) + (p.Z - b.Z) * (p.Z - b.Z))
    else
      let iR := a.R + t0 * mR
      let iZ := a.Z + t0 * mZ
      some ((p.R - iR) * (p.R - iR) + (p.Z - iZ) * (p.Z - iZ))

/-! ### polygons -/

/-- twice the signed area: Σ (r2 - r1)(z1 + z2) over the closed polygon -/
def area2From (first : Pt) : List Pt → Rat
  | [] => 0
  | [p] => (first.R - p.R) * (p.Z + first.Z)
  | p :: q :: r => (q.R - p.R) * (p.Z + q.Z) + area2From first (q :: r)

def area2 (poly : List Pt) : Rat :=
  match poly with
  | [] => 0
  | p :: _ => area2From p poly

/-- `polygons.clockwise` -/
def clockwise (poly : List Pt) : Bool := decide (area2 poly > 0)

/-- one pair of segments of `polygons.intersect` -/
def segPair (p i1 q j1 : Pt) : Bool :=
  let a := i1.R - p.R
  let b := j1.R - q.R
  let c := i1.Z - p.Z
  let d := j1.Z - q.Z
  let dr := j1.R - p.R
  let dz := j1.Z - p.Z
  let det := a * d - b * c
  if absq det < 1 / 1000000 then false
  else
    let alpha := (d * dr - b * dz) / det
    let beta := (a * dz - c * dr) / det
    decide (0 < alpha ∧ alpha < 1 ∧ 0 < beta ∧ beta < 1)

/-- segments of a polyline: closed → wraps to the first vertex; open → consecutive vertices only -/
def segs (poly : List Pt) (closed : Bool) : List (Pt × Pt) :=
  match poly with
  | [] => []
  | p :: _ => if closed then edges (poly ++ [p]) else edges poly

/-- `polygons.intersect(r1, z1, r2, z2, closed1, closed2)` -/
def polyIntersect (p1 : List Pt) (c1 : Bool) (p2 : List Pt) (c2 : Bool) : Bool :=
  (segs p1 c1).any fun s => (segs p2 c2).any fun t => segPair s.1 s.2 t.1 t.2

end Intersect
