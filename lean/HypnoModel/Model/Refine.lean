import HypnoModel.Gen.Pipeline
/-
C01 model (core Lean only), hand-written from hypnotoad/core/equilibrium.py (PsiContour.refinePointNewton, refinePoint, getRefined)
and hypnotoad/core/mesh.py (MeshRegion.fillRZ); the operation lists and the fillRZ slicing pattern come from Gen/Pipeline.lean, which is
regenerated from the source on every run.

* `newton`: the control flow of refinePointNewton over an abstract residual `f s = psi(p + s·tangent) − psival` and an abstract slope
  estimate `dfds`: entry test `|f 0| < atol·|psival|` (no refinement), then at most 12 Newton steps, accepted when `|f s| < atol`,
  abandoned (SolutionError) when the residual grows or after `count > 10`.
* `refinePoint`: methods tried in order, the first that does not raise SolutionError wins; `psival = None` returns the point unchanged.
* `getRefined`: tangents `p₁−p₀`, `p_{i+1}−p_{i−1}`, `p_{n−1}−p_{n−2}`; `skip_endpoints` restores the points at startInd/endInd.
* `run`: the effect of the generated operation list on the per-contour flag "every point was last written by a refinement".
* `fillRZ`: the odd/even sub-sampling of the contour matrix and the four X-point corner substitutions.
-/
namespace Refine

/-- |x| as the code's comparisons see it (numpy.abs / abs; −0.0 and NaN behave identically under `<`) -/
def absv {α : Type} [Neg α] [LT α] [Zero α] [DecidableLT α] (x : α) : α := if x < 0 then -x else x

section newton
variable {α : Type} [Add α] [Sub α] [Mul α] [Div α] [Neg α] [Zero α] [LT α] [DecidableLT α]

/-- the `while True` loop of refinePointNewton: `fuel` bounds the recursion (12 iterations are possible), `count` is the code's counter -/
def newtonLoop (f dfds : α → α) (atol : α) : Nat → Nat → α → α → Option α
  | 0, _, _, _ => none
  | fuel + 1, count, s, fprev =>
    let s' := s - fprev / dfds s
    let fnext := f s'
    if absv fnext < atol then some s'
    else if absv fprev < absv fnext ∨ 10 < count then none
    else newtonLoop f dfds atol fuel (count + 1) s' fnext

/-- refinePointNewton: `some s` = the returned point is `p + s·tangent`; `none` = SolutionError -/
def newton (f dfds : α → α) (atol psival : α) : Option α :=
  if absv (f 0) < atol * absv psival then some 0 else newtonLoop f dfds atol 13 0 0 (f 0)

end newton

inductive Method
  | newton | line | integrate | integrateNewton | noRefine
  deriving DecidableEq, Repr

/-- the table `available_methods` of refinePoint: "integrate+newton" is Newton applied to the result of the integration, "none" returns
the point unchanged -/
def runOf {P : Type} (newton line integrate : P → Option P) : Method → P → Option P
  | .newton, p => newton p
  | .line, p => line p
  | .integrate, p => integrate p
  | .integrateNewton, p => (integrate p).bind newton
  | .noRefine, p => some p

/-- refinePoint with the methods' outcomes abstract (`none` = SolutionError): first success wins; `none` = all methods failed -/
def refinePoint {P : Type} (hasPsival : Bool) (run : Method → P → Option P) (methods : List Method) (p : P) : Option P :=
  if !hasPsival then some p else methods.findSome? (fun m => run m p)

/-- the tangent handed to refinePoint for each point of a contour -/
def tangents {P : Type} [Sub P] : List P → List P
  | [] => []
  | [_] => []
  | p0 :: p1 :: rest =>
    let rec mid : P → P → List P → List P
      | a, b, [] => [b - a]
      | a, b, c :: r => (c - a) :: mid b c r
    (p1 - p0) :: mid p0 p1 rest

def pyIndex (n : Nat) (i : Int) : Nat := if i < 0 then (i + n).toNat else i.toNat

/-- getRefined: refine every point with its tangent (`none` if any point fails); skip_endpoints puts the old points back at
startInd / endInd (python indices, endInd may be negative) -/
def getRefined {P : Type} [Sub P] (refine : P → P → Option P) (pts : List P) (skip : Bool) (startInd endInd : Int) : Option (List P) :=
  match (pts.zip (tangents pts)).mapM (fun (p, t) => refine p t) with
  | none => none
  | some new =>
    if skip then
      let i := pyIndex pts.length startInd
      let j := pyIndex pts.length endInd
      let new := match pts[i]? with | some p => new.set i p | none => new
      some (match pts[j]? with | some p => new.set j p | none => new)
    else some new

/-! ### the operation list -/
open Gen.Pipeline in
/-- effect of one operation on "all points of all contours were last written by a refinement of the contour they are in".
Only a whole-contour refinement whose result is stored establishes it; every operation that writes a point destroys it;
a map whose result is discarded establishes nothing. -/
def stepFlag (flag : Bool) : Op → Bool
  | .clear => true
  | .build => false
  | .assignMap f => if f == "PsiContour.refine" ∨ f == "_refine_extend" then true else flag
  | .discardMap _ => flag
  | .replacePoint | .insertPoint | .appendPoint | .prependPoint | .regridNoRefine => false
  | .regridRefine | .refineOne => true

def runFlag (flag : Bool) (ops : List Gen.Pipeline.Op) : Bool := ops.foldl stepFlag flag

/-! ### fillRZ -/
def evens {β : Type} : List β → List β
  | [] => []
  | [a] => [a]
  | a :: _ :: r => a :: evens r

def odds {β : Type} : List β → List β
  | [] => []
  | [_] => []
  | _ :: b :: r => b :: odds r

def pick {β : Type} (parity : Nat) (l : List β) : List β := if parity = 1 then odds l else evens l

def sample {β : Type} (par : Nat × Nat) (cs : List (List β)) : List (List β) := (pick par.1 cs).map (pick par.2)

def set2 {β : Type} (m : List (List β)) (i j : Int) (v : β) : List (List β) :=
  let a := pyIndex m.length i
  match m[a]? with
  | none => m
  | some row => m.set a (row.set (pyIndex row.length j) v)

structure Arrays (β : Type) where
  centre : List (List β)
  xlow : List (List β)
  ylow : List (List β)
  corners : List (List β)

open Gen.Pipeline in
/-- fillRZ on the (2nx+1) × (2ny+1) matrix of contour points; the four optional X-points replace corner entries -/
def fillRZ {β : Type} (cs : List (List β)) (startInner startOuter endInner endOuter : Option β) : Arrays β :=
  let c0 := sample cornersParity cs
  let pin (m : List (List β)) (x : Option β) (ij : Int × Int) := match x with | some v => set2 m ij.1 ij.2 v | none => m
  let c1 := pin c0 startInner pin_startInner
  let c2 := pin c1 startOuter pin_startOuter
  let c3 := pin c2 endInner pin_endInner
  let c4 := pin c3 endOuter pin_endOuter
  { centre := sample centreParity cs, xlow := sample xlowParity cs, ylow := sample ylowParity cs, corners := c4 }

end Refine
