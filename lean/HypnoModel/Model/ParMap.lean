/-
C13 model (core Lean only): `hypnotoad.utils.parallel_map.ParallelMap.__call__` with `np > 1` as a labelled
transition system.  Tasks are indices 0..n-1; `f i` is the (deterministic) outcome of task i.
State: task queue (FIFO), in-flight tasks, result queue in arrival order, tasks lost with a dead worker,
number of idle live workers (worker identity is not observable by the caller).
`fixed = false` is a `worker_run` without a failure path (a raising task kills the worker, no result arrives);
`fixed = true` is the code after the fix: the exception is sent back tagged with its index.
The main thread's `put` phase is taken as atomic (sound: the `get` phase only counts arrivals).
-/
namespace ParMap


variable {β ε : Type}

structure St (β ε : Type) where
  queue    : List Nat                    -- task indices not yet taken (FIFO)
  inflight : List Nat                    -- taken, not finished
  results  : List (Nat × Except ε β)     -- result queue, arrival order
  lost     : List Nat                    -- tasks whose worker died (current code only)
  idle     : Nat                         -- idle live workers

inductive Step (f : Nat → Except ε β) (fixed : Bool) : St β ε → St β ε → Prop
  | take (i q fl rs lo k) :
      Step f fixed ⟨i :: q, fl, rs, lo, k+1⟩ ⟨q, i :: fl, rs, lo, k⟩
  | finishOk (i q fl1 fl2 rs lo k r) (h : f i = .ok r) :
      Step f fixed ⟨q, fl1 ++ i :: fl2, rs, lo, k⟩ ⟨q, fl1 ++ fl2, rs ++ [(i, .ok r)], lo, k+1⟩
  | finishErrFixed (i q fl1 fl2 rs lo k e) (h : f i = .error e) (hf : fixed = true) :
      Step f fixed ⟨q, fl1 ++ i :: fl2, rs, lo, k⟩ ⟨q, fl1 ++ fl2, rs ++ [(i, .error e)], lo, k+1⟩
  | die (i q fl1 fl2 rs lo k e) (h : f i = .error e) (hf : fixed = false) :
      Step f fixed ⟨q, fl1 ++ i :: fl2, rs, lo, k⟩ ⟨q, fl1 ++ fl2, rs, i :: lo, k⟩

inductive Reach (f : Nat → Except ε β) (fixed : Bool) (n w : Nat) : St β ε → Prop
  | init : Reach f fixed n w ⟨List.range n, [], [], [], w⟩
  | step {s t} : Reach f fixed n w s → Step f fixed s t → Reach f fixed n w t

/-- all task indices accounted for, each exactly once -/
def AllOnce (n : Nat) (s : St β ε) : Prop :=
  (s.queue ++ s.inflight ++ s.results.map (·.1) ++ s.lost).Perm (List.range n)

def Tagged (f : Nat → Except ε β) (s : St β ε) : Prop := ∀ p ∈ s.results, p.2 = f p.1

theorem step_inv {f : Nat → Except ε β} {fixed n} {s t : St β ε}
    (h : Step f fixed s t) (hi : AllOnce n s) : AllOnce n t := by
  unfold AllOnce at *
  cases h with
  | take i q fl rs lo k =>
    refine List.Perm.trans ?_ hi
    simp only [List.cons_append, List.append_assoc]
    exact List.perm_middle
  | finishOk i q fl1 fl2 rs lo k r h =>
    refine List.Perm.trans ?_ hi
    simp only [List.map_append, List.map_cons, List.map_nil, List.append_assoc, List.cons_append,
      List.nil_append]
    refine List.Perm.append_left q ?_
    refine List.Perm.append_left fl1 ?_
    -- fl2 ++ (rs.map fst ++ (i :: lo)) ~ i :: (fl2 ++ (rs.map fst ++ lo))
    have := @List.perm_middle _ i (fl2 ++ rs.map (·.1)) lo
    simpa [List.append_assoc] using this
  | finishErrFixed i q fl1 fl2 rs lo k e h hf =>
    refine List.Perm.trans ?_ hi
    simp only [List.map_append, List.map_cons, List.map_nil, List.append_assoc, List.cons_append,
      List.nil_append]
    refine List.Perm.append_left q ?_
    refine List.Perm.append_left fl1 ?_
    have := @List.perm_middle _ i (fl2 ++ rs.map (·.1)) lo
    simpa [List.append_assoc] using this
  | die i q fl1 fl2 rs lo k e h hf =>
    refine List.Perm.trans ?_ hi
    simp only [List.append_assoc, List.cons_append]
    refine List.Perm.append_left q ?_
    refine List.Perm.append_left fl1 ?_
    have := @List.perm_middle _ i (fl2 ++ rs.map (·.1)) lo
    simpa [List.append_assoc] using this

theorem step_tagged {f : Nat → Except ε β} {fixed} {s t : St β ε}
    (h : Step f fixed s t) (hi : Tagged f s) : Tagged f t := by
  unfold Tagged at *
  cases h <;> intro p hp <;> simp only [List.mem_append, List.mem_singleton] at hp
  · exact hi p hp
  · rcases hp with hp | rfl
    · exact hi p hp
    · simp [*]
  · rcases hp with hp | rfl
    · exact hi p hp
    · simp [*]
  · exact hi p hp

theorem reach_inv {f : Nat → Except ε β} {fixed n w} {s : St β ε}
    (h : Reach f fixed n w s) : AllOnce n s ∧ Tagged f s := by
  induction h with
  | init => exact ⟨by simp [AllOnce], by simp [Tagged]⟩
  | step _ hs ih => exact ⟨step_inv hs ih.1, step_tagged hs ih.2⟩

/-- progress measure: every step strictly decreases it, so every run has at most 2n steps -/
def mu (s : St β ε) : Nat := 2 * s.queue.length + s.inflight.length

theorem step_mu {f : Nat → Except ε β} {fixed} {s t : St β ε} (h : Step f fixed s t) :
    mu t + 1 = mu s := by
  cases h <;> simp [mu, List.length_append] <;> omega

/-- every reachable state has used at most 2n steps worth of measure: runs are finite -/
theorem mu_init (n w : Nat) : mu (β := β) (ε := ε) ⟨List.range n, [], [], [], w⟩ = 2 * n := by
  simp [mu]

/-- the main thread's re-assembly loop: result[i] := r for each arrival -/
def assemble (n : Nat) (rs : List (Nat × Except ε β)) : List (Option (Except ε β)) :=
  rs.foldl (fun acc p => acc.set p.1 (some p.2)) (List.replicate n none)

theorem assemble_getElem (n : Nat) (rs : List (Nat × Except ε β)) (g : Nat → Except ε β)
    (htag : ∀ p ∈ rs, p.2 = g p.1) (i : Nat) (hi : i < n) :
    (assemble n rs)[i]? = some (if i ∈ rs.map (·.1) then some (g i) else none) := by
  unfold assemble
  suffices H : ∀ (acc : List (Option (Except ε β))) (seen : List Nat), acc.length = n →
      acc[i]? = some (if i ∈ seen then some (g i) else none) →
      (rs.foldl (fun acc p => acc.set p.1 (some p.2)) acc)[i]?
        = some (if i ∈ seen ++ rs.map (·.1) then some (g i) else none) by
    simpa using H (List.replicate n none) [] (by simp) (by simp [hi])
  induction rs with
  | nil => intro acc seen _ h; simpa using h
  | cons p ps ih =>
    intro acc seen hlen h
    have htag' : ∀ q ∈ ps, q.2 = g q.1 := fun q hq => htag q (by simp [hq])
    have hp : p.2 = g p.1 := htag p (by simp)
    have := ih htag' (acc.set p.1 (some p.2)) (seen ++ [p.1]) (by simpa using hlen) (by
      by_cases hpi : p.1 = i
      · subst hpi; simp [hlen, hi, hp]
      · rw [List.getElem?_set_ne hpi, h]
        simp [hpi, Ne.symm hpi])
    have e : seen ++ [p.1] ++ List.map (·.1) ps = seen ++ List.map (·.1) (p :: ps) := by simp
    rw [e] at this
    simpa using this

/-- whatever the arrival order, once all n results are in, the assembled list is the serial map -/
theorem assemble_any_order {f : Nat → Except ε β} {fixed n w} {s : St β ε}
    (h : Reach f fixed n w s) (hall : s.results.length = n) (hq : s.queue = []) (hfl : s.inflight = [])
    (hlo : s.lost = []) (i : Nat) (hi : i < n) :
    (assemble n s.results)[i]? = some (some (f i)) := by
  obtain ⟨hinv, htag⟩ := reach_inv h
  have hmem : i ∈ s.results.map (·.1) := by
    have : (s.results.map (·.1)).Perm (List.range n) := by
      simpa [AllOnce, hq, hfl, hlo] using hinv
    exact this.mem_iff.mpr (List.mem_range.mpr hi)
  rw [assemble_getElem n s.results f htag i hi]
  simp [hmem]

/-- current code: a task that raises is never delivered, so the n-th `result_queue.get()` never returns -/
theorem blocks_forever_on_failure {f : Nat → Except ε β} {n w} {s : St β ε}
    (h : Reach f false n w s) (j : Nat) (hj : j < n) (e : ε) (hfail : f j = .error e) :
    s.results.length < n := by
  obtain ⟨hinv, htag⟩ := reach_inv h
  -- j is never among the results: a result for j would be tagged `f j = error`, but in the current
  -- code only `ok` outcomes are ever appended
  have hok : ∀ p ∈ s.results, ∃ r, p.2 = .ok r := by
    clear hinv htag
    induction h with
    | init => simp
    | step _ hs ih =>
      cases hs <;> intro p hp <;> simp only [List.mem_append, List.mem_singleton] at hp
      · exact ih p hp
      · rcases hp with hp | rfl
        · exact ih p hp
        · exact ⟨_, rfl⟩
      · simp at *
      · exact ih p hp
  have hnot : j ∉ s.results.map (·.1) := by
    intro hm
    obtain ⟨p, hp, rfl⟩ := List.mem_map.mp hm
    obtain ⟨r, hr⟩ := hok p hp
    have := htag p hp
    rw [hr, hfail] at this
    cases this
  have hperm := hinv
  unfold AllOnce at hperm
  have hlen := hperm.length_eq
  simp only [List.length_append, List.length_map, List.length_range] at hlen
  -- j is in range n, hence in one of queue / inflight / lost, so results are strictly fewer than n
  have hjmem : j ∈ s.queue ++ s.inflight ++ s.results.map (·.1) ++ s.lost :=
    hperm.mem_iff.mpr (List.mem_range.mpr hj)
  simp only [List.mem_append] at hjmem
  have : 0 < s.queue.length + s.inflight.length + s.lost.length := by
    rcases hjmem with ((hm | hm) | hm) | hm
    · have := List.length_pos_of_mem hm; omega
    · have := List.length_pos_of_mem hm; omega
    · exact absurd hm hnot
    · have := List.length_pos_of_mem hm; omega
  omega

/-- workers are conserved: idle + busy + dead = w -/
def Workers (w : Nat) (s : St β ε) : Prop := s.idle + s.inflight.length + s.lost.length = w

theorem reach_workers {f : Nat → Except ε β} {fixed n w} {s : St β ε}
    (h : Reach f fixed n w s) : Workers w s := by
  induction h with
  | init => simp [Workers]
  | step _ hs ih =>
    unfold Workers at *
    cases hs <;> simp only [List.length_append, List.length_cons] at * <;> omega

theorem reach_fixed_no_lost {f : Nat → Except ε β} {n w} {s : St β ε}
    (h : Reach f true n w s) : s.lost = [] := by
  induction h with
  | init => rfl
  | step _ hs ih => cases hs <;> simp_all

/-- with the fix (or when nothing fails) the system never deadlocks before all n results are in:
    together with `step_mu` every maximal run ends with exactly n results, for every schedule -/
theorem progress_fixed {f : Nat → Except ε β} {n w} {s : St β ε} (hw : 0 < w)
    (h : Reach f true n w s) (hlt : s.results.length < n) : ∃ t, Step f true s t := by
  obtain ⟨hinv, _⟩ := reach_inv h
  have hwk := reach_workers h
  have hlo := reach_fixed_no_lost h
  obtain ⟨q, fl, rs, lo, k⟩ := s
  simp only at hlo; subst hlo
  simp only [Workers, List.length_nil, Nat.add_zero] at hwk
  cases fl with
  | cons i fl =>
    -- some task is in flight: its worker can finish
    cases hfi : f i with
    | ok r => exact ⟨_, Step.finishOk i q [] fl rs [] k r hfi⟩
    | error e => exact ⟨_, Step.finishErrFixed i q [] fl rs [] k e hfi rfl⟩
  | nil =>
    simp only [List.length_nil, Nat.add_zero] at hwk
    cases q with
    | cons i q =>
      obtain ⟨k', rfl⟩ : ∃ k', k = k' + 1 := ⟨k - 1, by omega⟩
      exact ⟨_, Step.take i q [] rs [] k'⟩
    | nil =>
      exfalso
      have := hinv.length_eq
      simp [AllOnce] at this
      simp only at hlt
      omega

/-! ### the caller's view -/

/-- after all results are in: `for r in result: if failed(r): raise r.exception`, else return the list -/
def collect : List (Option (Except ε β)) → Option (Except ε (List β))
  | [] => some (.ok [])
  | none :: _ => none
  | some (.error e) :: _ => some (.error e)
  | some (.ok r) :: rest =>
    match collect rest with
    | none => none
    | some (.error e) => some (.error e)
    | some (.ok rs) => some (.ok (r :: rs))

/-- serial evaluation `[function(args) for args in args_list]`: the first failing index raises -/
def serial (f : Nat → Except ε β) : List Nat → Except ε (List β)
  | [] => .ok []
  | i :: is =>
    match f i with
    | .error e => .error e
    | .ok r =>
      match serial f is with
      | .error e => .error e
      | .ok rs => .ok (r :: rs)

/-- deterministic replay of an arrival order, for the correspondence check -/
def callerOutcome (n : Nat) (arrivals : List (Nat × Except ε β)) : Option (Except ε (List β)) :=
  if arrivals.length = n then collect (assemble n arrivals) else none

end ParMap
