/-
C06 / C12 model (core Lean only, generic number type), hand-written from hypnotoad/core/mesh.py:
* `MeshRegion.geometry1`: `dx` at the cell centres (`psi_vals[2i+2] - psi_vals[2i]`) and at the nx+1 x-faces (difference of psi between the
  neighbouring cell centres; with no neighbour on that side, twice the difference between the face and the adjacent centre);
* `MeshRegion.DDX`: second-order x-derivative at the centres (from the two x-faces of the cell) and at the x-faces (from the two
  neighbouring centres — the neighbour region's last/first centre across a region boundary, a one-sided half-cell difference at a
  boundary of the grid).
One radial line (fixed y) of one region: `psi` has 2·nx+1 entries (even = faces, odd = centres), `fc` the nx centre values of a field,
`fx` its nx+1 face values.
-/
namespace Stencil

variable {α : Type} [Add α] [Sub α] [Mul α] [Div α] [OfNat α 0] [OfNat α 2]

def evens : List α → List α
  | [] => []
  | [a] => [a]
  | a :: _ :: r => a :: evens r

def odds : List α → List α
  | [] => []
  | [_] => []
  | _ :: b :: r => b :: odds r

/-- consecutive differences l[i+1] - l[i] -/
def diffs : List α → List α
  | a :: b :: r => (b - a) :: diffs (b :: r)
  | _ => []

/-- dx at the nx cell centres: face to face -/
def dxCentre (psi : List α) : List α := diffs (evens psi)

/-- dx at the nx+1 x-faces. `inner` = psi at the last centre of the inner neighbour, `outer` = psi at the first centre of the outer
neighbour (`none` at a boundary of the grid) -/
def dxFaces (psi : List α) (inner outer : Option α) : List α :=
  let c := odds psi
  let first := match inner with
    | some pi => c.headD 0 - pi
    | none => 2 * (c.headD 0 - psi.headD 0)
  let last := match outer with
    | some po => po - c.getLastD 0
    | none => 2 * (psi.getLastD 0 - c.getLastD 0)
  first :: diffs c ++ [last]

def zipDiv : List α → List α → List α
  | a :: as, b :: bs => a / b :: zipDiv as bs
  | _, _ => []

/-- `DDX(f).centre`: (f.xlow[i+1] - f.xlow[i]) / dx.centre[i] -/
def ddxCentre (fx dxc : List α) : List α := zipDiv (diffs fx) dxc

/-- `DDX(f).xlow`. `fInner` = the field at the last centre of the inner neighbour, `fOuter` = at the first centre of the outer neighbour -/
def ddxXlow (fc fx dxf : List α) (fInner fOuter : Option α) : List α :=
  let first := match fInner with
    | some v => (fc.headD 0 - v) / dxf.headD 0
    | none => (fc.headD 0 - fx.headD 0) / (dxf.headD 0 / 2)
  let last := match fOuter with
    | some v => (v - fc.getLastD 0) / dxf.getLastD 0
    | none => (fx.getLastD 0 - fc.getLastD 0) / (dxf.getLastD 0 / 2)
  let mid := zipDiv (diffs fc) ((dxf.drop 1).dropLast)
  first :: mid ++ [last]

end Stencil
