/-
C03 model (core Lean only, generic in the number type so that the same definitions run over Float in the driver and are reasoned
about over ℝ in Props/C03.lean):
* `bpDecision`: the sign logic at the end of `MeshRegion.geometry1` — Bpxy is negated iff Bp·(Δr along increasing y) < 0, and the
  result must agree with `bpsign` (the direction of psi_vals), otherwise ValueError;
* `reflect`: the argument at which a divertor-leg region evaluates the pressure profile,
  `leg_psi + sign*abs(psi - leg_psi)` (TokamakEquilibrium.createRegionObjects);
* `extrap`: the exponential continuation of the pressure beyond the last profile point (TokamakEquilibrium.__init__,
  extrapolate_profiles), written in terms of the distance from that point.
-/
namespace Profiles

inductive Dec
  | ok (s : Int)
  | raise
  deriving DecidableEq, Repr

def bpDecision {α : Type} [LT α] [OfNat α 0] [DecidableRel (α := α) (· < ·)] (dot bpsign : α) : Dec :=
  if dot < 0 then (if 0 < bpsign then .raise else .ok (-1))
  else (if bpsign < 0 then .raise else .ok 1)

def reflect {α : Type} [Add α] [Sub α] [Mul α] (abs : α → α) (leg sign psi : α) : α :=
  leg + sign * abs (psi - leg)

/-- p0 * exp((psi - psi0) * dpdpsi / p0) -/
def extrap {α : Type} [Sub α] [Mul α] [Div α] (exp : α → α) (p0 dpdpsi psi0 psi : α) : α :=
  p0 * exp ((psi - psi0) * dpdpsi / p0)

end Profiles
