/-
C17 model, part 2 (core Lean only): the g-eqdsk writer (`_geqdsk.write`, `ChunkOutput`, `write_1d`,
`write_2d`, `f2s`) and reader (`_geqdsk.read`, `next_value`) as executable functions on character lists.

Values are *decimal strings*: a float that is written is represented by the ten significant digits
`"%1.9E"` produces for it (`D10`); a value that is read is represented by the canonical text handed to
`float()` / the integer handed to `int()`.  The step float ↔ D10 is CPython's formatting and is part of
the trusted base; it is exercised by the correspondence check on every run.
-/
import HypnoModel.Model.Scan

namespace Geqdsk

/-! ### decimal integers (`str(n)`, `"{:4d}"`, `int(s)`) -/

def digitChar (d : Nat) : Char := Char.ofNat (48 + d)

def natDigits (n : Nat) : List Char :=
  if n < 10 then [digitChar n] else natDigits (n / 10) ++ [digitChar (n % 10)]

def digitsVal (ds : List Char) : Nat := ds.foldl (fun a c => 10 * a + (c.toNat - 48)) 0

/-- `"{:wd}".format(n)` for n ≥ 0: right aligned in a field of width w, never truncated -/
def padInt (w n : Nat) : Nat × List Char := (w - (natDigits n).length, natDigits n)

/-! ### floats as the format shows them -/

inductive Sgn | pos | neg | negzero
  deriving DecidableEq, Repr

/-- the characters of `"%1.9E" % f` split into fields -/
structure D10 where
  sgn : Sgn
  d0 : Char
  frac : List Char
  es : Char
  e1 : Char
  e2 : Char
  deriving DecidableEq, Repr

def D10.WF (v : D10) : Prop :=
  isD v.d0 = true ∧ (∀ c ∈ v.frac, isD c = true) ∧ v.frac ≠ [] ∧ (v.es = '+' ∨ v.es = '-') ∧
  isD v.e1 = true ∧ isD v.e2 = true

instance (v : D10) : Decidable v.WF := by unfold D10.WF; exact inferInstance

/-- `f2s(0.0)` -/
def D10.zero : D10 := ⟨.pos, '0', "000000000".toList, '+', '0', '0'⟩

/-- `f2s`:  `" "` is prepended when `f >= 0.0`, which is also true of `-0.0` -/
def f2s (v : D10) : Tok :=
  .flt (match v.sgn with | .pos => [' '] | .neg => ['-'] | .negzero => [' ', '-']) v.d0 v.frac v.es v.e1 v.e2

/-- the text `float()` receives when the value is read back (leading blank stripped) -/
def D10.canon (v : D10) : List Char :=
  (match v.sgn with | .pos => [] | _ => ['-']) ++ v.d0 :: '.' :: (v.frac ++ ['E', v.es, v.e1, v.e2])

/-- what `next_value` yields -/
inductive Val
  | flt (canon : List Char)
  | int (neg : Bool) (n : Nat)
  deriving DecidableEq, Repr

def stripBlank : List Char → List Char
  | ' ' :: r => r
  | m => m

/-- `int(match)` on a string of digits with an optional sign -/
def intOf : List Char → Val
  | '-' :: ds => .int true (digitsVal ds)
  | '+' :: ds => .int false (digitsVal ds)
  | ds => .int false (digitsVal ds)

/-- `float(match) if "." in match else int(match)` -/
def classify (m : List Char) : Val :=
  if m.contains '.' then .flt (stripBlank m) else intOf (stripBlank m)

/-! ### ChunkOutput and the writer -/

inductive Op
  | w (t : Tok)            -- `co.write(value)`
  | nl                     -- `co.newline()`
  | raw (ts : List Tok)    -- `fh.write(tok ++ tok ++ … ++ "\n")`, bypassing the chunk counter

def strs : List Tok → List Char
  | [] => []
  | t :: ts => t.str ++ strs ts

/-- the characters produced by a sequence of operations on a `ChunkOutput(chunksize=5)` whose counter is `c` -/
def emit : Nat → List Op → List Char
  | _, [] => []
  | c, .w t :: ops => t.str ++ (if c + 1 = 5 then '\n' :: emit 0 ops else emit (c + 1) ops)
  | c, .nl :: ops => if c ≠ 0 then '\n' :: emit 0 ops else emit 0 ops
  | c, .raw ts :: ops => strs ts ++ '\n' :: emit c ops

def opToks : List Op → List Tok
  | [] => []
  | .w t :: ops => t :: opToks ops
  | .nl :: ops => opToks ops
  | .raw ts :: ops => ts ++ opToks ops

structure Scalars (α : Type) where
  rdim : α
  zdim : α
  rcentr : α
  rleft : α
  zmid : α
  rmagx : α
  zmagx : α
  simagx : α
  sibdry : α
  bcentr : α
  cpasma : α
  deriving DecidableEq, Repr

structure Data (α : Type) where
  nx : Nat
  ny : Nat
  sc : Scalars α
  fpol : List α
  pres : List α
  ffprime : Option (List α)
  pprime : Option (List α)
  psi : Nat → Nat → α
  qpsi : List α
  rbdry : Option (List α)
  zbdry : List α
  rlim : Option (List α)
  zlim : List α

def write1d (l : List D10) : List Op := l.map (fun v => Op.w (f2s v)) ++ [Op.nl]

/-- `write_2d`: y is the outer loop, x the inner one -/
def flat2d (nx ny : Nat) (psi : Nat → Nat → α) : List α :=
  (List.range ny).flatMap (fun y => (List.range nx).map (fun x => psi x y))

def interleave : List α → List α → List α
  | r :: rs, z :: zs => r :: z :: interleave rs zs
  | _, _ => []

/-- `"{0:5d}"` -/
def countTok (n : Nat) : Tok := .int (padInt 5 n).1 (padInt 5 n).2

/-- `" {1:4d}"`: an explicit blank, then right aligned in 4 (likewise `" {:3d}"` in the first line) -/
def sepTok (w n : Nat) : Tok := .int (1 + (padInt w n).1) (padInt w n).2

def pairsOps (r z : List D10) : List Op :=
  if r.length > 0 then (interleave r z).map (fun v => Op.w (f2s v)) ++ [Op.nl] else []

/-- everything `write` emits after the first line -/
def bodyOps (d : Data D10) : List Op :=
  let s := d.sc
  let z := D10.zero
  let workk := List.replicate d.nx D10.zero
  [ Op.raw ([s.rdim, s.zdim, s.rcentr, s.rleft, s.zmid].map f2s),
    Op.raw ([s.rmagx, s.zmagx, s.simagx, s.sibdry, s.bcentr].map f2s),
    Op.raw ([s.cpasma, s.simagx, z, s.rmagx, z].map f2s),
    Op.raw ([s.zmagx, z, s.sibdry, z, z].map f2s) ]
  ++ write1d d.fpol ++ write1d d.pres
  ++ write1d (d.ffprime.getD workk) ++ write1d (d.pprime.getD workk)
  ++ write1d (flat2d d.nx d.ny d.psi)
  ++ write1d d.qpsi
  ++ [Op.nl, Op.raw [countTok ((d.rbdry.getD []).length), sepTok 4 ((d.rlim.getD []).length)]]
  ++ pairsOps (d.rbdry.getD []) d.zbdry
  ++ pairsOps (d.rlim.getD []) d.zlim

/-- first line: free text (label, date, shot, time) followed by `{:4d} {:3d} {:3d}` of idum=3, nx, ny -/
def headerLine (pre : List Char) (nx ny : Nat) : List Char :=
  pre ++ (Tok.int (padInt 4 3).1 (padInt 4 3).2).str ++ (sepTok 3 nx).str ++ (sepTok 3 ny).str

def writeBody (d : Data D10) : List Char := emit 0 (bodyOps d)

def write (pre : List Char) (d : Data D10) : List Char := headerLine pre d.nx d.ny ++ '\n' :: writeBody d

/-! ### the reader -/

/-- python `str.split()` separators that can occur in the ASCII range -/
def isWs (c : Char) : Bool :=
  c = ' ' || c = '\n' || c = '\t' || c = '\r' || c = '\x0b' || c = '\x0c' ||
  c = '\x1c' || c = '\x1d' || c = '\x1e' || c = '\x1f'

def splitGo (cur : List Char) : List Char → List (List Char)
  | [] => if cur = [] then [] else [cur.reverse]
  | c :: cs =>
    if isWs c then (if cur = [] then splitGo [] cs else cur.reverse :: splitGo [] cs)
    else splitGo (c :: cur) cs

/-- `line.split()` -/
def splitWords (s : List Char) : List (List Char) := splitGo [] s

/-- `int(word)` for the words of the first line: digits only (a sign is accepted by Python too, not needed here) -/
def wordNat (w : List Char) : Option Nat :=
  if w ≠ [] ∧ w.all isD then some (digitsVal w) else none

inductive Err | header | eof | type
  deriving DecidableEq, Repr

/-- `words[-3], words[-2], words[-1]` -/
def readHeader (line : List Char) : Except Err (Nat × Nat) :=
  match (splitWords line).reverse with
  | c :: b :: a :: _ =>
    match wordNat a, wordNat b, wordNat c with
    | some _, some nx, some ny => .ok (nx, ny)
    | _, _, _ => .error .header
  | _ => .error .header

def takeN (n : Nat) (vs : List Val) : Except Err (List Val × List Val) :=
  if n ≤ vs.length then .ok (vs.take n, vs.drop n) else .error .eof

def unInterleave : List α → List α × List α
  | r :: z :: rest => let (rs, zs) := unInterleave rest; (r :: rs, z :: zs)
  | _ => ([], [])

def readCount (vs : List Val) : Except Err (Nat × List Val) :=
  match vs with
  | .int false n :: rest => .ok (n, rest)
  | .int true _ :: rest => .ok (0, rest)     -- `nbdry > 0` is false: nothing is read
  | .flt _ :: _ => .error .type              -- `zeros(1.0)` raises TypeError
  | [] => .error .eof

/-- split a line-structured text into the first line and the rest -/
def splitLine : List Char → List Char × List Char
  | [] => ([], [])
  | c :: r => if c = '\n' then ([], r) else (c :: (splitLine r).1, (splitLine r).2)

theorem splitLine_snd_length (t : List Char) : (splitLine t).2.length ≤ t.length := by
  induction t with
  | nil => simp [splitLine]
  | cons a t ih =>
    by_cases h : a = '\n'
    · simp [splitLine, h]
    · simp only [splitLine, h, if_false, List.length_cons]; omega

theorem splitLine_snd_lt (c : Char) (cs : List Char) : (splitLine (c :: cs)).2.length < (c :: cs).length := by
  have := splitLine_snd_length cs
  by_cases h : c = '\n'
  · simp [splitLine, h]
  · simp only [splitLine, h, if_false, List.length_cons]; omega

/-- all lines after the first: `findall` on each line -/
def scanLines (s : List Char) : List (List Char) :=
  match hs : s with
  | [] => []
  | c :: cs =>
    findall (splitLine (c :: cs)).1 ++ scanLines (splitLine (c :: cs)).2
termination_by s.length
decreasing_by
  exact splitLine_snd_lt c cs

structure ReadData where
  nx : Nat
  ny : Nat
  sc : Scalars Val
  fpol : List Val
  pres : List Val
  ffprime : List Val
  pprime : List Val
  psiFlat : List Val
  qpsi : List Val
  rbdry : List Val
  zbdry : List Val
  rlim : List Val
  zlim : List Val
  deriving DecidableEq, Repr

/-- `data["psi"][x, y]` after `read_2d(nx, ny)` -/
def ReadData.psi (r : ReadData) (x y : Nat) : Option Val := r.psiFlat[y * r.nx + x]?

def readVals (nx ny : Nat) (vs : List Val) : Except Err ReadData := do
  let (h, vs) ← takeN 20 vs
  match h with
  | [rdim, zdim, rcentr, rleft, zmid, _rmagx, _zmagx, _simagx, _sibdry, bcentr,
     cpasma, simagx, _, rmagx, _, zmagx, _, sibdry, _, _] =>
    let (fpol, vs) ← takeN nx vs
    let (pres, vs) ← takeN nx vs
    let (ffprime, vs) ← takeN nx vs
    let (pprime, vs) ← takeN nx vs
    let (psiFlat, vs) ← takeN (nx * ny) vs
    let (qpsi, vs) ← takeN nx vs
    let (nbdry, vs) ← readCount vs
    let (nlim, vs) ← readCount vs
    let (b, vs) ← takeN (2 * nbdry) vs
    let (l, _) ← takeN (2 * nlim) vs
    .ok { nx := nx, ny := ny,
          sc := ⟨rdim, zdim, rcentr, rleft, zmid, rmagx, zmagx, simagx, sibdry, bcentr, cpasma⟩,
          fpol := fpol, pres := pres, ffprime := ffprime, pprime := pprime, psiFlat := psiFlat,
          qpsi := qpsi, rbdry := (unInterleave b).1, zbdry := (unInterleave b).2,
          rlim := (unInterleave l).1, zlim := (unInterleave l).2 }
  | _ => .error .eof

/-- `_geqdsk.read` on the whole text -/
def read (text : List Char) : Except Err ReadData :=
  let p := splitLine text
  match readHeader p.1 with
  | .ok (nx, ny) => readVals nx ny ((scanLines p.2).map classify)
  | .error e => .error e

end Geqdsk
