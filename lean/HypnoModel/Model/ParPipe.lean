import HypnoModel.Gen.ParMapQ
/-!
# `ParallelMap.__call__` with the channels made explicit  (C13)

`Model/ParMap.lean` takes the main thread's put phase as atomic.  That is sound only if `put` never blocks.  Here the two channels have a
capacity: `none` = unbounded (`multiprocessing.Queue`: a feeder thread takes the object, `put` returns at once), `some c` = at most `c`
objects in flight (`multiprocessing.SimpleQueue`: a synchronous write into an OS pipe).  The main thread puts ALL tasks, then gets ALL results
(`Gen.ParMapQ.callPhases`, read from the source); a worker takes a task, computes, and puts the result before it takes the next task.

Tasks are the indices `0 … n-1`; only the bookkeeping matters here (values are treated in `Model/ParMap.lean`).
-/
namespace ParPipe

/-- capacity of a channel made with the given constructor; `pipe` = the number of objects an OS pipe buffer holds -/
def capOf (pipe : Nat) (ctor : String) : Option Nat :=
  if ctor = "multiprocessing.Queue" then none else some pipe

def hasRoom (cap : Option Nat) (len : Nat) : Bool :=
  match cap with
  | none => true
  | some c => decide (len < c)

structure St where
  toPut   : List Nat          -- tasks the main thread has not put yet (it is still in the put phase iff this is non-empty)
  taskCh  : List Nat          -- task channel, FIFO
  busy    : List Nat          -- one entry per worker that holds a finished result it has not been able to put yet (or is computing)
  idle    : Nat               -- workers waiting for a task
  resCh   : List Nat          -- result channel, FIFO
  got     : List Nat          -- results the main thread has read
  deriving DecidableEq, Repr

inductive Step (capT capR : Option Nat) : St → St → Prop
  | mainPut (i rest tc b k rc g) (h : hasRoom capT tc.length = true) :
      Step capT capR ⟨i :: rest, tc, b, k, rc, g⟩ ⟨rest, tc ++ [i], b, k, rc, g⟩
  | workerTake (tp i tc b k rc g) :
      Step capT capR ⟨tp, i :: tc, b, k + 1, rc, g⟩ ⟨tp, tc, i :: b, k, rc, g⟩
  | workerPut (tp tc b1 i b2 k rc g) (h : hasRoom capR rc.length = true) :
      Step capT capR ⟨tp, tc, b1 ++ i :: b2, k, rc, g⟩ ⟨tp, tc, b1 ++ b2, k + 1, rc ++ [i], g⟩
  | mainGet (tc b k i rc g) :                      -- only once every task has been put
      Step capT capR ⟨[], tc, b, k, i :: rc, g⟩ ⟨[], tc, b, k, rc, g ++ [i]⟩

inductive Reach (capT capR : Option Nat) (n w : Nat) : St → Prop
  | init : Reach capT capR n w ⟨List.range n, [], [], w, [], []⟩
  | step {s t} : Reach capT capR n w s → Step capT capR s t → Reach capT capR n w t

/-- no transition is enabled -/
def Stuck (capT capR : Option Nat) (s : St) : Prop := ∀ t, ¬ Step capT capR s t

/-- the call has returned: every result has been read -/
def Done (n : Nat) (s : St) : Prop := s.got.length = n

end ParPipe
