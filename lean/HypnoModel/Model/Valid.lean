import HypnoModel.Model.Topology
/-
C12 model (core Lean only), hand-written from hypnotoad/core/mesh.py `BoutMesh.writeGridfile` (the NaN mask applied to `chi`, lines
"set to NaN in divertor leg regions"), `BoutMesh.__init__` (`dy_scalar`), hypnotoad/scripts/hypnotoad_geqdsk.py (rejection of unused
options) and the documented NaN sets of doc/grid-file.rst.

* `chiLegMask t myg j`: the y-indices (in the file's indexing, boundary cells included) that writeGridfile sets to NaN in `chi`;
* `closedSurface t x`: the radial indices with closed flux surfaces (where ShiftAngle / total_poloidal_distance are defined);
* `chiDefined t myg x j`: where `chi` must be finite: closed surface and not masked;
* `Summary` / `verdict`: the validity predicate on what is read back from a grid file;
* `cliAccepts`: the scripts accept an input file iff every key is an option of one of the three factories.
-/
namespace Valid
open Topology

/-- y-index (file indexing, with `myg` boundary cells at every target) set to NaN in chi -/
def chiLegMask (t : Topo) (myg : Int) (j : Int) : Bool :=
  if j < t.jyseps1_1 + myg + 1 then true
  else if t.jyseps2_1 ≠ t.jyseps1_2 then
    (decide (t.jyseps2_1 + myg + 1 ≤ j ∧ j < t.jyseps1_2 + 3 * myg + 1)) || decide (t.jyseps2_2 + 3 * myg + 1 ≤ j)
  else decide (t.jyseps2_2 + myg + 1 ≤ j)

/-- radial indices inside both separatrices -/
def closedSurface (t : Topo) (x : Int) : Bool := decide (0 ≤ x ∧ x < min t.ixseps1 t.ixseps2)

def chiDefined (t : Topo) (myg x j : Int) : Bool := closedSurface t x && !chiLegMask t myg j

/-- number of boundary cells that precede file index j's region (0, 2·myg after the inner upper target) is handled by the mask
formulas above; this is the inverse view: the BOUT++ y-index (no boundary cells) of a file index in the core -/
def coreBoutIndex (t : Topo) (myg j : Int) : Int :=
  if t.jyseps2_1 ≠ t.jyseps1_2 ∧ t.jyseps1_2 + 3 * myg + 1 ≤ j then j - 3 * myg else j - myg

structure Summary where
  missing : Nat          -- documented variables that are absent
  badShape : Nat         -- variables with a shape other than (nx, ny)
  nonfiniteOutside : Nat -- non-finite values outside the documented NaN sets
  nonpositive : Nat      -- entries of hy, dy that are ≤ 0
  zeroDx : Nat           -- entries of dx that are 0
  folded : Nat           -- cells whose corner quadrilateral has the opposite orientation
  deriving DecidableEq, Repr

def verdict (s : Summary) : Bool :=
  s.missing == 0 && s.badShape == 0 && s.nonfiniteOutside == 0 && s.nonpositive == 0 && s.zeroDx == 0 && s.folded == 0

/-- the command-line scripts: `unused_options = [opt for opt in options if opt not in possible_options]`, error iff non-empty -/
def cliAccepts (eqKeys nonorthKeys meshKeys : List String) (given : List String) : Bool :=
  given.all fun k => eqKeys.contains k || nonorthKeys.contains k || meshKeys.contains k

end Valid
