/-
C14 model (core Lean only): the part of `optionsfactory` semantics hypnotoad relies on, and the embedding of the evaluated option set
in the grid file.
* a factory is a list of (key, default); a default is either a constant or an expression of the other options
  (`fun get => value`, where `get k` is the evaluated value of option `k`, itself possibly a default expression: optionsfactory evaluates
  expression defaults lazily and recursively, and hypnotoad chains them up to three deep, e.g.
  `nonorthogonal_xpoint_poloidal_spacing_range_inner → …_range → …_length`);
* `evalKey F s fuel k`: an explicit setting wins, otherwise the default; `none` for a key the factory does not know, for an expression
  that fails, or when the fuel runs out (a dependency cycle — a RecursionError in Python);
* `create F s`: every key of the factory evaluated (fuel = number of entries + 1, enough for every acyclic factory); keys the factory does
  not know are dropped; `none` if any key fails;
* `embed a b c`: `dict(a); update(b); update(c)` — what BoutMesh.writeGridfile dumps as `hypnotoad_inputs_yaml`;
* reload: what the command-line entry point does with that YAML: `create factory embedded`.
-/
namespace Options

abbrev Dict (V : Type) := List (String × V)

def lookup {V : Type} (d : Dict V) (k : String) : Option V := (d.find? (fun p => p.1 == k)).map (·.2)

inductive Default (V : Type)
  | const (v : V)
  | expr (f : (String → Option V) → Option V)

structure Factory (V : Type) where
  entries : List (String × Default V)

def evalKey {V : Type} (F : Factory V) (s : Dict V) : Nat → String → Option V
  | 0, _ => none
  | fuel + 1, k =>
    match lookup F.entries k with
    | none => none
    | some d =>
      match lookup s k with
      | some v => some v
      | none =>
        match d with
        | .const v => some v
        | .expr f => f (evalKey F s fuel)

def create {V : Type} (F : Factory V) (s : Dict V) : Option (Dict V) :=
  F.entries.mapM fun (k, _) => (evalKey F s (F.entries.length + 1) k).map fun v => (k, v)

def keys {α : Type} (d : List (String × α)) : List String := d.map (·.1)

/-- `a.update(b)`: entries of b override, new keys are appended -/
def update {V : Type} (a b : Dict V) : Dict V :=
  a.map (fun (k, v) => (k, (lookup b k).getD v)) ++ b.filter (fun (k, _) => (lookup a k).isNone)

def embed {V : Type} (a b c : Dict V) : Dict V := update (update a b) c

end Options
