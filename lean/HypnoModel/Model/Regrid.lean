/-
C15 model (core Lean only), hand-written from hypnotoad/core/mesh.py (Mesh.__init__/makeRegions, Mesh.redistributePoints,
MeshRegion.distributePointsNonorthogonal) and hypnotoad/core/equilibrium.py (Equilibrium.resetNonorthogonalOptions).

A non-orthogonal mesh keeps, from the moment its regions are created,
* the skeleton: the distribution of points along the separatrices and the 'orthogonal' spacing functions (sfunc_orthogonal_list) derived
  from the perpendicular lines through them — these depend on `nonorthogonal_spacing_method` only (of the non-orthogonal settings);
* the recorded non-orthogonal options of the Equilibrium (what is written to the grid file) and the options each region works with;
* the points, placed on the FineContours by a function of (skeleton, region options).
`redistribute` is Mesh.redistributePoints: record the new options, hand them to every region and place the points again — re-creating the
regions when the spacing method differs from the recorded one. `place` is abstract: that the real placement is a function of the skeleton and the
settings alone (no dependence on the previous point positions through cached FineContours) is the numerical claim the correspondence check
exercises on real grids.
-/
namespace Regrid

structure Settings (N : Type) where
  method : Nat          -- nonorthogonal_spacing_method (index into the allowed values)
  numeric : N           -- all other nonorthogonal_* values, after defaults have been filled in
  deriving DecidableEq, Repr

structure Mesh (N S P : Type) where
  skeleton : S
  recorded : Settings N      -- Equilibrium.nonorthogonal_options
  region : Settings N        -- EquilibriumRegion.nonorthogonal_options of every region
  pts : P

variable {N S P : Type}

/-- Mesh(equilibrium, settings): regions created with the settings, then distributePointsNonorthogonal() -/
def build (skel : Nat → S) (place : S → Settings N → P) (s : Settings N) : Mesh N S P :=
  { skeleton := skel s.method, recorded := s, region := s, pts := place (skel s.method) s }

/-- Mesh.redistributePoints(settings) -/
def redistribute (skel : Nat → S) (place : S → Settings N → P) (m : Mesh N S P) (s : Settings N) : Mesh N S P :=
  if s.method ≠ m.recorded.method then build skel place s
  else { m with recorded := s, region := s, pts := place m.skeleton s }

/-- the regression this guards against: the regions keep their previous options when the new settings dict is empty -/
def redistributeStale (skel : Nat → S) (place : S → Settings N → P) (isEmpty : Settings N → Bool) (m : Mesh N S P) (s : Settings N) : Mesh N S P :=
  if isEmpty s then { m with recorded := s, pts := place m.skeleton m.region }
  else redistribute skel place m s

/-- redistributePoints without the re-creation of the regions on a method change (the behaviour before the fix) -/
def redistributeNoRebuild (place : S → Settings N → P) (m : Mesh N S P) (s : Settings N) : Mesh N S P :=
  { m with recorded := s, region := s, pts := place m.skeleton s }

end Regrid
