/-
C15 model (core Lean only), hand-written from hypnotoad/core/mesh.py (Mesh.__init__/makeRegions, Mesh.redistributePoints,
MeshRegion.distributePointsNonorthogonal) and hypnotoad/core/equilibrium.py (Equilibrium.resetNonorthogonalOptions).

A non-orthogonal mesh keeps, from the moment its regions are created,
* the skeleton: the distribution of points along the separatrices and the 'orthogonal' spacing functions (sfunc_orthogonal_list) derived
  from the perpendicular lines through them — these depend on the non-orthogonal settings (the spacing method and, for some methods,
  the spacing lengths);
* the recorded non-orthogonal options of the Equilibrium (what is written to the grid file) and the options each region works with;
* the points, placed on the FineContours by a function of (skeleton, region options).
`redistribute` is Mesh.redistributePoints as it is now: record the new options; if they equal the previous ones do nothing, otherwise
re-create the regions (makeRegions). `place` and `skel` are abstract: that the real construction is a function of the settings alone is the
numerical claim the correspondence check exercises on real grids.

The two variants below are the behaviours that existed before the repairs and are kept as named regressions:
`redistributeRegrid` never re-creates the regions (positions are re-placed on the old skeleton), `redistributeStale` additionally leaves the
regions' options untouched when the new settings dict is empty.
-/
namespace Regrid

structure Settings (N : Type) where
  method : Nat          -- nonorthogonal_spacing_method (index into the allowed values)
  numeric : N           -- all other nonorthogonal_* values, after defaults have been filled in
  deriving DecidableEq, Repr

structure Mesh (N S P : Type) where
  skeleton : S
  recorded : Settings N      -- Equilibrium.nonorthogonal_options
  region : Settings N        -- EquilibriumRegion.nonorthogonal_options of every region
  pts : P

variable {N S P : Type}

/-- Mesh(equilibrium, settings): regions created with the settings, then distributePointsNonorthogonal() -/
def build (skel : Settings N → S) (place : S → Settings N → P) (s : Settings N) : Mesh N S P :=
  { skeleton := skel s, recorded := s, region := s, pts := place (skel s) s }

/-- Mesh.redistributePoints(settings) -/
def redistribute [DecidableEq N] (skel : Settings N → S) (place : S → Settings N → P) (m : Mesh N S P) (s : Settings N) : Mesh N S P :=
  if s = m.recorded then m else build skel place s

/-- regression: re-grid on the skeleton of the first build, never re-create the regions -/
def redistributeRegrid (place : S → Settings N → P) (m : Mesh N S P) (s : Settings N) : Mesh N S P :=
  { m with recorded := s, region := s, pts := place m.skeleton s }

/-- regression: as above, and the regions keep their previous options when the new settings dict is empty -/
def redistributeStale (place : S → Settings N → P) (isEmpty : Settings N → Bool) (m : Mesh N S P) (s : Settings N) : Mesh N S P :=
  if isEmpty s then { m with recorded := s, pts := place m.skeleton m.region }
  else redistributeRegrid place m s

end Regrid
