import HypnoModel.Gen.Pipeline
/-
C04 model (core Lean only), hand-written from hypnotoad/core/mesh.py (followPerpendicular, MeshRegion.__init__).
The integrator is a parameter: `flow ψ` is the point reached from the skeleton point p₀ (where ψ = ψ₀) by integrating
dr/dψ = ∇ψ/|∇ψ|² to the value ψ; the base case of followPerpendicular evaluates it at the requested values in the order given
(scipy's solve_ivp with t_eval).

followPerpendicular's three cases, in the order the code tests them:
1. ψ₀ strictly inside the range of the requested values: partition into `left`/`right` (by `< ψ₀` / `≥ ψ₀`, which half is which depends on
   `psivals[0] < ψ₀`), follow `left` reversed and reverse the result, follow `right`, concatenate;
2. the last requested value is nearer to ψ₀ than the first: follow the reversed list and reverse the result;
3. otherwise integrate.
-/
namespace Perp

section follow
variable {α : Type} [LT α] [DecidableLT α] [LE α] [DecidableLE α] [Sub α] [Neg α] [Zero α] {P : Type}

def absv (x : α) : α := if x < 0 then -x else x

/-- case 3 -/
def followBase (flow : α → P) (psivals : List α) : List P := psivals.map flow

/-- cases 2/3 (the recursive call of case 2 can only reach case 3: its list is the reverse, so the case-1 test is unchanged and the
case-2 test is now false or a tie) -/
def followRev (flow : α → P) (psi0 : α) (psivals : List α) : List P :=
  match psivals.head?, psivals.getLast? with
  | some a, some b =>
    if absv (b - psi0) < absv (a - psi0) then (followBase flow psivals.reverse).reverse else followBase flow psivals
  | _, _ => []

def lmin (l : List α) : Option α := l.foldl (fun m x => match m with | none => some x | some y => if x < y then some x else some y) none
def lmax (l : List α) : Option α := l.foldl (fun m x => match m with | none => some x | some y => if y < x then some x else some y) none

/-- followPerpendicular -/
def follow (flow : α → P) (psi0 : α) (psivals : List α) : List P :=
  match lmin psivals, lmax psivals, psivals.head? with
  | some lo, some hi, some first =>
    if lo < psi0 ∧ psi0 < hi then
      let lt := psivals.filter (fun x => decide (x < psi0))
      let ge := psivals.filter (fun x => decide (psi0 ≤ x))
      let left := if first < psi0 then lt else ge
      let right := if first < psi0 then ge else lt
      (followRev flow psi0 left.reverse).reverse ++ followRev flow psi0 right
    else followRev flow psi0 psivals
  | _, _, _ => []

end follow

/-- MeshRegion.__init__: every skeleton point's line is followed through `temp_psi_vals`, reversed back for regions inside the
separatrix, and the lines are transposed into contours: `contours[i].points[j] = lines[j][i]`, `contours[i].psival = psi_vals[i]`.
`flows j` is the integrator from skeleton point j, `psi0s j` the value of ψ there. -/
def assemble {α P : Type} [LT α] [DecidableLT α] [LE α] [DecidableLE α] [Sub α] [Neg α] [Zero α]
    (flows : Nat → α → P) (psi0s : Nat → α) (nskel : Nat) (psiVals : List α) (radialIndex sepIndex : Nat) : List (List P) :=
  let temp := if Gen.Pipeline.reverseBefore radialIndex sepIndex then psiVals.reverse else psiVals
  let lines := (List.range nskel).map fun j =>
    let l := follow (flows j) (psi0s j) temp
    if Gen.Pipeline.reverseAfter radialIndex sepIndex then l.reverse else l
  (List.range psiVals.length).map fun i => lines.filterMap fun l => l[i]?

end Perp
