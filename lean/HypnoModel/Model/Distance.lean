/-
C05 / C06 model (core Lean only, generic in the number type: run over Float by the driver, reasoned about over ℝ in Props).
A contour is its list of poloidal distances `d` (2·ny+1 entries: even = y-faces, odd = cell centres).
* `hyCentre`, `hyYlowInner`: the differences `MeshRegion.calcHy` takes (before division by dy);
* `chainPD`: `MeshRegion.calcPoloidalDistance` along one chain of y-connected regions: each region contributes its distances
  measured from its own `startInd` point, offset by the value at the upper end of the previous region;
* `cumtrapz`, `interp`, `zShiftContour`: `MeshRegion.calcZShift` on one contour: cumulative trapezoid of the integrand over the
  FineContour distances, re-zeroed at the fine startInd, linearly interpolated at the contour's distances.
-/
namespace Distance

variable {α : Type} [Add α] [Sub α] [Mul α] [Div α] [OfNat α 0] [OfNat α 2]

/-- d[2j+2] - d[2j] for j = 0 … ny-1 -/
def hyCentre : List α → List α
  | a :: b :: c :: rest => (c - a) :: hyCentre (c :: rest)
  | _ => []

/-- d[2j+1] - d[2j-1] for the interior y-faces j = 1 … ny-1 -/
def hyYlowInner : List α → List α
  | _ :: rest => hyCentre rest
  | [] => []

/-- the y-face at the lower end of a region (`hy.ylow[i, 0]`, `hy.corners[i, 0]`): with a region below, the half cell of this
region plus the last half cell of the region below (`d[1] - d[0] + dbelow[-1] - dbelow[-2]`); at a target, twice the own half cell -/
def hyYlowFirst (d : List α) (below : Option (List α)) : α :=
  let own := d.getD 1 0 - d.getD 0 0
  match below with
  | some db => own + (db.getD (db.length - 1) 0 - db.getD (db.length - 2) 0)
  | none => 2 * own

/-- the y-face at the upper end (`hy.ylow[i, -1]`): `d[-1] - d[-2] + dabove[1] - dabove[0]`, or twice the own half cell -/
def hyYlowLast (d : List α) (above : Option (List α)) : α :=
  let own := d.getD (d.length - 1) 0 - d.getD (d.length - 2) 0
  match above with
  | some da => own + (da.getD 1 0 - da.getD 0 0)
  | none => 2 * own

/-- all ny+1 y-face values of a region, before the division by dy -/
def hyYlowAll (d : List α) (below above : Option (List α)) : List α :=
  hyYlowFirst d below :: hyYlowInner d ++ [hyYlowLast d above]

/-- distances of one region measured from its start point: d[k] - d[startInd] -/
def fromStart (d : List α) (startInd : Nat) : List α :=
  d.map (fun x => x - d.getD startInd 0)

/-- poloidal distance along a chain: (offset + (d[k] - d[start])) for each region, the offset of the next region being the value at
    the last entry (upper y-face) of the previous one -/
def chainPD : α → List (List α × Nat) → List (List α)
  | _, [] => []
  | off, (d, s) :: rest =>
    let here := (fromStart d s).map (fun x => off + x)
    here :: chainPD (here.getLastD off) rest

/-- `scipy.integrate.cumulative_trapezoid(y, x=x, initial=0)` -/
def cumtrapzAux : α → List α → List α → List α
  | acc, x0 :: x1 :: xs, y0 :: y1 :: ys =>
    let nxt := acc + (x1 - x0) * (y0 + y1) / 2
    nxt :: cumtrapzAux nxt (x1 :: xs) (y1 :: ys)
  | _, _, _ => []

def cumtrapz (x y : List α) : List α :=
  match x with
  | [] => []
  | _ => 0 :: cumtrapzAux 0 x y

end Distance
