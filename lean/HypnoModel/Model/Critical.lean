/-
C19 model (core Lean only, generic number type): the post-processing of `hypnotoad.utils.critical.find_critical` after the Newton
iterations — classification by the sign of the discriminant, `remove_dup`, the choice of the primary O-point, the two tests of the
monotonicity filter for X-points, the final ordering of the X-points — and the single/double-null decision of
`TokamakEquilibrium.makeRegions`. A critical point is (R, Z, psi).
-/
namespace Critical

variable {α : Type} [Add α] [Sub α] [Mul α] [Div α] [LT α] [DecidableRel (α := α) (· < ·)]

structure Pt (α : Type) where
  R : α
  Z : α
  psi : α
  deriving Repr

inductive Kind | opoint | xpoint
  deriving DecidableEq, Repr

/-- `if D < 0.0: X-point else: O-point` -/
def classify [OfNat α 0] (D : α) : Kind := if D < 0 then .xpoint else .opoint

def dist2 (p q : Pt α) : α := (p.R - q.R) * (p.R - q.R) + (p.Z - q.Z) * (p.Z - q.Z)

/-- `remove_dup`: keep a point unless it is within `thr` (1e-5, squared distance) of one already kept -/
def removeDupAux (thr : α) : List (Pt α) → List (Pt α) → List (Pt α)
  | result, [] => result
  | result, p :: ps =>
    if result.any (fun q => decide (dist2 p q < thr)) then removeDupAux thr result ps
    else removeDupAux thr (result ++ [p]) ps

def removeDup (thr : α) (pts : List (Pt α)) : List (Pt α) := removeDupAux thr [] pts

/-- stable insertion sort by a key (python's `list.sort(key=…)` is stable): `sortBy` inserts each element into the sorted tail,
    so an element must go BEFORE entries of equal key (which came later in the input) -/
def insertBy (key : Pt α → α) (p : Pt α) : List (Pt α) → List (Pt α)
  | [] => [p]
  | q :: qs => if key q < key p then q :: insertBy key p qs else p :: q :: qs

def sortBy (key : Pt α → α) : List (Pt α) → List (Pt α)
  | [] => []
  | p :: ps => insertBy key p (sortBy key ps)

/-- primary O-point: nearest to the middle of the domain -/
def sortO (Rmid Zmid : α) (os : List (Pt α)) : List (Pt α) :=
  sortBy (fun p => (p.R - Rmid) * (p.R - Rmid) + (p.Z - Zmid) * (p.Z - Zmid)) os

/-- X-points ordered by (psi - psi_axis)^2 -/
def sortX (psiAxis : α) (xs : List (Pt α)) : List (Pt α) :=
  sortBy (fun p => (p.psi - psiAxis) * (p.psi - psiAxis)) xs

/-- the two tests of the monotonicity filter on the sampled line from the O-point to the X-point (after the sign flip that makes the
    X-point the maximum): `maxp` = max of the samples, `p0`, `plast` = first and last sample, `d2min` = squared distance of the arg-min
    sample from the O-point. Keep iff (maxp - plast)/(maxp - p0) ≤ 0.001 and d2min ≤ 1e-4. -/
def keepX (tolDrop tolDist maxp p0 plast d2min : α) : Bool :=
  if tolDrop < (maxp - plast) / (maxp - p0) then false
  else if tolDist < d2min then false
  else true

inductive Nulls | single | double | refuse
  deriving DecidableEq, Repr

/-- makeRegions: number of X-points that survive the wall / psinorm_sol filter decides the topology (0 or more than 2: ValueError) -/
def nullCount (n : Nat) : Nulls :=
  match n with
  | 1 => .single
  | 2 => .double
  | _ => .refuse

end Critical
