/- C08 model (core Lean only): the index ranges of BoutMesh.__init__ (numpy.cumsum([0] + sizes) slices) -/
namespace Tiling

/-- start offsets as numpy.cumsum([0] + sizes) gives them -/
def starts : List Nat → Nat → List Nat
  | [], _ => []
  | n :: ns, acc => acc :: starts ns (acc + n)

/-- the half-open slices [start, start+size) of consecutive regions -/
def slices : List Nat → Nat → List (Nat × Nat)
  | [], _ => []
  | n :: ns, acc => (acc, acc + n) :: slices ns (acc + n)

def total (l : List Nat) : Nat := l.foldl (· + ·) 0

theorem foldl_add_acc (l : List Nat) (a : Nat) : l.foldl (· + ·) a = a + l.foldl (· + ·) 0 := by
  induction l generalizing a with
  | nil => simp
  | cons n ns ih => simp only [List.foldl_cons]; rw [ih (a + n), ih (0 + n)]; omega

/-- every index below the total lies in exactly one slice (existence and uniqueness),
    and every slice lies below the total — for any list of sizes, any offset -/
theorem tiling (sizes : List Nat) (acc : Nat) (j : Nat) :
    (acc ≤ j ∧ j < acc + total sizes) ↔
      ∃ s ∈ slices sizes acc, s.1 ≤ j ∧ j < s.2 := by
  induction sizes generalizing acc with
  | nil => simp [slices, total]
  | cons n ns ih =>
    have ht : total (n :: ns) = n + total ns := by
      unfold total; simp only [List.foldl_cons]; rw [foldl_add_acc]; omega
    simp only [slices, List.mem_cons, exists_eq_or_imp, ht]
    rw [← ih (acc + n)]
    omega

theorem slices_disjoint (sizes : List Nat) (acc : Nat) :
    (slices sizes acc).Pairwise (fun a b => a.2 ≤ b.1) := by
  induction sizes generalizing acc with
  | nil => simp [slices]
  | cons n ns ih =>
    simp only [slices, List.pairwise_cons]
    refine ⟨?_, ih (acc + n)⟩
    intro b hb
    -- every later slice starts at or after acc + n
    have : ∀ (l : List Nat) (a : Nat) (b : Nat × Nat), b ∈ slices l a → a ≤ b.1 := by
      intro l
      induction l with
      | nil => intro a b hb; simp [slices] at hb
      | cons m ms ihm =>
        intro a b hb
        simp only [slices, List.mem_cons] at hb
        rcases hb with rfl | hb
        · exact Nat.le_refl _
        · have := ihm (a + m) b hb; omega
    exact this ns (acc + n) b hb

end Tiling
