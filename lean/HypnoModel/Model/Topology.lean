/-
C08 model (core Lean only).
* `encode`: the topology-integer block of `BoutMesh.writeGridfile` (ixseps1/2, jyseps*, ny_inner) as a function
  of the radial segment sizes, the per-region poloidal sizes (without boundary cells), the total ny with boundary
  cells, the radial index of the separatrix and the double-null type.
* `decodeNext`: the documented BOUT++ meaning of those integers: the y-successor of BOUT++ cell (x, j)
  (`none` = target plate).  ixseps1 belongs to the lower X-point, ixseps2 to the upper one; the upper-target
  at `ny_inner - 1` and the upper X-point connections exist only when `jyseps2_1 ≠ jyseps1_2`.
* region adjacency from the connection tables of `describeSingleNull` / `describeDoubleNull` /
  the circular case, transported through the cumulative sizes (`BoutMesh.__init__`'s `region_indices`).
Tied to the code by py/props/c08.py (stub-geometry runs of the real index layer, thousands of size vectors).
-/
namespace Topology

structure Topo where
  nx : Int
  ny : Int
  ixseps1 : Int
  ixseps2 : Int
  jyseps1_1 : Int
  jyseps2_1 : Int
  ny_inner : Int
  jyseps1_2 : Int
  jyseps2_2 : Int
  deriving DecidableEq, Repr

inductive DNType | lower | upper | connected | none
  deriving DecidableEq, Repr

def sumTo (l : List Nat) (k : Nat) : Nat := (l.take k).sum

/-- ixseps part: `len(self.x_startinds)` = number of radial segments + 1 -/
def encodeX (xs : List Nat) (sepIdx : Nat) (dn : DNType) : Option (Int × Int) :=
  let nx : Int := xs.sum
  match xs with
  | [_] => if sepIdx = 0 then some (-1, -1) else some (nx, nx)
  | [x0, _] => some (x0, nx)
  | [x0, x1, _] =>
    match dn with
    | .lower => some (x0, (x0 + x1 : Nat))
    | .upper => some ((x0 + x1 : Nat), x0)
    | _ => Option.none
  | _ => Option.none

/-- the whole block. `nyTot` = `self.ny` (with boundary cells), `ys` = `self.y_regions_noguards` -/
def encode (xs : List Nat) (sepIdx : Nat) (dn : DNType) (ys : List Nat) (nyTot : Nat) : Option Topo :=
  match encodeX xs sepIdx dn with
  | Option.none => Option.none
  | some (ix1, ix2) =>
    let nx : Int := xs.sum
    let ny : Int := ys.sum
    match ys with
    | [y0] =>
      -- no X-points
      some ⟨nx, ny, ix1, ix2, -1, (nyTot / 2 : Nat), (nyTot / 2 : Nat), (nyTot / 2 : Nat), (y0 : Int) - 1⟩
    | [y0, y1, _] =>
      -- single null: jyseps2_1 = jyseps1_2 lies anywhere in the core
      let j11 : Int := (y0 : Int) - 1
      let j22 : Int := ((y0 + y1 : Nat) : Int) - 1
      let mid : Int := min (max ((nyTot / 2 : Nat) : Int) (j11 + 1)) j22
      some ⟨nx, ny, ix1, ix2, j11, mid, mid, mid, j22⟩
    | [y0, y1, y2, _] =>
      -- single X-point with all four legs ending on walls
      let j11 : Int := (y0 : Int) - 1
      let j22 : Int := ((y0 + y1 + y2 : Nat) : Int) - 1
      some ⟨nx, ny, ix1, ix1, j11, j11, ((y0 + y1 : Nat) : Int), j22, j22⟩
    | [y0, y1, y2, y3, y4, _] =>
      some ⟨nx, ny, ix1, if ix2 = nx then ix1 else ix2, (y0 : Int) - 1, ((y0 + y1 : Nat) : Int) - 1,
            ((y0 + y1 + y2 : Nat) : Int), ((y0 + y1 + y2 + y3 : Nat) : Int) - 1,
            ((y0 + y1 + y2 + y3 + y4 : Nat) : Int) - 1⟩
    | _ => Option.none

/-- documented BOUT++ meaning: y-successor of cell (x, j); `none` = the cell's upper face is a target -/
def decodeNext (t : Topo) (x : Int) (j : Int) : Option Int :=
  if x < t.ixseps1 ∧ j = t.jyseps1_1 then some (t.jyseps2_2 + 1)
  else if x < t.ixseps1 ∧ j = t.jyseps2_2 then some (t.jyseps1_1 + 1)
  else if t.jyseps2_1 ≠ t.jyseps1_2 ∧ x < t.ixseps2 ∧ j = t.jyseps2_1 then some (t.jyseps1_2 + 1)
  else if t.jyseps2_1 ≠ t.jyseps1_2 ∧ x < t.ixseps2 ∧ j = t.jyseps1_2 then some (t.jyseps2_1 + 1)
  else if j = t.ny - 1 ∨ (t.jyseps2_1 ≠ t.jyseps1_2 ∧ j = t.ny_inner - 1) then Option.none
  else some (j + 1)

/-! ### region structure -/

/-- upper neighbour of (region r, radial segment s); regions are numbered in y order -/
def upperSN : Nat → Nat → Option Nat
  | 0, 0 => some 2 | 1, 0 => some 1
  | 0, 1 => some 1 | 1, 1 => some 2
  | _, _ => Option.none

/-- connected double null, two radial segments; regions: 0 il, 1 ic, 2 iu, 3 ou, 4 oc, 5 ol -/
def upperCDN : Nat → Nat → Option Nat
  | 0, 0 => some 5 | 1, 0 => some 4 | 3, 0 => some 2 | 4, 0 => some 1
  | 0, 1 => some 1 | 1, 1 => some 2 | 3, 1 => some 4 | 4, 1 => some 5
  | _, _ => Option.none

/-- lower disconnected double null, three radial segments -/
def upperLDN : Nat → Nat → Option Nat
  | 0, 0 => some 5 | 3, 0 => some 2 | 1, 0 => some 4 | 4, 0 => some 1
  | 0, 1 => some 1 | 1, 1 => some 4 | 4, 1 => some 5 | 3, 1 => some 2
  | 0, 2 => some 1 | 1, 2 => some 2 | 3, 2 => some 4 | 4, 2 => some 5
  | _, _ => Option.none

/-- upper disconnected double null, three radial segments -/
def upperUDN : Nat → Nat → Option Nat
  | 0, 0 => some 5 | 3, 0 => some 2 | 1, 0 => some 4 | 4, 0 => some 1
  | 0, 1 => some 5 | 1, 1 => some 2 | 3, 1 => some 4 | 4, 1 => some 1
  | 0, 2 => some 1 | 1, 2 => some 2 | 3, 2 => some 4 | 4, 2 => some 5
  | _, _ => Option.none

/-- core only (circular): one region, periodic -/
def upperCore : Nat → Nat → Option Nat
  | 0, 0 => some 0
  | _, _ => Option.none

/-! ### X-point slots
`EquilibriumRegion.xPointsAtStart / xPointsAtEnd` (hypnotoad/cases/tokamak.py `describeSingleNull`, `describeDoubleNull`): one entry per radial
boundary `0 … nseg`; entry `k` holds the X-point whose corner closes the region at that end between segments `k-1` and `k`.
`(k, w)`: boundary `k`, X-point number `w` in `equilibrium.x_points` (0 = primary, 1 = secondary). -/
abbrev XSlot := Option (Nat × Nat)

/-- single null: (at start, at end) per region -/
def xslotSN : Nat → XSlot × XSlot
  | 0 => (none, some (1, 0)) | 1 => (some (1, 0), some (1, 0)) | 2 => (some (1, 0), none)
  | _ => (none, none)

/-- connected double null (x_points[0] lower, x_points[1] upper) -/
def xslotCDN : Nat → XSlot × XSlot
  | 0 => (none, some (1, 0)) | 1 => (some (1, 0), some (1, 1)) | 2 => (some (1, 1), none)
  | 3 => (none, some (1, 1)) | 4 => (some (1, 1), some (1, 0)) | 5 => (some (1, 0), none)
  | _ => (none, none)

/-- lower disconnected double null: the lower X-point is the primary one -/
def xslotLDN : Nat → XSlot × XSlot
  | 0 => (none, some (1, 0)) | 1 => (some (1, 0), some (2, 1)) | 2 => (some (2, 1), none)
  | 3 => (none, some (2, 1)) | 4 => (some (2, 1), some (1, 0)) | 5 => (some (1, 0), none)
  | _ => (none, none)

/-- upper disconnected double null: the upper X-point is the primary one -/
def xslotUDN : Nat → XSlot × XSlot
  | 0 => (none, some (2, 1)) | 1 => (some (2, 1), some (1, 0)) | 2 => (some (1, 0), none)
  | 3 => (none, some (1, 0)) | 4 => (some (1, 0), some (2, 1)) | 5 => (some (2, 1), none)
  | _ => (none, none)

def xslotCore : Nat → XSlot × XSlot := fun _ => (none, none)

/-- radial segment of x -/
def segOf (xs : List Nat) (x : Nat) : Nat :=
  match xs with
  | [] => 0
  | x0 :: rest => if x < x0 then 0 else 1 + segOf rest (x - x0)

/-- the y-successor the region structure exhibits for BOUT++ cell j of region r -/
def regionNext (upper : Nat → Nat → Option Nat) (xs ys : List Nat) (r x j : Nat) : Option Int :=
  if j + 1 < sumTo ys (r + 1) then some ((j : Int) + 1)
  else match upper r (segOf xs x) with
    | some r' => some ((sumTo ys r' : Nat) : Int)
    | Option.none => Option.none

/-- region containing BOUT++ cell j -/
def regionOf (ys : List Nat) (j : Nat) : Nat :=
  match ys with
  | [] => 0
  | y0 :: rest => if j < y0 then 0 else 1 + regionOf rest (j - y0)

end Topology
