import HypnoModel.Model.Wall
import HypnoModel.Gen.Contour
/-!
# `PsiContour.temporaryExtend` — index bookkeeping while temporary guard points are added  (C11)

Source: hypnotoad/core/equilibrium.py `PsiContour.temporaryExtend`, `prepend`, `append`.  The adjustments applied after each
`prepend` / `append` are the GENERATED tables `Gen.Contour.afterPrepend` / `afterAppend` (py/gen/gen_contour.py reads them from the
source on every run); this file interprets them.  The candidate points (extrapolated and refined in the real code) are parameters;
the loop stops at the first candidate outside the R–Z range (`break`).
-/
namespace Wall
open Gen.Contour

def Cmp.holds : Cmp → Int → Int → Bool
  | .ge, a, b => decide (a ≥ b)
  | .lt, a, b => decide (a < b)
  | .gt, a, b => decide (a > b)
  | .le, a, b => decide (a ≤ b)

/-- one `if self.F cmp K: self.F += D` -/
def applyAdjust {P : Type} (c : Contour P) (a : Adjust) : Contour P :=
  match a.field with
  | .startInd => if Cmp.holds a.cmp c.startInd a.bound then { c with startInd := c.startInd + a.delta } else c
  | .endInd => if Cmp.holds a.cmp c.endInd a.bound then { c with endInd := c.endInd + a.delta } else c

/-- one iteration of the `extend_lower` loop once the candidate passed the range test -/
def Contour.prependStep {P : Type} (c : Contour P) (p : P) : Contour P :=
  afterPrepend.foldl applyAdjust { c with pts := p :: c.pts }

/-- one iteration of the `extend_upper` loop once the candidate passed the range test -/
def Contour.appendStep {P : Type} (c : Contour P) (p : P) : Contour P :=
  afterAppend.foldl applyAdjust { c with pts := c.pts ++ [p] }

/-- the candidates actually added: the loop `break`s at the first one out of range -/
def accepted {P : Type} (inRange : P → Bool) (cands : List P) : List P := cands.takeWhile inRange

/-- `temporaryExtend`: `lows` are the candidates of the lower loop in the order they are tried (each further out than the one
before), `ups` those of the upper loop -/
def Contour.temporaryExtend {P : Type} (inRange : P → Bool) (c : Contour P) (lows ups : List P) : Contour P :=
  (accepted inRange ups).foldl Contour.appendStep ((accepted inRange lows).foldl Contour.prependStep c)

end Wall
