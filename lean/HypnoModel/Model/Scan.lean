/-
C17 model, part 1 (core Lean only): the regular expression scanner of `_fileutils.next_value`
  pattern = [ +\-]?\d+(?:\.\d+[Ee][\+\-]\d\d)?       used with `re.findall` on every line
and the tokens the writer emits (`f2s`, `ChunkOutput.write`, the `{:5d}{:5d}` count line).
Main result: `findall_layout` — scanning any sequence of written tokens separated by any number of
line breaks returns exactly those tokens (numbers may abut).
-/
namespace Geqdsk

def isD (c : Char) : Bool := c.isDigit

def spanD : List Char → List Char × List Char
  | [] => ([], [])
  | c :: cs => if isD c then let (a, b) := spanD cs; (c :: a, b) else ([], c :: cs)

def fracExp : List Char → Option (List Char × List Char)
  | '.' :: cs =>
    match spanD cs with
    | ([], _) => none
    | (ds, e :: s :: d1 :: d2 :: rest) =>
      if (e = 'E' || e = 'e') && (s = '+' || s = '-') && isD d1 && isD d2
      then some ('.' :: ds ++ [e, s, d1, d2], rest) else none
    | _ => none
  | _ => none

def body (pre : List Char) (t : List Char) : Option (List Char × List Char) :=
  match spanD t with
  | ([], _) => none
  | (ds, rest) =>
    match fracExp rest with
    | some (fe, rest') => some (pre ++ ds ++ fe, rest')
    | none => some (pre ++ ds, rest)

/-- python `re.match` of  [ +\-]?\d+(?:\.\d+[Ee][\+\-]\d\d)?  at the head of the input -/
def matchHere (s : List Char) : Option (List Char × List Char) :=
  match s with
  | c :: cs =>
    if c = ' ' || c = '+' || c = '-' then
      match body [c] cs with
      | some r => some r
      | none => body [] s
    else body [] s
  | [] => none

theorem spanD_length (s : List Char) : (spanD s).1.length + (spanD s).2.length = s.length := by
  induction s with
  | nil => rfl
  | cons c cs ih =>
    unfold spanD
    split
    · simp only [List.length_cons]; omega
    · simp

theorem spanD_append (s : List Char) : (spanD s).1 ++ (spanD s).2 = s := by
  induction s with
  | nil => rfl
  | cons c cs ih =>
    unfold spanD
    split
    · simp [ih]
    · simp

theorem fracExp_length {s m r : List Char} (h : fracExp s = some (m, r)) : r.length < s.length := by
  unfold fracExp at h
  split at h
  · rename_i cs
    have hl := spanD_length cs
    split at h
    · cases h
    · rename_i ds e sg d1 d2 rest heq
      split at h
      · cases h
        rw [heq] at hl
        simp only [List.length_cons] at hl ⊢
        omega
      · cases h
    · cases h
  · cases h

theorem body_length {pre t m r : List Char} (h : body pre t = some (m, r)) (ht : t ≠ []) :
    r.length < t.length := by
  unfold body at h
  have hl := spanD_length t
  split at h
  · cases h
  · rename_i ds rest hne heq
    rw [heq] at hl
    simp only at hl
    have hds : 0 < ds.length := by
      cases ds with
      | nil => exact absurd rfl hne
      | cons _ _ => simp
    split at h
    · rename_i fe rest' hfe
      cases h
      have := fracExp_length hfe
      omega
    · cases h
      omega

theorem matchHere_length {s m r : List Char} (h : matchHere s = some (m, r)) : r.length < s.length := by
  unfold matchHere at h
  split at h
  · rename_i c cs
    split at h
    · split at h
      · rename_i r' hb
        cases h
        cases cs with
        | nil => simp [body, spanD] at hb
        | cons d ds =>
          have := body_length hb (by simp)
          simp only [List.length_cons] at this ⊢
          omega
      · exact body_length h (by simp)
    · exact body_length h (by simp)
  · cases h

/-- python `re.findall` for this regex (no capture groups): leftmost matches, scanning on -/
def findall (s : List Char) : List (List Char) :=
  match hs : s with
  | [] => []
  | c :: cs =>
    match hm : matchHere (c :: cs) with
    | some (m, rest) =>
      have : rest.length < (c :: cs).length := matchHere_length hm
      m :: findall rest
    | none => findall cs
termination_by s.length
decreasing_by
  all_goals simp_wf
  · simpa using this

/-! ### basic scanning lemmas -/

theorem findall_nil : findall [] = [] := by rw [findall]

theorem findall_cons_none {c : Char} {cs : List Char} (h : matchHere (c :: cs) = none) :
    findall (c :: cs) = findall cs := by
  rw [findall]; split
  · rename_i m rest hm; rw [h] at hm; cases hm
  · rfl

theorem findall_cons_some {c : Char} {cs m rest : List Char} (h : matchHere (c :: cs) = some (m, rest)) :
    findall (c :: cs) = m :: findall rest := by
  rw [findall]; split
  · rename_i m' rest' hm; rw [h] at hm; cases hm; rfl
  · rename_i hm; rw [h] at hm; cases hm

theorem spanD_nondigit {c : Char} (cs : List Char) (h : isD c = false) : spanD (c :: cs) = ([], c :: cs) := by
  simp [spanD, h]

/-- a newline never starts a match -/
theorem findall_newline (s : List Char) : findall ('\n' :: s) = findall s := by
  apply findall_cons_none
  have h : isD '\n' = false := by decide
  simp [matchHere, body, spanD_nondigit _ h]

/-- a space followed by a non-digit never starts a match -/
theorem findall_space_nondigit (c : Char) (s : List Char) (h : isD c = false) :
    findall (' ' :: c :: s) = findall (c :: s) := by
  apply findall_cons_none
  have hs : isD ' ' = false := by decide
  simp [matchHere, body, spanD_nondigit _ h, spanD_nondigit _ hs]

theorem spanD_append_nondigit (ds : List Char) (h : ∀ c ∈ ds, isD c = true)
    (r : List Char) (hr : ∀ c, r.head? = some c → isD c = false) :
    spanD (ds ++ r) = (ds, r) := by
  induction ds with
  | nil => cases r with
    | nil => rfl
    | cons c cs => simp [spanD, hr c rfl]
  | cons d ds ih =>
    have hd : isD d = true := h d (by simp)
    have := ih (fun c hc => h c (by simp [hc]))
    simp [spanD, hd, this]

/-- what may follow an integer token: end of input, a space, a minus sign or a newline -/
def SafeNext (r : List Char) : Prop := ∀ c, r.head? = some c → (c = ' ' ∨ c = '-' ∨ c = '\n')

theorem SafeNext.nondigit {r : List Char} (h : SafeNext r) : ∀ c, r.head? = some c → isD c = false := by
  intro c hc; rcases h c hc with rfl | rfl | rfl <;> decide

theorem fracExp_safe {r : List Char} (h : SafeNext r) : fracExp r = none := by
  cases r with
  | nil => rfl
  | cons c cs =>
    rcases h c rfl with rfl | rfl | rfl <;> rfl

/-- an integer token " ddd" (one leading space) followed by something safe -/
theorem match_int_sp (ds : List Char) (hds : ∀ c ∈ ds, isD c = true) (hne : ds ≠ [])
    (r : List Char) (hr : SafeNext r) :
    matchHere (' ' :: (ds ++ r)) = some (' ' :: ds, r) := by
  have s1 := spanD_append_nondigit ds hds r hr.nondigit
  cases ds with
  | nil => exact absurd rfl hne
  | cons d ds' =>
    simp only [matchHere, body, s1, fracExp_safe hr]
    simp

/-- an integer token with no padding, e.g. a 5-digit count at the start of a line -/
theorem match_int_bare (ds : List Char) (hds : ∀ c ∈ ds, isD c = true) (hne : ds ≠ [])
    (r : List Char) (hr : SafeNext r) :
    matchHere (ds ++ r) = some (ds, r) := by
  have s1 := spanD_append_nondigit ds hds r hr.nondigit
  cases ds with
  | nil => exact absurd rfl hne
  | cons d ds' =>
    have hd : isD d = true := hds d (by simp)
    have hns : ¬ (d = ' ' ∨ d = '+' ∨ d = '-') := by
      rintro (rfl | rfl | rfl) <;> simp [isD] at hd
    simp only [List.cons_append] at s1 ⊢
    have hc : (d = ' ' || d = '+' || d = '-') = false := by
      simp only [Bool.or_eq_false_iff, decide_eq_false_iff_not]
      exact ⟨⟨fun h => hns (Or.inl h), fun h => hns (Or.inr (Or.inl h))⟩, fun h => hns (Or.inr (Or.inr h))⟩
    simp only [matchHere, hc]
    simp [body, s1, fracExp_safe hr]

/-! ### tokens as the writer renders them -/

theorem match_float (sg d0 : Char) (fr : List Char) (es e1 e2 : Char) (rest : List Char)
    (hsg : sg = ' ' ∨ sg = '-') (hd0 : isD d0 = true) (hfr : ∀ c ∈ fr, isD c = true)
    (hne : fr ≠ []) (hes : es = '+' ∨ es = '-') (h1 : isD e1 = true) (h2 : isD e2 = true) :
    matchHere (sg :: d0 :: '.' :: (fr ++ 'E' :: es :: e1 :: e2 :: rest))
      = some (sg :: d0 :: '.' :: (fr ++ ['E', es, e1, e2]), rest) := by
  have hdot : isD '.' = false := by decide
  have hE : isD 'E' = false := by decide
  have s1 : spanD (d0 :: '.' :: (fr ++ 'E' :: es :: e1 :: e2 :: rest))
      = ([d0], '.' :: (fr ++ 'E' :: es :: e1 :: e2 :: rest)) := by simp [spanD, hd0, hdot]
  have s2 : spanD (fr ++ 'E' :: es :: e1 :: e2 :: rest) = (fr, 'E' :: es :: e1 :: e2 :: rest) :=
    spanD_append_nondigit fr hfr _ (by intro c hc; simp at hc; subst hc; exact hE)
  have hfe : fracExp ('.' :: (fr ++ 'E' :: es :: e1 :: e2 :: rest))
      = some ('.' :: fr ++ ['E', es, e1, e2], rest) := by
    cases fr with
    | nil => exact absurd rfl hne
    | cons f fs =>
      simp only [fracExp, s2]
      rcases hes with rfl | rfl <;> simp [h1, h2]
  rcases hsg with rfl | rfl <;> simp [matchHere, body, s1, hfe]

inductive Tok
  | flt (pre : List Char) (d0 : Char) (frac : List Char) (es e1 e2 : Char)
  | int (pad : Nat) (ds : List Char)

def Tok.WF : Tok → Prop
  | .flt pre d0 frac es e1 e2 =>
      (pre = [' '] ∨ pre = ['-'] ∨ pre = [' ', '-']) ∧ isD d0 = true ∧ (∀ c ∈ frac, isD c = true) ∧
      frac ≠ [] ∧ (es = '+' ∨ es = '-') ∧ isD e1 = true ∧ isD e2 = true
  | .int _ ds => (∀ c ∈ ds, isD c = true) ∧ ds ≠ []

/-- the characters the writer emits for a token (`f2s`, or padding + `str(n)`) -/
def Tok.str : Tok → List Char
  | .flt pre d0 frac es e1 e2 => pre ++ d0 :: '.' :: (frac ++ ['E', es, e1, e2])
  | .int pad ds => List.replicate pad ' ' ++ ds

/-- the string `re.findall` yields for it (later fed to `float()` / `int()`) -/
def Tok.matched : Tok → List Char
  | .flt pre d0 frac es e1 e2 =>
      (if pre = [' ', '-'] then ['-'] else pre) ++ d0 :: '.' :: (frac ++ ['E', es, e1, e2])
  | .int pad ds => (if pad = 0 then [] else [' ']) ++ ds

def Tok.isInt : Tok → Bool
  | .int _ _ => true
  | _ => false

theorem findall_pad_int (k : Nat) (ds : List Char) (hds : ∀ c ∈ ds, isD c = true) (hne : ds ≠ [])
    (r : List Char) (hr : SafeNext r) :
    findall (List.replicate (k+1) ' ' ++ (ds ++ r)) = (' ' :: ds) :: findall r := by
  induction k with
  | zero =>
    show findall (' ' :: (ds ++ r)) = _
    exact findall_cons_some (match_int_sp ds hds hne r hr)
  | succ k ih =>
    have : List.replicate (k + 1 + 1) ' ' ++ (ds ++ r)
        = ' ' :: ' ' :: (List.replicate k ' ' ++ (ds ++ r)) := by
      simp [List.replicate_succ]
    rw [this, findall_space_nondigit ' ' _ (by decide)]
    have : ' ' :: (List.replicate k ' ' ++ (ds ++ r)) = List.replicate (k+1) ' ' ++ (ds ++ r) := by
      simp [List.replicate_succ]
    rw [this, ih]

theorem findall_tok (t : Tok) (hwf : t.WF) (r : List Char) (hr : t.isInt = true → SafeNext r) :
    findall (t.str ++ r) = t.matched :: findall r := by
  cases t with
  | flt pre d0 frac es e1 e2 =>
    obtain ⟨hpre, hd0, hfr, hne, hes, h1, h2⟩ := hwf
    have key : ∀ sg, (sg = ' ' ∨ sg = '-') →
        findall (sg :: d0 :: '.' :: (frac ++ 'E' :: es :: e1 :: e2 :: r))
          = (sg :: d0 :: '.' :: (frac ++ ['E', es, e1, e2])) :: findall r :=
      fun sg hsg => findall_cons_some (match_float sg d0 frac es e1 e2 r hsg hd0 hfr hne hes h1 h2)
    rcases hpre with rfl | rfl | rfl
    · simpa [Tok.str, Tok.matched] using key ' ' (Or.inl rfl)
    · simpa [Tok.str, Tok.matched] using key '-' (Or.inr rfl)
    · have := key '-' (Or.inr rfl)
      simp only [Tok.str, Tok.matched, List.cons_append, List.nil_append, List.append_assoc, if_true]
      rw [findall_space_nondigit '-' _ (by decide)]
      simpa using this
  | int pad ds =>
    obtain ⟨hds, hne⟩ := hwf
    have hr' := hr rfl
    cases pad with
    | zero =>
      simp only [Tok.str, Tok.matched, List.replicate_zero, List.nil_append, if_true]
      cases hd : ds with
      | nil => exact absurd hd hne
      | cons d ds' =>
        have := match_int_bare ds hds hne r hr'
        rw [hd] at this
        exact findall_cons_some this
    | succ k =>
      simp only [Tok.str, Tok.matched, List.append_assoc]
      have := findall_pad_int k ds hds hne r hr'
      simpa using this

/-! ### layout: tokens separated by any number of newlines (what ChunkOutput / the header lines produce) -/

def layoutStr : List (Tok × Nat) → List Char
  | [] => []
  | (t, k) :: rest => t.str ++ (List.replicate k '\n' ++ layoutStr rest)

def IntsSafe : List (Tok × Nat) → Prop
  | [] => True
  | (t, k) :: rest => (t.isInt = true → SafeNext (List.replicate k '\n' ++ layoutStr rest)) ∧ IntsSafe rest

theorem findall_newlines (k : Nat) (s : List Char) : findall (List.replicate k '\n' ++ s) = findall s := by
  induction k with
  | zero => simp
  | succ k ih => simp only [List.replicate_succ, List.cons_append]; rw [findall_newline, ih]

/-- MAIN: scanning the body of a written file returns exactly the written tokens, for any number of
    tokens and any placement of line breaks (so for any chunk size and any array lengths), numbers
    abutting or not -/
theorem findall_layout (l : List (Tok × Nat)) (hwf : ∀ p ∈ l, p.1.WF) (hs : IntsSafe l) :
    findall (layoutStr l) = l.map (·.1.matched) := by
  induction l with
  | nil => simp [layoutStr, findall_nil]
  | cons p rest ih =>
    obtain ⟨t, k⟩ := p
    obtain ⟨hs1, hs2⟩ := hs
    simp only [layoutStr, List.map_cons]
    rw [findall_tok t (hwf (t, k) (by simp)) _ hs1, findall_newlines,
      ih (fun q hq => hwf q (by simp [hq])) hs2]


end Geqdsk
