import HypnoModel.Model.Intersect
/-
C11 model (core Lean only), hand-written from
* hypnotoad/cases/tokamak.py (wall orientation: `if polygons.clockwise(wall): wall = wall[::-1]`) and
  hypnotoad/core/equilibrium.py (`closed_wall = self.wall + [self.wall[0]]`);
* hypnotoad/core/equilibrium.py `PsiContour.insert` / `replace` (python index semantics, startInd/endInd shifting);
* hypnotoad/core/mesh.py `MeshRegion.addPointAtWallToContours` (per contour: replace the segment's first point, or its second point, or
  insert a new point — at the lower and at the upper wall — and make startInd / endInd point at the wall points);
* hypnotoad/core/mesh.py `MeshRegion.calcPenaltyMask` (parity of crossings of the line from an interior point decides "outside";
  0 / 1 / the fraction of the cell's poloidal extent that is outside).
`area2`, `clockwise`, `findIntersections` are those of the C20 model (Model/Intersect.lean), tied to the code by the C20 correspondence.
-/
namespace Wall
open Intersect

/-! ### wall orientation and closing -/
def normalise (w : List Pt) : List Pt := if clockwise w then w.reverse else w
def closed (w : List Pt) : List Pt := w ++ w.take 1

/-! ### python list indexing -/
/-- `l[i]` for a python index (negative counts from the end); `none` = IndexError -/
def pyGet {P : Type} (l : List P) (i : Int) : Option P :=
  if 0 ≤ i then l[i.toNat]? else if 0 ≤ i + l.length then l[(i + l.length).toNat]? else none

/-- `l[i] = v` for a python index (out of range leaves the list unchanged: the code would raise) -/
def pySet {P : Type} (l : List P) (i : Int) (v : P) : List P :=
  if 0 ≤ i then l.set i.toNat v else if 0 ≤ i + l.length then l.set (i + l.length).toNat v else l

structure Contour (P : Type) where
  pts : List P
  startInd : Int
  endInd : Int

/-- `PsiContour.insert(index, point)` -/
def Contour.insert {P : Type} (c : Contour P) (index : Int) (p : P) : Contour P :=
  let n : Int := c.pts.length
  let idx : Int := if index < 0 then (if index + n < 0 then 0 else index + n) else index
  let e1 : Int := if idx ≤ c.endInd then c.endInd + 1 else c.endInd
  { pts := c.pts.insertIdx (min idx n).toNat p      -- list.insert appends when the index is past the end
    startInd := if idx ≤ c.startInd then c.startInd + 1 else c.startInd
    -- a negative endInd counts from the end: it is decremented when the point goes in after the element it refers to
    -- (`index > len(self) + self.endInd`, evaluated with the new length)
    endInd := if e1 < 0 ∧ idx > (n + 1) + e1 then e1 - 1 else e1 }

/-- `PsiContour.replace(index, point)` -/
def Contour.replace {P : Type} (c : Contour P) (index : Int) (p : P) : Contour P := { c with pts := pySet c.pts index p }

/-! ### addPointAtWallToContours, one contour -/
/-- `near a b` = `calc_distance(a, b) < wall_point_exclude_radius`.
`li`, `lp`: lower_intersect_index and lower_intersect; `ui`, `up`: upper_intersect_index and upper_intersect.
Returns the contour and the final (li, ui). An index error of the real code appears as `none`. -/
def addWallPoints {P : Type} (near : P → P → Bool) (c : Contour P) (lowerWall upperWall : Bool) (li : Int) (lp : P) (ui : Int) (up : P) :
    Option (Contour P × Int × Int) := do
  let (c, li, ui) ←
    if lowerWall then do
      let a ← pyGet c.pts li
      if near a lp then pure ({ (c.replace li lp) with startInd := li }, li, ui)
      else do
        let b ← pyGet c.pts (li + 1)
        if near b lp then pure ({ (c.replace (li + 1) lp) with startInd := li + 1 }, li + 1, ui)
        else
          let c' := c.insert (li + 1) lp
          pure ({ c' with startInd := li + 1 }, li + 1, if upperWall ∧ 0 ≤ ui then ui + 1 else ui)
    else pure (c, li, ui)
  if upperWall then do
    let a ← pyGet c.pts ui
    if near a up then pure ({ (c.replace ui up) with endInd := ui }, li, ui)
    else do
      let b ← pyGet c.pts (ui + 1)
      if near b up then pure ({ (c.replace (ui + 1) up) with endInd := ui + 1 }, li, ui + 1)
      else
        let c' := c.insert (ui + 1) up
        let ui' := if 0 ≤ ui then ui + 1 else ui
        pure ({ c' with endInd := ui' }, li, ui')
  else pure (c, li, ui)

/-! ### penalty mask -/
/-- a y-face is outside the wall iff the line from the interior point p0 crosses the closed wall an odd number of times -/
def isOutside (eps tol : Rat) (wall : List Pt) (p0 p : Pt) : Bool := (findIntersections eps tol wall p0 p).length % 2 == 1

def dist2 (a b : Pt) : Rat := (a.R - b.R) * (a.R - b.R) + (a.Z - b.Z) * (a.Z - b.Z)

/-- the *square* of penalty_mask[i, j] for the cell with y-faces p1 (lower) and p2 (upper): the code divides two Euclidean distances -/
def maskSq (eps tol : Rat) (wall : List Pt) (p0 p1 p2 : Pt) : Rat :=
  let o1 := isOutside eps tol wall p0 p1
  let o2 := isOutside eps tol wall p0 p2
  if o1 && o2 then 1
  else if o1 || o2 then
    match findIntersections eps tol wall p1 p2 with
    | [] => 0                                   -- "something odd going on": the cell keeps 0
    | pi :: _ => dist2 (if o1 then p1 else p2) pi / dist2 p1 p2
  else 0

end Wall
