import HypnoModel.Model.Regrid
import HypnoModel.Drv.Util
/- driver op for C15:  c15 m0 n0 m1 n1 m2 n2 …   (method index and an integer standing for the numeric settings, first pair = the settings
   the mesh is built with, the rest = successive redistributePoints calls)
   → "recorded=<m>,<n> region=<m>,<n> skeleton=<m> placed=<skeleton>,<m>,<n> same-as-fresh=<bool>" -/
namespace Drv.C15
open Regrid

def pairs : List Int → List (Settings Int)
  | m :: n :: r => ⟨m.toNat, n⟩ :: pairs r
  | _ => []

def op (a : List String) : String :=
  match pairs (a.map String.toInt!) with
  | [] => "bad-op"
  | s0 :: rest =>
    let skel : Settings Int → Nat := fun s => 1000 * s.method + s.numeric.toNat
    let place : Nat → Settings Int → (Nat × Nat × Int) := fun k s => (k, s.method, s.numeric)
    let m := rest.foldl (redistribute skel place) (build skel place s0)
    let last := rest.getLastD s0
    let f := build skel place last
    s!"recorded={m.recorded.method},{m.recorded.numeric} region={m.region.method},{m.region.numeric} skeleton={m.skeleton} placed={m.pts.1},{m.pts.2.1},{m.pts.2.2} same-as-fresh={decide (m.pts = f.pts ∧ m.skeleton = f.skeleton ∧ m.recorded = f.recorded ∧ m.region = f.region)}"

end Drv.C15
