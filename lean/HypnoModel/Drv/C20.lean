import HypnoModel.Model.Intersect
import HypnoModel.Drv.Util
/- driver ops for C20 (exact rationals, written p/q):
   c20f <wall r,z;r,z;…> <p1 r,z> <p2 r,z>      → hits "r,z;r,z" (or "-") then the wallIntersection verdict
   c20c <p r,z> <a r,z> <b r,z>                 → squared closest approach | none
   c20a <poly>                                  → 2*area clockwise
   c20i <poly1> <closed1 0/1> <poly2> <closed2> → true|false -/
namespace Drv.C20
open Intersect

def pt (s : String) : Pt :=
  match s.splitOn "," with
  | [r, z] => ⟨ratOfStr r, ratOfStr z⟩
  | _ => ⟨0, 0⟩

def pts (s : String) : List Pt := if s = "-" then [] else (s.splitOn ";").map pt
def ptStr (p : Pt) : String := strOfRat p.R ++ "," ++ strOfRat p.Z

def eps : Rat := 1 / 1000000000000000
def tol : Rat := 1 / 100000000000000

def opF (a : List String) : String :=
  match a with
  | [w, p1, p2] =>
    let hits := findIntersections eps tol (pts w) (pt p1) (pt p2)
    let v := match wallIntersection eps tol (pts w) (pt p1) (pt p2) with
      | .none => "none" | .one p => "one " ++ ptStr p | .tooMany => "toomany" | .multiple => "multiple"
    (if hits.isEmpty then "-" else ";".intercalate (hits.map ptStr)) ++ " " ++ v
  | _ => "bad-op"

def opC (a : List String) : String :=
  match a with
  | [p, x, y] => match closest2 (pt p) (pt x) (pt y) with | some d => strOfRat d | none => "none"
  | _ => "bad-op"

def opA (a : List String) : String :=
  match a with
  | [p] => strOfRat (area2 (pts p)) ++ " " ++ toString (clockwise (pts p))
  | _ => "bad-op"

def opI (a : List String) : String :=
  match a with
  | [p1, c1, p2, c2] => toString (polyIntersect (pts p1) (c1 = "1") (pts p2) (c2 = "1"))
  | _ => "bad-op"

end Drv.C20
