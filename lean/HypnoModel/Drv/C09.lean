import HypnoModel.Gen.Spacing
import HypnoModel.Drv.Util
/- driver op for C09: Float twins of the generated spacing functions.
   c09 <path> <n> <lower> <upper> <gl|-> <gu|-> <root|-> i0 i1 …      (all numbers as 16-hex-digit IEEE bit patterns)
     → f(i0) f(i1) …  and, for solver paths, the constraint residual at root as last value -/
namespace Drv.C09
open Gen.F.Spacing

/-- erf for the Float twin (the Python uses scipy.special.erf): Maclaurin series for |x| ≤ 3, continued fraction for
    erfc beyond; accurate to ~1e-13, the twin comparison tolerance for erf paths is 1e-10 -/
def erfF (x : Float) : Float :=
  let ax := Float.abs x
  let r :=
    if ax ≤ 3.0 then
      Id.run do
        let mut term := ax
        let mut sum := ax
        for k in [1:120] do
          let kf := k.toFloat
          term := term * (-(ax * ax)) / kf
          sum := sum + term / (2.0 * kf + 1.0)
        return sum * 2.0 / Float.sqrt 3.141592653589793
    else
      -- erfc(x) = exp(-x^2)/sqrt(pi) * 1/(x + (1/2)/(x + 1/(x + (3/2)/(x + 2/(x + …)))))
      Id.run do
        let mut f := ax
        for kk in [0:60] do
          let k := (60 - kk).toFloat
          f := ax + (k / 2.0) / f
        return 1.0 - Float.exp (-(ax * ax)) / Float.sqrt 3.141592653589793 / f
  if x < 0.0 then -r else r

def op (a : List String) : String :=
  match a with
  | path :: n :: lo :: up :: gl :: gu :: root :: is =>
    let f := floatOfHex
    let n := f n; let lo := f lo; let up := f up
    let is := is.map f
    let out : Option (List Float) :=
      match path with
      | "linear" => some (is.map (linear n lo up))
      | "lowerPoly" => some (is.map (lowerPoly n lo up (f gl)))
      | "upperPoly" => some (is.map (upperPoly n lo up (f gu)))
      | "bothTrig" => some (is.map (bothTrig n lo up (f gl) (f gu)))
      | "lowerErf" => some (is.map (lowerErf erfF n lo up (f gl) (f root)) ++ [lowerErf_constraint erfF n lo up (f gl) (f root)])
      | "upperErf" => some (is.map (upperErf erfF n lo up (f gu) (f root)) ++ [upperErf_constraint erfF n lo up (f gu) (f root)])
      | _ => none
    match out with
    | some vs => " ".intercalate (vs.map hexOfFloat)
    | none => "bad-op"
  | _ => "bad-op"

end Drv.C09
