import HypnoModel.Gen.Metric
import HypnoModel.Drv.Util
/- driver op for C02: Float twins of the generated metric components.
   c02 <orth|nonorth> R Bp hy dphidy cosBeta tanBeta bpsign   (hex bit patterns)
     → g11 g22 g33 g12 g13 g23 J g_11 g_22 g_33 g_12 g_13 g_23 Jcheck -/
namespace Drv.C02
open Gen.F.Metric

def op (a : List String) : String :=
  match a with
  | [br, r, bp, hy, dphi, cb, tb, s] =>
    let f := floatOfHex
    let R := f r; let Bp := f bp; let hy := f hy; let d := f dphi; let cb := f cb; let tb := f tb; let s := f s
    let vs : List Float :=
      if br = "orth" then
        [orth.g11 R Bp hy d cb tb s, orth.g22 R Bp hy d cb tb s, orth.g33 R Bp hy d cb tb s, orth.g12 R Bp hy d cb tb s,
         orth.g13 R Bp hy d cb tb s, orth.g23 R Bp hy d cb tb s, orth.J R Bp hy d cb tb s, orth.g_11 R Bp hy d cb tb s,
         orth.g_22 R Bp hy d cb tb s, orth.g_33 R Bp hy d cb tb s, orth.g_12 R Bp hy d cb tb s, orth.g_13 R Bp hy d cb tb s,
         orth.g_23 R Bp hy d cb tb s, orth.Jcheck R Bp hy d cb tb s]
      else
        [nonorth.g11 R Bp hy d cb tb s, nonorth.g22 R Bp hy d cb tb s, nonorth.g33 R Bp hy d cb tb s, nonorth.g12 R Bp hy d cb tb s,
         nonorth.g13 R Bp hy d cb tb s, nonorth.g23 R Bp hy d cb tb s, nonorth.J R Bp hy d cb tb s, nonorth.g_11 R Bp hy d cb tb s,
         nonorth.g_22 R Bp hy d cb tb s, nonorth.g_33 R Bp hy d cb tb s, nonorth.g_12 R Bp hy d cb tb s, nonorth.g_13 R Bp hy d cb tb s,
         nonorth.g_23 R Bp hy d cb tb s, nonorth.Jcheck R Bp hy d cb tb s]
    " ".intercalate (vs.map hexOfFloat)
  | _ => "bad-op"

end Drv.C02
