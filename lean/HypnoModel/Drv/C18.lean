import HypnoModel.Gen.Fields
import HypnoModel.Drv.Util
/- driver ops for C18/C07 (Float twins of the generated field helper chain and curvature formulas).
   c18h R Z BR BZ f fp pRR pZZ pRZ               → Bzeta B2 dBzetadR dBzetadZ dBRdR dBRdZ dBZdR dBZdZ dB2dR dB2dZ dBdR dBdZ
   c07 <rz_orth|rz_nonorth> R Z BR BZ f fp pRR pZZ pRZ Bp Bt B hy tanBeta bpsign → curl x y z, bxcv x y z
   c07xy R Bp Bt B hy bpsign ddyB ddxBtRB2 ddxhyBp ddxBtR → curl x y z, bxcv x y z -/
namespace Drv.C18
open Gen.F.Fields

def opH (a : List String) : String :=
  match a.map floatOfHex with
  | [R, Z, BR, BZ, f, fp, pRR, pZZ, pRZ] =>
    " ".intercalate ([Bzeta R Z BR BZ f fp pRR pZZ pRZ, B2 R Z BR BZ f fp pRR pZZ pRZ, dBzetadR R Z BR BZ f fp pRR pZZ pRZ,
      dBzetadZ R Z BR BZ f fp pRR pZZ pRZ, dBRdR R Z BR BZ f fp pRR pZZ pRZ, dBRdZ R Z BR BZ f fp pRR pZZ pRZ,
      dBZdR R Z BR BZ f fp pRR pZZ pRZ, dBZdZ R Z BR BZ f fp pRR pZZ pRZ, dB2dR R Z BR BZ f fp pRR pZZ pRZ,
      dB2dZ R Z BR BZ f fp pRR pZZ pRZ, dBdR R Z BR BZ f fp pRR pZZ pRZ, dBdZ R Z BR BZ f fp pRR pZZ pRZ].map hexOfFloat)
  | _ => "bad-op"

def opC (a : List String) : String :=
  match a with
  | br :: rest =>
    match rest.map floatOfHex with
    | [R, Z, BR, BZ, f, fp, pRR, pZZ, pRZ, Bp, Bt, B, hy, tb, s] =>
      let vs := if br = "rz_orth" then
          [rz_orth.curl_bOverB_x R Z BR BZ f fp pRR pZZ pRZ Bp Bt B hy tb s, rz_orth.curl_bOverB_y R Z BR BZ f fp pRR pZZ pRZ Bp Bt B hy tb s,
           rz_orth.curl_bOverB_z R Z BR BZ f fp pRR pZZ pRZ Bp Bt B hy tb s, rz_orth.bxcvx R Z BR BZ f fp pRR pZZ pRZ Bp Bt B hy tb s,
           rz_orth.bxcvy R Z BR BZ f fp pRR pZZ pRZ Bp Bt B hy tb s, rz_orth.bxcvz R Z BR BZ f fp pRR pZZ pRZ Bp Bt B hy tb s]
        else
          [rz_nonorth.curl_bOverB_x R Z BR BZ f fp pRR pZZ pRZ Bp Bt B hy tb s, rz_nonorth.curl_bOverB_y R Z BR BZ f fp pRR pZZ pRZ Bp Bt B hy tb s,
           rz_nonorth.curl_bOverB_z R Z BR BZ f fp pRR pZZ pRZ Bp Bt B hy tb s, rz_nonorth.bxcvx R Z BR BZ f fp pRR pZZ pRZ Bp Bt B hy tb s,
           rz_nonorth.bxcvy R Z BR BZ f fp pRR pZZ pRZ Bp Bt B hy tb s, rz_nonorth.bxcvz R Z BR BZ f fp pRR pZZ pRZ Bp Bt B hy tb s]
      " ".intercalate (vs.map hexOfFloat)
    | _ => "bad-op"
  | _ => "bad-op"

def opXY (a : List String) : String :=
  match a.map floatOfHex with
  | [R, Bp, Bt, B, hy, s, d1, d2, d3, d4] =>
    " ".intercalate ([xy.curl_bOverB_x R Bp Bt B hy s d1 d2 d3 d4, xy.curl_bOverB_y R Bp Bt B hy s d1 d2 d3 d4,
      xy.curl_bOverB_z R Bp Bt B hy s d1 d2 d3 d4, xy.bxcvx R Bp Bt B hy s d1 d2 d3 d4, xy.bxcvy R Bp Bt B hy s d1 d2 d3 d4,
      xy.bxcvz R Bp Bt B hy s d1 d2 d3 d4].map hexOfFloat)
  | _ => "bad-op"

end Drv.C18
