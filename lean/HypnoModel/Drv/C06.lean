import HypnoModel.Model.Stencil
import HypnoModel.Drv.C05
/- driver ops (hex floats; parts separated by "/"; an empty part = none):
   c06dx psi… / inner / outer                          → dx at the centres | dx at the x-faces
   c06ddx fc… / fx… / dxc… / dxf… / fInner / fOuter     → DDX at the centres | DDX at the x-faces -/
namespace Drv.C06
open Stencil Drv.C05

def optOne (l : List String) : Option Float := match l with | [x] => some (floatOfHex x) | _ => none

def opDx (a : List String) : String :=
  match splitOnTok "/" a with
  | [p, i, o] => out (dxCentre (fl p)) ++ " | " ++ out (dxFaces (fl p) (optOne i) (optOne o))
  | _ => "bad-op"

def opDdx (a : List String) : String :=
  match splitOnTok "/" a with
  | [fc, fx, dxc, dxf, i, o] =>
    out (ddxCentre (fl fx) (fl dxc)) ++ " | " ++ out (ddxXlow (fl fc) (fl fx) (fl dxf) (optOne i) (optOne o))
  | _ => "bad-op"

end Drv.C06
