/- helpers for the line-protocol driver (core Lean only) -/
namespace Drv

def hexVal (c : Char) : Nat :=
  if c.isDigit then c.toNat - 48 else if 'a' ≤ c ∧ c ≤ 'f' then c.toNat - 87 else if 'A' ≤ c ∧ c ≤ 'F' then c.toNat - 55 else 0

/-- hex string (two digits per byte, bytes < 128 only are used) to characters; tail recursive (files of megabytes are sent) -/
def unhexAux : List Char → List Char → List Char
  | a :: b :: r, acc => unhexAux r (Char.ofNat (hexVal a * 16 + hexVal b) :: acc)
  | _, acc => acc.reverse

def unhex (l : List Char) : List Char := unhexAux l []

def hexDigit (n : Nat) : Char := if n < 10 then Char.ofNat (48 + n) else Char.ofNat (87 + n)

def tohex (s : List Char) : String :=
  String.ofList (s.flatMap (fun c => [hexDigit (c.toNat / 16 % 16), hexDigit (c.toNat % 16)]))

def words (s : String) : List String := (s.splitOn " ").filter (· ≠ "")

def floatOfHex (s : String) : Float :=
  Float.ofBits (UInt64.ofNat (s.toList.foldl (fun a c => a * 16 + hexVal c) 0))

def hexOfFloat (x : Float) : String :=
  let n := x.toBits.toNat
  String.ofList ((List.range 16).map (fun i => hexDigit (n / 16 ^ (15 - i) % 16)))

def ratOfStr (s : String) : Rat :=
  match s.splitOn "/" with
  | [p] => (p.toInt?.getD 0 : Int)
  | [p, q] => (p.toInt?.getD 0 : Int) / (q.toInt?.getD 1 : Int)
  | _ => 0

def strOfRat (r : Rat) : String := if r.den = 1 then toString r.num else s!"{r.num}/{r.den}"

end Drv
