import HypnoModel.Model.Options
import HypnoModel.Drv.Util
/- driver op for C14 (values are integers):
   c14c  <entry>… | <key>=<int>…      entry = key:c:<int>            constant default
                                              key:r:<key2>:<a>:<b>    a·get(key2)+b
                                              key:i:<key2>:<a>:<b>    a if get(key2) ≠ 0 else b
                                              key:h:<key2>            get(key2) // 2
        → "k=v k=v …" in factory order, or "error"
   c14e  <k=v…> | <k=v…> | <k=v…>      → embed a b c as "k=v …" -/
namespace Drv.C14
open Options

def parseEntry (w : String) : Option (String × Default Int) :=
  match w.splitOn ":" with
  | [k, "c", v] => v.toInt?.map fun v => (k, .const v)
  | [k, "r", k2, a, b] => do
      let a ← a.toInt?; let b ← b.toInt?
      pure (k, .expr fun get => (get k2).map fun x => a * x + b)
  | [k, "i", k2, a, b] => do
      let a ← a.toInt?; let b ← b.toInt?
      pure (k, .expr fun get => (get k2).map fun x => if x ≠ 0 then a else b)
  | [k, "h", k2] => pure (k, .expr fun get => (get k2).map fun x => x / 2)
  | _ => none

def parseKV (w : String) : Option (String × Int) :=
  match w.splitOn "=" with
  | [k, v] => v.toInt?.map fun v => (k, v)
  | _ => none

def showDict (d : Dict Int) : String := " ".intercalate (d.map fun (k, v) => s!"{k}={v}")

def splitBar (a : List String) : List (List String) :=
  a.foldr (fun w acc => if w == "|" then [] :: acc else match acc with | h :: t => (w :: h) :: t | [] => [[w]]) [[]]

def opCreate (a : List String) : String :=
  match splitBar a with
  | [es, ss] =>
    match es.mapM parseEntry, ss.mapM parseKV with
    | some es, some ss => match create ⟨es⟩ ss with | some d => showDict d | none => "error"
    | _, _ => "bad-op"
  | _ => "bad-op"

def opEmbed (a : List String) : String :=
  match splitBar a with
  | [x, y, z] =>
    match x.mapM parseKV, y.mapM parseKV, z.mapM parseKV with
    | some x, some y, some z => showDict (embed x y z)
    | _, _, _ => "bad-op"
  | _ => "bad-op"

end Drv.C14
