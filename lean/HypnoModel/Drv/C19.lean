import HypnoModel.Gen.Critical
import HypnoModel.Model.Critical
import HypnoModel.Drv.Util
/- driver ops for C19:
   c19d dR dZ p_m2_m2 p_m2_p0 p_m2_p2 p_p0_m2 p_p0_p0 p_p0_p2 p_p2_m2 p_p2_p0 p_p2_p2   → D kind(o|x)
   c19dup thr R Z psi R Z psi …     → indices (into the input) of the kept points
   c19sx psiAxis R Z psi …          → the X-points' input indices in sorted order
   c19so Rmid Zmid R Z psi …        → O-points' input indices in sorted order
   c19n n                           → single | double | refuse -/
namespace Drv.C19
open Critical

def pts : List Float → List (Pt Float)
  | r :: z :: p :: rest => ⟨r, z, p⟩ :: pts rest
  | _ => []

def idxOf (l : List (Pt Float)) (p : Pt Float) : Nat :=
  (l.findIdx? (fun q => q.R == p.R && q.Z == p.Z && q.psi == p.psi)).getD 0

def opD (a : List String) : String :=
  match a.map floatOfHex with
  | [dR, dZ, a1, a2, a3, a4, a5, a6, a7, a8, a9] =>
    let d := Gen.F.Critical.D dR dZ a1 a2 a3 a4 a5 a6 a7 a8 a9
    hexOfFloat d ++ (match classify d with | .xpoint => " x" | .opoint => " o")
  | _ => "bad-op"

def opDup (a : List String) : String :=
  match a.map floatOfHex with
  | thr :: rest => let l := pts rest; " ".intercalate ((removeDup thr l).map (fun p => toString (idxOf l p)))
  | _ => "bad-op"

def opSX (a : List String) : String :=
  match a.map floatOfHex with
  | ax :: rest => let l := pts rest; " ".intercalate ((sortX ax l).map (fun p => toString (idxOf l p)))
  | _ => "bad-op"

def opSO (a : List String) : String :=
  match a.map floatOfHex with
  | rm :: zm :: rest => let l := pts rest; " ".intercalate ((sortO rm zm l).map (fun p => toString (idxOf l p)))
  | _ => "bad-op"

def opN (a : List String) : String :=
  match a with
  | [n] => match nullCount n.toNat! with | .single => "single" | .double => "double" | .refuse => "refuse"
  | _ => "bad-op"

end Drv.C19
