import HypnoModel.Model.ParMap
import HypnoModel.Drv.Util
/- driver op for C13:   c13 <n> <i>:o:<int> | <i>:e:<code> …  (arrival order)  →  ok v… | err <code> | incomplete -/
namespace Drv.C13
open ParMap

def parseArr (s : String) : Option (Nat × Except Int Int) :=
  match s.splitOn ":" with
  | [i, "o", v] => (fun i v => (i, Except.ok v)) <$> i.toNat? <*> v.toInt?
  | [i, "e", c] => (fun i c => (i, Except.error c)) <$> i.toNat? <*> c.toInt?
  | _ => none

def op (a : List String) : String :=
  match a with
  | n :: arr =>
    match n.toNat?, arr.mapM parseArr with
    | some n, some arrivals =>
      match callerOutcome n arrivals with
      | none => "incomplete"
      | some (.error c) => s!"err {c}"
      | some (.ok vs) => "ok " ++ " ".intercalate (vs.map toString)
    | _, _ => "bad-op"
  | _ => "bad-op"

end Drv.C13
