import HypnoModel.Model.Profiles
import HypnoModel.Drv.Util
/- driver ops for C03:  c03s <dot> <bpsign> → ok ±1 | raise ;  c03r <leg> <sign> <psi> → reflected psi (hex) -/
namespace Drv.C03
open Profiles

def opS (a : List String) : String :=
  match a.map floatOfHex with
  | [d, s] => match bpDecision d s with | .ok k => s!"ok {k}" | .raise => "raise"
  | _ => "bad-op"

def opR (a : List String) : String :=
  match a.map floatOfHex with
  | [l, s, p] => hexOfFloat (reflect Float.abs l s p)
  | _ => "bad-op"

end Drv.C03
