import HypnoModel.Model.Profiles
import HypnoModel.Gen.Geom1
import HypnoModel.Drv.Util
/- driver ops for C03:  c03s <dot> <bpsign> → ok ±1 | raise ;  c03r <leg> <sign> <psi> → reflected psi (hex) -/
namespace Drv.C03
open Profiles

def opS (a : List String) : String :=
  match a.map floatOfHex with
  | [d, s] => match bpDecision d s with | .ok k => s!"ok {k}" | .raise => "raise"
  | _ => "bad-op"

def opR (a : List String) : String :=
  match a.map floatOfHex with
  | [l, s, p] => hexOfFloat (reflect Float.abs l s p)
  | _ => "bad-op"

/-- c03g Br Bz Bp Bt → |Bp| from (Br, Bz) and |B| from (Bp, Bt), by the generated geometry1 formulas over Float -/
def opG (a : List String) : String :=
  match a.map floatOfHex with
  | [br, bz, bp, bt] => hexOfFloat (Gen.F.Geom1.Bpxy br bz) ++ " " ++ hexOfFloat (Gen.F.Geom1.Bxy bp bt)
  | _ => "bad-op"

end Drv.C03
