import HypnoModel.Model.Topology
import HypnoModel.Model.Tiling
import HypnoModel.Drv.Util
/- driver ops for C08:
   c08 <dn: lower|upper|connected|none> <sepIdx> <nyTot> <xs comma list> <ys comma list>
     → "ints ix1 ix2 j11 j21 nyinner j12 j22 next <decodeNext for x=0..nx-1, j=0..ny-1, row-major in x; -9 = target>"  | "none"
   c08t <sizes comma list>  → slices "a:b a:b …" -/
namespace Drv.C08
open Topology

def natList (s : String) : List Nat := (s.splitOn ",").filterMap String.toNat?

def op (a : List String) : String :=
  match a with
  | [dn, sep, nyTot, xs, ys] =>
    let dn := match dn with | "lower" => DNType.lower | "upper" => .upper | "connected" => .connected | _ => .none
    let xs := natList xs; let ys := natList ys
    match encode xs sep.toNat! dn ys nyTot.toNat! with
    | Option.none => "none"
    | some t =>
      let nx := xs.sum; let ny := ys.sum
      let nexts := (List.range nx).flatMap fun (x : Nat) => (List.range ny).map fun (j : Nat) =>
        match decodeNext t (x : Nat) (j : Nat) with | some k => toString k | Option.none => "-9"
      s!"ints {t.ixseps1} {t.ixseps2} {t.jyseps1_1} {t.jyseps2_1} {t.ny_inner} {t.jyseps1_2} {t.jyseps2_2} next " ++ " ".intercalate nexts
  | _ => "bad-op"

def opT (a : List String) : String :=
  match a with
  | [sizes] => " ".intercalate ((Tiling.slices (natList sizes) 0).map fun p => s!"{p.1}:{p.2}")
  | _ => "bad-op"

/-- c08u <sn|cdn|ldn|udn|core> <nreg> <nseg> → upper-neighbour table, row-major in region, -1 = wall -/
def opU (a : List String) : String :=
  match a with
  | [k, nreg, nseg] =>
    let tab := match k with | "sn" => upperSN | "cdn" => upperCDN | "ldn" => upperLDN | "udn" => upperUDN | _ => upperCore
    " ".intercalate ((List.range nreg.toNat!).flatMap fun r => (List.range nseg.toNat!).map fun s =>
      match tab r s with | some q => toString q | Option.none => "-1")
  | _ => "bad-op"

/-- c08x <sn|cdn|ldn|udn|core> <nreg> → per region "s:k,w|- e:k,w|-" -/
def opX (a : List String) : String :=
  match a with
  | [k, nreg] =>
    let tab := match k with | "sn" => xslotSN | "cdn" => xslotCDN | "ldn" => xslotLDN | "udn" => xslotUDN | _ => xslotCore
    let sh : XSlot → String := fun o => match o with | some (b, w) => s!"{b},{w}" | Option.none => "-"
    " ".intercalate ((List.range nreg.toNat!).map fun r => s!"s:{sh (tab r).1} e:{sh (tab r).2}")
  | _ => "bad-op"

end Drv.C08
