import HypnoModel.Model.Refine
import HypnoModel.Model.Perp
import HypnoModel.Drv.Util
/- driver ops for C01 / C04:
   c01n atol psival R0 tR c0 c1 c2 c3 (hex floats)   psi(R) = c0 + c1*R + c2*R*R + c3*R*R*R along R = R0 + s*tR
        → "same" | "conv <hex R>" | "fail"
   c01m hasPsival(0|1) m1,m2,… n l i   (method names; n l i ∈ {ok,fail} outcomes of newton, line, integrate; a successful method adds
        1, 10, 100 to the integer point)   → "<int>" | "error"
   c01g skip(0|1) startInd endInd failAt p0 p1 …     (integer points; refine p t = p*1000+t, failing when p = failAt)
        → "p p p …" | "error"
   c01f nrow ncol sI sO eI eO v…      (matrix of ints row-major; pins: int or "-")  → centre | xlow | ylow | corners  (rows joined by ";")
   c01p orth|nonorth|redistribute k    → flag after the generated op list (k extra redistributions)
   c04f psi0 v1 v2 …  (rationals)       → the followed values, in order
   c04a radialIndex sepIndex nskel v1 v2 …   → contours (rows joined by ";") with flow_j ψ = 1000*j + ψ (integers) -/
namespace Drv.C01
open Refine

def opNewton (a : List String) : String :=
  match a.map floatOfHex with
  | [atol, psival, r0, tR, c0, c1, c2, c3] =>
    let psi := fun (r : Float) => c0 + c1 * r + c2 * r * r + c3 * r * r * r
    let f := fun (s : Float) => psi (r0 + s * tR) - psival
    let eps : Float := 1e-10
    let dfds := fun (s : Float) => (f (s + eps) - f s) / eps
    match newton f dfds atol psival with
    | none => "fail"
    | some s => if absv (f 0) < atol * absv psival then "same" else "conv " ++ hexOfFloat (r0 + s * tR)
  | _ => "bad-op"

def parseMethod : String → Option Method
  | "newton" => some .newton | "line" => some .line | "integrate" => some .integrate
  | "integrate+newton" => some .integrateNewton | "none" => some .noRefine | _ => none

def opMethods (a : List String) : String :=
  match a with
  | [hp, ms, n, l, i] =>
    match (ms.splitOn ",").mapM parseMethod with
    | none => "bad-op"
    | some methods =>
      let mk (o : String) (k : Int) : Int → Option Int := fun p => if o == "ok" then some (p + k) else none
      match refinePoint (hp == "1") (runOf (mk n 1) (mk l 10) (mk i 100)) methods 0 with
      | some v => toString v
      | none => "error"
  | _ => "bad-op"

def opGetRefined (a : List String) : String :=
  match a with
  | sk :: si :: ei :: fa :: pts =>
    let pts := pts.map String.toInt!
    let failAt := fa.toInt!
    match getRefined (fun p t => if p == failAt then none else some (p * 1000 + t)) pts (sk == "1") si.toInt! ei.toInt! with
    | some l => " ".intercalate (l.map toString)
    | none => "error"
  | _ => "bad-op"

def showMat (m : List (List Int)) : String := ";".intercalate (m.map fun r => " ".intercalate (r.map toString))

def chunks (n : Nat) : Nat → List Int → List (List Int)
  | 0, _ => []
  | k + 1, l => l.take n :: chunks n k (l.drop n)

def opFill (a : List String) : String :=
  match a with
  | nr :: nc :: sI :: sO :: eI :: eO :: vs =>
    let m := chunks nc.toNat! nr.toNat! (vs.map String.toInt!)
    let o (s : String) : Option Int := if s == "-" then none else s.toInt?
    let r := fillRZ m (o sI) (o sO) (o eI) (o eO)
    " | ".intercalate [showMat r.centre, showMat r.xlow, showMat r.ylow, showMat r.corners]
  | _ => "bad-op"

def opPipeline (a : List String) : String :=
  match a with
  | [kind, k] =>
    let base := if kind == "orth" then Gen.Pipeline.initOrthogonal else if kind == "nonorth" then Gen.Pipeline.initNonorthogonal else []
    let ops := base ++ (List.replicate k.toNat! Gen.Pipeline.redistribute).flatten
    toString (runFlag false ops)
  | _ => "bad-op"

def opFollow (a : List String) : String :=
  match a.map ratOfStr with
  | psi0 :: vs => " ".intercalate ((Perp.follow (fun x => x) psi0 vs).map strOfRat)
  | _ => "bad-op"

def opAssemble (a : List String) : String :=
  match a with
  | ri :: si :: ns :: vs =>
    let vs := vs.map ratOfStr
    let m := Perp.assemble (fun j x => (1000 * (j : Rat)) + x) (fun _ => vs.headD 0) ns.toNat! vs ri.toNat! si.toNat!
    ";".intercalate (m.map fun r => " ".intercalate (r.map strOfRat))
  | _ => "bad-op"

end Drv.C01
