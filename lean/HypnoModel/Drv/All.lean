import HypnoModel.Drv.C17
import HypnoModel.Drv.C13
import HypnoModel.Drv.C08
import HypnoModel.Drv.C20
import HypnoModel.Drv.C09
import HypnoModel.Drv.C02
import HypnoModel.Drv.C10
import HypnoModel.Drv.C18
