import HypnoModel.Model.Geqdsk
import HypnoModel.Drv.Util
/- driver ops for C17:
   c17w <hexprefix> <nx> <ny> <hasff> <haspp> <hasbdry> <nbdry> <nzbdry> <haslim> <nlim> <nzlim> v…   → hex of the written text
   c17r <hextext>                                                     → err <kind> | ok nx ny v…   -/
namespace Drv.C17
open Geqdsk

/-- parse the output of python's `"%1.9E" % f` -/
def d10 (s : String) : D10 :=
  let cs := s.toList
  let (neg, cs) := match cs with | '-' :: r => (true, r) | r => (false, r)
  match cs with
  | d0 :: '.' :: rest =>
    let frac := rest.takeWhile Char.isDigit
    let tail := rest.dropWhile Char.isDigit
    let allz := (d0 :: frac).all (· = '0')
    match tail with
    | _ :: es :: e1 :: e2 :: _ =>
      ⟨if neg then (if allz then .negzero else .neg) else .pos, d0, frac, es, e1, e2⟩
    | _ => D10.zero
  | _ => D10.zero

def valStr : Val → String
  | .flt c => "f" ++ String.ofList c
  | .int neg n => (if neg then "i-" else "i") ++ toString n

def takeD (n : Nat) (l : List String) : List D10 × List String := ((l.take n).map d10, l.drop n)

def opWrite (a : List String) : String :=
  match a with
  | pre :: nx :: ny :: hasff :: haspp :: hasb :: nb :: nzb :: hasl :: nl :: nzl :: vs =>
    let nx := nx.toNat!; let ny := ny.toNat!
    let nb := nb.toNat!; let nzb := nzb.toNat!; let nl := nl.toNat!; let nzl := nzl.toNat!
    let (sc, vs) := takeD 11 vs
    match sc with
    | [rdim, zdim, rcentr, rleft, zmid, rmagx, zmagx, simagx, sibdry, bcentr, cpasma] =>
      let (fpol, vs) := takeD nx vs
      let (pres, vs) := takeD nx vs
      let (ff, vs) := if hasff = "1" then takeD nx vs else ([], vs)
      let (pp, vs) := if haspp = "1" then takeD nx vs else ([], vs)
      let (psi, vs) := takeD (nx * ny) vs     -- psi[x][y], x outer
      let (q, vs) := takeD nx vs
      let (rb, vs) := takeD nb vs
      let (zb, vs) := takeD nzb vs
      let (rl, vs) := takeD nl vs
      let (zl, _) := takeD nzl vs
      let d : Data D10 :=
        { nx := nx, ny := ny,
          sc := ⟨rdim, zdim, rcentr, rleft, zmid, rmagx, zmagx, simagx, sibdry, bcentr, cpasma⟩,
          fpol := fpol, pres := pres,
          ffprime := if hasff = "1" then some ff else none,
          pprime := if haspp = "1" then some pp else none,
          psi := fun x y => psi.getD (x * ny + y) D10.zero, qpsi := q,
          rbdry := if hasb = "1" then some rb else none, zbdry := zb,
          rlim := if hasl = "1" then some rl else none, zlim := zl }
      tohex (write (unhex pre.toList) d)
    | _ => "bad-op"
  | _ => "bad-op"

def opRead (a : List String) : String :=
  match a with
  | [h] =>
    match read (unhex h.toList) with
    | .error e => "err " ++ (match e with | .header => "header" | .eof => "eof" | .type => "type")
    | .ok r =>
      let s := r.sc
      let all := [s.rdim, s.zdim, s.rcentr, s.rleft, s.zmid, s.rmagx, s.zmagx, s.simagx, s.sibdry, s.bcentr, s.cpasma]
        ++ r.fpol ++ r.pres ++ r.ffprime ++ r.pprime
        ++ ((List.range r.nx).flatMap fun x => (List.range r.ny).map fun y => (r.psi x y).getD (.int true 0))
        ++ r.qpsi
      s!"ok {r.nx} {r.ny} {r.rbdry.length} {r.rlim.length} " ++
        " ".intercalate ((all ++ r.rbdry ++ r.zbdry ++ r.rlim ++ r.zlim).map valStr)
  | _ => "bad-op"

end Drv.C17
