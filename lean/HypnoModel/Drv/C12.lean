import HypnoModel.Model.Valid
import HypnoModel.Drv.Util
/- driver ops for C12:
   c12m nx ny ixseps1 ixseps2 j11 j21 nyinner j12 j22 myg nxfile nyfile   → rows of 0/1 (chiDefined), rows joined by ";"
   c12v missing badShape nonfinite nonpositive zeroDx folded                → true|false
   c12c <eq keys ,> <nonorth keys ,> <mesh keys ,> <given keys ,>          → true|false -/
namespace Drv.C12
open Valid Topology

def opMask (a : List String) : String :=
  match a.map String.toInt! with
  | [nx, ny, i1, i2, j11, j21, nyi, j12, j22, myg, nxf, nyf] =>
    let t : Topo := ⟨nx, ny, i1, i2, j11, j21, nyi, j12, j22⟩
    ";".intercalate ((List.range nxf.toNat).map fun (x : Nat) =>
      String.ofList ((List.range nyf.toNat).map fun (j : Nat) => if chiDefined t myg (x : Int) (j : Int) then '1' else '0'))
  | _ => "bad-op"

def opVerdict (a : List String) : String :=
  match a.map String.toNat! with
  | [m, b, n, p, z, f] => toString (verdict ⟨m, b, n, p, z, f⟩)
  | _ => "bad-op"

def ks (s : String) : List String := if s == "-" then [] else s.splitOn ","

def opCli (a : List String) : String :=
  match a with
  | [e, n, m, g] => toString (cliAccepts (ks e) (ks n) (ks m) (ks g))
  | _ => "bad-op"

end Drv.C12
