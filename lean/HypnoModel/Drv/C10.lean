import HypnoModel.Gen.PolSpacing
import HypnoModel.Drv.Util
/- driver op for C10: Float twins of the generated poloidal spacing functions.
   c10 <path> <length> <N> <N_norm> <p1|-> <p2|-> <p3|-> <p4|-> <root|-> i0 i1 …     (hex bit patterns)
   parameters p1..p4: sqrt paths: b_lower a_lower b_upper a_upper; mono paths: d_lower d_upper - - -/
namespace Drv.C10
open Gen.F.PolSpacing

def op (a : List String) : String :=
  match a with
  | path :: len :: n :: nn :: p1 :: p2 :: p3 :: p4 :: root :: is =>
    let f := floatOfHex
    let L := f len; let N := f n; let NN := f nn
    let is := is.map f
    let out : Option (List Float) :=
      match path with
      | "linear" => some (is.map (linear L N))
      | "sqrtNone" => some (is.map (sqrtNone L N NN))
      | "sqrtUpperOnly" => some (is.map (sqrtUpperOnly L N NN (f p3) (f p4)))
      | "sqrtLowerOnly" => some (is.map (sqrtLowerOnly L N NN (f p1) (f p2)))
      | "sqrtBoth00" => some (is.map (sqrtBoth00 L N NN (f p1) (f p2) (f p3) (f p4)))
      | "sqrtBoth0b" => some (is.map (sqrtBoth0b L N NN (f p1) (f p2) (f p3) (f p4)))
      | "sqrtBotha0" => some (is.map (sqrtBotha0 L N NN (f p1) (f p2) (f p3) (f p4)))
      | "sqrtBothab" => some (is.map (sqrtBothab L N NN (f p1) (f p2) (f p3) (f p4)))
      | "monoConvex" => some (is.map (monoConvex L N NN (f p1) (f p2)))
      | "monoConcave" => some (is.map (monoConcave L N NN (f p1) (f p2) (f root)) ++ [monoConcave_constraint L N NN (f p1) (f p2) (f root)])
      | _ => none
    match out with
    | some vs => " ".intercalate (vs.map hexOfFloat)
    | none => "bad-op"
  | _ => "bad-op"

end Drv.C10
