import HypnoModel.Model.Wall
import HypnoModel.Model.Extend
import HypnoModel.Drv.C20
/- driver ops for C11:
   c11n <poly>                               → normalised wall, then closed wall   ("r,z;r,z | r,z;…")
   c11i startInd endInd index p v0 v1 …      (integer points) → "pts… | startInd endInd"
   c11x startInd endInd lo hi nlow nup low… up… v…   temporaryExtend bookkeeping → "pts… | startInd endInd"
   c11w lw uw li lp ui up radius startInd endInd v0 v1 …   (integer points on a line; near a b = |a-b| < radius)
                                             → "pts… | startInd endInd" | "error"
   c11p <closedwall> <p0> <p1> <p2>          → squared mask value (rational) -/
namespace Drv.C11
open Intersect Wall Drv.C20

def showPts (l : List Pt) : String := if l.isEmpty then "-" else ";".intercalate (l.map ptStr)

def opNorm (a : List String) : String :=
  match a with
  | [p] => let w := normalise (pts p); showPts w ++ " | " ++ showPts (closed w)
  | _ => "bad-op"

def showC (c : Contour Int) : String := " ".intercalate (c.pts.map toString) ++ s!" | {c.startInd} {c.endInd}"

def opInsert (a : List String) : String :=
  match a.map String.toInt! with
  | si :: ei :: idx :: p :: vs => showC (Contour.insert ⟨vs, si, ei⟩ idx p)
  | _ => "bad-op"

/-- c11x startInd endInd lo hi nlow nup low… up… v…  (integer points on a line; in range = lo ≤ p ≤ hi) -/
def opExtend (a : List String) : String :=
  match a.map String.toInt! with
  | si :: ei :: lo :: hi :: nl :: nu :: rest =>
    let lows := rest.take nl.toNat
    let ups := (rest.drop nl.toNat).take nu.toNat
    let vs := rest.drop (nl.toNat + nu.toNat)
    showC (Contour.temporaryExtend (fun p => decide (lo ≤ p ∧ p ≤ hi)) ⟨vs, si, ei⟩ lows ups)
  | _ => "bad-op"

def opWall (a : List String) : String :=
  match a.map String.toInt! with
  | lw :: uw :: li :: lp :: ui :: up :: rad :: si :: ei :: vs =>
    let near : Int → Int → Bool := fun x y => decide ((x - y).natAbs < rad.toNat)
    match addWallPoints near ⟨vs, si, ei⟩ (lw == 1) (uw == 1) li lp ui up with
    | some (c, _, _) => showC c
    | none => "error"
  | _ => "bad-op"

def opMask (a : List String) : String :=
  match a with
  | [w, p0, p1, p2] => strOfRat (maskSq eps tol (pts w) (pt p0) (pt p1) (pt p2))
  | _ => "bad-op"

end Drv.C11
