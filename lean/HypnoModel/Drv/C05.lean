import HypnoModel.Model.Distance
import HypnoModel.Drv.Util
/- driver ops for C05/C06 (Float instances of the generic model):
   c05hy d0 d1 …                     → hyCentre values | hyYlowInner values   (separated by "|")
   c05pd <start0> d…  / <start1> d… / …   (regions of one chain, separated by "/") → per region the chain values, "/" separated
   c06tz x… / y…                     → cumulative trapezoid -/
namespace Drv.C05
open Distance

def fl (l : List String) : List Float := l.map floatOfHex
def out (l : List Float) : String := " ".intercalate (l.map hexOfFloat)

def splitOnTok (tok : String) (a : List String) : List (List String) :=
  a.foldr (fun s acc => if s = tok then [] :: acc else match acc with | h :: t => (s :: h) :: t | [] => [[s]]) [[]]

def opHy (a : List String) : String :=
  let d := fl a
  out (hyCentre d) ++ " | " ++ out (hyYlowInner d)

/-- c05hj d… / below… / above…   (an empty part = no neighbour) → all y-face values -/
def opHyJoin (a : List String) : String :=
  match splitOnTok "/" a with
  | [d, b, u] =>
    let o (l : List String) : Option (List Float) := if l.isEmpty then none else some (fl l)
    out (hyYlowAll (fl d) (o b) (o u))
  | _ => "bad-op"

def opPD (a : List String) : String :=
  let regs := (splitOnTok "/" a).filterMap fun r => match r with
    | s :: d => some (fl d, s.toNat!)
    | [] => none
  " / ".intercalate ((chainPD (0 : Float) regs).map out)

def opTZ (a : List String) : String :=
  match splitOnTok "/" a with
  | [x, y] => out (cumtrapz (fl x) (fl y))
  | _ => "bad-op"

end Drv.C05
