import HypnoModel.Drv.All
/- line-protocol driver:  lake env lean --run Driver.lean < ops   (one op per line, one answer per line) -/
def step (line : String) : String :=
  match Drv.words line with
  | "c17w" :: a => Drv.C17.opWrite a
  | "c17r" :: a => Drv.C17.opRead a
  | "c13" :: a => Drv.C13.op a
  | "c08" :: a => Drv.C08.op a
  | "c08t" :: a => Drv.C08.opT a
  | "c08u" :: a => Drv.C08.opU a
  | "c08x" :: a => Drv.C08.opX a
  | "c09" :: a => Drv.C09.op a
  | "c19d" :: a => Drv.C19.opD a
  | "c19dup" :: a => Drv.C19.opDup a
  | "c19sx" :: a => Drv.C19.opSX a
  | "c19so" :: a => Drv.C19.opSO a
  | "c19n" :: a => Drv.C19.opN a
  | "c14c" :: a => Drv.C14.opCreate a
  | "c14e" :: a => Drv.C14.opEmbed a
  | "c01n" :: a => Drv.C01.opNewton a
  | "c01m" :: a => Drv.C01.opMethods a
  | "c01g" :: a => Drv.C01.opGetRefined a
  | "c01f" :: a => Drv.C01.opFill a
  | "c01p" :: a => Drv.C01.opPipeline a
  | "c04f" :: a => Drv.C01.opFollow a
  | "c04a" :: a => Drv.C01.opAssemble a
  | "c15" :: a => Drv.C15.op a
  | "c11n" :: a => Drv.C11.opNorm a
  | "c11i" :: a => Drv.C11.opInsert a
  | "c11w" :: a => Drv.C11.opWall a
  | "c11x" :: a => Drv.C11.opExtend a
  | "c11p" :: a => Drv.C11.opMask a
  | "c12m" :: a => Drv.C12.opMask a
  | "c12v" :: a => Drv.C12.opVerdict a
  | "c12c" :: a => Drv.C12.opCli a
  | "c05hy" :: a => Drv.C05.opHy a
  | "c05hj" :: a => Drv.C05.opHyJoin a
  | "c06dx" :: a => Drv.C06.opDx a
  | "c06ddx" :: a => Drv.C06.opDdx a
  | "c05pd" :: a => Drv.C05.opPD a
  | "c06tz" :: a => Drv.C05.opTZ a
  | "c03s" :: a => Drv.C03.opS a
  | "c03r" :: a => Drv.C03.opR a
  | "c03g" :: a => Drv.C03.opG a
  | "c18h" :: a => Drv.C18.opH a
  | "c07" :: a => Drv.C18.opC a
  | "c07xy" :: a => Drv.C18.opXY a
  | "c10" :: a => Drv.C10.op a
  | "c02" :: a => Drv.C02.op a
  | "c20f" :: a => Drv.C20.opF a
  | "c20c" :: a => Drv.C20.opC a
  | "c20a" :: a => Drv.C20.opA a
  | "c20i" :: a => Drv.C20.opI a
  | _ => "bad-op"

partial def loop (h : IO.FS.Stream) (out : IO.FS.Stream) : IO Unit := do
  let line ← h.getLine
  if line.isEmpty then return ()
  out.putStrLn (step (String.ofList (line.toList.filter (· ≠ '\n'))))
  loop h out

def main : IO Unit := do loop (← IO.getStdin) (← IO.getStdout)
