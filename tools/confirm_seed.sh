#!/bin/bash
# confirm a seeded change delivered by a sub-agent in /tmp/seed/<ID>/_seed and store it under /verif/seeded/<ID><suffix>/
# usage: confirm_seed.sh ID [suffix] [patchfile] [base-commit]
#   patchfile: patch to confirm (default _seed/patch.diff); base-commit: commit of /repo the patch applies to (default: worktree HEAD)
ID=$1; SUF=${2:-}; WT=/tmp/seed/$ID; OUT=/verif/seeded/$ID$SUF
PATCH=${3:-$WT/_seed/patch.diff}; BASE=${4:-}
set -u
cd $WT || exit 2
mkdir -p $OUT
DEMO=$(ls _seed/demo*.py | head -1)
cp $PATCH $OUT/patch.diff; cp $DEMO $OUT/; cp _seed/meta.json $OUT/meta.agent.json
cp -r _seed /tmp/seed/$ID.seedcopy
git checkout -q -- . ; git clean -fdq   # (no git stash: the stash is shared between worktrees)
[ -n "$BASE" ] && git checkout -q --detach $BASE
git rev-parse HEAD > $OUT/base_commit.txt
mkdir -p _seed; cp $OUT/$(basename $DEMO) _seed/
( timeout 900 /venv/bin/python $DEMO > $OUT/demo_without.log 2>&1; echo "exit=$?" >> $OUT/demo_without.log )
git apply $OUT/patch.diff || { echo "patch does not apply" > $OUT/confirm.txt; exit 1; }
( timeout 900 /venv/bin/python $DEMO > $OUT/demo_with.log 2>&1; echo "exit=$?" >> $OUT/demo_with.log )
/venv/bin/python -m pytest -q -p no:cacheprovider --timeout=900 hypnotoad > $OUT/pytest_with.log 2>&1
tail -1 $OUT/pytest_with.log > $OUT/confirm.txt
tail -1 $OUT/demo_without.log >> $OUT/confirm.txt
tail -1 $OUT/demo_with.log >> $OUT/confirm.txt
rm -rf /tmp/seed/$ID.seedcopy
cat $OUT/confirm.txt
