#!/venv/bin/python
"""regenerate every lean/HypnoModel/Gen/*.lean from /repo's current working tree (used after a seeded change has been reverted)"""
import os
import sys

sys.path.insert(0, os.path.join(os.path.dirname(os.path.dirname(os.path.abspath(__file__))), "py"))
from gen import gen_spacing, gen_metric, gen_polspacing, gen_fields, gen_critical, gen_pipeline, gen_geom1, gen_contour, gen_spacings, gen_follow, gen_tokamak, gen_xind, gen_parmap  # noqa: E402

for g in (gen_spacing, gen_metric, gen_polspacing, gen_fields, gen_critical, gen_pipeline, gen_geom1, gen_contour, gen_spacings, gen_follow, gen_tokamak, gen_xind, gen_parmap):
    try:
        print(g.__name__, "changed" if g.main() else "unchanged")
    except Exception as e:
        print(g.__name__, "ERROR", e)
