#!/bin/bash
# apply a stored seeded change to /repo, run the owning check (quick), record the verdict, undo the change
# usage: try_seed.sh <seed-dir-name> <property-id> [tier]
S=/verif/seeded/$1; PID=$2; TIER=${3:-quick}
cd /repo && git status --short | grep -v egg-info | grep . && { echo "/repo not clean"; exit 2; }
git -C /repo apply $S/patch.diff || { echo "patch does not apply to current /repo HEAD"; exit 2; }
cd /verif && /venv/bin/python py/check.py $PID --tier $TIER $EXTRA > $S/check_$PID.log 2>&1; RC=$?
git -C /repo checkout -- .
/venv/bin/python /verif/tools/regen.py > /dev/null 2>&1
echo "check $PID --tier $TIER exit=$RC" > $S/check_$PID.txt
grep -h "^VIOLATION\|^KNOWN" $S/check_$PID.log | head -5 >> $S/check_$PID.txt
for f in $(grep -ho "replay=[^ ]*" $S/check_$PID.log | head -3 | cut -d= -f2); do python3 -c "
import json;j=json.load(open('/verif/$f'));print('  ',j.get('witness'),'|',str(j.get('what',j.get('broken')))[:300])" >> $S/check_$PID.txt; done
cat $S/check_$PID.txt
git -C /verif checkout -- evidence/$PID.json 2>/dev/null
rm -f /verif/replays/$PID-*.json
