#!/usr/bin/env python3
"""compose seeded/<dir>/meta.json from the agent's meta, my confirmation logs and the check verdicts"""
import glob, json, os, sys
V = os.path.dirname(os.path.dirname(os.path.abspath(__file__)))
for d in sorted(glob.glob(os.path.join(V, "seeded", "*"))):
    if not os.path.isdir(d):
        continue
    ag = {}
    try:
        ag = json.load(open(os.path.join(d, "meta.agent.json")))
    except Exception:
        pass
    conf = open(os.path.join(d, "confirm.txt")).read().split("\n") if os.path.exists(os.path.join(d, "confirm.txt")) else []
    checks = {}
    for f in sorted(glob.glob(os.path.join(d, "check_*.txt"))):
        checks[os.path.basename(f)[6:-4]] = open(f).read().strip().split("\n")
    base = open(os.path.join(d, "base_commit.txt")).read().strip() if os.path.exists(os.path.join(d, "base_commit.txt")) else "4ccce35 (pinned commit)"
    meta = {
        "property": ag.get("property", os.path.basename(d)[:3]),
        "summary": ag.get("summary"),
        "needs": ag.get("needs"),
        "files": ag.get("files"),
        "base_commit": base,
        "confirmed_by_me": {
            "what_i_ran": "tools/confirm_seed.sh: clean scratch worktree at base_commit; demo without the patch; git apply patch.diff; demo with the patch; full pytest suite with the patch",
            "pytest_with_patch": conf[0] if conf else None,
            "demo_without_patch": conf[1] if len(conf) > 1 else None,
            "demo_with_patch": conf[2] if len(conf) > 2 else None,
        },
        "checks_run_against_it": checks,
        "how_checked": "tools/try_seed.sh: git -C /repo apply patch.diff; /venv/bin/python py/check.py <id> --tier quick; git -C /repo checkout -- .",
    }
    json.dump(meta, open(os.path.join(d, "meta.json"), "w"), indent=1)
    print(os.path.basename(d), meta["confirmed_by_me"]["pytest_with_patch"], "|", {k: v[0] for k, v in checks.items()})
