#!/usr/bin/env python3
"""Regenerate MANIFEST.json from tools/manifest_src.json (claimed properties) + properties.jsonl."""
import json, os
V = os.path.dirname(os.path.dirname(os.path.abspath(__file__)))
src = json.load(open(os.path.join(V, "tools", "manifest_src.json")))
props = [json.loads(l) for l in open(os.path.join(V, "properties.jsonl"))]
checks, na = [], []
for p in props:
    pid = p["id"]
    if pid in src["claimed"]:
        c = src["claimed"][pid]
        checks.append({
            "property_id": pid,
            "quick_cmd": "/venv/bin/python py/check.py %s --tier quick" % pid,
            "thorough_cmd": "/venv/bin/python py/check.py %s --tier thorough" % pid,
            "evidence_file": "evidence/%s.json" % pid,
            "replay_cmd_template": "/venv/bin/python py/check.py %s --replay {path}" % pid,
            "engine": "lean4+correspondence",
            "level_claimed": {"category": "proof", "text": c["text"], "design_ref": "DESIGN.md §%s" % pid},
            "level_note": c["note"],
            "technique": c["technique"],
        })
    else:
        na.append({"property_id": pid, "reason": src["not_claimed"].get(pid, "check not built yet in this round; see DESIGN.md §%s for the plan" % pid)})
m = {
    "version": 1,
    "setup_cmd": "cd lean && lake build",
    "hooks": {"guard": "HYPNOTOAD_VERIF", "enable": "no source hooks are used: all instrumentation is in-process wrapping from py/props/*.py (the guard name is reserved and unused)",
              "baseline_off_cmd": "cd /repo && /venv/bin/python -m pytest -ra -q -p no:cacheprovider --timeout=900 --continue-on-collection-errors",
              "source_commits": [], "add_only": True},
    "engines": [{"name": "lean4+correspondence", "path": "lean/ py/", "serves_properties": sorted(src["claimed"]),
                 "kind_free_text": "Lean 4 models + theorems (lean/HypnoModel), tied to /repo by py2lean regeneration and/or differential correspondence through lean/Driver.lean; failing-input search on the implementation when either breaks"}],
    "checks": checks,
    "notes": src.get("notes", ""),
    "not_applicable": na,
}
json.dump(m, open(os.path.join(V, "MANIFEST.json"), "w"), indent=1)
print("claimed", len(checks), "not claimed", len(na))
