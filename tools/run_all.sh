#!/bin/bash
# run every check of a tier on the current tree, one after the other; summary on stdout
TIER=${1:-quick}; shift
cd /verif
for i in 01 02 03 04 05 06 07 08 09 10 11 12 13 14 15 16 17 18 19 20; do
  s=$(date +%s)
  /venv/bin/python py/check.py C$i --tier $TIER > .work/run_C$i.$TIER.log 2>&1; rc=$?
  echo "C$i $TIER exit=$rc $(( $(date +%s) - s ))s $(grep -c '^VIOLATION' .work/run_C$i.$TIER.log) violations $(grep -c '^KNOWN-FINDING' .work/run_C$i.$TIER.log) known | $(tail -1 .work/run_C$i.$TIER.log | cut -c1-150)"
done
