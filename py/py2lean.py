"""py2lean — a small translator from the arithmetic subset of Python used by hypnotoad's formula code to Lean 4.

It symbolically executes a function body (assignments, if/elif/else, raise, return of an expression or a lambda,
nested single-return defs) and yields its *paths*: (guard conjuncts, result).  Each result expression is printed twice
from the same IR: over the reals (namespace Gen.R, noncomputable, for the theorems) and over Float (namespace Gen.F,
executable, for the differential check of the translator itself).  Unsupported syntax raises Unsupported
(fail-closed: the caller treats that like a failed proof)."""
import ast
from fractions import Fraction


class Unsupported(Exception):
    pass


# ------------------------------------------------------------------ IR
# ("num", Fraction) ("var", name) ("bin", op, a, b) ("neg", a) ("call", fname, [args]) ("cmp", op, a, b)
# ("and", [..]) ("or", [..]) ("not", a) ("isnone", name) ("lam", [params], body) ("ifexp", c, a, b)
# ("tupleidx", expr, k)

FUNCS = {"sqrt": "sqrt", "abs": "abs", "sin": "sin", "cos": "cos", "exp": "exp", "log": "log", "tan": "tan",
         "arctan": "arctan", "sign": "sign"}


def const(v):
    if isinstance(v, bool):
        raise Unsupported("bool constant")
    if isinstance(v, int):
        return ("num", Fraction(v))
    if isinstance(v, float):
        return ("num", Fraction(repr(v)))  # the decimal the source shows, e.g. 1.0e-8 -> 1/100000000
    if isinstance(v, str):
        return ("str", v)  # only meaningful inside branch conditions (option values)
    raise Unsupported("constant %r" % (v,))


class Translator:
    def __init__(self, externals=(), numpy_names=("numpy", "np")):
        self.externals = set(externals)  # names of opaque functions kept as parameters (erf, brentq roots, ...)
        self.numpy_names = set(numpy_names)

    # ---- expressions
    def expr(self, node, env):
        if isinstance(node, ast.Constant):
            if node.value is None:
                return ("none",)
            return const(node.value)
        if isinstance(node, ast.Name):
            if node.id in env:
                return env[node.id]
            return ("var", node.id)
        if isinstance(node, ast.Attribute):
            if isinstance(node.value, ast.Attribute) and isinstance(node.value.value, ast.Name) \
                    and node.value.value.id == "self" and node.value.attr == "user_options":
                return ("var", "opt_" + node.attr)
            if isinstance(node.value, ast.Name) and node.value.id in self.numpy_names and node.attr == "pi":
                return ("var", "pi")
            if isinstance(node.value, ast.Name) and node.value.id == "self":
                key = "self." + node.attr
                if key in env:
                    return env[key]
                return ("var", "self_" + node.attr)
            raise Unsupported("attribute %s" % ast.dump(node))
        if isinstance(node, ast.UnaryOp):
            if isinstance(node.op, ast.USub):
                return ("neg", self.expr(node.operand, env))
            if isinstance(node.op, ast.UAdd):
                return self.expr(node.operand, env)
            if isinstance(node.op, ast.Not):
                return ("not", self.expr(node.operand, env))
            raise Unsupported("unary op")
        if isinstance(node, ast.BinOp):
            ops = {ast.Add: "+", ast.Sub: "-", ast.Mult: "*", ast.Div: "/", ast.Pow: "^"}
            if type(node.op) not in ops:
                raise Unsupported("binary op %s" % type(node.op).__name__)
            a, b = self.expr(node.left, env), self.expr(node.right, env)
            if ops[type(node.op)] == "^":
                if b[0] != "num":
                    raise Unsupported("non-literal exponent")
                if b[1].denominator == 1 and b[1] >= 0:
                    return ("pow", a, int(b[1]))
                if b[1] == Fraction(1, 2):
                    return ("call", "sqrt", [a])
                if b[1] == Fraction(3, 2):
                    return ("bin", "*", a, ("call", "sqrt", [a]))
                raise Unsupported("exponent %s" % b[1])
            return ("bin", ops[type(node.op)], a, b)
        if isinstance(node, ast.Compare):
            if len(node.ops) != 1:
                raise Unsupported("chained comparison")
            op = node.ops[0]
            left, right = node.left, node.comparators[0]
            if isinstance(op, (ast.Is, ast.IsNot)):
                if isinstance(right, ast.Constant) and right.value is None and isinstance(left, ast.Name):
                    r = ("isnone", left.id)
                    return r if isinstance(op, ast.Is) else ("not", r)
                raise Unsupported("is-comparison")
            ops = {ast.Lt: "<", ast.LtE: "≤", ast.Gt: ">", ast.GtE: "≥", ast.Eq: "=", ast.NotEq: "≠"}
            if type(op) not in ops:
                raise Unsupported("comparison")
            return ("cmp", ops[type(op)], self.expr(left, env), self.expr(right, env))
        if isinstance(node, ast.BoolOp):
            parts = [self.expr(v, env) for v in node.values]
            return ("and" if isinstance(node.op, ast.And) else "or", parts)
        if isinstance(node, ast.IfExp):
            return ("ifexp", self.expr(node.test, env), self.expr(node.body, env), self.expr(node.orelse, env))
        if isinstance(node, ast.Lambda):
            params = [a.arg for a in node.args.args]
            env2 = {k: v for k, v in env.items() if k not in params}
            return ("lam", params, self.expr(node.body, env2))
        if isinstance(node, ast.Call):
            f = node.func
            is_pw = isinstance(f, ast.Attribute) and isinstance(f.value, ast.Name) and f.value.id in self.numpy_names \
                and f.attr == "piecewise"
            args = [] if is_pw else [self.expr(a, env) for a in node.args]
            if is_pw:
                if len(node.args) != 3 or not isinstance(node.args[1], ast.List) or not isinstance(node.args[2], ast.List):
                    raise Unsupported("piecewise shape")
                x = self.expr(node.args[0], env)
                cs = [self.expr(c, env) for c in node.args[1].elts]
                fs = [self.expr(g, env) for g in node.args[2].elts]
                if len(fs) not in (len(cs), len(cs) + 1):
                    raise Unsupported("piecewise arity")

                def app(g):
                    if g[0] != "lam" or len(g[1]) != 1:
                        raise Unsupported("piecewise branch is not a one-argument function")
                    return subst(g[2], {g[1][0]: x})

                # numpy.piecewise: where several conditions hold the LAST one wins; default where none holds
                out = app(fs[len(cs)]) if len(fs) == len(cs) + 1 else ("num", Fraction(0))
                for c, g in zip(cs, fs):
                    out = ("ifexp", c, app(g), out)
                return out
            if isinstance(f, ast.Attribute) and isinstance(f.value, ast.Name) and f.value.id in self.numpy_names:
                if f.attr in FUNCS:
                    return ("call", FUNCS[f.attr], args)
                raise Unsupported("numpy.%s" % f.attr)
            if isinstance(f, ast.Name):
                if f.id in env and env[f.id][0] == "lam":
                    lam = env[f.id]
                    if len(lam[1]) != len(args):
                        raise Unsupported("arity")
                    return subst(lam[2], dict(zip(lam[1], args)))
                if f.id in ("abs", "max", "min"):
                    return ("call", f.id, args)
                if f.id == "float" and len(args) == 1:
                    return args[0]
                if f.id in self.externals:
                    return ("call", "ext_" + f.id, args)
            raise Unsupported("call %s" % ast.dump(f)[:80])
        if isinstance(node, ast.Subscript) and isinstance(node.slice, ast.Constant) and isinstance(node.slice.value, int):
            return ("tupleidx", self.expr(node.value, env), node.slice.value)
        raise Unsupported("expression %s" % type(node).__name__)

    # ---- statements: returns list of paths (conds, kind, payload)
    def block(self, stmts, env, conds, tracked=None):
        paths = []
        env = dict(env)
        for k, st in enumerate(stmts):
            if isinstance(st, ast.Expr) and isinstance(st.value, ast.Constant):
                continue  # docstring
            if isinstance(st, ast.Assign):
                if len(st.targets) != 1:
                    raise Unsupported("multiple assignment targets")
                t = st.targets[0]
                val = self.expr(st.value, env)
                if isinstance(t, ast.Name):
                    env[t.id] = val
                elif isinstance(t, ast.Attribute) and isinstance(t.value, ast.Name) and t.value.id == "self":
                    env["self." + t.attr] = val
                elif isinstance(t, ast.Tuple) and all(isinstance(e, ast.Name) for e in t.elts):
                    for j, e in enumerate(t.elts):
                        env[e.id] = ("tupleidx", val, j)
                else:
                    raise Unsupported("assignment target")
                continue
            if isinstance(st, ast.FunctionDef):
                body = [s for s in st.body if not (isinstance(s, ast.Expr) and isinstance(s.value, ast.Constant))]
                params = [a.arg for a in st.args.args]
                env2 = {k2: v for k2, v in env.items() if k2 not in params}
                sub = self.block(body, env2, [], tracked)
                if len(sub) != 1 or sub[0][1] != "return":
                    raise Unsupported("nested def %s is not a single-return function" % st.name)
                env[st.name] = ("lam", params, sub[0][2])
                continue
            if isinstance(st, ast.If):
                c = self.expr(st.test, env)
                rest = stmts[k + 1:]
                paths += self.block(list(st.body) + rest, env, conds + [c], tracked)
                paths += self.block(list(st.orelse) + rest, env, conds + [("not", c)], tracked)
                return paths
            if isinstance(st, ast.Raise):
                paths.append((conds, "raise", None))
                return paths
            if isinstance(st, ast.Return):
                try:
                    paths.append((conds, "return", self.expr(st.value, env) if st.value is not None else ("none",)))
                except Unsupported as e:
                    # may be an infeasible path (e.g. a helper only defined under the complementary condition); the caller
                    # must reject it if the path conditions turn out to be satisfiable
                    paths.append((conds, "unsupported", str(e)))
                return paths
            raise Unsupported("statement %s" % type(st).__name__)
        paths.append((conds, "end", env))
        return paths


def subst(e, m):
    t = e[0]
    if t == "var":
        return m.get(e[1], e)
    if t in ("num", "none", "isnone", "str", "equilib", "extfn", "bool"):
        return e
    if t == "bin":
        return ("bin", e[1], subst(e[2], m), subst(e[3], m))
    if t == "neg":
        return ("neg", subst(e[1], m))
    if t == "not":
        return ("not", subst(e[1], m))
    if t == "pow":
        return ("pow", subst(e[1], m), e[2])
    if t == "call":
        return ("call", e[1], [subst(a, m) for a in e[2]])
    if t == "cmp":
        return ("cmp", e[1], subst(e[2], m), subst(e[3], m))
    if t in ("and", "or"):
        return (t, [subst(a, m) for a in e[1]])
    if t == "ifexp":
        return ("ifexp", subst(e[1], m), subst(e[2], m), subst(e[3], m))
    if t == "lam":
        m2 = {k: v for k, v in m.items() if k not in e[1]}
        return ("lam", e[1], subst(e[2], m2))
    if t == "tupleidx":
        return ("tupleidx", subst(e[1], m), e[2])
    raise Unsupported("subst " + t)


def free_vars(e, acc=None):
    acc = acc if acc is not None else []
    t = e[0]
    if t == "var":
        if e[1] not in acc:
            acc.append(e[1])
    elif t in ("bin", "cmp"):
        free_vars(e[2], acc)
        free_vars(e[3], acc)
    elif t in ("neg", "not"):
        free_vars(e[1], acc)
    elif t == "pow":
        free_vars(e[1], acc)
    elif t == "call":
        for a in e[2]:
            free_vars(a, acc)
    elif t in ("and", "or"):
        for a in e[1]:
            free_vars(a, acc)
    elif t == "ifexp":
        for a in e[1:]:
            free_vars(a, acc)
    elif t == "lam":
        inner = free_vars(e[2], [])
        for v in inner:
            if v not in e[1] and v not in acc:
                acc.append(v)
    elif t == "tupleidx":
        free_vars(e[1], acc)
    return acc


# ------------------------------------------------------------------ printers

REAL_FN = {"sqrt": "Real.sqrt", "sin": "Real.sin", "cos": "Real.cos", "exp": "Real.exp", "log": "Real.log", "tan": "Real.tan",
           "arctan": "Real.arctan", "abs": "abs", "max": "max", "min": "min", "sign": "SignType.sign"}
FLOAT_FN = {"sqrt": "Float.sqrt", "sin": "Float.sin", "cos": "Float.cos", "exp": "Float.exp", "log": "Float.log", "tan": "Float.tan",
            "arctan": "Float.atan", "abs": "Float.abs", "max": "max", "min": "min"}


def lean_name(v):
    return {"pi": "π"}.get(v, v.replace(".", "_"))


def pr(e, mode):
    """mode 'R' or 'F'"""
    t = e[0]
    if t == "num":
        q = e[1]
        if mode == "R":
            if q.denominator == 1:
                return "(%d : ℝ)" % q.numerator if q >= 0 else "(-%d : ℝ)" % (-q.numerator)
            return "((%d : ℝ) / %d)" % (q.numerator, q.denominator)
        if q.denominator == 1:
            return "(%d : Float)" % q.numerator if q >= 0 else "(-%d : Float)" % (-q.numerator)
        return "((%d : Float) / %d)" % (q.numerator, q.denominator)
    if t == "var":
        if e[1] == "pi":
            return "Real.pi" if mode == "R" else "(3.141592653589793 : Float)"
        return lean_name(e[1])
    if t == "bin":
        return "(%s %s %s)" % (pr(e[2], mode), e[1], pr(e[3], mode))
    if t == "neg":
        return "(-%s)" % pr(e[1], mode)
    if t == "pow":
        if mode == "R":
            return "(%s ^ %d)" % (pr(e[1], mode), e[2])
        # Float: repeated multiplication (Python's float ** int uses pow(); agreement is to rounding)
        if e[2] == 0:
            return "(1 : Float)"
        x = pr(e[1], mode)
        return "(" + " * ".join([x] * e[2]) + ")"
    if t == "call":
        f = e[1]
        if f.startswith("ext_"):
            return "(%s %s)" % (f[4:], " ".join(pr(a, mode) for a in e[2]))
        if f == "clip" and len(e[2]) == 3:
            # numpy.clip(x, lo, hi) = minimum(maximum(x, lo), hi)
            return "(min %s (max %s %s))" % (pr(e[2][2], mode), pr(e[2][1], mode), pr(e[2][0], mode))
        tab = REAL_FN if mode == "R" else FLOAT_FN
        if f not in tab:
            raise Unsupported("function %s in mode %s" % (f, mode))
        return "(%s %s)" % (tab[f], " ".join(pr(a, mode) for a in e[2]))
    if t == "cmp":
        return "(%s %s %s)" % (pr(e[2], mode), e[1], pr(e[3], mode))
    if t == "and":
        return "(" + " ∧ ".join(pr(a, mode) for a in e[1]) + ")"
    if t == "or":
        return "(" + " ∨ ".join(pr(a, mode) for a in e[1]) + ")"
    if t == "not":
        return "(¬ %s)" % pr(e[1], mode)
    if t == "ifexp":
        return "(if %s then %s else %s)" % (pr(e[1], mode), pr(e[2], mode), pr(e[3], mode))
    if t == "tupleidx":
        return "(%s).%d" % (pr(e[1], mode), e[2] + 1)
    if t == "rootof":
        return "root"
    if t == "str":
        return '"%s"' % e[1]
    if t == "isnone":
        return "(isNone %s)" % e[1]  # only ever printed into path tables, never into Lean definitions
    raise Unsupported("print " + t)


def parse_function(path, qualname):
    src = open(path).read()
    tree = ast.parse(src)
    parts = qualname.split(".")
    node = tree
    for p in parts:
        found = None
        for ch in ast.iter_child_nodes(node):
            if isinstance(ch, (ast.FunctionDef, ast.ClassDef)) and ch.name == p:
                found = ch
        if found is None:
            raise Unsupported("anchor %s not found in %s" % (qualname, path))
        node = found
    return node


def none_facts(conds):
    """which optional arguments are None on this path: dict name -> True/False, plus the remaining conjuncts"""
    facts, rest = {}, []

    def walk(c, positive=True):
        if c[0] == "isnone":
            facts[c[1]] = positive
        elif c[0] == "not" and c[1][0] == "isnone":
            facts[c[1][1]] = not positive
        elif c[0] == "and" and positive:
            for a in c[1]:
                walk(a, True)
        elif c[0] == "not" and c[1][0] == "and" and not positive:
            rest.append(c)
        elif c[0] == "not" and c[1][0] == "or" and positive:
            for a in c[1][1]:
                walk(("not", a), True)
        else:
            rest.append(c if positive else ("not", c))

    for c in conds:
        walk(c, True)
    return facts, rest
