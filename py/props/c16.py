"""C16 — equivariance under reflection in the midplane and under field reversal.
Lean: mirror relations of the region connection tables and of the topology integers (Model/Topology.lean), evenness of the critical point
selection (C19), parity of the generated field / metric formulas (Gen/Fields, Gen/Metric). Oracle: pairs of complete grids."""
import numpy as np

import vlib

SWAP = [("ny_inner_lower_divertor", "ny_inner_upper_divertor"), ("ny_outer_lower_divertor", "ny_outer_upper_divertor"),
        ("psinorm_pf_lower", "psinorm_pf_upper"), ("psi_pf_lower", "psi_pf_upper")]
MIRROR_GEO = {"lsn": "usn", "usn": "lsn", "ldn": "udn", "udn": "ldn", "cdn": "cdn", "udn2": None}

EQUAL = ["Rxy", "psixy", "hy", "Bxy", "dy", "g11", "g22", "g33", "g_11", "g_22", "g_33", "dx"]
# the property lists R, Z, psixy, hy, |Bpxy|, Bxy and the metric magnitudes; derivative quantities (ShiftTorsion, curvature) are not
# compared: ShiftTorsion in the outermost boundary cell divides a 3 % difference of hy on the unwritten outer x-face of a target
# boundary cell (coarse FineContour, lower/upper extension are different code) by dx, and was a false alarm of the first version
ABS = ["Bpxy", "Btxy", "Brxy", "Bzxy", "J", "g12", "g13", "g23", "g_12", "g_13", "g_23"]


def mu_options(o):
    o = dict(o)
    for a, b in SWAP:
        va, vb = o.pop(a, None), o.pop(b, None)
        if va is not None:
            o[b] = va
        if vb is not None:
            o[a] = vb
    return o


def mu_name(n):
    return n.replace("lower", "\0").replace("upper", "lower").replace("\0", "upper")


def regions_of(o):
    return {r["name"]: r for r in o["extras"]["onsurface"]["regions"].values()}


def rel(a, b):
    s = max(float(np.nanmax(np.abs(a))), float(np.nanmax(np.abs(b))), 1e-300)
    return float(np.nanmax(np.abs(a - b))) / s


def compare_mirror(res, t, A, B, spA):
    """A: grid of the equilibrium, B: grid of its mirror image with lower/upper options exchanged"""
    ra, rb = regions_of(A), regions_of(B)
    if sorted(mu_name(n) for n in ra) != sorted(rb):
        res.violation("mirror-regions:" + t, "%s: regions of the mirror image %s are not the mirrored regions %s" % (t, sorted(rb), sorted(mu_name(n) for n in ra)), {"spec": spA})
        return
    va, vb = A["vars"], B["vars"]
    worst = {}
    for n, r in ra.items():
        q = rb[mu_name(n)]
        sa, sb = r["slice"], q["slice"]
        shape_a = va["Rxy"][sa[0], sa[1]].shape
        if shape_a != vb["Rxy"][sb[0], sb[1]].shape:
            res.violation("mirror-shape:" + t, "%s: region %s has shape %s, its mirror %s has %s" % (t, n, shape_a, mu_name(n), vb["Rxy"][sb[0], sb[1]].shape), {"spec": spA})
            return

        def pair(name, suf=""):
            a = va[name + suf][sa[0], sa[1]]
            b = vb[name + suf][sb[0], sb[1]][:, ::-1]
            return a, b

        for suf in ("", "_xlow"):
            a, b = pair("Rxy", suf)
            az, bz = pair("Zxy", suf)
            worst["pos" + suf] = max(worst.get("pos" + suf, 0), float(np.max(np.hypot(a - b, az + bz))))
        # cell corners: lower-left of cell j <-> upper-left of mirrored cell ny-1-j; lower-right <-> upper-right.
        # Rows on a branch cut through an X-point: each region's points there start a fraction xpoint_offset of the first segment away
        # from the X-point, on the side the region *starts* from, and the upper boundary of a region is copied from the lower
        # boundary of its neighbour; reversing y exchanges start and end, so these rows may differ by up to 2*xpoint_offset*first
        # segment. They get that tolerance; every other point the tight one. (The first version of this check used the tight tolerance
        # everywhere and raised a false alarm of 5e-5 m on exactly these rows.)
        xoff = spA["options"].get("xpoint_offset", 0.1)
        at_start, at_end = r["starts_at_xpoint"], r["ends_at_xpoint"]
        for ca, cb in (("_corners", "_upper_left_corners"), ("_lower_right_corners", "_upper_right_corners")):
            a = va["Rxy" + ca][sa[0], sa[1]]
            az = va["Zxy" + ca][sa[0], sa[1]]
            b = vb["Rxy" + cb][sb[0], sb[1]][:, ::-1]
            bz = vb["Zxy" + cb][sb[0], sb[1]][:, ::-1]
            d = np.hypot(a - b, az + bz)
            if at_start and d.shape[1] > 1:
                seg = np.hypot(a[:, 1] - a[:, 0], az[:, 1] - az[:, 0])
                worst["branch-cut-row/(2*xpoint_offset*segment)"] = max(worst.get("branch-cut-row/(2*xpoint_offset*segment)", 0), float(np.max(d[:, 0] / (2 * xoff * seg))))
                d = d[:, 1:]
            if d.size:
                worst["corners"] = max(worst.get("corners", 0), float(np.max(d)))
        # upper corners of the last cell of A <-> lower corners of the first cell of B
        for ca, cb in (("_upper_left_corners", "_corners"), ("_upper_right_corners", "_lower_right_corners")):
            a = va["Rxy" + ca][sa[0], sa[1]][:, -1]
            az = va["Zxy" + ca][sa[0], sa[1]][:, -1]
            b = vb["Rxy" + cb][sb[0], sb[1]][:, 0]
            bz = vb["Zxy" + cb][sb[0], sb[1]][:, 0]
            d = np.hypot(a - b, az + bz)
            if at_end:
                a2, az2 = va["Rxy" + ca][sa[0], sa[1]][:, -2], va["Zxy" + ca][sa[0], sa[1]][:, -2]
                seg = np.hypot(a - a2, az - az2)
                worst["branch-cut-row/(2*xpoint_offset*segment)"] = max(worst.get("branch-cut-row/(2*xpoint_offset*segment)", 0), float(np.max(d / (2 * xoff * seg))))
            else:
                worst["corners"] = max(worst.get("corners", 0), float(np.max(d)))
        # y-faces: ylow of cell j+1 <-> ylow of mirrored cell ny-1-j (inside the region only)
        a, az = va["Rxy_ylow"][sa[0], sa[1]][:, 1:], va["Zxy_ylow"][sa[0], sa[1]][:, 1:]
        b, bz = vb["Rxy_ylow"][sb[0], sb[1]][:, ::-1][:, :-1], vb["Zxy_ylow"][sb[0], sb[1]][:, ::-1][:, :-1]
        if a.size:
            worst["pos_ylow"] = max(worst.get("pos_ylow", 0), float(np.max(np.hypot(a - b, az + bz))))
        for name in EQUAL + ABS:
            if name not in va or name not in vb:
                continue
            for suf in ("", "_xlow"):
                if name + suf not in va:
                    continue
                a, b = pair(name, suf)
                if name in ABS:
                    a, b = np.abs(a), np.abs(b)
                if not (np.isfinite(a).all() and np.isfinite(b).all()):
                    if not np.array_equal(np.isfinite(a), np.isfinite(b)):
                        worst["finite:" + name + suf] = 1.0
                    continue
                worst[name + suf] = max(worst.get(name + suf, 0), rel(a, b))
            # the same fields at the y-faces inside the region: face j+1 <-> face ny-1-j of the mirror image
            if name + "_ylow" in va and name + "_ylow" in vb:
                a = va[name + "_ylow"][sa[0], sa[1]][:, 1:]
                b = vb[name + "_ylow"][sb[0], sb[1]][:, ::-1][:, :-1]
                if name in ABS:
                    a, b = np.abs(a), np.abs(b)
                if a.size and np.isfinite(a).all() and np.isfinite(b).all():
                    worst[name + "_ylow"] = max(worst.get(name + "_ylow", 0), rel(a, b))
    # the y-faces on region joins: the face between region r (below) and q (above) is stored as q's first face; in the mirror image the same
    # face lies between mu(q) (below) and mu(r) (above) and is stored as mu(r)'s first face
    RA, RB = A["extras"].get("regions"), B["extras"].get("regions")
    if RA and RB:
        byname_b = {x["name"]: x for x in RB.values()}
        for qa in RA.values():
            lo = qa["connections"].get("lower")
            if lo is None or qa["name"] not in ra:
                continue
            r_name = RA[lo]["name"]
            tgt = mu_name(r_name)
            if tgt not in rb:
                continue
            sa, sb = ra[qa["name"]]["slice"], rb[tgt]["slice"]
            # (only the magnitudes that do not vanish at an X-point; each side computes the position of such a face separately, shifted by the
            # xpoint_offset fudge: 2e-4 relative on the unchanged tree, 2e-3 allowed; orthogonal grids only — the angle beta differs there)
            if spA["options"].get("orthogonal", True) is False:
                break
            for name in ("Bpxy", "Bxy", "g11", "g33", "g_22", "g22", "J", "hy"):
                k = name + "_ylow"
                if k not in va or k not in vb:
                    continue
                a, b = va[k][sa[0], sa[1]][:, 0], vb[k][sb[0], sb[1]][:, 0]
                if a.shape != b.shape or not (np.isfinite(a).all() and np.isfinite(b).all()):
                    continue
                a, b = np.abs(a), np.abs(b)
                worst[name + "_ylow@join"] = max(worst.get(name + "_ylow@join", 0), rel(a, b))
    res.extra.setdefault("mirror_worst", {})[t] = {k: v for k, v in sorted(worst.items(), key=lambda kv: -kv[1])[:6]}
    bad_pos = {k: v for k, v in worst.items() if (k.startswith("pos") or k == "corners") and v > 2e-6 or k.startswith("branch-cut") and v > 0.1}
    bad_f = {k: v for k, v in worst.items() if not (k.startswith("pos") or k == "corners" or k.startswith("branch-cut")) and v > (2e-3 if k.endswith("@join") else 2e-4)}
    if bad_pos:
        k = max(bad_pos, key=bad_pos.get)
        res.violation("mirror-positions:" + t, "%s: the grid of the mirror image is not the reflected grid with y reversed: %s differ by %.2e m" % (t, k, bad_pos[k]), {"spec": spA, "worst": bad_pos})
    elif bad_f:
        k = max(bad_f, key=bad_f.get)
        res.violation("mirror-fields:" + t, "%s: %s of the mirror-image grid differs from the reflected grid by %.2e (relative)" % (t, k, bad_f[k]), {"spec": spA, "worst": bad_f})
    else:
        res.traces += 1


# expected factor of each written variable under the three reversals; None = only |.| compared
def sign_table(kind):
    twopi = 2 * np.pi
    if kind == "same":     # two ways of giving the same equilibrium
        return {k: 1 for k in ("Rxy", "Zxy", "psixy", "dx", "Brxy", "Bzxy", "Bpxy", "Btxy", "Bxy", "hy", "dy", "g11", "g22", "g33", "g_11", "g_22", "g_33",
                               "J", "g12", "g13", "g23", "g_12", "g_13", "g_23", "pressure", "zShift")}
    if kind == "psi":      # psi -> -psi (reverse_current)
        return {"Rxy": 1, "Zxy": 1, "psixy": -1, "dx": -1, "Brxy": -1, "Bzxy": -1, "Btxy": 1, "Bxy": 1, "hy": 1, "dy": 1, "g11": 1, "g22": 1, "g33": 1,
                "g_11": 1, "g_22": 1, "g_33": 1}
    if kind == "bt":       # fpol -> -fpol (reverse_Bt)
        return {"Rxy": 1, "Zxy": 1, "psixy": 1, "dx": 1, "Brxy": 1, "Bzxy": 1, "Btxy": -1, "Bxy": 1, "hy": 1, "dy": 1, "g11": 1, "g22": 1, "g33": 1,
                "g_11": 1, "g_22": 1, "g_33": 1, "Bpxy": 1, "J": 1}
    if kind == "twopi":    # psi -> psi / 2pi
        return {"Rxy": 1, "Zxy": 1, "psixy": 1 / twopi, "dx": 1 / twopi, "Brxy": 1 / twopi, "Bzxy": 1 / twopi, "Bpxy": 1 / twopi, "Btxy": 1, "hy": 1, "dy": 1,
                "g11": 1 / twopi ** 2, "g22": 1, "J": twopi}
    raise ValueError(kind)


def compare_reversal(res, t, kind, A, B, spA):
    va, vb = A["vars"], B["vars"]
    tab = sign_table(kind)
    worst = {}
    for name in sorted(va):
        a, b = va[name], vb.get(name)
        if b is None or getattr(a, "dtype", None) is None or a.dtype.kind != "f" or a.ndim != 2 or a.shape != b.shape:
            continue
        base = name.replace("_xlow", "").replace("_ylow", "")
        if "corners" in name:
            base = name.split("_")[0]
        fin = np.isfinite(a) & np.isfinite(b)
        if not np.array_equal(np.isfinite(a), np.isfinite(b)):
            worst["finite:" + name] = 1.0
            continue
        if not fin.any():
            continue
        if base in tab:
            worst[name] = rel(a[fin] * tab[base], b[fin])
        elif kind != "twopi":
            worst["|%s|" % name] = rel(np.abs(a[fin]), np.abs(b[fin]))
            # the factor must be one sign over the whole array (where the value is not negligible)
            big = fin & (np.abs(a) > 1e-6 * np.nanmax(np.abs(a)))
            sg = np.sign(a[big]) * np.sign(b[big])
            if sg.size and not (np.all(sg > 0) or np.all(sg < 0)):
                worst["mixed-sign:" + name] = 1.0
    res.extra.setdefault("reversal_worst", {})[t] = {k: v for k, v in sorted(worst.items(), key=lambda kv: -kv[1])[:6]}
    # sign reversals reproduce the arithmetic exactly (observed 4e-16); dividing psi by 2*pi rescales every absolute tolerance given in
    # psi units (refine_atol, leg/X-point refinement), which moves points *along* their surfaces by up to 1.5e-6 m at
    # finecontour_Nfine=40: that pair is compared at the tolerance used for the mirror pairs. (The first version used 1e-9 for all
    # three kinds and raised a false alarm on psi_divide_twopi.)
    tp, tf = (1e-9, 1e-6) if kind != "twopi" else (1e-5, 2e-4)
    pos = {k: v for k, v in worst.items() if k.startswith(("Rxy", "Zxy")) and v > tp}
    oth = {k: v for k, v in worst.items() if not k.startswith(("Rxy", "Zxy")) and v > tf}
    if pos:
        k = max(pos, key=pos.get)
        res.violation("reversal-positions:%s" % t, "%s: grid positions change under the field reversal (%s by %.2e relative)" % (t, k, pos[k]), {"spec": spA})
    elif oth:
        k = max(oth, key=oth.get)
        res.violation("reversal-fields:%s:%s" % (t, k.split(":")[0]), "%s: %s is not the expected multiple of the original (%.2e relative)" % (t, k, oth[k]), {"spec": spA, "worst": oth})
    else:
        res.traces += 1


def run(res, tier):
    import gridlab

    res.rule = ("grid pairs: equilibrium vs mirror image (psi array and wall reflected, lower/upper options exchanged) compared region by region with y "
                "reversed (positions at centre/xlow/ylow/corners within 2e-6 m, fields within 2e-4 relative, magnitudes for sign-carrying fields); "
                "psi -> -psi, fpol -> -fpol given directly and through reverse_current / reverse_Bt, and psi_divide_twopi vs psi/2pi given directly: positions "
                "identical to 1e-9, listed fields scaled by the expected factor, all other fields equal in magnitude with one sign per array. distinct by (pair)")
    res.trusted += ["the mirrored input is produced by reflecting the psi array and wall exactly; numerical paths (solve_ivp, Newton) differ in rounding only"]
    ex = ["onsurface", "regions"]
    shared_array_relations(res)
    pairs = []   # (tag, kind, specA, specB)

    def mirror_pair(geo, options, **kw):
        a = gridlab.tokamak_spec(geo, options=options, extract=ex, fpol="linear", pressure="parab", **kw)
        b = gridlab.tokamak_spec(geo, options=mu_options(a["options"]), extract=ex, fpol="linear", pressure="parab", mirror=True, **kw)
        pairs.append(("mirror %s %s" % (geo, {k: v for k, v in options.items()}), "mirror", a, b))

    mirror_pair("lsn", {"psinorm_pf_lower": 0.96})
    mirror_pair("cdn", {"ny_inner_lower_divertor": 3, "ny_inner_upper_divertor": 4})
    mirror_pair("ldn", {})
    # the option that rewrites Bpxy at the y-faces next to an X-point from the neighbouring cells (acts when Bp > 0: psi negated)
    mirror_pair("lsn", {"cap_Bp_ylow_xpoint": True}, psi_sign=-1.0)
    # non-orthogonal, radial segments of different widths: the spacing weights depend on the radial index relative to the separatrix and on which
    # end of a region (lower / upper, exchanged by the reflection) is being weighted
    mirror_pair("lsn", {"orthogonal": False, "nx_core": 3, "nx_pf": 3, "nx_sol": 2}, wall=[(1.2, -0.5), (1.2, 0.5), (1.8, 0.5), (1.8, -0.5)])
    if tier == "thorough":
        mirror_pair("usn", {"psinorm_pf_upper": 0.93, "ny_outer_upper_divertor": 5})
        mirror_pair("udn", {"psinorm_pf_lower": 0.95})
        mirror_pair("lsn", {"psi_interpolation_method": "dct"})
        mirror_pair("cdn", {"orthogonal": False})
        mirror_pair("lsn", {"y_boundary_guards": 2})

    def rev_pair(name, kind, a_kw, b_kw, geo="lsn"):
        a = gridlab.tokamak_spec(geo, extract=ex, pressure="parab", **a_kw)
        b = gridlab.tokamak_spec(geo, extract=ex, pressure="parab", **b_kw)
        pairs.append((name, kind, a, b))

    rev_pair("psi->-psi lsn", "psi", dict(fpol="linear"), dict(fpol="linear", psi_sign=-1.0))
    rev_pair("reverse_current lsn", "psi", dict(fpol="linear"), dict(fpol="linear", options={"reverse_current": True}))
    rev_pair("reverse_Bt lsn", "bt", dict(fpol="const"), dict(fpol="const", options={"reverse_Bt": True}))
    rev_pair("fpol->-fpol lsn", "bt", dict(fpol="const"), dict(fpol="negconst"))
    rev_pair("psi_divide_twopi lsn", "twopi", dict(fpol="linear"), dict(fpol="linear", options={"psi_divide_twopi": True}))
    # the same reversal given as data and as an option must be treated alike by every topology check (connected double null)
    rev_pair("reverse_current cdn vs negated psi", "same", dict(fpol="linear", psi_sign=-1.0), dict(fpol="linear", options={"reverse_current": True}), geo="cdn")
    if tier == "thorough":
        rev_pair("psi->-psi cdn", "psi", dict(fpol="linear"), dict(fpol="linear", psi_sign=-1.0), geo="cdn")
        rev_pair("reverse_current+Bt udn", "psi", dict(fpol="linear", options={"reverse_Bt": True}), dict(fpol="linear", options={"reverse_current": True, "reverse_Bt": True}), geo="udn")
    specs = [s for p in pairs for s in (p[2], p[3])]
    out = gridlab.get(specs)
    for k, (t, kind, a, b) in enumerate(pairs):
        A, B = out[2 * k], out[2 * k + 1]
        res.case(key=t, nontrivial=True, sample={"pair": t})
        if A["error"] or B["error"]:
            if bool(A["error"]) != bool(B["error"]):
                res.violation("one-sided-refusal:" + t, "%s: one of the two grids is refused, the other generated: %r / %r" % (t, A["error"] and A["error"][:2], B["error"] and B["error"][:2]), {"spec": a})
            else:
                res.extra.setdefault("refused", []).append([t, str(A["error"][:2])[:160]])
            continue
        if kind == "mirror":
            compare_mirror(res, t, A, B, a)
        else:
            compare_reversal(res, t, kind, A, B, a)


def shared_array_relations(res):
    """default, psi_divide_twopi and reverse_current equilibria built one after the other from the SAME input arrays: psi, Bp and the field
    magnitudes of the later ones stand in the stated relations to the first (equilibrium level, no grid)"""
    import contextlib
    import io
    import warnings
    from hypnotoad import tokamak
    from props.c14 import example

    r1, z1, p2, p1 = example("lsn")
    fpol = 2.5 + 0.8 * np.linspace(0, 1, len(p1))
    R = np.array([1.32, 1.45, 1.58, 1.66])
    Z = np.array([-0.12, 0.05, 0.17, -0.2])
    built = {}
    for tag, opts in (("default", {}), ("twopi", {"psi_divide_twopi": True}), ("reversed", {"reverse_current": True}), ("default-again", {})):
        try:
            with warnings.catch_warnings(), contextlib.redirect_stdout(io.StringIO()):
                warnings.simplefilter("ignore")
                eq = tokamak.TokamakEquilibrium(r1, z1, p2, p1, fpol, make_regions=False, settings=dict(opts))
            built[tag] = (np.array(eq.psi(R, Z), dtype=float), np.hypot(np.array(eq.Bp_R(R, Z), dtype=float), np.array(eq.Bp_Z(R, Z), dtype=float)))
        except Exception as e:
            res.extra.setdefault("refused", []).append(["shared arrays " + tag, str(e)[:160]])
            return
    p0, b0 = built["default"]
    for tag, fpsi, fb in (("twopi", 1.0 / (2 * np.pi), 1.0 / (2 * np.pi)), ("reversed", -1.0, 1.0), ("default-again", 1.0, 1.0)):
        res.case(key=("shared-arrays", tag), nontrivial=True, sample={"op": "equilibria from the same arrays", "option": tag})
        p, b = built[tag]
        e1 = float(np.max(np.abs(p - fpsi * p0)) / np.max(np.abs(p0)))
        e2 = float(np.max(np.abs(b - fb * b0)) / np.max(np.abs(b0)))
        if e1 > 1e-9 or e2 > 1e-9:
            res.violation("shared-arrays-relation:" + tag, "equilibria built one after the other from the same input arrays: psi of the '%s' one is not %.6g x psi of the "
                          "first (relative error %.3g; |Bp| %.3g)" % (tag, fpsi, e1, e2), {"option": tag})
        else:
            res.traces += 1


def replay(rep):
    print("REPLAY payload:", rep.get("payload"))
    return 1
