"""C20 — segment/polygon predicates agree with exact arithmetic.
Direct oracle: independent exact evaluation with fractions.Fraction.  Correspondence: the Lean model
(lean/HypnoModel/Model/Intersect.lean, exact rationals) on the same inputs."""
import itertools
import math
import sys
import types
from fractions import Fraction as F

import numpy as np

import vlib

TOL = 1e-12


def fr(x):
    return F(x)


def rs(x):
    x = F(x)
    return "%d/%d" % (x.numerator, x.denominator) if x.denominator != 1 else "%d" % x.numerator


def pstr(p):
    return rs(p[0]) + "," + rs(p[1])


def poly_str(w):
    return ";".join(pstr(p) for p in w) if w else "-"


# ----- exact geometry (independent of the model)

def orient(a, b, c):
    return (b[0] - a[0]) * (c[1] - a[1]) - (b[1] - a[1]) * (c[0] - a[0])


def on_seg(a, b, p):
    return orient(a, b, p) == 0 and min(a[0], b[0]) <= p[0] <= max(a[0], b[0]) and min(a[1], b[1]) <= p[1] <= max(a[1], b[1])


def seg_relation(a, b, c, d):
    """'proper' (interiors cross at one point), 'disjoint', or 'touch' (degenerate: shares an endpoint / collinear overlap /
    endpoint on the other segment)"""
    o1, o2, o3, o4 = orient(a, b, c), orient(a, b, d), orient(c, d, a), orient(c, d, b)
    if o1 * o2 < 0 and o3 * o4 < 0:
        return "proper"
    if on_seg(a, b, c) or on_seg(a, b, d) or on_seg(c, d, a) or on_seg(c, d, b):
        return "touch"
    return "disjoint"


def cross_point(a, b, c, d):
    den = (b[0] - a[0]) * (d[1] - c[1]) - (b[1] - a[1]) * (d[0] - c[0])
    t = ((c[0] - a[0]) * (d[1] - c[1]) - (c[1] - a[1]) * (d[0] - c[0])) / den
    return (a[0] + t * (b[0] - a[0]), a[1] + t * (b[1] - a[1]))


def exact_closest2(p, a, b):
    m = (b[0] - a[0], b[1] - a[1])
    mm = m[0] * m[0] + m[1] * m[1]
    t = ((p[0] - a[0]) * m[0] + (p[1] - a[1]) * m[1]) / mm
    t = max(F(0), min(F(1), t))
    q = (a[0] + t * m[0], a[1] + t * m[1])
    return (p[0] - q[0]) ** 2 + (p[1] - q[1]) ** 2


def shoelace2(poly):
    n = len(poly)
    return sum((poly[(i + 1) % n][0] - poly[i][0]) * (poly[i][1] + poly[(i + 1) % n][1]) for i in range(n))


# ----- implementation access

def fake_matplotlib():
    if "matplotlib.pyplot" not in sys.modules or not hasattr(sys.modules["matplotlib.pyplot"], "_verif_fake"):
        m = types.ModuleType("matplotlib")
        pp = types.ModuleType("matplotlib.pyplot")
        for name in ("plot", "show", "figure", "axhline", "legend", "subplot", "pcolor", "title", "colorbar"):
            setattr(pp, name, lambda *a, **k: None)
        pp._verif_fake = True
        m.pyplot = pp
        sys.modules.setdefault("matplotlib", m)
        sys.modules["matplotlib.pyplot"] = pp


def impl_find(wall, p1, p2):
    from hypnotoad.core.equilibrium import find_intersections, Point2D

    arr = np.array([[float(a), float(b)] for a, b in wall])
    with np.errstate(all="ignore"):
        out = find_intersections(arr, Point2D(float(p1[0]), float(p1[1])), Point2D(float(p2[0]), float(p2[1])))
    return [] if out is None else [(float(r), float(z)) for r, z in out]


def impl_wall(wall, p1, p2):
    import contextlib
    import io

    from hypnotoad.core.equilibrium import Equilibrium, Point2D

    fake_matplotlib()

    class D:
        pass

    d = D()
    d.closed_wallarray = np.array([[float(a), float(b)] for a, b in wall])
    d.closed_wall = [Point2D(float(a), float(b)) for a, b in wall]
    try:
        with np.errstate(all="ignore"), contextlib.redirect_stdout(io.StringIO()):
            r = Equilibrium.wallIntersection(d, Point2D(float(p1[0]), float(p1[1])), Point2D(float(p2[0]), float(p2[1])))
        return ("none",) if r is None else ("one", (r.R, r.Z))
    except ValueError:
        return ("toomany",)
    except RuntimeError:
        return ("multiple",)


def close(a, b):
    return abs(a - b) <= TOL * max(1.0, abs(a), abs(b))


def parse_hits(s):
    if s == "-":
        return []
    out = []
    for t in s.split(";"):
        r, z = t.split(",")
        out.append((F(r), F(z)))
    return out


# ----- case generation

def lattice_cases(tier):
    n = 3
    pts = [(F(i), F(j)) for i in range(n) for j in range(n)]
    walls = []
    for a, b, c in itertools.product(pts, repeat=3):
        if a != b and b != c:
            walls.append([a, b, c])
    segs = [(p, q) for p in pts for q in pts if p != q]
    if tier == "quick":
        walls = walls[::3]
    # off-lattice segment end points so that crossings fall strictly inside edges as well
    segs2 = [((p[0] + F(1, 2), p[1] + F(1, 3)), (q[0] - F(1, 3), q[1] + F(1, 2))) for p, q in segs[::3]]
    cases = []
    for w in walls:
        for s in segs + segs2:
            cases.append((w, s[0], s[1]))
    return cases


def random_cases(r, n):
    cases = []
    for _ in range(n):
        k = r.randint(2, 6)
        mode = r.random()
        if mode < 0.5:
            wall = [(F(r.uniform(-2, 2)), F(r.uniform(-2, 2))) for _ in range(k)]
        else:
            # steep / shallow / axis-aligned edges
            wall = [(F(r.uniform(-2, 2)), F(r.uniform(-2, 2)))]
            for _ in range(k - 1):
                a = wall[-1]
                c = r.choice(["h", "v", "steep", "shallow", "diag"])
                d = r.uniform(0.2, 1.5) * r.choice([-1, 1])
                e = {"h": 0.0, "v": 0.0, "steep": r.uniform(-0.2, 0.2), "shallow": r.uniform(-0.2, 0.2), "diag": d * r.choice([-1, 1])}[c]
                # every coordinate is an exactly representable double (the implementation receives floats)
                if c in ("h", "shallow", "diag"):
                    wall.append((F(float(a[0]) + d), F(float(a[1]) + e)))
                else:
                    wall.append((F(float(a[0]) + e), F(float(a[1]) + d)))
        if r.random() < 0.5:
            wall.append(wall[0])
        p1 = (F(r.uniform(-2, 2)), F(r.uniform(-2, 2)))
        c = r.random()
        if c < 0.15:
            p2 = (p1[0], F(r.uniform(-2, 2)))
        elif c < 0.3:
            p2 = (F(r.uniform(-2, 2)), p1[1])
        else:
            p2 = (F(r.uniform(-2, 2)), F(r.uniform(-2, 2)))
        if p1 != p2:
            cases.append((wall, p1, p2))
    return cases


def check_find(res, cases, label):
    lines = ["c20f %s %s %s" % (poly_str(w), pstr(p1), pstr(p2)) for w, p1, p2 in cases]
    mo = vlib.lean_driver(lines)
    degenerate_mismatch = 0
    slope_hits = {}
    for (w, p1, p2), m in zip(cases, mo):
        hits = impl_find(w, p1, p2)
        mh = parse_hits(m.split(" ")[0])
        # exact classification per edge
        rel = [seg_relation(w[i], w[i + 1], p1, p2) for i in range(len(w) - 1) if w[i] != w[i + 1]]
        nproper = rel.count("proper")
        degenerate = "touch" in rel
        seg_class = "R" if abs(p2[0] - p1[0]) > abs(p2[1] - p1[1]) else "Z"
        key = (label, seg_class, tuple(sorted(set(rel))), len(w))
        slope_hits[key] = slope_hits.get(key, 0) + 1
        res.case(key=(label, seg_class, tuple(rel), len(hits)), nontrivial=(nproper > 0 or degenerate),
                 sample={"wall": [[float(a), float(b)] for a, b in w], "p1": [float(p1[0]), float(p1[1])],
                         "p2": [float(p2[0]), float(p2[1])], "hits": hits} if len(res.samples) < 4 else None)
        payload = {"wall": [[rs(a), rs(b)] for a, b in w], "p1": [rs(p1[0]), rs(p1[1])], "p2": [rs(p2[0]), rs(p2[1])]}
        # --- direct oracle (non-degenerate configurations only)
        if not degenerate:
            if len(hits) != nproper:
                res.violation("find:count:%s" % seg_class,
                              "find_intersections reports %d points, exact arithmetic: %d proper crossings (segment class %s)" % (
                                  len(hits), nproper, seg_class), payload)
                continue
            exp = [cross_point(w[i], w[i + 1], p1, p2) for i in range(len(w) - 1)
                   if w[i] != w[i + 1] and seg_relation(w[i], w[i + 1], p1, p2) == "proper"]
            for h in hits:
                if not any(close(h[0], float(e[0])) and close(h[1], float(e[1])) for e in exp):
                    res.violation("find:point", "reported point %r is not a crossing point (exact: %s)" % (h, [(float(a), float(b)) for a, b in exp]), payload)
                    break
            # reversed segment behaves identically
            hr = impl_find(w, p2, p1)
            if sorted(hr) != sorted(hits) and not (len(hr) == len(hits) and all(
                    any(close(a[0], b[0]) and close(a[1], b[1]) for b in hits) for a in hr)):
                res.violation("find:reversal", "reversed segment gives different crossings", payload)
        # --- correspondence with the model (exact rationals, same tolerances)
        # order-insensitive: an edge with |dR| = |dZ| to rounding may be classed a or b, which only changes the order
        mhs = sorted((float(a[0]), float(a[1])) for a in mh)
        same = len(mh) == len(hits) and all(close(a[0], b[0]) and close(a[1], b[1]) for a, b in zip(mhs, sorted(hits)))
        if same:
            res.traces += 1
        elif degenerate:
            degenerate_mismatch += 1
        else:
            res.broken("find_intersections differs from the model on a non-degenerate configuration",
                       {"case": payload, "impl": hits, "model": [(float(a), float(b)) for a, b in mh]})
    res.extra.setdefault("degenerate_mismatches_ignored", 0)
    res.extra["degenerate_mismatches_ignored"] += degenerate_mismatch
    res.extra.setdefault("distribution", {}).update({str(k): v for k, v in list(slope_hits.items())[:40]})


def check_wall(res, r, tier):
    """wallIntersection on closed walls: shared-vertex crossings are one point"""
    sq = [(F(0), F(0)), (F(2), F(0)), (F(2), F(2)), (F(0), F(2)), (F(0), F(0))]
    octo = [(F(1), F(0)), (F(2), F(0)), (F(3), F(1)), (F(3), F(2)), (F(2), F(3)), (F(1), F(3)), (F(0), F(2)), (F(0), F(1)), (F(1), F(0))]
    cases = []
    c = (F(1), F(1))
    for w in (sq, octo):
        centre = (F(1), F(1)) if w is sq else (F(3, 2), F(3, 2))
        for v in w[:-1]:
            # ray from the centre through a vertex, and through edge midpoints
            d = (v[0] - centre[0], v[1] - centre[1])
            cases.append((w, centre, (centre[0] + 2 * d[0], centre[1] + 2 * d[1]), "vertex"))
        for i in range(len(w) - 1):
            mid = ((w[i][0] + w[i + 1][0]) / 2, (w[i][1] + w[i + 1][1]) / 2)
            d = (mid[0] - centre[0], mid[1] - centre[1])
            cases.append((w, centre, (centre[0] + 2 * d[0], centre[1] + 2 * d[1]), "edge"))
        cases.append((w, centre, (centre[0] + F(1, 4), centre[1] + F(1, 5)), "inside"))
        cases.append((w, (F(-1), F(1, 2)), (F(4), F(3, 5)), "through"))
    lines = ["c20f %s %s %s" % (poly_str(w), pstr(p1), pstr(p2)) for w, p1, p2, _ in cases]
    mo = vlib.lean_driver(lines)
    for (w, p1, p2, kind), m in zip(cases, mo):
        got = impl_wall(w, p1, p2)
        mv = m.split(" ", 1)[1].split(" ")
        res.case(key=("wall", kind, len(w), pstr(p2)), nontrivial=True)
        payload = {"wall": [[rs(a), rs(b)] for a, b in w], "p1": [rs(p1[0]), rs(p1[1])], "p2": [rs(p2[0]), rs(p2[1])], "kind": kind}
        want = {"vertex": "one", "edge": "one", "inside": "none", "through": "multiple"}[kind]
        if got[0] != want:
            res.violation("wall:" + kind, "wallIntersection gives %s for a segment %s the closed wall (expected %s)" % (got[0], kind, want), payload)
            continue
        if got[0] == "one":
            # the point is on the wall and on the segment
            P = got[1]
            dw = min(math.sqrt(float(exact_closest2((F(P[0]), F(P[1])), w[i], w[i + 1]))) for i in range(len(w) - 1))
            ds = math.sqrt(float(exact_closest2((F(P[0]), F(P[1])), p1, p2)))
            if dw > 1e-12 or ds > 1e-12:
                res.violation("wall:point", "reported point is %.3g from the wall and %.3g from the segment" % (dw, ds), payload)
                continue
        if mv[0] != got[0]:
            res.broken("wallIntersection verdict differs from the model", {"case": payload, "impl": got[0], "model": mv[0]})
        else:
            res.traces += 1


def check_closest(res, r, n):
    from hypnotoad.core.equilibrium import closest_approach

    cases = []
    L = [F(i, 2) for i in range(-2, 3)]
    for _ in range(n):
        if r.random() < 0.5:
            p, a, b = [(r.choice(L), r.choice(L)) for _ in range(3)]
        else:
            p, a, b = [(F(r.uniform(-3, 3)), F(r.uniform(-3, 3))) for _ in range(3)]
        if a != b:
            cases.append((p, a, b))
    mo = vlib.lean_driver(["c20c %s %s %s" % (pstr(p), pstr(a), pstr(b)) for p, a, b in cases])
    for (p, a, b), m in zip(cases, mo):
        got = float(closest_approach([float(p[0]), float(p[1])], [float(a[0]), float(a[1])], [float(b[0]), float(b[1])]))
        want = math.sqrt(float(exact_closest2(p, a, b)))
        res.case(key=("closest", pstr(p), pstr(a), pstr(b)), nontrivial=True)
        payload = {"p": [rs(p[0]), rs(p[1])], "a": [rs(a[0]), rs(a[1])], "b": [rs(b[0]), rs(b[1])]}
        if abs(got - want) > 1e-12 * max(1.0, want):
            res.violation("closest", "closest_approach = %r, exact minimum distance = %r" % (got, want), payload)
        elif abs(math.sqrt(float(F(m))) - got) > 1e-12 * max(1.0, got):
            res.broken("closest_approach differs from the model", {"case": payload, "impl": got, "model": m})
        else:
            res.traces += 1


def check_polygons(res, r, n):
    from hypnotoad.utils import polygons

    L = [F(i) for i in range(0, 4)]
    cases = []
    for _ in range(n):
        k = r.randint(3, 6)
        if r.random() < 0.5:
            poly = [(r.choice(L), r.choice(L)) for _ in range(k)]
        else:
            poly = [(F(r.uniform(-2, 2)), F(r.uniform(-2, 2))) for _ in range(k)]
        cases.append(poly)
    mo = vlib.lean_driver(["c20a %s" % poly_str(p) for p in cases])
    for poly, m in zip(cases, mo):
        fl = [(float(a), float(b)) for a, b in poly]
        got_a = polygons.area(fl)
        got_c = bool(polygons.clockwise(fl))
        ex = shoelace2(poly) / 2
        res.case(key=("area", poly_str(poly)), nontrivial=(ex != 0))
        payload = {"polygon": [[rs(a), rs(b)] for a, b in poly]}
        if abs(got_a - float(ex)) > 1e-12 * max(1.0, abs(float(ex))) or (abs(float(ex)) > 1e-9 and got_c != (ex > 0)):
            res.violation("area", "polygons.area = %r / clockwise = %r, exact signed area = %r" % (got_a, got_c, float(ex)), payload)
            continue
        # reversal negates
        if abs(polygons.area(fl[::-1]) + got_a) > 1e-12 * max(1.0, abs(got_a)):
            res.violation("area:reversal", "area of the reversed polygon is not the negative", payload)
            continue
        ma, mc = m.split()
        if abs(float(F(ma)) / 2 - got_a) > 1e-12 * max(1.0, abs(got_a)) or (abs(float(ex)) > 1e-9 and (mc == "true") != got_c):
            res.broken("polygons.area/clockwise differ from the model", {"case": payload, "impl": [got_a, got_c], "model": m})
        else:
            res.traces += 1
    # polygon-polygon intersection, closed and open polylines
    pairs = []
    for _ in range(n):
        k1, k2 = r.randint(2, 5), r.randint(2, 5)
        if r.random() < 0.6:
            p1 = [(r.choice(L), r.choice(L)) for _ in range(k1)]
            p2 = [(r.choice(L) + F(1, 2), r.choice(L) + F(1, 3)) for _ in range(k2)]
        else:
            p1 = [(F(r.uniform(0, 3)), F(r.uniform(0, 3))) for _ in range(k1)]
            p2 = [(F(r.uniform(0, 3)), F(r.uniform(0, 3))) for _ in range(k2)]
        pairs.append((p1, r.random() < 0.5, p2, r.random() < 0.5))
    # the open two-point polyline that must be able to intersect something
    pairs.append(([(F(0), F(0)), (F(2), F(2))], False, [(F(0), F(2)), (F(2), F(0))], False))
    pairs.append(([(F(0), F(0)), (F(2), F(0)), (F(2), F(2))], False, [(F(1), F(-1)), (F(1), F(1))], False))
    mo = vlib.lean_driver(["c20i %s %d %s %d" % (poly_str(a), c1, poly_str(b), c2) for a, c1, b, c2 in pairs])
    for (a, c1, b, c2), m in zip(pairs, mo):
        def segs(p, closed):
            return [(p[i], p[(i + 1) % len(p)]) for i in range(len(p) if closed else len(p) - 1)]

        rels = []
        for s in segs(a, c1):
            for t in segs(b, c2):
                if s[0] == s[1] or t[0] == t[1]:
                    continue
                det = (s[1][0] - s[0][0]) * (t[1][1] - t[0][1]) - (t[1][0] - t[0][0]) * (s[1][1] - s[0][1])
                rel = seg_relation(s[0], s[1], t[0], t[1])
                rels.append((rel, abs(det)))
        want = any(rel == "proper" and det >= F(1, 10 ** 5) for rel, det in rels)
        borderline = any(rel == "touch" or (rel == "proper" and det < F(1, 10 ** 5)) for rel, det in rels)
        got = bool(polygons.intersect([float(p[0]) for p in a], [float(p[1]) for p in a], [float(p[0]) for p in b],
                                      [float(p[1]) for p in b], closed1=c1, closed2=c2))
        res.case(key=("polyint", poly_str(a), c1, poly_str(b), c2), nontrivial=want or borderline)
        payload = {"poly1": [[rs(x), rs(y)] for x, y in a], "closed1": c1, "poly2": [[rs(x), rs(y)] for x, y in b], "closed2": c2}
        if not borderline and got != want:
            wid = "polyint:open" if (not c1 or not c2) else "polyint:closed"
            res.violation(wid, "polygons.intersect = %r, exact evaluation = %r (closed1=%r, closed2=%r)" % (got, want, c1, c2), payload)
            continue
        if (m == "true") != got and not borderline:
            res.broken("polygons.intersect differs from the model", {"case": payload, "impl": got, "model": m})
        else:
            res.traces += 1


def check_equilibrium_wall(res, r):
    """wallIntersection of a REAL equilibrium object (its own closed_wallarray, built by Equilibrium.__init__ from the input wall), for walls
    that visit a vertex twice (a zero-thickness fin): crossings against exact arithmetic on the input wall"""
    import contextlib
    import io
    import warnings
    from fractions import Fraction as F
    from hypnotoad import tokamak
    from hypnotoad.core.equilibrium import Point2D
    from props.c14 import example

    r1, z1, p2, p1 = example("lsn")
    walls = {"finned floor": [(1.25, -0.625), (1.5, -0.625), (1.5, -0.375), (1.5, -0.625), (1.75, -0.625), (1.75, 0.625), (1.25, 0.625)],
             "plain": [(1.25, -0.625), (1.75, -0.625), (1.75, 0.625), (1.25, 0.625)],
             "fin on the roof": [(1.25, -0.625), (1.75, -0.625), (1.75, 0.625), (1.5, 0.625), (1.5, 0.375), (1.5, 0.625), (1.25, 0.625)]}
    for wname, wall in walls.items():
        with warnings.catch_warnings(), contextlib.redirect_stdout(io.StringIO()):
            warnings.simplefilter("ignore")
            eq = tokamak.TokamakEquilibrium(r1, z1, p2.copy(), p1.copy(), [], wall=list(wall), make_regions=False, settings={})
        inw = [(float(p.R), float(p.Z)) for p in eq.wall]          # as stored (possibly reversed)
        closed = inw + [inw[0]]
        segs = [((1.625, -0.75), (1.625, -0.5)), ((1.625, -0.5625), (1.625, -0.4375)), ((1.375, -0.75), (1.375, -0.5)), ((1.4375, -0.5), (1.5625, -0.5)),
                ((1.625, 0.5), (1.625, 0.75)), ((1.625, 0.4375), (1.625, 0.5625)), ((1.4375, 0.5), (1.5625, 0.5))]
        for _ in range(40):
            a = (1.25 + r.randint(1, 31) / 64, r.choice([-1, 1]) * (0.3 + r.randint(0, 30) / 64))
            b = (a[0] + r.randint(-12, 12) / 64, a[1] + r.randint(-16, 16) / 64)
            if a != b:
                segs.append((a, b))
        for a, b in segs + [(q, p) for p, q in segs]:
            fa, fb = (F(a[0]), F(a[1])), (F(b[0]), F(b[1]))
            rel_ = [seg_relation(fa, fb, (F(c[0]), F(c[1])), (F(d[0]), F(d[1]))) for c, d in zip(closed[:-1], closed[1:])]
            if "touch" in rel_:
                continue            # degenerate: not judged
            pts = {cross_point(fa, fb, (F(c[0]), F(c[1])), (F(d[0]), F(d[1]))) for (c, d), k_ in zip(zip(closed[:-1], closed[1:]), rel_) if k_ == "proper"}
            res.case(key=("eq-wall", wname, len(pts)), nontrivial=bool(pts))
            payload = {"wall": wall, "segment": [a, b]}
            try:
                with warnings.catch_warnings(), contextlib.redirect_stdout(io.StringIO()):
                    warnings.simplefilter("ignore")
                    got = eq.wallIntersection(Point2D(*a), Point2D(*b))
            except Exception as e:
                if len(pts) <= 1:
                    res.violation("eq-wall:raises", "%s wall: wallIntersection raises %s for a segment with %d exact crossing(s)" % (wname, type(e).__name__, len(pts)), payload)
                continue
            if len(pts) == 0 and got is not None:
                res.violation("eq-wall:spurious", "%s wall: segment %s-%s does not meet the input wall but (%.5f, %.5f) is reported" % (wname, a, b, got.R, got.Z), payload)
            elif len(pts) == 1:
                p_ = next(iter(pts))
                if got is None or abs(got.R - float(p_[0])) > 1e-9 or abs(got.Z - float(p_[1])) > 1e-9:
                    res.violation("eq-wall:missed", "%s wall: segment %s-%s crosses the input wall at (%.5f, %.5f), reported: %s" % (
                        wname, a, b, float(p_[0]), float(p_[1]), None if got is None else (got.R, got.Z)), payload)
                else:
                    res.traces += 1


def run(res, tier):
    r = vlib.rng("c20")
    res.rule = ("exhaustive: all two-edge polylines on the 3x3 integer lattice (every 7th in the quick tier) x all lattice segments + "
                "off-lattice segments; random real coordinates with steep/shallow/axis-aligned/45-degree edges; closed square and octagon "
                "walls with rays through vertices, edge midpoints, inside, straight through; closest_approach, polygons.area/clockwise/"
                "intersect on lattice and random inputs. The exact verdict comes from fractions.Fraction; touching/collinear "
                "configurations are classified degenerate and only counted. non-trivial = at least one proper crossing or touch")
    res.trusted += ["float -> exact rational conversion of the inputs (fractions.Fraction of a double is exact)",
                    "tolerances 1e-14 / 1e-15 / 1e-6 are those of the code; configurations touching within tolerance are excluded from the verdict as the property states"]
    cases = lattice_cases(tier)
    B = 20000
    for i in range(0, len(cases), B):
        check_find(res, cases[i:i + B], "lattice")
    check_find(res, random_cases(r, 3000 if tier == "quick" else 100000), "random")
    check_wall(res, r, tier)
    check_equilibrium_wall(res, r)
    check_closest(res, r, 1500 if tier == "quick" else 30000)
    check_polygons(res, r, 1500 if tier == "quick" else 30000)


def replay(rep):
    p = rep["payload"]
    if "wall" in p and "kind" not in p:
        w = [(F(a), F(b)) for a, b in p["wall"]]
        p1 = (F(p["p1"][0]), F(p["p1"][1]))
        p2 = (F(p["p2"][0]), F(p["p2"][1]))
        hits = impl_find(w, p1, p2)
        rel = [seg_relation(w[i], w[i + 1], p1, p2) for i in range(len(w) - 1) if w[i] != w[i + 1]]
        print("REPLAY: implementation reports", hits, "; exact relations per edge:", rel)
        return 0 if len(hits) == rel.count("proper") else 1
    print("REPLAY: payload", p)
    return 1
