"""Stub-geometry harness for C08: runs the REAL TokamakEquilibrium.describe*/createRegionObjects/makeConnection,
Mesh.__init__ numbering, x/y-group construction, BoutMesh.__init__, BoutMesh.geometry's addFromRegions and
BoutMesh.writeGridfile, replacing only MeshRegion (by a stub whose arrays hold the region id), the separatrix
regridding and Mesh.geometry.  ~0.2 s per (topology, size vector, guard count)."""
import contextlib
import io
import os
import re
import sys
import warnings

import numpy as np

import vlib

_eq_cache = {}


def field_names():
    src = open(os.path.join(vlib.REPO, "hypnotoad", "core", "mesh.py")).read()
    f2 = re.findall(r'addFromRegions\(\s*"([^"]+)"', src)
    f1 = re.findall(r'addFromRegionsXArray\(\s*"([^"]+)"', src)
    return sorted(set(f2)), sorted(set(f1))


def make_stub_class():
    from hypnotoad.core.multilocationarray import MultiLocationArray

    f2, f1 = field_names()

    class StubRegion:
        def __init__(self, meshParent, myID, equilibriumRegion, connections, radialIndex, settings, parallel_map):
            self.meshParent = meshParent
            self.myID = myID
            self.equilibriumRegion = equilibriumRegion
            self.name = equilibriumRegion.name + "(" + str(radialIndex) + ")"
            self.connections = connections
            self.radialIndex = radialIndex
            self.user_options = settings
            self.nx = equilibriumRegion.nx[radialIndex]
            self.ny = equilibriumRegion.ny(radialIndex)
            self.ny_noguards = equilibriumRegion.ny_noguards
            self.yGroupIndex = None
            for n in f2:
                a = MultiLocationArray(self.nx, self.ny)
                a.centre[...] = myID
                a.xlow[...] = myID
                a.ylow[...] = myID
                a.corners[...] = myID
                self.__dict__[n] = a
            for n in f1:
                a = MultiLocationArray(self.nx, 1)
                a.centre[...] = 1.0
                a.xlow[...] = 1.0
                self.__dict__[n] = a
            self.zShift.centre[...] = 1.0
            self.zShift.xlow[...] = 1.0
            self.zShift.ylow[...] = 1.0
            self.zShift.corners[...] = 1.0
            self.penalty_mask = np.full((self.nx, self.ny), float(myID))

        def getNeighbour(self, face):
            if self.connections[face] is None:
                return None
            return self.meshParent.regions[self.connections[face]]

    return StubRegion


def get_equilibrium(kind, options):
    """real equilibrium object with regions built from the real describe*/createRegionObjects code"""
    with warnings.catch_warnings(), contextlib.redirect_stdout(io.StringIO()):
        warnings.simplefilter("ignore")
        if kind == "circular":
            from hypnotoad.cases.circular import CircularEquilibrium

            return CircularEquilibrium(settings=dict(options), nonorthogonal_settings=dict(options))
        ex = os.path.join(vlib.REPO, "examples", "tokamak")
        if ex not in sys.path:
            sys.path.insert(0, ex)
        import tokamak_example
        from hypnotoad import tokamak

        if kind not in _eq_cache:
            _eq_cache[kind] = tokamak_example.create_tokamak(geometry=kind)
        r1d, z1d, psi2d, psi1d = _eq_cache[kind]
        return tokamak.TokamakEquilibrium(
            r1d, z1d, psi2d.copy(), psi1d.copy(), [], settings=dict(options),
            wall=[(1.25, -0.45), (1.25, 0.45), (1.75, 0.45), (1.75, -0.45)])


def xslots(eq):
    """per equilibrium region, for xPointsAtStart / xPointsAtEnd: one entry per radial boundary, None or
    (number of the X-point in eq.x_points, psi(X-point) - psi of that radial boundary, number of the X-point nearest to that end of the region)"""
    import numpy as np

    xp = list(getattr(eq, "x_points", []))
    out = []
    for name, r in eq.regions.items():
        pb = [float(pv[0]) for pv in r.psi_vals] + [float(r.psi_vals[-1][-1])]
        row = {"name": name}
        for end, slots, P in (("start", r.xPointsAtStart, r.points[0]), ("end", r.xPointsAtEnd, r.points[-1])):
            o = []
            for i, x in enumerate(slots):
                if x is None:
                    o.append(None)
                    continue
                which = [k for k, p in enumerate(xp) if p is x or (p.R == x.R and p.Z == x.Z)]
                near = int(np.argmin([np.hypot(P.R - p.R, P.Z - p.Z) for p in xp])) if xp else -1
                o.append((which[0] if which else -1, float(eq.psi(x.R, x.Z)) - pb[i], near))
            row[end] = o
        out.append(row)
    return out


def run_stub(kind, options):
    """returns dict: ints, per-region info (id, name, seg, x/y slices, connections), arrays from the written file"""
    from hypnotoad.core import mesh as meshmod
    from hypnotoad.core.equilibrium import EquilibriumRegion
    import gridlab

    Stub = make_stub_class()
    orig_region, orig_regrid, orig_geom = meshmod.MeshRegion, EquilibriumRegion.getRegridded, meshmod.Mesh.geometry
    out = {}
    path = os.path.join(vlib.WORK, "c08_stub_%d.nc" % os.getpid())
    try:
        eq = get_equilibrium(kind, options)
        meshmod.MeshRegion = Stub
        EquilibriumRegion.getRegridded = lambda self, **kw: self
        meshmod.Mesh.geometry = lambda self: None
        with warnings.catch_warnings(), contextlib.redirect_stdout(io.StringIO()):
            warnings.simplefilter("ignore")
            m = meshmod.BoutMesh(eq, dict(options))
            for r in m.regions.values():
                for loc in ("centre", "xlow", "ylow", "corners"):
                    getattr(r.dy, loc)[...] = m.dy_scalar
            m.geometry()
            if os.path.exists(path):
                os.remove(path)
            m.writeGridfile(path)
        v, a = gridlab.read_nc(path)
        os.remove(path)
        out["vars"] = v
        out["ints"] = {k: int(v[k]) for k in ["nx", "ny", "y_boundary_guards", "ixseps1", "ixseps2", "jyseps1_1", "jyseps2_1",
                                              "ny_inner", "jyseps1_2", "jyseps2_2"]}
        regs = {}
        for rid, r in m.regions.items():
            sl = m.region_indices[rid]
            regs[rid] = {"name": r.equilibriumRegion.name, "seg": r.radialIndex, "nx": r.nx, "ny": r.ny,
                         "ny_noguards": r.ny_noguards, "kind": r.equilibriumRegion.kind,
                         "x": (int(sl[0].start), int(sl[0].stop)), "y": (int(sl[1].start), int(sl[1].stop)),
                         "connections": dict(r.connections), "yGroupIndex": r.yGroupIndex}
        out["regions"] = regs
        out["region_order"] = list(eq.regions.keys())
        out["nx_segments"] = list(next(iter(eq.regions.values())).nx)
        out["ny_regions_noguards"] = [r.ny_noguards for r in eq.regions.values()]
        out["xslots"] = xslots(eq)
        out["y_groups"] = [[r.myID for r in g] for g in m.y_groups]
        out["x_groups"] = [[r.myID for r in g] for g in m.x_groups]
        out["double_null_type"] = getattr(eq, "double_null_type", None)
        out["mesh_ny"] = m.ny
        out["error"] = None
    except Exception as e:  # explicit refusal
        out["error"] = (type(e).__name__, str(e)[:500])
    finally:
        meshmod.MeshRegion, EquilibriumRegion.getRegridded, meshmod.Mesh.geometry = orig_region, orig_regrid, orig_geom
        if os.path.exists(path):
            os.remove(path)
    return out
